/-
C10 helper lemmas, part 8: iterators.  A cursor is a key reference; `Next` moves it to the successor /
predecessor in the sorted listing; `Remove` is `Map.Remove` of the last returned key and leaves the cursor on
the entry that follows in the iterator's direction.
-/
import Fatchoy.Lemmas.C10Run
namespace Fatchoy.C10

/-- a sorted list splits around a key in only one way -/
theorem split_unique {k : Nat} {v v' : Int} : ∀ {A A' B B' : List Entry}, AllLt A k → AllLt A' k →
    A ++ (k, v) :: B = A' ++ (k, v') :: B' → A = A' ∧ v = v' ∧ B = B'
  | [], [], B, B', _, _, h => by
    simp at h; exact ⟨rfl, h.1, h.2⟩
  | [], e :: A', B, B', _, h2, h => by
    simp at h
    have := h2 e (List.mem_cons_self ..)
    rw [← h.1] at this; simp at this
  | e :: A, [], B, B', h1, _, h => by
    simp at h
    have := h1 e (List.mem_cons_self ..)
    rw [h.1] at this; simp at this
  | e :: A, e' :: A', B, B', h1, h2, h => by
    simp only [List.cons_append, List.cons.injEq] at h
    obtain ⟨r1, r2, r3⟩ := split_unique (fun x hx => h1 x (List.mem_cons_of_mem _ hx))
      (fun x hx => h2 x (List.mem_cons_of_mem _ hx)) h.2
    exact ⟨by rw [h.1, r1], r2, r3⟩

/-- descending to a key that is present ends on its node; the listing splits there -/
theorem descend_present (t : Tree) (hs : Sorted (toList t)) {A B : List Entry} {k : Nat} {v : Int}
    (h : toList t = A ++ (k, v) :: B) :
    ∃ c l r p, descend t k [] = (.node c l k v r, p) ∧ A = pathL p ++ toList l ∧ B = toList r ++ pathR p := by
  obtain ⟨hl, _, hlt, hgt, hss⟩ := descend_root t k hs
  have hf := descend_focus t k []
  rcases hd : descend t k [] with ⟨s, p⟩
  rw [hd] at hl hlt hgt hss hf
  simp only at hl hlt hgt hss hf
  rw [h] at hs
  obtain ⟨_, _, hA, hB, _⟩ := sorted_mid.mp hs
  rcases hf with hf | ⟨c, l, v', r, hf⟩
  · subst hf
    simp only [toList_nil, List.append_nil] at hl
    have hmem : (k, v) ∈ pathL p ++ pathR p := by rw [← hl, h]; simp
    rcases List.mem_append.mp hmem with hm | hm
    · have := hlt _ hm; simp at this
    · have := hgt _ hm; simp at this
  · subst hf
    obtain ⟨_, _, hl1, hr1, _⟩ := sorted_mid.mp hss
    have hl' : A ++ (k, v) :: B = (pathL p ++ toList l) ++ (k, v') :: (toList r ++ pathR p) := by
      rw [← h, hl]; simp
    obtain ⟨r1, r2, r3⟩ := split_unique hA (hlt.append hl1) hl'
    subst r2
    exact ⟨c, l, r, p, rfl, r1, r3⟩

theorem head?_append_ne {α : Type} {l l' : List α} (h : l ≠ []) : (l ++ l').head? = l.head? := by
  cases l with
  | nil => exact absurd rfl h
  | cons a t => rfl

theorem getLast?_append_ne {α : Type} {l l' : List α} (h : l' ≠ []) : (l ++ l').getLast? = l'.getLast? := by
  rw [List.getLast?_append]
  cases hl : l'.getLast? with
  | none => exact absurd (List.getLast?_eq_none_iff.mp hl) h
  | some a => rfl

theorem toList_ne_nil_of_node : toList (.node c l k v r) ≠ [] := by simp

theorem successorAt_spec (r : Tree) (p : Path) : successorAt r p = (toList r ++ pathR p).head? := by
  cases r with
  | nil => simp [successorAt, climbFromRight_spec]
  | node c l k v r' =>
    simp only [successorAt, firstEntry_spec]
    rw [head?_append_ne toList_ne_nil_of_node]

theorem predecessorAt_spec (l : Tree) (p : Path) : predecessorAt l p = (pathL p ++ toList l).getLast? := by
  cases l with
  | nil => simp [predecessorAt, climbFromLeft_spec]
  | node c l' k v r =>
    simp only [predecessorAt, lastEntry_spec]
    rw [getLast?_append_ne toList_ne_nil_of_node]

theorem minKV_spec : ∀ (l : Tree) (k : Nat) (v : Int) (c : Color) (r : Tree),
    (toList (.node c l k v r)).head? = some (minKV l k v)
  | .nil, k, v, c, r => by simp [minKV]
  | .node lc ll lk lv lr, k, v, c, r => by
    have := minKV_spec ll lk lv lc lr
    simp only [minKV]
    rw [toList_node, head?_append_ne toList_ne_nil_of_node, this]

/-- `Next` of a valid iterator whose cursor is on `(k, v)`: returns it and moves on -/
theorem iterNext_asc (m : Map) (it : Iter) (hs : Sorted (toList m.root)) {A B : List Entry} {k : Nat} {v : Int}
    (h : toList m.root = A ++ (k, v) :: B) (hn : it.next = some k) (hv : it.expVer = m.version)
    (hk : it.kind.descending = false) :
    iterNext m it = .ok ({ it with next := B.head?.map (·.1), last := some k }, (k, v)) := by
  obtain ⟨c, l, r, p, hd, hA, hB⟩ := descend_present m.root hs h
  simp only [iterNext, hn, hv, hd, hk, ne_eq, not_true_eq_false, if_false, successorAt_spec, ← hB]
  rfl

theorem iterNext_desc (m : Map) (it : Iter) (hs : Sorted (toList m.root)) {A B : List Entry} {k : Nat} {v : Int}
    (h : toList m.root = A ++ (k, v) :: B) (hn : it.next = some k) (hv : it.expVer = m.version)
    (hk : it.kind.descending = true) :
    iterNext m it = .ok ({ it with next := A.getLast?.map (·.1), last := some k }, (k, v)) := by
  obtain ⟨c, l, r, p, hd, hA, hB⟩ := descend_present m.root hs h
  simp only [iterNext, hn, hv, hd, hk, ne_eq, not_true_eq_false, if_false, predecessorAt_spec, ← hA]
  rfl

/-- `Remove` after `Next` returned `(k, v)`: the map is `Map.Remove(k)`; the cursor stays on the entry that
follows in the iterator's direction (for the ascending Remove on a two-child node because `next` is re-pointed
to the node that now holds the successor; for the descending ones because they leave `next` alone) -/
theorem iterRemove_spec (P : Params) (hP : Valid P) (m : Map) (it : Iter) (hs : Sorted (toList m.root))
    {A B : List Entry} {k : Nat} {v : Int}
    (h : toList m.root = A ++ (k, v) :: B) (hl : it.last = some k) (hv : it.expVer = m.version)
    (hn : it.next = if it.kind.descending then A.getLast?.map (·.1) else B.head?.map (·.1)) :
    iterRemove P m it = .ok ((remove m k).1,
      { it with last := none, expVer := (remove m k).1.version }) ∧ (remove m k).1.version = m.version + 1 := by
  obtain ⟨c, l, r, p, hd, hA, hB⟩ := descend_present m.root hs h
  obtain ⟨_, _, hP3, hP4⟩ := hP
  have hrm : remove m k = ({ root := deleteAt c l r p, size := m.size - 1, version := m.version + 1 }, true) := by
    simp only [remove, hd]
  refine ⟨?_, by rw [hrm]⟩
  simp only [iterRemove, hl, hv, hd, ne_eq, not_true_eq_false, if_false, hrm]
  congr 2
  cases l with
  | nil => rfl
  | node lc ll lk lv lr =>
    cases r with
    | nil => rfl
    | node rc rl rk rv rr =>
      simp only
      cases hk : it.kind <;> simp only [usesAscRemove, hP3, hP4, Bool.not_true, Bool.false_eq_true, if_false, if_true]
      all_goals
        have hmin := minKV_spec rl rk rv rc rr
        rw [hB, head?_append_ne toList_ne_nil_of_node, hmin, hk] at hn
        simp [IterKind.descending] at hn
        rw [← hn]

/-- the ascending loop from a state whose cursor stands on the first entry of `rest` -/
theorem drain_asc (P : Params) (hP : Valid P) (sel : Nat → Bool) : ∀ (rest : List Entry) (fuel : Nat) (m : Map)
    (it : Iter) (done acc : List Entry),
    MapOK m → toList m.root = done ++ rest → it.next = rest.head?.map (·.1) → it.expVer = m.version →
    it.kind.descending = false →
    ∃ m' it', drain P sel fuel m it acc = ⟨m', it', acc ++ rest.take fuel, none⟩ ∧
      (rest.length < fuel → iterHasNext it' = false) ∧
      toList m'.root = done ++ ((rest.take fuel).filter (fun e => !sel e.1) ++ rest.drop fuel) ∧ MapOK m' ∧
      (RB m.root → RB m'.root)
  | rest, 0, m, it, done, acc, hm, hl, _, _, _ =>
    ⟨m, it, by simp [drain], fun h => by simp at h, by simpa using hl, hm, id⟩
  | [], f + 1, m, it, done, acc, hm, hl, hn, _, _ => by
    have hh : iterHasNext it = false := by simp [iterHasNext, hn]
    exact ⟨m, it, by simp [drain, hh], fun _ => hh, by simpa using hl, hm, id⟩
  | (k, v) :: rest', f + 1, m, it, done, acc, hm, hl, hn, hv, hk => by
    have hn' : it.next = some k := by simpa using hn
    have hh : iterHasNext it = true := by simp [iterHasNext, hn']
    have hnext := iterNext_asc m it hm.1 hl hn' hv hk
    simp only [drain, hh, if_true, hnext]
    cases hsel : sel k
    · simp only [Bool.false_eq_true, if_false]
      obtain ⟨m', it', h1, h2, h3, h4, h5⟩ := drain_asc P hP sel rest' f m
        { it with next := rest'.head?.map (·.1), last := some k } (done ++ [(k, v)]) (acc ++ [(k, v)])
        hm (by simp [hl]) rfl hv hk
      refine ⟨m', it', by simp [h1], fun h => h2 (by simp at h; omega), ?_, h4, h5⟩
      simp [h3, hsel]
    · simp only [if_true]
      have hs' := hm.1
      rw [hl] at hs'
      obtain ⟨_, _, hA, hB, _⟩ := sorted_mid.mp hs'
      obtain ⟨hrm, hver⟩ := iterRemove_spec P hP m { it with next := rest'.head?.map (·.1), last := some k } hm.1
        hl rfl hv (by simp [hk])
      obtain ⟨r1, _, r3⟩ := remove_refines m k hm
      rw [hl, eraseS_present hA hB] at r1
      simp only [hrm]
      obtain ⟨m', it', h1, h2, h3, h4, h5⟩ := drain_asc P hP sel rest' f (remove m k).1
        { it with next := rest'.head?.map (·.1), last := none, expVer := (remove m k).1.version } done (acc ++ [(k, v)])
        r3 r1 rfl rfl hk
      refine ⟨m', it', by simp [h1], fun h => h2 (by simp at h; omega), ?_, h4, fun hrb => h5 (remove_RB m k hrb)⟩
      simp [h3, hsel]

/-- the descending loop: `todo` is what remains to be visited, in visiting (descending) order -/
theorem drain_desc (P : Params) (hP : Valid P) (sel : Nat → Bool) : ∀ (todo : List Entry) (fuel : Nat) (m : Map)
    (it : Iter) (done acc : List Entry),
    MapOK m → toList m.root = todo.reverse ++ done → it.next = todo.head?.map (·.1) → it.expVer = m.version →
    it.kind.descending = true →
    ∃ m' it', drain P sel fuel m it acc = ⟨m', it', acc ++ todo.take fuel, none⟩ ∧
      (todo.length < fuel → iterHasNext it' = false) ∧
      toList m'.root = (todo.drop fuel).reverse ++ (((todo.take fuel).filter (fun e => !sel e.1)).reverse ++ done) ∧
      MapOK m' ∧ (RB m.root → RB m'.root)
  | todo, 0, m, it, done, acc, hm, hl, _, _, _ =>
    ⟨m, it, by simp [drain], fun h => by simp at h, by simpa using hl, hm, id⟩
  | [], f + 1, m, it, done, acc, hm, hl, hn, _, _ => by
    have hh : iterHasNext it = false := by simp [iterHasNext, hn]
    exact ⟨m, it, by simp [drain, hh], fun _ => hh, by simpa using hl, hm, id⟩
  | (k, v) :: todo', f + 1, m, it, done, acc, hm, hl, hn, hv, hk => by
    have hn' : it.next = some k := by simpa using hn
    have hh : iterHasNext it = true := by simp [iterHasNext, hn']
    have hl' : toList m.root = todo'.reverse ++ (k, v) :: done := by simp [hl]
    have hnext := iterNext_desc m it hm.1 hl' hn' hv hk
    rw [List.getLast?_reverse] at hnext
    simp only [drain, hh, if_true, hnext]
    cases hsel : sel k
    · simp only [Bool.false_eq_true, if_false]
      obtain ⟨m', it', h1, h2, h3, h4, h5⟩ := drain_desc P hP sel todo' f m
        { it with next := todo'.head?.map (·.1), last := some k } ((k, v) :: done) (acc ++ [(k, v)])
        hm hl' rfl hv hk
      refine ⟨m', it', by simp [h1], fun h => h2 (by simp at h; omega), ?_, h4, h5⟩
      simp [h3, hsel]
    · simp only [if_true]
      have hs' := hm.1
      rw [hl'] at hs'
      obtain ⟨_, _, hA, hB, _⟩ := sorted_mid.mp hs'
      obtain ⟨hrm, hver⟩ := iterRemove_spec P hP m { it with next := todo'.head?.map (·.1), last := some k } hm.1
        hl' rfl hv (by simp [hk, List.getLast?_reverse])
      obtain ⟨r1, _, r3⟩ := remove_refines m k hm
      rw [hl', eraseS_present hA hB] at r1
      simp only [hrm]
      obtain ⟨m', it', h1, h2, h3, h4, h5⟩ := drain_desc P hP sel todo' f (remove m k).1
        { it with next := todo'.head?.map (·.1), last := none, expVer := (remove m k).1.version } done (acc ++ [(k, v)])
        r3 r1 rfl rfl hk
      refine ⟨m', it', by simp [h1], fun h => h2 (by simp at h; omega), ?_, h4, fun hrb => h5 (remove_RB m k hrb)⟩
      simp [h3, hsel]

/-- removing the selected entries among a visited prefix / suffix, said with membership -/
theorem filter_visited_prefix (sel : Nat → Bool) {A B : List Entry} (hs : Sorted (A ++ B)) :
    (A ++ B).filter (fun e => !(sel e.1 && A.any (fun x => x.1 == e.1))) = A.filter (fun e => !sel e.1) ++ B := by
  obtain ⟨_, _, hAB⟩ := sorted_append.mp hs
  rw [List.filter_append]
  congr 1
  · apply List.filter_congr
    intro e he
    have : A.any (fun x => x.1 == e.1) = true := List.any_eq_true.mpr ⟨e, he, by simp⟩
    simp [this]
  · apply List.filter_eq_self.mpr
    intro e he
    have : A.any (fun x => x.1 == e.1) = false := by
      apply List.any_eq_false.mpr
      intro x hx
      have := hAB x hx e he
      simp; omega
    simp [this]

theorem filter_visited_suffix (sel : Nat → Bool) {A B : List Entry} (hs : Sorted (A ++ B)) :
    (A ++ B).filter (fun e => !(sel e.1 && B.any (fun x => x.1 == e.1))) = A ++ B.filter (fun e => !sel e.1) := by
  obtain ⟨_, _, hAB⟩ := sorted_append.mp hs
  rw [List.filter_append]
  congr 1
  · apply List.filter_eq_self.mpr
    intro e he
    have : B.any (fun x => x.1 == e.1) = false := by
      apply List.any_eq_false.mpr
      intro x hx
      have := hAB e he x hx
      simp; omega
    simp [this]
  · apply List.filter_congr
    intro e he
    have : B.any (fun x => x.1 == e.1) = true := List.any_eq_true.mpr ⟨e, he, by simp⟩
    simp [this]

/-- one iteration op of the extended machine against its specification -/
theorem drain_spec (P : Params) (hP : Valid P) (m : Map) (hm : MapOK m) (kind : IterKind) (sel : Nat → Bool)
    (limit : Nat) :
    let r := drain P sel limit m (iterNew m kind) []
    let vs := (visitOrder kind (toList m.root)).take limit
    r.visited = vs ∧ r.panic = none ∧ ((toList m.root).length < limit → iterHasNext r.it = false) ∧
      toList r.m.root = (toList m.root).filter (fun e => !(sel e.1 && vs.any (fun x => x.1 == e.1))) ∧
      MapOK r.m ∧ (RB m.root → RB r.m.root) := by
  intro r vs
  cases hk : kind.descending
  · obtain ⟨m', it', h1, h2, h3, h4, h5⟩ := drain_asc P hP sel (toList m.root) limit m
      (iterNew m kind) [] [] hm (by simp) (by simp [iterNew, hk, firstEntry_spec]) rfl (by simpa [iterNew] using hk)
    have hvs : vs = (toList m.root).take limit := by simp [vs, visitOrder, hk]
    have hr : r = ⟨m', it', (toList m.root).take limit, none⟩ := by simpa using h1
    refine ⟨by rw [hr, hvs], by rw [hr], fun h => by rw [hr]; exact h2 h, ?_, by rw [hr]; exact h4,
      by rw [hr]; exact h5⟩
    rw [hr, hvs]
    simp only [List.nil_append] at h3
    rw [h3]
    have hs := hm.1
    rw [← List.take_append_drop limit (toList m.root)] at hs
    have key := filter_visited_prefix sel hs
    rw [List.take_append_drop] at key
    exact key.symm
  · obtain ⟨m', it', h1, h2, h3, h4, h5⟩ := drain_desc P hP sel (toList m.root).reverse limit m
      (iterNew m kind) [] [] hm (by simp) (by simp [iterNew, hk, lastEntry_spec, List.head?_reverse]) rfl
      (by simpa [iterNew] using hk)
    have hvs : vs = (toList m.root).reverse.take limit := by simp [vs, visitOrder, hk]
    have hr : r = ⟨m', it', (toList m.root).reverse.take limit, none⟩ := by simpa using h1
    refine ⟨by rw [hr, hvs], by rw [hr], fun h => by rw [hr]; exact h2 (by simpa using h), ?_, by rw [hr]; exact h4,
      by rw [hr]; exact h5⟩
    rw [hr, hvs]
    simp only [List.append_nil] at h3
    rw [h3]
    generalize hL : toList m.root = L at *
    have hsplit : (L.reverse.drop limit).reverse ++ (L.reverse.take limit).reverse = L := by
      rw [← List.reverse_append, List.take_append_drop, List.reverse_reverse]
    have hs := hm.1
    rw [hL, ← hsplit] at hs
    have key := filter_visited_suffix sel hs
    rw [hsplit] at key
    simp only [List.any_reverse, List.filter_reverse] at key
    exact key.symm

/-! ### the extended machine -/

theorem step2_refines (P : Params) (hP : Valid P) (m : Map) (op : Op2) (h : MapOK m) :
    (step2 P m op).2 = (specStep2 (toList m.root) op).2 ∧
    toList (step2 P m op).1.root = (specStep2 (toList m.root) op).1 ∧ MapOK (step2 P m op).1 ∧
    (RB m.root → RB (step2 P m op).1.root) := by
  cases op with
  | base op =>
    obtain ⟨h1, h2, h3⟩ := step_refines P m op h
    simp only [step2, specStep2]
    exact ⟨by rw [h1], h2, h3, step_RB P m op⟩
  | iterate kind sel limit =>
    obtain ⟨h1, h2, _, h4, h5, h6⟩ := drain_spec P hP m h kind sel limit
    simp only [step2, specStep2]
    exact ⟨by rw [h1, h2], h4, h5, h6⟩

theorem run2_refines (P : Params) (hP : Valid P) : ∀ (ops : List Op2) (m : Map), MapOK m → RB m.root →
    (run2 P m ops).2 = (specRun2 (toList m.root) ops).2 ∧
    toList (run2 P m ops).1.root = (specRun2 (toList m.root) ops).1 ∧ MapOK (run2 P m ops).1 ∧
    RB (run2 P m ops).1.root
  | [], m, h, hr => ⟨rfl, rfl, h, hr⟩
  | op :: ops, m, h, hr => by
    obtain ⟨h1, h2, h3, h4⟩ := step2_refines P hP m op h
    obtain ⟨i1, i2, i3, i4⟩ := run2_refines P hP ops (step2 P m op).1 h3 (h4 hr)
    simp only [run2, specRun2]
    rw [h2] at i1 i2
    exact ⟨by rw [h1, i1], i2, i3, i4⟩

/-! ### the modification counter -/

theorem step_version (P : Params) (hP : Valid P) (m : Map) (hm : MapOK m) (op : Op) :
    (step P m op).1.version = m.version + (if structural (toList m.root) op then 1 else 0) := by
  cases op <;> simp only [step, structural, Bool.false_eq_true, if_false, Nat.add_zero]
  · exact put_version m _ _ hm
  · exact remove_version m _ hm
  · simp [clear, hP.1]

theorem run_version_mono (P : Params) (hP : Valid P) : ∀ (ops : List Op) (m : Map), MapOK m →
    m.version ≤ (run P m ops).1.version
  | [], m, _ => Nat.le_refl _
  | op :: ops, m, hm => by
    have h1 := step_version P hP m hm op
    have h2 := run_version_mono P hP ops (step P m op).1 (step_refines P m op hm).2.2
    simp only [run]
    split at h1 <;> omega

theorem run_version_structural (P : Params) (hP : Valid P) : ∀ (ops : List Op) (m : Map), MapOK m →
    structuralRun (toList m.root) ops = true → m.version < (run P m ops).1.version
  | [], m, _, h => by simp [structuralRun] at h
  | op :: ops, m, hm, h => by
    have h1 := step_version P hP m hm op
    obtain ⟨_, h3, h4⟩ := step_refines P m op hm
    have h2 := run_version_mono P hP ops (step P m op).1 h4
    simp only [run]
    simp only [structuralRun, Bool.or_eq_true] at h
    rcases h with h | h
    · rw [h] at h1; simp only [if_true] at h1; omega
    · rw [← h3] at h
      have := run_version_structural P hP ops (step P m op).1 h4 h
      split at h1 <;> omega

/-- an iterator whose expected version differs from the map's refuses to move or remove -/
theorem stale_refused (P : Params) (m : Map) (it : Iter) (h : it.expVer ≠ m.version) :
    (iterNext m it = .error .comod ∨ iterNext m it = .error .noSuchElement) ∧
    (iterRemove P m it = .error .comod ∨ iterRemove P m it = .error .illegalState) := by
  constructor
  · unfold iterNext
    cases it.next with
    | none => exact .inr rfl
    | some k => simp [h]
  · unfold iterRemove
    cases it.last with
    | none => exact .inr rfl
    | some k => simp [h]

end Fatchoy.C10
