/-
C15 — liveness of the RPC-client LTS (Model/C15.lean): which actions are the client's own (`Act.internal`), which
need the mutex (`Act.mutex`), the step relation while a `makeCall` sits on the full queue holding the mutex
(`stepHeld`), a measure every internal step decreases (`mu`), and `no_stuck`.  Core only.
-/
import Fatchoy.Lemmas.C15
namespace Fatchoy.C15
set_option linter.unusedSimpArgs false
set_option linter.unusedVariables false

/-- two per call waiting in the batch of a ReapTimeout (its completion, and possibly the wake-up that completion
enables), one per completion sitting in a `done` channel -/
def mu (s : St) : Nat := 2 * s.batches.flatten.length + s.doneBuf.length

theorem sum_map_set {α} (f : α → Nat) : ∀ (l : List α) (i : Nat) (a b : α), l[i]? = some a →
    ((l.set i b).map f).sum + f a = (l.map f).sum + f b
  | [], i, a, b, h => by simp at h
  | x :: l, 0, a, b, h => by
    simp at h; subst h; simp only [List.set_cons_zero, List.map_cons, List.sum_cons]; omega
  | x :: l, i + 1, a, b, h => by
    simp at h
    have := sum_map_set f l i a b h
    simp only [List.set_cons_succ, List.map_cons, List.sum_cons]; omega

theorem run_doneBuf_le (P : Params) (s : St) (c : Ctx) (p : Pkt) : (run P s c p).doneBuf.length ≤ s.doneBuf.length + 1 := by
  unfold run
  cases c.mode <;> simp only []
  · simp
  · split <;> simp

theorem filter_ne_length_lt (l : List (Nat × Pkt)) (id : Nat) (e : Nat × Pkt)
    (h : l.find? (fun e => e.1 == id) = some e) : (l.filter (fun e => e.1 != id)).length < l.length := by
  induction l with
  | nil => simp at h
  | cons x l ih =>
    simp only [List.find?_cons] at h
    by_cases hx : x.1 = id
    · have : (x.1 != id) = false := by simp [hx]
      simp only [List.filter_cons, this, List.length_cons]
      have := List.length_filter_le (fun e : Nat × Pkt => e.1 != id) l
      simp; omega
    · have h1 : (x.1 == id) = false := by simp [hx]
      have h2 : (x.1 != id) = true := by simp [hx]
      rw [h1] at h
      simp only [List.filter_cons, h2, List.length_cons, if_true]
      have := ih h; omega

/-- an internal step strictly decreases the measure and moves nothing but the batch / the channels -/
theorem mu_internal (P : Params) {s s' : St} {a : Act} (hi : a.internal = true) (hs : step P s a = some s') :
    mu s' < mu s ∧ s'.pending = s.pending ∧ s'.expired = s.expired ∧ s'.refused = s.refused ∧ s'.nextId = s.nextId ∧
    s'.queue = s.queue ∧ s'.cap = s.cap := by
  cases a <;> try (cases hi; done)
  case complete b k =>
    simp only [step] at hs
    split at hs
    · rename_i l hb
      split at hs
      · rename_i c hk
        injection hs with hs; subst hs
        obtain ⟨f1, _, f3, f4, fb, f6, f7, f8, _, _, _⟩ := run_frame P { s with batches := s.batches.set b (l.eraseIdx k) } c (timeoutPkt P)
        have hd := run_doneBuf_le P { s with batches := s.batches.set b (l.eraseIdx k) } c (timeoutPkt P)
        refine ⟨?_, f3, f4, f8, f7, f6, f1⟩
        have hk' : k < l.length := by
          rcases Nat.lt_or_ge k l.length with h' | h'
          · exact h'
          · rw [List.getElem?_eq_none h'] at hk; cases hk
        have hlen : (l.eraseIdx k).length + 1 = l.length := by rw [List.length_eraseIdx_of_lt hk']; omega
        have := sum_map_set List.length s.batches b l (l.eraseIdx k) hb
        simp only [mu, fb, List.length_flatten] at hd ⊢
        omega
      · cases hs
    · cases hs
  case wake id =>
    simp only [step] at hs
    split at hs
    · rename_i e he
      injection hs with hs; subst hs
      refine ⟨?_, rfl, rfl, rfl, rfl, rfl, rfl⟩
      have := filter_ne_length_lt s.doneBuf id e he
      simp only [mu]; omega
    · cases hs

theorem mu_run (P : Params) : ∀ (acts : List Act) {s s' : St}, (∀ a ∈ acts, a.internal = true) → runActs P s acts = some s' →
    acts.length + mu s' ≤ mu s ∧ s'.pending = s.pending ∧ s'.expired = s.expired ∧ s'.refused = s.refused ∧ s'.nextId = s.nextId ∧
    s'.queue = s.queue ∧ s'.cap = s.cap
  | [], s, s', _, h => by simp [runActs] at h; subst h; simp
  | a :: as, s, s', hi, h => by
    simp only [runActs] at h
    split at h
    · rename_i s1 h1
      obtain ⟨m1, p1, e1, r1, n1, q1, c1⟩ := mu_internal P (hi a (List.mem_cons_self ..)) h1
      obtain ⟨m2, p2, e2, r2, n2, q2, c2⟩ := mu_run P as (fun x hx => hi x (List.mem_cons_of_mem _ hx)) h
      refine ⟨by simp only [List.length_cons]; omega, p2.trans p1, e2.trans e1, r2.trans r1, n2.trans n1, q2.trans q1, c2.trans c1⟩
    · cases h

theorem flatten_ne_nil : ∀ (bs : List (List Ctx)), bs.flatten ≠ [] → ∃ (b : Nat) (c : Ctx) (l : List Ctx), bs[b]? = some (c :: l)
  | [], h => by simp at h
  | [] :: bs, h => by
    obtain ⟨b, c, l, hb⟩ := flatten_ne_nil bs (by simpa using h)
    exact ⟨b + 1, c, l, by simpa using hb⟩
  | (c :: l) :: bs, _ => ⟨0, c, l, rfl⟩

/-- something is left for the client's own goroutines to do -/
def Unfinished (s : St) : Prop := s.batches.flatten ≠ [] ∨ s.doneBuf ≠ []

/-- whenever a ReapTimeout has calls left in its batch or a completion sits in a `done` channel, an internal action
that needs no mutex is enabled — also while a blocked makeCall holds the mutex -/
theorem no_stuck (P : Params) (held : Bool) (s : St) (hu : Unfinished s) :
    ∃ a, a.internal = true ∧ a.mutex = false ∧ (stepHeld P held s a).isSome = true := by
  rcases hu with h | h
  · obtain ⟨b, c, l, hb⟩ := flatten_ne_nil s.batches h
    refine ⟨.complete b 0, rfl, rfl, ?_⟩
    simp [stepHeld, Act.mutex, step, hb]
  · cases hd : s.doneBuf with
    | nil => exact absurd hd h
    | cons e l =>
      refine ⟨.wake e.1, rfl, rfl, ?_⟩
      simp [stepHeld, Act.mutex, step, hd]

/-- no internal action is enabled -/
def Quiescent (P : Params) (s : St) : Prop := ∀ a, a.internal = true → step P s a = none

theorem quiescent_empty (P : Params) {s : St} (hq : Quiescent P s) : s.batches.flatten = [] ∧ s.doneBuf = [] := by
  have : ¬ Unfinished s := by
    intro hu
    obtain ⟨a, hi, _, he⟩ := no_stuck P false s hu
    simp only [stepHeld, Bool.false_and] at he
    rw [hq a hi] at he; cases he
  constructor
  · apply Classical.byContradiction; intro h; exact this (Or.inl h)
  · apply Classical.byContradiction; intro h; exact this (Or.inr h)

theorem quiescent_of_empty (P : Params) {s : St} (h1 : s.batches.flatten = []) (h2 : s.doneBuf = []) : Quiescent P s := by
  intro a hi
  cases a <;> try (cases hi; done)
  case complete b k =>
    simp only [step]
    split
    · rename_i l hb
      have : l = [] := List.flatten_eq_nil_iff.mp h1 l (List.mem_of_getElem? hb)
      subst this; simp
    · rfl
  case wake id => simp [step, h2]

end Fatchoy.C15
