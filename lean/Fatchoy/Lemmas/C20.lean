import Fatchoy.Model.C20
namespace Fatchoy.C20

/-- what the packing functions need from the constants -/
def ValidPack (P : Params) : Prop :=
  16 ≤ P.serviceShift ∧ P.serviceShift + 8 ≤ P.typeShift ∧ P.typeShift < 32
instance (P : Params) : Decidable (ValidPack P) := by unfold ValidPack; infer_instance

/-- what printing/parsing needs: two unsigned verbs `%02x%04x` over a 16-bit instance field -/
def ValidPrint (P : Params) : Prop :=
  P.serviceShift = 16 ∧ parseFmt P.fmt.toList = some [2, 4] ∧
  P.arg0Signed = false ∧ P.arg0Bits = 8 ∧ P.arg1Signed = false ∧ P.arg1Bits = 16 ∧
  P.parseBase = 16 ∧ P.parseBits = 32
instance (P : Params) : Decidable (ValidPrint P) := by unfold ValidPrint; infer_instance

theorem two_pow_shift_pos (k : Nat) : 0 < 2 ^ k := Nat.pos_of_ne_zero (by simp)

theorem make_eq (P : Params) (hv : ValidPack P) {s i : Nat} (hs : s < 256) (hi : i < 65536) :
    make P s i = s * 2 ^ P.serviceShift + i ∧ s * 2 ^ P.serviceShift + i < 2 ^ P.typeShift := by
  obtain ⟨h16, h8, h32⟩ := hv
  have hik : i < 2 ^ P.serviceShift :=
    Nat.lt_of_lt_of_le hi (by simpa using Nat.pow_le_pow_right (n := 2) (by omega) h16)
  have hlt : s * 2 ^ P.serviceShift + i < 2 ^ P.typeShift := by
    have h1 : s * 2 ^ P.serviceShift + i < (s + 1) * 2 ^ P.serviceShift := by
      rw [Nat.add_mul]; omega
    have h2 : (s + 1) * 2 ^ P.serviceShift ≤ 256 * 2 ^ P.serviceShift :=
      Nat.mul_le_mul_right _ (by omega)
    have h3 : 256 * 2 ^ P.serviceShift = 2 ^ (P.serviceShift + 8) := by
      rw [Nat.pow_add]; omega
    have h4 : 2 ^ (P.serviceShift + 8) ≤ 2 ^ P.typeShift := Nat.pow_le_pow_right (by omega) h8
    omega
  have h31 : 2 ^ P.typeShift ≤ 2 ^ 32 := Nat.pow_le_pow_right (by omega) (by omega)
  refine ⟨?_, hlt⟩
  unfold make
  rw [Nat.mod_eq_of_lt hs, Nat.mod_eq_of_lt hi, ← Nat.shiftLeft_add_eq_or_of_lt hik, Nat.shiftLeft_eq]
  exact Nat.mod_eq_of_lt (by omega)

theorem and_two_pow_eq_zero {n t : Nat} (h : n < 2 ^ t) : n &&& 2 ^ t = 0 := by
  apply Nat.eq_of_testBit_eq
  intro j
  rw [Nat.testBit_and, Nat.testBit_two_pow, Nat.zero_testBit]
  by_cases hj : t = j
  · subst hj; simp [Nat.testBit_lt_two_pow h]
  · simp [hj]

/-! ### hexadecimal digits -/

theorem digitVal_hexDigit {d : Nat} (h : d < 16) : digitVal (hexDigit d) = some d := by
  have : d = 0 ∨ d = 1 ∨ d = 2 ∨ d = 3 ∨ d = 4 ∨ d = 5 ∨ d = 6 ∨ d = 7 ∨ d = 8 ∨ d = 9 ∨ d = 10 ∨
      d = 11 ∨ d = 12 ∨ d = 13 ∨ d = 14 ∨ d = 15 := by omega
  rcases this with h|h|h|h|h|h|h|h|h|h|h|h|h|h|h|h <;> subst h <;> decide

theorem parseAux_append (acc : Nat) (a b : List Char) :
    parseAux acc (a ++ b) = (parseAux acc a).bind (fun v => parseAux v b) := by
  induction a generalizing acc with
  | nil => simp [parseAux]
  | cons c cs ih =>
    simp only [List.cons_append, parseAux]
    cases digitVal c with
    | none => simp
    | some d => simp [ih]

theorem parseAux_hexMin (acc v : Nat) :
    parseAux acc (hexMin v) = some (acc * 16 ^ (hexMin v).length + v) := by
  induction v using Nat.strongRecOn generalizing acc with
  | _ v ih =>
    unfold hexMin
    by_cases h : v < 16
    · simp [h, parseAux, digitVal_hexDigit h]
    · simp only [h, dite_false]
      rw [parseAux_append, ih (v / 16) (by omega)]
      simp only [Option.bind_some, parseAux, digitVal_hexDigit (Nat.mod_lt v (by omega : 0 < 16)),
        List.length_append, List.length_cons, List.length_nil]
      congr 1
      rw [Nat.pow_succ, Nat.add_mul, Nat.mul_assoc]
      omega

theorem parseAux_zeros (acc k : Nat) (rest : List Char) :
    parseAux acc (List.replicate k '0' ++ rest) = parseAux (acc * 16 ^ k) rest := by
  induction k generalizing acc with
  | zero => simp
  | succ k ih =>
    simp only [List.replicate_succ, List.cons_append, parseAux]
    have : digitVal '0' = some 0 := by decide
    rw [this]; simp only [Nat.add_zero]
    rw [ih, Nat.pow_succ, Nat.mul_assoc, Nat.mul_comm 16]

theorem hexMin_length_le {w v : Nat} (hw : 0 < w) (h : v < 16 ^ w) : (hexMin v).length ≤ w := by
  induction w generalizing v with
  | zero => omega
  | succ w ih =>
    unfold hexMin
    by_cases h16 : v < 16
    · simp [h16]
    · simp only [h16, dite_false, List.length_append, List.length_cons, List.length_nil]
      have hw' : 0 < w := by
        cases w with
        | zero => simp at h; omega
        | succ _ => omega
      have : v / 16 < 16 ^ w := by
        rw [Nat.pow_succ] at h
        exact Nat.div_lt_of_lt_mul (by rw [Nat.mul_comm]; exact h)
      have := ih hw' this
      omega

/-- an unsigned `%0<w>x` -/
def padHex (w v : Nat) : List Char := List.replicate (w - (hexMin v).length) '0' ++ hexMin v

theorem fmtHex_unsigned (w bits raw : Nat) : fmtHex w false bits raw = padHex w raw := by
  simp [fmtHex, padHex]

theorem padHex_length {w v : Nat} (hw : 0 < w) (h : v < 16 ^ w) : (padHex w v).length = w := by
  have := hexMin_length_le hw h
  simp [padHex]; omega

theorem parseAux_padHex (acc w v : Nat) (rest : List Char) {hw : 0 < w} (h : v < 16 ^ w) :
    parseAux acc (padHex w v ++ rest) = parseAux (acc * 16 ^ w + v) rest := by
  have hl := hexMin_length_le hw h
  unfold padHex
  rw [List.append_assoc, parseAux_zeros, parseAux_append, parseAux_hexMin]
  simp only [Option.bind_some]
  congr 1
  rw [Nat.mul_assoc, ← Nat.pow_add]
  congr 3
  omega

theorem isHexChar_hexDigit {d : Nat} (h : d < 16) :
    (hexDigit d).isDigit ∨ ('a' ≤ hexDigit d ∧ hexDigit d ≤ 'f') := by
  have : d = 0 ∨ d = 1 ∨ d = 2 ∨ d = 3 ∨ d = 4 ∨ d = 5 ∨ d = 6 ∨ d = 7 ∨ d = 8 ∨ d = 9 ∨ d = 10 ∨
      d = 11 ∨ d = 12 ∨ d = 13 ∨ d = 14 ∨ d = 15 := by omega
  rcases this with h|h|h|h|h|h|h|h|h|h|h|h|h|h|h|h <;> subst h <;> decide

/-- lower-case hexadecimal character -/
def IsLowerHex (c : Char) : Prop := c.isDigit ∨ ('a' ≤ c ∧ c ≤ 'f')

theorem hexMin_lower (v : Nat) : ∀ c ∈ hexMin v, IsLowerHex c := by
  induction v using Nat.strongRecOn with
  | _ v ih =>
    unfold hexMin
    by_cases h : v < 16
    · simp only [h, dite_true, List.mem_singleton]
      rintro c rfl; exact isHexChar_hexDigit h
    · simp only [h, dite_false, List.mem_append, List.mem_singleton]
      rintro c (hc | rfl)
      · exact ih _ (by omega) c hc
      · exact isHexChar_hexDigit (Nat.mod_lt v (by omega))

theorem padHex_lower (w v : Nat) : ∀ c ∈ padHex w v, IsLowerHex c := by
  intro c hc
  simp only [padHex, List.mem_append, List.mem_replicate] at hc
  rcases hc with ⟨_, rfl⟩ | hc
  · left; decide
  · exact hexMin_lower v c hc

/-- the model's `make` at the regenerated parameters, without the reductions that do nothing in range -/
theorem make_params_eq {s i : Nat} (hs : s < 256) (hi : i < 65536) : make params s i = s * 65536 ||| i := by
  have h5 : (s * 65536 ||| i) < 2 ^ 32 := Nat.or_lt_two_pow (by omega) (by omega)
  simp [make, params, Gen.C20.nodeServiceShift, Nat.shiftLeft_eq, Nat.mod_eq_of_lt hs, Nat.mod_eq_of_lt hi]
  omega

end Fatchoy.C20
