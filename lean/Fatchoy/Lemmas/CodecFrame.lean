/-
Frame-level lemmas of the codec model: the reference list is read back, `UnmarshalPacket` on a
documented header reduces to the checksum comparison followed by `unmarshalPayload`.
-/
import Fatchoy.Lemmas.CodecRead
namespace Fatchoy.Codec
open Fatchoy.Crc32
set_option linter.unusedSimpArgs false

theorem take_pre {pre rest : Bytes} {n : Nat} (h : pre.length = n) : (pre ++ rest).take n = pre := by
  rw [← h, List.take_left']; rfl
theorem ofNat_mod (w v : Nat) : BitVec.ofNat w (v % 2 ^ w) = BitVec.ofNat w v := by
  apply BitVec.eq_of_toNat_eq; simp

theorem refBytes_length (refs : List (BitVec 32)) : (refBytes refs).length = refs.length * 4 := by
  induction refs with
  | nil => rfl
  | cons r rs ih =>
    simp only [refBytes, List.map_cons, List.flatten_cons, List.length_append, bePut_length, List.length_cons] at ih ⊢
    rw [ih]; omega

theorem refBytes_cons (r : BitVec 32) (rs : List (BitVec 32)) : refBytes (r :: rs) = bePut 4 r.toNat ++ refBytes rs := by
  simp [refBytes]

/-- the reference words written by the encoder are read back, and the body follows them -/
theorem readRefs_refBytes (refs : List (BitVec 32)) (rest : Bytes) :
    readRefs refs.length (refBytes refs ++ rest) = some refs := by
  induction refs with
  | nil => simp [readRefs]
  | cons r rs ih =>
    rw [refBytes_cons, List.length_cons, readRefs]
    have hl : ¬ ((bePut 4 r.toNat ++ refBytes rs ++ rest).take 4).length < 4 := by
      simp [List.length_take, List.length_append, bePut_length]
    simp only [hl, if_false]
    rw [List.append_assoc, List.drop_left' (bePut_length 4 _), ih,
      List.take_left' (bePut_length 4 _), beGet_bePut_of_lt (by have := r.isLt; omega)]
    simp

/-- with enough bytes the reference loop never indexes out of range -/
theorem readRefs_isSome (n : Nat) (bs : Bytes) (h : n * 4 ≤ bs.length) : (readRefs n bs).isSome := by
  induction n generalizing bs with
  | zero => simp [readRefs]
  | succ n ih =>
    rw [readRefs]
    have hl : ¬ (bs.take 4).length < 4 := by rw [List.length_take]; omega
    simp only [hl, if_false]
    have := ih (bs.drop 4) (by rw [List.length_drop]; omega)
    cases hr : readRefs n (bs.drop 4) with
    | none => rw [hr] at this; simp at this
    | some rs => simp

/-- the packet `UnmarshalPacket` fills from a V1 header before it looks at the body -/
def headPktV1 (f s c : Nat) : Pkt :=
  { cmd := BitVec.ofNat 32 c, seq := BitVec.ofNat 16 s, typ := 0, flag := BitVec.ofNat 8 f, node := 0, refs := [], body := .absent }

/-- the packet `UnmarshalPacket` fills from a V2 header before it looks at the payload -/
def headPktV2 (t f s d c : Nat) : Pkt :=
  { cmd := BitVec.ofNat 32 c, seq := BitVec.ofNat 16 s, typ := BitVec.ofNat 8 t, flag := BitVec.ofNat 8 f,
    node := BitVec.ofNat 32 d, refs := [], body := .absent }

theorem unmarshal_v2 {P : Params} {F : Fmt} (hv : ValidV2 F) (e : Env) (n t f r s d c k : Nat) (pl : Bytes) :
    unmarshal P F e (preV2 n t f r s d c ++ bePut 4 k) pl =
      if frameCrc (preV2 n t f r s d c) [] pl ≠ k % 256 ^ 4 then .error .crc
      else unmarshalPayload P e F.bodyStepOnFlags (headPktV2 t f s d c) (r % 256) pl := by
  obtain ⟨h2, _, _, _, hg, hcov, _⟩ := hv
  obtain ⟨_, g2, g3, g4, g5, g6, g7, g8⟩ := field_v2 n t f r s d c k
  unfold unmarshal
  simp only [crc32_table_eq]
  simp only [hg, h2, g2, g3, g4, g5, g6, g7, g8, hcov, take_pre (preV2_length n t f r s d c)]
  simp only [frameCrc, List.append_nil, headPktV2]
  have e1 : BitVec.ofNat 32 (c % 256 ^ 4) = BitVec.ofNat 32 c := ofNat_mod 32 c
  have e2 : BitVec.ofNat 16 (s % 256 ^ 2) = BitVec.ofNat 16 s := ofNat_mod 16 s
  have e3 : BitVec.ofNat 8 (f % 256 ^ 1) = BitVec.ofNat 8 f := ofNat_mod 8 f
  have e4 : BitVec.ofNat 8 (t % 256 ^ 1) = BitVec.ofNat 8 t := ofNat_mod 8 t
  have e5 : BitVec.ofNat 32 (d % 256 ^ 4) = BitVec.ofNat 32 d := ofNat_mod 32 d
  simp [e1, e2, e3, e4, e5]

theorem unmarshal_v1 {P : Params} {F : Fmt} (hv : ValidV1 F) (e : Env) (n t f s c k : Nat) (pl : Bytes) :
    unmarshal P F e (preV1 n t f s c ++ bePut 4 k) pl =
      if frameCrc (preV1 n t f s c) [] pl ≠ k % 256 ^ 4 then .error .crc
      else unmarshalPayload P e F.bodyStepOnFlags (headPktV1 f s c) 0 pl := by
  obtain ⟨h2, _, _, _, hg, hcov, _⟩ := hv
  obtain ⟨_, _, g3, g4, g5, g6⟩ := field_v1 n t f s c k
  unfold unmarshal
  simp only [crc32_table_eq]
  simp only [hg, h2, g3, g4, g5, g6, hcov, take_pre (preV1_length n t f s c)]
  simp only [frameCrc, List.append_nil, headPktV1]
  have e1 : BitVec.ofNat 32 (c % 256 ^ 4) = BitVec.ofNat 32 c := ofNat_mod 32 c
  have e2 : BitVec.ofNat 16 (s % 256 ^ 2) = BitVec.ofNat 16 s := ofNat_mod 16 s
  have e3 : BitVec.ofNat 8 (f % 256 ^ 1) = BitVec.ofNat 8 f := ofNat_mod 8 f
  simp [e1, e2, e3]


end Fatchoy.Codec
