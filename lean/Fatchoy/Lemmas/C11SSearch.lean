/-
C11, structural skip list S: what the search (`walk` per level, `search` over the levels) computes on a
state satisfying `Inv`: with the chain cut into the nodes `A` on which the walk condition holds and the
nodes `B` on which it fails, `update[i]` is the last node of height > i in `header :: A` and `rank[i]`
is its position.
-/
import Fatchoy.Lemmas.C11SBase
namespace Fatchoy.C11.S

/-- the walk condition `c` along the chain `A ++ B`: it holds on the nodes of `A` (at their positions,
  the header being position 0) and fails on the nodes of `B` -/
structure Cut (s : SList) (c : SNode → Int → Bool) (A B : List Nat) : Prop where
  onA : ∀ P f Q, 0 :: A = P ++ f :: Q → P ≠ [] → c (nd s f) (P.length : Int) = true
  onB : ∀ P b Q, B = P ++ b :: Q → c (nd s b) ((A.length + 1 + P.length : Nat) : Int) = false

/-- `y` is `update[i]` and `r` is `rank[i]`: the last node of height > i in `header :: A`, and its position -/
def IsUpd (s : SList) (A : List Nat) (i : Nat) (y : Nat) (r : Int) : Prop :=
  ∃ p suf, 0 :: A = p ++ y :: suf ∧ i < height s y ∧ (∀ a ∈ suf, up s i a = false) ∧ r = (p.length : Int)

theorem walk_spec {s : SList} {l : List Nat} (hI : Inv s l) {c : SNode → Int → Bool} {A B : List Nat}
    (hl : l = A ++ B) (hc : Cut s c A B) (i : Nat) (hi : i < s.level) :
    ∀ (fuel : Nat) (pre : List Nat) (x : Nat) (suf : List Nat), 0 :: A = pre ++ x :: suf →
      i < height s x → suf.length < fuel →
      ∃ y r, walk s c i fuel x (pre.length : Int) = some (y, r) ∧ IsUpd s A i y r := by
  intro fuel
  induction fuel with
  | zero => intro pre x suf _ _ hf; omega
  | succ fuel ih =>
    intro pre x suf hs hx hf
    have hs' : 0 :: l = pre ++ x :: (suf ++ B) := by
      rw [hl, ← List.cons_append, hs]; simp
    obtain ⟨hfw, hsp⟩ := hI.cells pre x (suf ++ B) hs' i hx
    have hsp := hsp hi
    unfold walk
    cases hn : nxt s i suf with
    | some f =>
      obtain ⟨A1, A2, hsplit, hA1, hf1, hd⟩ := nxt_some_split hn
      have hmem : f ∈ suf := by rw [hsplit]; simp
      obtain ⟨e1, e2⟩ := nxt_append_some hmem hf1 B
      rw [hfw, e1, hn]
      simp only []
      rw [hsp, e2, hd]
      have hs2 : 0 :: A = (pre ++ x :: A1) ++ f :: A2 := by rw [hs, hsplit]; simp
      have epos : ((pre.length : Int) + ((A1.length : Int) + 1)) = ((pre ++ x :: A1).length : Int) := by
        simp only [List.length_append, List.length_cons]; omega
      rw [epos, hc.onA _ f A2 hs2 (by simp)]
      simp only [if_true]
      have hfh : i < height s f := by simpa [up] using hf1
      exact ih (pre ++ x :: A1) f A2 hs2 hfh (by rw [hsplit] at hf; simp at hf; omega)
    | none =>
      have hnone := nxt_eq_none_iff.mp hn
      obtain ⟨e1, e2⟩ := nxt_append_none hnone B
      have hres : IsUpd s A i x (pre.length : Int) := ⟨pre, suf, hs, hx, hnone, rfl⟩
      rw [hfw, e1]
      cases hb : nxt s i B with
      | none => exact ⟨x, _, rfl, hres⟩
      | some b =>
        obtain ⟨B1, B2, hsplit, _, _, hd⟩ := nxt_some_split hb
        simp only []
        rw [hsp, e2, hd]
        have hlen : A.length + 1 = pre.length + 1 + suf.length := by
          have := congrArg List.length hs
          simp only [List.length_cons, List.length_append] at this
          omega
        have epos : ((pre.length : Int) + ((suf.length : Int) + ((B1.length : Int) + 1))) =
            ((A.length + 1 + B1.length : Nat) : Int) := by omega
        rw [epos, hc.onB B1 b B2 hsplit]
        simp only [Bool.false_eq_true, if_false]
        exact ⟨x, _, rfl, hres⟩

theorem getD_append_left {α : Type} (l1 l2 : List α) (i : Nat) (d : α) (h : i < l1.length) :
    (l1 ++ l2).getD i d = l1.getD i d := by
  simp only [List.getD_eq_getElem?_getD]
  rw [List.getElem?_append_left h]

theorem getD_append_right {α : Type} (l1 : List α) (a : α) (d : α) :
    (l1 ++ [a]).getD l1.length d = a := by
  simp [List.getD_eq_getElem?_getD]

/-- the level loop: started on a node of height ≥ n standing in `header :: A`, with the accumulated
  rank equal to its position, it yields `update[i]`, `rank[i]` for every level i < n -/
theorem search_spec {s : SList} {l : List Nat} (hI : Inv s l) {c : SNode → Int → Bool} {A B : List Nat}
    (hl : l = A ++ B) (hc : Cut s c A B) :
    ∀ (n : Nat), n ≤ s.level → ∀ (pre : List Nat) (x : Nat) (suf : List Nat), 0 :: A = pre ++ x :: suf →
      n ≤ height s x →
      ∃ ur, search s c n x (pre.length : Int) = some ur ∧ ur.length = n ∧
        ∀ i, i < n → IsUpd s A i (updOf ur i) (rankOf ur i) := by
  intro n
  induction n with
  | zero => intro _ pre x suf _ _; exact ⟨[], rfl, rfl, fun i hi => by omega⟩
  | succ n ih =>
    intro hn pre x suf hs hx
    have hfuel : suf.length < s.nodes.length := by
      have h1 := congrArg List.length hs
      have h2 := congrArg List.length hl
      have := hI.room
      simp only [List.length_cons, List.length_append] at h1 h2
      omega
    obtain ⟨y, r, hw, hu⟩ := walk_spec hI hl hc n (by omega) s.nodes.length pre x suf hs (by omega) hfuel
    obtain ⟨p', suf', hs', hy, hnone, hr⟩ := hu
    subst hr
    obtain ⟨rest, hrest, hlen, hprop⟩ := ih (by omega) p' y suf' hs' (by omega)
    refine ⟨rest ++ [(y, (p'.length : Int))], ?_, by simp [hlen], ?_⟩
    · unfold search
      rw [hw]
      simp only []
      rw [hrest]
    · intro i hi
      by_cases hin : i < n
      · have := hprop i hin
        unfold updOf rankOf at this ⊢
        rw [getD_append_left _ _ _ _ (by omega)]
        exact this
      · have hi' : i = rest.length := by omega
        unfold updOf rankOf
        rw [hi', getD_append_right]
        exact ⟨p', suf', hs', by rw [hlen]; exact hy, by rw [hlen]; exact hnone, rfl⟩

/-- the whole search from the header -/
theorem search_top {s : SList} {l : List Nat} (hI : Inv s l) {c : SNode → Int → Bool} {A B : List Nat}
    (hl : l = A ++ B) (hc : Cut s c A B) :
    ∃ ur, search s c s.level 0 0 = some ur ∧ ur.length = s.level ∧
      ∀ i, i < s.level → IsUpd s A i (updOf ur i) (rankOf ur i) := by
  have := search_spec hI hl hc s.level (Nat.le_refl _) [] 0 A rfl hI.level_le
  simpa using this

/-- two descriptions of `update[i]` name the same node and the same split -/
theorem isUpd_unique {s : SList} {A : List Nat} {i : Nat}
    {p1 p2 : List Nat} {y1 y2 : Nat} {s1 s2 : List Nat}
    (h1 : 0 :: A = p1 ++ y1 :: s1) (h2 : 0 :: A = p2 ++ y2 :: s2)
    (u1 : up s i y1 = true) (u2 : up s i y2 = true)
    (n1 : ∀ a ∈ s1, up s i a = false) (n2 : ∀ a ∈ s2, up s i a = false) :
    p1 = p2 ∧ y1 = y2 ∧ s1 = s2 := by
  have e : p1 ++ y1 :: s1 = p2 ++ y2 :: s2 := by rw [← h1, ← h2]
  rcases List.append_eq_append_iff.mp e with ⟨a', ha1, ha2⟩ | ⟨c', hc1, hc2⟩
  · -- p2 = p1 ++ a', y1 :: s1 = a' ++ y2 :: s2
    cases a' with
    | nil =>
      simp only [List.nil_append, List.cons.injEq] at ha2
      simp only [List.append_nil] at ha1
      exact ⟨ha1.symm, ha2.1, ha2.2⟩
    | cons b r =>
      simp only [List.cons_append, List.cons.injEq] at ha2
      have : y2 ∈ s1 := by rw [ha2.2]; simp
      have := n1 y2 this
      rw [u2] at this; cases this
  · cases c' with
    | nil =>
      simp only [List.nil_append, List.cons.injEq] at hc2
      simp only [List.append_nil] at hc1
      exact ⟨hc1, hc2.1.symm, hc2.2.symm⟩
    | cons b r =>
      simp only [List.cons_append, List.cons.injEq] at hc2
      have : y1 ∈ s2 := by rw [hc2.2]; simp
      have := n2 y1 this
      rw [u1] at this; cases this

end Fatchoy.C11.S
