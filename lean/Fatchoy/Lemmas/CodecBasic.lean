/-
Basic lemmas of the codec model: big-endian integers, the chunked reader (`io.ReadFull` depends only
on the flattened stream), header pack/accessor round trips for the two documented layouts.
-/
import Fatchoy.Lemmas.CodecValid
namespace Fatchoy.Codec

/-! ### big-endian -/

theorem bePut_length (w v : Nat) : (bePut w v).length = w := by
  induction w with
  | zero => rfl
  | succ w ih => simp [bePut, ih]

theorem beGet_cons_aux (bs : Bytes) (a : Nat) :
    bs.foldl (fun a b => a * 256 + b.toNat) a = a * 256 ^ bs.length + beGet bs := by
  induction bs generalizing a with
  | nil => simp [beGet]
  | cons b bs ih =>
    simp only [List.foldl_cons, List.length_cons, beGet]
    rw [ih, ih (0 * 256 + b.toNat)]
    rw [Nat.pow_succ, Nat.add_mul]
    simp [Nat.mul_assoc, Nat.add_assoc, Nat.mul_comm 256]

theorem beGet_cons (b : UInt8) (bs : Bytes) : beGet (b :: bs) = b.toNat * 256 ^ bs.length + beGet bs := by
  simp only [beGet, List.foldl_cons]
  rw [beGet_cons_aux]
  simp [beGet]

theorem beGet_bePut (w v : Nat) : beGet (bePut w v) = v % 256 ^ w := by
  induction w with
  | zero => simp [bePut, beGet, Nat.mod_one]
  | succ w ih =>
    rw [bePut, beGet_cons, ih, bePut_length]
    have : (UInt8.ofNat (v / 256 ^ w % 256)).toNat = v / 256 ^ w % 256 := by
      simp [UInt8.toNat_ofNat']
    rw [this, Nat.pow_succ, Nat.mod_mul, Nat.add_comm, Nat.mul_comm]

theorem beGet_bePut_of_lt {w v : Nat} (h : v < 256 ^ w) : beGet (bePut w v) = v := by
  rw [beGet_bePut, Nat.mod_eq_of_lt h]

theorem beGet_lt (bs : Bytes) : beGet bs < 256 ^ bs.length := by
  induction bs with
  | nil => simp [beGet]
  | cons b bs ih =>
    rw [beGet_cons, List.length_cons, Nat.pow_succ]
    have := b.toNat_lt
    have h2 : b.toNat * 256 ^ bs.length ≤ 255 * 256 ^ bs.length := Nat.mul_le_mul_right _ (by omega)
    omega

theorem beGet_inj (a b : Bytes) (hl : a.length = b.length) (h : beGet a = beGet b) : a = b := by
  induction a generalizing b with
  | nil => cases b with
    | nil => rfl
    | cons _ _ => simp at hl
  | cons x xs ih =>
    cases b with
    | nil => simp at hl
    | cons y ys =>
      have hl' : xs.length = ys.length := by simpa using hl
      rw [beGet_cons, beGet_cons, hl'] at h
      have h1 := beGet_lt xs
      have h2 := beGet_lt ys
      rw [hl'] at h1
      have hpos : 0 < 256 ^ ys.length := Nat.pos_of_ne_zero (by simp)
      have hxy : x.toNat = y.toNat := by
        have e1 : (x.toNat * 256 ^ ys.length + beGet xs) / 256 ^ ys.length = x.toNat := by
          rw [Nat.add_comm, Nat.add_mul_div_right _ _ hpos, Nat.div_eq_of_lt h1, Nat.zero_add]
        have e2 : (y.toNat * 256 ^ ys.length + beGet ys) / 256 ^ ys.length = y.toNat := by
          rw [Nat.add_comm, Nat.add_mul_div_right _ _ hpos, Nat.div_eq_of_lt h2, Nat.zero_add]
        rw [← e1, ← e2, h]
      have hrest : beGet xs = beGet ys := by rw [hxy] at h; omega
      rw [ih ys hl' hrest, UInt8.toNat_inj.mp hxy]





/-! ### the chunked reader -/


theorem pull_spec (n : Nat) (cs : Chunks) (acc : List Bytes) :
    (pull n cs acc).1.reverse.flatten = acc.reverse.flatten ++ (flat cs).take n ∧
    flat (pull n cs acc).2 = (flat cs).drop n := by
  induction cs generalizing n acc with
  | nil => simp [pull, flat]
  | cons c cs ih =>
    unfold pull
    by_cases h0 : n = 0
    · simp [h0]
    · simp only [h0, if_false]
      by_cases hc : c.length ≤ n
      · simp only [hc, if_true]
        obtain ⟨h1, h2⟩ := ih (n - c.length) (c :: acc)
        refine ⟨?_, ?_⟩
        · rw [h1]
          simp only [flat, List.flatten_cons, List.reverse_cons, List.flatten_append, List.flatten_nil,
            List.append_nil, List.append_assoc]
          rw [List.take_append, List.take_of_length_le hc]
        · rw [h2]
          simp only [flat, List.flatten_cons]
          rw [List.drop_append, List.drop_of_length_le hc, List.nil_append]
      · simp only [hc, if_false]
        have hlt : n < c.length := Nat.lt_of_not_le hc
        refine ⟨?_, ?_⟩
        · simp only [flat, List.flatten_cons, List.reverse_cons, List.flatten_append, List.flatten_nil,
            List.append_nil]
          rw [List.take_append_of_le_length (Nat.le_of_lt hlt)]
        · simp only [flat, List.flatten_cons]
          rw [List.drop_append_of_le_length (Nat.le_of_lt hlt)]


theorem readFull_ok {n : Nat} {cs : Chunks} {a b : Bytes} (h : flat cs = a ++ b) (ha : a.length = n) :
    (readFull n cs).1 = .ok a ∧ flat (readFull n cs).2 = b := by
  unfold readFull
  by_cases h0 : n = 0
  · subst h0
    have : a = [] := List.eq_nil_of_length_eq_zero ha
    subst this
    simpa using h
  · simp only [h0, if_false]
    obtain ⟨h1, h2⟩ := pull_spec n cs []
    have ht : (flat cs).take n = a := by rw [h, ← ha, List.take_left']; rfl
    have hd : (flat cs).drop n = b := by rw [h, ← ha, List.drop_left']; rfl
    simp only [List.reverse_nil, List.flatten_nil, List.nil_append] at h1
    rw [h1, ht]
    simp only [ha, if_true]
    exact ⟨trivial, by rw [h2, hd]⟩

theorem readFull_err {n : Nat} {cs : Chunks} (h : (flat cs).length < n) :
    (readFull n cs).1 = .error (if (flat cs).length = 0 then .eof else .short) ∧ flat (readFull n cs).2 = [] := by
  unfold readFull
  have h0 : n ≠ 0 := by omega
  simp only [h0, if_false]
  obtain ⟨h1, h2⟩ := pull_spec n cs []
  simp only [List.reverse_nil, List.flatten_nil, List.nil_append] at h1
  rw [h1, List.take_of_length_le (Nat.le_of_lt h)]
  have : (flat cs).length ≠ n := by omega
  simp only [this, if_false]
  have h3 : flat (pull n cs []).2 = [] := by rw [h2, List.drop_of_length_le (Nat.le_of_lt h)]
  by_cases hz : (flat cs).length = 0 <;> simp [hz, h3]

end Fatchoy.Codec
