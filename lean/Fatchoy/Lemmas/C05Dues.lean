/-
C05 helper lemmas: the due times of the deliveries (ghost list `dues`, parallel to `log`) are ordered.
Wheel: a delivery's due time IS the time it is logged at.  Heap: ordered as long as every start request
is accepted before the next tick.
-/
import Fatchoy.Lemmas.C05Order
import Fatchoy.Lemmas.C05HeapOrder
namespace Fatchoy.C05

namespace WS

theorem expireOne_dues (G : Geom) (s : WS) (n : WNode) :
    (expireOne G s n).f.dues = (if liveB s.f.cancelled n then [n.deadline] else []) ++ s.f.dues := by
  unfold expireOne liveB
  by_cases hc : n.id ∈ s.f.cancelled
  · simp [hc]
  · by_cases hp : n.period > 0
    · simp [hc, hp, Front.deliver]
    · simp [hc, hp, Front.deliver, Front.drop]

theorem expireList_dues (G : Geom) : ∀ (hit : List WNode) (s : WS),
    (expireList G s hit).f.dues = ((hit.filter (liveB s.f.cancelled)).map (·.deadline)).reverse ++ s.f.dues := by
  intro hit
  induction hit with
  | nil => intro s; simp [expireList]
  | cons n ns ih =>
    intro s
    simp only [expireList]
    rw [ih, (expireOne_frame G s n).2.2.1, expireOne_dues, List.filter_cons]
    split <;> simp

/-- wheel: the due time of every delivery is the time it is logged at -/
theorem expire_dues (c : Nat) (s : WS) (h : ∀ n ∈ s.w.nodes, NodeOK s.w.off s.w.time n)
    (hd : s.f.dues = s.f.log.map (·.1)) :
    (expire (litGeom c) s).f.dues = (expire (litGeom c) s).f.log.map (·.1) := by
  obtain ⟨_, _, _, _, _, _, _, h8, _⟩ := expire_spec c s h
  rw [h8, expire_eq c s h, expireList_dues]
  simp only [List.map_append, List.map_reverse, List.map_map, hd]
  congr 2
  apply List.map_congr_left
  intro n hn
  have := (List.mem_filter.mp (List.mem_filter.mp hn).1).2
  simp only [dueB, beq_iff_eq] at this
  simpa [Function.comp] using this

theorem tick_dues (c : Nat) (s : WS) (h : WheelOK s.w) (hd : s.f.dues = s.f.log.map (·.1)) :
    (tick (litGeom c) s).f.dues = (tick (litGeom c) s).f.log.map (·.1) := by
  obtain ⟨m1, _, _, _, _⟩ := tick_stages c s h
  rw [tick_eq]
  apply expire_dues c _ m1
  rw [mid_f]
  exact expire_dues c s h.ok hd

theorem step_dues (c : Nat) {s s' : WS} {a : Act} {o : Out} (hi : WInv s) (h : s.f.dues = s.f.log.map (·.1))
    (hs : step (litGeom c) s a = .ok s' o) : s'.f.dues = s'.f.log.map (·.1) := by
  cases a with
  | tick => simp only [step] at hs; cases hs; exact tick_dues c s hi.wheel h
  | after d => simp only [step] at hs; split at hs <;> cases hs; exact h
  | every p => simp only [step] at hs; split at hs <;> cases hs; exact h
  | cancel j =>
    simp only [step] at hs
    split at hs
    · split at hs <;> cases hs; exact h
    · cases hs; exact h
  | add =>
    simp only [step] at hs
    split at hs
    · cases hs; exact h
    · split at hs
      · cases hs; exact h
      · split at hs <;> cases hs; exact h
  | del => simp only [step] at hs; split at hs <;> cases hs <;> exact h
  | clock n => simp only [step] at hs; cases hs; exact h

end WS

theorem WReach.dues {c : Nat} {s : WS} (h : WReach (litGeom c) s) : s.f.dues = s.f.log.map (·.1) := by
  induction h with
  | init off time => rfl
  | step hr hs ih => exact WS.step_dues c hr.inv ih hs

/-! ### heap -/

/-- reachable with every start request accepted before the next tick (the regime of C05: no schedule
in which the worker ticks while a start request is waiting) -/
inductive HReachPrompt (G : Geom) : HS → Prop
  | init (time : Nat) : HReachPrompt G (HS.init time)
  | step {s s' : HS} {a : Act} {o : Out} : HReachPrompt G s → (a = .tick → s.f.addQ = []) →
      HS.step G s a = .ok s' o → HReachPrompt G s'

theorem HReachPrompt.reach {G : Geom} {s : HS} (h : HReachPrompt G s) : HReach G s := by
  induction h with
  | init time => exact HReach.init time
  | step _ _ hs ih => exact ih.step hs

structure DueH (s : HS) : Prop where
  sorted : s.f.dues.Pairwise (fun newer older => older ≤ newer)
  le_now : ∀ d ∈ s.f.dues, d ≤ s.now
  le_heap : ∀ d ∈ s.f.dues, ∀ n ∈ s.heap, d ≤ n.deadline
  le_addq : ∀ d ∈ s.f.dues, ∀ r ∈ s.f.addQ, d ≤ r.dl

theorem DueH.step (G : Geom) {s s' : HS} {a : Act} {o : Out} (hi : HInv s) (h : DueH s)
    (hp : a = .tick → s.f.addQ = []) (hs : HS.step G s a = .ok s' o) : DueH s' := by
  cases a with
  | after d =>
    simp only [HS.step] at hs
    split at hs
    · cases hs
    · cases hs
      refine ⟨h.sorted, h.le_now, h.le_heap, ?_⟩
      intro x hx r hr
      simp only [Front.start, List.mem_append, List.mem_singleton] at hr
      rcases hr with hr | rfl
      · exact h.le_addq x hx r hr
      · have := h.le_now x hx; show x ≤ s.now + d; omega
  | every p =>
    simp only [HS.step] at hs
    split at hs
    · cases hs
    · cases hs
      refine ⟨h.sorted, h.le_now, h.le_heap, ?_⟩
      intro x hx r hr
      simp only [Front.start, List.mem_append, List.mem_singleton] at hr
      rcases hr with hr | rfl
      · exact h.le_addq x hx r hr
      · have := h.le_now x hx; show x ≤ s.now + p; omega
  | cancel j =>
    simp only [HS.step] at hs
    split at hs
    · split at hs
      · cases hs
      · cases hs; exact ⟨h.sorted, h.le_now, h.le_heap, h.le_addq⟩
    · cases hs; exact h
  | add =>
    simp only [HS.step] at hs
    split at hs
    · cases hs; exact h
    · rename_i r q hq
      have hsub : ∀ x ∈ s.f.dues, ∀ r' ∈ q, x ≤ r'.dl := fun x hx r' hr' =>
        h.le_addq x hx r' (by rw [hq]; exact List.mem_cons_of_mem _ hr')
      split at hs
      · cases hs; exact ⟨h.sorted, h.le_now, h.le_heap, hsub⟩
      · cases hs
        refine ⟨h.sorted, h.le_now, ?_, hsub⟩
        intro x hx n hn
        rcases List.mem_cons.mp ((hinsert_perm _ _).mem_iff.mp hn) with rfl | hn
        · exact h.le_addq x hx r (by rw [hq]; exact List.mem_cons_self ..)
        · exact h.le_heap x hx n hn
  | del =>
    simp only [HS.step] at hs
    split at hs
    · cases hs; exact h
    · cases hs
      exact ⟨h.sorted, h.le_now, fun x hx n hn => h.le_heap x hx n (List.mem_filter.mp hn).1, h.le_addq⟩
  | tick =>
    simp only [HS.step] at hs
    split at hs
    · rename_i s1 ht
      cases hs
      obtain ⟨s2, r0, r1, _, r3, _, _, _, _, ⟨_, r8⟩, _⟩ := HS.tick_spec s hi
      rw [ht] at r0; cases r0
      have hb : ∀ x ∈ ((s.heap.filter (fun n => hdue s.now n && hlive s.f.cancelled n)).map (·.deadline)).reverse,
          x ≤ s.now ∧ ∃ n ∈ s.heap, n.deadline = x := by
        intro x hx
        simp only [List.mem_reverse, List.mem_map, List.mem_filter, hdue, Bool.and_eq_true, decide_eq_true_eq] at hx
        obtain ⟨n, ⟨hn, hd, _⟩, rfl⟩ := hx
        exact ⟨hd, n, hn, rfl⟩
      refine ⟨?_, ?_, ?_, ?_⟩
      · rw [r8, List.pairwise_append]
        refine ⟨?_, h.sorted, ?_⟩
        · rw [List.pairwise_reverse]
          exact (List.Pairwise.map _ (fun _ _ hab => hab) (hi.sorted.sublist List.filter_sublist))
        · intro x hx d hd
          obtain ⟨_, n, hn, rfl⟩ := hb x hx
          exact h.le_heap d hd n hn
      · intro d hd
        rw [r8] at hd
        rw [r1]
        rcases List.mem_append.mp hd with hd | hd
        · exact (hb d hd).1
        · exact h.le_now d hd
      · intro d hd m hm
        rw [r8] at hd
        have hfut : s.now < m.deadline := by
          rcases (HS.mem_tick_heap s _ hi ht m).mp hm with ⟨_, hx⟩ | ⟨n, _, _, _, hpp, rfl⟩
          · exact hx
          · show s.now < s.now + n.period; omega
        rcases List.mem_append.mp hd with hd | hd
        · have := (hb d hd).1; omega
        · have := h.le_now d hd; omega
      · intro d _ r hr
        rw [r3, hp rfl] at hr
        cases hr
    · cases hs
  | clock n =>
    simp only [HS.step] at hs
    cases hs
    exact ⟨h.sorted, fun d hd => Nat.le_trans (h.le_now d hd) (Nat.le_add_right _ _), h.le_heap, h.le_addq⟩

theorem HReachPrompt.dueH {G : Geom} {s : HS} (h : HReachPrompt G s) : DueH s := by
  induction h with
  | init time => constructor <;> simp [HS.init, Front.init]
  | step hr hp hs ih => exact ih.step G hr.reach.inv hp hs

end Fatchoy.C05
