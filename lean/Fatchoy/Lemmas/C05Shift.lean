/-
C05 helper lemmas, part 2: what `shiftWheels` does to one node, and that it re-establishes the
placement invariant after the position moved on by one (the cascade of a node's slot is never skipped).
-/
import Fatchoy.Lemmas.C05Place
namespace Fatchoy.C05

/-- `addNode` seen from position (off, time): only the counters of the wheel matter -/
def linkAt (G : Geom) (off time : Nat) (n : WNode) : WNode :=
  Wheel.link G { off := off, time := time, nodes := [] } n

theorem link_eq_linkAt (G : Geom) (w : Wheel) (n : WNode) : w.link G n = linkAt G w.off w.time n := rfl

@[simp] theorem linkAt_id (G : Geom) (off time : Nat) (n : WNode) : (linkAt G off time n).id = n.id := rfl
@[simp] theorem linkAt_deadline (G : Geom) (off time : Nat) (n : WNode) : (linkAt G off time n).deadline = n.deadline := rfl
@[simp] theorem linkAt_period (G : Geom) (off time : Nat) (n : WNode) : (linkAt G off time n).period = n.period := rfl

/-- effect of `cascade k s` on one node -/
def casN (G : Geom) (off time k s : Nat) (n : WNode) : WNode :=
  if Wheel.inBucket k s n then linkAt G off time n else n

/-- effect of the loop of `shiftWheels` on one node -/
def shiftNodeLoop (G : Geom) (off time : Nat) : Nat → Nat → Nat → WNode → WNode
  | 0, _, _, n => n
  | fuel + 1, i, ticks, n =>
    let idx := ticks % G.lvlSize
    let n' := casN G off time (i + 1) idx n
    if idx ≠ 0 then n' else shiftNodeLoop G off time fuel (i + 1) (ticks / G.lvlSize) n'

/-- effect of `shiftWheels` on one node -/
def shiftNode (G : Geom) (off time : Nat) (n : WNode) : WNode :=
  let ct := (off + time) % G.wrap
  if ct % G.nearSize ≠ 0 then n else shiftNodeLoop G off time G.levels 0 (ct / G.nearSize) n

@[simp] theorem casN_id : (casN G off time k s n).id = n.id := by unfold casN; split <;> simp
@[simp] theorem casN_deadline : (casN G off time k s n).deadline = n.deadline := by unfold casN; split <;> simp
@[simp] theorem casN_period : (casN G off time k s n).period = n.period := by unfold casN; split <;> simp

theorem shiftNodeLoop_core (G : Geom) (off time : Nat) : ∀ fuel i ticks n,
    (shiftNodeLoop G off time fuel i ticks n).id = n.id ∧
    (shiftNodeLoop G off time fuel i ticks n).deadline = n.deadline ∧
    (shiftNodeLoop G off time fuel i ticks n).period = n.period := by
  intro fuel
  induction fuel with
  | zero => intro i ticks n; simp [shiftNodeLoop]
  | succ f ih =>
    intro i ticks n
    simp only [shiftNodeLoop]
    split
    · simp
    · have := ih (i + 1) (ticks / G.lvlSize) (casN G off time (i + 1) (ticks % G.lvlSize) n)
      simpa using this

theorem shiftNode_core (G : Geom) (off time : Nat) (n : WNode) :
    (shiftNode G off time n).id = n.id ∧ (shiftNode G off time n).deadline = n.deadline ∧
    (shiftNode G off time n).period = n.period := by
  unfold shiftNode
  simp only
  split
  · simp
  · exact shiftNodeLoop_core G off time _ _ _ _

/-! ### the literal geometry -/

/-- the placement invariant of a node of the wheel at (off, time) -/
def NodeOK (off time : Nat) (n : WNode) : Prop :=
  time ≤ n.deadline ∧ SlotOK (off + time) (off + n.deadline) n.level n.slot

/-- what is left of the invariant when the position has moved on by one but `shiftWheels` has not run yet:
the cascade point may have been reached (≤ instead of <) -/
def NodePending (off time : Nat) (n : WNode) : Prop :=
  time ≤ n.deadline ∧
  ((n.level = 0 ∧ (off + n.deadline) - (off + time) < 256 ∧ n.slot = (off + n.deadline) % 256) ∨
   (1 ≤ n.level ∧ n.level ≤ 4 ∧ off + time ≤ (off + n.deadline) / B n.level * B n.level ∧
      n.slot = (off + n.deadline) / B n.level % 64) ∨
   (n.level = 4 ∧ ∃ q, off + time ≤ q ∧ q ≤ off + n.deadline ∧ q % 67108864 = 0 ∧ n.slot = q / 67108864 % 64))

theorem pending_of_ok (h : NodeOK off time n) (hne : n.deadline ≠ time) : NodePending off (time + 1) n := by
  obtain ⟨h1, h3⟩ := h
  refine ⟨by omega, ?_⟩
  rcases h3 with ⟨a, b, c, d⟩ | ⟨a, b, c, d⟩ | ⟨a, q, b, c, d, e⟩
  · left; omega
  · right; left; omega
  · right; right; exact ⟨a, q, by omega, c, d, e⟩

theorem linkAt_ok (c off time : Nat) (n : WNode) (h1 : time ≤ n.deadline) :
    NodeOK off time (linkAt (litGeom c) off time n) := by
  refine ⟨h1, ?_⟩
  have := place_ok c (off + time) (off + n.deadline) (by omega)
  have he : off + n.deadline - (off + time) = n.deadline - time := by omega
  rw [he] at this
  exact this

theorem casN_ok (c : Nat) (h : NodeOK off time n) : NodeOK off time (casN (litGeom c) off time k s n) := by
  unfold casN
  split
  · exact linkAt_ok c off time n h.1
  · exact h

theorem shiftNodeLoop_ok (c : Nat) : ∀ fuel i ticks n, NodeOK off time n →
    NodeOK off time (shiftNodeLoop (litGeom c) off time fuel i ticks n) := by
  intro fuel
  induction fuel with
  | zero => intro i ticks n h; exact h
  | succ f ih =>
    intro i ticks n h
    simp only [shiftNodeLoop]
    split
    · exact casN_ok c h
    · exact ih _ _ _ (casN_ok c h)

theorem casN_hit (hl : n.level = k) (hs : n.slot = s) : casN G off time k s n = linkAt G off time n := by
  unfold casN Wheel.inBucket; simp [hl, hs]
theorem casN_miss (hl : n.level ≠ k) : casN G off time k s n = n := by
  unfold casN Wheel.inBucket; simp [hl]

theorem shiftNode_lit (c off time : Nat) (n : WNode) :
    shiftNode (litGeom c) off time n =
      (let ct := (off + time) % 4294967296
       if ct % 256 ≠ 0 then n else shiftNodeLoop (litGeom c) off time 4 0 (ct / 256) n) := rfl

theorem loop_succ (c off time f i ticks : Nat) (n : WNode) :
    shiftNodeLoop (litGeom c) off time (f + 1) i ticks n =
      (if ticks % 64 ≠ 0 then casN (litGeom c) off time (i + 1) (ticks % 64) n
       else shiftNodeLoop (litGeom c) off time f (i + 1) (ticks / 64) (casN (litGeom c) off time (i + 1) (ticks % 64) n)) := rfl

/-- the heart of the wheel: after the position moved on by one, `shiftWheels` puts every pending node
where the invariant wants it — the cascade of the slot a node waits in is never skipped -/
theorem shiftNode_ok (c : Nat) (h : NodePending off time n) : NodeOK off time (shiftNode (litGeom c) off time n) := by
  obtain ⟨h1, h3⟩ := h
  have okOf : SlotOK (off + time) (off + n.deadline) n.level n.slot → NodeOK off time (shiftNode (litGeom c) off time n) := by
    intro hs
    rw [shiftNode_lit]; simp only
    split
    · exact ⟨h1, hs⟩
    · exact shiftNodeLoop_ok c _ _ _ _ ⟨h1, hs⟩
  rcases h3 with ⟨a, b, d⟩ | ⟨a, b, hle, d⟩ | ⟨a, q, hle, hqe, hq0, d⟩
  · exact okOf (.inl ⟨a, by omega, b, d⟩)
  · by_cases hlt : off + time < (off + n.deadline) / B n.level * B n.level
    · exact okOf (.inr (.inl ⟨a, b, hlt, d⟩))
    · have heq : off + time = (off + n.deadline) / B n.level * B n.level := by omega
      have hrep : NodeOK off time (linkAt (litGeom c) off time n) := linkAt_ok c off time n h1
      have hk : n.level = 1 ∨ n.level = 2 ∨ n.level = 3 ∨ n.level = 4 := by omega
      rw [shiftNode_lit]; simp only
      rcases hk with hk | hk | hk | hk
      · rw [hk] at heq d; simp only [B] at heq d
        have hm : (off + time) % 4294967296 % 256 = 0 := by omega
        have hs : n.slot = (off + time) % 4294967296 / 256 % 64 := by omega
        simp only [hm, ne_eq, not_true_eq_false, if_false, loop_succ, Nat.zero_add]
        rw [casN_hit hk hs]
        repeat' split
        all_goals (try simp only [shiftNodeLoop]); all_goals (repeat (first | exact hrep | apply casN_ok))
      · rw [hk] at heq d; simp only [B] at heq d
        have hm : (off + time) % 4294967296 % 256 = 0 := by omega
        have hi1 : (off + time) % 4294967296 / 256 % 64 = 0 := by omega
        have hs : n.slot = (off + time) % 4294967296 / 256 / 64 % 64 := by omega
        simp only [hm, hi1, ne_eq, not_true_eq_false, if_false, loop_succ, Nat.zero_add]
        rw [casN_miss (show n.level ≠ 1 by omega), casN_hit hk hs]
        repeat' split
        all_goals (try simp only [shiftNodeLoop]); all_goals (repeat (first | exact hrep | apply casN_ok))
      · rw [hk] at heq d; simp only [B] at heq d
        have hm : (off + time) % 4294967296 % 256 = 0 := by omega
        have hi1 : (off + time) % 4294967296 / 256 % 64 = 0 := by omega
        have hi2 : (off + time) % 4294967296 / 256 / 64 % 64 = 0 := by omega
        have hs : n.slot = (off + time) % 4294967296 / 256 / 64 / 64 % 64 := by omega
        simp only [hm, hi1, hi2, ne_eq, not_true_eq_false, if_false, loop_succ, Nat.zero_add]
        rw [casN_miss (show n.level ≠ 1 by omega), casN_miss (show n.level ≠ 2 by omega), casN_hit hk hs]
        repeat' split
        all_goals (try simp only [shiftNodeLoop]); all_goals (repeat (first | exact hrep | apply casN_ok))
      · rw [hk] at heq d; simp only [B] at heq d
        have hm : (off + time) % 4294967296 % 256 = 0 := by omega
        have hi1 : (off + time) % 4294967296 / 256 % 64 = 0 := by omega
        have hi2 : (off + time) % 4294967296 / 256 / 64 % 64 = 0 := by omega
        have hi3 : (off + time) % 4294967296 / 256 / 64 / 64 % 64 = 0 := by omega
        have hs : n.slot = (off + time) % 4294967296 / 256 / 64 / 64 / 64 % 64 := by omega
        simp only [hm, hi1, hi2, hi3, ne_eq, not_true_eq_false, if_false, loop_succ, Nat.zero_add]
        rw [casN_miss (show n.level ≠ 1 by omega), casN_miss (show n.level ≠ 2 by omega),
          casN_miss (show n.level ≠ 3 by omega), casN_hit hk hs]
        repeat' split
        all_goals (try simp only [shiftNodeLoop]); all_goals (repeat (first | exact hrep | apply casN_ok))
  · by_cases hlt : off + time < q
    · exact okOf (.inr (.inr ⟨a, q, hlt, hqe, hq0, d⟩))
    · have heq : off + time = q := by omega
      have hrep : NodeOK off time (linkAt (litGeom c) off time n) := linkAt_ok c off time n h1
      rw [shiftNode_lit]; simp only
      have hm : (off + time) % 4294967296 % 256 = 0 := by omega
      have hi1 : (off + time) % 4294967296 / 256 % 64 = 0 := by omega
      have hi2 : (off + time) % 4294967296 / 256 / 64 % 64 = 0 := by omega
      have hi3 : (off + time) % 4294967296 / 256 / 64 / 64 % 64 = 0 := by omega
      have hs : n.slot = (off + time) % 4294967296 / 256 / 64 / 64 / 64 % 64 := by omega
      simp only [hm, hi1, hi2, hi3, ne_eq, not_true_eq_false, if_false, loop_succ, Nat.zero_add]
      rw [casN_miss (show n.level ≠ 1 by omega), casN_miss (show n.level ≠ 2 by omega),
        casN_miss (show n.level ≠ 3 by omega), casN_hit a hs]
      repeat' split
      all_goals (try simp only [shiftNodeLoop]); all_goals (repeat (first | exact hrep | apply casN_ok))

end Fatchoy.C05
