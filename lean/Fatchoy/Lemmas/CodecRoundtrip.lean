/-
Round-trip lemmas of the codec model, one per format: a frame produced by `WritePacket` for a
well-formed packet within the limits, followed by anything, is read back by `ReadPacket` as the
expected packet, consuming exactly the frame — for every chunking of the stream.
-/
import Fatchoy.Lemmas.CodecWrite
namespace Fatchoy.Codec
open Fatchoy.Crc32
set_option linter.unusedSimpArgs false


/-- what a V1 decoder returns for packet `p` whose body travels as the bytes `b` -/
def expectV1 (P : Params) (e : Env) (p : Pkt) (b : Bytes) : Pkt :=
  { cmd := p.cmd, seq := p.seq, typ := 0, flag := p.flag, node := 0, refs := [], body := decodedBody P e p.flag b }

/-- what a V2 decoder returns -/
def expectV2 (P : Params) (e : Env) (p : Pkt) (b : Bytes) : Pkt :=
  { p with body := decodedBody P e p.flag b }

theorem frameCrc_lt (pre r b : Bytes) : frameCrc pre r b < 2 ^ 32 := (crc32 (pre ++ r ++ b)).isLt

theorem roundtrip_v1 {P : Params} {F : Fmt} {e : Env} {p p' : Pkt} {b w tail : Bytes} {cs : Chunks}
    (hv : ValidV1 F) (hf : ValidFlags P) (hl : e.Lawful) (wf : p.flag &&& 3#8 = 0#8)
    (hb : bodyToBytes P e p.body = some b) (hm : marshalBody P e p = .ok (w, p'))
    (fit : 14 + w.length ≤ F.max) (hcs : flat cs = (writePacket P F e p).bytes ++ tail) :
    (readPacket P F e cs).res = .ok (expectV1 P e p b) ∧ flat (readPacket P F e cs).rest = tail := by
  rw [writePacket_v1 hv hm] at hcs
  have hnov : ¬ 14 + w.length > F.max := by omega
  simp only [hnov, if_false, WrOut.bytes, List.flatten_cons, List.flatten_nil, List.append_nil] at hcs
  obtain ⟨hp', hwb, hwf, hun⟩ := unmarshal_marshal hf hl wf hb hm
    (headPktV1 p'.flag.toNat p'.seq.toNat p'.cmd.toNat)
  have hv' := hv
  obtain ⟨_, hs, _, _, _, _, _, _, hlb, hsub, _, hhi, hlo, _, hm16⟩ := hv'
  -- the header/payload read
  have hfl := (field_v1 (14 + w.length) p'.typ.toNat p'.flag.toNat p'.seq.toNat p'.cmd.toNat
    (frameCrc (preV1 (14 + w.length) p'.typ.toNat p'.flag.toNat p'.seq.toNat p'.cmd.toNat) [] w)).1
  rw [Nat.mod_eq_of_lt (by omega : 14 + w.length < 256 ^ 2)] at hfl
  have hrd := readHeadBody_ok (F := F) (cs := cs) (hdr := hdrV1 p' w) (pl := w) (tail := tail) (n := 14 + w.length)
    (by rw [hdrV1_length, hs]) (by rw [hv.2.2.2.2.1]; exact hfl) (by omega)
    (by rw [hlb, hsub, subWrap_eq (by omega) (by omega)]; omega) (by rw [hcs, List.append_assoc])
  obtain ⟨r1, r2, _, _⟩ := hrd
  unfold readPacket
  simp only [r1, r2]
  refine ⟨?_, trivial⟩
  rw [hdrV1, unmarshal_v1 hv]
  simp only [Nat.mod_eq_of_lt (frameCrc_lt _ _ _), ne_eq, not_true_eq_false, if_false]
  unfold unmarshalPayload
  simp only [Nat.lt_irrefl, false_and, if_false, readRefs, Nat.zero_mul, List.drop_zero]
  have hseq : p'.seq = p.seq := by rw [hp']
  have hcmd : p'.cmd = p.cmd := by rw [hp']
  have hpk : headPktV1 p'.flag.toNat p'.seq.toNat p'.cmd.toNat =
      { cmd := p.cmd, seq := p.seq, typ := 0, flag := p'.flag, node := 0, refs := [], body := .absent } := by
    simp [headPktV1, hseq, hcmd]
  rw [hpk]
  have hmask : p.flag &&& (bit8 P.flagCompressed ||| bit8 P.flagEncrypted) = 0#8 := by
    rw [hf.1, hf.2.1]; exact wf
  by_cases hw : w = []
  · have hb0 : b = [] := hwb.mp hw
    simp [hw, expectV1, decodedBody, hb0, hwf hw, hmask]
  · have hpos : w.length > 0 := List.length_pos_iff.mpr hw
    simp only [hpos, true_or, if_true]
    have := hun hw
    rw [hpk] at this
    simp only [] at this ⊢
    rw [this]
    simp [expectV1]

theorem roundtrip_v2 {P : Params} {F : Fmt} {e : Env} {p p' : Pkt} {b w tail : Bytes} {cs : Chunks}
    (hv : ValidV2 F) (hf : ValidFlags P) (hl : e.Lawful) (wf : p.flag &&& 3#8 = 0#8) (hrefs : p.refs.length ≤ 255)
    (hb : bodyToBytes P e p.body = some b) (hm : marshalBody P e p = .ok (w, p'))
    (fit : 20 + p.refs.length * 4 + w.length ≤ F.max) (hcs : flat cs = (writePacket P F e p).bytes ++ tail) :
    (readPacket P F e cs).res = .ok (expectV2 P e p b) ∧ flat (readPacket P F e cs).rest = tail := by
  obtain ⟨hp', hwb, hwf, hun⟩ := unmarshal_marshal hf hl wf hb hm
    { cmd := p.cmd, seq := p.seq, typ := p.typ, flag := p'.flag, node := p.node, refs := p.refs, body := .absent }
  simp only [] at hun
  have hseq : p'.seq = p.seq := by rw [hp']
  have hcmd : p'.cmd = p.cmd := by rw [hp']
  have htyp : p'.typ = p.typ := by rw [hp']
  have hnode : p'.node = p.node := by rw [hp']
  have href : p'.refs = p.refs := by rw [hp']
  rw [writePacket_v2 hv hm] at hcs
  have hnr : ¬ p.refs.length > P.maxRefs := by rw [hf.2.2.2]; omega
  have hnov : ¬ 20 + p'.refs.length * 4 + w.length > F.max := by rw [href]; omega
  simp only [hnr, hnov, if_false, WrOut.bytes, List.flatten_cons, List.flatten_nil, List.append_nil] at hcs
  have hv' := hv
  obtain ⟨_, hs, _, _, hget, _, _, _, hlb, hsub, _, hhi, hlo, _, hm24⟩ := hv'
  have hfl := (field_v2 (20 + p'.refs.length * 4 + w.length) p'.typ.toNat p'.flag.toNat p'.refs.length p'.seq.toNat
    p'.node.toNat p'.cmd.toNat
    (frameCrc (preV2 (20 + p'.refs.length * 4 + w.length) p'.typ.toNat p'.flag.toNat p'.refs.length p'.seq.toNat
      p'.node.toNat p'.cmd.toNat) (refBytes p'.refs) w)).1
  rw [Nat.mod_eq_of_lt (by rw [href]; omega : 20 + p'.refs.length * 4 + w.length < 256 ^ 3)] at hfl
  have hpl : (refBytes p'.refs ++ w).length = p'.refs.length * 4 + w.length := by
    rw [List.length_append, refBytes_length]
  have hrd := readHeadBody_ok (F := F) (cs := cs) (hdr := hdrV2 p' w) (pl := refBytes p'.refs ++ w) (tail := tail)
    (n := 20 + p'.refs.length * 4 + w.length)
    (by rw [hdrV2_length, hs]) (by rw [hget]; exact hfl) (by rw [href]; omega)
    (by rw [hlb, hsub, subWrap_eq (by omega) (by rw [href]; omega), hpl]; omega)
    (by rw [hcs]; simp only [List.append_assoc])
  obtain ⟨r1, r2, _, _⟩ := hrd
  unfold readPacket
  simp only [r1, r2]
  refine ⟨?_, trivial⟩
  rw [hdrV2, unmarshal_v2 hv]
  have hcrc : frameCrc (preV2 (20 + p'.refs.length * 4 + w.length) p'.typ.toNat p'.flag.toNat p'.refs.length p'.seq.toNat
      p'.node.toNat p'.cmd.toNat) [] (refBytes p'.refs ++ w) =
      frameCrc (preV2 (20 + p'.refs.length * 4 + w.length) p'.typ.toNat p'.flag.toNat p'.refs.length p'.seq.toNat
      p'.node.toNat p'.cmd.toNat) (refBytes p'.refs) w := by
    simp [frameCrc]
  rw [hcrc]
  simp only [Nat.mod_eq_of_lt (frameCrc_lt _ _ _), ne_eq, not_true_eq_false, if_false]
  have h256 : p'.refs.length % 256 = p'.refs.length := Nat.mod_eq_of_lt (by rw [href]; omega)
  unfold unmarshalPayload
  rw [h256, readRefs_refBytes]
  have hnsh : ¬ (p'.refs.length > 0 ∧ (refBytes p'.refs ++ w).length < p'.refs.length * 4) := by rw [hpl]; omega
  simp only [hnsh, if_false]
  rw [← refBytes_length, List.drop_left' rfl]
  have hpk : headPktV2 p'.typ.toNat p'.flag.toNat p'.seq.toNat p'.node.toNat p'.cmd.toNat =
      { cmd := p.cmd, seq := p.seq, typ := p.typ, flag := p'.flag, node := p.node, refs := [], body := .absent } := by
    simp [headPktV2, hseq, hcmd, htyp, hnode]
  rw [hpk, href]
  have hmask : p.flag &&& (bit8 P.flagCompressed ||| bit8 P.flagEncrypted) = 0#8 := by
    rw [hf.1, hf.2.1]; exact wf
  by_cases hw : w = []
  · have hb0 : b = [] := hwb.mp hw
    simp [hw, expectV2, decodedBody, hb0, hwf hw, href, hmask]
  · have hpos : w.length > 0 := List.length_pos_iff.mpr hw
    simp only [hpos, true_or, if_true]
    have := hun hw
    rw [this]
    simp [expectV2, href]


end Fatchoy.Codec
