/-
C12: the lock-level LTS of the concurrent queue (Model/C12Lock.lean) refines the atomic one.
Invariant style: mutual exclusion from the lock, "a snapshot taken under the lock is still current",
and the ghost history replays atomically to the shared state.
-/
import Fatchoy.Model.C12Lock
import Fatchoy.Lemmas.C12Queue
set_option linter.unusedSectionVars false
set_option linter.unusedVariables false
namespace Fatchoy.C12
section
variable {α : Type} [Inhabited α]

/-- the method a goroutine is inside the locked region of, if any -/
def holdsA : Pc α → Option (CAct α)
  | .locked a => some a
  | .read a _ => some a
  | .wrote a _ => some a
  | _ => none

structure LInv (P : Params) (rlock : CAct α → Bool) (s : LState α) : Prop where
  uwf : UWF s.q
  atomic : crun P (UQ.zero : UQ α) (s.hist.map Prod.fst) = some (s.q, s.hist.map Prod.snd)
  snap : ∀ g a sn, s.pc g = .read a sn → sn = s.q
  wlock : ∀ g a, holdsA (s.pc g) = some a → rlock a = false → s.writer = some g
  rlockI : ∀ g a, holdsA (s.pc g) = some a → rlock a = true → g ∈ s.readers ∧ s.writer = none

theorem LInv.init (P : Params) (rlock : CAct α → Bool) : LInv P rlock (LState.init : LState α) := by
  constructor
  · exact UQ.zero_wf
  · rfl
  · intro g a sn h; simp [LState.init] at h
  · intro g a h; simp [LState.init, holdsA] at h
  · intro g a h; simp [LState.init, holdsA] at h

theorem crun_snoc (P : Params) : ∀ (as : List (CAct α)) (a : CAct α) (z q q' : UQ α) (os : List (UOut α)) (o : UOut α),
    crun P z as = some (q, os) → cstep P q a = some (q', o) → crun P z (as ++ [a]) = some (q', os ++ [o]) := by
  intro as
  induction as with
  | nil =>
    intro a z q q' os o h1 h2
    simp only [crun, Option.some.injEq, Prod.mk.injEq] at h1
    obtain ⟨rfl, rfl⟩ := h1
    simp [crun, h2]
  | cons b as ih =>
    intro a z q q' os o h1 h2
    simp only [crun, Option.bind_eq_bind] at h1
    cases hb : cstep P z b with
    | none => rw [hb] at h1; simp at h1
    | some r =>
      obtain ⟨z1, o1⟩ := r
      rw [hb] at h1
      simp only [Option.bind_some] at h1
      cases hr : crun P z1 as with
      | none => rw [hr] at h1; simp at h1
      | some r2 =>
        obtain ⟨z2, os2⟩ := r2
        rw [hr] at h1
        simp only [Option.bind_some, Option.some.injEq, Prod.mk.injEq] at h1
        obtain ⟨rfl, rfl⟩ := h1
        have := ih a z1 z2 q' os2 o hr h2
        simp [crun, hb, this]

theorem cstep_readonly {P : Params} {q q' : UQ α} {a : CAct α} {o : UOut α}
    (hw : a.writes = false) (h : cstep P q a = some (q', o)) : q' = q := by
  cases a with
  | enqueue g v => simp [CAct.writes] at hw
  | dequeue g => simp [CAct.writes] at hw
  | peek g =>
    simp only [cstep, CAct.op, UQ.step, Option.bind_eq_bind, Option.bind_eq_some_iff, Option.some.injEq,
      Prod.mk.injEq] at h
    obtain ⟨_, _, rfl, _⟩ := h; rfl
  | len g =>
    simp only [cstep, CAct.op, UQ.step, Option.some.injEq, Prod.mk.injEq] at h
    exact h.1.symm

theorem setPc_pc (s : LState α) (g : Nat) (p : Pc α) (x : Nat) :
    (s.setPc g p).pc x = if x = g then p else s.pc x := rfl

/-- the invariant is inductive -/
theorem lstep_inv {P : Params} {rlock : CAct α → Bool} (hr : ∀ a, rlock a = true → a.writes = false)
    {s s' : LState α} {act : LAct α} (hi : LInv P rlock s) (h : lstep P true rlock s act = some s') :
    LInv P rlock s' := by
  obtain ⟨huwf, hat, hsnap, hwl, hrl⟩ := hi
  cases act with
  | call a =>
    simp only [lstep] at h
    cases hp : s.pc a.who with
    | idle =>
      rw [hp] at h
      simp only [Option.some.injEq] at h
      subst h
      constructor
      · exact huwf
      · exact hat
      · intro g b sn hg
        rw [setPc_pc] at hg
        split at hg
        · cases hg
        · exact hsnap g b sn hg
      · intro g b hg
        rw [setPc_pc] at hg
        split at hg
        · simp [holdsA] at hg
        · exact hwl g b hg
      · intro g b hg
        rw [setPc_pc] at hg
        split at hg
        · simp [holdsA] at hg
        · exact hrl g b hg
    | waiting _ => rw [hp] at h; simp at h
    | locked _ => rw [hp] at h; simp at h
    | read _ _ => rw [hp] at h; simp at h
    | wrote _ _ => rw [hp] at h; simp at h
  | lock g0 =>
    simp only [lstep] at h
    cases hp : s.pc g0 with
    | waiting a =>
      rw [hp] at h
      simp only [Bool.not_true, Bool.false_eq_true, if_false] at h
      by_cases hm : rlock a = true
      · rw [if_pos hm] at h
        by_cases hw : s.writer = none
        · rw [if_pos hw] at h
          simp only [Option.some.injEq] at h
          subst h
          constructor
          · exact huwf
          · exact hat
          · intro g b sn hg
            rw [setPc_pc] at hg
            split at hg
            · cases hg
            · exact hsnap g b sn hg
          · intro g b hg hb
            rw [setPc_pc] at hg
            split at hg
            · rename_i heq
              simp only [holdsA, Option.some.injEq] at hg
              subst hg; rw [hm] at hb; cases hb
            · exact hwl g b hg hb
          · intro g b hg hb
            rw [setPc_pc] at hg
            split at hg
            · rename_i heq
              subst heq
              exact ⟨List.mem_cons_self, hw⟩
            · obtain ⟨h1, h2⟩ := hrl g b hg hb
              exact ⟨List.mem_cons_of_mem _ h1, h2⟩
        · rw [if_neg hw] at h; cases h
      · rw [if_neg hm] at h
        have hm' : rlock a = false := by cases hx : rlock a <;> simp_all
        by_cases hw : s.writer = none ∧ s.readers = []
        · rw [if_pos hw] at h
          simp only [Option.some.injEq] at h
          subst h
          constructor
          · exact huwf
          · exact hat
          · intro g b sn hg
            rw [setPc_pc] at hg
            split at hg
            · cases hg
            · exact hsnap g b sn hg
          · intro g b hg hb
            rw [setPc_pc] at hg
            split at hg
            · rename_i heq; subst heq; rfl
            · have := hwl g b hg hb
              rw [hw.1] at this; cases this
          · intro g b hg hb
            rw [setPc_pc] at hg
            split at hg
            · simp only [holdsA, Option.some.injEq] at hg
              subst hg; rw [hm'] at hb; cases hb
            · obtain ⟨h1, _⟩ := hrl g b hg hb
              rw [hw.2] at h1; cases h1
        · rw [if_neg hw] at h; cases h
    | idle => rw [hp] at h; simp at h
    | locked _ => rw [hp] at h; simp at h
    | read _ _ => rw [hp] at h; simp at h
    | wrote _ _ => rw [hp] at h; simp at h
  | read g0 =>
    simp only [lstep] at h
    cases hp : s.pc g0 with
    | locked a =>
      rw [hp] at h
      simp only [Option.some.injEq] at h
      subst h
      have hh0 : holdsA (s.pc g0) = some a := by rw [hp]; rfl
      constructor
      · exact huwf
      · exact hat
      · intro g b sn hg
        rw [setPc_pc] at hg
        split at hg
        · cases hg; rfl
        · exact hsnap g b sn hg
      · intro g b hg hb
        rw [setPc_pc] at hg
        split at hg
        · rename_i heq
          simp only [holdsA, Option.some.injEq] at hg
          subst hg; subst heq
          exact hwl _ _ hh0 hb
        · exact hwl g b hg hb
      · intro g b hg hb
        rw [setPc_pc] at hg
        split at hg
        · rename_i heq
          simp only [holdsA, Option.some.injEq] at hg
          subst hg; subst heq
          exact hrl _ _ hh0 hb
        · exact hrl g b hg hb
    | idle => rw [hp] at h; simp at h
    | waiting _ => rw [hp] at h; simp at h
    | read _ _ => rw [hp] at h; simp at h
    | wrote _ _ => rw [hp] at h; simp at h
  | write g0 =>
    simp only [lstep] at h
    cases hp : s.pc g0 with
    | read a sn =>
      rw [hp] at h
      simp only [] at h
      have hsn : sn = s.q := hsnap g0 a sn hp
      subst hsn
      have hh0 : holdsA (s.pc g0) = some a := by rw [hp]; rfl
      cases hc : cstep P s.q a with
      | none => rw [hc] at h; simp at h
      | some r =>
        obtain ⟨q', o⟩ := r
        rw [hc] at h
        simp only [Option.some.injEq] at h
        subst h
        obtain ⟨q1, o1, hs1, hw1, _⟩ := ustep_refines P huwf a.op
        have hc' : cstep P s.q a = some (q1, o1) := hs1
        rw [hc] at hc'
        simp only [Option.some.injEq, Prod.mk.injEq] at hc'
        obtain ⟨rfl, rfl⟩ := hc'
        have hnewq : (if a.writes = true then q' else s.q) = q' := by
          by_cases hw : a.writes = true
          · rw [if_pos hw]
          · rw [if_neg hw]
            have hw' : a.writes = false := by cases hx : a.writes <;> simp_all
            exact (cstep_readonly hw' hc).symm
        constructor
        · show UWF (if a.writes = true then q' else s.q)
          rw [hnewq]; exact hw1
        · show crun P UQ.zero ((s.hist ++ [(a, o)]).map Prod.fst) =
            some (if a.writes = true then q' else s.q, (s.hist ++ [(a, o)]).map Prod.snd)
          rw [hnewq]
          simp only [List.map_append, List.map_cons, List.map_nil]
          exact crun_snoc P _ a _ _ _ _ o hat hc
        · intro g b sn hg
          rw [setPc_pc] at hg
          show sn = (if a.writes = true then q' else s.q)
          split at hg
          · cases hg
          · rename_i hne
            have hold : sn = s.q := hsnap g b sn hg
            by_cases hw : a.writes = true
            · -- the writer holds the exclusive lock: nobody else is inside a body
              exfalso
              have hra : rlock a = false := by
                cases hx : rlock a with
                | false => rfl
                | true => have := hr a hx; rw [hw] at this; cases this
              have hwr : s.writer = some g0 := hwl g0 a hh0 hra
              have hhg : holdsA (s.pc g) = some b := by rw [hg]; rfl
              cases hx : rlock b with
              | false =>
                have := hwl g b hhg hx
                rw [hwr] at this
                simp only [Option.some.injEq] at this
                exact hne this.symm
              | true =>
                have := (hrl g b hhg hx).2
                rw [hwr] at this; cases this
            · rw [if_neg hw]; exact hold
        · intro g b hg hb
          rw [setPc_pc] at hg
          show s.writer = some g
          split at hg
          · rename_i heq
            simp only [holdsA, Option.some.injEq] at hg
            subst hg; subst heq
            exact hwl _ _ hh0 hb
          · exact hwl g b hg hb
        · intro g b hg hb
          rw [setPc_pc] at hg
          show g ∈ s.readers ∧ s.writer = none
          split at hg
          · rename_i heq
            simp only [holdsA, Option.some.injEq] at hg
            subst hg; subst heq
            exact hrl _ _ hh0 hb
          · exact hrl g b hg hb
    | idle => rw [hp] at h; simp at h
    | waiting _ => rw [hp] at h; simp at h
    | locked _ => rw [hp] at h; simp at h
    | wrote _ _ => rw [hp] at h; simp at h
  | unlock g0 =>
    simp only [lstep] at h
    cases hp : s.pc g0 with
    | wrote a o =>
      rw [hp] at h
      simp only [Bool.not_true, Bool.false_eq_true, if_false] at h
      have hh0 : holdsA (s.pc g0) = some a := by rw [hp]; rfl
      by_cases hm : rlock a = true
      · rw [if_pos hm] at h
        simp only [Option.some.injEq] at h
        subst h
        constructor
        · exact huwf
        · exact hat
        · intro g b sn hg
          rw [setPc_pc] at hg
          split at hg
          · cases hg
          · exact hsnap g b sn hg
        · intro g b hg hb
          rw [setPc_pc] at hg
          split at hg
          · simp [holdsA] at hg
          · exact hwl g b hg hb
        · intro g b hg hb
          rw [setPc_pc] at hg
          split at hg
          · simp [holdsA] at hg
          · rename_i hne
            obtain ⟨h1, h2⟩ := hrl g b hg hb
            exact ⟨(List.mem_erase_of_ne hne).mpr h1, h2⟩
      · rw [if_neg hm] at h
        have hm' : rlock a = false := by cases hx : rlock a <;> simp_all
        have hwr : s.writer = some g0 := hwl g0 a hh0 hm'
        simp only [Option.some.injEq] at h
        subst h
        constructor
        · exact huwf
        · exact hat
        · intro g b sn hg
          rw [setPc_pc] at hg
          split at hg
          · cases hg
          · exact hsnap g b sn hg
        · intro g b hg hb
          rw [setPc_pc] at hg
          split at hg
          · simp [holdsA] at hg
          · rename_i hne
            have := hwl g b hg hb
            rw [hwr] at this
            simp only [Option.some.injEq] at this
            exact absurd this.symm hne
        · intro g b hg hb
          rw [setPc_pc] at hg
          split at hg
          · simp [holdsA] at hg
          · have := (hrl g b hg hb).2
            rw [hwr] at this; cases this
    | idle => rw [hp] at h; simp at h
    | waiting _ => rw [hp] at h; simp at h
    | locked _ => rw [hp] at h; simp at h
    | read _ _ => rw [hp] at h; simp at h

theorem lrun_inv {P : Params} {rlock : CAct α → Bool} (hr : ∀ a, rlock a = true → a.writes = false) :
    ∀ (las : List (LAct α)) (s s' : LState α), LInv P rlock s → lrun P true rlock s las = some s' →
      LInv P rlock s' := by
  intro las
  induction las with
  | nil => intro s s' hi h; simp [lrun] at h; rw [← h]; exact hi
  | cons a las ih =>
    intro s s' hi h
    simp only [lrun] at h
    cases hs : lstep P true rlock s a with
    | none => rw [hs] at h; simp at h
    | some s1 =>
      rw [hs] at h
      exact ih s1 s' (lstep_inv hr hi hs) h

end
end Fatchoy.C12
