/-
C10 helper lemmas, part 4: the neighbour searches (floor / ceiling / higher / lower) and the
successor / predecessor walks, as the code performs them over tree + parent links, are the obvious
searches in the sorted listing.
-/
import Fatchoy.Lemmas.C10Refine
namespace Fatchoy.C10

theorem climbFromRight_spec : ∀ (p : Path), climbFromRight p = (pathR p).head?
  | [] => rfl
  | f :: p => by
    rcases f with ⟨d, c, k, v, s⟩
    cases d
    · simp [climbFromRight]
    · simp [climbFromRight, climbFromRight_spec p]

theorem climbFromLeft_spec : ∀ (p : Path), climbFromLeft p = (pathL p).getLast?
  | [] => rfl
  | f :: p => by
    rcases f with ⟨d, c, k, v, s⟩
    cases d
    · simp [climbFromLeft, climbFromLeft_spec p]
    · simp [climbFromLeft, List.getLast?_append]

theorem ceilingGo_spec : ∀ (t : Tree) (p : Path) (k : Nat), Sorted (toList t) → t ≠ .nil →
    ceilingGo t p k = (ceilingS k (toList t)).or (climbFromRight p)
  | .nil, _, _, _, h => absurd rfl h
  | .node c l k' v r, p, k, hs, _ => by
    obtain ⟨hsl, hsr, hlt, hgt, _⟩ := sorted_mid.mp hs
    simp only [ceilingS, toList_node, List.find?_append, List.find?_cons]
    unfold ceilingGo
    split
    · rename_i hk
      have h1 : decide (k ≤ k') = true := by simp; omega
      simp only [h1]
      cases l with
      | nil => simp
      | node lc ll lk lv lr =>
        simp only
        rw [ceilingGo_spec _ _ k hsl (by simp)]
        simp only [ceilingS, climbFromRight]
        cases List.find? (fun e => decide (k ≤ e.fst)) (toList (Tree.node lc ll lk lv lr)) <;> simp
    · split
      · rename_i hk
        have h1 : decide (k ≤ k') = false := by simp; omega
        have h2 : List.find? (fun e => decide (k ≤ e.fst)) (toList l) = none := by
          apply List.find?_eq_none.mpr
          intro e he; have := hlt e he; simp; omega
        simp only [h1, h2]
        cases r with
        | nil => simp
        | node rc rl rk rv rr =>
          simp only
          rw [ceilingGo_spec _ _ k hsr (by simp)]
          simp [ceilingS, climbFromRight]
      · rename_i h1 h2
        have : k' = k := by omega
        subst this
        have h2 : List.find? (fun e => decide (k' ≤ e.fst)) (toList l) = none := by
          apply List.find?_eq_none.mpr
          intro e he; have := hlt e he; simp; omega
        simp [h2]

theorem higherGo_spec : ∀ (t : Tree) (p : Path) (k : Nat), Sorted (toList t) → t ≠ .nil →
    higherGo t p k = (higherS k (toList t)).or (climbFromRight p)
  | .nil, _, _, _, h => absurd rfl h
  | .node c l k' v r, p, k, hs, _ => by
    obtain ⟨hsl, hsr, hlt, hgt, _⟩ := sorted_mid.mp hs
    simp only [higherS, toList_node, List.find?_append, List.find?_cons]
    unfold higherGo
    split
    · rename_i hk
      have h1 : decide (k < k') = true := by simp; omega
      simp only [h1]
      cases l with
      | nil => simp
      | node lc ll lk lv lr =>
        simp only
        rw [higherGo_spec _ _ k hsl (by simp)]
        simp only [higherS, climbFromRight]
        cases List.find? (fun e => decide (k < e.fst)) (toList (Tree.node lc ll lk lv lr)) <;> simp
    · rename_i hk
      have h1 : decide (k < k') = false := by simp; omega
      have h2 : List.find? (fun e => decide (k < e.fst)) (toList l) = none := by
        apply List.find?_eq_none.mpr
        intro e he; have := hlt e he; simp; omega
      simp only [h1, h2]
      cases r with
      | nil => simp
      | node rc rl rk rv rr =>
        simp only
        rw [higherGo_spec _ _ k hsr (by simp)]
        simp [higherS, climbFromRight]

theorem floorGo_spec : ∀ (t : Tree) (p : Path) (k : Nat), Sorted (toList t) → t ≠ .nil →
    floorGo t p k = (floorS k (toList t)).or (climbFromLeft p)
  | .nil, _, _, _, h => absurd rfl h
  | .node c l k' v r, p, k, hs, _ => by
    obtain ⟨hsl, hsr, hlt, hgt, _⟩ := sorted_mid.mp hs
    simp only [floorS, toList_node, List.reverse_append, List.reverse_cons, List.find?_append, List.find?_cons,
      List.append_assoc, List.find?_nil]
    unfold floorGo
    split
    · rename_i hk
      have h1 : decide (k' ≤ k) = true := by simp; omega
      simp only [h1]
      cases r with
      | nil => simp
      | node rc rl rk rv rr =>
        simp only
        rw [floorGo_spec _ _ k hsr (by simp)]
        simp only [floorS, climbFromLeft]
        cases List.find? (fun e => decide (e.fst ≤ k)) (toList (Tree.node rc rl rk rv rr)).reverse <;> simp
    · split
      · rename_i hk
        have h1 : decide (k' ≤ k) = false := by simp; omega
        have h2 : List.find? (fun e => decide (e.fst ≤ k)) (toList r).reverse = none := by
          apply List.find?_eq_none.mpr
          intro e he; have := hgt e (List.mem_reverse.mp he); simp; omega
        simp only [h1, h2]
        cases l with
        | nil => simp
        | node lc ll lk lv lr =>
          simp only
          rw [floorGo_spec _ _ k hsl (by simp)]
          simp [floorS, climbFromLeft]
      · rename_i h1 h2
        have : k' = k := by omega
        subst this
        have h2 : List.find? (fun e => decide (e.fst ≤ k')) (toList r).reverse = none := by
          apply List.find?_eq_none.mpr
          intro e he; have := hgt e (List.mem_reverse.mp he); simp; omega
        simp [h2]

theorem lowerGo_spec : ∀ (t : Tree) (p : Path) (k : Nat), Sorted (toList t) → t ≠ .nil →
    lowerGo t p k = (lowerS k (toList t)).or (climbFromLeft p)
  | .nil, _, _, _, h => absurd rfl h
  | .node c l k' v r, p, k, hs, _ => by
    obtain ⟨hsl, hsr, hlt, hgt, _⟩ := sorted_mid.mp hs
    simp only [lowerS, toList_node, List.reverse_append, List.reverse_cons, List.find?_append, List.find?_cons,
      List.append_assoc, List.find?_nil]
    unfold lowerGo
    split
    · rename_i hk
      have h1 : decide (k' < k) = true := by simp; omega
      simp only [h1]
      cases r with
      | nil => simp
      | node rc rl rk rv rr =>
        simp only
        rw [lowerGo_spec _ _ k hsr (by simp)]
        simp only [lowerS, climbFromLeft]
        cases List.find? (fun e => decide (e.fst < k)) (toList (Tree.node rc rl rk rv rr)).reverse <;> simp
    · rename_i hk
      have h1 : decide (k' < k) = false := by simp; omega
      have h2 : List.find? (fun e => decide (e.fst < k)) (toList r).reverse = none := by
        apply List.find?_eq_none.mpr
        intro e he; have := hgt e (List.mem_reverse.mp he); simp; omega
      simp only [h1, h2]
      cases l with
      | nil => simp
      | node lc ll lk lv lr =>
        simp only
        rw [lowerGo_spec _ _ k hsl (by simp)]
        simp [lowerS, climbFromLeft]

theorem ceiling_spec (t : Tree) (k : Nat) (hs : Sorted (toList t)) : ceiling t k = ceilingS k (toList t) := by
  cases t with
  | nil => rfl
  | node c l k' v r => simp [ceiling, ceilingGo_spec _ _ _ hs, climbFromRight]

theorem higher_spec (t : Tree) (k : Nat) (hs : Sorted (toList t)) : higher t k = higherS k (toList t) := by
  cases t with
  | nil => rfl
  | node c l k' v r => simp [higher, higherGo_spec _ _ _ hs, climbFromRight]

theorem floor_spec (t : Tree) (k : Nat) (hs : Sorted (toList t)) : floor t k = floorS k (toList t) := by
  cases t with
  | nil => rfl
  | node c l k' v r => simp [floor, floorGo_spec _ _ _ hs, climbFromLeft]

theorem lower_spec (t : Tree) (k : Nat) (hs : Sorted (toList t)) : lower t k = lowerS k (toList t) := by
  cases t with
  | nil => rfl
  | node c l k' v r => simp [lower, lowerGo_spec _ _ _ hs, climbFromLeft]

end Fatchoy.C10
