/-
Helper lemmas for C14, part 2 (matching): on a well-formed trie without competing literal/wildcard
branches, `starts` finds a match at a position iff some dictionary word matches there (with the wildcard
standing for any single rune); consequences for `find`, `Contains` and `Filter`; the observations depend
only on the sets of nodes and of terminal paths.
-/
import Fatchoy.Lemmas.C14
namespace Fatchoy.C14

/-- the pattern `q` (in which `wild` stands for any single rune) matches a prefix of `s` -/
def PMatches (wild : Nat) : List Nat → List Nat → Prop
  | [], _ => True
  | _ :: _, [] => False
  | c :: q, r :: s => (c = wild ∨ c = r) ∧ PMatches wild q s

/-- the pattern `q` matches the text `u` rune by rune, `wild` standing for any single rune -/
def WildMatch (wild : Nat) : List Nat → List Nat → Prop
  | [], [] => True
  | c :: q, r :: u => (c = wild ∨ c = r) ∧ WildMatch wild q u
  | _, _ => False

/-- no node has both a wildcard child and a literal child -/
def NoCompete (P : Params) (t : Trie) : Prop :=
  ∀ p c, p ++ [P.wild] ∈ t.nodes → p ++ [c] ∈ t.nodes → c = P.wild

/-- a dictionary of literal words: no word contains the wildcard rune -/
def Literal (P : Params) (t : Trie) : Prop := ∀ e ∈ t.ends, P.wild ∉ e

theorem PMatches.length_le {wild : Nat} : ∀ {q s : List Nat}, PMatches wild q s → q.length ≤ s.length
  | [], _, _ => by simp
  | _ :: _, [], h => by cases h
  | _ :: q, _ :: s, h => by
    have := PMatches.length_le h.2
    simp only [List.length_cons]; omega

theorem pmatches_iff_wildMatch (wild : Nat) (q s : List Nat) :
    PMatches wild q s ↔ ∃ u, u <+: s ∧ WildMatch wild q u := by
  induction q generalizing s with
  | nil =>
    simp only [PMatches, true_iff]
    exact ⟨[], List.nil_prefix, trivial⟩
  | cons c q ih =>
    cases s with
    | nil =>
      simp only [PMatches, false_iff]
      rintro ⟨u, hu, hm⟩
      rw [List.prefix_nil] at hu
      subst hu
      exact hm
    | cons r s =>
      simp only [PMatches, ih]
      constructor
      · rintro ⟨hc, u, hu, hm⟩
        exact ⟨r :: u, by simp [List.cons_prefix_cons, hu], hc, hm⟩
      · rintro ⟨u, hu, hm⟩
        cases u with
        | nil => exact absurd hm (by simp [WildMatch])
        | cons x u =>
          rw [List.cons_prefix_cons] at hu
          obtain ⟨rfl, hu⟩ := hu
          exact ⟨hm.1, u, hu, hm.2⟩

theorem pmatches_literal (wild : Nat) (q s : List Nat) (hq : wild ∉ q) : PMatches wild q s ↔ q <+: s := by
  induction q generalizing s with
  | nil => simp [PMatches]
  | cons c q ih =>
    have hc : c ≠ wild := fun h => hq (h ▸ List.mem_cons_self)
    have hq' : wild ∉ q := fun h => hq (List.mem_cons_of_mem _ h)
    cases s with
    | nil => simp [PMatches]
    | cons r s =>
      simp only [PMatches, ih s hq', List.cons_prefix_cons, hc, false_or]

theorem literal_noCompete (P : Params) (t : Trie) (ht : WF t) (hl : Literal P t) : NoCompete P t := by
  intro p c hw _
  obtain ⟨_, e, he, hpre⟩ := (ht.nodes_iff _).mp hw
  exact absurd (hpre.mem (by simp)) (hl e he)

/-! ### one step of the walk -/

theorem childOf_some (P : Params) (t : Trie) (path : Path) (ch : Nat) (child : Path)
    (h : childOf P t path ch = some child) :
    ∃ c, (c = P.wild ∨ c = ch) ∧ child = path ++ [c] ∧ child ∈ t.nodes := by
  unfold childOf at h
  split at h
  · cases h; exact ⟨ch, Or.inr rfl, rfl, by assumption⟩
  · split at h
    · cases h; exact ⟨P.wild, Or.inl rfl, rfl, by assumption⟩
    · cases h

/-- without competing branches the walk takes the one child that can match the rune -/
theorem childOf_of_node (P : Params) (t : Trie) (hnc : NoCompete P t) (path : Path) (ch c : Nat)
    (hc : c = P.wild ∨ c = ch) (hn : path ++ [c] ∈ t.nodes) : childOf P t path ch = some (path ++ [c]) := by
  unfold childOf
  by_cases h1 : path ++ [ch] ∈ t.nodes
  · simp only [h1, if_true]
    rcases hc with rfl | rfl
    · rw [hnc path ch hn h1]
    · rfl
  · simp only [h1, if_false]
    rcases hc with rfl | rfl
    · simp [hn]
    · exact absurd hn h1

/-! ### `starts` -/

/-- soundness: a match reported by the walk is a dictionary word (pattern) matching at this position -/
theorem matchLen_some (P : Params) (t : Trie) (s : List Nat) :
    ∀ (path : Path) (k n : Nat), matchLen P t path k s = some n → path ∉ t.ends →
      ∃ q, q ≠ [] ∧ PMatches P.wild q s ∧ path ++ q ∈ t.ends ∧ n = k + q.length := by
  induction s with
  | nil =>
    intro path k n h hp
    unfold matchLen at h
    split at h
    · rename_i he; exact absurd ((isEnd_iff t path).mp he) hp
    · cases h
  | cons ch rest ih =>
    intro path k n h hp
    unfold matchLen at h
    split at h
    · cases h
    · rename_i child hchild
      obtain ⟨c, hc, rfl, _⟩ := childOf_some P t path ch child hchild
      split at h
      · rename_i he
        cases h
        exact ⟨[c], by simp, ⟨hc, trivial⟩, (isEnd_iff _ _).mp he, by simp⟩
      · rename_i he
        obtain ⟨q, _, hm, hin, hn⟩ := ih _ _ _ h (fun hin => he ((isEnd_iff _ _).mpr hin))
        exact ⟨c :: q, by simp, ⟨hc, hm⟩, by simpa using hin, by simp [hn]; omega⟩

/-- completeness: if the walk reports nothing, no dictionary word (pattern) matches at this position -/
theorem matchLen_none (P : Params) (t : Trie) (ht : WF t) (hnc : NoCompete P t) (s : List Nat) :
    ∀ (path : Path) (k : Nat), matchLen P t path k s = none →
      ∀ q, q ≠ [] → PMatches P.wild q s → path ++ q ∉ t.ends := by
  induction s with
  | nil =>
    intro path k _ q hq hm
    cases q with
    | nil => exact absurd rfl hq
    | cons c q => cases hm
  | cons ch rest ih =>
    intro path k h q hq hm hin
    cases q with
    | nil => exact absurd rfl hq
    | cons c q =>
      obtain ⟨hc, hm'⟩ := hm
      have hnode : path ++ [c] ∈ t.nodes :=
        (ht.nodes_iff _).mpr ⟨by simp, _, hin, ⟨q, by simp⟩⟩
      have hchild := childOf_of_node P t hnc path ch c hc hnode
      unfold matchLen at h
      rw [hchild] at h
      simp only at h
      split at h
      · cases h
      · rename_i he
        cases q with
        | nil => exact he ((isEnd_iff _ _).mpr (by simpa using hin))
        | cons d q' => exact ih _ _ h (d :: q') (by simp) hm' (by simpa using hin)

/-! ### `find` -/

theorem find_none (P : Params) (t : Trie) (s : List Nat) :
    ∀ i, find P t i s = none → ∀ j, j < s.length → matchLen P t [] 0 (s.drop j) = none := by
  induction s with
  | nil => intro i _ j hj; simp at hj
  | cons ch rest ih =>
    intro i h j hj
    unfold find at h
    split at h
    · cases h
    · rename_i hm
      cases j with
      | zero => simpa using hm
      | succ j =>
        simp only [List.drop_succ_cons]
        exact ih _ h j (by simpa using hj)

theorem find_some (P : Params) (t : Trie) (s : List Nat) :
    ∀ i m n, find P t i s = some (m, n) →
      ∃ skip, m = i + skip ∧ skip < s.length ∧ (∀ j, j < skip → matchLen P t [] 0 (s.drop j) = none) ∧
        matchLen P t [] 0 (s.drop skip) = some n := by
  induction s with
  | nil => intro i m n h; simp [find] at h
  | cons ch rest ih =>
    intro i m n h
    unfold find at h
    split at h
    · rename_i n' hm
      cases h
      exact ⟨0, rfl, by simp, fun j hj => absurd hj (Nat.not_lt_zero _), by simpa using hm⟩
    · rename_i hm
      obtain ⟨skip, h1, h2, h3, h4⟩ := ih _ _ _ h
      refine ⟨skip + 1, by omega, by simp; omega, ?_, by simpa using h4⟩
      intro j hj
      cases j with
      | zero => simpa using hm
      | succ j => simpa using h3 j (by omega)

/-- a dictionary pattern matches somewhere in `s` -/
def Occurs (P : Params) (t : Trie) (s : List Nat) : Prop :=
  ∃ w ∈ t.ends, ∃ j, PMatches P.wild w (s.drop j)

theorem find_none_iff (P : Params) (t : Trie) (ht : WF t) (hnc : NoCompete P t) (s : List Nat) :
    find P t 0 s = none ↔ ¬ Occurs P t s := by
  constructor
  · rintro h ⟨w, hw, j, hm⟩
    have hwne : w ≠ [] := fun h0 => ht.nil_not_end (h0 ▸ hw)
    have hj : j < s.length := by
      have h1 := hm.length_le
      have h2 : 0 < w.length := List.length_pos_iff.mpr hwne
      simp only [List.length_drop] at h1
      omega
    exact matchLen_none P t ht hnc _ [] 0 (find_none P t s 0 h j hj) w hwne hm (by simpa using hw)
  · intro hno
    cases h : find P t 0 s with
    | none => rfl
    | some mn =>
      exfalso
      obtain ⟨m, n⟩ := mn
      obtain ⟨skip, _, _, _, h4⟩ := find_some P t s 0 m n h
      obtain ⟨q, _, hm, hin, _⟩ := matchLen_some P t _ [] 0 n h4 ht.nil_not_end
      exact hno ⟨q, by simpa using hin, skip, hm⟩

/-- `Contains` on a trie without competing branches: some dictionary pattern matches somewhere -/
theorem contains_iff (P : Params) (t : Trie) (ht : WF t) (hnc : NoCompete P t) (s : List Nat) :
    contains P t s = true ↔ Occurs P t s := by
  unfold contains
  cases h : find P t 0 s with
  | none =>
    simp only [Bool.false_eq_true, false_iff]
    exact (find_none_iff P t ht hnc s).mp h
  | some mn =>
    obtain ⟨m, n⟩ := mn
    have hpos := (find_some_pos P t 0 s m n h).1
    simp only [hpos, decide_true, true_iff]
    by_cases hocc : Occurs P t s
    · exact hocc
    · rw [(find_none_iff P t ht hnc s).mpr hocc] at h; cases h

theorem exists_prefix_drop_iff_infix (w s : List Nat) : (∃ j, w <+: s.drop j) ↔ w <:+: s := by
  constructor
  · rintro ⟨j, hj⟩
    exact List.infix_iff_prefix_suffix.mpr ⟨_, hj, List.drop_suffix j s⟩
  · intro h
    obtain ⟨u, hu, hsuf⟩ := List.infix_iff_prefix_suffix.mp h
    exact ⟨s.length - u.length, by rw [← List.suffix_iff_eq_drop.mp hsuf]; exact hu⟩

/-! ### `Filter` -/

theorem filterLoop_none (P : Params) (t : Trie) (s : List Nat) (h : find P t 0 s = none) :
    filterLoop P t s = s := by
  rw [filterLoop]
  split
  · rfl
  · rename_i h'; rw [h] at h'; cases h'

theorem filterLoop_some (P : Params) (t : Trie) (s : List Nat) (skip n : Nat) (h : find P t 0 s = some (skip, n)) :
    filterLoop P t s = s.take skip ++ List.replicate n P.mask ++ filterLoop P t (s.drop (skip + n)) := by
  rw [filterLoop]
  split
  · rename_i h'; rw [h] at h'; cases h'
  · rename_i skip' n' h'
    rw [h] at h'
    cases h'
    rfl

/-- what one round of the loop knows about the match it masks -/
theorem find_match (P : Params) (t : Trie) (ht : WF t) (s : List Nat) (skip n : Nat)
    (h : find P t 0 s = some (skip, n)) :
    skip < s.length ∧ 0 < n ∧ skip + n ≤ s.length ∧
    (∀ j, j < skip → matchLen P t [] 0 (s.drop j) = none) ∧
    ∃ q ∈ t.ends, q.length = n ∧ PMatches P.wild q (s.drop skip) := by
  obtain ⟨skip', h1, h2, h3, h4⟩ := find_some P t s 0 skip n h
  have : skip' = skip := by omega
  subst this
  obtain ⟨q, hq, hm, hin, hn⟩ := matchLen_some P t _ [] 0 n h4 ht.nil_not_end
  have hl := hm.length_le
  simp only [List.length_drop] at hl
  have hqpos : 0 < q.length := List.length_pos_iff.mpr hq
  exact ⟨h2, by omega, by omega, h3, q, by simpa using hin, by omega, hm⟩

/-- `Filter` keeps the length (in runes) -/
theorem filterLoop_length (P : Params) (t : Trie) (ht : WF t) :
    ∀ (m : Nat) (s : List Nat), s.length = m → (filterLoop P t s).length = s.length := by
  intro m
  induction m using Nat.strongRecOn with
  | _ m ih =>
    intro s hs
    cases h : find P t 0 s with
    | none => rw [filterLoop_none P t s h]
    | some mn =>
      obtain ⟨skip, n⟩ := mn
      obtain ⟨h1, h2, h3, _, _⟩ := find_match P t ht s skip n h
      rw [filterLoop_some P t s skip n h]
      have := ih (s.drop (skip + n)).length (by simp only [List.length_drop]; omega) _ rfl
      simp only [List.length_append, List.length_take, List.length_replicate, this, List.length_drop]
      omega

/-- every rune of the output is the rune of the text, or the mask over a position that lies inside an
  occurrence of a dictionary pattern -/
theorem filterLoop_positions (P : Params) (t : Trie) (ht : WF t) :
    ∀ (m : Nat) (s : List Nat), s.length = m → ∀ i, i < s.length →
      (filterLoop P t s)[i]? = s[i]? ∨
      ((filterLoop P t s)[i]? = some P.mask ∧
        ∃ w ∈ t.ends, ∃ j, j ≤ i ∧ i < j + w.length ∧ PMatches P.wild w (s.drop j)) := by
  intro m
  induction m using Nat.strongRecOn with
  | _ m ih =>
    intro s hs i hi
    cases h : find P t 0 s with
    | none => rw [filterLoop_none P t s h]; exact Or.inl rfl
    | some mn =>
      obtain ⟨skip, n⟩ := mn
      obtain ⟨h1, h2, h3, _, q, hq, hqn, hqm⟩ := find_match P t ht s skip n h
      rw [filterLoop_some P t s skip n h]
      have hlt : (s.take skip).length = skip := by simp only [List.length_take]; omega
      by_cases hA : i < skip
      · left
        rw [List.append_assoc, List.getElem?_append_left (by omega), List.getElem?_take_of_lt hA]
      · by_cases hB : i < skip + n
        · right
          refine ⟨?_, q, hq, skip, by omega, by omega, hqm⟩
          rw [List.append_assoc, List.getElem?_append_right (by omega), hlt,
            List.getElem?_append_left (by simp only [List.length_replicate]; omega),
            List.getElem?_replicate_of_lt (by omega)]
        · have hlen : (s.take skip ++ List.replicate n P.mask).length = skip + n := by
            simp only [List.length_append, hlt, List.length_replicate]
          have hidx : (s.take skip ++ List.replicate n P.mask ++ filterLoop P t (s.drop (skip + n)))[i]? =
              (filterLoop P t (s.drop (skip + n)))[i - (skip + n)]? := by
            rw [List.getElem?_append_right (by omega), hlen]
          rw [hidx]
          have hsi : s[i]? = (s.drop (skip + n))[i - (skip + n)]? := by
            rw [List.getElem?_drop]; congr 1; omega
          rcases ih (s.drop (skip + n)).length (by simp only [List.length_drop]; omega) _ rfl (i - (skip + n))
            (by simp only [List.length_drop]; omega) with hsame | ⟨hmask, w, hw, j, hj1, hj2, hjm⟩
          · left; rw [hsame, hsi]
          · right
            refine ⟨hmask, w, hw, skip + n + j, by omega, by omega, ?_⟩
            simpa [List.drop_drop] using hjm

/-! #### no dictionary word is left (literal dictionaries) -/

theorem prefix_of_append_cons_not_mem {w A X : List Nat} {x : Nat} (hx : x ∉ w) (h : w <+: A ++ x :: X) :
    w <+: A := by
  induction A generalizing w with
  | nil =>
    cases w with
    | nil => exact List.prefix_rfl
    | cons a w =>
      simp only [List.nil_append, List.cons_prefix_cons] at h
      exact absurd (h.1 ▸ List.mem_cons_self) hx
  | cons a A ih =>
    cases w with
    | nil => exact List.nil_prefix
    | cons b w =>
      simp only [List.cons_append, List.cons_prefix_cons] at h ⊢
      exact ⟨h.1, ih (fun hm => hx (List.mem_cons_of_mem _ hm)) h.2⟩

theorem infix_of_append_cons_not_mem {w A X : List Nat} {x : Nat} (hx : x ∉ w) (hw : w ≠ [])
    (h : w <:+: A ++ x :: X) : w <:+: A ∨ w <:+: X := by
  induction A with
  | nil =>
    simp only [List.nil_append] at h
    rcases List.infix_cons_iff.mp h with h | h
    · cases w with
      | nil => exact absurd rfl hw
      | cons a w =>
        rw [List.cons_prefix_cons] at h
        exact absurd (h.1 ▸ List.mem_cons_self) hx
    · exact Or.inr h
  | cons a A ih =>
    simp only [List.cons_append] at h
    rcases List.infix_cons_iff.mp h with h | h
    · have : w <+: (a :: A) ++ x :: X := by simpa using h
      exact Or.inl (prefix_of_append_cons_not_mem hx this).isInfix
    · rcases ih h with h | h
      · exact Or.inl (List.infix_cons_iff.mpr (Or.inr h))
      · exact Or.inr h

theorem infix_of_replicate_append_not_mem {w B : List Nat} {x : Nat} (hx : x ∉ w) (hw : w ≠ []) :
    ∀ n, w <:+: List.replicate n x ++ B → w <:+: B := by
  intro n
  induction n with
  | zero => intro h; simpa using h
  | succ n ih =>
    intro h
    rw [List.replicate_succ, List.cons_append] at h
    rcases List.infix_cons_iff.mp h with h | h
    · cases w with
      | nil => exact absurd rfl hw
      | cons a w =>
        rw [List.cons_prefix_cons] at h
        exact absurd (h.1 ▸ List.mem_cons_self) hx
    · exact ih h

theorem infix_of_append_replicate_not_mem {w A B : List Nat} {x : Nat} (hx : x ∉ w) (hw : w ≠ [])
    (n : Nat) (hn : 0 < n) (h : w <:+: A ++ List.replicate n x ++ B) : w <:+: A ∨ w <:+: B := by
  cases n with
  | zero => exact absurd hn (Nat.lt_irrefl _)
  | succ n =>
    rw [List.replicate_succ, List.append_assoc, List.cons_append] at h
    rcases infix_of_append_cons_not_mem hx hw h with h | h
    · exact Or.inl h
    · exact Or.inr (infix_of_replicate_append_not_mem hx hw n h)

/-- literal dictionary: after `Filter` no dictionary word occurs in the text -/
theorem filterLoop_no_word (P : Params) (t : Trie) (ht : WF t) (hl : Literal P t) (hmask : P.mask = P.wild) :
    ∀ (m : Nat) (s : List Nat), s.length = m → ∀ w ∈ t.ends, ¬ w <:+: filterLoop P t s := by
  have hnc := literal_noCompete P t ht hl
  intro m
  induction m using Nat.strongRecOn with
  | _ m ih =>
    intro s hs w hw hinf
    have hwne : w ≠ [] := fun h0 => ht.nil_not_end (h0 ▸ hw)
    have hwl : P.wild ∉ w := hl w hw
    -- an occurrence in a stretch that `find` has scanned without a match is impossible
    have hscan : ∀ (A : List Nat), A <+: s → (∀ j, j < A.length → matchLen P t [] 0 (s.drop j) = none) →
        ¬ w <:+: A := by
      intro A hA hnone hin
      obtain ⟨j, hj⟩ := (exists_prefix_drop_iff_infix w A).mpr hin
      have hjl : j < A.length := by
        have h1 := hj.length_le
        have h2 : 0 < w.length := List.length_pos_iff.mpr hwne
        simp only [List.length_drop] at h1
        omega
      have hpre : w <+: s.drop j := by
        obtain ⟨B, rfl⟩ := hA
        rw [List.drop_append_of_le_length (by omega)]
        exact hj.trans (List.prefix_append _ _)
      exact matchLen_none P t ht hnc _ [] 0 (hnone j hjl) w hwne
        ((pmatches_literal P.wild w _ hwl).mpr hpre) (by simpa using hw)
    cases h : find P t 0 s with
    | none =>
      rw [filterLoop_none P t s h] at hinf
      exact hscan s List.prefix_rfl (fun j hj => find_none P t s 0 h j hj) hinf
    | some mn =>
      obtain ⟨skip, n⟩ := mn
      obtain ⟨h1, h2, h3, h4, _⟩ := find_match P t ht s skip n h
      rw [filterLoop_some P t s skip n h] at hinf
      rcases infix_of_append_replicate_not_mem (hmask ▸ hwl) hwne n h2 hinf with hA | hB
      · refine hscan (s.take skip) (List.take_prefix _ _) ?_ hA
        intro j hj
        apply h4
        simp only [List.length_take] at hj
        omega
      · exact ih (s.drop (skip + n)).length (by simp only [List.length_drop]; omega) _ rfl w hw hB

/-! ### the observations depend only on the sets of nodes and terminal paths -/

/-- same nodes and same terminal paths, as sets -/
def Same (t t' : Trie) : Prop := (∀ p, p ∈ t.nodes ↔ p ∈ t'.nodes) ∧ (∀ p, p ∈ t.ends ↔ p ∈ t'.ends)

theorem same_of_wf {t t' : Trie} (ht : WF t) (ht' : WF t') (he : ∀ p, p ∈ t.ends ↔ p ∈ t'.ends) : Same t t' := by
  refine ⟨?_, he⟩
  intro p
  rw [ht.nodes_iff, ht'.nodes_iff]
  constructor
  · rintro ⟨h1, e, h2, h3⟩; exact ⟨h1, e, (he e).mp h2, h3⟩
  · rintro ⟨h1, e, h2, h3⟩; exact ⟨h1, e, (he e).mpr h2, h3⟩

theorem isEnd_same {t t' : Trie} (h : Same t t') (p : Path) : isEnd t p = isEnd t' p := by
  unfold isEnd
  exact decide_eq_decide.mpr (h.2 p)

theorem childOf_same (P : Params) {t t' : Trie} (h : Same t t') (path : Path) (r : Nat) :
    childOf P t path r = childOf P t' path r := by
  unfold childOf
  by_cases h1 : path ++ [r] ∈ t.nodes
  · simp [h1, (h.1 _).mp h1]
  · have h1' : path ++ [r] ∉ t'.nodes := fun hh => h1 ((h.1 _).mpr hh)
    by_cases h2 : path ++ [P.wild] ∈ t.nodes
    · simp [h1, h1', h2, (h.1 _).mp h2]
    · have h2' : path ++ [P.wild] ∉ t'.nodes := fun hh => h2 ((h.1 _).mpr hh)
      simp [h1, h1', h2, h2']

theorem matchLen_same (P : Params) {t t' : Trie} (h : Same t t') (s : List Nat) :
    ∀ path k, matchLen P t path k s = matchLen P t' path k s := by
  induction s with
  | nil => intro path k; simp [matchLen, isEnd_same h]
  | cons ch rest ih =>
    intro path k
    unfold matchLen
    rw [childOf_same P h]
    split
    · rfl
    · rename_i child _
      rw [isEnd_same h child, ih]

theorem find_same (P : Params) {t t' : Trie} (h : Same t t') (s : List Nat) :
    ∀ i, find P t i s = find P t' i s := by
  induction s with
  | nil => intro i; simp [find]
  | cons ch rest ih =>
    intro i
    unfold find
    rw [matchLen_same P h, ih]

theorem contains_same (P : Params) {t t' : Trie} (h : Same t t') (s : List Nat) :
    contains P t s = contains P t' s := by
  unfold contains; rw [find_same P h]

theorem exactMatch_same (P : Params) {t t' : Trie} (h : Same t t') (s : List Nat) :
    exactMatch P t s = exactMatch P t' s := by
  unfold exactMatch; rw [matchLen_same P h]

theorem filterLoop_same (P : Params) {t t' : Trie} (h : Same t t') :
    ∀ (m : Nat) (s : List Nat), s.length = m → filterLoop P t s = filterLoop P t' s := by
  intro m
  induction m using Nat.strongRecOn with
  | _ m ih =>
    intro s hs
    cases hf : find P t 0 s with
    | none =>
      rw [filterLoop_none P t s hf, filterLoop_none P t' s (by rw [← find_same P h]; exact hf)]
    | some mn =>
      obtain ⟨skip, n⟩ := mn
      have hpos := find_some_pos P t 0 s skip n hf
      have hl : 0 < s.length := List.length_pos_iff.mpr hpos.2
      rw [filterLoop_some P t s skip n hf, filterLoop_some P t' s skip n (by rw [← find_same P h]; exact hf),
        ih (s.drop (skip + n)).length (by simp only [List.length_drop]; omega) _ rfl]

/-! ### building a trie from a word list; side-conditions -/

theorem mem_foldl_adds (l : List (List Nat)) : ∀ (acc : List (List Nat)) (w : List Nat),
    w ∈ (l.map Op.add).foldl specStep acc ↔ w ∈ acc ∨ (w ∈ l ∧ w ≠ []) := by
  induction l with
  | nil => intro acc w; simp
  | cons v l ih =>
    intro acc w
    simp only [List.map_cons, List.foldl_cons, ih, specStep, List.mem_cons]
    by_cases hv : v = [] ∨ v ∈ acc
    · simp only [hv, if_true]
      constructor
      · rintro (h | ⟨h1, h2⟩)
        · exact Or.inl h
        · exact Or.inr ⟨Or.inr h1, h2⟩
      · rintro (h | ⟨h1 | h1, h2⟩)
        · exact Or.inl h
        · subst h1
          rcases hv with hv | hv
          · exact absurd hv h2
          · exact Or.inl hv
        · exact Or.inr ⟨h1, h2⟩
    · simp only [hv, if_false, List.mem_cons]
      have hvne : v ≠ [] := fun h => hv (Or.inl h)
      constructor
      · rintro ((h | h) | ⟨h1, h2⟩)
        · subst h; exact Or.inr ⟨Or.inl rfl, hvne⟩
        · exact Or.inl h
        · exact Or.inr ⟨Or.inr h1, h2⟩
      · rintro (h | ⟨h1 | h1, h2⟩)
        · exact Or.inl (Or.inr h)
        · exact Or.inl (Or.inl h1)
        · exact Or.inr ⟨h1, h2⟩

/-- the dictionary built by adding the words of `l` one after the other is `l` (as a set, without "") -/
theorem mem_spec_adds (l : List (List Nat)) (w : List Nat) : w ∈ spec (l.map Op.add) ↔ w ∈ l ∧ w ≠ [] := by
  unfold spec
  rw [mem_foldl_adds]
  simp

/-- what the proofs need from the source: `Remove` looks the word up literally (D14), and `Filter` masks
  with the wildcard rune -/
def Valid (P : Params) : Prop := P.exactTail = true ∧ P.mask = P.wild

instance (P : Params) : Decidable (Valid P) := by unfold Valid; infer_instance

/-- no position of the dictionary can be continued both by the wildcard and by a literal rune -/
def NoCompeteDict (wild : Nat) (l : List (List Nat)) : Prop :=
  ∀ p c, (∃ e ∈ l, p ++ [wild] <+: e) → (∃ e ∈ l, p ++ [c] <+: e) → c = wild

theorem noCompete_of_dict (P : Params) (t : Trie) (ht : WF t) (h : NoCompeteDict P.wild t.ends) : NoCompete P t := by
  intro p c h1 h2
  exact h p c ((ht.nodes_iff _).mp h1).2 ((ht.nodes_iff _).mp h2).2

theorem occurs_iff_wild (P : Params) (t : Trie) (s : List Nat) :
    Occurs P t s ↔ ∃ w ∈ t.ends, ∃ a u b, s = a ++ u ++ b ∧ WildMatch P.wild w u := by
  constructor
  · rintro ⟨w, hw, j, hm⟩
    obtain ⟨u, ⟨b, hb⟩, hu⟩ := (pmatches_iff_wildMatch _ _ _).mp hm
    refine ⟨w, hw, s.take j, u, b, ?_, hu⟩
    rw [List.append_assoc, hb, List.take_append_drop]
  · rintro ⟨w, hw, a, u, b, rfl, hu⟩
    refine ⟨w, hw, a.length, (pmatches_iff_wildMatch _ _ _).mpr ⟨u, ?_, hu⟩⟩
    rw [List.append_assoc, List.drop_left]
    exact List.prefix_append _ _

end Fatchoy.C14
