/-
C11, structural skip list S: `IsInRange`, `FirstInRange`, `LastInRange` against layer L.
-/
import Fatchoy.Lemmas.C11SByRank
namespace Fatchoy.C11.S

theorem isInRange_refines {s : SList} {l : List Nat} (hI : Inv s l) (min max : Int) :
    isInRange s min max = L.isInRange (abs s) min max := by
  unfold isInRange L.isInRange
  rw [hI.tail, hI.abs_eq, List.getLast?_map, List.head?_map,
    hI.fwd0 (pre := []) (x := 0) (suf := l) rfl]
  cases l.getLast? <;> cases l.head? <;> rfl

theorem score_lt_down (m : Int) :
    ∀ a b : Node, a.lt b = true → decide (b.score < m) = true → decide (a.score < m) = true := by
  intro a b hab hb
  have := Node.score_le_of_lt hab
  simp only [decide_eq_true_eq] at hb ⊢; omega

theorem score_le_down (m : Int) :
    ∀ a b : Node, a.lt b = true → decide (b.score ≤ m) = true → decide (a.score ≤ m) = true := by
  intro a b hab hb
  have := Node.score_le_of_lt hab
  simp only [decide_eq_true_eq] at hb ⊢; omega

/-- the search with a key condition: `update[0]` is the last node of `header :: takeWhile`, and its
  level-0 successor is the first node of `dropWhile` -/
theorem search_key0 {s : SList} {l : List Nat} (hI : Inv s l) (k : Node → Bool)
    (hk : ∀ a b : Node, a.lt b = true → k b = true → k a = true) :
    ∃ ur, search s (fun f _ => k f.key) s.level 0 0 = some ur ∧ ur.length = s.level ∧
      (∀ i, i < s.level → IsUpd s (l.takeWhile (fun x => k (nodeOf s x))) i (updOf ur i) (rankOf ur i)) ∧
      0 :: l.takeWhile (fun x => k (nodeOf s x)) =
        (0 :: l.takeWhile (fun x => k (nodeOf s x))).dropLast ++ [updOf ur 0] ∧
      rankOf ur 0 = ((l.takeWhile (fun x => k (nodeOf s x))).length : Int) ∧
      (cell s (updOf ur 0) 0).fwd = (l.dropWhile (fun x => k (nodeOf s x))).head? := by
  have hl : l = l.takeWhile (fun x => k (nodeOf s x)) ++ l.dropWhile (fun x => k (nodeOf s x)) :=
    (List.takeWhile_append_dropWhile).symm
  obtain ⟨ur, h1, h2, h3⟩ := search_top hI hl (cut_key hI k hk)
  obtain ⟨z1, z2⟩ := isUpd_zero hI hl (h3 0 hI.level_pos)
  refine ⟨ur, h1, h2, h3, z1, z2, ?_⟩
  apply hI.fwd0 (pre := (0 :: l.takeWhile (fun x => k (nodeOf s x))).dropLast)
  conv => lhs; rw [hl]
  rw [← List.cons_append, z1]
  simp

theorem firstInRange_refines {s : SList} {l : List Nat} (hI : Inv s l) (min max : Int) :
    ∃ p, firstInRange s min max = some p ∧ p.map (nodeOf s) = L.firstInRange (abs s) min max ∧
      ∀ x, p = some x → x ∈ l ∧ (l.dropWhile (fun y => decide ((nodeOf s y).score < min))).head? = some x := by
  unfold firstInRange L.firstInRange
  rw [isInRange_refines hI]
  cases hin : L.isInRange (abs s) min max with
  | false => exact ⟨none, rfl, rfl, fun x hx => by cases hx⟩
  | true =>
    simp only [Bool.not_true, Bool.false_eq_true, if_false]
    obtain ⟨ur, h1, _, _, _, _, hfw⟩ := search_key0 hI (fun n => decide (n.score < min)) (score_lt_down min)
    have h1' : search s (fun f _ => decide (f.score < min)) s.level 0 0 = some ur := h1
    rw [h1']
    simp only []
    rw [hfw, (abs_takeWhile hI (fun n => decide (n.score < min))).2]
    cases hd : l.dropWhile (fun x => decide ((nodeOf s x).score < min)) with
    | nil => exact ⟨none, rfl, rfl, fun x hx => by cases hx⟩
    | cons x rest =>
      have hx : x ∈ l := (List.dropWhile_sublist _).subset (by rw [hd]; simp)
      simp only [List.head?_cons, List.map_cons]
      have hsc : (nd s x).score = (nodeOf s x).score := rfl
      rw [hsc]
      by_cases hgt : (nodeOf s x).score > max
      · rw [if_pos hgt, if_pos hgt]
        exact ⟨none, rfl, rfl, fun y hy => by cases hy⟩
      · rw [if_neg hgt, if_neg hgt]
        exact ⟨some x, rfl, rfl, fun y hy => by cases hy; exact ⟨hx, by first | rfl | (rw [hd]; rfl)⟩⟩

theorem lastInRange_refines {s : SList} {l : List Nat} (hI : Inv s l) (min max : Int) :
    ∃ p, lastInRange s min max = some p ∧ p.map (nodeOf s) = L.lastInRange (abs s) min max ∧
      ∀ x, p = some x → x ∈ l ∧ (l.takeWhile (fun y => decide ((nodeOf s y).score ≤ max))).getLast? = some x := by
  unfold lastInRange L.lastInRange
  rw [isInRange_refines hI]
  cases hin : L.isInRange (abs s) min max with
  | false => exact ⟨none, rfl, rfl, fun x hx => by cases hx⟩
  | true =>
    simp only [Bool.not_true, Bool.false_eq_true, if_false]
    obtain ⟨ur, h1, _, _, hz, _, _⟩ := search_key0 hI (fun n => decide (n.score ≤ max)) (score_le_down max)
    have h1' : search s (fun f _ => decide (f.score ≤ max)) s.level 0 0 = some ur := h1
    rw [h1']
    simp only []
    -- the list is not empty and its first score is ≤ max
    obtain ⟨hmm, f, t, hf, _, _, hfm⟩ := (isInRange_iff (abs s) min max).mp hin
    rw [hI.abs_eq] at hf ⊢
    cases l with
    | nil => simp at hf
    | cons a rest =>
      simp only [List.map_cons, List.head?_cons, Option.some.injEq] at hf
      simp only [List.map_cons]
      have hw := walkLE_spec (nodeOf s a) (rest.map (nodeOf s)) max (by rw [hf]; exact hfm)
      have htw : ((nodeOf s a) :: rest.map (nodeOf s)).takeWhile (fun n => decide (n.score ≤ max)) =
          ((a :: rest).takeWhile (fun x => decide ((nodeOf s x).score ≤ max))).map (nodeOf s) := by
        rw [← List.map_cons, List.takeWhile_map]; rfl
      rw [htw, List.getLast?_map] at hw
      -- update[0] is the last node of the takeWhile, which is not empty
      have hne : (a :: rest).takeWhile (fun x => decide ((nodeOf s x).score ≤ max)) ≠ [] := by
        rw [List.takeWhile_cons_of_pos (by simp only [decide_eq_true_eq]; rw [hf]; exact hfm)]
        simp
      obtain ⟨A', z, hA⟩ : ∃ A' z, (a :: rest).takeWhile (fun x => decide ((nodeOf s x).score ≤ max)) = A' ++ [z] := by
        rcases List.eq_nil_or_concat ((a :: rest).takeWhile (fun x => decide ((nodeOf s x).score ≤ max))) with h | ⟨A', z, h⟩
        · exact absurd h hne
        · exact ⟨A', z, by rw [h, List.concat_eq_append]⟩
      rw [hA] at hz hw
      have hu0 : updOf ur 0 = z := by
        have h2 : (0 :: A') ++ [z] = (0 :: A') ++ [updOf ur 0] := by
          have : (0 :: (A' ++ [z])).dropLast = 0 :: A' := by
            rw [← List.cons_append, List.dropLast_concat]
          rw [this] at hz
          rw [← hz]; rfl
        have := List.append_cancel_left h2
        simp only [List.cons.injEq, and_true] at this
        exact this.symm
      have hzl : z ∈ a :: rest := by
        have : z ∈ (a :: rest).takeWhile (fun x => decide ((nodeOf s x).score ≤ max)) := by rw [hA]; simp
        exact (List.takeWhile_sublist _).subset this
      simp only [List.getLast?_append, List.getLast?_singleton, Option.some_or, Option.map_some,
        Option.some.injEq] at hw
      rw [hu0, ← hw]
      have hsc : (nd s z).score = (nodeOf s z).score := rfl
      rw [hsc]
      by_cases hlt : (nodeOf s z).score < min
      · rw [if_pos hlt, if_pos hlt]
        exact ⟨none, rfl, rfl, fun y hy => by cases hy⟩
      · rw [if_neg hlt, if_neg hlt]
        exact ⟨some z, rfl, rfl, fun y hy => by cases hy; exact ⟨hzl, by first | (rw [hA]; simp) | simp⟩⟩

end Fatchoy.C11.S
