/-
A concrete packet for the non-vacuity examples of Props/C01.lean, on the regenerated parameters.
-/
import Fatchoy.Model.C01Params
import Fatchoy.Lemmas.CodecC01
import Fatchoy.Lemmas.CodecLawful
import Fatchoy.Lemmas.CodecLenData
namespace Fatchoy.C01
open Fatchoy.Codec

def demoPkt : Pkt :=
  { cmd := BitVec.ofInt 32 (-7), seq := 513#16, typ := 2#8, flag := 0x20#8, node := 0xdeadbeef#32,
    refs := [1#32, 0xfffffffe#32], body := .bytes [1, 2, 3, 4, 5, 6, 7] }

/-- the demo packet is compressed and encrypted (both codec bits set) and fits -/
theorem demo_marshal : marshalBody params demoEnv demoPkt =
    .ok ([7, 6, 5, 4, 3, 2, 1, 0x78], { demoPkt with flag := 0x23#8 }) := by rfl

theorem demo_fits (F : Fmt) (hF : F = params.v1 ∨ F = params.v2) : Fits params F demoEnv demoPkt := by
  intro w p' h
  rw [demo_marshal] at h
  injection h with h; injection h with hw hp; subst hw
  rcases hF with h | h <;> subst h <;> decide

end Fatchoy.C01
