/-
C11, structural skip list S, `Insert` part 2: the linking/bumping loops and the backward fix-up, cell by
cell; then the whole `insertAt` in terms of the state before.
-/
import Fatchoy.Lemmas.C11SInsert1
namespace Fatchoy.C11.S

/-- the state after the linking and the span-bumping loops of `Insert` -/
def linked (s3 : SList) (ur : List (Nat × Int)) (id h : Nat) : SList :=
  (List.range' h (s3.level - h)).foldl (bumpLevel ur) ((List.range h).foldl (linkLevel ur id) s3)

theorem linked_spec (s3 : SList) (ur : List (Nat × Int)) (id h : Nat)
    (hid : id < s3.nodes.length) (hidh : height s3 id = h)
    (hU : ∀ j, j < h ∨ j < s3.level → updOf ur j < s3.nodes.length ∧ updOf ur j ≠ id ∧ j < height s3 (updOf ur j)) :
    Keeps s3 (linked s3 ur id h) ∧
    ∀ y j, cell (linked s3 ur id h) y j =
      if j < h then
        (if y = updOf ur j then ⟨some id, rankOf ur 0 - rankOf ur j + 1⟩
         else if y = id then
           ⟨(cell s3 (updOf ur j) j).fwd, (cell s3 (updOf ur j) j).span - (rankOf ur 0 - rankOf ur j)⟩
         else cell s3 y j)
      else if j < s3.level then
        (if y = updOf ur j then ⟨(cell s3 y j).fwd, (cell s3 y j).span + 1⟩ else cell s3 y j)
      else cell s3 y j := by
  obtain ⟨hk4, hc4⟩ := fold_levels (levelStep_link ur id) (List.range h) List.nodup_range s3
  obtain ⟨hk5, hc5⟩ := fold_levels (levelStep_bump ur) (List.range' h (s3.level - h)) List.nodup_range'
    ((List.range h).foldl (linkLevel ur id) s3)
  refine ⟨hk4.trans hk5, ?_⟩
  intro y j
  unfold linked
  rw [hc5]
  by_cases hj : j < h
  · -- a linking level
    have hnot : j ∉ List.range' h (s3.level - h) := by
      intro hm; have := (mem_range'_1 _ _ _).mp hm; omega
    rw [if_neg hnot, hc4, if_pos (List.mem_range.mpr hj), if_pos hj]
    obtain ⟨hu1, hu2, hu3⟩ := hU j (Or.inl hj)
    unfold linkLevel
    simp only []
    rw [cell_setCell]
    by_cases hy : y = updOf ur j
    · subst hy
      simp [hu1, hu3]
    · rw [if_neg (fun hh => hy hh.1), if_neg hy, cell_setCell]
      by_cases hy2 : y = id
      · subst hy2
        simp [hid, hidh, hj]
      · rw [if_neg (fun hh => hy2 hh.1), if_neg hy2]
  · rw [if_neg hj]
    by_cases hj2 : j < s3.level
    · have hin : j ∈ List.range' h (s3.level - h) := (mem_range'_1 _ _ _).mpr (by omega)
      rw [if_pos hin, if_pos hj2]
      obtain ⟨hu1, hu2, hu3⟩ := hU j (Or.inr hj2)
      have hsame : ∀ y', cell ((List.range h).foldl (linkLevel ur id) s3) y' j = cell s3 y' j := by
        intro y'; rw [hc4, if_neg (fun hm => hj (List.mem_range.mp hm))]
      unfold bumpLevel
      simp only []
      rw [cell_setCell, hsame, hsame, hk4.size, hk4.hgt]
      by_cases hy : y = updOf ur j
      · subst hy; simp [hu1, hu3]
      · rw [if_neg (fun hh => hy hh.1), if_neg hy]
    · have hnot : j ∉ List.range' h (s3.level - h) := by
        intro hm; have := (mem_range'_1 _ _ _).mp hm; omega
      rw [if_neg hnot, if_neg hj2, hc4, if_neg (fun hm => hj (List.mem_range.mp hm))]

/-! ### fixBack -/

@[simp] theorem cell_withTail (s : SList) (t : Option Nat) (y j : Nat) :
    cell { s with tail := t } y j = cell s y j := rfl
@[simp] theorem cell_withLength (s : SList) (n : Int) (y j : Nat) :
    cell { s with length := n } y j = cell s y j := rfl

theorem fixBack_spec (s : SList) (u0 id : Nat) (hid : id < s.nodes.length) :
    let t := fixBack s u0 id
    let f0 := (cell s id 0).fwd
    t.nodes.length = s.nodes.length ∧ (∀ y, height t y = height s y) ∧ (∀ y, nodeOf t y = nodeOf s y) ∧
    (∀ y j, cell t y j = cell s y j) ∧ t.level = s.level ∧ t.length = s.length + 1 ∧
    t.tail = (if f0 = none then some id else s.tail) ∧
    ∀ y, (nd t y).bwd =
      if f0 = some y ∧ y < s.nodes.length then some id
      else if y = id then (if u0 ≠ 0 then some u0 else none)
      else (nd s y).bwd := by
  intro t f0
  have hf0 : (cell (setBwd s id (if u0 ≠ 0 then some u0 else none)) id 0).fwd = f0 := by simp [f0]
  cases hf : f0 with
  | none =>
    have ht : t = { ({ (setBwd s id (if u0 ≠ 0 then some u0 else none)) with tail := some id } : SList) with length := s.length + 1 } := by
      show fixBack s u0 id = _
      unfold fixBack
      simp only [hf0, hf]
      rfl
    rw [ht]
    refine ⟨by simp, fun y => ?_, ?_, ?_, rfl, rfl, by simp, ?_⟩
    · show height (setBwd s id _) y = _; simp
    · intro y; show nodeOf (setBwd s id _) y = _; simp
    · intro y j; show cell (setBwd s id _) y j = _; simp
    · intro y
      show (nd (setBwd s id _) y).bwd = _
      rw [bwd_setBwd]
      simp [hid]
  | some f =>
    have ht : t = { (setBwd (setBwd s id (if u0 ≠ 0 then some u0 else none)) f (some id)) with length := s.length + 1 } := by
      show fixBack s u0 id = _
      unfold fixBack
      simp only [hf0, hf]
      rfl
    rw [ht]
    refine ⟨by simp, fun y => ?_, ?_, ?_, rfl, rfl, by simp, ?_⟩
    · show height (setBwd (setBwd s id _) f (some id)) y = _; simp
    · intro y; show nodeOf (setBwd (setBwd s id _) f (some id)) y = _; simp
    · intro y j; show cell (setBwd (setBwd s id _) f (some id)) y j = _; simp
    · intro y
      show (nd (setBwd (setBwd s id _) f (some id)) y).bwd = _
      rw [bwd_setBwd, bwd_setBwd]
      simp only [size_setBwd, Option.some.injEq]
      by_cases hy : y = f
      · subst hy; simp [hid]
      · have : ¬ (f = y ∧ y < s.nodes.length) := fun hh => hy hh.1.symm
        rw [if_neg (fun hh => hy hh.1), if_neg this]
        simp [hid]

end Fatchoy.C11.S
