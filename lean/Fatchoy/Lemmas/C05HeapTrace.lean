/-
C05/C06 helper lemmas: the heap scheduler's invariant is preserved by every step; one timer followed
through arbitrary sequences of steps.
-/
import Fatchoy.Lemmas.C05HeapTick
namespace Fatchoy.C05

theorem HInv.step (G : Geom) {s s' : HS} {a : Act} {o : Out} (h : HInv s)
    (hs : HS.step G s a = .ok s' o) : HInv s' := by
  cases a with
  | after d =>
    simp only [HS.step] at hs
    split at hs
    · cases hs
    · cases hs; exact ⟨h.sorted, h.front.start _ 0⟩
  | every p =>
    simp only [HS.step] at hs
    split at hs
    · cases hs
    · cases hs; exact ⟨h.sorted, h.front.start _ p⟩
  | cancel id =>
    simp only [HS.step] at hs
    split at hs
    · rename_i hin
      split at hs
      · cases hs
      · cases hs; exact ⟨h.sorted, h.front.cancel hin⟩
    · cases hs; exact h
  | add =>
    simp only [HS.step] at hs
    split at hs
    · cases hs; exact h
    · rename_i r q hq
      split at hs
      · rename_i hcan
        cases hs; exact ⟨h.sorted, h.front.pop_add_drop hq hcan⟩
      · cases hs
        refine ⟨hinsert_sorted _ _ h.sorted, ?_⟩
        apply (h.front.pop_add_link hq).perm
        exact ((hinsert_perm ⟨r.id, r.dl, r.period⟩ s.heap).map (·.id)).symm
  | del =>
    simp only [HS.step] at hs
    split at hs
    · cases hs; exact h
    · rename_i i q hq
      cases hs
      refine ⟨h.sorted.sublist List.filter_sublist, ?_⟩
      have := h.front.pop_del hq
      have e : hids (s.heap.filter (fun n => n.id ≠ i)) = (hids s.heap).filter (· ≠ i) := by
        simp only [hids, List.filter_map]; rfl
      rw [show hids (HS.mk s.now (s.heap.filter (fun n => n.id ≠ i)) { s.f with delQ := q }).heap
        = (hids s.heap).filter (· ≠ i) from e]
      exact this
  | tick =>
    simp only [HS.step] at hs
    split at hs
    · rename_i s1 ht
      cases hs
      exact (HS.tick_frame s _ h ht).2.2.2.2.2
    · cases hs
  | clock n =>
    simp only [HS.step] at hs
    cases hs; exact ⟨h.sorted, h.front⟩

def HS.run (G : Geom) : HS → List Act → Option HS
  | s, [] => some s
  | s, a :: as =>
    match HS.step G s a with
    | .ok s' _ => HS.run G s' as
    | _ => none

inductive HReach (G : Geom) : HS → Prop
  | init (time : Nat) : HReach G (HS.init time)
  | step {s s' : HS} {a : Act} {o : Out} : HReach G s → HS.step G s a = .ok s' o → HReach G s'

theorem HReach.inv {G : Geom} {s : HS} (h : HReach G s) : HInv s := by
  induction h with
  | init time => exact HInv.init time
  | step _ hs ih => exact ih.step G hs

theorem HReach.run {G : Geom} : ∀ (acts : List Act) {s s' : HS}, HReach G s → HS.run G s acts = some s' → HReach G s'
  | [], s, s', h, hr => by simp only [HS.run, Option.some.injEq] at hr; exact hr ▸ h
  | a :: as, s, s', h, hr => by
    simp only [HS.run] at hr
    split at hr
    · rename_i s1 o he
      exact HReach.run as (h.step he) hr
    · cases hr

def HGone (s : HS) (id : Nat) : Prop := id ≤ s.f.nextId ∧ id ∉ s.f.addIds ∧ id ∉ hids s.heap

theorem HInv.gone_not_refer {s : HS} (h : HInv s) {id : Nat} (hg : HGone s id) : id ∉ s.f.refer := by
  intro hm
  rcases ((h.front.refer_iff id).mp hm).1 with h1 | h1
  · exact hg.2.1 h1
  · exact hg.2.2 h1

theorem HInv.live_refer {s : HS} (h : HInv s) {id D P : Nat} (hh : hhas s.heap id D P) (hl : id ∉ s.f.cancelled) :
    id ∈ s.f.refer := (h.front.refer_iff id).mpr ⟨.inr (hhas_ids hh), hl⟩

theorem HInv.linked_not_queued {s : HS} (h : HInv s) {id : Nat} (hi : id ∈ hids s.heap) :
    id ≤ s.f.nextId ∧ id ∉ s.f.addIds := by
  refine ⟨h.front.linked_le id hi, ?_⟩
  have hn := h.front.nodup
  rw [List.nodup_append] at hn
  exact fun hm => hn.2.2 id hm id hi rfl

theorem hgone_step (G : Geom) {s s' : HS} {a : Act} {o : Out} (h : HInv s) {id : Nat} (hg : HGone s id)
    (hs : HS.step G s a = .ok s' o) : HGone s' id ∧ entries s'.f.log id = entries s.f.log id := by
  obtain ⟨g1, g2, g3⟩ := hg
  cases a with
  | after d =>
    simp only [HS.step] at hs
    split at hs
    · cases hs
    · cases hs
      rw [nextID_eq _ _ h.front]
      refine ⟨⟨?_, ?_, g3⟩, rfl⟩
      · show id ≤ s.f.nextId + 1; omega
      · simp only [Front.addIds, Front.start, List.map_append, List.mem_append, List.map_cons, List.map_nil,
          List.mem_singleton, not_or]
        exact ⟨g2, by omega⟩
  | every p =>
    simp only [HS.step] at hs
    split at hs
    · cases hs
    · cases hs
      rw [nextID_eq _ _ h.front]
      refine ⟨⟨?_, ?_, g3⟩, rfl⟩
      · show id ≤ s.f.nextId + 1; omega
      · simp only [Front.addIds, Front.start, List.map_append, List.mem_append, List.map_cons, List.map_nil,
          List.mem_singleton, not_or]
        exact ⟨g2, by omega⟩
  | cancel j =>
    simp only [HS.step] at hs
    split at hs
    · split at hs
      · cases hs
      · cases hs; exact ⟨⟨g1, g2, g3⟩, rfl⟩
    · cases hs; exact ⟨⟨g1, g2, g3⟩, rfl⟩
  | add =>
    simp only [HS.step] at hs
    split at hs
    · cases hs; exact ⟨⟨g1, g2, g3⟩, rfl⟩
    · rename_i r q hq
      have hne : id ≠ r.id := fun e => g2 (by simp [Front.addIds, hq, e])
      have g2' : id ∉ q.map (·.id) := fun hm => g2 (by simp only [Front.addIds, hq, List.map_cons]; exact List.mem_cons_of_mem _ hm)
      split at hs
      · cases hs; exact ⟨⟨g1, g2', g3⟩, rfl⟩
      · cases hs
        refine ⟨⟨g1, g2', ?_⟩, rfl⟩
        intro hm
        rcases List.mem_cons.mp (((hinsert_perm _ _).map (·.id)).mem_iff.mp hm) with e | hm
        · exact hne e
        · exact g3 hm
  | del =>
    simp only [HS.step] at hs
    split at hs
    · cases hs; exact ⟨⟨g1, g2, g3⟩, rfl⟩
    · cases hs
      refine ⟨⟨g1, g2, ?_⟩, rfl⟩
      intro hm
      obtain ⟨n, hn, hi⟩ := mem_hids.mp hm
      exact g3 (mem_hids.mpr ⟨n, (List.mem_filter.mp hn).1, hi⟩)
  | tick =>
    simp only [HS.step] at hs
    split at hs
    · rename_i s1 ht
      cases hs
      obtain ⟨a1, a2, _⟩ := HS.tick_absent s _ h ht id g3
      obtain ⟨_, _, f3, _, f5, _⟩ := HS.tick_frame s _ h ht
      refine ⟨⟨by rw [f5]; exact g1, ?_, a1⟩, a2⟩
      simp only [Front.addIds, f3]; exact g2
    · cases hs
  | clock n =>
    simp only [HS.step] at hs
    cases hs; exact ⟨⟨g1, g2, g3⟩, rfl⟩

theorem hlive_step (G : Geom) {s s' : HS} {a : Act} {o : Out} (h : HInv s) {id D P : Nat}
    (hh : hhas s.heap id D P) (hl : id ∉ s.f.cancelled) (hnt : a ≠ .tick) (hnc : a ≠ .cancel id)
    (hs : HS.step G s a = .ok s' o) :
    hhas s'.heap id D P ∧ id ∉ s'.f.cancelled ∧ entries s'.f.log id = entries s.f.log id ∧
    s'.now = (match a with | .clock n => s.now + n | _ => s.now) := by
  cases a with
  | after d =>
    simp only [HS.step] at hs
    split at hs
    · cases hs
    · cases hs; exact ⟨hh, hl, rfl, rfl⟩
  | every p =>
    simp only [HS.step] at hs
    split at hs
    · cases hs
    · cases hs; exact ⟨hh, hl, rfl, rfl⟩
  | cancel j =>
    simp only [HS.step] at hs
    split at hs
    · split at hs
      · cases hs
      · cases hs
        refine ⟨hh, ?_, rfl, rfl⟩
        simp only [Front.cancel, List.mem_append, List.mem_singleton, not_or]
        exact ⟨hl, fun e => hnc (by rw [e])⟩
    · cases hs; exact ⟨hh, hl, rfl, rfl⟩
  | add =>
    simp only [HS.step] at hs
    split at hs
    · cases hs; exact ⟨hh, hl, rfl, rfl⟩
    · split at hs
      · cases hs; exact ⟨hh, hl, rfl, rfl⟩
      · cases hs
        obtain ⟨n, hn, h1, h2, h3⟩ := hh
        exact ⟨⟨n, (hinsert_perm _ _).mem_iff.mpr (List.mem_cons_of_mem _ hn), h1, h2, h3⟩, hl, rfl, rfl⟩
  | del =>
    simp only [HS.step] at hs
    split at hs
    · cases hs; exact ⟨hh, hl, rfl, rfl⟩
    · rename_i i q hq
      cases hs
      have hi : i ∈ s.f.cancelled := h.front.delq i (by rw [hq]; exact List.mem_cons_self ..)
      obtain ⟨n, hn, h1, h2, h3⟩ := hh
      refine ⟨⟨n, List.mem_filter.mpr ⟨hn, ?_⟩, h1, h2, h3⟩, hl, rfl, rfl⟩
      simp only [ne_eq, decide_eq_true_eq]
      intro e
      exact hl (h1 ▸ e ▸ hi)
  | tick => exact absurd rfl hnt
  | clock n =>
    simp only [HS.step] at hs
    cases hs; exact ⟨hh, hl, rfl, rfl⟩

end Fatchoy.C05

namespace Fatchoy.C05

/-- SPEC: the time of the first tick at or after the due time `D` in a sequence of steps that starts at
clock value `now` (ticks happen at the current clock value; `clock n` lets n units pass) -/
def fireTime (D : Nat) : Nat → List Act → Option Nat
  | _, [] => none
  | now, a :: as =>
    match a with
    | .tick => if D ≤ now then some now else fireTime D now as
    | .clock n => fireTime D (now + n) as
    | _ => fireTime D now as

/-- SPEC for a periodic timer next due at `D`: every tick at or after the due time fires it and makes it
due one period after that tick.  Returns the fire times (NEWEST first) and the final due time. -/
def firePlan (P : Nat) : Nat → Nat → List Act → List Nat × Nat
  | D, _, [] => ([], D)
  | D, now, a :: as =>
    match a with
    | .tick => if D ≤ now then ((firePlan P (now + P) now as).1 ++ [now], (firePlan P (now + P) now as).2)
               else firePlan P D now as
    | .clock n => firePlan P D (now + n) as
    | _ => firePlan P D now as

theorem hgone_run (G : Geom) (id : Nat) : ∀ (acts : List Act) (s s' : HS), HInv s → HGone s id →
    HS.run G s acts = some s' → HGone s' id ∧ entries s'.f.log id = entries s.f.log id ∧ HInv s'
  | [], s, s', h, hg, hr => by
    simp only [HS.run, Option.some.injEq] at hr; subst hr; exact ⟨hg, rfl, h⟩
  | a :: as, s, s', h, hg, hr => by
    simp only [HS.run] at hr
    split at hr
    · rename_i s1 o he
      obtain ⟨g1, e1⟩ := hgone_step G h hg he
      obtain ⟨g2, e2, i2⟩ := hgone_run G id as s1 s' (h.step G he) g1 hr
      exact ⟨g2, e2.trans e1, i2⟩
    · cases hr

/-- a one-shot timer in the heap, not cancelled: along ANY sequence of steps that does not cancel it, it
is delivered exactly once, by the first tick at or after its deadline (and logged at that tick's
time); before that tick it stays in the heap undelivered -/
theorem heap_oneshot_run (G : Geom) (id D : Nat) : ∀ (acts : List Act) (s s' : HS), HInv s →
    Act.cancel id ∉ acts → hhas s.heap id D 0 → id ∉ s.f.cancelled → HS.run G s acts = some s' →
    (match fireTime D s.now acts with
     | none => hhas s'.heap id D 0 ∧ id ∉ s'.f.cancelled ∧ entries s'.f.log id = entries s.f.log id
     | some t => HGone s' id ∧ entries s'.f.log id = (t, id) :: entries s.f.log id) ∧ HInv s'
  | [], s, s', h, _, hh, hl, hr => by
    simp only [HS.run, Option.some.injEq] at hr; subst hr
    exact ⟨by simp only [fireTime]; exact ⟨hh, hl, trivial⟩, h⟩
  | a :: as, s, s', h, hnc, hh, hl, hr => by
    simp only [HS.run] at hr
    split at hr
    · rename_i s1 o he
      have h1 := h.step G he
      have hnc' : Act.cancel id ∉ as := fun hm => hnc (List.mem_cons_of_mem _ hm)
      have hna : a ≠ .cancel id := fun e => hnc (e ▸ List.mem_cons_self ..)
      by_cases hat : a = .tick
      · subst hat
        simp only [HS.step] at he
        split at he
        · rename_i s2 ht
          simp only [Res.ok.injEq] at he
          obtain ⟨rfl, _⟩ := he
          obtain ⟨f1, f2, f3, _, f5, _⟩ := HS.tick_frame s _ h ht
          simp only [fireTime]
          by_cases hD : D ≤ s.now
          · obtain ⟨a1, _, a3⟩ := HS.tick_oneshot s _ h ht id D hh hD hl
            have hq := h.linked_not_queued (hhas_ids hh)
            have hg : HGone s2 id := ⟨by rw [f5]; exact hq.1, by simp only [Front.addIds, f3]; exact hq.2, a1⟩
            obtain ⟨g2, e2, i2⟩ := hgone_run G id as _ s' h1 hg hr
            simp only [hD, if_true]
            exact ⟨⟨g2, e2.trans a3⟩, i2⟩
          · obtain ⟨a1, a2, _⟩ := HS.tick_keep s _ h ht id D 0 hh (by omega)
            obtain ⟨r1, r2⟩ := heap_oneshot_run G id D as _ s' h1 hnc' a1 (by rw [f2]; exact hl) hr
            simp only [hD, if_false]
            rw [f1] at r1
            refine ⟨?_, r2⟩
            split
            · rename_i hft; rw [hft] at r1; exact ⟨r1.1, r1.2.1, r1.2.2.trans a2⟩
            · rename_i t hft; rw [hft] at r1; exact ⟨r1.1, by rw [r1.2, a2]⟩
        · cases he
      · obtain ⟨b1, b2, b3, b4⟩ := hlive_step G h hh hl hat hna he
        obtain ⟨r1, r2⟩ := heap_oneshot_run G id D as s1 s' h1 hnc' b1 b2 hr
        refine ⟨?_, r2⟩
        have hft : fireTime D s.now (a :: as) = fireTime D s1.now as := by
          cases a <;> simp only [fireTime, b4] <;> first | rfl | exact absurd rfl hat
        rw [hft]
        split
        · rename_i hx; rw [hx] at r1; exact ⟨r1.1, r1.2.1, r1.2.2.trans b3⟩
        · rename_i t hx; rw [hx] at r1; exact ⟨r1.1, by rw [r1.2, b3]⟩
    · cases hr

/-- a periodic timer in the heap, not cancelled: along ANY sequence of steps that does not cancel it, it is
delivered exactly by the ticks of `firePlan` — the first tick at or after its due time, then the
first tick at or after one period past that tick, and so on — and stays in the heap with the final
due time -/
theorem heap_periodic_run (G : Geom) (id P : Nat) (hP : P > 0) : ∀ (acts : List Act) (s s' : HS) (D : Nat), HInv s →
    Act.cancel id ∉ acts → hhas s.heap id D P → id ∉ s.f.cancelled → HS.run G s acts = some s' →
    hhas s'.heap id (firePlan P D s.now acts).2 P ∧ id ∉ s'.f.cancelled ∧
    entries s'.f.log id = (firePlan P D s.now acts).1.map (fun t => (t, id)) ++ entries s.f.log id ∧ HInv s'
  | [], s, s', D, h, _, hh, hl, hr => by
    simp only [HS.run, Option.some.injEq] at hr; subst hr
    exact ⟨hh, hl, by simp [firePlan], h⟩
  | a :: as, s, s', D, h, hnc, hh, hl, hr => by
    simp only [HS.run] at hr
    split at hr
    · rename_i s1 o he
      have h1 := h.step G he
      have hnc' : Act.cancel id ∉ as := fun hm => hnc (List.mem_cons_of_mem _ hm)
      have hna : a ≠ .cancel id := fun e => hnc (e ▸ List.mem_cons_self ..)
      by_cases hat : a = .tick
      · subst hat
        simp only [HS.step] at he
        split at he
        · rename_i s2 ht
          simp only [Res.ok.injEq] at he
          obtain ⟨rfl, _⟩ := he
          obtain ⟨f1, f2, _, _, _, _⟩ := HS.tick_frame s _ h ht
          simp only [firePlan]
          by_cases hD : D ≤ s.now
          · obtain ⟨a1, a2, _⟩ := HS.tick_periodic s _ h ht id D P hh hP hD hl
            obtain ⟨r1, r2, r3, r4⟩ := heap_periodic_run G id P hP as _ s' (s.now + P) h1 hnc' a1 (by rw [f2]; exact hl) hr
            rw [f1] at r1 r3
            simp only [hD, if_true]
            refine ⟨r1, r2, ?_, r4⟩
            rw [r3, a2]; simp
          · obtain ⟨a1, a2, _⟩ := HS.tick_keep s _ h ht id D P hh (by omega)
            obtain ⟨r1, r2, r3, r4⟩ := heap_periodic_run G id P hP as _ s' D h1 hnc' a1 (by rw [f2]; exact hl) hr
            rw [f1] at r1 r3
            simp only [hD, if_false]
            exact ⟨r1, r2, by rw [r3, a2], r4⟩
        · cases he
      · obtain ⟨b1, b2, b3, b4⟩ := hlive_step G h hh hl hat hna he
        obtain ⟨r1, r2, r3, r4⟩ := heap_periodic_run G id P hP as s1 s' D h1 hnc' b1 b2 hr
        have hft : firePlan P D s.now (a :: as) = firePlan P D s1.now as := by
          cases a <;> simp only [firePlan, b4] <;> first | rfl | exact absurd rfl hat
        rw [hft]
        exact ⟨r1, r2, by rw [r3, b3], r4⟩
    · cases hr

end Fatchoy.C05
