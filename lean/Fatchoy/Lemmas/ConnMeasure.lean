/-
A termination measure for the connection LTS (C04 "no call blocks forever", second half).
`mu s` is a natural number that EVERY internal step (a step of a goroutine of the connection or of a call in
progress — `Action.internal`) strictly decreases, in every state.  Only the environment (new calls, frames
from the peer, the read deadline) can increase it.  Together with `no_stuck` (some internal step is enabled
while a call has not returned or `finally` is not through) this gives: once the environment stops
interfering, after at most `mu s` internal steps every SendPacket / Close / ForceClose call has returned and
the elected closer is through `finally` — whatever the schedule.
-/
import Fatchoy.Lemmas.ConnLive
namespace Fatchoy.Conn

def SPc.rem : SPc → Nat
  | .rlock _ => 7 | .check _ => 6 | .send _ => 5 | .unlock _ => 1 | .ret _ => 0
def CPc.rem : CPc → Nat
  | .lock => 15 | .cas => 14 | .unlockLost => 1 | .won => 1 | .returned _ => 0
def WinPc.rem : WinPc → Nat
  | .unlock => 12 | .closeRead => 11 | .closeDone => 10 | .setDl => 9 | .notify => 8 | .spawn => 7 | .wait => 6
  | .shutWrite => 5 | .setTerm => 4 | .closeOut => 3 | .clear => 2 | .finished => 0 | .dead => 0
def WPc.rem : WPc → Nat
  | .idle => 6 | .writing _ => 5 | .select => 4 | .flushing _ => 3 | .flush => 2 | .wgDone => 1 | .exited => 0
def RPc.rem : RPc → Nat
  | .idle => 23 | .deliver _ => 22 | .checkExit => 21 | .arm => 20 | .chk => 19 | .reading => 18 | .closing _ c => 2 + c.rem
  | .wgDone => 1 | .exited => 0
def winRem : Option Winner → Nat
  | some w => w.pc.rem
  | none => 0

def mu (s : State) : Nat :=
  (s.snd.map SPc.rem).sum + (s.cls.map (fun c => c.pc.rem)).sum + winRem s.win +
  (3 * s.out.length + s.w.rem) + (6 * s.peerIn.length + s.r.rem)

theorem sum_set {α : Type} (f : α → Nat) : ∀ (l : List α) (i : Nat) (x y : α), l[i]? = some x →
    ((l.set i y).map f).sum + f x = (l.map f).sum + f y
  | [], i, x, y, h => by simp at h
  | a :: l, 0, x, y, h => by
    simp at h; subst h
    simp only [List.set_cons_zero, List.map_cons, List.sum_cons]; omega
  | a :: l, i + 1, x, y, h => by
    simp only [List.getElem?_cons_succ] at h
    have := sum_set f l i x y h
    simp only [List.set_cons_succ, List.map_cons, List.sum_cons]; omega

/-- what the election does to the measure: nothing, or (a successful CAS) it adds the elected closer -/
theorem elect_mu {s s' : State} {g : Bool} {e : Err} {c c' : CPc} (hs : electStep s g e c = some (s', c')) :
    s'.snd = s.snd ∧ s'.cls = s.cls ∧ s'.out = s.out ∧ s'.w = s.w ∧ s'.peerIn = s.peerIn ∧ s'.r = s.r ∧
    winRem s'.win + c'.rem < winRem s.win + c.rem := by
  unfold electStep at hs
  cases c <;> simp only at hs
  all_goals (repeat' (split at hs))
  all_goals (first
    | (simp only [Option.some.injEq, Prod.mk.injEq] at hs; obtain ⟨rfl, rfl⟩ := hs
       simp_all [winRem, CPc.rem, WinPc.rem]; done)
    | (simp at hs; done))

theorem measure_decreases {cfg : Cfg} {s s' : State} {a : Action} (hi : a.internal = true)
    (hs : step cfg s a = some s') : mu s' < mu s := by
  cases a <;> simp [Action.internal] at hi <;> simp only [step] at hs
  case snd i =>
    unfold stepSnd at hs
    split at hs
    · simp at hs
    all_goals (rename_i hx; have hsum := fun y => sum_set SPc.rem s.snd i _ y hx)
    all_goals (repeat' (split at hs))
    all_goals (first | (simp at hs; done) | skip)
    all_goals (injection hs with hs; subst hs; simp only [mu, List.length_append, List.length_cons, List.length_nil])
    all_goals (first
      | (have := hsum (.check ‹_›); simp only [SPc.rem] at this; omega)
      | (have := hsum (.send ‹_›); simp only [SPc.rem] at this; omega)
      | (have := hsum (.unlock .closing); simp only [SPc.rem] at this; omega)
      | (have := hsum (.unlock .ok); simp only [SPc.rem] at this; omega)
      | (have := hsum (.unlock .overflow); simp only [SPc.rem] at this; omega)
      | (have := hsum (.unlock .panic); simp only [SPc.rem] at this; omega)
      | (have := hsum (.ret ‹_›); simp only [SPc.rem] at this; omega))
  case cls j =>
    unfold stepCls at hs
    split at hs
    · simp at hs
    · next c hc =>
      split at hs
      · next s1 pc1 he =>
        injection hs with hs; subst hs
        obtain ⟨e1, e2, e3, e4, e5, e6, e7⟩ := elect_mu he
        have := sum_set (fun c : Closer => c.pc.rem) s.cls j c { c with pc := pc1 } hc
        simp only [mu, e1, e2, e3, e4, e5, e6]
        simp only at this
        omega
      · simp at hs
  case win =>
    unfold stepWin at hs
    cases hw : s.win with
    | none => simp [hw] at hs
    | some w =>
      simp only [hw] at hs
      cases hp : w.pc <;> simp only [hp, setWin] at hs
      all_goals (repeat' (split at hs))
      all_goals (first
        | (injection hs with hs; subst hs; simp only [mu, winRem, hw, hp, WinPc.rem]; omega)
        | (subst hs; simp only [mu, winRem, hw, hp, WinPc.rem]; omega)
        | (simp at hs; done))
  case rClose =>
    unfold stepRClose at hs
    split at hs
    · next e c hr =>
      split at hs
      · next s1 c1 he =>
        injection hs with hs; subst hs
        obtain ⟨e1, e2, e3, e4, e5, e6, e7⟩ := elect_mu he
        simp only [mu, e1, e2, e3, e4, e5, hr, RPc.rem]
        cases c1 <;> simp only [RPc.rem, CPc.rem] at e7 ⊢ <;> omega
      · simp at hs
    · simp at hs
  all_goals (first
    | (unfold stepWRecv at hs) | (unfold stepWDone at hs) | (unfold stepWWrite writeOne at hs)
    | (unfold stepWFlush at hs) | (unfold stepWWgDone at hs) | (unfold stepRArm at hs) | (unfold stepRChk at hs)
    | (unfold stepRFrame at hs) | (unfold stepRErr at hs)
    | (unfold stepRNil at hs) | (unfold stepRPush at hs) | (unfold stepRDrop at hs) | (unfold stepRCheck at hs)
    | (unfold stepRWgDone at hs) | skip)
  all_goals (repeat' (split at hs))
  all_goals (first | (simp at hs; done) | skip)
  all_goals (injection hs with hs; subst hs)
  all_goals (simp_all [mu, WPc.rem, RPc.rem, CPc.rem])
  all_goals (first | omega | (split <;> simp [RPc.rem] <;> omega))

/-- a run of internal steps is at most `mu` long -/
theorem internal_run_bound {cfg : Cfg} : ∀ (acts : List Action) {s s' : State},
    (∀ a ∈ acts, a.internal = true) → run cfg s acts = some s' → acts.length + mu s' ≤ mu s
  | [], s, s', _, hr => by simp [run] at hr; subst hr; simp
  | a :: as, s, s', hi, hr => by
    simp only [run] at hr
    cases hs : step cfg s a with
    | none => simp [hs] at hr
    | some s1 =>
      simp only [hs] at hr
      have h1 := measure_decreases (hi a List.mem_cons_self) hs
      have h2 := internal_run_bound as (fun b hb => hi b (List.mem_cons_of_mem _ hb)) hr
      simp only [List.length_cons]; omega

end Fatchoy.Conn
