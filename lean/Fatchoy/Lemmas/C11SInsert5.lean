/-
C11, structural skip list S, `Insert` part 5: backward pointers, tail, order, top level — and the
theorem: `Insert` keeps the invariant and refines `L.insert`, for every tower height.
-/
import Fatchoy.Lemmas.C11SInsert4
namespace Fatchoy.C11.S

section
variable {s : SList} {l A B : List Nat} {ur0 : List (Nat × Int)} {tgt : Node} {h : Nat} {t : SList}

theorem InsCtx.id_ne (c : InsCtx s l A B ur0 tgt h) {y : Nat} (hy : y ∈ 0 :: l) : y ≠ s.nodes.length :=
  fun h0 => c.id_fresh (h0 ▸ hy)

/-- the new node's level-0 successor is the first node of `B` -/
theorem InsCtx.fwd0_new (c : InsCtx s l A B ur0 tgt h) (hf : InsFacts s (urExt s ur0 h) tgt h t) :
    (cell t s.nodes.length 0).fwd = B.head? := by
  have hi : 0 < height t s.nodes.length := by rw [hf.hgt, if_pos rfl]; exact c.h1
  have := (insert_cells c hf (0 :: A) s.nodes.length B rfl 0 hi).1
  rw [this]
  cases B with
  | nil => rfl
  | cons b r =>
    have hb : b ∈ l := c.mem_B List.mem_cons_self
    have : up t 0 b = true := by
      rw [c.up_old hf 0 (c.id_ne (List.mem_cons_of_mem _ hb))]
      have := (c.inv.hgt b hb).1
      simp [up]; omega
    simp [nxt, this]

theorem insert_bwd (c : InsCtx s l A B ur0 tgt h) (hf : InsFacts s (urExt s ur0 h) tgt h t) :
    ∀ pre x suf, A ++ s.nodes.length :: B = pre ++ x :: suf → (nd t x).bwd = pre.getLast? := by
  intro pre x suf hs
  have hnd := c.nodupA
  have hf0 := c.fwd0_new hf
  rw [hf.bwd, hf0]
  rcases split_insert hs with ⟨l1, hA, hsuf⟩ | ⟨hpre, hx, hsuf⟩ | ⟨p2, hpre, hB⟩
  · -- before the new node
    have hxA : x ∈ A := by rw [hA]; simp
    have hxid : x ≠ s.nodes.length := c.id_ne (List.mem_cons_of_mem _ (c.mem_A hxA))
    have hnot : ¬ (B.head? = some x ∧ x < s.nodes.length + 1) := by
      intro hh
      have hxB : x ∈ B := List.mem_of_head? hh.1
      rw [List.cons_append, List.nodup_cons, List.nodup_append] at hnd
      exact hnd.2.2.2 x hxA x hxB rfl
    rw [if_neg hnot, if_neg hxid]
    exact c.inv.bwd pre x (l1 ++ B) (by rw [c.hl, hA]; simp)
  · -- the new node
    subst hx
    have hnot : ¬ (B.head? = some s.nodes.length ∧ s.nodes.length < s.nodes.length + 1) := by
      intro hh
      have hxB : s.nodes.length ∈ B := List.mem_of_head? hh.1
      exact c.id_fresh (List.mem_cons_of_mem _ (c.mem_B hxB))
    rw [if_neg hnot, if_pos rfl, hpre]
    have hz := (isUpd_zero c.inv c.hl (c.urExt_upd 0 (Or.inl c.inv.level_pos))).1
    rcases List.eq_nil_or_concat A with hA | ⟨A', z, hA⟩
    · subst hA
      simp only [List.dropLast_singleton, List.nil_append, List.cons.injEq, and_true] at hz
      simp [← hz]
    · rw [List.concat_eq_append] at hA
      subst hA
      have : (0 :: (A' ++ [z])).dropLast = 0 :: A' := by
        rw [← List.cons_append, List.dropLast_concat]
      rw [this] at hz
      have hz' : updOf (urExt s ur0 h) 0 = z := by
        have h2 : (0 :: A') ++ [z] = (0 :: A') ++ [updOf (urExt s ur0 h) 0] := by
          rw [← hz]; rfl
        have := List.append_cancel_left h2
        simp only [List.cons.injEq, and_true] at this
        exact this.symm
      have hz0 : z ≠ 0 := by
        intro h0
        have hn := c.nodupA0
        rw [h0] at hn
        simp at hn
      rw [hz']
      simp [hz0]
  · -- after the new node
    have hxB : x ∈ B := by rw [hB]; simp
    have hxl : x ∈ 0 :: l := List.mem_cons_of_mem _ (c.mem_B hxB)
    have hxid : x ≠ s.nodes.length := c.id_ne hxl
    have hxv : x < s.nodes.length + 1 := by
      have := c.inv.valid x (c.mem_B hxB); omega
    cases p2 with
    | nil =>
      simp only [List.nil_append] at hB
      rw [hB, hpre]
      simp [hxv]
    | cons q p2' =>
      have hnot : ¬ (B.head? = some x ∧ x < s.nodes.length + 1) := by
        intro hh
        rw [hB] at hh
        simp only [List.cons_append, List.head?_cons, Option.some.injEq] at hh
        have hnB : B.Nodup := by
          rw [List.cons_append, List.nodup_cons, List.nodup_append] at hnd
          exact hnd.2.2.1
        rw [hB, ← hh.1] at hnB
        simp at hnB
      rw [if_neg hnot, if_neg hxid, hpre]
      have := c.inv.bwd (A ++ q :: p2') x suf (by rw [c.hl, hB]; simp)
      rw [this]
      simp [List.getLast?_append]

theorem insert_tail (c : InsCtx s l A B ur0 tgt h) (hf : InsFacts s (urExt s ur0 h) tgt h t) :
    t.tail = (A ++ s.nodes.length :: B).getLast? := by
  rw [hf.tail, c.fwd0_new hf]
  cases B with
  | nil => simp
  | cons b r =>
    simp only [List.head?_cons, reduceCtorEq, if_false]
    rw [c.inv.tail, c.hl]
    simp [List.getLast?_append]

theorem insert_sorted_new (c : InsCtx s l A B ur0 tgt h) (hf : InsFacts s (urExt s ur0 h) tgt h t) :
    (A ++ s.nodes.length :: B).map (nodeOf t) = A.map (nodeOf s) ++ tgt :: B.map (nodeOf s) ∧
    Sorted ((A ++ s.nodes.length :: B).map (nodeOf t)) := by
  have e : (A ++ s.nodes.length :: B).map (nodeOf t) = A.map (nodeOf s) ++ tgt :: B.map (nodeOf s) := by
    rw [List.map_append, List.map_cons, hf.key, if_pos rfl]
    congr 1
    · apply List.map_congr_left
      intro a ha
      rw [hf.key, if_neg (c.id_ne (List.mem_cons_of_mem _ (c.mem_A ha)))]
    · congr 1
      apply List.map_congr_left
      intro a ha
      rw [hf.key, if_neg (c.id_ne (List.mem_cons_of_mem _ (c.mem_B ha)))]
  refine ⟨e, ?_⟩
  rw [e]
  have hs := c.inv.sorted
  rw [c.hl, List.map_append] at hs
  unfold Sorted at hs ⊢
  rw [List.pairwise_append] at hs ⊢
  refine ⟨hs.1, ?_, ?_⟩
  · rw [List.pairwise_cons]
    refine ⟨?_, hs.2.1⟩
    intro b hb
    obtain ⟨y, hy, rfl⟩ := List.mem_map.mp hb
    exact c.gtB y hy
  · intro a ha b hb
    obtain ⟨x, hx, rfl⟩ := List.mem_map.mp ha
    rcases List.mem_cons.mp hb with hb | hb
    · rw [hb]; exact c.ltA x hx
    · exact hs.2.2 _ ha b hb

theorem insert_top (c : InsCtx s l A B ur0 tgt h) (hf : InsFacts s (urExt s ur0 h) tgt h t) :
    1 < t.level → (cell t 0 (t.level - 1)).fwd ≠ none := by
  intro hlv
  have h0id : (0 : Nat) ≠ s.nodes.length := c.id_ne List.mem_cons_self
  have hi : t.level - 1 < height t 0 := by
    have e1 := hf.hgt 0
    rw [if_neg h0id] at e1
    have e2 := hf.level
    have e3 := c.inv.level_le
    have e4 := c.hh
    unfold newLevel at e2
    split at e2 <;> omega
  rw [(insert_cells c hf [] 0 _ rfl _ hi).1]
  intro hnone
  rw [nxt_eq_none_iff] at hnone
  rw [hf.level] at hlv hnone
  by_cases hgrow : s.level < h
  · have : newLevel s h = h := by unfold newLevel; rw [if_pos hgrow]
    rw [this] at hnone
    have := hnone s.nodes.length (by simp)
    rw [c.up_new hf] at this
    simp at this
    have := c.h1
    omega
  · have hnl : newLevel s h = s.level := by unfold newLevel; rw [if_neg hgrow]
    rw [hnl] at hnone hlv
    have hold := c.inv.top hlv
    rw [(c.inv.cells [] 0 l rfl _ (by have := c.inv.level_le; omega)).1] at hold
    apply hold
    rw [nxt_eq_none_iff]
    intro y hy
    have hyn : y ∈ A ++ s.nodes.length :: B := by
      rw [c.hl] at hy
      rcases List.mem_append.mp hy with h1 | h2
      · exact List.mem_append_left _ h1
      · exact List.mem_append_right _ (List.mem_cons_of_mem _ h2)
    rw [← c.up_old hf _ (c.id_ne (List.mem_cons_of_mem _ hy))]
    exact hnone y hyn

/-- the invariant after `Insert` -/
theorem insert_inv (c : InsCtx s l A B ur0 tgt h) (hf : InsFacts s (urExt s ur0 h) tgt h t) :
    Inv t (A ++ s.nodes.length :: B) := by
  have hlv := c.level_le_new
  refine ⟨?_, ?_, ?_, ?_, ?_, ?_, insert_cells c hf, insert_bwd c hf, insert_tail c hf, ?_,
    (insert_sorted_new c hf).2, insert_top c hf⟩
  · -- nodup
    have : (0 :: (A ++ s.nodes.length :: B)).Perm (s.nodes.length :: (0 :: (A ++ B))) := by
      have := List.perm_middle (a := s.nodes.length) (l₁ := 0 :: A) (l₂ := B)
      simpa using this
    apply this.symm.nodup
    rw [List.nodup_cons]
    exact ⟨by have := c.id_fresh; rw [c.hl] at this; exact this, c.nodupA⟩
  · intro x hx
    rw [hf.size]
    rcases List.mem_append.mp hx with h1 | h2
    · have := c.inv.valid x (c.mem_A h1); omega
    · rcases List.mem_cons.mp h2 with h3 | h3
      · omega
      · have := c.inv.valid x (c.mem_B h3); omega
  · rw [hf.size]
    have := c.inv.room
    rw [c.hl] at this
    simp only [List.length_append, List.length_cons] at this ⊢
    omega
  · rw [hf.level]; have := c.inv.level_pos; omega
  · rw [hf.level, hf.hgt, if_neg (c.id_ne List.mem_cons_self)]
    have := c.inv.level_le; have := c.hh
    unfold newLevel; split <;> omega
  · intro x hx
    rw [hf.hgt, hf.level]
    rcases List.mem_append.mp hx with h1 | h2
    · rw [if_neg (c.id_ne (List.mem_cons_of_mem _ (c.mem_A h1)))]
      have := c.inv.hgt x (c.mem_A h1); omega
    · rcases List.mem_cons.mp h2 with h3 | h3
      · rw [if_pos h3]; have := c.h1; omega
      · rw [if_neg (c.id_ne (List.mem_cons_of_mem _ (c.mem_B h3)))]
        have := c.inv.hgt x (c.mem_B h3); omega
  · rw [hf.len, c.inv.len, c.hl]
    simp only [List.length_append, List.length_cons]; omega

end

/-- `Insert` of a (score, member) pair that is not in the list, with any tower height the header has
  room for: it terminates, the invariant holds again, the content is `L.insert` of the content, the
  returned node carries the pair, and the header keeps its height. -/
theorem insert_refines {s : SList} {l : List Nat} (hI : Inv s l) (score : Int) (ele : Nat) (h : Nat)
    (h1 : 1 ≤ h) (hh : h ≤ height s 0) (hn : (⟨score, ele⟩ : Node) ∉ abs s) :
    ∃ t id, insert s score ele h = some (t, id) ∧ SOk t ∧ abs t = L.insert (abs s) score ele ∧
      nodeOf t id = ⟨score, ele⟩ ∧ height t 0 = height s 0 := by
  let tgt : Node := ⟨score, ele⟩
  let A := l.takeWhile (fun x => (nodeOf s x).lt tgt)
  let B := l.dropWhile (fun x => (nodeOf s x).lt tgt)
  have hl : l = A ++ B := (List.takeWhile_append_dropWhile).symm
  have hc : Cut s (fun f _ => f.key.lt tgt) A B := cut_key hI (fun n => n.lt tgt) (lt_down tgt)
  obtain ⟨ur0, hsearch, hlen, hupd⟩ := search_top hI hl hc
  have ctx : InsCtx s l A B ur0 tgt h := by
    refine ⟨hI, hl, hlen, hupd, h1, hh, ?_, ?_⟩
    · intro a ha
      exact mem_takeWhile_imp (p := fun x => (nodeOf s x).lt tgt) ha
    · intro b hb
      have hd := dropWhile_eq_filter_not (fun x => (nodeOf s x).lt tgt)
        (hI.pairwise_lt.imp (fun {a b} hab hb => lt_down tgt _ _ hab hb))
      have hm : b ∈ l.filter (fun x => !(nodeOf s x).lt tgt) := by rw [← hd]; exact hb
      simp only [List.mem_filter, Bool.not_eq_true'] at hm
      rcases Node.lt_or_eq_or_gt (nodeOf s b) tgt with h1 | h2 | h3
      · rw [h1] at hm; cases hm.2
      · exfalso; apply hn
        rw [hI.abs_eq]
        exact List.mem_map.mpr ⟨b, hm.1, h2⟩
      · exact h3
  obtain ⟨hid, hf⟩ := insertAt_facts ctx
  have hinv := insert_inv ctx hf
  refine ⟨(insertAt s ur0 score ele h).1, (insertAt s ur0 score ele h).2, ?_, SOk_of_inv hinv, ?_, ?_, ?_⟩
  · unfold insert
    rw [hsearch]; rfl
  · rw [hinv.abs_eq, (insert_sorted_new ctx hf).1]
    unfold L.insert
    obtain ⟨e1, e2⟩ := abs_takeWhile hI (fun n => n.lt tgt)
    rw [e1, e2]
  · rw [hid]
    have := hf.key s.nodes.length
    rw [if_pos rfl] at this
    exact this
  · have := hf.hgt 0
    rw [if_neg (ctx.id_ne List.mem_cons_self)] at this
    exact this

end Fatchoy.C11.S
