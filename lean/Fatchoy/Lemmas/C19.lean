import Fatchoy.Model.C19
namespace Fatchoy.C19

/-- the width the property assigns to each type, in bytes (`word` = bytes of `uint`/`int`) -/
def Ty.width (word : Nat) : Ty → Nat
  | .bool | .u8 | .i8 => 1
  | .u16 | .i16 => 2
  | .u32 | .i32 | .f32 => 4
  | .u64 | .i64 | .f64 => 8
  | .uint | .int => word

/-- what the proofs need from the regenerated tables: every writer appends exactly one
little-endian chunk of the width of its type, and the reader and peeker use that same width -/
def Valid (P : Params) : Prop :=
  (P.word = 4 ∨ P.word = 8) ∧
  P.names = Ty.all.map Ty.name ∧
  P.wr = Ty.all.map (fun t => [t.width P.word]) ∧
  P.rd = Ty.all.map (Ty.width P.word) ∧
  P.pk = Ty.all.map (Ty.width P.word)
instance (P : Params) : Decidable (Valid P) := by unfold Valid; infer_instance

/-- the values of a type: a Go `bool` is 0/1, every other kind is any bit pattern of its width -/
def WF (word : Nat) (t : Ty) (v : Nat) : Prop :=
  match t with
  | .bool => v < 2
  | _ => v < 256 ^ t.width word
instance (word : Nat) (t : Ty) (v : Nat) : Decidable (WF word t v) := by
  unfold WF; cases t <;> infer_instance

theorem width_pos {word : Nat} (h : word = 4 ∨ word = 8) (t : Ty) : 0 < t.width word := by
  cases t <;> simp [Ty.width] <;> omega

theorem wr_of_valid {P : Params} (hv : Valid P) (t : Ty) : P.wr.getD t.idx [] = [t.width P.word] := by
  obtain ⟨_, _, h, _, _⟩ := hv
  rw [h]; cases t <;> rfl

theorem rd_of_valid {P : Params} (hv : Valid P) (t : Ty) : P.rd.getD t.idx 0 = t.width P.word := by
  obtain ⟨_, _, _, h, _⟩ := hv
  rw [h]; cases t <;> rfl

theorem pk_of_valid {P : Params} (hv : Valid P) (t : Ty) : P.pk.getD t.idx 0 = t.width P.word := by
  obtain ⟨_, _, _, _, h⟩ := hv
  rw [h]; cases t <;> rfl

/-! ### little-endian bytes -/

theorem putLE_length (n v : Nat) : (putLE n v).length = n := by
  induction n generalizing v with
  | zero => rfl
  | succ n ih => simp [putLE, ih]

theorem getLE_putLE_mod (n v : Nat) : getLE (putLE n v) = v % 256 ^ n := by
  induction n generalizing v with
  | zero => simp [putLE, getLE, Nat.mod_one]
  | succ n ih =>
    simp only [putLE, getLE, ih, UInt8.toNat_ofNat']
    have h8 : v % 256 % 2 ^ 8 = v % 256 := Nat.mod_eq_of_lt (Nat.mod_lt _ (by omega))
    have hp : (256 : Nat) ^ (n + 1) = 256 * 256 ^ n := by rw [Nat.pow_succ, Nat.mul_comm]
    rw [h8, hp, Nat.mod_mul]

theorem getLE_putLE {n v : Nat} (h : v < 256 ^ n) : getLE (putLE n v) = v := by
  rw [getLE_putLE_mod, Nat.mod_eq_of_lt h]

theorem take_putLE (n v : Nat) (r : Buf) : (putLE n v ++ r).take n = putLE n v := by
  rw [List.take_append_of_le_length (by rw [putLE_length]; exact Nat.le_refl _), List.take_of_length_le (by rw [putLE_length]; exact Nat.le_refl _)]

theorem drop_putLE (n v : Nat) (r : Buf) : (putLE n v ++ r).drop n = r := by
  have := List.drop_left' (l₁ := putLE n v) (l₂ := r) (putLE_length n v)
  exact this

/-- byte `i` of the encoding is bits `8i .. 8i+7` of the value -/
theorem putLE_getElem? (n v i : Nat) (hi : i < n) :
    (putLE n v)[i]? = some (UInt8.ofNat (v / 256 ^ i % 256)) := by
  induction n generalizing v i with
  | zero => omega
  | succ n ih =>
    cases i with
    | zero => simp [putLE]
    | succ i =>
      simp only [putLE, List.getElem?_cons_succ]
      rw [ih (v / 256) i (by omega), Nat.div_div_eq_div_mul, Nat.pow_succ, Nat.mul_comm]

theorem dec_enc {word : Nat} {t : Ty} {v : Nat} (h : WF word t v) : dec t (enc t v) = v := by
  cases t <;> simp only [dec, enc]
  simp only [WF] at h
  by_cases h0 : v = 0
  · simp [h0]
  · simp [h0]; omega

theorem enc_lt {word : Nat} {t : Ty} {v : Nat} (h : WF word t v) :
    enc t v < 256 ^ t.width word := by
  cases t <;> simp only [enc] <;> try exact h
  simp only [WF] at h
  simp only [Ty.width]
  split <;> omega

end Fatchoy.C19
