/-
C11, layer ZS: `GetRange` and `GetRangeByScore` over the structure = over the content.
-/
import Fatchoy.Lemmas.C11ZS1
namespace Fatchoy.C11
open S

theorem S.Inv.len_abs {s : SList} {l : List Nat} (hI : Inv s l) : s.length = ((abs s).length : Int) := by
  rw [hI.len, hI.abs_eq, List.length_map]

theorem ptrAt_succ (l : List Nat) (a : Int) (h0 : 0 ≤ a) : ptrAt l (a + 1) = (l.drop a.toNat).head? := by
  unfold ptrAt
  have : ¬ a + 1 < 0 := by omega
  have e : (a + 1).toNat = a.toNat + 1 := by omega
  rw [if_neg this, e, List.getElem?_cons_succ, List.head?_drop]

theorem ptrAt_last (l : List Nat) (m : Nat) (hm1 : 1 ≤ m) (hm2 : m ≤ l.length) :
    ptrAt l (m : Int) = (l.take m).getLast? := by
  unfold ptrAt
  have : ¬ (m : Int) < 0 := by omega
  have e : ((m : Int)).toNat = (m - 1) + 1 := by omega
  rw [if_neg this, e, List.getElem?_cons_succ, List.getLast?_take]
  have hm0 : m ≠ 0 := by omega
  rw [if_neg hm0]
  have : m - 1 < l.length := by omega
  rw [List.getElem?_eq_getElem this]
  rfl

theorem rangeByRankS_refines {s : SList} {l : List Nat} (hI : Inv s l) (start stop : Int) (reverse : Bool) :
    rangeByRankS s start stop reverse = some (rangeByRank (abs s) start stop reverse) := by
  unfold rangeByRankS rangeByRank
  simp only []
  rw [hI.len_abs]
  obtain ⟨_, hsome⟩ := normRange_spec (abs s) start stop
  have hlen : (abs s).length = l.length := by rw [hI.abs_eq, List.length_map]
  cases hnr : normRange ((abs s).length : Int) start stop with
  | none => rfl
  | some ab =>
    obtain ⟨a, b⟩ := ab
    obtain ⟨h0, hab, hbl, _⟩ := hsome a b hnr
    simp only []
    cases reverse with
    | false =>
      simp only [Bool.false_eq_true, if_false]
      have hw := walkFwd_spec hI (b - a + 1).toNat (l.take a.toNat) (l.drop a.toNat)
        (List.take_append_drop _ _).symm
      have habs : (l.drop a.toNat).map (nodeOf s) = (abs s).drop a.toNat := by
        rw [hI.abs_eq, List.map_drop]
      rw [habs] at hw
      by_cases ha : a > 0
      · obtain ⟨n, hn⟩ := getElementByRank_node (abs s) (a + 1) (by omega) (by omega)
        simp only [ha, if_true, hn, Option.bind_some]
        rw [getElementByRank_ptr hI, ptrAt_succ l a h0]
        simp only [Option.map_some]
        rw [hw]
      · have e0 : a.toNat = 0 := by omega
        simp only [ha, if_false, Option.bind_some, Option.map_some]
        rw [e0, List.drop_zero, List.drop_zero] at hw
        rw [hI.fwd0 (pre := []) (x := 0) (suf := l) rfl, hw]
    | true =>
      simp only [if_true]
      by_cases ha : a > 0
      · obtain ⟨n, hn⟩ := getElementByRank_node (abs s) (((abs s).length : Int) - a) (by omega) (by omega)
        have em : (((abs s).length : Int) - a) = ((l.length - a.toNat : Nat) : Int) := by omega
        have emn : (((abs s).length : Int) - a).toNat = l.length - a.toNat := by omega
        have hw := walkBwd_spec hI (b - a + 1).toNat (l.take (l.length - a.toNat)) (l.drop (l.length - a.toNat))
          (List.take_append_drop _ _).symm
        have habs : (l.take (l.length - a.toNat)).reverse.map (nodeOf s) =
            ((abs s).take (l.length - a.toNat)).reverse := by
          rw [hI.abs_eq, List.map_reverse, List.map_take]
        rw [habs] at hw
        simp only [ha, if_true, hn, Option.bind_some]
        rw [getElementByRank_ptr hI, em, ptrAt_last l _ (by omega) (by omega)]
        simp only [Option.map_some]
        rw [hw, Int.toNat_natCast]
      · have hw := walkBwd_spec hI (b - a + 1).toNat l [] (by simp)
        have habs : l.reverse.map (nodeOf s) = (abs s).reverse := by
          rw [hI.abs_eq, List.map_reverse]
        rw [habs] at hw
        simp only [ha, if_false, Option.bind_some, Option.map_some]
        rw [hI.tail, hw]

theorem rangeByScoreS_refines {s : SList} {l : List Nat} (hI : Inv s l) (min max : Int) (reverse : Bool) :
    rangeByScoreS s min max reverse = some (some (rangeByScore (abs s) min max reverse)) := by
  unfold rangeByScoreS rangeByScore
  by_cases hmm : min > max
  · simp [hmm]
  · simp only [hmm, if_false]
    have hroom : l.length < s.nodes.length := hI.room
    cases reverse with
    | true =>
      simp only [if_true]
      obtain ⟨p, hp1, hp2, hp3⟩ := lastInRange_refines hI min max
      rw [hp1, ← hp2]
      cases p with
      | none => rfl
      | some x =>
        obtain ⟨_, hlast⟩ := hp3 x rfl
        simp only [Option.map_some]
        have hsub : (l.takeWhile (fun y => decide ((nodeOf s y).score ≤ max))).length ≤ l.length :=
          (List.takeWhile_sublist _).length_le
        have hc := collect_bwd hI min max _ (l.takeWhile (fun y => decide ((nodeOf s y).score ≤ max)))
          (l.dropWhile (fun y => decide ((nodeOf s y).score ≤ max))) rfl
          (List.takeWhile_append_dropWhile).symm s.nodes.length (by omega)
        rw [hlast] at hc
        rw [hc, (abs_takeWhile hI (fun n => decide (n.score ≤ max))).1, List.map_reverse]
    | false =>
      simp only [Bool.false_eq_true, if_false]
      obtain ⟨p, hp1, hp2, hp3⟩ := firstInRange_refines hI min max
      rw [hp1, ← hp2]
      cases p with
      | none => rfl
      | some x =>
        obtain ⟨_, hfirst⟩ := hp3 x rfl
        simp only [Option.map_some]
        have hsub : (l.dropWhile (fun y => decide ((nodeOf s y).score < min))).length ≤ l.length :=
          (List.dropWhile_sublist _).length_le
        have hc := collect_fwd hI min max (l.dropWhile (fun y => decide ((nodeOf s y).score < min)))
          (l.takeWhile (fun y => decide ((nodeOf s y).score < min)))
          (List.takeWhile_append_dropWhile).symm s.nodes.length (by omega)
        rw [hfirst] at hc
        rw [hc, (abs_takeWhile hI (fun n => decide (n.score < min))).2]

end Fatchoy.C11
