/-
C05 helper lemmas: the heap scheduler's invariant, `tick` under it, one timer id followed through a tick.
-/
import Fatchoy.Lemmas.C05Heap
namespace Fatchoy.C05

structure HInv (s : HS) : Prop where
  sorted : HSorted s.heap
  front : FrontOK s.f (hids s.heap)

theorem HInv.nodup {s : HS} (h : HInv s) : (hids s.heap).Nodup := by
  have := h.front.nodup
  rw [List.nodup_append] at this
  exact this.2.1

theorem HInv.init (time : Nat) : HInv (HS.init time) :=
  ⟨List.Pairwise.nil, by simpa [HS.init, hids] using FrontOK.init⟩

def hhas (l : List HNode) (id D P : Nat) : Prop := ∃ n ∈ l, n.id = id ∧ n.deadline = D ∧ n.period = P

theorem mem_hids {l : List HNode} {i : Nat} : i ∈ hids l ↔ ∃ n ∈ l, n.id = i := by simp [hids]

theorem hhas_ids {l : List HNode} {id D P : Nat} (h : hhas l id D P) : id ∈ hids l := by
  obtain ⟨n, hn, rfl, _, _⟩ := h
  exact mem_hids.mpr ⟨n, hn, rfl⟩

theorem hfilter_id_singleton : ∀ (l : List HNode), (hids l).Nodup → ∀ n ∈ l,
    l.filter (fun m => m.id == n.id) = [n]
  | [], _, n, hn => by simp at hn
  | m :: l, hnd, n, hn => by
    simp only [hids, List.map_cons, List.nodup_cons] at hnd
    rcases List.mem_cons.mp hn with rfl | hn'
    · have : l.filter (fun m => m.id == n.id) = [] := by
        apply List.filter_eq_nil_iff.mpr
        intro x hx hxe
        simp only [beq_iff_eq] at hxe
        exact hnd.1 (hxe ▸ List.mem_map_of_mem (f := (·.id)) hx)
      simp [this]
    · have hne : ¬ (m.id = n.id) := by
        intro he
        exact hnd.1 (he ▸ List.mem_map_of_mem (f := (·.id)) hn')
      have ih := hfilter_id_singleton l hnd.2 n hn'
      simp [hne, ih]

theorem hfilter_id_nil (l : List HNode) (id : Nat) (h : id ∉ hids l) : l.filter (fun m => m.id == id) = [] := by
  apply List.filter_eq_nil_iff.mpr
  intro x hx hxe
  simp only [beq_iff_eq] at hxe
  exact h (hxe ▸ List.mem_map_of_mem (f := (·.id)) hx)

theorem hnodup_id_inj {l : List HNode} (hnd : (hids l).Nodup) {a b : HNode} (ha : a ∈ l) (hb : b ∈ l)
    (he : a.id = b.id) : a = b := by
  have h1 := hfilter_id_singleton l hnd a ha
  have h2 : b ∈ l.filter (fun m => m.id == a.id) := by simp [List.mem_filter, hb, he]
  rw [h1] at h2
  exact (List.mem_singleton.mp h2).symm

theorem hentries_batch (l : List HNode) (p : HNode → Bool) (t id : Nat) :
    entries ((((l.filter p).map (fun n => (t, n.id))).reverse)) id =
      (((l.filter (fun m => m.id == id)).filter p).map (fun n => (t, n.id))).reverse := by
  unfold entries
  rw [List.filter_reverse, List.filter_map]
  congr 2
  rw [List.filter_filter, List.filter_filter]
  apply List.filter_congr
  intro x _
  simp [Function.comp, Bool.and_comm]

namespace HS

theorem logAll_spec (t : Nat) : ∀ (l : List (Nat × Nat)) (f : Front),
    ((logAll f t l).log = (l.map (fun p => (t, p.1))).reverse ++ f.log ∧
      (logAll f t l).dues = (l.map (·.2)).reverse ++ f.dues) ∧ (logAll f t l).refer = f.refer ∧
    (logAll f t l).cancelled = f.cancelled ∧ (logAll f t l).addQ = f.addQ ∧ (logAll f t l).delQ = f.delQ ∧
    (logAll f t l).nextId = f.nextId
  | [], f => by simp [logAll]
  | i :: l, f => by
    obtain ⟨⟨h1, h1'⟩, h2, h3, h4, h5, h6⟩ := logAll_spec t l (f.deliver t i.1 i.2)
    simp only [logAll]
    refine ⟨⟨?_, ?_⟩, h2, h3, h4, h5, h6⟩
    · rw [h1]; simp [Front.deliver]
    · rw [h1']; simp [Front.deliver]

theorem logAll_front {l : List Nat} (t : Nat) : ∀ (is : List (Nat × Nat)) (f : Front), FrontOK f l → FrontOK (logAll f t is) l
  | [], _, h => h
  | i :: is, _, h => logAll_front t is _ (h.deliver t i.1 i.2)

theorem triggerLoop_front (now maxId : Nat) : ∀ (fuel : Nat) (s : HS) (acc : List (Nat × Nat)) (s' : HS) (acc' : List (Nat × Nat)),
    FrontOK s.f (hids s.heap) → triggerLoop now maxId fuel s acc = some (s', acc') → FrontOK s'.f (hids s'.heap) := by
  intro fuel
  induction fuel with
  | zero => intro s acc s' acc' _ hr; simp [triggerLoop] at hr
  | succ fuel ih =>
    intro s acc s' acc' h hr
    simp only [triggerLoop] at hr
    split at hr
    · simp only [Option.some.injEq, Prod.mk.injEq] at hr; obtain ⟨rfl, _⟩ := hr; exact h
    · rename_i n rest hh
      rw [hh] at h
      simp only [hids, List.map_cons] at h
      split at hr
      · simp only [Option.some.injEq, Prod.mk.injEq] at hr; obtain ⟨rfl, _⟩ := hr
        rw [hh]; exact h
      · split at hr
        · cases hr
        · split at hr
          · rename_i hc
            exact ih _ _ _ _ (h.unlink_cancelled hc) hr
          · split at hr
            · refine ih _ _ _ _ ?_ hr
              apply h.perm
              have := ((hinsert_perm (hrearm now n) rest).map (·.id)).symm
              exact this
            · exact ih _ _ _ _ h.unlink_oneshot hr

/-- `tick` under the invariant: it terminates, and its closed form -/
theorem tick_spec (s : HS) (h : HInv s) :
    ∃ s', tick s = some s' ∧ s'.now = s.now ∧ s'.f.cancelled = s.f.cancelled ∧ s'.f.addQ = s.f.addQ ∧
      s'.f.delQ = s.f.delQ ∧ s'.f.nextId = s.f.nextId ∧
      s'.heap.Perm (s.heap.filter (fun n => !hdue s.now n) ++
        (s.heap.filter (fun n => hdue s.now n && hlive s.f.cancelled n && decide (n.period > 0))).map (hrearm s.now)) ∧
      s'.f.refer = s.f.refer.filter (fun i =>
        !((s.heap.filter (fun n => hdue s.now n && hlive s.f.cancelled n && decide (n.period = 0))).map (·.id)).contains i) ∧
      (s'.f.log = ((s.heap.filter (fun n => hdue s.now n && hlive s.f.cancelled n)).map (fun n => (s.now, n.id))).reverse
        ++ s.f.log ∧
       s'.f.dues = ((s.heap.filter (fun n => hdue s.now n && hlive s.f.cancelled n)).map (·.deadline)).reverse
        ++ s.f.dues) ∧
      HInv s' := by
  have hid : ∀ n ∈ s.heap, n.id ≤ s.f.nextId := fun n hn => h.front.linked_le n.id (mem_hids.mpr ⟨n, hn, rfl⟩)
  have hf : (s.heap.filter (hdue s.now)).length < s.heap.length + 1 :=
    Nat.lt_succ_of_le (List.length_filter_le _ _)
  obtain ⟨s1, r0, r1, r2, r3, r4, r5, ⟨r6, r6'⟩, r7, r8, r9⟩ :=
    triggerLoop_spec s.now s.f.nextId (s.heap.length + 1) s [] h.sorted hid hf
  obtain ⟨⟨l1, l1'⟩, l2, l3, l4, l5, l6⟩ := logAll_spec s.now
    ((s.heap.filter (fun n => hdue s.now n && hlive s.f.cancelled n)).map (fun n => (n.id, n.deadline))) s1.f
  have hfr := triggerLoop_front _ _ _ _ _ _ _ h.front r0
  refine ⟨{ s1 with f := logAll s1.f s.now _ }, ?_, r1, l3.trans r2, l4.trans r3, l5.trans r4, l6.trans r5, r7,
    l2.trans r9, ⟨?_, ?_⟩, ⟨r8, logAll_front _ _ _ hfr⟩⟩
  · simp only [tick, r0, List.nil_append]
  · show (logAll s1.f s.now _).log = _
    rw [l1, r6, List.map_map]; rfl
  · show (logAll s1.f s.now _).dues = _
    rw [l1', r6', List.map_map]; rfl

end HS
end Fatchoy.C05

namespace Fatchoy.C05
namespace HS

section
variable (s s' : HS) (h : HInv s) (ht : tick s = some s')
include h ht

theorem tick_frame : s'.now = s.now ∧ s'.f.cancelled = s.f.cancelled ∧ s'.f.addQ = s.f.addQ ∧
    s'.f.delQ = s.f.delQ ∧ s'.f.nextId = s.f.nextId ∧ HInv s' := by
  obtain ⟨s1, r0, r1, r2, r3, r4, r5, _, _, _, r9⟩ := tick_spec s h
  rw [ht] at r0; cases r0
  exact ⟨r1, r2, r3, r4, r5, r9⟩

theorem mem_tick_heap (m : HNode) :
    m ∈ s'.heap ↔ (m ∈ s.heap ∧ s.now < m.deadline) ∨
      (∃ n ∈ s.heap, n.deadline ≤ s.now ∧ n.id ∉ s.f.cancelled ∧ n.period > 0 ∧ m = hrearm s.now n) := by
  obtain ⟨s1, r0, _, _, _, _, _, r6, _, _, _⟩ := tick_spec s h
  rw [ht] at r0; cases r0
  rw [r6.mem_iff]
  simp only [List.mem_append, List.mem_filter, List.mem_map, hdue, hlive, Bool.and_eq_true, decide_eq_true_eq,
    Bool.not_eq_true', decide_eq_false_iff_not, Nat.not_le]
  constructor
  · rintro (⟨a, b⟩ | ⟨n, ⟨hn, ⟨hd, hl⟩, hp⟩, rfl⟩)
    · exact .inl ⟨a, b⟩
    · exact .inr ⟨n, hn, hd, hl, hp, rfl⟩
  · rintro (⟨a, b⟩ | ⟨n, hn, hd, hl, hp, rfl⟩)
    · exact .inl ⟨a, b⟩
    · exact .inr ⟨n, ⟨hn, ⟨hd, hl⟩, hp⟩, rfl⟩

theorem mem_tick_refer (i : Nat) :
    i ∈ s'.f.refer ↔ i ∈ s.f.refer ∧
      ¬ ∃ n ∈ s.heap, n.id = i ∧ n.deadline ≤ s.now ∧ n.id ∉ s.f.cancelled ∧ n.period = 0 := by
  obtain ⟨s1, r0, _, _, _, _, _, _, r7, _, _⟩ := tick_spec s h
  rw [ht] at r0; cases r0
  rw [r7]
  simp only [List.mem_filter, Bool.not_eq_true', List.contains_eq_mem, decide_eq_false_iff_not, List.mem_map,
    hdue, hlive, Bool.and_eq_true, decide_eq_true_eq]
  constructor
  · rintro ⟨a, b⟩
    refine ⟨a, ?_⟩
    rintro ⟨n, hn, hi, hd, hl, hp⟩
    exact b ⟨n, ⟨hn, ⟨hd, hl⟩, hp⟩, hi⟩
  · rintro ⟨a, b⟩
    refine ⟨a, ?_⟩
    rintro ⟨n, ⟨hn, ⟨hd, hl⟩, hp⟩, hi⟩
    exact b ⟨n, hn, hi, hd, hl, hp⟩

theorem tick_log_entries (id : Nat) :
    entries s'.f.log id =
      (((s.heap.filter (fun m => m.id == id)).filter (fun n => hdue s.now n && hlive s.f.cancelled n)).map
        (fun n => (s.now, n.id))).reverse ++ entries s.f.log id := by
  obtain ⟨s1, r0, _, _, _, _, _, _, _, ⟨r8, _⟩, _⟩ := tick_spec s h
  rw [ht] at r0; cases r0
  rw [r8, entries_append, hentries_batch]

/-- a timer that is not due yet is untouched by a tick -/
theorem tick_keep (id D P : Nat) (hh : hhas s.heap id D P) (hD : s.now < D) :
    hhas s'.heap id D P ∧ entries s'.f.log id = entries s.f.log id ∧ (id ∈ s'.f.refer ↔ id ∈ s.f.refer) := by
  obtain ⟨n, hn, rfl, rfl, rfl⟩ := hh
  refine ⟨⟨n, (mem_tick_heap s s' h ht n).mpr (.inl ⟨hn, hD⟩), rfl, rfl, rfl⟩, ?_, ?_⟩
  · rw [tick_log_entries s s' h ht, hfilter_id_singleton _ h.nodup n hn]
    have : hdue s.now n = false := by simp only [hdue, decide_eq_false_iff_not]; omega
    simp [this]
  · rw [mem_tick_refer s s' h ht]
    constructor
    · exact fun x => x.1
    · intro x
      refine ⟨x, ?_⟩
      rintro ⟨m, hm, hi, hd, _, _⟩
      have := hnodup_id_inj h.nodup hm hn hi
      subst this
      omega

/-- a one-shot timer that is due and not cancelled is delivered (once, logged at the tick's time) and
leaves heap and table -/
theorem tick_oneshot (id D : Nat) (hh : hhas s.heap id D 0) (hD : D ≤ s.now) (hl : id ∉ s.f.cancelled) :
    id ∉ hids s'.heap ∧ id ∉ s'.f.refer ∧ entries s'.f.log id = (s.now, id) :: entries s.f.log id := by
  obtain ⟨n, hn, rfl, hd, hp⟩ := hh
  refine ⟨?_, ?_, ?_⟩
  · rw [mem_hids]
    rintro ⟨m, hm, hi⟩
    rcases (mem_tick_heap s s' h ht m).mp hm with ⟨hm', hmd⟩ | ⟨n', hn', _, _, hp', rfl⟩
    · have := hnodup_id_inj h.nodup hm' hn hi
      subst this
      omega
    · have := hnodup_id_inj h.nodup hn' hn hi
      subst this
      omega
  · rw [mem_tick_refer s s' h ht]
    rintro ⟨_, hx⟩
    exact hx ⟨n, hn, rfl, by omega, hl, hp⟩
  · rw [tick_log_entries s s' h ht, hfilter_id_singleton _ h.nodup n hn]
    have h1 : hdue s.now n = true := by simp only [hdue, decide_eq_true_eq]; omega
    have h2 : hlive s.f.cancelled n = true := by simp [hlive, hl]
    simp [h1, h2]

/-- a periodic timer that is due and not cancelled is delivered once and re-armed one period after the tick -/
theorem tick_periodic (id D P : Nat) (hh : hhas s.heap id D P) (hP : P > 0) (hD : D ≤ s.now) (hl : id ∉ s.f.cancelled) :
    hhas s'.heap id (s.now + P) P ∧ entries s'.f.log id = (s.now, id) :: entries s.f.log id ∧
    (id ∈ s'.f.refer ↔ id ∈ s.f.refer) := by
  obtain ⟨n, hn, rfl, hd, rfl⟩ := hh
  refine ⟨⟨hrearm s.now n, (mem_tick_heap s s' h ht _).mpr (.inr ⟨n, hn, by omega, hl, hP, rfl⟩), rfl, rfl, rfl⟩, ?_, ?_⟩
  · rw [tick_log_entries s s' h ht, hfilter_id_singleton _ h.nodup n hn]
    have h1 : hdue s.now n = true := by simp only [hdue, decide_eq_true_eq]; omega
    have h2 : hlive s.f.cancelled n = true := by simp [hlive, hl]
    simp [h1, h2]
  · rw [mem_tick_refer s s' h ht]
    constructor
    · exact fun x => x.1
    · intro x
      refine ⟨x, ?_⟩
      rintro ⟨m, hm, hi, _, _, hp⟩
      have := hnodup_id_inj h.nodup hm hn hi
      subst this
      omega

/-- a cancelled timer is never delivered by a tick -/
theorem tick_cancelled (id D P : Nat) (hh : hhas s.heap id D P) (hl : id ∈ s.f.cancelled) :
    entries s'.f.log id = entries s.f.log id ∧ (id ∈ s'.f.refer ↔ id ∈ s.f.refer) := by
  obtain ⟨n, hn, rfl, rfl, rfl⟩ := hh
  refine ⟨?_, ?_⟩
  · rw [tick_log_entries s s' h ht, hfilter_id_singleton _ h.nodup n hn]
    have h2 : hlive s.f.cancelled n = false := by simp [hlive, hl]
    simp [h2]
  · rw [mem_tick_refer s s' h ht]
    constructor
    · exact fun x => x.1
    · intro x
      refine ⟨x, ?_⟩
      rintro ⟨m, hm, hi, _, hl', _⟩
      have := hnodup_id_inj h.nodup hm hn hi
      subst this
      exact hl' hl

/-- an id that is not in the heap is not affected by a tick -/
theorem tick_absent (id : Nat) (hh : id ∉ hids s.heap) :
    id ∉ hids s'.heap ∧ entries s'.f.log id = entries s.f.log id ∧ (id ∈ s'.f.refer ↔ id ∈ s.f.refer) := by
  refine ⟨?_, ?_, ?_⟩
  · rw [mem_hids]
    rintro ⟨m, hm, hi⟩
    rcases (mem_tick_heap s s' h ht m).mp hm with ⟨hm', _⟩ | ⟨n', hn', _, _, _, rfl⟩
    · exact hh (mem_hids.mpr ⟨m, hm', hi⟩)
    · exact hh (mem_hids.mpr ⟨n', hn', hi⟩)
  · rw [tick_log_entries s s' h ht, hfilter_id_nil _ _ hh]
    simp
  · rw [mem_tick_refer s s' h ht]
    constructor
    · exact fun x => x.1
    · intro x
      refine ⟨x, ?_⟩
      rintro ⟨m, hm, hi, _⟩
      exact hh (mem_hids.mpr ⟨m, hm, hi⟩)

end

end HS
end Fatchoy.C05
