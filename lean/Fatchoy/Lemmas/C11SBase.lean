/-
C11, structural skip list S: table access (what `setCell`, `setBwd` and appending a node change), the
"next node of height > i" functions on a chain suffix, and the invariant `Inv s l` — `l` is the list of
node ids along level 0 — from which every pointer and every span is determined.
-/
import Fatchoy.Model.C11S
import Fatchoy.Lemmas.C11L
namespace Fatchoy.C11.S

/-! ### table access -/

theorem nd_eq (s : SList) (x : Nat) : nd s x = (s.nodes[x]?).getD SNode.dflt := by
  unfold nd; rw [List.getD_eq_getElem?_getD]

theorem nd_set (s : SList) (x : Nat) (n : SNode) (t : SList) (ht : t.nodes = s.nodes.set x n) (y : Nat) :
    nd t y = if y = x ∧ x < s.nodes.length then n else nd s y := by
  rw [nd_eq, nd_eq, ht, List.getElem?_set]
  by_cases h : x = y
  · subst h
    by_cases hx : x < s.nodes.length
    · simp [hx]
    · simp only [hx, and_false, if_false]
      rw [List.getElem?_eq_none (by omega)]
      simp
  · have : ¬ (y = x ∧ x < s.nodes.length) := fun hh => h hh.1.symm
    simp [h, this]

theorem nd_setCell (s : SList) (x i : Nat) (c : Lvl) (y : Nat) :
    nd (setCell s x i c) y =
      if y = x ∧ x < s.nodes.length then { nd s x with lv := (nd s x).lv.set i c } else nd s y :=
  nd_set s x _ _ rfl y

theorem nd_setBwd (s : SList) (x : Nat) (b : Option Nat) (y : Nat) :
    nd (setBwd s x b) y = if y = x ∧ x < s.nodes.length then { nd s x with bwd := b } else nd s y :=
  nd_set s x _ _ rfl y

@[simp] theorem height_setCell (s : SList) (x i : Nat) (c : Lvl) (y : Nat) :
    height (setCell s x i c) y = height s y := by
  unfold height
  rw [nd_setCell]
  split
  · rename_i h; rw [h.1]; simp
  · rfl

@[simp] theorem height_setBwd (s : SList) (x : Nat) (b : Option Nat) (y : Nat) :
    height (setBwd s x b) y = height s y := by
  unfold height
  rw [nd_setBwd]
  split
  · rename_i h; rw [h.1]
  · rfl

@[simp] theorem key_setCell (s : SList) (x i : Nat) (c : Lvl) (y : Nat) :
    nodeOf (setCell s x i c) y = nodeOf s y := by
  unfold nodeOf SNode.key
  rw [nd_setCell]
  split
  · rename_i h; rw [h.1]
  · rfl

@[simp] theorem key_setBwd (s : SList) (x : Nat) (b : Option Nat) (y : Nat) :
    nodeOf (setBwd s x b) y = nodeOf s y := by
  unfold nodeOf SNode.key
  rw [nd_setBwd]
  split
  · rename_i h; rw [h.1]
  · rfl

@[simp] theorem bwd_setCell (s : SList) (x i : Nat) (c : Lvl) (y : Nat) :
    (nd (setCell s x i c) y).bwd = (nd s y).bwd := by
  rw [nd_setCell]
  split
  · rename_i h; rw [h.1]
  · rfl

theorem bwd_setBwd (s : SList) (x : Nat) (b : Option Nat) (y : Nat) :
    (nd (setBwd s x b) y).bwd = if y = x ∧ x < s.nodes.length then b else (nd s y).bwd := by
  rw [nd_setBwd]
  split <;> rfl

@[simp] theorem cell_setBwd (s : SList) (x : Nat) (b : Option Nat) (y j : Nat) :
    cell (setBwd s x b) y j = cell s y j := by
  unfold cell
  rw [nd_setBwd]
  split
  · rename_i h; rw [h.1]
  · rfl

theorem cell_setCell (s : SList) (x i : Nat) (c : Lvl) (y j : Nat) :
    cell (setCell s x i c) y j =
      if y = x ∧ j = i ∧ x < s.nodes.length ∧ i < height s x then c else cell s y j := by
  unfold cell
  rw [nd_setCell]
  by_cases h1 : y = x ∧ x < s.nodes.length
  · rw [if_pos h1]
    obtain ⟨hy, hx⟩ := h1
    subst hy
    simp only [List.getD_eq_getElem?_getD, List.getElem?_set, height]
    by_cases hj : i = j
    · subst hj
      by_cases hi : i < (nd s y).lv.length
      · simp [hi, hx]
      · simp only [hi, if_false, and_false]
        rw [List.getElem?_eq_none (by omega)]
        simp
    · have : ¬ (True ∧ j = i ∧ y < s.nodes.length ∧ i < (nd s y).lv.length) := fun hh => hj hh.2.1.symm
      simp [hj, this]
  · rw [if_neg h1]
    have : ¬ (y = x ∧ j = i ∧ x < s.nodes.length ∧ i < height s x) := fun hh => h1 ⟨hh.1, hh.2.2.1⟩
    rw [if_neg this]

theorem cell_setCell_self (s : SList) (x i : Nat) (c : Lvl) (hx : x < s.nodes.length)
    (hi : i < height s x) : cell (setCell s x i c) x i = c := by
  rw [cell_setCell]; simp [hx, hi]

theorem cell_setCell_ne (s : SList) (x i : Nat) (c : Lvl) (y j : Nat) (h : y ≠ x ∨ j ≠ i) :
    cell (setCell s x i c) y j = cell s y j := by
  rw [cell_setCell]
  have : ¬ (y = x ∧ j = i ∧ x < s.nodes.length ∧ i < height s x) := by
    intro hh; rcases h with h | h
    · exact h hh.1
    · exact h hh.2.1
  rw [if_neg this]

@[simp] theorem size_setCell (s : SList) (x i : Nat) (c : Lvl) :
    (setCell s x i c).nodes.length = s.nodes.length := by simp [setCell]
@[simp] theorem size_setBwd (s : SList) (x : Nat) (b : Option Nat) :
    (setBwd s x b).nodes.length = s.nodes.length := by simp [setBwd]
@[simp] theorem tail_setCell (s : SList) (x i : Nat) (c : Lvl) : (setCell s x i c).tail = s.tail := rfl
@[simp] theorem tail_setBwd (s : SList) (x : Nat) (b : Option Nat) : (setBwd s x b).tail = s.tail := rfl
@[simp] theorem len_setCell (s : SList) (x i : Nat) (c : Lvl) : (setCell s x i c).length = s.length := rfl
@[simp] theorem len_setBwd (s : SList) (x : Nat) (b : Option Nat) : (setBwd s x b).length = s.length := rfl
@[simp] theorem level_setCell (s : SList) (x i : Nat) (c : Lvl) : (setCell s x i c).level = s.level := rfl
@[simp] theorem level_setBwd (s : SList) (x : Nat) (b : Option Nat) : (setBwd s x b).level = s.level := rfl

/-- appending a node to the table -/
theorem nd_push (s : SList) (n : SNode) (t : SList) (ht : t.nodes = s.nodes ++ [n]) (y : Nat) :
    nd t y = if y = s.nodes.length then n else nd s y := by
  rw [nd_eq, nd_eq, ht]
  by_cases h : y = s.nodes.length
  · subst h; simp
  · rw [if_neg h]
    by_cases h2 : y < s.nodes.length
    · rw [List.getElem?_append_left h2]
    · rw [List.getElem?_eq_none (by simp; omega), List.getElem?_eq_none (by omega)]

/-! ### the next node of height > i in a chain suffix, and its distance -/

/-- node `y` takes part in level `i` -/
def up (s : SList) (i : Nat) (y : Nat) : Bool := decide (i < height s y)

/-- the first node of the suffix that takes part in level `i` -/
def nxt (s : SList) (i : Nat) : List Nat → Option Nat
  | [] => none
  | y :: l => if up s i y then some y else nxt s i l

/-- how far it is (in level-0 steps); if there is none, the length of the suffix -/
def dst (s : SList) (i : Nat) : List Nat → Int
  | [] => 0
  | y :: l => if up s i y then 1 else 1 + dst s i l

theorem nxt_append_none {s : SList} {i : Nat} {l1 : List Nat} (h : ∀ a ∈ l1, up s i a = false)
    (l2 : List Nat) : nxt s i (l1 ++ l2) = nxt s i l2 ∧ dst s i (l1 ++ l2) = l1.length + dst s i l2 := by
  induction l1 with
  | nil => simp
  | cons a r ih =>
    have ha := h a List.mem_cons_self
    obtain ⟨h1, h2⟩ := ih (fun b hb => h b (List.mem_cons_of_mem _ hb))
    simp only [List.cons_append, nxt, dst, ha, Bool.false_eq_true, if_false, h1, h2, List.length_cons]
    exact ⟨trivial, by omega⟩

theorem nxt_none {s : SList} {i : Nat} {l : List Nat} (h : ∀ a ∈ l, up s i a = false) :
    nxt s i l = none ∧ dst s i l = l.length := by
  have := nxt_append_none h []
  simpa [nxt, dst] using this

theorem nxt_eq_none_iff {s : SList} {i : Nat} {l : List Nat} :
    nxt s i l = none ↔ ∀ a ∈ l, up s i a = false := by
  induction l with
  | nil => simp [nxt]
  | cons a r ih =>
    simp only [nxt, List.mem_cons, forall_eq_or_imp]
    cases ha : up s i a <;> simp [ih]

theorem nxt_some_split {s : SList} {i : Nat} {l : List Nat} {f : Nat} (h : nxt s i l = some f) :
    ∃ l1 l2, l = l1 ++ f :: l2 ∧ (∀ a ∈ l1, up s i a = false) ∧ up s i f = true ∧
      dst s i l = l1.length + 1 := by
  induction l with
  | nil => simp [nxt] at h
  | cons a r ih =>
    simp only [nxt] at h
    cases ha : up s i a with
    | true =>
      simp only [ha, if_true, Option.some.injEq] at h
      subst h
      exact ⟨[], r, rfl, by simp, ha, by simp [dst, ha]⟩
    | false =>
      simp only [ha, Bool.false_eq_true, if_false] at h
      obtain ⟨l1, l2, h1, h2, h3, h4⟩ := ih h
      refine ⟨a :: l1, l2, by rw [h1]; rfl, ?_, h3, ?_⟩
      · intro b hb
        rcases List.mem_cons.mp hb with hb | hb
        · rw [hb]; exact ha
        · exact h2 b hb
      · simp only [dst, ha, Bool.false_eq_true, if_false, h4, List.length_cons]
        omega

theorem nxt_append_some {s : SList} {i : Nat} {l1 : List Nat} {a : Nat} (ha : a ∈ l1)
    (hu : up s i a = true) (l2 : List Nat) :
    nxt s i (l1 ++ l2) = nxt s i l1 ∧ dst s i (l1 ++ l2) = dst s i l1 := by
  induction l1 with
  | nil => cases ha
  | cons b r ih =>
    simp only [List.cons_append, nxt, dst]
    cases hb : up s i b with
    | true => simp
    | false =>
      simp only [Bool.false_eq_true, if_false]
      have : a ∈ r := by
        rcases List.mem_cons.mp ha with h | h
        · rw [h, hb] at hu; cases hu
        · exact h
      obtain ⟨h1, h2⟩ := ih this
      rw [h1, h2]
      exact ⟨rfl, rfl⟩

theorem nxt_congr {s t : SList} {i : Nat} {l : List Nat} (h : ∀ a ∈ l, up t i a = up s i a) :
    nxt t i l = nxt s i l ∧ dst t i l = dst s i l := by
  induction l with
  | nil => exact ⟨rfl, rfl⟩
  | cons a r ih =>
    obtain ⟨h1, h2⟩ := ih (fun b hb => h b (List.mem_cons_of_mem _ hb))
    simp only [nxt, dst, h a List.mem_cons_self, h1, h2]
    exact ⟨trivial, trivial⟩

theorem dst_nonneg (s : SList) (i : Nat) (l : List Nat) : 0 ≤ dst s i l := by
  induction l with
  | nil => simp [dst]
  | cons a r ih => simp only [dst]; split <;> omega

/-! ### the invariant -/

/-- `l` lists the node ids along level 0, and the table is exactly what that chain and the tower
  heights determine: at every level `i` a node's forward pointer is the next node of height > i and
  its span is the level-0 distance to it (a link without successor spans the rest of the list);
  backward pointers, tail, length and level fit; the content is strictly sorted by (score, member). -/
structure Inv (s : SList) (l : List Nat) : Prop where
  nodup : (0 :: l).Nodup
  valid : ∀ x ∈ l, x < s.nodes.length
  room : l.length < s.nodes.length
  level_pos : 1 ≤ s.level
  level_le : s.level ≤ height s 0
  hgt : ∀ x ∈ l, 1 ≤ height s x ∧ height s x ≤ s.level
  cells : ∀ pre x suf, 0 :: l = pre ++ x :: suf → ∀ i, i < height s x →
    (cell s x i).fwd = nxt s i suf ∧ (i < s.level → (cell s x i).span = dst s i suf)
  bwd : ∀ pre x suf, l = pre ++ x :: suf → (nd s x).bwd = pre.getLast?
  tail : s.tail = l.getLast?
  len : s.length = l.length
  sorted : Sorted (l.map (nodeOf s))
  top : 1 < s.level → (cell s 0 (s.level - 1)).fwd ≠ none

theorem Inv.ne_zero {s : SList} {l : List Nat} (h : Inv s l) {x : Nat} (hx : x ∈ l) : x ≠ 0 := by
  intro h0
  have := h.nodup
  rw [List.nodup_cons] at this
  exact this.1 (h0 ▸ hx)

theorem Inv.head_valid {s : SList} {l : List Nat} (h : Inv s l) : 0 < s.nodes.length := by
  have := h.room; omega

/-- the first level-0 pointer of a chain position -/
theorem Inv.fwd0 {s : SList} {l : List Nat} (h : Inv s l) {pre : List Nat} {x : Nat} {suf : List Nat}
    (hs : 0 :: l = pre ++ x :: suf) : (cell s x 0).fwd = suf.head? := by
  have hx : 0 < height s x := by
    cases pre with
    | nil =>
      simp only [List.nil_append, List.cons.injEq] at hs
      rw [← hs.1]
      have := h.level_pos; have := h.level_le; omega
    | cons p pre' =>
      simp only [List.cons_append, List.cons.injEq] at hs
      have : x ∈ l := by rw [hs.2]; simp
      have := (h.hgt x this).1; omega
  have := (h.cells pre x suf hs 0 hx).1
  rw [this]
  cases suf with
  | nil => rfl
  | cons y r =>
    have hy : y ∈ l := by
      cases pre with
      | nil => simp only [List.nil_append, List.cons.injEq] at hs; rw [hs.2]; simp
      | cons p pre' => simp only [List.cons_append, List.cons.injEq] at hs; rw [hs.2]; simp
    have := (h.hgt y hy).1
    simp [nxt, up]; omega

/-- following the level-0 pointers recovers the chain -/
theorem chainFrom_eq {s : SList} {l : List Nat} (h : Inv s l) (pre : List Nat) (x : Nat) (suf : List Nat)
    (hs : 0 :: l = pre ++ x :: suf) (fuel : Nat) (hf : suf.length ≤ fuel) :
    chainFrom s fuel (cell s x 0).fwd = suf := by
  induction suf generalizing pre x fuel with
  | nil =>
    rw [h.fwd0 hs]
    cases fuel <;> rfl
  | cons y r ih =>
    rw [h.fwd0 hs]
    cases fuel with
    | zero => simp at hf
    | succ fuel =>
      simp only [List.head?_cons, chainFrom]
      rw [ih (pre ++ [x]) y (by rw [hs]; simp) fuel (by simpa using hf)]

theorem Inv.ids_eq {s : SList} {l : List Nat} (h : Inv s l) : ids s = l := by
  unfold ids
  exact chainFrom_eq h [] 0 l rfl _ (by have := h.room; omega)

theorem Inv.abs_eq {s : SList} {l : List Nat} (h : Inv s l) : abs s = l.map (nodeOf s) := by
  unfold abs; rw [h.ids_eq]

/-- the structural invariant of a skip list state -/
def SOk (s : SList) : Prop := Inv s (ids s)

theorem SOk_of_inv {s : SList} {l : List Nat} (h : Inv s l) : SOk s := by
  unfold SOk; rw [h.ids_eq]; exact h

theorem inv_new (ml : Nat) (h : 1 ≤ ml) : Inv (new ml) [] := by
  refine ⟨by simp, by simp, by simp [new], by simp [new], ?_, by simp, ?_, ?_, rfl, rfl, ?_, by simp [new]⟩
  · simp [new, height, nd]; exact h
  · intro pre x suf hs i hi
    have : pre = [] ∧ x = 0 ∧ suf = [] := by
      cases pre with
      | nil => simp at hs; exact ⟨rfl, hs.1.symm, hs.2⟩
      | cons p r => simp at hs
    obtain ⟨_, hx, hsuf⟩ := this
    subst hx; subst hsuf
    simp only [height, nd, new, List.getD_cons_zero, List.length_replicate] at hi
    simp [cell, nd, new, nxt, dst, List.getD_eq_getElem?_getD, hi, Lvl.nil]
  · intro pre x suf hs
    simp at hs
  · exact List.Pairwise.nil

end Fatchoy.C11.S
