import Fatchoy.Model.ConnStart
/-! Invariant of the start-up LTS for the order of the code (`addInside = false`). -/
namespace Fatchoy.ConnStart

/-- 1 while the pump is registered in the wait group (spawned … before its `wg.Done()`) -/
def PumpPc.live (p : PumpPc) : Int := if p = .notSpawned ∨ p = .exited then 0 else 1

def GoPc.pendW (g : GoPc) : Int := if g = .wAdded then 1 else 0
def GoPc.pendR (g : GoPc) : Int := if g = .rAdded then 1 else 0

structure Inv (s : State) : Prop where
  /-- the wait-group counter = pumps alive + increments of `Go` whose `go` statement is still to come -/
  count : s.wg = s.wPc.live + s.rPc.live + s.goPc.pendW + s.goPc.pendR
  /-- after `Go` returned exactly the selected pumps were spawned -/
  selW : (s.goPc = .wDone ∨ s.goPc = .rAdded ∨ s.goPc = .returned) → (s.wPc = .notSpawned ↔ s.wFlag = false)
  selR : s.goPc = .returned → (s.rPc = .notSpawned ↔ s.rFlag = false)
  /-- a pump is spawned by its `go` statement only -/
  earlyW : (s.goPc = .notCalled ∨ s.goPc = .casDone ∨ s.goPc = .wAdded) → s.wPc = .notSpawned
  earlyR : s.goPc ≠ .returned → s.rPc = .notSpawned
  addedW : s.goPc = .wAdded → s.wFlag = true
  addedR : s.goPc = .rAdded → s.rFlag = true
  closerGo : s.closer ≠ .idle → s.goPc = .returned
  stRun : s.st = .running → s.closer = .idle
  doneC : s.done = true → s.closer ≠ .idle
  qC : s.qClosed = true → s.closer ≠ .idle
  wLate : (s.wPc = .flushing ∨ s.wPc = .flushed ∨ s.wPc = .exited) → s.closer ≠ .idle
  wEmpty : (s.wPc = .flushed ∨ s.wPc = .exited) → s.queue = []
  fifo : s.accepted = s.wire ++ s.queue
  waitW : waitReturned s → (s.wPc = .notSpawned ∨ s.wPc = .exited)
  waitR : waitReturned s → (s.rPc = .notSpawned ∨ s.rPc = .exited)
  rNoFlushed : s.rPc ≠ .flushed

theorem inv_init : Inv init := by
  constructor <;> simp [init, PumpPc.live, GoPc.pendW, GoPc.pendR, waitReturned]

set_option maxHeartbeats 1000000 in
theorem step_inv {cfg : Cfg} (hc : cfg.addInside = false) {s s' : State} {a : Action}
    (hi : Inv s) (h : step cfg s a = some s') : Inv s' := by
  obtain ⟨st, wg, goPc, wFlag, rFlag, wPc, rPc, closer, done, qClosed, queue, wire, accepted⟩ := s
  obtain ⟨count, selW, selR, earlyW, earlyR, addedW, addedR, closerGo, stRun, doneC, qC, wLate, wEmpty, fifo, waitW, waitR, rNF⟩ := hi
  simp only [waitReturned, PumpPc.live, GoPc.pendW, GoPc.pendR] at *
  cases a <;> simp only [step, hc] at h
  all_goals (try split at h) 
  all_goals (try split at h) 
  all_goals (first | (cases h; done) | skip)
  all_goals (cases h; constructor <;> simp only [waitReturned, PumpPc.live, GoPc.pendW, GoPc.pendR] <;> grind)

theorem run_inv {cfg : Cfg} (hc : cfg.addInside = false) : ∀ (acts : List Action) {s s' : State},
    Inv s → run cfg s acts = some s' → Inv s'
  | [], s, s', hi, h => by simp only [run, Option.some.injEq] at h; exact h ▸ hi
  | a :: as, s, s', hi, h => by
    simp only [run] at h
    split at h
    · next s1 h1 => exact run_inv hc as (step_inv hc hi h1) h
    · cases h

theorem inv_reachable {cfg : Cfg} (hc : cfg.addInside = false) {s : State} (h : Reachable cfg s) : Inv s := by
  obtain ⟨acts, h⟩ := h
  exact run_inv hc acts inv_init h

end Fatchoy.ConnStart
