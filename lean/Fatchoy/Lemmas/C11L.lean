/-
C11, layer L: the order on nodes, generic list facts, and what every skip-list primitive computes on a
strictly sorted content list.
-/
import Fatchoy.Model.C11Spec
namespace Fatchoy.C11

/-! ### the order -/

theorem Node.lt_iff (a b : Node) :
    a.lt b = true ↔ a.score < b.score ∨ (a.score = b.score ∧ a.ele < b.ele) := by
  simp [Node.lt]

theorem Node.le_iff (a b : Node) :
    a.le b = true ↔ a.score < b.score ∨ (a.score = b.score ∧ a.ele ≤ b.ele) := by
  simp [Node.le]

theorem Node.ext_iff' (a b : Node) : a = b ↔ a.score = b.score ∧ a.ele = b.ele := by
  cases a; cases b; simp

theorem Node.lt_irrefl (a : Node) : a.lt a = false := by
  cases h : a.lt a
  · rfl
  · rw [Node.lt_iff] at h; omega

theorem Node.lt_trans {a b c : Node} (h1 : a.lt b = true) (h2 : b.lt c = true) : a.lt c = true := by
  rw [Node.lt_iff] at *; omega

theorem Node.le_of_lt {a b : Node} (h : a.lt b = true) : a.le b = true := by
  rw [Node.lt_iff] at h; rw [Node.le_iff]; omega

theorem Node.le_refl (a : Node) : a.le a = true := by rw [Node.le_iff]; omega

theorem Node.not_le_of_lt {a b : Node} (h : a.lt b = true) : b.le a = false := by
  cases h' : b.le a
  · rfl
  · rw [Node.lt_iff] at h; rw [Node.le_iff] at h'; omega

theorem Node.not_lt_of_lt {a b : Node} (h : a.lt b = true) : b.lt a = false := by
  cases h' : b.lt a
  · rfl
  · rw [Node.lt_iff] at h h'; omega

theorem Node.le_antisymm {a b : Node} (h1 : a.le b = true) (h2 : b.le a = true) : a = b := by
  rw [Node.le_iff] at h1 h2
  rw [Node.ext_iff']; omega

theorem Node.le_trans {a b c : Node} (h1 : a.le b = true) (h2 : b.le c = true) : a.le c = true := by
  rw [Node.le_iff] at *; omega

theorem Node.le_total (a b : Node) : (a.le b || b.le a) = true := by
  rw [Bool.or_eq_true, Node.le_iff, Node.le_iff]; omega

theorem Node.lt_of_le_of_ne {a b : Node} (h : a.le b = true) (hne : a ≠ b) : a.lt b = true := by
  rw [Node.le_iff] at h
  rw [Node.lt_iff]
  rw [Ne, Node.ext_iff'] at hne
  omega

theorem Node.lt_or_eq_or_gt (a b : Node) : a.lt b = true ∨ a = b ∨ b.lt a = true := by
  rw [Node.lt_iff, Node.lt_iff, Node.ext_iff']; omega

theorem Node.score_le_of_lt {a b : Node} (h : a.lt b = true) : a.score ≤ b.score := by
  rw [Node.lt_iff] at h; omega

/-- strictly ascending by (score, member): the shape of every reachable skip list -/
def Sorted (l : SL) : Prop := l.Pairwise (fun a b => a.lt b = true)

theorem Sorted.sublist {l l' : SL} (h : Sorted l) (hs : l'.Sublist l) : Sorted l' :=
  List.Pairwise.sublist hs h

theorem Sorted.nodup {l : SL} (h : Sorted l) : l.Nodup :=
  h.imp (fun {a b} hab heq => by rw [heq, Node.lt_irrefl] at hab; cases hab)

theorem Sorted.pairwise_le {l : SL} (h : Sorted l) : l.Pairwise (fun a b => a.le b = true) :=
  h.imp Node.le_of_lt

/-! ### generic list facts -/

theorem takeWhile_eq_filter {α : Type} (p : α → Bool) {l : List α}
    (h : l.Pairwise (fun a b => p b = true → p a = true)) : l.takeWhile p = l.filter p := by
  induction l with
  | nil => rfl
  | cons a rest ih =>
    rw [List.pairwise_cons] at h
    by_cases hp : p a = true
    · rw [List.takeWhile_cons_of_pos hp, List.filter_cons_of_pos hp, ih h.2]
    · rw [List.takeWhile_cons_of_neg hp, List.filter_cons_of_neg hp]
      symm
      rw [List.filter_eq_nil_iff]
      intro b hb hpb
      exact hp (h.1 b hb hpb)

theorem dropWhile_eq_filter_not {α : Type} (p : α → Bool) {l : List α}
    (h : l.Pairwise (fun a b => p b = true → p a = true)) : l.dropWhile p = l.filter (fun a => !p a) := by
  induction l with
  | nil => rfl
  | cons a rest ih =>
    rw [List.pairwise_cons] at h
    by_cases hp : p a = true
    · rw [List.dropWhile_cons_of_pos hp, List.filter_cons_of_neg (by simp [hp]), ih h.2]
    · rw [List.dropWhile_cons_of_neg hp]
      symm
      rw [List.filter_eq_self]
      intro b hb
      rcases List.mem_cons.mp hb with hb | hb
      · subst hb; simpa using hp
      · have : ¬ p b = true := fun hpb => hp (h.1 b hb hpb)
        simpa using this

theorem mem_takeWhile_imp {α : Type} {p : α → Bool} {l : List α} {a : α} (h : a ∈ l.takeWhile p) :
    p a = true := by
  induction l with
  | nil => cases h
  | cons x rest ih =>
    by_cases hx : p x = true
    · rw [List.takeWhile_cons_of_pos hx] at h
      rcases List.mem_cons.mp h with h | h
      · rw [h]; exact hx
      · exact ih h
    · rw [List.takeWhile_cons_of_neg hx] at h; cases h

theorem getLast?_append_ne_nil {α : Type} (l l' : List α) (h : l' ≠ []) :
    (l ++ l').getLast? = l'.getLast? := by
  rw [List.getLast?_append]
  cases hl : l'.getLast? with
  | none => exact absurd (List.getLast?_eq_none_iff.mp hl) h
  | some x => rfl

/-- a nodup list without one of its middle segments -/
theorem filter_not_mem_middle {α : Type} [DecidableEq α] (X R Y : List α) (h : (X ++ R ++ Y).Nodup) :
    (X ++ R ++ Y).filter (fun a => !R.contains a) = X ++ Y ∧
    (X ++ R ++ Y).filter (fun a => R.contains a) = R := by
  rw [List.append_assoc] at h
  have h' := h
  rw [List.nodup_append] at h
  obtain ⟨_, hRY, hXRY⟩ := h
  rw [List.nodup_append] at hRY
  obtain ⟨_, _, hRY'⟩ := hRY
  have hX : ∀ a ∈ X, a ∉ R := fun a ha hc => hXRY a ha a (List.mem_append_left _ hc) rfl
  have hY : ∀ a ∈ Y, a ∉ R := fun a ha hc => hRY' a hc a ha rfl
  constructor
  · rw [List.filter_append, List.filter_append]
    rw [List.filter_eq_self.mpr (fun a ha => by simpa using hX a ha)]
    rw [List.filter_eq_nil_iff.mpr (fun a ha => by simpa using ha)]
    rw [List.filter_eq_self.mpr (fun a ha => by simpa using hY a ha)]
    simp
  · rw [List.filter_append, List.filter_append]
    rw [List.filter_eq_nil_iff.mpr (fun a ha => by simpa using hX a ha)]
    rw [List.filter_eq_self.mpr (fun a ha => by simpa using ha)]
    rw [List.filter_eq_nil_iff.mpr (fun a ha => by simpa using hY a ha)]
    simp

/-! ### insert / delete on a sorted list -/

theorem lt_down_closed {l : SL} (h : Sorted l) (t : Node) :
    l.Pairwise (fun a b => b.lt t = true → a.lt t = true) :=
  h.imp (fun hab hbt => Node.lt_trans hab hbt)

theorem le_down_closed {l : SL} (h : Sorted l) (t : Node) :
    l.Pairwise (fun a b => b.le t = true → a.le t = true) :=
  h.imp (fun hab hbt => Node.le_trans (Node.le_of_lt hab) hbt)

/-- inserting a node that is not in the list keeps it sorted and adds exactly that node -/
theorem insert_sorted {l : SL} (h : Sorted l) (s : Int) (e : Nat) (hn : (⟨s, e⟩ : Node) ∉ l) :
    Sorted (L.insert l s e) ∧ (L.insert l s e).Perm (⟨s, e⟩ :: l) := by
  unfold L.insert
  have h1 := takeWhile_eq_filter (fun n : Node => n.lt ⟨s, e⟩) (lt_down_closed h _)
  have h2 := dropWhile_eq_filter_not (fun n : Node => n.lt ⟨s, e⟩) (lt_down_closed h _)
  constructor
  · unfold Sorted
    rw [List.pairwise_append]
    refine ⟨h.sublist (List.takeWhile_sublist _), ?_, ?_⟩
    · rw [List.pairwise_cons]
      refine ⟨?_, h.sublist (List.dropWhile_sublist _)⟩
      intro b hb
      rw [h2] at hb
      simp only [List.mem_filter, Bool.not_eq_true'] at hb
      rcases Node.lt_or_eq_or_gt b ⟨s, e⟩ with hlt | heq | hgt
      · rw [hlt] at hb; cases hb.2
      · exact absurd (heq ▸ hb.1) hn
      · exact hgt
    · intro a ha b hb
      rw [h1] at ha
      simp only [List.mem_filter] at ha
      rcases List.mem_cons.mp hb with hb | hb
      · rw [hb]; exact ha.2
      · rw [h2] at hb
        simp only [List.mem_filter, Bool.not_eq_true'] at hb
        rcases Node.lt_or_eq_or_gt b ⟨s, e⟩ with hlt | heq | hgt
        · rw [hlt] at hb; cases hb.2
        · exact absurd (heq ▸ hb.1) hn
        · exact Node.lt_trans ha.2 hgt
  · have := List.takeWhile_append_dropWhile (p := fun n : Node => n.lt ⟨s, e⟩) (l := l)
    exact (List.perm_middle).trans (List.Perm.cons _ (List.Perm.of_eq this))

/-- where a node of a sorted list sits: everything before it is smaller, everything after is larger -/
theorem sorted_split {P Q : SL} {x : Node} (h : Sorted (P ++ x :: Q)) :
    (∀ a ∈ P, a.lt x = true) ∧ (∀ b ∈ Q, x.lt b = true) ∧ Sorted P ∧ Sorted Q := by
  unfold Sorted at h
  rw [List.pairwise_append, List.pairwise_cons] at h
  exact ⟨fun a ha => h.2.2 a ha x List.mem_cons_self, h.2.1.1, h.1, h.2.1.2⟩

theorem takeWhile_lt_split {P Q : SL} {x : Node} (h : Sorted (P ++ x :: Q)) :
    (P ++ x :: Q).takeWhile (fun n => n.lt x) = P ∧ (P ++ x :: Q).dropWhile (fun n => n.lt x) = x :: Q := by
  obtain ⟨hP, _, _, _⟩ := sorted_split h
  constructor
  · rw [List.takeWhile_append_of_pos hP, List.takeWhile_cons_of_neg (by simp [Node.lt_irrefl])]
    simp
  · rw [List.dropWhile_append_of_pos hP, List.dropWhile_cons_of_neg (by simp [Node.lt_irrefl])]

/-- `Delete` of a node that is in the list unlinks exactly it -/
theorem delete_mem {P Q : SL} {x : Node} (h : Sorted (P ++ x :: Q)) :
    L.delete (P ++ x :: Q) x.score x.ele = (P ++ Q, some x) := by
  obtain ⟨h1, h2⟩ := takeWhile_lt_split h
  unfold L.delete
  have hx : (⟨x.score, x.ele⟩ : Node) = x := rfl
  rw [hx, h2, h1]
  simp

/-- `Delete` of a (score, member) pair that is not in the list changes nothing and answers nil -/
theorem delete_not_mem {l : SL} (h : Sorted l) (s : Int) (e : Nat) (hn : (⟨s, e⟩ : Node) ∉ l) :
    L.delete l s e = (l, none) := by
  unfold L.delete
  have h2 := dropWhile_eq_filter_not (fun n : Node => n.lt ⟨s, e⟩) (lt_down_closed h _)
  cases hd : l.dropWhile (fun n => n.lt ⟨s, e⟩) with
  | nil => rfl
  | cons x rest =>
    have hx : x ∈ l := (List.dropWhile_sublist _).subset (by rw [hd]; exact List.mem_cons_self)
    have hne : ¬ (s = x.score ∧ x.ele = e) := by
      intro ⟨h1, h2⟩
      apply hn
      have : (⟨s, e⟩ : Node) = x := by rw [Node.ext_iff']; exact ⟨h1, h2.symm⟩
      rw [this]; exact hx
    simp only []
    split
    · rename_i hc
      simp only [Bool.and_eq_true, beq_iff_eq] at hc
      exact absurd hc hne
    · rfl

/-- the rank of a node of a sorted list is its position -/
theorem getRank_split {P Q : SL} {x : Node} (h : Sorted (P ++ x :: Q)) :
    L.getRank (P ++ x :: Q) x.score x.ele = P.length + 1 := by
  obtain ⟨hP, hQ, _, _⟩ := sorted_split h
  unfold L.getRank
  have hx : (⟨x.score, x.ele⟩ : Node) = x := rfl
  rw [hx]
  have h1 : (P ++ x :: Q).takeWhile (fun n => n.le x) = P ++ [x] := by
    rw [List.takeWhile_append_of_pos (fun a ha => Node.le_of_lt (hP a ha)),
      List.takeWhile_cons_of_pos (p := fun n : Node => n.le x) (Node.le_refl x)]
    have : Q.takeWhile (fun n => n.le x) = [] := by
      cases Q with
      | nil => rfl
      | cons q rest =>
        rw [List.takeWhile_cons_of_neg]
        rw [Node.not_le_of_lt (hQ q List.mem_cons_self)]
        simp
    rw [this]
  simp only [h1]
  simp

/-- asking for a member that is nowhere in the list answers 0 -/
theorem getRank_absent (l : SL) (s : Int) (e : Nat) (hn : ∀ n ∈ l, n.ele ≠ e) : L.getRank l s e = 0 := by
  unfold L.getRank
  simp only []
  cases hl : (l.takeWhile (fun n => n.le ⟨s, e⟩)).getLast? with
  | none => rfl
  | some x =>
    have hx : x ∈ l := (List.takeWhile_sublist _).subset (List.mem_of_getLast? hl)
    have := hn x hx
    simp [this]

/-! ### the removing primitives only remove -/

theorem delete_sublist (l : SL) (s : Int) (e : Nat) : (L.delete l s e).1.Sublist l := by
  unfold L.delete
  cases hd : l.dropWhile (fun n => n.lt ⟨s, e⟩) with
  | nil => exact List.Sublist.refl _
  | cons x rest =>
    simp only []
    split
    · have h := List.takeWhile_append_dropWhile (p := fun n : Node => n.lt ⟨s, e⟩) (l := l)
      rw [hd] at h
      conv => rhs; rw [← h]
      exact List.Sublist.append (List.Sublist.refl _) (List.sublist_cons_self _ _)
    · exact List.Sublist.refl _

theorem deleteRangeByScore_sublist (l : SL) (min max : Int) : (L.deleteRangeByScore l min max).1.Sublist l := by
  unfold L.deleteRangeByScore
  have h := List.takeWhile_append_dropWhile (p := fun n : Node => decide (n.score < min)) (l := l)
  conv => rhs; rw [← h]
  exact List.Sublist.append (List.Sublist.refl _) (List.dropWhile_sublist _)

theorem deleteRangeByRank_sublist (l : SL) (start stop : Int) : (L.deleteRangeByRank l start stop).1.Sublist l := by
  unfold L.deleteRangeByRank
  have h := List.take_append_drop (start - 1).toNat l
  conv => rhs; rw [← h]
  exact List.Sublist.append (List.Sublist.refl _) (List.drop_sublist _ _)

/-! ### score ranges on a sorted list -/

/-- the three segments the range walks cut a list into -/
def segA (l : SL) (min : Int) : SL := l.takeWhile (fun n => n.score < min)
def segF (l : SL) (min max : Int) : SL :=
  (l.dropWhile (fun n => n.score < min)).takeWhile (fun n => n.score ≤ max)
def segC (l : SL) (min max : Int) : SL :=
  (l.dropWhile (fun n => n.score < min)).dropWhile (fun n => n.score ≤ max)

theorem seg_append (l : SL) (min max : Int) : segA l min ++ (segF l min max ++ segC l min max) = l := by
  unfold segA segF segC
  rw [List.takeWhile_append_dropWhile, List.takeWhile_append_dropWhile]

theorem score_lt_down_closed {l : SL} (h : Sorted l) (m : Int) :
    l.Pairwise (fun a b => decide (b.score < m) = true → decide (a.score < m) = true) :=
  h.imp (fun hab hb => by
    have := Node.score_le_of_lt hab
    simp only [decide_eq_true_eq] at hb ⊢; omega)

theorem score_le_down_closed {l : SL} (h : Sorted l) (m : Int) :
    l.Pairwise (fun a b => decide (b.score ≤ m) = true → decide (a.score ≤ m) = true) :=
  h.imp (fun hab hb => by
    have := Node.score_le_of_lt hab
    simp only [decide_eq_true_eq] at hb ⊢; omega)

theorem segA_spec {l : SL} (h : Sorted l) (min : Int) : segA l min = l.filter (fun n => n.score < min) :=
  takeWhile_eq_filter _ (score_lt_down_closed h min)

theorem segF_spec {l : SL} (h : Sorted l) (min max : Int) : segF l min max = l.filter (inRange min max) := by
  unfold segF
  have h1 := dropWhile_eq_filter_not (fun n : Node => decide (n.score < min)) (score_lt_down_closed h min)
  have hs : Sorted (l.dropWhile (fun n => decide (n.score < min))) := h.sublist (List.dropWhile_sublist _)
  rw [takeWhile_eq_filter _ (score_le_down_closed hs max), h1, List.filter_filter]
  apply List.filter_congr
  intro n _
  simp only [inRange]
  cases h1 : decide (n.score < min) <;> cases h2 : decide (n.score ≤ max) <;>
    simp only [decide_eq_true_eq, decide_eq_false_iff_not] at h1 h2 <;> simp <;> omega

theorem segC_spec {l : SL} (h : Sorted l) (min max : Int) :
    segC l min max = l.filter (fun n => !(decide (n.score < min)) && !(decide (n.score ≤ max))) := by
  unfold segC
  have h1 := dropWhile_eq_filter_not (fun n : Node => decide (n.score < min)) (score_lt_down_closed h min)
  have hs : Sorted (l.dropWhile (fun n => decide (n.score < min))) := h.sublist (List.dropWhile_sublist _)
  rw [dropWhile_eq_filter_not _ (score_le_down_closed hs max), h1, List.filter_filter]
  apply List.filter_congr
  intro n _
  rw [Bool.and_comm]

theorem mem_segF {l : SL} (h : Sorted l) {min max : Int} {n : Node} :
    n ∈ segF l min max ↔ n ∈ l ∧ min ≤ n.score ∧ n.score ≤ max := by
  rw [segF_spec h]
  simp [inRange]

/-- `DeleteRangeByScore` on a sorted list removes exactly the nodes with min ≤ score ≤ max -/
theorem deleteRangeByScore_spec {l : SL} (h : Sorted l) (min max : Int) :
    L.deleteRangeByScore l min max =
      (l.filter (fun n => !inRange min max n), l.filter (inRange min max)) := by
  have hF := segF_spec h min max
  have hsplit := seg_append l min max
  have hA := segA_spec h min
  have hC := segC_spec h min max
  unfold L.deleteRangeByScore
  show (segA l min ++ segC l min max, segF l min max) = _
  rw [hF]
  congr 1
  -- the complement of the range is A ++ C
  conv => rhs; rw [← hsplit]
  rw [List.filter_append, List.filter_append]
  have e1 : (segA l min).filter (fun n => !inRange min max n) = segA l min := by
    rw [List.filter_eq_self]
    intro n hn
    rw [hA] at hn
    simp only [List.mem_filter, decide_eq_true_eq] at hn
    simp only [inRange, Bool.not_eq_true', Bool.and_eq_false_iff, decide_eq_false_iff_not]
    omega
  have e2 : (segF l min max).filter (fun n => !inRange min max n) = [] := by
    rw [List.filter_eq_nil_iff]
    intro n hn
    rw [hF] at hn
    simp only [List.mem_filter] at hn
    simp [hn.2]
  have e3 : (segC l min max).filter (fun n => !inRange min max n) = segC l min max := by
    rw [List.filter_eq_self]
    intro n hn
    rw [hC] at hn
    simp only [List.mem_filter, Bool.and_eq_true, Bool.not_eq_true', decide_eq_false_iff_not] at hn
    simp only [inRange, Bool.not_eq_true', Bool.and_eq_false_iff, decide_eq_false_iff_not]
    omega
  rw [e1, e2, e3]; simp

theorem isInRange_iff (l : SL) (min max : Int) :
    L.isInRange l min max = true ↔
      min ≤ max ∧ ∃ f t, l.head? = some f ∧ l.getLast? = some t ∧ min ≤ t.score ∧ f.score ≤ max := by
  unfold L.isInRange
  by_cases hmm : min > max
  · simp [hmm] <;> omega
  · simp only [hmm, if_false]
    cases ht : l.getLast? with
    | none => simp
    | some t =>
      simp only []
      by_cases h1 : t.score < min
      · simp [h1] <;> omega
      · simp only [h1, if_false]
        cases hf : l.head? with
        | none => simp
        | some f =>
          simp only []
          by_cases h2 : f.score > max
          · simp [h2] <;> omega
          · simp [h2] <;> omega

/-- `FirstInRange` on a sorted list: the first node with min ≤ score ≤ max -/
theorem firstInRange_spec {l : SL} (h : Sorted l) (min max : Int) :
    L.firstInRange l min max = (l.filter (inRange min max)).head? := by
  rw [← segF_spec h]
  unfold L.firstInRange
  cases hin : L.isInRange l min max with
  | false =>
    simp only [Bool.not_false, if_true]
    -- nothing is in range
    symm
    rw [List.head?_eq_none_iff, segF_spec h, List.filter_eq_nil_iff]
    intro n hn hr
    simp only [inRange, Bool.and_eq_true, decide_eq_true_eq] at hr
    have hnot : ¬ (L.isInRange l min max = true) := by simp [hin]
    apply hnot
    rw [isInRange_iff]
    refine ⟨by omega, ?_⟩
    cases l with
    | nil => cases hn
    | cons f rest =>
      obtain ⟨t, ht⟩ : ∃ t, (f :: rest).getLast? = some t := ⟨_, List.getLast?_eq_some_getLast (by simp)⟩
      refine ⟨f, t, rfl, ht, ?_, ?_⟩
      · -- n ≤ t
        obtain ⟨ys, hys⟩ := List.getLast?_eq_some_iff.mp ht
        rw [hys] at hn h
        rcases List.mem_append.mp hn with hn' | hn'
        · unfold Sorted at h
          rw [List.pairwise_append] at h
          have := Node.score_le_of_lt (h.2.2 n hn' t (by simp))
          omega
        · simp only [List.mem_singleton] at hn'
          subst hn'; omega
      · rcases List.mem_cons.mp hn with hn' | hn'
        · subst hn'; omega
        · unfold Sorted at h
          rw [List.pairwise_cons] at h
          have := Node.score_le_of_lt (h.1 n hn')
          omega
  | true =>
    simp only [Bool.not_true, Bool.false_eq_true, if_false]
    unfold segF
    cases hd : l.dropWhile (fun n => decide (n.score < min)) with
    | nil => rfl
    | cons x rest =>
      simp only []
      by_cases hx : x.score > max
      · simp only [hx, if_true]
        rw [List.takeWhile_cons_of_neg (by simp; omega)]
        rfl
      · simp only [hx, if_false]
        rw [List.takeWhile_cons_of_pos (by simp; omega)]
        rfl

theorem walkLE_spec (h : Node) (rest : List Node) (max : Int) (hh : h.score ≤ max) :
    ((h :: rest).takeWhile (fun n => decide (n.score ≤ max))).getLast? = some (L.walkLE h rest max) := by
  induction rest generalizing h with
  | nil => simp [L.walkLE, hh]
  | cons n r ih =>
    rw [List.takeWhile_cons_of_pos (by simpa using hh)]
    simp only [L.walkLE]
    by_cases hn : n.score ≤ max
    · simp only [hn, if_true]
      rw [← ih n hn]
      have : (n :: r).takeWhile (fun n => decide (n.score ≤ max)) = n :: r.takeWhile (fun n => decide (n.score ≤ max)) :=
        List.takeWhile_cons_of_pos (by simpa using hn)
      rw [this, List.getLast?_cons_cons]
    · simp only [hn, if_false]
      rw [List.takeWhile_cons_of_neg (by simpa using hn)]
      rfl

/-- with min ≤ max the nodes with score ≤ max are the segments A and F -/
theorem takeWhile_le_max (l : SL) {min max : Int} (hmm : min ≤ max) :
    l.takeWhile (fun n => decide (n.score ≤ max)) = segA l min ++ segF l min max := by
  conv => lhs; rw [← List.takeWhile_append_dropWhile (p := fun n : Node => decide (n.score < min)) (l := l)]
  rw [List.takeWhile_append_of_pos]
  · rfl
  · intro a ha
    have := mem_takeWhile_imp ha
    simp only [decide_eq_true_eq] at this ⊢
    omega

/-- `LastInRange` on a sorted list: the last node with min ≤ score ≤ max -/
theorem lastInRange_spec {l : SL} (h : Sorted l) (min max : Int) :
    L.lastInRange l min max = (l.filter (inRange min max)).getLast? := by
  have hfirst := firstInRange_spec h min max
  unfold L.firstInRange at hfirst
  unfold L.lastInRange
  cases hin : L.isInRange l min max with
  | false =>
    simp only [hin, Bool.not_false, if_true] at hfirst ⊢
    have : l.filter (inRange min max) = [] := List.head?_eq_none_iff.mp hfirst.symm
    rw [this]; rfl
  | true =>
    simp only [Bool.not_true, Bool.false_eq_true, if_false]
    obtain ⟨hmm, f, t, hf, ht, h1, h2⟩ := (isInRange_iff _ min max).mp hin
    cases l with
    | nil => simp at hf
    | cons f' rest =>
      simp only [List.head?_cons, Option.some.injEq] at hf
      subst hf
      simp only []
      have hw := walkLE_spec f' rest max h2
      rw [takeWhile_le_max _ hmm] at hw
      rw [← segF_spec h]
      by_cases hF : segF (f' :: rest) min max = []
      · rw [hF] at hw ⊢
        rw [List.append_nil] at hw
        have hmem : L.walkLE f' rest max ∈ segA (f' :: rest) min := List.mem_of_getLast? hw
        have := mem_takeWhile_imp hmem
        simp only [decide_eq_true_eq] at this
        simp [this]
      · rw [getLast?_append_ne_nil _ _ hF] at hw
        rw [hw]
        have hmem : L.walkLE f' rest max ∈ segF (f' :: rest) min max := List.mem_of_getLast? hw
        have := (mem_segF h).mp hmem
        have hnot : ¬ (L.walkLE f' rest max).score < min := by omega
        simp [hnot]

end Fatchoy.C11
