/-
Helper lemmas for C12 (deque / FIFO queues): mask arithmetic, the well-formedness invariant of the
ring buffer and, per method, that it succeeds on a well-formed deque, keeps it well-formed and does to
the abstract list what the plain-list operation does.
-/
import Fatchoy.Lemmas.C12Valid
set_option linter.unusedSectionVars false
set_option linter.unusedVariables false
namespace Fatchoy.C12

theorem landMask_pow2 (x : Int) (k : Nat) : ((landMask x (2 ^ k - 1) : Nat) : Int) = x % ((2 ^ k : Nat) : Int) := by
  have hpos : 0 < 2 ^ k := Nat.two_pow_pos k
  cases x with
  | ofNat n =>
    simp only [landMask, Nat.and_two_pow_sub_one_eq_mod]
    rfl
  | negSucc n =>
    simp only [landMask, Nat.and_two_pow_sub_one_eq_mod]
    have hlt : n % 2 ^ k < 2 ^ k := Nat.mod_lt _ hpos
    rw [Int.negSucc_emod n (by omega)]
    have : ((n % 2 ^ k : Nat) : Int) = (n : Int) % ((2 ^ k : Nat) : Int) := by simp
    omega

/-- Euclidean remainder for an argument within one period of the range -/
theorem emod_window (x c : Int) (h1 : -c ≤ x) (h2 : x < 2 * c) :
    x % c = if x < 0 then x + c else if x < c then x else x - c := by
  split
  · rw [Int.emod_eq_add_self_emod]; exact Int.emod_eq_of_lt (by omega) (by omega)
  · split
    · exact Int.emod_eq_of_lt (by omega) (by omega)
    · rw [← Int.sub_emod_right]; exact Int.emod_eq_of_lt (by omega) (by omega)

section
variable {α : Type} [Inhabited α]

/-- `buf[i]`, `nil` outside the buffer (only used where the index is inside) -/
def gd (buf : List α) (i : Nat) : α := (buf[i]?).getD nil

theorem rd_eq {buf : List α} {i : Nat} (h : i < buf.length) : rd buf i = some (gd buf i) := by
  simp [rd, gd, List.getElem?_eq_getElem h]

omit [Inhabited α] in
theorem wr_eq {buf : List α} {i : Nat} {v : α} (h : i < buf.length) : wr buf i v = some (buf.set i v) := by
  simp [wr, h]

theorem gd_set (buf : List α) (i j : Nat) (v : α) :
    gd (buf.set i v) j = if i = j ∧ j < buf.length then v else gd buf j := by
  unfold gd
  rw [List.getElem?_set]
  by_cases hij : i = j
  · subst hij
    by_cases hl : i < buf.length
    · simp [hl]
    · simp [hl]
  · simp [hij]

theorem gd_replicate (n i : Nat) : gd (List.replicate n (nil : α)) i = nil := by
  unfold gd
  rw [List.getElem?_replicate]
  split <;> rfl

theorem gd_of_le {buf : List α} {i : Nat} (h : buf.length ≤ i) : gd buf i = nil := by
  unfold gd
  rw [List.getElem?_eq_none h]; rfl

theorem slot_eq (d : Deque α) (i : Nat) : slot d i = gd d.buf (wrap d.buf.length (d.head + i)) := rfl

/-- the mask is the ring wrap for arguments within one period -/
theorem mask_eq {d : Deque α} {k : Nat} (hc : d.buf.length = 2 ^ k) {x : Int}
    (h1 : -(d.buf.length : Int) ≤ x) (h2 : x < 2 * (d.buf.length : Int)) :
    mask d x = some (if x < 0 then (x + d.buf.length).toNat else if x < d.buf.length then x.toNat
      else (x - d.buf.length).toNat) := by
  have hpos : 0 < d.buf.length := by rw [hc]; exact Nat.two_pow_pos k
  unfold mask
  rw [if_neg (by omega)]
  congr 1
  have h := landMask_pow2 x k
  rw [← hc] at h
  rw [emod_window x _ h1 h2] at h
  by_cases hx0 : x < 0
  · rw [if_pos hx0] at h ⊢; omega
  · rw [if_neg hx0] at h ⊢
    by_cases hx1 : x < (d.buf.length : Int)
    · rw [if_pos hx1] at h ⊢; omega
    · rw [if_neg hx1] at h ⊢; omega

/-- case analysis on every `if`, then linear arithmetic -/
macro "ring_omega" : tactic =>
  `(tactic| ((repeat' split) <;> first | omega | rfl | (congr 1; omega) | (congr 2; omega) | (congr 3; omega) | (congr 4; omega)))

/-- the invariant of the ring buffer -/
structure WF (P : Params) (d : Deque α) : Prop where
  pow : d.buf.length = 0 ∨ ∃ k, d.buf.length = 2 ^ k
  head_lt : d.head < d.buf.length ∨ (d.buf.length = 0 ∧ d.head = 0)
  tail_eq : d.tail = wrap d.buf.length (d.head + d.count)
  count_le : d.count ≤ d.buf.length
  min_ok : d.minCap = 0 ∨ ((∃ j, d.minCap = 2 ^ j) ∧ P.minCapacity ≤ d.minCap)
  alloc : 0 < d.buf.length → d.minCap ≠ 0 ∧ d.minCap ≤ d.buf.length

theorem abs_length (d : Deque α) : (abs d).length = d.count := by simp [abs]

theorem abs_getElem (d : Deque α) (i : Nat) (h : i < (abs d).length) : (abs d)[i] = slot d i := by
  simp [abs]

/-- two deques stand for the same list when they agree slot by slot -/
theorem abs_congr {d d' : Deque α} (hc : d'.count = d.count) (hs : ∀ i, i < d.count → slot d' i = slot d i) :
    abs d' = abs d := by
  apply List.ext_getElem
  · simp [abs_length, hc]
  · intro i h1 h2
    rw [abs_getElem, abs_getElem]
    exact hs i (by simpa [abs_length] using h2)

theorem gd_getElem?_some {l : List α} {i : Nat} (h : i < l.length) : gd l i = l[i] := by
  simp [gd, List.getElem?_eq_getElem h]

/-- `resize` puts the contents at the start of a buffer twice their size -/
theorem resize_spec {P : Params} (hg : P.growShift = 1) {d : Deque α} (hw : WF P d) (hpos : 0 < d.count) :
    ∃ nb : List α, resize P d = some { d with buf := nb, head := 0, tail := d.count } ∧
      nb.length = 2 * d.count ∧ ∀ i, i < d.count → gd nb i = slot d i := by
  obtain ⟨hpow, hhead, htail, hcnt, hmin, halloc⟩ := hw
  have hcap : 0 < d.buf.length := by omega
  have hh : d.head < d.buf.length := by omega
  unfold resize
  simp only [hg, Nat.shiftLeft_eq, Nat.pow_one]
  by_cases hwrap : d.head + d.count < d.buf.length
  · -- the contents do not wrap
    have ht : d.tail = d.head + d.count := by rw [htail, wrap, if_pos hwrap]
    rw [if_pos (by omega)]
    have hs : slice d.buf d.head d.tail = some ((d.buf.drop d.head).take (d.tail - d.head)) := by
      unfold slice; rw [if_pos (by omega)]
    rw [hs]
    refine ⟨_, rfl, ?_, ?_⟩
    · simp [copyTo]; omega
    · intro i hi
      rw [slot_eq, wrap, if_pos (by omega)]
      unfold copyTo gd
      simp only [List.length_replicate, List.getElem?_append, List.length_take, List.length_drop,
        List.getElem?_take, List.getElem?_drop]
      (repeat' split) <;> first | omega | (congr 2; omega) | rfl
  · -- the contents wrap around the end of the buffer (or fill it)
    have ht : d.tail = d.head + d.count - d.buf.length := by rw [htail, wrap, if_neg hwrap]
    rw [if_neg (by omega)]
    have hs1 : slice d.buf d.head d.buf.length = some ((d.buf.drop d.head).take (d.buf.length - d.head)) := by
      unfold slice; rw [if_pos (by omega)]
    have hs2 : slice d.buf 0 d.tail = some ((d.buf.drop 0).take (d.tail - 0)) := by
      unfold slice; rw [if_pos (by omega)]
    rw [hs1, hs2]
    refine ⟨_, rfl, ?_, ?_⟩
    · simp [copyTo]; omega
    · intro i hi
      rw [slot_eq, wrap]
      unfold copyTo gd
      simp only [List.length_replicate, List.getElem?_append, List.length_take, List.length_drop,
        List.getElem?_take, List.getElem?_drop, List.drop_zero, Nat.sub_zero, List.length_append]
      have hi' : i < d.count := hi
      (repeat' split) <;> first | omega | (congr 2; omega) | rfl

theorem pow2_double {n k : Nat} (h : n = 2 ^ k) : 2 * n = 2 ^ (k + 1) := by
  rw [h, Nat.pow_succ]; omega

theorem pow2_le_of_lt {j k : Nat} (h : 2 ^ j < 2 ^ (k + 1)) : 2 ^ j ≤ 2 ^ k := by
  have : j < k + 1 := (Nat.pow_lt_pow_iff_right (by decide)).mp h
  exact Nat.pow_le_pow_right (by decide) (by omega)

theorem wrap_lt {n x : Nat} (h : x < 2 * n) (hn : 0 < n) : wrap n x < n := by
  unfold wrap; split <;> omega

theorem growIfFull_spec {P : Params} (hv : ValidD P) {d : Deque α} (hw : WF P d) :
    ∃ d1, growIfFull P d = some d1 ∧ WF P d1 ∧ abs d1 = abs d ∧ d1.count = d.count ∧
      d1.count < d1.buf.length := by
  obtain ⟨⟨k0, hk0, hmc⟩, hg, hsh⟩ := hv
  have hw' := hw
  obtain ⟨hpow, hhead, htail, hcnt, hmin, halloc⟩ := hw
  unfold growIfFull
  by_cases hfull : d.count ≠ d.buf.length
  · rw [if_pos hfull]
    exact ⟨d, rfl, hw', rfl, rfl, by omega⟩
  · rw [if_neg hfull]
    have hfull' : d.count = d.buf.length := by omega
    by_cases hzero : d.buf.length = 0
    · rw [if_pos hzero]
      refine ⟨_, rfl, ?_, ?_, rfl, ?_⟩
      · have hmcpos : 0 < P.minCapacity := by rw [hmc]; exact Nat.two_pow_pos k0
        constructor
        · right
          simp only [List.length_replicate]
          split
          · exact ⟨k0, hmc⟩
          · rcases hmin with h | ⟨⟨j, hj⟩, _⟩
            · omega
            · exact ⟨j, hj⟩
        · left
          simp only [List.length_replicate]
          have h0 : d.head = 0 := by omega
          split
          · omega
          · omega
        · simp only [List.length_replicate, wrap]
          have h0 : d.head = 0 := by omega
          have hc0 : d.count = 0 := by omega
          have : d.tail = 0 := by rw [htail, wrap]; split <;> omega
          ring_omega
        · simp only [List.length_replicate]; omega
        · simp only []
          split
          · right; exact ⟨⟨k0, hmc⟩, Nat.le_refl _⟩
          · rcases hmin with h | h
            · omega
            · right; exact h
        · intro _
          simp only [List.length_replicate]
          split <;> omega
      · have hc0 : d.count = 0 := by omega
        simp [abs, hc0]
      · simp only [List.length_replicate]
        have hmcpos : 0 < P.minCapacity := by rw [hmc]; exact Nat.two_pow_pos k0
        split <;> omega
    · rw [if_neg hzero]
      have hpos : 0 < d.count := by omega
      obtain ⟨nb, hres, hlen, hslots⟩ := resize_spec hg hw' hpos
      rw [hres]
      refine ⟨_, rfl, ?_, ?_, rfl, ?_⟩
      · obtain ⟨hm1, hm2⟩ := halloc (by omega)
        constructor
        · right
          rcases hpow with h | ⟨k, hk⟩
          · omega
          · exact ⟨k + 1, by simp only []; rw [hlen, hfull']; exact pow2_double hk⟩
        · left; simp only []; omega
        · simp only [wrap]; ring_omega
        · simp only []; omega
        · exact hmin
        · intro _; simp only []; omega
      · refine abs_congr (d := d) rfl ?_
        intro i hi
        rw [slot_eq]
        simp only [wrap, Nat.zero_add]
        rw [if_pos (by omega)]
        exact hslots i hi
      · simp only []; omega

theorem shrinkIfExcess_spec {P : Params} (hv : ValidD P) {d : Deque α} (hw : WF P d) :
    ∃ d1, shrinkIfExcess P d = some d1 ∧ WF P d1 ∧ abs d1 = abs d ∧ d1.count = d.count := by
  obtain ⟨⟨k0, hk0, hmc⟩, hg, hsh⟩ := hv
  have hw' := hw
  obtain ⟨hpow, hhead, htail, hcnt, hmin, halloc⟩ := hw
  unfold shrinkIfExcess
  simp only [hsh, Nat.shiftLeft_eq]
  by_cases hc : d.buf.length > d.minCap ∧ d.count * 2 ^ 2 = d.buf.length
  · rw [if_pos hc]
    obtain ⟨hc1, hc2⟩ := hc
    have hpos : 0 < d.count := by omega
    obtain ⟨nb, hres, hlen, hslots⟩ := resize_spec hg hw' hpos
    rw [hres]
    obtain ⟨hm1, hm2⟩ := halloc (by omega)
    refine ⟨_, rfl, ?_, ?_, rfl⟩
    · rcases hpow with h | ⟨k, hk⟩
      · omega
      · cases k with
        | zero => simp at hk; omega
        | succ k =>
          have h2 : 2 * d.count = 2 ^ k := by rw [Nat.pow_succ] at hk; omega
          constructor
          · right; exact ⟨k, by simp only []; omega⟩
          · left; simp only []; omega
          · simp only [wrap]; ring_omega
          · simp only []; omega
          · exact hmin
          · intro _
            simp only []
            refine ⟨hm1, ?_⟩
            rcases hmin with h | ⟨⟨j, hj⟩, _⟩
            · omega
            · rw [hlen, h2, hj]
              apply pow2_le_of_lt
              rw [← hj, ← hk]; exact hc1
    · refine abs_congr (d := d) rfl ?_
      intro i hi
      rw [slot_eq]
      simp only [wrap, Nat.zero_add]
      rw [if_pos (by omega)]
      exact hslots i hi
  · rw [if_neg hc]
    exact ⟨d, rfl, hw', rfl, rfl⟩

theorem WF.cap_pos_pow {P : Params} {d : Deque α} (hw : WF P d) (h : 0 < d.buf.length) :
    ∃ k, d.buf.length = 2 ^ k := by
  rcases hw.pow with h0 | hk
  · omega
  · exact hk

theorem wrap_cases (n x : Nat) : (x < n ∧ wrap n x = x) ∨ (n ≤ x ∧ wrap n x = x - n) := by
  unfold wrap; split <;> omega

theorem abs_eq_of_slots {d' : Deque α} {l : List α} (hl : l.length = d'.count)
    (h : ∀ i (hi : i < l.length), slot d' i = l[i]) : abs d' = l := by
  apply List.ext_getElem
  · simp [abs_length, hl]
  · intro i h1 h2
    rw [abs_getElem]; exact h i h2

theorem pushBack_spec {P : Params} (hv : ValidD P) {d : Deque α} (hw : WF P d) (v : α) :
    ∃ d', pushBack P d v = some d' ∧ WF P d' ∧ abs d' = abs d ++ [v] := by
  obtain ⟨d1, hgrow, hw1, habs1, hcount1, hroom⟩ := growIfFull_spec hv hw
  obtain ⟨k, hk⟩ := hw1.cap_pos_pow (by omega)
  obtain ⟨hpow, hhead, htail, hcnt, hmin, halloc⟩ := hw1
  have hh : d1.head < d1.buf.length := by omega
  have ht : d1.tail < d1.buf.length := by rw [htail]; exact wrap_lt (by omega) (by omega)
  have htc := wrap_cases d1.buf.length (d1.head + d1.count)
  rw [← htail] at htc
  unfold pushBack
  rw [hgrow]
  simp only [Option.bind_eq_bind, Option.bind_some]
  rw [wr_eq ht, mask_eq hk (by omega) (by omega)]
  simp only [Option.bind_some]
  refine ⟨_, rfl, ?_, ?_⟩
  · constructor
    · right; exact ⟨k, by simp only [List.length_set]; exact hk⟩
    · left; simp only [List.length_set]; exact hh
    · simp only [List.length_set, wrap]; ring_omega
    · simp only [List.length_set]; omega
    · exact hmin
    · simp only [List.length_set]; exact halloc
  · rw [← habs1]
    apply abs_eq_of_slots
    · simp [abs_length]
    · intro i hi
      simp only [List.length_append, abs_length, List.length_singleton] at hi
      by_cases hlt : i < d1.count
      · rw [List.getElem_append_left (by simpa [abs_length] using hlt), abs_getElem]
        simp only [slot_eq, gd_set, wrap, List.length_set]
        ring_omega
      · rw [List.getElem_append_right (by simp [abs_length]; omega)]
        simp only [List.getElem_singleton, slot_eq, gd_set, wrap, List.length_set]
        ring_omega

theorem pushFront_spec {P : Params} (hv : ValidD P) {d : Deque α} (hw : WF P d) (v : α) :
    ∃ d', pushFront P d v = some d' ∧ WF P d' ∧ abs d' = v :: abs d := by
  obtain ⟨d1, hgrow, hw1, habs1, hcount1, hroom⟩ := growIfFull_spec hv hw
  obtain ⟨k, hk⟩ := hw1.cap_pos_pow (by omega)
  obtain ⟨hpow, hhead, htail, hcnt, hmin, halloc⟩ := hw1
  have hh : d1.head < d1.buf.length := by omega
  have htc := wrap_cases d1.buf.length (d1.head + d1.count)
  rw [← htail] at htc
  unfold pushFront
  rw [hgrow]
  simp only [Option.bind_eq_bind, Option.bind_some]
  rw [mask_eq hk (by omega) (by omega)]
  simp only [Option.bind_some]
  rw [wr_eq (by ring_omega)]
  simp only [Option.bind_some]
  refine ⟨_, rfl, ?_, ?_⟩
  · constructor
    · right; exact ⟨k, by simp only [List.length_set]; exact hk⟩
    · left; simp only [List.length_set]; ring_omega
    · simp only [List.length_set, wrap]; ring_omega
    · simp only [List.length_set]; omega
    · exact hmin
    · simp only [List.length_set]; exact halloc
  · rw [← habs1]
    apply abs_eq_of_slots
    · simp [abs_length]
    · intro i hi
      simp only [List.length_cons, abs_length] at hi
      cases i with
      | zero =>
        simp only [List.getElem_cons_zero, slot_eq, gd_set, wrap, List.length_set]
        ring_omega
      | succ j =>
        simp only [List.getElem_cons_succ, abs_getElem, slot_eq, gd_set, wrap, List.length_set]
        ring_omega

theorem mask_next {d : Deque α} {k : Nat} (hc : d.buf.length = 2 ^ k) {i : Nat} (hi : i < d.buf.length) :
    mask d ((i : Int) + 1) = some (wrap d.buf.length (i + 1)) := by
  rw [mask_eq hc (by omega) (by omega)]; unfold wrap; congr 1; ring_omega

/-- ring predecessor -/
def wprev (n i : Nat) : Nat := if i = 0 then n - 1 else i - 1

theorem mask_prev {d : Deque α} {k : Nat} (hc : d.buf.length = 2 ^ k) {i : Nat} (hi : i < d.buf.length) :
    mask d ((i : Int) - 1) = some (wprev d.buf.length i) := by
  rw [mask_eq hc (by omega) (by omega)]; unfold wprev; congr 1; ring_omega

theorem mask_add {d : Deque α} {k : Nat} (hc : d.buf.length = 2 ^ k) {h : Nat} (hh : h < d.buf.length)
    {i : Int} (h0 : 0 ≤ i) (h1 : i ≤ d.buf.length) :
    mask d ((h : Int) + i) = some (wrap d.buf.length (h + i.toNat)) := by
  rw [mask_eq hc (by omega) (by omega)]; unfold wrap; congr 1; ring_omega

theorem popFront_spec {P : Params} (hv : ValidD P) {d : Deque α} (hw : WF P d) (hpos : 0 < d.count) :
    ∃ d' x, popFront P d = some (d', .val x) ∧ WF P d' ∧ abs d = x :: abs d' := by
  have hw0 := hw
  obtain ⟨k, hk⟩ := hw.cap_pos_pow (by have := hw.count_le; omega)
  obtain ⟨hpow, hhead, htail, hcnt, hmin, halloc⟩ := hw
  have hh : d.head < d.buf.length := by omega
  have htc := wrap_cases d.buf.length (d.head + d.count)
  rw [← htail] at htc
  unfold popFront
  rw [if_neg (by omega)]
  rw [rd_eq hh, wr_eq hh, mask_next hk hh]
  simp only [Option.bind_eq_bind, Option.bind_some]
  have hw2 : WF P { d with buf := d.buf.set d.head nil, head := wrap d.buf.length (d.head + 1), count := d.count - 1 } := by
    constructor
    · right; exact ⟨k, by simp only [List.length_set]; exact hk⟩
    · left; simp only [List.length_set, wrap]; ring_omega
    · simp only [List.length_set, wrap]; ring_omega
    · simp only [List.length_set]; omega
    · exact hmin
    · simp only [List.length_set]; exact halloc
  obtain ⟨d', hsh, hw', habs', hcount'⟩ := shrinkIfExcess_spec hv hw2
  rw [hsh]
  simp only [Option.bind_some]
  refine ⟨d', _, rfl, hw', ?_⟩
  rw [habs']
  apply abs_eq_of_slots
  · simp [abs_length]; omega
  · intro i hi
    simp only [List.length_cons, abs_length] at hi
    cases i with
    | zero =>
      simp only [List.getElem_cons_zero, slot_eq, wrap]
      ring_omega
    | succ j =>
      simp only [List.getElem_cons_succ, abs_getElem, slot_eq, gd_set, wrap, List.length_set]
      ring_omega

theorem popBack_spec {P : Params} (hv : ValidD P) {d : Deque α} (hw : WF P d) (hpos : 0 < d.count) :
    ∃ d' x, popBack P d = some (d', .val x) ∧ WF P d' ∧ abs d = abs d' ++ [x] := by
  have hw0 := hw
  obtain ⟨k, hk⟩ := hw.cap_pos_pow (by have := hw.count_le; omega)
  obtain ⟨hpow, hhead, htail, hcnt, hmin, halloc⟩ := hw
  have hh : d.head < d.buf.length := by omega
  have htc := wrap_cases d.buf.length (d.head + d.count)
  rw [← htail] at htc
  have htl : d.tail < d.buf.length := by omega
  have hpl : wprev d.buf.length d.tail < d.buf.length := by unfold wprev; ring_omega
  unfold popBack
  rw [if_neg (by omega)]
  rw [mask_prev hk htl]
  simp only [Option.bind_eq_bind, Option.bind_some]
  rw [rd_eq hpl, wr_eq hpl]
  simp only [Option.bind_some]
  have hw2 : WF P { d with buf := d.buf.set (wprev d.buf.length d.tail) nil, tail := wprev d.buf.length d.tail, count := d.count - 1 } := by
    constructor
    · right; exact ⟨k, by simp only [List.length_set]; exact hk⟩
    · left; simp only [List.length_set]; exact hh
    · simp only [List.length_set, wrap, wprev]; ring_omega
    · simp only [List.length_set]; omega
    · exact hmin
    · simp only [List.length_set]; exact halloc
  obtain ⟨d', hsh, hw', habs', hcount'⟩ := shrinkIfExcess_spec hv hw2
  rw [hsh]
  simp only [Option.bind_some]
  refine ⟨d', _, rfl, hw', ?_⟩
  rw [habs']
  apply abs_eq_of_slots
  · simp [abs_length]; omega
  · intro i hi
    simp only [List.length_append, abs_length, List.length_singleton] at hi
    by_cases hlt : i < d.count - 1
    · rw [List.getElem_append_left (by simpa [abs_length] using hlt), abs_getElem]
      simp only [slot_eq, gd_set, wrap, wprev, List.length_set]
      ring_omega
    · rw [List.getElem_append_right (by simp [abs_length]; omega)]
      simp only [List.getElem_singleton, slot_eq, wrap, wprev]
      ring_omega

theorem front_spec {P : Params} {d : Deque α} (hw : WF P d) (hpos : 0 < d.count) :
    front d = some (.val (slot d 0)) := by
  obtain ⟨hpow, hhead, htail, hcnt, hmin, halloc⟩ := hw
  have hh : d.head < d.buf.length := by omega
  unfold front
  rw [if_neg (by omega), rd_eq hh]
  simp only [Option.bind_eq_bind, Option.bind_some, slot_eq, wrap]
  ring_omega

theorem back_spec {P : Params} {d : Deque α} (hw : WF P d) (hpos : 0 < d.count) :
    back d = some (.val (slot d (d.count - 1))) := by
  obtain ⟨k, hk⟩ := hw.cap_pos_pow (by have := hw.count_le; omega)
  obtain ⟨hpow, hhead, htail, hcnt, hmin, halloc⟩ := hw
  have hh : d.head < d.buf.length := by omega
  have htc := wrap_cases d.buf.length (d.head + d.count)
  rw [← htail] at htc
  have htl : d.tail < d.buf.length := by omega
  have hpl : wprev d.buf.length d.tail < d.buf.length := by unfold wprev; ring_omega
  unfold back
  rw [if_neg (by omega), mask_prev hk htl]
  simp only [Option.bind_eq_bind, Option.bind_some]
  rw [rd_eq hpl]
  simp only [Option.bind_some, slot_eq, wrap, wprev]
  ring_omega

theorem at_spec {P : Params} {d : Deque α} (hw : WF P d) {i : Int} (h0 : 0 ≤ i) (h1 : i < d.count) :
    at_ d i = some (.val (slot d i.toNat)) := by
  obtain ⟨k, hk⟩ := hw.cap_pos_pow (by have := hw.count_le; omega)
  obtain ⟨hpow, hhead, htail, hcnt, hmin, halloc⟩ := hw
  have hh : d.head < d.buf.length := by omega
  unfold at_
  rw [if_neg (by omega), mask_add hk hh h0 (by omega)]
  simp only [Option.bind_eq_bind, Option.bind_some]
  rw [rd_eq (wrap_lt (by omega) (by omega))]
  simp only [Option.bind_some, slot_eq]

theorem set_spec {P : Params} {d : Deque α} (hw : WF P d) {i : Int} (h0 : 0 ≤ i) (h1 : i < d.count) (v : α) :
    ∃ d', set_ d i v = some (d', .ok) ∧ WF P d' ∧ abs d' = (abs d).set i.toNat v := by
  obtain ⟨k, hk⟩ := hw.cap_pos_pow (by have := hw.count_le; omega)
  obtain ⟨hpow, hhead, htail, hcnt, hmin, halloc⟩ := hw
  have hh : d.head < d.buf.length := by omega
  unfold set_
  rw [if_neg (by omega), mask_add hk hh h0 (by omega)]
  simp only [Option.bind_eq_bind, Option.bind_some]
  rw [wr_eq (wrap_lt (by omega) (by omega))]
  simp only [Option.bind_some]
  refine ⟨_, rfl, ?_, ?_⟩
  · constructor
    · right; exact ⟨k, by simp only [List.length_set]; exact hk⟩
    · left; simp only [List.length_set]; exact hh
    · simp only [List.length_set]; exact htail
    · simp only [List.length_set]; exact hcnt
    · exact hmin
    · simp only [List.length_set]; exact halloc
  · apply abs_eq_of_slots
    · simp [abs_length]
    · intro j hj
      simp only [List.length_set, abs_length] at hj
      rw [List.getElem_set, abs_getElem]
      simp only [slot_eq, gd_set, wrap, List.length_set]
      ring_omega

/-- the `Clear` loop terminates within the fuel and leaves the buffer length alone -/
theorem clearLoop_spec {d : Deque α} {k : Nat} (hk : d.buf.length = 2 ^ k) (ht : d.tail < d.buf.length) :
    ∀ (fuel h : Nat) (buf : List α), buf.length = d.buf.length → h < d.buf.length →
      wrap d.buf.length (d.tail + d.buf.length - h) ≤ fuel →
      ∃ b, clearLoop d fuel h buf = some b ∧ b.length = d.buf.length := by
  intro fuel
  induction fuel with
  | zero =>
    intro h buf hl hh hf
    unfold clearLoop
    have : h = d.tail := by unfold wrap at hf; revert hf; ring_omega
    rw [if_pos this]
    exact ⟨buf, rfl, hl⟩
  | succ f ih =>
    intro h buf hl hh hf
    unfold clearLoop
    by_cases heq : h = d.tail
    · rw [if_pos heq]; exact ⟨buf, rfl, hl⟩
    · rw [if_neg heq]
      simp only [Option.bind_eq_bind]
      rw [wr_eq (by omega), mask_next hk hh]
      simp only [Option.bind_some]
      apply ih
      · simp only [List.length_set]; exact hl
      · exact wrap_lt (by omega) (by omega)
      · unfold wrap at hf ⊢; revert hf; ring_omega

theorem clear_spec {P : Params} {d : Deque α} (hw : WF P d) :
    ∃ d', clear d = some d' ∧ WF P d' ∧ abs d' = [] := by
  obtain ⟨hpow, hhead, htail, hcnt, hmin, halloc⟩ := hw
  have htc := wrap_cases d.buf.length (d.head + d.count)
  rw [← htail] at htc
  unfold clear
  by_cases hz : d.buf.length = 0
  · have h0 : d.head = 0 := by omega
    have ht0 : d.tail = 0 := by omega
    have : clearLoop d d.buf.length d.head d.buf = some d.buf := by
      unfold clearLoop; rw [if_pos (by omega)]
    rw [this]
    simp only [Option.bind_eq_bind, Option.bind_some]
    refine ⟨_, rfl, ?_, by simp [abs]⟩
    constructor
    · exact hpow
    · right; exact ⟨hz, rfl⟩
    · simp only [wrap]; ring_omega
    · simp only []; omega
    · exact hmin
    · exact halloc
  · obtain ⟨k, hk⟩ : ∃ k, d.buf.length = 2 ^ k := by
      rcases hpow with h | h
      · omega
      · exact h
    have hh : d.head < d.buf.length := by omega
    obtain ⟨b, hb, hbl⟩ := clearLoop_spec hk (by omega) d.buf.length d.head d.buf rfl hh
      (by unfold wrap; ring_omega)
    rw [hb]
    simp only [Option.bind_eq_bind, Option.bind_some]
    refine ⟨_, rfl, ?_, by simp [abs]⟩
    constructor
    · right; exact ⟨k, by simp only []; omega⟩
    · left; simp only []; omega
    · simp only [wrap]; ring_omega
    · simp only []; omega
    · exact hmin
    · simp only []; rw [hbl]; exact halloc

/-- one iteration of the front-to-back loop on a buffer with a free slot -/
theorem rotFwd_step {P : Params} {d : Deque α} (hw : WF P d) (hpos : 0 < d.count) (hroom : d.count < d.buf.length) :
    ∃ b h t, rd d.buf d.head = some (gd d.buf d.head) ∧
      wr d.buf d.tail (gd d.buf d.head) = some (d.buf.set d.tail (gd d.buf d.head)) ∧
      wr (d.buf.set d.tail (gd d.buf d.head)) d.head nil = some b ∧
      mask d ((d.head : Int) + 1) = some h ∧ mask d ((d.tail : Int) + 1) = some t ∧
      WF P { d with buf := b, head := h, tail := t } ∧ b.length = d.buf.length ∧
      ∀ i, i < d.count → slot { d with buf := b, head := h, tail := t } i = slot d (wrap d.count (i + 1)) := by
  obtain ⟨k, hk⟩ := hw.cap_pos_pow (by omega)
  obtain ⟨hpow, hhead, htail, hcnt, hmin, halloc⟩ := hw
  have hh : d.head < d.buf.length := by omega
  have htc := wrap_cases d.buf.length (d.head + d.count)
  rw [← htail] at htc
  have htl : d.tail < d.buf.length := by omega
  refine ⟨_, _, _, rd_eq hh, wr_eq htl, wr_eq (by simp only [List.length_set]; exact hh), mask_next hk hh, mask_next hk htl, ?_, ?_, ?_⟩
  · constructor
    · right; exact ⟨k, by simp only [List.length_set]; exact hk⟩
    · left; simp only [List.length_set, wrap]; ring_omega
    · simp only [List.length_set, wrap]; ring_omega
    · simp only [List.length_set]; omega
    · exact hmin
    · simp only [List.length_set]; exact halloc
  · simp only [List.length_set]
  · intro i hi
    simp only [slot_eq, gd_set, wrap, List.length_set]
    ring_omega

theorem rotFwd_spec {P : Params} : ∀ (n : Nat) (d : Deque α), WF P d → 0 < d.count → d.count < d.buf.length →
    n ≤ d.count →
    ∃ d', rotFwd n d = some d' ∧ WF P d' ∧ d'.count = d.count ∧
      ∀ i, i < d.count → slot d' i = slot d (wrap d.count (i + n)) := by
  intro n
  induction n with
  | zero =>
    intro d hw hpos hroom hn
    refine ⟨d, rfl, hw, rfl, ?_⟩
    intro i hi
    simp only [wrap, Nat.add_zero]; rw [if_pos hi]
  | succ n ih =>
    intro d hw hpos hroom hn
    obtain ⟨b, h, t, e1, e2, e3, e4, e5, hw1, hbl, hs1⟩ := rotFwd_step hw hpos hroom
    unfold rotFwd
    simp only [Option.bind_eq_bind]
    rw [e1]; simp only [Option.bind_some]
    rw [e2]; simp only [Option.bind_some]
    rw [e3]; simp only [Option.bind_some]
    rw [e4]; simp only [Option.bind_some]
    rw [e5]; simp only [Option.bind_some]
    obtain ⟨d', hr, hw', hc', hs'⟩ := ih { d with buf := b, head := h, tail := t } hw1 hpos (by simp only []; omega) (by simp only []; omega)
    refine ⟨d', hr, hw', hc', ?_⟩
    intro i hi
    rw [hs' i hi]
    simp only [] at hs1 ⊢
    rw [hs1 _ (wrap_lt (by omega) hpos)]
    congr 1
    unfold wrap; ring_omega

/-- one iteration of the back-to-front loop on a buffer with a free slot -/
theorem rotBack_step {P : Params} {d : Deque α} (hw : WF P d) (hpos : 0 < d.count) (hroom : d.count < d.buf.length) :
    ∃ b h t, mask d ((d.head : Int) - 1) = some h ∧ mask d ((d.tail : Int) - 1) = some t ∧
      rd d.buf t = some (gd d.buf t) ∧
      wr d.buf h (gd d.buf t) = some (d.buf.set h (gd d.buf t)) ∧
      wr (d.buf.set h (gd d.buf t)) t nil = some b ∧
      WF P { d with buf := b, head := h, tail := t } ∧ b.length = d.buf.length ∧
      ∀ i, i < d.count → slot { d with buf := b, head := h, tail := t } i = slot d (wprev d.count i) := by
  obtain ⟨k, hk⟩ := hw.cap_pos_pow (by omega)
  obtain ⟨hpow, hhead, htail, hcnt, hmin, halloc⟩ := hw
  have hh : d.head < d.buf.length := by omega
  have htc := wrap_cases d.buf.length (d.head + d.count)
  rw [← htail] at htc
  have htl : d.tail < d.buf.length := by omega
  have hph : wprev d.buf.length d.head < d.buf.length := by unfold wprev; ring_omega
  have hpt : wprev d.buf.length d.tail < d.buf.length := by unfold wprev; ring_omega
  refine ⟨_, _, _, mask_prev hk hh, mask_prev hk htl, rd_eq hpt, wr_eq hph,
    wr_eq (by simp only [List.length_set]; exact hpt), ?_, ?_, ?_⟩
  · constructor
    · right; exact ⟨k, by simp only [List.length_set]; exact hk⟩
    · left; simp only [List.length_set]; exact hph
    · simp only [List.length_set, wrap, wprev]; ring_omega
    · simp only [List.length_set]; omega
    · exact hmin
    · simp only [List.length_set]; exact halloc
  · simp only [List.length_set]
  · intro i hi
    simp only [slot_eq, gd_set, wrap, wprev, List.length_set]
    ring_omega

theorem rotBack_spec {P : Params} : ∀ (n : Nat) (d : Deque α), WF P d → 0 < d.count → d.count < d.buf.length →
    n ≤ d.count →
    ∃ d', rotBack n d = some d' ∧ WF P d' ∧ d'.count = d.count ∧
      ∀ i, i < d.count → slot d' i = slot d (wrap d.count (i + d.count - n)) := by
  intro n
  induction n with
  | zero =>
    intro d hw hpos hroom hn
    refine ⟨d, rfl, hw, rfl, ?_⟩
    intro i hi
    congr 1
    simp only [wrap, Nat.sub_zero]; ring_omega
  | succ n ih =>
    intro d hw hpos hroom hn
    obtain ⟨b, h, t, e1, e2, e3, e4, e5, hw1, hbl, hs1⟩ := rotBack_step hw hpos hroom
    unfold rotBack
    simp only [Option.bind_eq_bind]
    rw [e1]; simp only [Option.bind_some]
    rw [e2]; simp only [Option.bind_some]
    rw [e3]; simp only [Option.bind_some]
    rw [e4]; simp only [Option.bind_some]
    rw [e5]; simp only [Option.bind_some]
    obtain ⟨d', hr, hw', hc', hs'⟩ := ih { d with buf := b, head := h, tail := t } hw1 hpos (by simp only []; omega) (by simp only []; omega)
    refine ⟨d', hr, hw', hc', ?_⟩
    intro i hi
    rw [hs' i hi]
    simp only [] at hs1 ⊢
    rw [hs1 _ (wrap_lt (by omega) hpos)]
    congr 1
    unfold wrap wprev; ring_omega

/-- Go's truncated remainder against the Euclidean one -/
theorem tmod_cases (n : Int) (c : Nat) (hc : 0 < c) :
    0 ≤ n % (c : Int) ∧ n % (c : Int) < c ∧
    (Int.tmod n c = n % (c : Int) ∨ (Int.tmod n c = n % (c : Int) - c ∧ n % (c : Int) ≠ 0)) := by
  have h1 : 0 ≤ n % (c : Int) := Int.emod_nonneg _ (by omega)
  have h2 : n % (c : Int) < c := Int.emod_lt_of_pos _ (by omega)
  refine ⟨h1, h2, ?_⟩
  rw [Int.tmod_eq_emod]
  by_cases h : 0 ≤ n ∨ (c : Int) ∣ n
  · left; rw [if_pos h]; omega
  · right
    rw [if_neg h]
    refine ⟨by omega, ?_⟩
    intro h0
    exact h (Or.inr (Int.dvd_of_emod_eq_zero h0))

/-- rotation of a plain list, by index -/
theorem rotl_getElem (l : List α) (k i : Nat) (hk : k ≤ l.length) (hi : i < (l.drop k ++ l.take k).length) :
    (l.drop k ++ l.take k)[i] = l[wrap l.length (i + k)]'(by
      simp only [List.length_append, List.length_drop, List.length_take] at hi
      unfold wrap; split <;> omega) := by
  simp only [List.length_append, List.length_drop, List.length_take] at hi
  rw [List.getElem_append]
  split
  · rename_i h
    simp only [List.length_drop] at h
    rw [List.getElem_drop]
    congr 1
    unfold wrap; ring_omega
  · rename_i h
    simp only [List.length_drop] at h
    rw [List.getElem_take]
    congr 1
    simp only [List.length_drop]
    unfold wrap; ring_omega

theorem rotate_spec {P : Params} {d : Deque α} (hw : WF P d) (n : Int) :
    ∃ d', rotate d n = some d' ∧ WF P d' ∧ abs d' = (listStep (abs d) (.rotate n)).1 := by
  unfold rotate listStep
  simp only [abs_length]
  by_cases h1 : d.count ≤ 1
  · rw [if_pos h1, if_pos h1]; exact ⟨d, rfl, hw, rfl⟩
  · rw [if_neg h1, if_neg h1]
    simp only []
    have hw0 := hw
    obtain ⟨k, hk⟩ := hw.cap_pos_pow (by have := hw.count_le; omega)
    obtain ⟨hpow, hhead, htail, hcnt, hmin, halloc⟩ := hw
    have hh : d.head < d.buf.length := by omega
    have htc := wrap_cases d.buf.length (d.head + d.count)
    rw [← htail] at htc
    obtain ⟨he0, he1, hcases⟩ := tmod_cases n d.count (by omega)
    -- the list side, by index
    have hlist : ∀ (d' : Deque α), d'.count = d.count →
        (∀ i, i < d.count → slot d' i = slot d (wrap d.count (i + (n % (d.count : Int)).toNat))) →
        abs d' = (abs d).drop (n % (d.count : Int)).toNat ++ (abs d).take (n % (d.count : Int)).toNat := by
      intro d' hc' hs'
      apply abs_eq_of_slots
      · simp [abs_length]; omega
      · intro i hi
        rw [rotl_getElem _ _ _ (by simp [abs_length]; omega) hi, abs_getElem]
        simp only [List.length_append, List.length_drop, List.length_take, abs_length] at hi
        rw [hs' i (by omega)]
        simp only [abs_length]
    by_cases hz : Int.tmod n d.count = 0
    · rw [if_pos hz]
      refine ⟨d, rfl, hw0, ?_⟩
      have : (n % (d.count : Int)).toNat = 0 := by omega
      rw [this]; simp
    · rw [if_neg hz]
      by_cases hfull : d.head = d.tail
      · -- no empty slot: only the indexes move
        rw [if_pos hfull]
        have hcf : d.count = d.buf.length := by omega
        rw [← hfull, mask_eq hk (by omega) (by omega)]
        simp only [Option.bind_eq_bind, Option.bind_some]
        refine ⟨_, rfl, ?_, ?_⟩
        · constructor
          · exact hpow
          · left; simp only []; ring_omega
          · simp only [wrap]; ring_omega
          · exact hcnt
          · exact hmin
          · exact halloc
        · refine hlist _ (by rfl) ?_
          intro i hi
          simp only [slot_eq, wrap]
          ring_omega
      · rw [if_neg hfull]
        have hroom : d.count < d.buf.length := by omega
        by_cases hneg : Int.tmod n d.count < 0
        · rw [if_pos hneg]
          obtain ⟨d', hr, hw', hc', hs'⟩ := rotBack_spec (P := P) (Int.tmod n d.count).natAbs d hw0 (by omega) hroom (by omega)
          refine ⟨d', hr, hw', hlist d' hc' ?_⟩
          intro i hi
          rw [hs' i hi]
          congr 1
          unfold wrap; ring_omega
        · rw [if_neg hneg]
          obtain ⟨d', hr, hw', hc', hs'⟩ := rotFwd_spec (P := P) (Int.tmod n d.count).toNat d hw0 (by omega) hroom (by omega)
          refine ⟨d', hr, hw', hlist d' hc' ?_⟩
          intro i hi
          rw [hs' i hi]
          congr 1
          unfold wrap; ring_omega

theorem moveLoop_spec {P : Params} {d : Deque α} (hw : WF P d) (hcap : 0 < d.buf.length) :
    ∀ (k i : Nat) (nb : List α), i + k = d.count → d.count ≤ nb.length →
      ∃ r, moveLoop d k i nb = some r ∧ r.length = nb.length ∧
        ∀ j, j < d.count → gd r j = if j < i then gd nb j else slot d j := by
  obtain ⟨kk, hk⟩ := hw.cap_pos_pow hcap
  obtain ⟨hpow, hhead, htail, hcnt, hmin, halloc⟩ := hw
  have hh : d.head < d.buf.length := by omega
  intro k
  induction k with
  | zero =>
    intro i nb hik hlen
    refine ⟨nb, rfl, rfl, ?_⟩
    intro j hj
    rw [if_pos (by omega)]
  | succ k ih =>
    intro i nb hik hlen
    unfold moveLoop
    simp only [Option.bind_eq_bind]
    have hm := mask_add hk hh (i := (i : Int)) (by omega) (by omega)
    simp only [Int.toNat_natCast] at hm
    rw [hm]
    simp only [Option.bind_some]
    rw [rd_eq (wrap_lt (by omega) hcap)]
    simp only [Option.bind_some]
    rw [wr_eq (by omega)]
    simp only [Option.bind_some]
    obtain ⟨r, hr, hrl, hrs⟩ := ih (i + 1) (nb.set i (gd d.buf (wrap d.buf.length (d.head + i)))) (by omega)
      (by simp only [List.length_set]; exact hlen)
    refine ⟨r, hr, by rw [hrl, List.length_set], ?_⟩
    intro j hj
    rw [hrs j hj, gd_set]
    simp only [slot_eq]
    ring_omega

theorem setMinCapacity_spec {P : Params} (hv : ValidD P) {d : Deque α} (hw : WF P d) (e : Nat) :
    ∃ d', setMinCapacity P d e = some d' ∧ WF P d' ∧ abs d' = abs d := by
  obtain ⟨⟨k0, hk0, hmc⟩, hg, hsh⟩ := hv
  have hw0 := hw
  obtain ⟨hpow, hhead, htail, hcnt, hmin, halloc⟩ := hw
  unfold setMinCapacity
  simp only []
  -- the new minimum is a power of two not below minCapacity
  have hmcp : ∀ mc, mc = (if e < 63 ∧ 2 ^ e > P.minCapacity then 2 ^ e else P.minCapacity) →
      (∃ j, mc = 2 ^ j) ∧ P.minCapacity ≤ mc ∧ 0 < mc := by
    intro mc hmcdef
    have hpos0 : 0 < P.minCapacity := by rw [hmc]; exact Nat.two_pow_pos k0
    split at hmcdef
    · rename_i hc
      exact ⟨⟨e, hmcdef⟩, by omega, by omega⟩
    · exact ⟨⟨k0, by omega⟩, by omega, by omega⟩
  generalize hmcdef : (if e < 63 ∧ 2 ^ e > P.minCapacity then 2 ^ e else P.minCapacity) = mc
  obtain ⟨⟨j, hj⟩, hge, hpos⟩ := hmcp mc hmcdef.symm
  by_cases hc : d.buf.length ≠ 0 ∧ d.buf.length < mc
  · rw [if_pos hc]
    obtain ⟨r, hr, hrl, hrs⟩ := moveLoop_spec hw0 (by omega) d.count 0 (List.replicate mc (nil : α)) (by omega)
      (by simp only [List.length_replicate]; omega)
    rw [hr]
    simp only [Option.bind_eq_bind, Option.bind_some]
    simp only [List.length_replicate] at hrl
    refine ⟨_, rfl, ?_, ?_⟩
    · constructor
      · right; exact ⟨j, by simp only []; omega⟩
      · left; simp only []; omega
      · simp only [wrap]; ring_omega
      · simp only []; omega
      · right; exact ⟨⟨j, hj⟩, hge⟩
      · intro _; simp only []; omega
    · refine abs_congr (d := d) rfl ?_
      intro i hi
      rw [slot_eq]
      simp only [wrap, Nat.zero_add]
      rw [if_pos (by omega), hrs i hi, if_neg (by omega)]
  · rw [if_neg hc]
    refine ⟨_, rfl, ?_, rfl⟩
    constructor
    · exact hpow
    · exact hhead
    · exact htail
    · exact hcnt
    · right; exact ⟨⟨j, hj⟩, hge⟩
    · intro hp
      have hp' : 0 < d.buf.length := hp
      show mc ≠ 0 ∧ mc ≤ d.buf.length
      omega

theorem zero_wf (P : Params) : WF P (Deque.zero : Deque α) := by
  constructor <;> simp [Deque.zero, wrap]

theorem roundUpAux_spec : ∀ (fuel x target : Nat) (k : Nat), target - x ≤ fuel → x = 2 ^ k →
    ∃ y j, roundUpAux fuel x target = some y ∧ y = 2 ^ j ∧ x ≤ y ∧ target ≤ y := by
  intro fuel
  induction fuel with
  | zero =>
    intro x target k hf hx
    unfold roundUpAux
    rw [if_pos (by omega)]
    exact ⟨x, k, rfl, hx, Nat.le_refl _, by omega⟩
  | succ f ih =>
    intro x target k hf hx
    unfold roundUpAux
    by_cases h : target ≤ x
    · rw [if_pos h]; exact ⟨x, k, rfl, hx, Nat.le_refl _, h⟩
    · rw [if_neg h]
      have hpos : 0 < x := by rw [hx]; exact Nat.two_pow_pos k
      rw [if_neg (by omega)]
      have hx2 : x <<< 1 = 2 ^ (k + 1) := by rw [Nat.shiftLeft_eq, hx, Nat.pow_one, Nat.pow_succ]
      obtain ⟨y, j, hy, hyj, hle, htl⟩ := ih (x <<< 1) target (k + 1) (by rw [Nat.shiftLeft_eq]; omega) hx2
      refine ⟨y, j, hy, hyj, ?_, htl⟩
      rw [Nat.shiftLeft_eq] at hle; omega

theorem roundUp_spec (x target k : Nat) (hx : x = 2 ^ k) :
    ∃ y j, roundUp x target = some y ∧ y = 2 ^ j ∧ x ≤ y ∧ target ≤ y :=
  roundUpAux_spec target x target k (by omega) hx

theorem new_spec {P : Params} (hv : ValidD P) (size : List Int) :
    ∃ d : Deque α, Deque.new P size = some d ∧ WF P d ∧ abs d = [] ∧
      (size.getD 0 0 ≠ 0 → (size.getD 0 0).toNat ≤ d.buf.length ∧ 0 < d.buf.length) ∧
      (size.getD 1 0).toNat ≤ d.minCap := by
  obtain ⟨⟨k0, hk0, hmc⟩, hg, hsh⟩ := hv
  unfold Deque.new
  obtain ⟨m, j, hm, hmj, hmle, hmt⟩ := roundUp_spec P.minCapacity (size.getD 1 0).toNat k0 hmc
  simp only [Option.bind_eq_bind]
  rw [hm]
  simp only [Option.bind_some]
  have hmpos : 0 < m := by rw [hmj]; exact Nat.two_pow_pos j
  by_cases hc : size.getD 0 0 ≠ 0
  · rw [if_pos hc]
    obtain ⟨b, jb, hb, hbj, hble, hbt⟩ := roundUp_spec m (size.getD 0 0).toNat j hmj
    rw [hb]
    simp only [Option.bind_some]
    refine ⟨_, rfl, ?_, by simp [abs], ?_, hmt⟩
    · constructor
      · right; exact ⟨jb, by simp only [List.length_replicate]; exact hbj⟩
      · left; simp only [List.length_replicate]; omega
      · simp only [List.length_replicate, wrap]; ring_omega
      · simp only []; omega
      · right; exact ⟨⟨j, hmj⟩, hmle⟩
      · intro _; simp only [List.length_replicate]; omega
    · intro _; simp only [List.length_replicate]; omega
  · rw [if_neg hc]
    refine ⟨_, rfl, ?_, by simp [abs], ?_, hmt⟩
    · constructor
      · left; rfl
      · right; exact ⟨rfl, rfl⟩
      · simp [wrap]
      · simp
      · right; exact ⟨⟨j, hmj⟩, hmle⟩
      · intro h; simp at h
    · intro h; exact absurd h hc

theorem abs_nil_of_count {d : Deque α} (h : d.count = 0) : abs d = [] := by simp [abs, h]

theorem abs_head? {d : Deque α} (h : 0 < d.count) : (abs d).head? = some (slot d 0) := by
  rw [List.head?_eq_getElem?, List.getElem?_eq_getElem (by simpa [abs_length] using h), abs_getElem]

theorem abs_getLast? {d : Deque α} (h : 0 < d.count) : (abs d).getLast? = some (slot d (d.count - 1)) := by
  rw [List.getLast?_eq_getElem?, abs_length, List.getElem?_eq_getElem (by simp [abs_length]; omega), abs_getElem]

/-- every call succeeds on a well-formed deque, keeps it well-formed and does what the plain list does -/
theorem step_refines {P : Params} (hv : ValidD P) {d : Deque α} (hw : WF P d) (op : Op α) :
    ∃ d' out, step P d op = some (d', out) ∧ WF P d' ∧ (abs d', out) = listStep (abs d) op := by
  cases op with
  | pushBack v =>
    obtain ⟨d', h, hw', ha⟩ := pushBack_spec hv hw v
    exact ⟨d', .ok, by simp [step, h], hw', by simp [listStep, ha]⟩
  | pushFront v =>
    obtain ⟨d', h, hw', ha⟩ := pushFront_spec hv hw v
    exact ⟨d', .ok, by simp [step, h], hw', by simp [listStep, ha]⟩
  | popFront =>
    by_cases hc : d.count = 0
    · refine ⟨d, .panic, ?_, hw, ?_⟩
      · simp [step, popFront, hc]
      · simp [listStep, abs_nil_of_count hc]
    · obtain ⟨d', x, h, hw', ha⟩ := popFront_spec hv hw (by omega)
      exact ⟨d', .val x, by simp [step, h], hw', by simp [listStep, ha]⟩
  | popBack =>
    by_cases hc : d.count = 0
    · refine ⟨d, .panic, ?_, hw, ?_⟩
      · simp [step, popBack, hc]
      · simp [listStep, abs_nil_of_count hc]
    · obtain ⟨d', x, h, hw', ha⟩ := popBack_spec hv hw (by omega)
      exact ⟨d', .val x, by simp [step, h], hw', by simp [listStep, ha]⟩
  | front =>
    by_cases hc : d.count = 0
    · refine ⟨d, .panic, ?_, hw, ?_⟩
      · simp [step, front, hc]
      · simp [listStep, abs_nil_of_count hc]
    · refine ⟨d, .val (slot d 0), ?_, hw, ?_⟩
      · simp [step, front_spec hw (by omega)]
      · simp [listStep, abs_head? (d := d) (by omega)]
  | back =>
    by_cases hc : d.count = 0
    · refine ⟨d, .panic, ?_, hw, ?_⟩
      · simp [step, back, hc]
      · simp [listStep, abs_nil_of_count hc]
    · refine ⟨d, .val (slot d (d.count - 1)), ?_, hw, ?_⟩
      · simp [step, back_spec hw (by omega)]
      · simp [listStep, abs_getLast? (d := d) (by omega)]
  | «at» i =>
    by_cases hc : i < 0 ∨ i ≥ d.count
    · refine ⟨d, .panic, ?_, hw, ?_⟩
      · simp only [step, at_]; rw [if_pos hc]; rfl
      · simp only [listStep, abs_length]; rw [if_pos hc]
    · refine ⟨d, .val (slot d i.toNat), ?_, hw, ?_⟩
      · simp [step, at_spec hw (i := i) (by omega) (by omega)]
      · simp only [listStep, abs_length]; rw [if_neg hc]
        rw [List.getD_eq_getElem?_getD, List.getElem?_eq_getElem (by simp [abs_length]; omega), abs_getElem]
        rfl
  | set i v =>
    by_cases hc : i < 0 ∨ i ≥ d.count
    · refine ⟨d, .panic, ?_, hw, ?_⟩
      · simp only [step, set_]; rw [if_pos hc]
      · simp only [listStep, abs_length]; rw [if_pos hc]
    · obtain ⟨d', h, hw', ha⟩ := set_spec hw (i := i) (by omega) (by omega) v
      refine ⟨d', .ok, by simp [step, h], hw', ?_⟩
      simp only [listStep, abs_length]; rw [if_neg hc, ha]
  | clear =>
    obtain ⟨d', h, hw', ha⟩ := clear_spec hw
    exact ⟨d', .ok, by simp [step, h], hw', by simp [listStep, ha]⟩
  | rotate n =>
    obtain ⟨d', h, hw', ha⟩ := rotate_spec hw n
    refine ⟨d', .ok, by simp [step, h], hw', ?_⟩
    rw [ha]
    simp only [listStep]
    split <;> rfl
  | setMinCap e =>
    obtain ⟨d', h, hw', ha⟩ := setMinCapacity_spec hv hw e
    exact ⟨d', .ok, by simp [step, h], hw', by simp [listStep, ha]⟩

/-- whole histories -/
theorem run_refines {P : Params} (hv : ValidD P) : ∀ (ops : List (Op α)) (d : Deque α), WF P d →
    ∃ d' outs, run P d ops = some (d', outs) ∧ WF P d' ∧ (abs d', outs) = listRun (abs d) ops := by
  intro ops
  induction ops with
  | nil => intro d hw; exact ⟨d, [], rfl, hw, rfl⟩
  | cons op ops ih =>
    intro d hw
    obtain ⟨d1, o, h1, hw1, hr1⟩ := step_refines hv hw op
    obtain ⟨d2, os, h2, hw2, hr2⟩ := ih d1 hw1
    refine ⟨d2, o :: os, ?_, hw2, ?_⟩
    · simp [run, h1, h2]
    · simp only [listRun]
      rw [← hr1]
      simp only []
      rw [← hr2]

/-- the states a program can reach through the API: the zero value or `NewDeque(size...)`, then any calls -/
inductive Reach (P : Params) : Deque α → Prop where
  | zero : Reach P Deque.zero
  | new (size : List Int) (d : Deque α) : Deque.new P size = some d → Reach P d
  | call (d : Deque α) (op : Op α) (d' : Deque α) (out : Out α) :
      Reach P d → step P d op = some (d', out) → Reach P d'

theorem reach_run {P : Params} : ∀ (ops : List (Op α)) (d d' : Deque α) (outs : List (Out α)),
    Reach P d → run P d ops = some (d', outs) → Reach P d' := by
  intro ops
  induction ops with
  | nil => intro d d' outs hr h; simp [run] at h; rw [← h.1]; exact hr
  | cons op ops ih =>
    intro d d' outs hr h
    simp only [run, Option.bind_eq_bind] at h
    cases h1 : step P d op with
    | none => rw [h1] at h; simp at h
    | some r =>
      obtain ⟨d1, o1⟩ := r
      rw [h1] at h
      simp only [Option.bind_some] at h
      cases h2 : run P d1 ops with
      | none => rw [h2] at h; simp at h
      | some r2 =>
        obtain ⟨d2, os⟩ := r2
        rw [h2] at h
        simp only [Option.bind_some, Option.some.injEq, Prod.mk.injEq] at h
        rw [← h.1]
        exact ih d1 d2 os (Reach.call d op d1 o1 hr h1) h2

end
end Fatchoy.C12
