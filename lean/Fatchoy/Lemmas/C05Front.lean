/-
Helper lemmas shared by C05 and C06: the invariant of the client-side bookkeeping (`refer`, `nextId`,
the two request queues, the cancelled marks) relative to the list `linked` of ids the back end
(wheel or heap) currently holds, and its preservation by every elementary state change.
-/
import Fatchoy.Model.C05Sched
namespace Fatchoy.C05

def Front.addIds (f : Front) : List Nat := f.addQ.map (·.id)

structure FrontOK (f : Front) (linked : List Nat) : Prop where
  refer_le : ∀ i ∈ f.refer, i ≤ f.nextId
  addq_le : ∀ i ∈ f.addIds, i ≤ f.nextId
  linked_le : ∀ i ∈ linked, i ≤ f.nextId
  canc_le : ∀ i ∈ f.cancelled, i ≤ f.nextId
  nodup : (f.addIds ++ linked).Nodup
  refer_nodup : f.refer.Nodup
  /-- the table holds exactly the timers that are somewhere in the pipeline and not cancelled -/
  refer_iff : ∀ i, i ∈ f.refer ↔ (i ∈ f.addIds ∨ i ∈ linked) ∧ i ∉ f.cancelled
  /-- a cancel request travels only for a cancelled timer -/
  delq : ∀ i ∈ f.delQ, i ∈ f.cancelled

theorem FrontOK.init : FrontOK Front.init [] := by
  constructor <;> simp [Front.init, Front.addIds]

theorem skipUsed_fresh (refer : List Nat) (hle : ∀ i ∈ refer, i ≤ n) : ∀ fuel id, n < id → skipUsed refer fuel id = id := by
  intro fuel
  induction fuel with
  | zero => intro id _; rfl
  | succ f _ =>
    intro id hid
    have : id ∉ refer := fun hm => by have := hle id hm; omega
    simp [skipUsed, this]

theorem nextID_eq (f : Front) (l : List Nat) (h : FrontOK f l) : nextID f = f.nextId + 1 :=
  skipUsed_fresh f.refer h.refer_le _ _ (by omega)

namespace FrontOK
variable {f : Front} {l l' : List Nat}

theorem perm (h : FrontOK f l) (hp : l.Perm l') : FrontOK f l' where
  refer_le := h.refer_le
  addq_le := h.addq_le
  linked_le := fun i hi => h.linked_le i (hp.mem_iff.mpr hi)
  canc_le := h.canc_le
  nodup := ((List.Perm.refl _).append hp).nodup_iff.mp h.nodup
  refer_nodup := h.refer_nodup
  refer_iff := fun i => by rw [h.refer_iff i, hp.mem_iff]
  delq := h.delq

/-- the log is not part of the invariant -/
theorem deliver (h : FrontOK f l) (t i d : Nat) : FrontOK (f.deliver t i d) l :=
  ⟨h.refer_le, h.addq_le, h.linked_le, h.canc_le, h.nodup, h.refer_nodup, h.refer_iff, h.delq⟩

/-- the back end unlinks a cancelled timer -/
theorem unlink_cancelled {i : Nat} (h : FrontOK f (i :: l)) (hc : i ∈ f.cancelled) : FrontOK f l where
  refer_le := h.refer_le
  addq_le := h.addq_le
  linked_le := fun j hj => h.linked_le j (List.mem_cons_of_mem _ hj)
  canc_le := h.canc_le
  nodup := by
    have := h.nodup
    rw [List.nodup_append] at this ⊢
    refine ⟨this.1, (List.nodup_cons.mp this.2.1).2, fun a ha b hb => this.2.2 a ha b (List.mem_cons_of_mem _ hb)⟩
  refer_nodup := h.refer_nodup
  refer_iff := fun j => by
    rw [h.refer_iff j]
    constructor
    · rintro ⟨h1 | h1, h2⟩
      · exact ⟨.inl h1, h2⟩
      · rcases List.mem_cons.mp h1 with rfl | h1
        · exact absurd hc h2
        · exact ⟨.inr h1, h2⟩
    · rintro ⟨h1 | h1, h2⟩
      · exact ⟨.inl h1, h2⟩
      · exact ⟨.inr (List.mem_cons_of_mem _ h1), h2⟩
  delq := h.delq

/-- the back end delivers a one-shot timer: unlinked and dropped from the table in one step -/
theorem unlink_oneshot {i : Nat} (h : FrontOK f (i :: l)) : FrontOK (f.drop i) l where
  refer_le := fun j hj => h.refer_le j (List.mem_filter.mp hj).1
  addq_le := h.addq_le
  linked_le := fun j hj => h.linked_le j (List.mem_cons_of_mem _ hj)
  canc_le := h.canc_le
  nodup := by
    have := h.nodup
    rw [List.nodup_append] at this ⊢
    refine ⟨this.1, (List.nodup_cons.mp this.2.1).2, fun a ha b hb => this.2.2 a ha b (List.mem_cons_of_mem _ hb)⟩
  refer_nodup := h.refer_nodup.sublist List.filter_sublist
  refer_iff := fun j => by
    have hn := h.nodup
    rw [List.nodup_append] at hn
    have hi1 : i ∉ f.addIds := fun hm => hn.2.2 i hm i (List.mem_cons_self ..) rfl
    have hi2 : i ∉ l := (List.nodup_cons.mp hn.2.1).1
    show j ∈ f.refer.filter (· ≠ i) ↔ _
    rw [List.mem_filter, h.refer_iff j]
    simp only [ne_eq, decide_eq_true_eq, Front.drop]
    constructor
    · rintro ⟨⟨h1 | h1, h2⟩, h3⟩
      · exact ⟨.inl h1, h2⟩
      · rcases List.mem_cons.mp h1 with rfl | h1
        · exact absurd rfl h3
        · exact ⟨.inr h1, h2⟩
    · rintro ⟨h1 | h1, h2⟩
      · exact ⟨⟨.inl h1, h2⟩, fun e => hi1 (e ▸ h1)⟩
      · exact ⟨⟨.inr (List.mem_cons_of_mem _ h1), h2⟩, fun e => hi2 (e ▸ h1)⟩
  delq := h.delq

/-- RunAfter / RunEvery: a fresh id enters the table and the start queue -/
theorem start (h : FrontOK f l) (dl p : Nat) : FrontOK (f.start (nextID f) dl p) l := by
  rw [nextID_eq f l h]
  have hfa : f.nextId + 1 ∉ f.addIds := fun hm => by have := h.addq_le _ hm; omega
  have hfl : f.nextId + 1 ∉ l := fun hm => by have := h.linked_le _ hm; omega
  have hfc : f.nextId + 1 ∉ f.cancelled := fun hm => by have := h.canc_le _ hm; omega
  have hfr : f.nextId + 1 ∉ f.refer := fun hm => by have := h.refer_le _ hm; omega
  have ea : (f.start (f.nextId + 1) dl p).addIds = f.addIds ++ [f.nextId + 1] := by
    simp [Front.start, Front.addIds]
  constructor
  · intro i hi
    show i ≤ f.nextId + 1
    rcases List.mem_append.mp hi with hi | hi
    · have := h.refer_le i hi; omega
    · simp at hi; omega
  · intro i hi
    rw [ea] at hi
    show i ≤ f.nextId + 1
    rcases List.mem_append.mp hi with hi | hi
    · have := h.addq_le i hi; omega
    · simp at hi; omega
  · intro i hi
    show i ≤ f.nextId + 1
    have := h.linked_le i hi; omega
  · intro i hi
    show i ≤ f.nextId + 1
    have := h.canc_le i hi; omega
  · rw [ea]
    have := h.nodup
    rw [List.nodup_append] at this ⊢
    refine ⟨?_, this.2.1, ?_⟩
    · rw [List.nodup_append]
      refine ⟨this.1, by simp, ?_⟩
      intro a ha b hb
      simp at hb
      subst hb
      exact fun e => hfa (e ▸ ha)
    · intro a ha b hb
      rcases List.mem_append.mp ha with ha | ha
      · exact this.2.2 a ha b hb
      · simp at ha
        subst ha
        exact fun e => hfl (e ▸ hb)
  · show (f.refer ++ [f.nextId + 1]).Nodup
    rw [List.nodup_append]
    refine ⟨h.refer_nodup, by simp, ?_⟩
    intro a ha b hb
    simp at hb
    subst hb
    exact fun e => hfr (e ▸ ha)
  · intro i
    rw [ea]
    show i ∈ f.refer ++ [f.nextId + 1] ↔ (i ∈ f.addIds ++ [f.nextId + 1] ∨ i ∈ l) ∧ i ∉ f.cancelled
    simp only [List.mem_append, List.mem_singleton, h.refer_iff i]
    constructor
    · rintro (⟨h1 | h1, h2⟩ | rfl)
      · exact ⟨.inl (.inl h1), h2⟩
      · exact ⟨.inr h1, h2⟩
      · exact ⟨.inl (.inr rfl), hfc⟩
    · rintro ⟨(h1 | rfl) | h1, h2⟩
      · exact .inl ⟨.inl h1, h2⟩
      · exact .inr rfl
      · exact .inl ⟨.inr h1, h2⟩
  · exact h.delq

/-- the true branch of Cancel -/
theorem cancel {i : Nat} (h : FrontOK f l) (hi : i ∈ f.refer) : FrontOK (f.cancel i) l where
  refer_le := fun j hj => h.refer_le j (List.mem_filter.mp hj).1
  addq_le := h.addq_le
  linked_le := h.linked_le
  canc_le := fun j hj => by
    rcases List.mem_append.mp hj with hj | hj
    · exact h.canc_le j hj
    · simp at hj; subst hj; exact h.refer_le _ hi
  nodup := h.nodup
  refer_nodup := h.refer_nodup.sublist List.filter_sublist
  refer_iff := fun j => by
    show j ∈ f.refer.filter (· ≠ i) ↔ (j ∈ f.addIds ∨ j ∈ l) ∧ j ∉ f.cancelled ++ [i]
    rw [List.mem_filter, h.refer_iff j]
    simp only [ne_eq, decide_eq_true_eq, List.mem_append, List.mem_singleton, not_or]
    constructor
    · rintro ⟨⟨h1, h2⟩, h3⟩; exact ⟨h1, h2, h3⟩
    · rintro ⟨h1, h2, h3⟩; exact ⟨⟨h1, h2⟩, h3⟩
  delq := fun j hj => by
    show j ∈ f.cancelled ++ [i]
    rcases List.mem_append.mp hj with hj | hj
    · exact List.mem_append_left _ (h.delq j hj)
    · exact List.mem_append_right _ hj

/-- the worker takes a start request whose timer was cancelled meanwhile: dropped -/
theorem pop_add_drop {r : Req} {q : List Req} (h : FrontOK f l) (hq : f.addQ = r :: q) (hc : r.id ∈ f.cancelled) :
    FrontOK { f with addQ := q } l := by
  have ea : f.addIds = r.id :: q.map (·.id) := by simp [Front.addIds, hq]
  have hn := h.nodup
  rw [ea] at hn
  constructor
  · exact h.refer_le
  · intro i hi; exact h.addq_le i (by rw [ea]; exact List.mem_cons_of_mem _ hi)
  · exact h.linked_le
  · exact h.canc_le
  · exact (List.nodup_cons.mp hn).2
  · exact h.refer_nodup
  · intro i
    rw [h.refer_iff i, ea]
    show _ ↔ (i ∈ q.map (·.id) ∨ i ∈ l) ∧ i ∉ f.cancelled
    constructor
    · rintro ⟨h1 | h1, h2⟩
      · rcases List.mem_cons.mp h1 with rfl | h1
        · exact absurd hc h2
        · exact ⟨.inl h1, h2⟩
      · exact ⟨.inr h1, h2⟩
    · rintro ⟨h1 | h1, h2⟩
      · exact ⟨.inl (List.mem_cons_of_mem _ h1), h2⟩
      · exact ⟨.inr h1, h2⟩
  · exact h.delq

/-- the worker takes a start request and links the timer into the back end -/
theorem pop_add_link {r : Req} {q : List Req} (h : FrontOK f l) (hq : f.addQ = r :: q) :
    FrontOK { f with addQ := q } (r.id :: l) := by
  have ea : f.addIds = r.id :: q.map (·.id) := by simp [Front.addIds, hq]
  have hn := h.nodup
  rw [ea] at hn
  constructor
  · exact h.refer_le
  · intro i hi; exact h.addq_le i (by rw [ea]; exact List.mem_cons_of_mem _ hi)
  · intro i hi
    rcases List.mem_cons.mp hi with rfl | hi
    · exact h.addq_le _ (by rw [ea]; exact List.mem_cons_self ..)
    · exact h.linked_le i hi
  · exact h.canc_le
  · show (q.map (·.id) ++ r.id :: l).Nodup
    exact (List.perm_middle.nodup_iff).mpr hn
  · exact h.refer_nodup
  · intro i
    rw [h.refer_iff i, ea]
    show _ ↔ (i ∈ q.map (·.id) ∨ i ∈ r.id :: l) ∧ i ∉ f.cancelled
    simp only [List.mem_cons]
    constructor
    · rintro ⟨(h1 | h1) | h1, h2⟩
      · exact ⟨.inr (.inl h1), h2⟩
      · exact ⟨.inl h1, h2⟩
      · exact ⟨.inr (.inr h1), h2⟩
    · rintro ⟨h1 | h1 | h1, h2⟩
      · exact ⟨.inl (.inr h1), h2⟩
      · exact ⟨.inl (.inl h1), h2⟩
      · exact ⟨.inr h1, h2⟩
  · exact h.delq

/-- the worker takes a cancel request: whatever the back end holds under that id goes -/
theorem pop_del {i : Nat} {q : List Nat} (h : FrontOK f l) (hq : f.delQ = i :: q) :
    FrontOK { f with delQ := q } (l.filter (· ≠ i)) := by
  have hc : i ∈ f.cancelled := h.delq i (by rw [hq]; exact List.mem_cons_self ..)
  constructor
  · exact h.refer_le
  · exact h.addq_le
  · intro j hj; exact h.linked_le j (List.mem_filter.mp hj).1
  · exact h.canc_le
  · have hn := h.nodup
    rw [List.nodup_append] at hn ⊢
    exact ⟨hn.1, hn.2.1.sublist List.filter_sublist, fun a ha b hb => hn.2.2 a ha b (List.mem_filter.mp hb).1⟩
  · exact h.refer_nodup
  · intro j
    rw [h.refer_iff j]
    show _ ↔ (j ∈ f.addIds ∨ j ∈ l.filter (· ≠ i)) ∧ j ∉ f.cancelled
    simp only [List.mem_filter, ne_eq, decide_eq_true_eq]
    constructor
    · rintro ⟨h1 | h1, h2⟩
      · exact ⟨.inl h1, h2⟩
      · exact ⟨.inr ⟨h1, fun e => h2 (e ▸ hc)⟩, h2⟩
    · rintro ⟨h1 | ⟨h1, _⟩, h2⟩
      · exact ⟨.inl h1, h2⟩
      · exact ⟨.inr h1, h2⟩
  · intro j hj; exact h.delq j (by rw [hq]; exact List.mem_cons_of_mem _ hj)

end FrontOK
end Fatchoy.C05
