/-
Helper lemmas and the invariant of the C15 LTS (Model/C15.lean).  Core only.
-/
import Fatchoy.Model.C15
namespace Fatchoy.C15

/-! ### the sequence search -/

theorem nextSeqAux_spec (used : List Seq) : ∀ (f : Nat) (c sq : Seq), nextSeqAux true used f c = some sq →
    sq ≠ 0 ∧ sq ∉ used
  | 0, _, _, h => by simp [nextSeqAux] at h
  | f + 1, c, sq, h => by
    simp only [nextSeqAux] at h
    split at h
    · rename_i hc
      injection h with h; subst h
      refine ⟨hc.1, ?_⟩
      rcases hc.2 with h' | h'
      · cases h'
      · exact h'
    · exact nextSeqAux_spec used f (c + 1) sq h

/-- when the search gives up, every candidate it looked at was 0 or outstanding -/
theorem nextSeqAux_none (used : List Seq) : ∀ (f : Nat) (c : Seq), nextSeqAux true used f c = none →
    ∀ k, k < f → (c + BitVec.ofNat 16 (k + 1) = 0 ∨ c + BitVec.ofNat 16 (k + 1) ∈ used)
  | 0, _, _, k, hk => by omega
  | f + 1, c, h, k, hk => by
    simp only [nextSeqAux] at h
    split at h
    · cases h
    · rename_i hc
      cases k with
      | zero =>
        have : c + BitVec.ofNat 16 (0 + 1) = c + 1 := by simp
        rw [this]
        by_cases h0 : c + 1 = 0
        · exact Or.inl h0
        · right
          by_cases hm : c + 1 ∈ used
          · exact hm
          · exact absurd ⟨h0, Or.inr hm⟩ hc
      | succ k =>
        have := nextSeqAux_none used f (c + 1) h k (by omega)
        have e : c + 1 + BitVec.ofNat 16 (k + 1) = c + BitVec.ofNat 16 (k + 1 + 1) := by
          rw [BitVec.add_assoc]; congr 1
          apply BitVec.eq_of_toNat_eq
          simp [BitVec.toNat_add, BitVec.toNat_ofNat]
          omega
        rw [e] at this
        exact this

/-- a refusal means that every non-zero sequence number is outstanding -/
theorem nextSeq_none_all_used (used : List Seq) (c : Seq) (h : nextSeqAux true used 65536 c = none) :
    ∀ v : Seq, v ≠ 0 → v ∈ used := by
  intro v hv
  -- v = c + (k+1) with k = (v - c - 1) mod 2^16
  let k := (v - c - 1).toNat
  have hk : k < 65536 := (v - c - 1).isLt
  have e : c + BitVec.ofNat 16 (k + 1) = v := by
    apply BitVec.eq_of_toNat_eq
    have hc := c.isLt; have hvv := v.isLt
    simp only [BitVec.toNat_add, BitVec.toNat_ofNat, k, BitVec.toNat_sub]
    simp
    omega
  rcases nextSeqAux_none used 65536 c h k hk with h' | h'
  · rw [e] at h'; exact absurd h' hv
  · rw [e] at h'; exact h'

/-! ### tables -/

def pids (l : List (Seq × Ctx)) : List Nat := l.map (·.2.id)
def eids (l : List Ctx) : List Nat := l.map (·.id)
def cids (l : List (Ctx × Pkt)) : List Nat := l.map (·.1.id)

theorem filter_keys_of_not_mem (l : List (Seq × Ctx)) (sq : Seq) (h : sq ∉ keys l) :
    l.filter (fun e => e.1 != sq) = l := by
  apply List.filter_eq_self.mpr
  intro e he
  have : e.1 ∈ keys l := List.mem_map_of_mem he
  simp only [bne_iff_ne, ne_eq]
  intro h'; exact h (h' ▸ this)

theorem keys_filter_sublist (l : List (Seq × Ctx)) (p : Seq × Ctx → Bool) : (keys (l.filter p)).Sublist (keys l) :=
  List.Sublist.map _ List.filter_sublist

theorem count_pids_filter_split (l : List (Seq × Ctx)) (p : Seq × Ctx → Bool) (i : Nat) :
    (pids (l.filter p)).count i + (pids (l.filter (fun e => !p e))).count i = (pids l).count i := by
  induction l with
  | nil => rfl
  | cons a l ih =>
    simp only [List.filter_cons]
    cases hp : p a <;> simp [pids, List.count_cons] at ih ⊢ <;> omega

/-- removing the entry with key `sq` from a table with distinct keys removes exactly that entry -/
theorem count_pids_remove (l : List (Seq × Ctx)) (hn : (keys l).Nodup) (e : Seq × Ctx) (he : e ∈ l) (i : Nat) :
    (pids (l.filter (fun x => x.1 != e.1))).count i + (if e.2.id = i then 1 else 0) = (pids l).count i := by
  induction l with
  | nil => cases he
  | cons a l ih =>
    have hn' : (keys l).Nodup := (List.nodup_cons.mp hn).2
    have ha : a.1 ∉ keys l := (List.nodup_cons.mp hn).1
    rcases List.mem_cons.mp he with h | h
    · subst h
      simp only [List.filter_cons, bne_self_eq_false, Bool.false_eq_true, if_false]
      rw [filter_keys_of_not_mem l e.1 ha]
      simp [pids, List.count_cons]
    · have hne : a.1 ≠ e.1 := by
        intro h'; exact ha (h' ▸ List.mem_map_of_mem h)
      have : (a.1 != e.1) = true := by simp [hne]
      simp only [List.filter_cons, this, if_true]
      have := ih hn' h
      simp [pids, List.count_cons] at this ⊢; omega

theorem find_mem {l : List (Seq × Ctx)} {sq : Seq} {e : Seq × Ctx} (h : l.find? (fun x => x.1 == sq) = some e) :
    e ∈ l ∧ e.1 = sq := by
  have h1 := List.mem_of_find?_eq_some h
  have h2 := List.find?_some h
  exact ⟨h1, by simpa using h2⟩

theorem find_none {l : List (Seq × Ctx)} {sq : Seq} (h : l.find? (fun x => x.1 == sq) = none) : sq ∉ keys l := by
  intro hm
  rcases List.mem_map.mp hm with ⟨e, he, hk⟩
  have := List.find?_eq_none.mp h e he
  simp [hk] at this


/-! ### RpcContext.run -/

def bcids (l : List (Ctx × Pkt)) : List Nat := (l.filter (fun e => e.1.mode == .block)).map (·.1.id)

theorem bcids_count_le (l : List (Ctx × Pkt)) (i : Nat) : (bcids l).count i ≤ (cids l).count i :=
  (List.Sublist.map _ List.filter_sublist).count_le i

theorem run_frame (P : Params) (s : St) (c : Ctx) (p : Pkt) :
    (run P s c p).cap = s.cap ∧ (run P s c p).counter = s.counter ∧ (run P s c p).pending = s.pending ∧
    (run P s c p).expired = s.expired ∧ (run P s c p).batches = s.batches ∧ (run P s c p).queue = s.queue ∧
    (run P s c p).nextId = s.nextId ∧
    (run P s c p).refused = s.refused ∧ (run P s c p).returned = s.returned ∧ (run P s c p).unmatched = s.unmatched ∧
    (run P s c p).completions = s.completions ++ [(c, p)] := by
  unfold run
  cases c.mode <;> simp only []
  · simp
  · split <;> simp

/-- the part of the invariant that `run` touches -/
structure InvR (P : Params) (s : St) : Prop where
  callbacks : s.callbacks = (s.completions.filter (fun e => e.1.mode == .async)).map (fun e => (e.1.id, cbArgs P e.2))
  blockCount : ∀ i, (s.returned.map (·.1)).count i + (s.doneBuf.map (·.1)).count i = (bcids s.completions).count i
  blockMem : ∀ e, e ∈ s.returned ∨ e ∈ s.doneBuf → ∃ c : Ctx, c.id = e.1 ∧ c.mode = .block ∧ (c, e.2) ∈ s.completions

theorem any_false_of_count_zero (l : List (Nat × Pkt)) (i : Nat) (h : (l.map (·.1)).count i = 0) :
    l.any (fun e => e.1 == i) = false := by
  have hn : i ∉ l.map (·.1) := List.count_eq_zero.mp h
  cases ha : l.any (fun e => e.1 == i) with
  | false => rfl
  | true =>
    rcases List.any_eq_true.mp ha with ⟨e, he, hi⟩
    have hei : e.1 = i := by simpa using hi
    exact absurd (hei ▸ List.mem_map_of_mem (f := (·.1)) he) hn

/-- completing a context that has no completion yet keeps the callback and waiter bookkeeping exact:
the callback runs once with `cbArgs`, the waiter's channel takes the packet (the non-blocking send never drops) -/
theorem run_invR (P : Params) (s : St) (c : Ctx) (p : Pkt) (h : InvR P s) (hfresh : (cids s.completions).count c.id = 0) :
    InvR P (run P s c p) := by
  have hb0 : (bcids s.completions).count c.id = 0 := Nat.le_zero.mp (hfresh ▸ bcids_count_le _ _)
  have hbuf : (s.doneBuf.map (·.1)).count c.id = 0 := by have := h.blockCount c.id; omega
  have hany := any_false_of_count_zero _ _ hbuf
  unfold run
  cases hm : c.mode <;> simp only []
  · refine ⟨?_, ?_, ?_⟩
    · simp [List.filter_append, h.callbacks, hm]
    · intro i
      have := h.blockCount i
      simpa [bcids, List.filter_append, hm] using this
    · intro e he
      obtain ⟨c', h1, h2, h3⟩ := h.blockMem e he
      exact ⟨c', h1, h2, List.mem_append_left _ h3⟩
  · rw [hany]
    simp only [Bool.false_eq_true, if_false]
    refine ⟨?_, ?_, ?_⟩
    · simp [List.filter_append, h.callbacks, hm]
    · intro i
      have := h.blockCount i
      simp only [bcids, List.filter_append, List.map_append, List.count_append] at this ⊢
      simp [hm, List.count_cons] at this ⊢
      omega
    · intro e he
      rcases he with he | he
      · obtain ⟨c', h1, h2, h3⟩ := h.blockMem e (Or.inl he)
        exact ⟨c', h1, h2, List.mem_append_left _ h3⟩
      · rcases List.mem_append.mp he with he | he
        · obtain ⟨c', h1, h2, h3⟩ := h.blockMem e (Or.inr he)
          exact ⟨c', h1, h2, List.mem_append_left _ h3⟩
        · have : e = (c.id, p) := by simpa using he
          subst this
          exact ⟨c, rfl, hm, List.mem_append_right _ (List.mem_singleton.mpr rfl)⟩

/-! ### batches -/

def bids (bs : List (List Ctx)) : List Nat := eids bs.flatten

theorem bids_append (bs : List (List Ctx)) (l : List Ctx) (i : Nat) :
    (bids (bs ++ [l])).count i = (bids bs).count i + (eids l).count i := by
  simp [bids, eids, List.flatten_append, List.count_append]

theorem eids_eraseIdx : ∀ (l : List Ctx) (k : Nat) (c : Ctx), l[k]? = some c → ∀ i,
    (eids (l.eraseIdx k)).count i + (if c.id = i then 1 else 0) = (eids l).count i
  | [], _, _, h, _ => by simp at h
  | a :: l, 0, c, h, i => by
    simp at h; subst h
    simp [eids, List.count_cons]
  | a :: l, k + 1, c, h, i => by
    simp at h
    have := eids_eraseIdx l k c h i
    simp [eids, List.count_cons] at this ⊢
    omega

theorem bids_set : ∀ (bs : List (List Ctx)) (b : Nat) (l l' : List Ctx), bs[b]? = some l → ∀ i,
    (bids (bs.set b l')).count i + (eids l).count i = (bids bs).count i + (eids l').count i
  | [], _, _, _, h, _ => by simp at h
  | a :: bs, 0, l, l', h, i => by
    simp at h; subst h
    simp [bids, eids, List.count_append]; omega
  | a :: bs, b + 1, l, l', h, i => by
    simp at h
    have := bids_set bs b l l' h i
    simp [bids, eids, List.count_append] at this ⊢
    omega

/-- taking one call out of a batch -/
theorem bids_complete (bs : List (List Ctx)) (b k : Nat) (l : List Ctx) (c : Ctx) (hb : bs[b]? = some l) (hk : l[k]? = some c)
    (i : Nat) : (bids (bs.set b (l.eraseIdx k))).count i + (if c.id = i then 1 else 0) = (bids bs).count i := by
  have h1 := bids_set bs b l (l.eraseIdx k) hb i
  have h2 := eids_eraseIdx l k c hk i
  omega

/-! ### the invariant -/

structure Inv (P : Params) (s : St) : Prop where
  keysNodup : (keys s.pending).Nodup
  keysNonzero : ∀ k ∈ keys s.pending, k ≠ 0
  ids : ∀ i, (pids s.pending).count i + (eids s.expired).count i + (bids s.batches).count i +
    (cids s.completions).count i + s.refused.count i = if i < s.nextId then 1 else 0
  R : InvR P s

theorem inv_init (P : Params) (cap : Nat) : Inv P (mkInit cap) := by
  refine ⟨List.nodup_nil, fun k hk => (by cases hk), fun i => (by simp [mkInit, pids, eids, cids, bids]), ?_⟩
  exact ⟨rfl, fun i => (by simp [mkInit, bcids]), fun e he => (by rcases he with he | he <;> cases he)⟩

theorem inv_step (P : Params) (hv : Valid P) {s s' : St} {a : Act} (h : Inv P s) (hs : step P s a = some s') : Inv P s' := by
  obtain ⟨_, _, _, _, hskip, _⟩ := hv
  cases a with
  | call mode dl =>
    simp only [step] at hs
    split at hs
    case isFalse => cases hs
    split at hs
    · rename_i sq hsq
      injection hs with hs; subst hs
      unfold nextSeq at hsq
      rw [hskip] at hsq
      obtain ⟨hnz, hfresh⟩ := nextSeqAux_spec _ _ _ _ hsq
      have hfil := filter_keys_of_not_mem s.pending sq hfresh
      refine ⟨?_, ?_, ?_, ⟨h.R.callbacks, h.R.blockCount, h.R.blockMem⟩⟩
      · show (keys ((sq, _) :: s.pending.filter _)).Nodup
        rw [hfil]; exact List.nodup_cons.mpr ⟨hfresh, h.keysNodup⟩
      · show ∀ k ∈ keys ((sq, _) :: s.pending.filter _), k ≠ 0
        rw [hfil]
        intro k hk
        rcases List.mem_cons.mp hk with h' | h'
        · exact h' ▸ hnz
        · exact h.keysNonzero k h'
      · intro i
        have := h.ids i
        show (pids ((sq, _) :: s.pending.filter _)).count i + _ + _ + _ + _ = _
        rw [hfil]
        simp only [pids, List.map_cons, List.count_cons] at this ⊢
        by_cases hi : s.nextId = i
        · subst hi; simp at this ⊢; omega
        · have : (s.nextId == i) = false := by simp [hi]
          simp only [this] at *
          split at * <;> simp_all <;> omega
    · injection hs with hs; subst hs
      refine ⟨h.keysNodup, h.keysNonzero, ?_, ⟨h.R.callbacks, h.R.blockCount, h.R.blockMem⟩⟩
      intro i
      have := h.ids i
      simp only [List.count_append, List.count_cons, List.count_nil] at this ⊢
      by_cases hi : s.nextId = i
      · subst hi; simp at this ⊢; omega
      · have : (s.nextId == i) = false := by simp [hi]
        simp only [this] at *
        split at * <;> simp_all <;> omega
  | pop =>
    simp only [step] at hs
    split at hs
    · injection hs with hs; subst hs
      exact ⟨h.keysNodup, h.keysNonzero, h.ids, ⟨h.R.callbacks, h.R.blockCount, h.R.blockMem⟩⟩
    · cases hs
  | dispatch seq p =>
    simp only [step] at hs
    split at hs
    · rename_i e he
      injection hs with hs; subst hs
      obtain ⟨hmem, hkey⟩ := find_mem he
      obtain ⟨f1, f2, f3, f4, fb, f5, f6, f7, f8, f9, f10⟩ :=
        run_frame P { s with pending := s.pending.filter (fun e => e.1 != seq) } e.2 p
      have hrem := count_pids_remove s.pending h.keysNodup e hmem
      rw [hkey] at hrem
      have hfresh : (cids s.completions).count e.2.id = 0 := by
        have h1 := h.ids e.2.id; have h2 := hrem e.2.id
        simp at h2
        split at h1 <;> omega
      refine ⟨?_, ?_, ?_, ?_⟩
      · rw [f3]; exact h.keysNodup.sublist (keys_filter_sublist _ _)
      · rw [f3]; intro k hk; exact h.keysNonzero k ((keys_filter_sublist _ _).subset hk)
      · intro i
        rw [f3, f4, fb, f10, f6, f7]
        have h1 := h.ids i; have h2 := hrem i
        simp only [cids, List.map_append, List.count_append, List.map_cons, List.map_nil, List.count_cons, List.count_nil] at h1 ⊢
        by_cases hi : e.2.id = i
        · simp [hi] at h2 ⊢; omega
        · have : (e.2.id == i) = false := by simp [hi]
          simp [hi, this] at h2 ⊢; omega
      · exact run_invR P _ e.2 p ⟨h.R.callbacks, h.R.blockCount, h.R.blockMem⟩ hfresh
    · injection hs with hs; subst hs
      exact ⟨h.keysNodup, h.keysNonzero, h.ids, ⟨h.R.callbacks, h.R.blockCount, h.R.blockMem⟩⟩
  | sweep now =>
    simp only [step] at hs
    injection hs with hs; subst hs
    refine ⟨h.keysNodup.sublist (keys_filter_sublist _ _), ?_, ?_, ⟨h.R.callbacks, h.R.blockCount, h.R.blockMem⟩⟩
    · intro k hk; exact h.keysNonzero k ((keys_filter_sublist _ _).subset hk)
    · intro i
      have h1 := h.ids i
      have h2 := count_pids_filter_split s.pending (fun e => decide (now > e.2.dl)) i
      have e1 : eids (s.expired ++ (s.pending.filter (fun e => decide (now > e.2.dl))).map (·.2)) =
          eids s.expired ++ pids (s.pending.filter (fun e => decide (now > e.2.dl))) := by
        simp [eids, pids]
      show (pids (s.pending.filter (fun e => !decide (now > e.2.dl)))).count i +
        (eids (s.expired ++ (s.pending.filter (fun e => decide (now > e.2.dl))).map (·.2))).count i +
        (bids s.batches).count i +
        (cids s.completions).count i + s.refused.count i = if i < s.nextId then 1 else 0
      rw [e1, List.count_append]
      omega
  | strip =>
    simp only [step] at hs
    injection hs with hs; subst hs
    refine ⟨h.keysNodup, h.keysNonzero, ?_, ⟨h.R.callbacks, h.R.blockCount, h.R.blockMem⟩⟩
    intro i
    have := h.ids i
    show (pids s.pending).count i + (eids []).count i + (bids (s.batches ++ [s.expired])).count i +
      (cids s.completions).count i + s.refused.count i = if i < s.nextId then 1 else 0
    rw [bids_append]
    simp [eids] at this ⊢
    omega
  | complete b k =>
    simp only [step] at hs
    split at hs
    case h_2 => cases hs
    rename_i l hb
    split at hs
    case h_2 => cases hs
    rename_i c hk
    injection hs with hs; subst hs
    obtain ⟨f1, f2, f3, f4, fb, f5, f6, f7, f8, f9, f10⟩ :=
      run_frame P { s with batches := s.batches.set b (l.eraseIdx k) } c (timeoutPkt P)
    have hrem := bids_complete s.batches b k l c hb hk
    have hfresh : (cids s.completions).count c.id = 0 := by
      have h1 := h.ids c.id; have h2 := hrem c.id
      simp at h2
      split at h1 <;> omega
    refine ⟨?_, ?_, ?_, ?_⟩
    · rw [f3]; exact h.keysNodup
    · rw [f3]; exact h.keysNonzero
    · intro i
      rw [f3, f4, fb, f10, f6, f7]
      have h1 := h.ids i; have h2 := hrem i
      simp only [cids, List.map_append, List.count_append, List.map_cons, List.map_nil, List.count_cons, List.count_nil] at h1 ⊢
      by_cases hi : c.id = i
      · simp [hi] at h2 ⊢; omega
      · have : (c.id == i) = false := by simp [hi]
        simp [hi, this] at h2 ⊢; omega
    · exact run_invR P _ c _ ⟨h.R.callbacks, h.R.blockCount, h.R.blockMem⟩ hfresh
  | wake id =>
    simp only [step] at hs
    split at hs
    · rename_i e he
      injection hs with hs; subst hs
      have hmem := List.mem_of_find?_eq_some he
      have hid : e.1 = id := by simpa using List.find?_some he
      refine ⟨h.keysNodup, h.keysNonzero, h.ids, ⟨h.R.callbacks, ?_, ?_⟩⟩
      · intro i
        have h1 := h.R.blockCount i
        -- the buffer holds at most one entry per id, so the filter removes exactly `e`
        have hle : ∀ j, (s.doneBuf.map (·.1)).count j ≤ 1 := by
          intro j
          have a := h.R.blockCount j; have b := bcids_count_le s.completions j
          have c := h.ids j
          split at c <;> omega
        have key : ∀ (l : List (Nat × Pkt)), e ∈ l → (∀ j, (l.map (·.1)).count j ≤ 1) →
            ((l.filter (fun x => x.1 != id)).map (·.1)).count i + (if id = i then 1 else 0) = (l.map (·.1)).count i := by
          intro l
          induction l with
          | nil => intro hm; cases hm
          | cons a l ih =>
            intro hm hl
            have hl' : ∀ j, (l.map (·.1)).count j ≤ 1 := by
              intro j; have := hl j; simp [List.count_cons] at this; omega
            rcases List.mem_cons.mp hm with h' | h'
            · subst h'
              have hnot : id ∉ l.map (·.1) := by
                have := hl id; rw [← hid] at this ⊢
                simp [List.count_cons] at this
                exact List.count_eq_zero.mp (by omega)
              have hfil : l.filter (fun x => x.1 != id) = l := by
                apply List.filter_eq_self.mpr
                intro x hx
                simp only [bne_iff_ne, ne_eq]
                intro hxi; exact hnot (hxi ▸ List.mem_map_of_mem (f := (·.1)) hx)
              simp only [List.filter_cons, hid, bne_self_eq_false, Bool.false_eq_true, if_false, hfil]
              simp [List.count_cons, hid]
            · have hne : a.1 ≠ id := by
                intro ha
                have h1 := hl id
                have hin : id ∈ l.map (·.1) := hid ▸ List.mem_map_of_mem (f := (·.1)) h'
                have h2 := List.count_pos_iff.mpr hin
                simp only [List.map_cons, List.count_cons, ha, beq_self_eq_true, if_true] at h1
                omega
              have hb : (a.1 != id) = true := by simp [hne]
              simp only [List.filter_cons, hb, if_true]
              have := ih h' hl'
              simp [List.count_cons] at this ⊢
              omega
        have h2 := key s.doneBuf hmem hle
        simp only [List.map_append, List.count_append, List.map_cons, List.map_nil, List.count_cons, List.count_nil, hid]
        by_cases hi : id = i
        · simp [hi] at h2 ⊢; omega
        · have : (id == i) = false := by simp [hi]
          simp [hi, this] at h2 ⊢; omega
      · intro x hx
        apply h.R.blockMem x
        rcases hx with hx | hx
        · rcases List.mem_append.mp hx with hx | hx
          · exact Or.inl hx
          · exact Or.inr ((List.mem_singleton.mp hx) ▸ hmem)
        · exact Or.inr (List.mem_filter.mp hx).1
    · cases hs
  | setCounter v =>
    simp only [step] at hs
    injection hs with hs; subst hs
    exact ⟨h.keysNodup, h.keysNonzero, h.ids, ⟨h.R.callbacks, h.R.blockCount, h.R.blockMem⟩⟩

theorem nodup_keys_unique : ∀ (l : List (Seq × Ctx)), (keys l).Nodup → ∀ (k : Seq) (a b : Ctx), (k, a) ∈ l → (k, b) ∈ l → a = b
  | [], _, _, _, _, h, _ => by cases h
  | x :: l, hn, k, a, b, ha, hb => by
    have hx : x.1 ∉ keys l := (List.nodup_cons.mp hn).1
    have hn' := (List.nodup_cons.mp hn).2
    rcases List.mem_cons.mp ha with ha | ha <;> rcases List.mem_cons.mp hb with hb | hb
    · rw [← ha] at hb; exact (Prod.mk.inj hb).2.symm ▸ rfl
    · exact absurd (by rw [← ha]; exact List.mem_map_of_mem (f := (·.1)) hb) hx
    · exact absurd (by rw [← hb]; exact List.mem_map_of_mem (f := (·.1)) ha) hx
    · exact nodup_keys_unique l hn' k a b ha hb

def runActs (P : Params) : St → List Act → Option St
  | s, [] => some s
  | s, a :: as => match step P s a with
    | some s' => runActs P s' as
    | none => none

theorem reach_runActs (P : Params) : ∀ (as : List Act) {s s' : St}, Reach P s → runActs P s as = some s' → Reach P s'
  | [], s, s', hr, h => by simp [runActs] at h; exact h ▸ hr
  | a :: as, s, s', hr, h => by
    simp only [runActs] at h
    split at h
    · rename_i s1 hs1; exact reach_runActs P as (Reach.step a hr hs1) h
    · cases h

/-- schedule of the non-vacuity examples: counter at 65534, an async call (65535), a blocking call (wraps past 0
to 1), the first answered with an error reply, a stray and a duplicate response, the second timing out -/
def demoActs : List Act :=
  [.setCounter 65534#16, .call .async 100, .call .block 200, .pop,
   .dispatch 65535#16 { errFlag := true, code := 5, cmd := 1001, decodes := none },
   .dispatch 65535#16 { errFlag := false, code := 0, cmd := 1001, decodes := some 7 },
   .dispatch 0#16 { errFlag := false, code := 0, cmd := 1001, decodes := some 7 },
   .sweep 150, .sweep 201, .strip, .complete 0 0, .wake 1,
   .dispatch 1#16 { errFlag := false, code := 0, cmd := 1001, decodes := some 9 }]

theorem reach_inv (P : Params) (hv : Valid P) {s : St} (hr : Reach P s) : Inv P s := by
  induction hr with
  | init cap => exact inv_init P cap
  | step a _ hs ih => exact inv_step P hv ih hs

end Fatchoy.C15
