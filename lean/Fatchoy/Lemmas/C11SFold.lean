/-
C11, structural skip list S: loops over the levels that rewrite only cells (`Insert`'s linking and
span-bumping loops, `deleteNode`'s unlinking loop) — what a cell holds after such a loop — and two
facts about splitting lists.
-/
import Fatchoy.Lemmas.C11SSearch
namespace Fatchoy.C11.S

/-- `t'` differs from `t` in cells only -/
structure Keeps (t t' : SList) : Prop where
  size : t'.nodes.length = t.nodes.length
  hgt : ∀ y, height t' y = height t y
  key : ∀ y, nodeOf t' y = nodeOf t y
  bwd : ∀ y, (nd t' y).bwd = (nd t y).bwd
  tail : t'.tail = t.tail
  len : t'.length = t.length
  level : t'.level = t.level

theorem Keeps.refl (t : SList) : Keeps t t := ⟨rfl, fun _ => rfl, fun _ => rfl, fun _ => rfl, rfl, rfl, rfl⟩

theorem Keeps.trans {a b c : SList} (h1 : Keeps a b) (h2 : Keeps b c) : Keeps a c :=
  ⟨h2.size.trans h1.size, fun y => (h2.hgt y).trans (h1.hgt y), fun y => (h2.key y).trans (h1.key y),
   fun y => (h2.bwd y).trans (h1.bwd y), h2.tail.trans h1.tail, h2.len.trans h1.len, h2.level.trans h1.level⟩

theorem keeps_setCell (t : SList) (x i : Nat) (c : Lvl) : Keeps t (setCell t x i c) :=
  ⟨by simp, by simp, by simp, by simp, rfl, rfl, rfl⟩

theorem Keeps.up {t t' : SList} (h : Keeps t t') (i y : Nat) : up t' i y = up t i y := by
  unfold S.up; rw [h.hgt]

theorem Keeps.nxt {t t' : SList} (h : Keeps t t') (i : Nat) (l : List Nat) :
    nxt t' i l = nxt t i l ∧ dst t' i l = dst t i l :=
  nxt_congr (fun a _ => h.up i a)

/-- a loop body indexed by the level that rewrites only cells of that level, reading only cells of
  that level -/
structure LevelStep (f : SList → Nat → SList) : Prop where
  keeps : ∀ t i, Keeps t (f t i)
  other : ∀ t i y j, j ≠ i → cell (f t i) y j = cell t y j
  loc : ∀ t t' i, Keeps t t' → (∀ y, cell t' y i = cell t y i) → ∀ y, cell (f t' i) y i = cell (f t i) y i

/-- after the loop over distinct levels, a cell of a visited level holds what one loop body applied to
  the initial state would have put there; all other cells are untouched -/
theorem fold_levels {f : SList → Nat → SList} (hf : LevelStep f) (is : List Nat) (hn : is.Nodup) (s : SList) :
    Keeps s (is.foldl f s) ∧
    ∀ y j, cell (is.foldl f s) y j = if j ∈ is then cell (f s j) y j else cell s y j := by
  induction is generalizing s with
  | nil => exact ⟨Keeps.refl s, fun y j => by simp⟩
  | cons i rest ih =>
    rw [List.nodup_cons] at hn
    obtain ⟨hk, hc⟩ := ih hn.2 (f s i)
    rw [List.foldl_cons]
    refine ⟨(hf.keeps s i).trans hk, ?_⟩
    intro y j
    rw [hc]
    by_cases hj : j ∈ rest
    · have hji : j ≠ i := fun h => hn.1 (h ▸ hj)
      rw [if_pos hj, if_pos (List.mem_cons_of_mem _ hj)]
      exact hf.loc s (f s i) j (hf.keeps s i) (fun y' => hf.other s i y' j hji) y
    · rw [if_neg hj]
      by_cases hji : j = i
      · subst hji; simp
      · have : j ∉ i :: rest := by simp [hji, hj]
        rw [if_neg this]
        exact hf.other s i y j hji

/-! ### splitting lists -/

theorem split_insert {α : Type} {L1 L2 : List α} {m : α} {pre suf : List α} {x : α}
    (h : L1 ++ m :: L2 = pre ++ x :: suf) :
    (∃ l1, L1 = pre ++ x :: l1 ∧ suf = l1 ++ m :: L2) ∨ (pre = L1 ∧ x = m ∧ suf = L2) ∨
    (∃ p2, pre = L1 ++ m :: p2 ∧ L2 = p2 ++ x :: suf) := by
  rcases List.append_eq_append_iff.mp h with ⟨a', ha1, ha2⟩ | ⟨c', hc1, hc2⟩
  · -- pre = L1 ++ a', m :: L2 = a' ++ x :: suf
    cases a' with
    | nil =>
      simp only [List.nil_append, List.cons.injEq] at ha2
      simp only [List.append_nil] at ha1
      exact Or.inr (Or.inl ⟨ha1, ha2.1.symm, ha2.2.symm⟩)
    | cons b r =>
      simp only [List.cons_append, List.cons.injEq] at ha2
      exact Or.inr (Or.inr ⟨r, by rw [ha1, ha2.1], ha2.2⟩)
  · -- L1 = pre ++ c', x :: suf = c' ++ m :: L2
    cases c' with
    | nil =>
      simp only [List.nil_append, List.cons.injEq] at hc2
      simp only [List.append_nil] at hc1
      exact Or.inr (Or.inl ⟨hc1.symm, hc2.1, hc2.2⟩)
    | cons b r =>
      simp only [List.cons_append, List.cons.injEq] at hc2
      exact Or.inl ⟨r, by rw [hc1, hc2.1], hc2.2⟩

theorem split_unique {α : Type} {L : List α} (hn : L.Nodup) {p1 p2 s1 s2 : List α} {x : α}
    (h1 : L = p1 ++ x :: s1) (h2 : L = p2 ++ x :: s2) : p1 = p2 ∧ s1 = s2 := by
  have e : p1 ++ x :: s1 = p2 ++ x :: s2 := by rw [← h1, ← h2]
  rw [h1] at hn
  rcases split_insert e with ⟨l1, hl1, _⟩ | ⟨hp, _, hs⟩ | ⟨q2, hq, _⟩
  · -- x occurs in p1 and after it
    exfalso
    rw [hl1, List.nodup_append] at hn
    exact hn.2.2 x (by simp) x (by simp) rfl
  · exact ⟨hp.symm, hs.symm⟩
  · exfalso
    rw [e, hq] at hn
    rw [List.nodup_append] at hn
    exact hn.2.2 x (by simp) x (by simp) rfl

end Fatchoy.C11.S
