/-
C05/C06 helper lemmas: the invariant of the whole wheel scheduler and its preservation by every
step of the transition system (client calls and worker steps in any order).
-/
import Fatchoy.Lemmas.C05Tick
import Fatchoy.Lemmas.C05Front
namespace Fatchoy.C05

structure WInv (s : WS) : Prop where
  wheel : WheelOK s.w
  /-- a periodic timer is always strictly in the future between worker steps -/
  per : ∀ n ∈ s.w.nodes, n.period > 0 → s.w.time < n.deadline
  front : FrontOK s.f (ids s.w.nodes)

theorem WInv.init (off time : Nat) : WInv (WS.init off time) := by
  refine ⟨⟨?_, ?_⟩, ?_, ?_⟩ <;> simp [WS.init, ids, Front.init]
  exact FrontOK.init

namespace WS

theorem expireList_front (G : Geom) : ∀ (hit : List WNode) (s : WS), FrontOK s.f (ids s.w.nodes ++ ids hit) →
    FrontOK (expireList G s hit).f (ids (expireList G s hit).w.nodes) := by
  intro hit
  induction hit with
  | nil => intro s h; simpa [expireList, ids] using h
  | cons n ns ih =>
    intro s h
    simp only [expireList]
    apply ih
    have hp : (ids s.w.nodes ++ ids (n :: ns)).Perm (n.id :: (ids s.w.nodes ++ ids ns)) := by
      simp only [ids, List.map_cons]
      exact List.perm_middle
    have h' := h.perm hp
    unfold expireOne
    by_cases hc : n.id ∈ s.f.cancelled
    · simp only [hc, if_true]
      exact h'.unlink_cancelled hc
    · by_cases hper : n.period > 0
      · simp only [hc, hper, if_false, if_true]
        apply (h.deliver s.w.time n.id n.deadline).perm
        simp only [ids, List.map_append, List.map_cons, List.map_nil, List.append_assoc, List.singleton_append]
        exact List.Perm.refl _
      · simp only [hc, hper, if_false]
        exact (h'.deliver s.w.time n.id n.deadline).unlink_oneshot

theorem expire_front (G : Geom) (s : WS) (h : FrontOK s.f (ids s.w.nodes)) :
    FrontOK (expire G s).f (ids (expire G s).w.nodes) := by
  unfold expire
  apply expireList_front
  apply h.perm
  simp only [ids, ← List.map_append]
  exact ((List.perm_append_comm.trans (List.filter_append_perm _ _)).map _).symm

theorem tick_front (G : Geom) (s : WS) (h : FrontOK s.f (ids s.w.nodes)) :
    FrontOK (tick G s).f (ids (tick G s).w.nodes) := by
  rw [tick_eq]
  apply expire_front
  rw [mid_f]
  exact (expire_front G s h).perm (mid_ids_perm G _).symm

/-- after a tick every node is strictly in the future -/
theorem tick_future (c : Nat) (s : WS) (h : WheelOK s.w) :
    ∀ n ∈ (tick (litGeom c) s).w.nodes, (tick (litGeom c) s).w.time < n.deadline := by
  obtain ⟨m1, m2, m3, _, _⟩ := tick_stages c s h
  have e2 := expire_ok c _ m1
  obtain ⟨_, g2, _⟩ := expire_frame c _ m1
  intro n hn
  rw [tick_eq] at hn ⊢
  have := e2 n hn
  rw [g2]
  have h1 := this.1.1
  have h2 := this.2
  omega

end WS

/-- every successful step of the wheel scheduler preserves the invariant -/
theorem WInv.step (c : Nat) {s s' : WS} {a : Act} {o : Out} (h : WInv s)
    (hs : WS.step (litGeom c) s a = .ok s' o) : WInv s' := by
  cases a with
  | after d =>
    simp only [WS.step] at hs
    split at hs
    · cases hs
    · cases hs
      exact ⟨h.wheel, h.per, h.front.start d 0⟩
  | every p =>
    simp only [WS.step] at hs
    split at hs
    · cases hs
    · cases hs
      exact ⟨h.wheel, h.per, h.front.start 0 p⟩
  | cancel id =>
    simp only [WS.step] at hs
    split at hs
    · rename_i hin
      split at hs
      · cases hs
      · cases hs
        exact ⟨h.wheel, h.per, h.front.cancel hin⟩
    · cases hs; exact h
  | add =>
    simp only [WS.step] at hs
    split at hs
    · cases hs; exact h
    · rename_i r q hq
      split at hs
      · rename_i hcan
        cases hs
        exact ⟨h.wheel, h.per, h.front.pop_add_drop hq hcan⟩
      · split at hs
        · cases hs
        · rename_i hcan hany
          cases hs
          have hfresh : r.id ∉ ids s.w.nodes := by
            have hn := h.front.nodup
            rw [List.nodup_append] at hn
            intro hm
            exact hn.2.2 r.id (by simp [Front.addIds, hq]) r.id hm rfl
          refine ⟨⟨?_, ?_⟩, ?_, ?_⟩
          · intro n hn
            rcases List.mem_append.mp hn with hn | hn
            · exact h.wheel.ok n hn
            · simp only [List.mem_singleton] at hn
              subst hn
              rw [link_eq_linkAt]
              exact linkAt_ok c _ _ _ (by simp; omega)
          · show (ids (s.w.nodes ++ [_])).Nodup
            simp only [ids, List.map_append, List.map_cons, List.map_nil]
            rw [List.nodup_append]
            refine ⟨h.wheel.nodup, by simp, ?_⟩
            intro a ha b hb
            simp only [List.mem_singleton] at hb
            subst hb
            intro e
            have e' : a = r.id := e
            exact hfresh (e' ▸ ha)
          · intro n hn hp
            rcases List.mem_append.mp hn with hn | hn
            · exact h.per n hn hp
            · simp only [List.mem_singleton] at hn
              subst hn
              have hp' : r.period > 0 := hp
              show s.w.time < r.dl + s.w.time + r.period
              omega
          · apply (h.front.pop_add_link hq).perm
            simp only [ids, List.map_append, List.map_cons, List.map_nil]
            exact (List.perm_append_singleton ..).symm
  | del =>
    simp only [WS.step] at hs
    split at hs
    · cases hs; exact h
    · rename_i i q hq
      cases hs
      refine ⟨⟨?_, ?_⟩, ?_, ?_⟩
      · intro n hn; exact h.wheel.ok n (List.mem_filter.mp hn).1
      · exact h.wheel.nodup.sublist (List.filter_sublist.map _)
      · intro n hn; exact h.per n (List.mem_filter.mp hn).1
      · have := h.front.pop_del hq
        have e : ids (s.w.nodes.filter (fun n => n.id ≠ i)) = (ids s.w.nodes).filter (· ≠ i) := by
          simp only [ids, List.filter_map]; rfl
        rw [show ids (WS.mk { s.w with nodes := s.w.nodes.filter (fun n => n.id ≠ i) } { s.f with delQ := q }).w.nodes
          = (ids s.w.nodes).filter (· ≠ i) from e]
        exact this
  | tick =>
    simp only [WS.step] at hs
    cases hs
    have hf := WS.tick_future c s h.wheel
    exact ⟨WS.tick_ok c s h.wheel, fun n hn _ => hf n hn, WS.tick_front _ s h.front⟩
  | clock n =>
    simp only [WS.step] at hs
    cases hs; exact h

end Fatchoy.C05
