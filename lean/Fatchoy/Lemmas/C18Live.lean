/-
C18 — liveness of the pool-executor LTS (Model/C18.lean): a measure that EVERY action strictly decreases
(`mu`, `mu_step`), the extra invariants of the start-up handshake (`InvL`), and `no_stuck`.  Core only.
-/
import Fatchoy.Lemmas.C18
namespace Fatchoy.C18
set_option linter.unusedSimpArgs false
set_option linter.unusedVariables false

/-! ### sums over a list with one element replaced -/

theorem sum_map_set {α} (f : α → Nat) : ∀ (l : List α) (i : Nat) (a b : α), l[i]? = some a →
    ((l.set i b).map f).sum + f a = (l.map f).sum + f b
  | [], i, a, b, h => by simp at h
  | x :: l, 0, a, b, h => by
    simp at h; subst h; simp only [List.set_cons_zero, List.map_cons, List.sum_cons]; omega
  | x :: l, i + 1, a, b, h => by
    simp at h
    have := sum_map_set f l i a b h
    simp only [List.set_cons_succ, List.map_cons, List.sum_cons]; omega

/-! ### the measure -/

/-- what an Execute call still has to do, in atomic steps, counting the workers it will create (6 each:
their own `born` rank 5 and the step that creates them) and the queue slot it will fill (2) -/
def subRank (n : Nat) : SPC → Nat
  | .idle => 11 + 7 * n
  | .cas => 10 + 7 * n
  | .spawning k => 9 + n + 6 * (n - k)
  | .waiting k => 8 + (n - k)
  | .spin => 7
  | .rlock => 6
  | .check => 5
  | .send => 4
  | .unlockOk => 1
  | .unlockErr => 1
  | .retOk => 0
  | .retErr => 0
  | .panicked => 0

def wrkRank : WPC → Nat
  | .born => 5
  | .run _ => 4
  | .idle => 3
  | .drun _ => 2
  | .drain => 1
  | .exited => 0
  | .dead => 0
  | .nilrun => 0

def clsRank : CPC → Nat
  | .idle => 8
  | .cas => 7
  | .unlock _ => 6
  | .closeDone => 5
  | .wait => 4
  | .closeQ => 3
  | .setTerm => 2
  | .ret _ => 0
  | .panicked => 0

/-- the measure: every action of the LTS — internal or of the environment — strictly decreases it -/
def mu (s : St) : Nat :=
  (s.subs.map (subRank s.n)).sum + (s.workers.map wrkRank).sum + clsRank s.closer + 2 * s.queue.length

theorem mu_sub {s s' : St} {i : Nat} (hs : stepSub s i = some s') : mu s' < mu s := by
  unfold stepSub at hs
  split at hs
  · cases hs
  rename_i pc hpc
  cases pc <;> simp only [] at hs
  all_goals
    repeat' (split at hs)
    all_goals first
      | (cases hs; done)
      | (injection hs with hs; subst hs
         have key := fun b => sum_map_set (subRank s.n) s.subs i _ b hpc
         simp only [mu, setSub, List.map_append, List.sum_append, List.length_append, List.map_cons, List.map_nil,
           List.sum_cons, List.sum_nil, List.length_cons, List.length_nil, subRank, wrkRank, clsRank] at key ⊢
         first
           | (have := key .cas; simp only [subRank] at this; omega)
           | (have := key .spin; simp only [subRank] at this; omega)
           | (have := key .rlock; simp only [subRank] at this; omega)
           | (have := key (.spawning 0); simp only [subRank] at this; omega)
           | (have := key (.waiting 0); simp only [subRank] at this; omega)
           | (have := key .check; simp only [subRank] at this; omega)
           | (have := key .send; simp only [subRank] at this; omega)
           | (have := key .unlockErr; simp only [subRank] at this; omega)
           | (have := key .unlockOk; simp only [subRank] at this; omega)
           | (have := key .panicked; simp only [subRank] at this; omega)
           | (have := key .retOk; simp only [subRank] at this; omega)
           | (have := key .retErr; simp only [subRank] at this; omega)
           | (rename_i k _; have := key (.spawning (k + 1)); simp only [subRank] at this; omega)
           | (rename_i k _ _; have := key (.waiting (k + 1)); simp only [subRank] at this; omega))

theorem mu_handoff {s s' : St} {i w : Nat} (hs : stepHandoff s i w = some s') : mu s' < mu s := by
  unfold stepHandoff at hs
  split at hs
  all_goals try (cases hs; done)
  all_goals
    rename_i hi hw
    split at hs
    case isFalse => cases hs
    injection hs with hs; subst hs
    have k1 := sum_map_set (subRank s.n) s.subs i _ .unlockOk hi
    first
      | (have k2 := sum_map_set wrkRank s.workers w _ (.run i) hw
         simp only [mu, setSub, setWrk, subRank, wrkRank] at k1 k2 ⊢; omega)
      | (have k2 := sum_map_set wrkRank s.workers w _ (.drun i) hw
         simp only [mu, setSub, setWrk, subRank, wrkRank] at k1 k2 ⊢; omega)

theorem mu_take {s s' : St} {w : Nat} (hs : stepTake s w = some s') : mu s' < mu s := by
  unfold stepTake at hs
  split at hs
  all_goals try (cases hs; done)
  all_goals
    rename_i hw hq
    try (split at hs)
    all_goals try (cases hs; done)
    all_goals
      injection hs with hs; subst hs
      first
        | (rename_i t q; have k2 := sum_map_set wrkRank s.workers w _ (.run t) hw
           simp only [mu, setWrk, wrkRank, hq, List.length_cons] at k2 ⊢; omega)
        | (rename_i t q; have k2 := sum_map_set wrkRank s.workers w _ (.drun t) hw
           simp only [mu, setWrk, wrkRank, hq, List.length_cons] at k2 ⊢; omega)
        | (have k2 := sum_map_set wrkRank s.workers w _ .nilrun hw
           simp only [mu, setWrk, wrkRank] at k2 ⊢; omega)

theorem mu_finish (P : Params) {s s' : St} {w : Nat} {k : Kind} (hs : stepFinish P s w k = some s') : mu s' < mu s := by
  unfold stepFinish at hs
  split at hs
  case h_3 => cases hs
  all_goals
    rename_i t hw
    injection hs with hs; subst hs
    have k2 := fun b => sum_map_set wrkRank s.workers w _ b hw
    simp only [mu, setWrk, wrkRank] at k2 ⊢
    split
    · first | (have := k2 .idle; simp only [wrkRank] at this; omega) | (have := k2 .drain; simp only [wrkRank] at this; omega)
    · have := k2 .dead; simp only [wrkRank] at this; omega

theorem mu_exit {s s' : St} {w : Nat} (hs : stepExit s w = some s') : mu s' < mu s := by
  unfold stepExit at hs
  split at hs
  case h_2 => cases hs
  rename_i hw
  have k2 := fun b => sum_map_set wrkRank s.workers w _ b hw
  repeat' (split at hs)
  all_goals try (cases hs; done)
  all_goals
    injection hs with hs; subst hs
    simp only [mu, setWrk, wrkRank] at k2 ⊢
    first | (have := k2 .dead; simp only [wrkRank] at this; omega) | (have := k2 .exited; simp only [wrkRank] at this; omega)

theorem mu_closer {s s' : St} (hs : stepCloser s = some s') : mu s' < mu s := by
  unfold stepCloser at hs
  split at hs
  all_goals
    rename_i hc
    repeat' (split at hs)
    all_goals try (cases hs; done)
    all_goals
      injection hs with hs; subst hs
      simp only [mu, hc, clsRank]
      try omega

/-- EVERY action strictly decreases the measure -/
theorem mu_step (P : Params) {s s' : St} {a : Act} (hs : step P s a = some s') : mu s' < mu s := by
  cases a with
  | sub i => exact mu_sub hs
  | handoff i w => exact mu_handoff hs
  | take w => exact mu_take hs
  | finish w k => exact mu_finish P hs
  | exit w => exact mu_exit hs
  | closer => exact mu_closer hs
  | wready w =>
    simp only [step] at hs
    split at hs
    · rename_i hw
      injection hs with hs; subst hs
      have k2 := sum_map_set wrkRank s.workers w _ .idle hw
      simp only [mu, setWrk, wrkRank] at k2 ⊢; omega
    · cases hs
  | seeDone w =>
    simp only [step] at hs
    split at hs
    · rename_i hw
      split at hs
      · injection hs with hs; subst hs
        have k2 := sum_map_set wrkRank s.workers w _ .drain hw
        simp only [mu, setWrk, wrkRank] at k2 ⊢; omega
      · cases hs
    · cases hs

theorem mu_run (P : Params) : ∀ (acts : List Act) {s s' : St}, runActs P s acts = some s' → acts.length + mu s' ≤ mu s
  | [], s, s', h => by simp [runActs] at h; subst h; simp
  | a :: as, s, s', h => by
    simp only [runActs] at h
    split at h
    · rename_i s1 h1
      have := mu_run P as h
      have := mu_step P h1
      simp only [List.length_cons]; omega
    · cases h

/-! ### the start-up handshake: `ready` tokens, the spawner, no `born` worker once running -/

def WPC.notBorn : WPC → Bool
  | .born => false
  | _ => true

structure InvL (s : St) : Prop where
  /-- while the state is Started the call that won the CAS is still in `start()` -/
  spinner : s.st = .started → ∃ (i : Nat) (pc : SPC), s.subs[i]? = some pc ∧ pc.isSpawner = true
  initReady : s.st = .init → s.ready = 0
  /-- tokens in `ready` + tokens already received = workers past their `ready <-` -/
  waitReady : ∀ k, SPC.waiting k ∈ s.subs → s.ready + k = s.workers.countP WPC.notBorn
  spawnReady : ∀ k, SPC.spawning k ∈ s.subs → s.ready = s.workers.countP WPC.notBorn
  noBorn : (s.st = .running ∨ s.st = .shutdown ∨ s.st = .terminated) → ∀ w ∈ s.workers, w.notBorn = true
  earlyEmpty : (s.st = .init ∨ s.st = .started) → s.queue = []

theorem InvL.plain {s s' : St} (h : InvL s) {i : Nat} {old : SPC} (pc : SPC) (hi : s.subs[i]? = some old)
    (ho : old.isSpawner = false) (hp : pc.isSpawner = false) (h1 : s'.st = s.st) (h2 : s'.subs = s.subs.set i pc)
    (h3 : s'.ready = s.ready) (h4 : s'.workers = s.workers)
    (h5 : (s'.st = .init ∨ s'.st = .started) → s'.queue = []) : InvL s' := by
  refine ⟨?_, ?_, ?_, ?_, ?_, h5⟩
  · rw [h1, h2]; intro hst
    obtain ⟨j, q, hj, hq⟩ := h.spinner hst
    have hne : j ≠ i := by
      intro e; subst e; rw [hi] at hj; cases hj; rw [ho] at hq; cases hq
    exact ⟨j, q, by rw [getElem?_set_ne' hne]; exact hj, hq⟩
  · rw [h1, h3]; exact h.initReady
  · rw [h2, h3, h4]; intro k hk
    rcases mem_set_cases hi hk with e | ⟨j, _, hj⟩
    · rw [← e] at hp; cases hp
    · exact h.waitReady k (List.mem_of_getElem? hj)
  · rw [h2, h3, h4]; intro k hk
    rcases mem_set_cases hi hk with e | ⟨j, _, hj⟩
    · rw [← e] at hp; cases hp
    · exact h.spawnReady k (List.mem_of_getElem? hj)
  · rw [h1, h4]; exact h.noBorn

theorem InvL.wrk {s s' : St} (h : InvL s) {w : Nat} {old : WPC} (pc : WPC) (hw : s.workers[w]? = some old)
    (ho : old.notBorn = true) (hp : pc.notBorn = true) (h1 : s'.st = s.st) (h2 : s'.subs = s.subs)
    (h3 : s'.ready = s.ready) (h4 : s'.workers = s.workers.set w pc)
    (h5 : (s'.st = .init ∨ s'.st = .started) → s'.queue = []) : InvL s' := by
  have hc : (s.workers.set w pc).countP WPC.notBorn = s.workers.countP WPC.notBorn := by
    have := countP_set_add WPC.notBorn s.workers w old pc hw
    rw [ho, hp] at this; simpa using this
  refine ⟨?_, ?_, ?_, ?_, ?_, h5⟩
  · rw [h1, h2]; exact h.spinner
  · rw [h1, h3]; exact h.initReady
  · rw [h2, h3, h4, hc]; exact h.waitReady
  · rw [h2, h3, h4, hc]; exact h.spawnReady
  · rw [h1, h4]; intro hst
    exact forall_mem_set (h.noBorn hst) hp

theorem invL_init (P : Params) (w : Int) (cap m : Nat) : InvL (mkInit P w cap m) := by
  refine ⟨?_, ?_, ?_, ?_, ?_, ?_⟩ <;> simp [mkInit]

theorem invL_sub {s s' : St} {i : Nat} (h : InvL s) (ha : InvA s) (hs : stepSub s i = some s') : InvL s' := by
  unfold stepSub at hs
  split at hs
  · cases hs
  rename_i pc hpc
  have hmem := List.mem_of_getElem? hpc
  cases pc <;> simp only [] at hs
  case cas =>
    split at hs
    · rename_i hst
      injection hs with hs; subst hs
      have hno : ∀ q ∈ s.subs, q.isSpawner = false := by
        intro q hq
        cases hsp : q.isSpawner
        · rfl
        · have := ha.spawnerSt q hq hsp; rw [hst] at this; cases this
      have hold : ∀ q, q ∈ s.subs.set i (.spawning 0) → q.isSpawner = true → q = .spawning 0 := by
        intro q hq hsp
        rcases mem_set_cases hpc hq with e | ⟨j, _, hj⟩
        · exact e
        · rw [hno q (List.mem_of_getElem? hj)] at hsp; cases hsp
      refine ⟨?_, ?_, ?_, ?_, ?_, ?_⟩
      · intro _; exact ⟨i, .spawning 0, getElem?_set_self' hpc, rfl⟩
      · intro h'; cases h'
      · intro k hk; have := hold _ hk rfl; cases this
      · intro k hk; have := hold _ hk rfl; cases this
        show s.ready = s.workers.countP WPC.notBorn
        have hl := ha.initW hst
        rw [h.initReady hst, List.length_eq_zero_iff.mp hl]; rfl
      · intro h'; rcases h' with h' | h' | h' <;> cases h'
      · intro _; exact h.earlyEmpty (Or.inl hst)
    · injection hs with hs; subst hs
      exact h.plain .rlock hpc rfl rfl rfl rfl rfl rfl h.earlyEmpty
  case spawning k =>
    have hst : s.st = .started := ha.spawnerSt _ hmem rfl
    have hother : ∀ q b, q ∈ s.subs.set i b → q.isSpawner = true → q = b := by
      intro q b hq hsp
      rcases mem_set_cases hpc hq with e | ⟨j, hne, hj⟩
      · exact e
      · exact absurd (ha.uniq i j _ _ hpc hj rfl hsp) (Ne.symm hne)
    split at hs
    · injection hs with hs; subst hs
      have hc : (s.workers ++ [WPC.born]).countP WPC.notBorn = s.workers.countP WPC.notBorn := by
        rw [List.countP_append]; rfl
      refine ⟨?_, ?_, ?_, ?_, ?_, ?_⟩
      · intro _; exact ⟨i, .spawning (k + 1), getElem?_set_self' hpc, rfl⟩
      · intro h'; have h2 : s.st = _ := h'; rw [hst] at h2; cases h2
      · intro k' hk; have := hother _ _ hk rfl; cases this
      · intro k' hk
        show s.ready = (s.workers ++ [WPC.born]).countP WPC.notBorn
        rw [hc]; exact h.spawnReady k hmem
      · intro h'; rcases h' with h' | h' | h' <;> (have h2 : s.st = _ := h'; rw [hst] at h2; cases h2)
      · intro _; exact h.earlyEmpty (Or.inr hst)
    · injection hs with hs; subst hs
      refine ⟨?_, ?_, ?_, ?_, ?_, ?_⟩
      · intro _; exact ⟨i, .waiting 0, getElem?_set_self' hpc, rfl⟩
      · intro h'; have h2 : s.st = _ := h'; rw [hst] at h2; cases h2
      · intro k' hk; have := hother _ _ hk rfl; cases this
        exact h.spawnReady k hmem
      · intro k' hk; have := hother _ _ hk rfl; cases this
      · intro h'; rcases h' with h' | h' | h' <;> (have h2 : s.st = _ := h'; rw [hst] at h2; cases h2)
      · intro _; exact h.earlyEmpty (Or.inr hst)
  case waiting k =>
    have hst : s.st = .started := ha.spawnerSt _ hmem rfl
    have hother : ∀ q b, q ∈ s.subs.set i b → q.isSpawner = true → q = b := by
      intro q b hq hsp
      rcases mem_set_cases hpc hq with e | ⟨j, hne, hj⟩
      · exact e
      · exact absurd (ha.uniq i j _ _ hpc hj rfl hsp) (Ne.symm hne)
    have hw := h.waitReady k hmem
    split at hs
    · split at hs
      · rename_i hlt hpos
        injection hs with hs; subst hs
        refine ⟨?_, ?_, ?_, ?_, ?_, ?_⟩
        · intro _; exact ⟨i, .waiting (k + 1), getElem?_set_self' hpc, rfl⟩
        · intro h'; have h2 : s.st = _ := h'; rw [hst] at h2; cases h2
        · intro k' hk; have := hother _ _ hk rfl; cases this
          show s.ready - 1 + (k + 1) = s.workers.countP WPC.notBorn
          omega
        · intro k' hk; have := hother _ _ hk rfl; cases this
        · intro h'; rcases h' with h' | h' | h' <;> (have h2 : s.st = _ := h'; rw [hst] at h2; cases h2)
        · intro _; exact h.earlyEmpty (Or.inr hst)
      · cases hs
    · rename_i hge
      injection hs with hs; subst hs
      refine ⟨?_, ?_, ?_, ?_, ?_, ?_⟩
      · intro h'; cases h'
      · intro h'; cases h'
      · intro k' hk; have := hother _ _ hk rfl; cases this
      · intro k' hk; have := hother _ _ hk rfl; cases this
      · intro _
        show ∀ w ∈ s.workers, w.notBorn = true
        have hlen := ha.waitingLen k hmem
        have hle := List.countP_le_length (p := WPC.notBorn) (l := s.workers)
        have : s.workers.countP WPC.notBorn = s.workers.length := by omega
        exact List.countP_eq_length.mp this
      · intro h'; rcases h' with h' | h' <;> cases h'
  case send =>
    have hrun := ha.sendRunning _ hmem rfl
    repeat' (split at hs)
    all_goals try (cases hs; done)
    all_goals
      injection hs with hs; subst hs
      refine h.plain _ hpc rfl rfl rfl rfl rfl rfl ?_
      intro h'; rcases h' with h' | h' <;> (have h2 : s.st = _ := h'; rw [hrun] at h2; cases h2)
  all_goals
    repeat' (split at hs)
    all_goals try (cases hs; done)
    all_goals
      injection hs with hs; subst hs
      exact h.plain _ hpc rfl rfl rfl rfl rfl rfl h.earlyEmpty

theorem InvL.early_queue {s : St} (h : InvL s) {t : Nat} {q : List Nat} (hq : s.queue = t :: q) :
    ¬ (s.st = .init ∨ s.st = .started) := by
  intro h'; rw [h.earlyEmpty h'] at hq; cases hq

theorem invL_handoff {s s' : St} {i w : Nat} (h : InvL s) (hs : stepHandoff s i w = some s') : InvL s' := by
  unfold stepHandoff at hs
  split at hs
  all_goals try (cases hs; done)
  all_goals
    rename_i hi hw
    split at hs
    case isFalse => cases hs
    rename_i hq
    injection hs with hs; subst hs
    have h0 : InvL (setSub { s with accepted := s.accepted ++ [i], started := s.started ++ [i] } i .unlockOk) :=
      h.plain .unlockOk hi rfl rfl rfl rfl rfl rfl h.earlyEmpty
    exact h0.wrk _ hw rfl rfl rfl rfl rfl rfl h.earlyEmpty

theorem invL_take {s s' : St} {w : Nat} (h : InvL s) (hs : stepTake s w = some s') : InvL s' := by
  unfold stepTake at hs
  split at hs
  all_goals try (cases hs; done)
  all_goals
    rename_i hw hq
    try (split at hs)
    all_goals try (cases hs; done)
    all_goals
      injection hs with hs; subst hs
      first
        | exact h.wrk _ hw rfl rfl rfl rfl rfl rfl (fun h' => absurd h' (h.early_queue hq))
        | exact h.wrk _ hw rfl rfl rfl rfl rfl rfl h.earlyEmpty

theorem invL_finish (P : Params) {s s' : St} {w : Nat} {k : Kind} (h : InvL s) (hs : stepFinish P s w k = some s') : InvL s' := by
  unfold stepFinish at hs
  split at hs
  case h_3 => cases hs
  all_goals
    rename_i t hw
    injection hs with hs; subst hs
    refine h.wrk _ hw rfl ?_ rfl rfl rfl rfl h.earlyEmpty
    split <;> rfl

theorem invL_exit {s s' : St} {w : Nat} (h : InvL s) (hs : stepExit s w = some s') : InvL s' := by
  unfold stepExit at hs
  split at hs
  case h_2 => cases hs
  rename_i hw
  repeat' (split at hs)
  all_goals try (cases hs; done)
  all_goals
    injection hs with hs; subst hs
    exact h.wrk _ hw rfl rfl rfl rfl rfl rfl h.earlyEmpty

theorem InvL.congr {s s' : St} (h : InvL s) (h1 : s'.st = s.st) (h2 : s'.subs = s.subs) (h3 : s'.ready = s.ready)
    (h4 : s'.workers = s.workers) (h5 : s'.queue = s.queue) : InvL s' := by
  refine ⟨?_, ?_, ?_, ?_, ?_, ?_⟩
  · rw [h1, h2]; exact h.spinner
  · rw [h1, h3]; exact h.initReady
  · rw [h2, h3, h4]; exact h.waitReady
  · rw [h2, h3, h4]; exact h.spawnReady
  · rw [h1, h4]; exact h.noBorn
  · rw [h1, h5]; exact h.earlyEmpty

theorem invL_closer {s s' : St} (h : InvL s) (ha : InvA s) (hs : stepCloser s = some s') : InvL s' := by
  unfold stepCloser at hs
  split at hs
  case h_2 hc =>
    split at hs
    · rename_i hrun
      injection hs with hs; subst hs
      refine ⟨?_, ?_, h.waitReady, h.spawnReady, fun _ => h.noBorn (Or.inl hrun), ?_⟩
      · intro h'; cases h'
      · intro h'; cases h'
      · intro h'; rcases h' with h' | h' <;> cases h'
    · injection hs with hs; subst hs
      exact h.congr rfl rfl rfl rfl rfl
  case h_7 hc =>
    injection hs with hs; subst hs
    have hsd : s.st = .shutdown := ha.phaseMid (by rw [hc]; rfl)
    refine ⟨?_, ?_, h.waitReady, h.spawnReady, fun _ => h.noBorn (Or.inr (Or.inl hsd)), ?_⟩
    · intro h'; cases h'
    · intro h'; cases h'
    · intro h'; rcases h' with h' | h' <;> cases h'
  all_goals
    repeat' (split at hs)
    all_goals try (cases hs; done)
    all_goals
      injection hs with hs; subst hs
      exact h.congr rfl rfl rfl rfl rfl

theorem invL_step (P : Params) {s s' : St} {a : Act} (h : InvL s) (ha : InvA s) (hs : step P s a = some s') : InvL s' := by
  cases a with
  | sub i => exact invL_sub h ha hs
  | handoff i w => exact invL_handoff h hs
  | take w => exact invL_take h hs
  | finish w k => exact invL_finish P h hs
  | exit w => exact invL_exit h hs
  | closer => exact invL_closer h ha hs
  | wready w =>
    simp only [step] at hs
    split at hs
    · rename_i hw
      injection hs with hs; subst hs
      have hc : (s.workers.set w .idle).countP WPC.notBorn = s.workers.countP WPC.notBorn + 1 := by
        have := countP_set_add WPC.notBorn s.workers w .born .idle hw
        simpa [WPC.notBorn] using this
      refine ⟨h.spinner, ?_, ?_, ?_, ?_, h.earlyEmpty⟩
      · intro hst
        have hl := ha.initW hst
        rw [List.length_eq_zero_iff.mp hl] at hw; cases hw
      · intro k hk
        show s.ready + 1 + k = (s.workers.set w .idle).countP WPC.notBorn
        rw [hc]; have := h.waitReady k hk; omega
      · intro k hk
        show s.ready + 1 = (s.workers.set w .idle).countP WPC.notBorn
        rw [hc]; have := h.spawnReady k hk; omega
      · intro hst
        exact forall_mem_set (h.noBorn hst) rfl
    · cases hs
  | seeDone w =>
    simp only [step] at hs
    split at hs
    · rename_i hw
      split at hs
      · injection hs with hs; subst hs
        exact h.wrk _ hw rfl rfl rfl rfl rfl rfl h.earlyEmpty
      · cases hs
    · cases hs

theorem reach_invL (P : Params) (hv : Valid P) {s : St} (hr : Reach P s) : InvL s := by
  induction hr with
  | init w cap m => exact invL_init P w cap m
  | step a hr hs ih => exact invL_step P ih (reach_inv P hv hr).A hs

/-! ### no stuck state -/

/-- the Execute call has begun and has not returned -/
def SPC.busy : SPC → Bool
  | .idle | .retOk | .retErr | .panicked => false
  | _ => true

/-- the Shutdown call has begun (`called`, or it is past `guard.Lock()`) and has not returned -/
def CPC.busy (called : Bool) : CPC → Bool
  | .idle => called
  | .ret _ | .panicked => false
  | _ => true

/-- something is left to do that does not depend on the environment alone: an Execute call under way, a worker that
has not reached its select yet or is draining, an idle worker although `done` is closed, a queued task, a Shutdown
call under way.  NOT in here: workers running a task body (`TaskRunning`), idle workers with an empty queue and no
shutdown, calls that have not begun. -/
def Unfinished (called : Bool) (s : St) : Prop :=
  (∃ pc ∈ s.subs, pc.busy = true) ∨ (∃ w ∈ s.workers, w = .born ∨ w = .drain) ∨
  (WPC.idle ∈ s.workers ∧ s.done = true) ∨ s.queue ≠ [] ∨ s.closer.busy called = true

/-- some worker is inside a task body: the environment (the task) has the next move there -/
def TaskRunning (s : St) : Prop := ∃ w ∈ s.workers, w.task?.isSome = true

def Enabled (P : Params) (called : Bool) (s : St) : Prop :=
  ∃ a, Act.internal called s a = true ∧ (step P s a).isSome = true

theorem en_sub' (P : Params) (called : Bool) {s : St} {i : Nat} {pc : SPC} (hpc : s.subs[i]? = some pc) (hne : pc ≠ .idle)
    (hgo : pc ≠ .rlock ∨ (called && s.closer == .idle) = false)
    (h : (stepSub s i).isSome = true) : Enabled P called s :=
  ⟨.sub i, by
    simp only [Act.internal, hpc]
    rcases hgo with hgo | hgo
    · cases pc <;> simp_all
    · rw [hgo]; cases pc <;> simp_all, h⟩

theorem en_sub (P : Params) (called : Bool) {s : St} {i : Nat} {pc : SPC} (hpc : s.subs[i]? = some pc)
    (hne : pc ≠ .idle := by simp) (hgo : pc ≠ .rlock := by simp)
    (h : (stepSub s i).isSome = true) : Enabled P called s := en_sub' P called hpc hne (Or.inl hgo) h

theorem drain_step {s : St} {w : Nat} (hw : s.workers[w]? = some .drain) :
    (stepTake s w).isSome = true ∨ (stepExit s w).isSome = true := by
  unfold stepTake stepExit
  rw [hw]
  cases hq : s.queue with
  | cons t q => left; rfl
  | nil =>
    cases hc : s.qClosed
    · right; simp; split <;> rfl
    · left; rfl

/-- a worker that is not parked for a reason of the environment has a step -/
theorem wrk_progress (P : Params) (called : Bool) {s : St} {w : Nat} {pc : WPC} (hw : s.workers[w]? = some pc)
    (hnb : pc.bad = false) (hne : pc ≠ .exited) (hidle : pc = .idle → s.done = true ∨ s.queue ≠ []) :
    Enabled P called s ∨ TaskRunning s := by
  cases pc with
  | born => exact Or.inl ⟨.wready w, rfl, by simp [step, hw]⟩
  | run t => exact Or.inr ⟨_, List.mem_of_getElem? hw, rfl⟩
  | drun t => exact Or.inr ⟨_, List.mem_of_getElem? hw, rfl⟩
  | exited => exact absurd rfl hne
  | dead => cases hnb
  | nilrun => cases hnb
  | drain =>
    rcases drain_step hw with h | h
    · exact Or.inl ⟨.take w, rfl, h⟩
    · exact Or.inl ⟨.exit w, rfl, h⟩
  | idle =>
    rcases hidle rfl with h | h
    · exact Or.inl ⟨.seeDone w, rfl, by simp [step, hw, h]⟩
    · refine Or.inl ⟨.take w, rfl, ?_⟩
      simp only [step, stepTake, hw]
      cases hq : s.queue with
      | nil => exact absurd hq h
      | cons t q => rfl

/-- the executor has been started: all `n ≥ 1` workers exist and are past `ready <-` -/
theorem worker0 {s : St} (h : Inv s) (hl : InvL s) (hst : s.st = .running ∨ s.st = .shutdown ∨ s.st = .terminated) :
    ∃ pc, s.workers[0]? = some pc ∧ pc.notBorn = true ∧ pc.bad = false := by
  have hlen := h.A.fullLen hst
  have hn := h.A.npos
  have h0 : 0 < s.workers.length := by omega
  refine ⟨s.workers[0], List.getElem?_eq_getElem h0, hl.noBorn hst _ (List.getElem_mem h0), h.W.noBad _ (List.getElem_mem h0)⟩

theorem queue_progress (P : Params) (called : Bool) {s : St} (h : Inv s) (hl : InvL s) (hq : s.queue ≠ []) :
    Enabled P called s ∨ TaskRunning s := by
  have hst : s.st = .running ∨ s.st = .shutdown ∨ s.st = .terminated := by
    cases hs : s.st
    · exact absurd (hl.earlyEmpty (Or.inl hs)) hq
    · exact absurd (hl.earlyEmpty (Or.inr hs)) hq
    all_goals simp
  obtain ⟨pc, hw, _, hb⟩ := worker0 h hl hst
  refine wrk_progress P called hw hb ?_ (fun _ => Or.inr hq)
  intro e; subst e
  exact hq (h.W.exitedEmpty (List.mem_of_getElem? hw))

theorem send_progress (P : Params) (called : Bool) {s : St} (h : Inv s) (hl : InvL s) {i : Nat}
    (hpc : s.subs[i]? = some .send) : Enabled P called s ∨ TaskRunning s := by
  have hrun := h.A.sendRunning _ (List.mem_of_getElem? hpc) rfl
  by_cases hc : s.qClosed = true
  · exact Or.inl (en_sub P called hpc (h := by simp [stepSub, hpc, hc]))
  by_cases hroom : s.queue.length < s.cap
  · exact Or.inl (en_sub P called hpc (h := by simp [stepSub, hpc, hc, hroom]))
  by_cases hq : s.queue = []
  · obtain ⟨pc, hw, hnb, hb⟩ := worker0 h hl (Or.inl hrun)
    have hnd : pc.draining = false := by
      cases hd : pc.draining
      · rfl
      · exact absurd hrun (h.A.not_running_of_done (h.W.drainDone _ (List.mem_of_getElem? hw) hd))
    cases pc with
    | idle =>
      refine Or.inl ⟨.handoff i 0, rfl, ?_⟩
      have hc' : s.qClosed = false := by simpa using hc
      simp [step, stepHandoff, hpc, hw, hc', hq]
    | run t => exact Or.inr ⟨_, List.mem_of_getElem? hw, rfl⟩
    | born => cases hnb
    | dead => cases hb
    | nilrun => cases hb
    | drain => cases hnd
    | drun t => cases hnd
    | exited => cases hnd
  · exact queue_progress P called h hl hq

theorem holder_progress (P : Params) (called : Bool) {s : St} (h : Inv s) (hl : InvL s) {i : Nat} {pc : SPC}
    (hpc : s.subs[i]? = some pc) (hh : pc.holds = true) : Enabled P called s ∨ TaskRunning s := by
  cases pc with
  | send => exact send_progress P called h hl hpc
  | check => exact Or.inl (en_sub P called hpc (h := by simp only [stepSub, hpc]; split <;> rfl))
  | unlockOk => exact Or.inl (en_sub P called hpc (h := by simp [stepSub, hpc]))
  | unlockErr => exact Or.inl (en_sub P called hpc (h := by simp [stepSub, hpc]))
  | _ => cases hh

theorem spawner_progress (P : Params) (called : Bool) {s : St} (h : Inv s) (hl : InvL s) {i : Nat} {pc : SPC}
    (hpc : s.subs[i]? = some pc) (hs : pc.isSpawner = true) : Enabled P called s := by
  cases pc with
  | spawning k => exact en_sub P called hpc (h := by simp only [stepSub, hpc]; split <;> rfl)
  | waiting k =>
    by_cases hk : k < s.n
    · by_cases hr : 0 < s.ready
      · exact en_sub P called hpc (h := by simp [stepSub, hpc, hk, hr])
      · have hm := List.mem_of_getElem? hpc
        have h1 := hl.waitReady k hm
        have h2 := h.A.waitingLen k hm
        have hlt : s.workers.countP WPC.notBorn < s.workers.length := by omega
        have : ¬ (∀ w ∈ s.workers, WPC.notBorn w = true) := fun hall => by
          rw [List.countP_eq_length.mpr hall] at hlt; omega
        have : ∃ w ∈ s.workers, WPC.notBorn w = false := by
          apply Classical.byContradiction
          intro hne; apply this
          intro w hw
          cases hb : WPC.notBorn w
          · exact absurd ⟨w, hw, hb⟩ hne
          · rfl
        obtain ⟨w, hw, hb⟩ := this
        obtain ⟨j, hj⟩ := List.mem_iff_getElem?.mp hw
        cases w <;> try (cases hb; done)
        exact ⟨.wready j, rfl, by simp [step, hj]⟩
    · exact en_sub P called hpc (h := by simp [stepSub, hpc, hk])
  | _ => cases hs

theorem closer_holds_progress (P : Params) (called : Bool) {s : St} (hh : s.closer.holds = true) : Enabled P called s := by
  cases hc : s.closer with
  | cas => exact ⟨.closer, by simp [Act.internal, hc], by simp only [step, stepCloser, hc]; split <;> rfl⟩
  | unlock b => exact ⟨.closer, by simp [Act.internal, hc], by simp [step, stepCloser, hc]⟩
  | _ => rw [hc] at hh; cases hh

theorem closer_progress (P : Params) (called : Bool) {s : St} (h : Inv s) (hl : InvL s)
    (hb : s.closer.busy called = true) : Enabled P called s ∨ TaskRunning s := by
  have en : (stepCloser s).isSome = true → Enabled P called s := by
    intro he
    refine ⟨.closer, ?_, he⟩
    simp only [Act.internal]
    cases hc : s.closer <;> rw [hc] at hb <;> simp_all [CPC.busy]
  cases hc : s.closer with
  | idle =>
    by_cases hany : s.subs.any SPC.holds = true
    · obtain ⟨pc, hm, hh⟩ := List.any_eq_true.mp hany
      obtain ⟨j, hj⟩ := List.mem_iff_getElem?.mp hm
      exact holder_progress P called h hl hj hh
    · exact Or.inl (en (by simp [stepCloser, hc, hany]))
  | cas => exact Or.inl (en (by simp only [stepCloser, hc]; split <;> rfl))
  | unlock b => exact Or.inl (en (by simp [stepCloser, hc]))
  | closeDone => exact Or.inl (en (by simp only [stepCloser, hc]; split <;> rfl))
  | closeQ => exact Or.inl (en (by simp only [stepCloser, hc]; split <;> rfl))
  | setTerm => exact Or.inl (en (by simp [stepCloser, hc]))
  | ret b => rw [hc] at hb; cases hb
  | panicked => rw [hc] at hb; cases hb
  | wait =>
    by_cases hwg : s.wg = 0
    · exact Or.inl (en (by simp [stepCloser, hc, hwg]))
    · have hpos : 0 < s.workers.countP WPC.alive := by rw [← h.W.wgEq]; omega
      obtain ⟨w, hm, hal⟩ := List.countP_pos_iff.mp hpos
      obtain ⟨j, hj⟩ := List.mem_iff_getElem?.mp hm
      have hd : s.done = true := by rw [h.A.doneEq, hc]; rfl
      refine wrk_progress P called hj (h.W.noBad w hm) ?_ (fun _ => Or.inl hd)
      intro e; subst e; cases hal

theorem sub_progress (P : Params) (called : Bool) {s : St} (h : Inv s) (hl : InvL s) {i : Nat} {pc : SPC}
    (hpc : s.subs[i]? = some pc) (hb : pc.busy = true) : Enabled P called s ∨ TaskRunning s := by
  cases pc with
  | idle => cases hb
  | retOk => cases hb
  | retErr => cases hb
  | panicked => cases hb
  | cas => exact Or.inl (en_sub P called hpc (h := by simp only [stepSub, hpc]; split <;> rfl))
  | spawning k => exact Or.inl (spawner_progress P called h hl hpc rfl)
  | waiting k => exact Or.inl (spawner_progress P called h hl hpc rfl)
  | spin =>
    by_cases hst : s.st = .started
    · obtain ⟨j, q, hj, hq⟩ := hl.spinner hst
      exact Or.inl (spawner_progress P called h hl hj hq)
    · exact Or.inl (en_sub P called hpc (h := by simp [stepSub, hpc, hst]))
  | rlock =>
    by_cases hh : s.closer.holds = true
    · exact Or.inl (closer_holds_progress P called hh)
    · by_cases hw : (called && s.closer == .idle) = true
      · refine closer_progress P called h hl ?_
        simp only [Bool.and_eq_true, beq_iff_eq] at hw
        rw [hw.2]; exact hw.1
      · exact Or.inl (en_sub' P called hpc (by simp) (Or.inr (by simpa using hw)) (by simp [stepSub, hpc, hh]))
  | check => exact holder_progress P called h hl hpc rfl
  | send => exact holder_progress P called h hl hpc rfl
  | unlockOk => exact holder_progress P called h hl hpc rfl
  | unlockErr => exact holder_progress P called h hl hpc rfl

/-- in every reachable state in which something is left to do (`Unfinished`), an action of the executor's own
goroutines is enabled, or a task body is running -/
theorem no_stuck (P : Params) (called : Bool) {s : St} (h : Inv s) (hl : InvL s) (hu : Unfinished called s) :
    Enabled P called s ∨ TaskRunning s := by
  rcases hu with ⟨pc, hm, hb⟩ | ⟨w, hm, hw⟩ | ⟨hm, hd⟩ | hq | hc
  · obtain ⟨j, hj⟩ := List.mem_iff_getElem?.mp hm
    exact sub_progress P called h hl hj hb
  · obtain ⟨j, hj⟩ := List.mem_iff_getElem?.mp hm
    refine wrk_progress P called hj (h.W.noBad w hm) ?_ ?_
    · rcases hw with e | e <;> subst e <;> simp
    · rcases hw with e | e <;> subst e <;> simp
  · obtain ⟨j, hj⟩ := List.mem_iff_getElem?.mp hm
    exact wrk_progress P called hj rfl (by simp) (fun _ => Or.inl hd)
  · exact queue_progress P called h hl hq
  · exact closer_progress P called h hl hc

/-- nothing the executor's own goroutines could do is enabled, and no task body is running -/
def Quiescent (P : Params) (called : Bool) (s : St) : Prop :=
  (∀ a, Act.internal called s a = true → step P s a = none) ∧ ¬ TaskRunning s

theorem quiescent_not_unfinished (P : Params) (called : Bool) {s : St} (h : Inv s) (hl : InvL s)
    (hq : Quiescent P called s) : ¬ Unfinished called s := by
  intro hu
  rcases no_stuck P called h hl hu with ⟨a, hi, he⟩ | hr
  · rw [hq.1 a hi] at he; cases he
  · exact hq.2 hr

/-- what a quiescent state looks like -/
theorem quiescent_done (P : Params) (called : Bool) {s : St} (h : Inv s) (hl : InvL s) (hq : Quiescent P called s) :
    (∀ pc ∈ s.subs, pc = .idle ∨ pc = .retOk ∨ pc = .retErr) ∧
    (s.queue = [] ∧ ∀ t ∈ s.accepted, s.started.count t = 1 ∧ s.finished.count t = 1) ∧
    ((∀ w ∈ s.workers, w = .idle ∨ w = .exited) ∧ (WPC.idle ∈ s.workers → s.done = false)) ∧
    (called = true → ∃ b, s.closer = .ret b) := by
  have hnu := quiescent_not_unfinished P called h hl hq
  have hqe : s.queue = [] := by
    apply Classical.byContradiction
    intro hne; exact hnu (Or.inr (Or.inr (Or.inr (Or.inl hne))))
  refine ⟨?_, ⟨hqe, ?_⟩, ⟨?_, ?_⟩, ?_⟩
  · intro pc hm
    have hb : pc.busy = false := by
      cases hb : pc.busy
      · rfl
      · exact absurd (Or.inl ⟨pc, hm, hb⟩) hnu
    have := h.A.subNoPanic pc hm
    cases pc <;> simp_all [SPC.busy]
  · intro t ht
    have hf := h.T.fifo
    rw [hqe, List.append_nil] at hf
    have hruns : runs s.workers t = 0 := by
      apply List.countP_eq_zero.mpr
      intro w hw hc
      apply hq.2
      refine ⟨w, hw, ?_⟩
      cases w <;> simp [WPC.task?] at hc ⊢
    have hc := h.T.startedCount t
    have hacc : s.accepted.count t ≤ 1 := by rw [h.T.acceptedCount t, accAt]; split <;> omega
    have : 0 < s.accepted.count t := List.count_pos_iff.mpr ht
    rw [hruns, hf] at hc
    rw [hf]; omega
  · intro w hm
    have hb := h.W.noBad w hm
    cases w with
    | idle => exact Or.inl rfl
    | exited => exact Or.inr rfl
    | born => exact absurd (Or.inr (Or.inl ⟨_, hm, Or.inl rfl⟩)) hnu
    | drain => exact absurd (Or.inr (Or.inl ⟨_, hm, Or.inr rfl⟩)) hnu
    | run t => exact absurd ⟨_, hm, rfl⟩ hq.2
    | drun t => exact absurd ⟨_, hm, rfl⟩ hq.2
    | dead => cases hb
    | nilrun => cases hb
  · intro hm
    cases hd : s.done
    · rfl
    · exact absurd (Or.inr (Or.inr (Or.inl ⟨hm, hd⟩))) hnu
  · intro hc
    have hb : s.closer.busy called = false := by
      cases hb : s.closer.busy called
      · rfl
      · exact absurd (Or.inr (Or.inr (Or.inr (Or.inr hb)))) hnu
    have := h.A.notPanicked
    subst hc
    cases hcl : s.closer <;> rw [hcl] at hb <;> simp_all [CPC.busy]

/-! ### the end of the demo schedule of Lemmas/C18.lean is quiescent (used by a non-vacuity example) -/

def demoEnd : St :=
  { n := 2, cap := 1, st := .terminated, queue := [], qClosed := true, done := true, ready := 0, wg := 0,
    workers := [.exited, .exited], subs := [.retOk, .retOk, .retOk, .idle], closer := .ret true,
    accepted := [0, 1, 2], started := [0, 1, 2], finished := [0, 1, 2] }
theorem demoEnd_run : runActs params demoInit (demoPrefix ++ demoShutdown) = some demoEnd := by rfl
theorem demoEnd_quiescent : Quiescent params true demoEnd := by
  refine ⟨?_, ?_⟩
  · intro a hi
    cases a with
    | sub i =>
      match i with
      | 0 | 1 | 2 => rfl
      | 3 => simp [Act.internal, demoEnd] at hi
      | i + 4 => rfl
    | handoff i w =>
      match i with
      | 0 | 1 | 2 | 3 => rfl
      | i + 4 => rfl
    | wready w => match w with
      | 0 | 1 => rfl
      | w + 2 => rfl
    | take w => match w with
      | 0 | 1 => rfl
      | w + 2 => rfl
    | seeDone w => match w with
      | 0 | 1 => rfl
      | w + 2 => rfl
    | finish w k => cases hi
    | exit w => match w with
      | 0 | 1 => rfl
      | w + 2 => rfl
    | closer => rfl
  · rintro ⟨w, hm, hw⟩
    simp [demoEnd] at hm
    subst hm; cases hw

end Fatchoy.C18
