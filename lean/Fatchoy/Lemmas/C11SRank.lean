/-
C11, structural skip list S: the cut of the chain by a condition on (score, member), and the rank
lookups `GetRank` / `GetElementByRank` computed through the spans against their content-level
specifications in layer L.
-/
import Fatchoy.Lemmas.C11SSearch
namespace Fatchoy.C11.S

/-- the chain is pairwise ordered by (score, member) -/
theorem Inv.pairwise_lt {s : SList} {l : List Nat} (hI : Inv s l) :
    l.Pairwise (fun a b => (nodeOf s a).lt (nodeOf s b) = true) := by
  have := hI.sorted
  unfold Sorted at this
  rwa [List.pairwise_map] at this

/-- a condition on the key that is downward closed in the order cuts the chain into
  `takeWhile` / `dropWhile` -/
theorem cut_key {s : SList} {l : List Nat} (hI : Inv s l) (k : Node → Bool)
    (hk : ∀ a b : Node, a.lt b = true → k b = true → k a = true) :
    Cut s (fun f _ => k f.key) (l.takeWhile (fun x => k (nodeOf s x))) (l.dropWhile (fun x => k (nodeOf s x))) := by
  constructor
  · intro P f Q hs hP
    cases P with
    | nil => exact absurd rfl hP
    | cons p P' =>
      simp only [List.cons_append, List.cons.injEq] at hs
      have hm : f ∈ l.takeWhile (fun x => k (nodeOf s x)) := by rw [hs.2]; simp
      exact mem_takeWhile_imp (p := fun x => k (nodeOf s x)) hm
  · intro P b Q hs
    have hd := dropWhile_eq_filter_not (fun x => k (nodeOf s x))
      (hI.pairwise_lt.imp (fun {a b} hab hb => hk _ _ hab hb))
    have hm : b ∈ l.dropWhile (fun x => k (nodeOf s x)) := by rw [hs]; simp
    rw [hd] at hm
    simp only [List.mem_filter, Bool.not_eq_true'] at hm
    exact hm.2

theorem abs_takeWhile {s : SList} {l : List Nat} (hI : Inv s l) (k : Node → Bool) :
    (abs s).takeWhile k = (l.takeWhile (fun x => k (nodeOf s x))).map (nodeOf s) ∧
    (abs s).dropWhile k = (l.dropWhile (fun x => k (nodeOf s x))).map (nodeOf s) := by
  rw [hI.abs_eq, List.takeWhile_map, List.dropWhile_map]
  exact ⟨rfl, rfl⟩

theorem le_down (t : Node) : ∀ a b : Node, a.lt b = true → b.le t = true → a.le t = true :=
  fun _ _ hab hb => Node.le_trans (Node.le_of_lt hab) hb

theorem lt_down (t : Node) : ∀ a b : Node, a.lt b = true → b.lt t = true → a.lt t = true :=
  fun _ _ hab hb => Node.lt_trans hab hb

/-- every node of the chain has height ≥ 1, so nothing is skipped after level-0's `update` -/
theorem suf_nil_of_level0 {s : SList} {l : List Nat} (hI : Inv s l) {A B : List Nat} (hl : l = A ++ B)
    {p : List Nat} {y : Nat} {suf : List Nat} (hs : 0 :: A = p ++ y :: suf)
    (hnone : ∀ a ∈ suf, up s 0 a = false) : suf = [] := by
  cases suf with
  | nil => rfl
  | cons a rest =>
    exfalso
    have ha : a ∈ l := by
      have : a ∈ 0 :: A := by rw [hs]; simp
      rcases List.mem_cons.mp this with h0 | hA
      · -- a = 0 would repeat the header
        have hn := hI.nodup
        rw [hl, ← List.cons_append, hs] at hn
        subst h0
        cases p with
        | nil =>
          simp only [List.nil_append, List.cons.injEq] at hs
          have := hs.1
          subst this
          simp at hn
        | cons q p' =>
          simp only [List.cons_append, List.cons.injEq] at hs
          have := hs.1
          subst this
          simp at hn
      · rw [hl]; exact List.mem_append_left _ hA
    have := (hI.hgt a ha).1
    have hu := hnone a List.mem_cons_self
    simp [up] at hu
    omega

theorem isUpd_zero {s : SList} {l : List Nat} (hI : Inv s l) {A B : List Nat} (hl : l = A ++ B)
    {y : Nat} {r : Int} (h : IsUpd s A 0 y r) : 0 :: A = (0 :: A).dropLast ++ [y] ∧ r = A.length := by
  obtain ⟨p, suf, hs, _, hnone, hr⟩ := h
  have hsuf : suf = [] := suf_nil_of_level0 hI hl hs hnone
  subst hsuf
  constructor
  · rw [hs]; simp
  · rw [hr]
    have := congrArg List.length hs
    simp only [List.length_cons, List.length_append, List.length_nil] at this
    omega

/-- `GetRank` through the spans = the rank of layer L, inside the calling contract -/
theorem getRank_refines {s : SList} {l : List Nat} (hI : Inv s l) (score : Int) (ele : Nat)
    (hcon : L.RankContract (abs s) score ele) :
    getRank s score ele = some ((L.getRank (abs s) score ele : Nat) : Int) := by
  let tgt : Node := ⟨score, ele⟩
  let A := l.takeWhile (fun x => (nodeOf s x).le tgt)
  let B := l.dropWhile (fun x => (nodeOf s x).le tgt)
  have hl : l = A ++ B := (List.takeWhile_append_dropWhile).symm
  have hc : Cut s (fun f _ => f.key.le tgt) A B := cut_key hI (fun n => n.le tgt) (le_down tgt)
  -- the expected answer in terms of A
  have hE : L.getRank (abs s) score ele =
      match A.getLast? with
      | some z => if (nd s z).ele == ele then A.length else 0
      | none => 0 := by
    unfold L.getRank
    simp only []
    rw [(abs_takeWhile hI (fun n => n.le tgt)).1]
    show (match ((A.map (nodeOf s)).getLast?) with
      | some x => if x.ele == ele then (A.map (nodeOf s)).length else 0
      | none => 0) = _
    rw [List.getLast?_map, List.length_map]
    cases A.getLast? <;> rfl
  -- a node of A with the member is the last node of A
  have hmatch : ∀ p y suf, 0 :: A = p ++ y :: suf → y ≠ 0 → (nd s y).ele = ele → suf = [] := by
    intro p y suf hs hy0 hele
    have hyA : y ∈ A := by
      have : y ∈ 0 :: A := by rw [hs]; simp
      rcases List.mem_cons.mp this with h | h
      · exact absurd h hy0
      · exact h
    have hyle : (nodeOf s y).le tgt = true := mem_takeWhile_imp (p := fun x => (nodeOf s x).le tgt) hyA
    have hyl : y ∈ l := by rw [hl]; exact List.mem_append_left _ hyA
    have hsc : score ≤ (nodeOf s y).score := by
      apply hcon (nodeOf s y)
      · rw [hI.abs_eq]; exact List.mem_map_of_mem hyl
      · exact hele
    have hkey : nodeOf s y = tgt := by
      rw [Node.le_iff] at hyle
      rw [Node.ext_iff']
      have : (nodeOf s y).ele = ele := hele
      simp only [tgt] at hyle ⊢
      omega
    cases suf with
    | nil => rfl
    | cons a rest =>
      exfalso
      have haA : a ∈ A := by
        have : a ∈ 0 :: A := by rw [hs]; simp
        rcases List.mem_cons.mp this with h | h
        · have hn := hI.nodup
          rw [hl, ← List.cons_append, hs] at hn
          subst h
          cases p with
          | nil => simp only [List.nil_append, List.cons.injEq] at hs; exact absurd hs.1.symm hy0
          | cons q p' =>
            simp only [List.cons_append, List.cons.injEq] at hs
            have := hs.1; subst this
            simp at hn
        · exact h
      have hale : (nodeOf s a).le tgt = true := mem_takeWhile_imp (p := fun x => (nodeOf s x).le tgt) haA
      -- y before a in the chain: y < a
      have hpw := hI.pairwise_lt
      have hA' : A = p.tail ++ y :: a :: rest := by
        cases p with
        | nil => simp only [List.nil_append, List.cons.injEq] at hs; exact absurd hs.1.symm hy0
        | cons q p' => simp only [List.cons_append, List.cons.injEq] at hs; rw [hs.2]; rfl
      rw [hl, hA'] at hpw
      simp only [List.append_assoc, List.cons_append] at hpw
      rw [List.pairwise_append] at hpw
      have := (List.pairwise_cons.mp hpw.2.1).1 a (by simp)
      rw [hkey] at this
      rw [Node.not_le_of_lt this] at hale
      cases hale
  -- the loop
  have key : ∀ n, n ≤ s.level → ∀ pre x suf, 0 :: A = pre ++ x :: suf → n ≤ height s x →
      (x = 0 ∨ (nd s x).ele ≠ ele) → (n = 0 → suf = []) →
      getRankLoop s score ele n x (pre.length : Int) = some ((L.getRank (abs s) score ele : Nat) : Int) := by
    intro n
    induction n with
    | zero =>
      intro _ pre x suf hs _ hx hsuf
      have hsuf := hsuf rfl
      subst hsuf
      simp only [getRankLoop]
      rw [hE]
      cases pre with
      | nil =>
        simp only [List.nil_append, List.cons.injEq] at hs
        rw [hs.2]; rfl
      | cons q p' =>
        simp only [List.cons_append, List.cons.injEq] at hs
        rw [hs.2, List.getLast?_append]
        simp only [List.getLast?_singleton, Option.some_or]
        rcases hx with h0 | hne
        · exfalso
          have hn := hI.nodup
          rw [hl, hs.2, h0] at hn
          simp at hn
        · have : ((nd s x).ele == ele) = false := by simpa using hne
          simp [this]
    | succ n ih =>
      intro hn pre x suf hs hx _ _
      have hfuel : suf.length < s.nodes.length := by
        have h1 := congrArg List.length hs
        have h2 := congrArg List.length hl
        have := hI.room
        simp only [List.length_cons, List.length_append] at h1 h2
        omega
      obtain ⟨y, r, hw, hu⟩ := walk_spec hI hl hc n (by omega) s.nodes.length pre x suf hs (by omega) hfuel
      obtain ⟨p', suf', hs', hy, hnone, hr⟩ := hu
      subst hr
      unfold getRankLoop
      rw [hw]
      simp only []
      by_cases hm : y ≠ 0 ∧ (nd s y).ele = ele
      · have hsuf' := hmatch p' y suf' hs' hm.1 hm.2
        subst hsuf'
        have hcond : (decide (y ≠ 0) && (nd s y).ele == ele) = true := by simp [hm.1, hm.2]
        rw [if_pos hcond, hE]
        cases p' with
        | nil => simp only [List.nil_append, List.cons.injEq] at hs'; exact absurd hs'.1.symm hm.1
        | cons q p'' =>
          simp only [List.cons_append, List.cons.injEq] at hs'
          rw [hs'.2, List.getLast?_append]
          simp [hm.2]
      · have hcond : (decide (y ≠ 0) && (nd s y).ele == ele) = false := by
          by_cases h0 : y = 0
          · simp [h0]
          · have : (nd s y).ele ≠ ele := fun h => hm ⟨h0, h⟩
            simp [this]
        simp only [hcond, Bool.false_eq_true, if_false]
        apply ih (by omega) p' y suf' hs' (by omega)
        · by_cases h0 : y = 0
          · exact Or.inl h0
          · exact Or.inr (fun h => hm ⟨h0, h⟩)
        · intro hn0
          subst hn0
          exact suf_nil_of_level0 hI hl hs' hnone
  unfold getRank
  have := key s.level (Nat.le_refl _) [] 0 A rfl hI.level_le (Or.inl rfl)
    (fun h0 => by have := hI.level_pos; omega)
  simpa using this

end Fatchoy.C11.S
