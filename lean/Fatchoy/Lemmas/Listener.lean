/-
Invariants of the listener LTS (Model/Listener.lean), proved for every reachable state.
-/
import Fatchoy.Model.Listener
namespace Fatchoy.Listener

/-- listener `j` has been closed by the caller of `Close` -/
def closedUpTo : CPc → Nat → Prop
  | .idle, _ => False
  | .closeLn k, j => j < k
  | _, _ => True

/-- `done` is closed -/
def pastDone : CPc → Bool
  | .idle => false | .closeLn _ => false | .closeDone => false | _ => true
/-- `wg.Wait` has returned -/
def pastWait : CPc → Bool
  | .closeBacklog => true | .clear => true | .returned => true | _ => false
def chanOf : CPc → Chan
  | .clear => .closed | .returned => .nil | _ => .open

def heldCount (l : Loop) : Nat := (held l.pc).length
def act (l : Loop) : Nat := active l.pc

structure Inv (cfg : Cfg) (s : State) : Prop where
  notDead : s.cl ≠ .dead
  done_ : s.done = pastDone s.cl
  chan_ : s.bchan = chanOf s.cl
  wg_ : s.wg = (s.loops.map act).sum
  gone : pastWait s.cl = true → ∀ l ∈ s.loops, l.pc = .exited
  shut : ∀ j l, s.loops[j]? = some l → closedUpTo s.cl j → l.isOpen = false
  count : s.accepted.length = s.handed.length + s.closed.length + (s.loops.map heldCount).sum
  fifo : s.handed = s.taken ++ s.backlog
  room : s.backlog.length ≤ cfg.bcap
  panics : ∀ p ∈ s.panics, p = .closeTwice

theorem sum_set {α : Type} (f : α → Nat) : ∀ (l : List α) (i : Nat) (x y : α), l[i]? = some x →
    ((l.set i y).map f).sum + f x = (l.map f).sum + f y
  | [], i, x, y, h => by simp at h
  | a :: l, 0, x, y, h => by
    simp at h; subst h
    simp only [List.set_cons_zero, List.map_cons, List.sum_cons]; omega
  | a :: l, i + 1, x, y, h => by
    simp only [List.getElem?_cons_succ] at h
    have := sum_set f l i x y h
    simp only [List.set_cons_succ, List.map_cons, List.sum_cons]; omega

theorem sum_zero {α : Type} (f : α → Nat) : ∀ (l : List α), (l.map f).sum = 0 → ∀ x ∈ l, f x = 0
  | [], _, x, hx => by simp at hx
  | a :: l, h, x, hx => by
    simp only [List.map_cons, List.sum_cons] at h
    rcases List.mem_cons.mp hx with rfl | hx
    · omega
    · exact sum_zero f l (by omega) x hx

theorem inv_init (cfg : Cfg) : Inv cfg init := by
  constructor <;> simp [init, pastDone, chanOf, pastWait, closedUpTo]

/-- a loop step: loop `i` changes from `l` to `l'` -/
theorem mem_set_cases {α : Type} {l : List α} {i : Nat} {x y : α} (h : x ∈ l.set i y) : x ∈ l ∨ x = y :=
  List.mem_or_eq_of_mem_set h

theorem getElem?_set_cases {l : List Loop} {i j : Nat} {x y z : Loop} (hx : l[i]? = some x)
    (h : (l.set i y)[j]? = some z) : (j = i ∧ z = y) ∨ (j ≠ i ∧ l[j]? = some z) := by
  by_cases hji : i = j
  · subst hji
    have hi : i < l.length := by
      rcases Nat.lt_or_ge i l.length with h' | h'
      · exact h'
      · rw [List.getElem?_eq_none h'] at hx; simp at hx
    simp [hi] at h
    exact Or.inl ⟨rfl, h.symm⟩
  · rw [List.getElem?_set_ne hji] at h
    exact Or.inr ⟨fun h' => hji h'.symm, h⟩

/-- loop `i` changes from `l` to `l'` (its socket is not re-opened; an exited loop stays exited), the caller of
  `Close` does not move -/
theorem inv_upd {cfg : Cfg} {s s1 : State} {i : Nat} {l l' : Loop} (h : Inv cfg s) (hl : s.loops[i]? = some l)
    (e1 : s1.loops = s.loops.set i l') (e2 : s1.cl = s.cl) (e3 : s1.done = s.done) (e4 : s1.bchan = s.bchan)
    (ho : l.isOpen = false → l'.isOpen = false) (hw : s1.wg + act l = s.wg + act l')
    (hx : l.pc = .exited → l'.pc = .exited)
    (hc : s1.accepted.length + s.handed.length + s.closed.length + heldCount l =
      s.accepted.length + s1.handed.length + s1.closed.length + heldCount l')
    (hf : s1.handed = s1.taken ++ s1.backlog) (hr : s1.backlog.length ≤ cfg.bcap)
    (hp : ∀ p ∈ s1.panics, p = .closeTwice) : Inv cfg s1 := by
  obtain ⟨a, b, c, d, e, f, g, _, _, _⟩ := h
  have hs1 := sum_set act s.loops i l l' hl
  have hs2 := sum_set heldCount s.loops i l l' hl
  constructor
  · rw [e2]; exact a
  · rw [e2, e3]; exact b
  · rw [e2, e4]; exact c
  · rw [e1]; omega
  · rw [e1, e2]; intro hpw x hx'
    rcases mem_set_cases hx' with hx' | rfl
    · exact e hpw x hx'
    · exact hx (e hpw l (List.mem_of_getElem? hl))
  · rw [e1, e2]; intro j z hz hcu
    rcases getElem?_set_cases hl hz with ⟨rfl, rfl⟩ | ⟨_, hz'⟩
    · exact ho (f _ l hl hcu)
    · exact f j z hz' hcu
  · rw [e1]; omega
  · exact hf
  · exact hr
  · exact hp

theorem inv_accept {cfg : Cfg} {s s' : State} {i : Nat} (h : Inv cfg s) (hs : stepAccept s i = some s') :
    Inv cfg s' := by
  unfold stepAccept at hs
  split at hs
  · next c rest hl =>
    injection hs with hs; subst hs
    refine inv_upd h hl rfl rfl rfl rfl (by simp) (by simp [act, active]) (by simp) ?_ h.fifo h.room h.panics
    simp [heldCount, held]; omega
  · simp at hs

theorem inv_acceptErr {cfg : Cfg} {s s' : State} {i : Nat} {env : Bool} (h : Inv cfg s)
    (hs : stepAcceptErr s i env = some s') : Inv cfg s' := by
  unfold stepAcceptErr at hs
  split at hs
  · next o pend hl =>
    repeat' (split at hs)
    all_goals (first | (simp at hs; done) | skip)
    all_goals (injection hs with hs; subst hs)
    all_goals (refine inv_upd h hl rfl rfl rfl rfl (by simp) (by simp [act, active]) (by simp) ?_ h.fifo h.room h.panics)
    all_goals (simp [heldCount, held])
  · simp at hs

theorem inv_loop {cfg : Cfg} {s s' : State} {i : Nat} {td : Bool} (h : Inv cfg s)
    (hs : stepLoop cfg s i td = some s') : Inv cfg s' := by
  unfold stepLoop at hs
  simp only [setPc] at hs
  split at hs
  · simp at hs
  · next l hl =>
    have hwgpos : l.pc ≠ .exited → 1 ≤ s.wg := by
      intro hne
      have := sum_set act s.loops i l ⟨l.isOpen, l.pend, .exited⟩ hl
      rw [h.wg_]
      have h1 : act l = 1 := by cases hpc : l.pc <;> simp_all [act, active]
      simp only [act, active] at this h1 ⊢
      omega
    split at hs
    · simp at hs
    · -- errCheck
      next hpc =>
      injection hs with hs; subst hs
      exact inv_upd h hl rfl rfl rfl rfl (fun x => x) (by simp [act, active, hpc]) (by simp [hpc])
        (by simp [heldCount, held, hpc]) h.fifo h.room h.panics
    · -- got c
      next c hpc =>
      split at hs
      · injection hs with hs; subst hs
        refine inv_upd h hl rfl rfl rfl rfl (fun x => x) (by simp [act, active, hpc]) (by simp [hpc]) ?_ h.fifo h.room h.panics
        simp [heldCount, held, hpc]; omega
      · injection hs with hs; subst hs
        exact inv_upd h hl rfl rfl rfl rfl (fun x => x) (by simp [act, active, hpc]) (by simp [hpc])
          (by simp [heldCount, held, hpc]) h.fifo h.room h.panics
    · -- offer c
      next c hpc =>
      have hopen : s.bchan = .open := by
        rw [h.chan_]
        cases hcl : s.cl <;> simp [chanOf]
        · have := h.gone (by simp [hcl, pastWait]) l (List.mem_of_getElem? hl); rw [hpc] at this; simp at this
        · have := h.gone (by simp [hcl, pastWait]) l (List.mem_of_getElem? hl); rw [hpc] at this; simp at this
      split at hs
      · split at hs
        · injection hs with hs; subst hs
          refine inv_upd h hl rfl rfl rfl rfl (fun x => x) (by simp [act, active, hpc]) (by simp [hpc]) ?_ h.fifo h.room h.panics
          simp [heldCount, held, hpc]; omega
        · simp at hs
      · rw [hopen] at hs
        simp only at hs
        split at hs
        · next hroom =>
          injection hs with hs; subst hs
          refine inv_upd h hl rfl rfl rfl (by simp [hopen]) (fun x => x) (by simp [act, active, hpc]) (by simp [hpc]) ?_ ?_ ?_ h.panics
          · simp [heldCount, held, hpc]; omega
          · show s.handed ++ [c] = s.taken ++ (s.backlog ++ [c])
            rw [h.fifo]; simp
          · show (s.backlog ++ [c]).length ≤ cfg.bcap
            simp; omega
        · simp at hs
    · -- wgDone
      next hpc =>
      have := hwgpos (by rw [hpc]; simp)
      split at hs
      · omega
      · injection hs with hs; subst hs
        refine inv_upd h hl rfl rfl rfl rfl (fun x => x) ?_ (by simp [hpc]) (by simp [heldCount, held, hpc]) h.fifo h.room h.panics
        simp [act, active, hpc]; omega
    · simp at hs

theorem inv_listen {cfg : Cfg} {s s' : State} (h : Inv cfg s) (hs : stepListen s = some s') : Inv cfg s' := by
  unfold stepListen at hs
  split at hs
  · next hcl =>
    injection hs with hs; subst hs
    obtain ⟨a, b, c, d, e, f, g, h1, h2, h3⟩ := h
    constructor
    · exact a
    · exact b
    · exact c
    · show s.wg + 1 = _
      simp [d, act, active]
    · intro hp; simp [hcl, pastWait] at hp
    · intro j l _ hcu; simp [hcl, closedUpTo] at hcu
    · show s.accepted.length = _
      simp [g, heldCount, held]
    · exact h1
    · exact h2
    · exact h3
  · simp at hs

theorem inv_dial {cfg : Cfg} {s s' : State} {i : Nat} {c : Conn} (h : Inv cfg s) (hs : stepDial s i c = some s') :
    Inv cfg s' := by
  unfold stepDial at hs
  split at hs
  · simp at hs
  · next l hl =>
    split at hs
    · injection hs with hs; subst hs
      exact inv_upd h hl rfl rfl rfl rfl (fun x => x) (by simp [act]) (fun x => x) (by simp [heldCount]) h.fifo h.room h.panics
    · injection hs with hs; subst hs
      obtain ⟨a, b, c, d, e, f, g, h1, h2, h3⟩ := h
      exact ⟨a, b, c, d, e, f, g, h1, h2, h3⟩

theorem inv_take {cfg : Cfg} {s s' : State} (h : Inv cfg s) (hs : stepTake s = some s') : Inv cfg s' := by
  unfold stepTake at hs
  split at hs
  · next c rest hb =>
    injection hs with hs; subst hs
    obtain ⟨a, b, c', d, e, f, g, h1, h2, h3⟩ := h
    refine ⟨a, b, c', d, e, f, g, ?_, ?_, h3⟩
    · show s.handed = s.taken ++ [c] ++ rest
      rw [h1, hb]; simp
    · show rest.length ≤ _
      rw [hb] at h2; simp at h2; omega
  · simp at hs

theorem inv_closeCall {cfg : Cfg} {s s' : State} (h : Inv cfg s) (hs : stepCloseCall s = some s') : Inv cfg s' := by
  unfold stepCloseCall at hs
  obtain ⟨a, b, c, d, e, f, g, h1, h2, h3⟩ := h
  split at hs
  · next hcl =>
    injection hs with hs; subst hs
    rw [hcl] at b c
    constructor
    · simp
    · simpa [pastDone] using b
    · simpa [chanOf] using c
    · exact d
    · intro hp; simp [pastWait] at hp
    · intro j l _ hcu; simp [closedUpTo] at hcu
    · exact g
    · exact h1
    · exact h2
    · exact h3
  · injection hs with hs; subst hs
    refine ⟨a, b, c, d, e, f, g, h1, h2, ?_⟩
    intro p hp
    rcases List.mem_append.mp hp with hp | hp
    · exact h3 p hp
    · simpa using hp

theorem inv_close {cfg : Cfg} {s s' : State} (h : Inv cfg s) (hs : stepClose s = some s') : Inv cfg s' := by
  unfold stepClose at hs
  obtain ⟨a, b, c, d, e, f, g, h1, h2, h3⟩ := h
  split at hs
  · simp at hs
  · next k hcl =>
    rw [hcl] at b c
    split at hs
    · next l hl =>
      injection hs with hs; subst hs
      have hs1 := sum_set act s.loops k l { l with isOpen := false, pend := [] } hl
      have hs2 := sum_set heldCount s.loops k l { l with isOpen := false, pend := [] } hl
      constructor
      · simp
      · simpa [pastDone] using b
      · simpa [chanOf] using c
      · show s.wg = _
        simp only [act] at hs1 ⊢; omega
      · intro hp; simp [pastWait] at hp
      · intro j z hz hcu
        simp only [closedUpTo] at hcu
        rcases getElem?_set_cases hl hz with ⟨_, rfl⟩ | ⟨hne, hz'⟩
        · rfl
        · exact f j z hz' (by rw [hcl]; simp only [closedUpTo]; omega)
      · show s.accepted.length = _
        simp only [heldCount] at hs2 ⊢; omega
      · exact h1
      · exact h2
      · exact h3
    · next hl =>
      injection hs with hs; subst hs
      have hk : s.loops.length ≤ k := by
        rcases Nat.lt_or_ge k s.loops.length with h' | h'
        · rw [List.getElem?_eq_getElem h'] at hl; simp at hl
        · exact h'
      constructor
      · simp
      · simpa [pastDone] using b
      · simpa [chanOf] using c
      · exact d
      · intro hp; simp [pastWait] at hp
      · intro j z hz _
        have hj : j < s.loops.length := by
          rcases Nat.lt_or_ge j s.loops.length with h' | h'
          · exact h'
          · rw [List.getElem?_eq_none h'] at hz; simp at hz
        exact f j z hz (by rw [hcl]; simp only [closedUpTo]; omega)
      · exact g
      · exact h1
      · exact h2
      · exact h3
  · next hcl =>
    rw [hcl] at b c
    simp only [pastDone] at b
    rw [b] at hs
    simp only [Bool.false_eq_true, if_false] at hs
    injection hs with hs; subst hs
    constructor
    · simp
    · simp [pastDone]
    · simpa [chanOf] using c
    · exact d
    · intro hp; simp [pastWait] at hp
    · intro j z hz _; exact f j z hz (by rw [hcl]; trivial)
    · exact g
    · exact h1
    · exact h2
    · exact h3
  · next hcl =>
    rw [hcl] at b c
    split at hs
    · next hwg =>
      injection hs with hs; subst hs
      constructor
      · simp
      · simpa [pastDone] using b
      · simpa [chanOf] using c
      · exact d
      · intro _ l hl
        have h0 := sum_zero act s.loops (by rw [← d]; exact hwg) l hl
        simp only [act] at h0
        cases hpc : l.pc <;> simp [hpc, active] at h0 ⊢
      · intro j z hz _; exact f j z hz (by rw [hcl]; trivial)
      · exact g
      · exact h1
      · exact h2
      · exact h3
    · simp at hs
  · next hcl =>
    rw [hcl] at b c
    simp only [chanOf] at c
    rw [c] at hs
    simp only at hs
    injection hs with hs; subst hs
    constructor
    · simp
    · simpa [pastDone] using b
    · simp [chanOf]
    · exact d
    · intro _; exact e (by rw [hcl]; rfl)
    · intro j z hz _; exact f j z hz (by rw [hcl]; trivial)
    · exact g
    · exact h1
    · exact h2
    · exact h3
  · next hcl =>
    rw [hcl] at b c
    injection hs with hs; subst hs
    constructor
    · simp
    · simpa [pastDone] using b
    · simp [chanOf]
    · exact d
    · intro _; exact e (by rw [hcl]; rfl)
    · intro j z hz _; exact f j z hz (by rw [hcl]; trivial)
    · exact g
    · exact h1
    · exact h2
    · exact h3
  · simp at hs
  · simp at hs

theorem inv_step {cfg : Cfg} {s s' : State} (a : Action) (h : Inv cfg s) (hs : step cfg s a = some s') : Inv cfg s' := by
  cases a <;> simp only [step] at hs
  case listen => exact inv_listen h hs
  case dial => exact inv_dial h hs
  case take => exact inv_take h hs
  case closeCall => exact inv_closeCall h hs
  case acceptFail => exact inv_acceptErr h hs
  case accept => exact inv_accept h hs
  case acceptClosed => exact inv_acceptErr h hs
  case loop => exact inv_loop h hs
  case close => exact inv_close h hs

theorem inv_reachable {cfg : Cfg} {s : State} (h : Reachable cfg s) : Inv cfg s := by
  induction h with
  | init => exact inv_init cfg
  | step a _ hs ih => exact inv_step a ih hs

end Fatchoy.Listener
