/-
Concrete states of the fine-grained systems used by the non-vacuity examples of Props/C06.lean.
-/
import Fatchoy.Lemmas.C06Fine
import Fatchoy.Lemmas.C05Ex
namespace Fatchoy.C05

def toF : Act → FAct
  | .add => .add
  | .del => .del
  | a => .cl a

/-- the wheel of `exW` (time 7; timer 2 periodic, due at 9; timers 1, 3, 4 one-shot; timer 5 started and
cancelled, both requests still queued), then: one empty tick (7 → 8), and the next tick up to the point
where the worker, in its second pass (time 9), has detached the bucket holding timer 2 -/
def exFActs : List FAct := exActs.map toF ++ [.begin, .next, .next, .begin, .next]
def exF0 : WF := WF.init (4294967294 - 7) 7
def exF : WF := (WF.run geom exF0 exFActs).getD exF0
theorem exF_run : WF.run geom exF0 exFActs = some exF := by rfl
theorem exF_reach : WFReach geom exF := WFReach.run exFActs (WFReach.init _ _) exF_run

/-- one step further: timer 2 decided for delivery, its send not yet done (in flight) -/
def exF' : WF := (WF.run geom exF [.next]).getD exF
theorem exF'_run : WF.run geom exF [.next] = some exF' := by rfl
theorem exF'_reach : WFReach geom exF' := WFReach.run [.next] exF_reach exF'_run

/-- the heap of `exH` (clock 1000; timer 2 periodic due at 1002, timer 1 due at 1003), 3 units later inside
`trigger`: before the first decision, and after both decisions (timer 2 re-armed, timer 1 popped;
both sends pending) -/
def exHFActs : List FAct := exActs.map toF ++ [.cl (.clock 3), .begin]
def exHF0 : HF := HF.init 1000
def exHF : HF := (HF.run geom exHF0 exHFActs).getD exHF0
set_option maxRecDepth 65536 in
theorem exHF_run : HF.run geom exHF0 exHFActs = some exHF := by rfl
theorem exHF_reach : HFReach geom exHF := HFReach.run exHFActs (HFReach.init _) exHF_run
def exHF' : HF := (HF.run geom exHF [.next, .next]).getD exHF
set_option maxRecDepth 65536 in
theorem exHF'_run : HF.run geom exHF [.next, .next] = some exHF' := by rfl
theorem exHF'_reach : HFReach geom exHF' := HFReach.run [.next, .next] exHF_reach exHF'_run

end Fatchoy.C05
