/-
Helper lemmas for C14, part 1 (the dictionary): the invariant `WF` — the nodes of the trie are exactly the
non-empty prefixes of the terminal paths, the terminal paths are distinct non-empty words and the counter
is their number — is established by `NewHashTrie`, kept by `AddWord`, `Remove` and `Reset`; `remove`'s
recursion clears exactly one terminal mark and prunes exactly the nodes that no longer lead to a word.
-/
import Fatchoy.Model.C14
namespace Fatchoy.C14

/-! ### small facts about the primitives -/

theorem isEnd_iff (t : Trie) (p : Path) : isEnd t p = true ↔ p ∈ t.ends := by simp [isEnd]

theorem isEnd_false_iff (t : Trie) (p : Path) : isEnd t p = false ↔ p ∉ t.ends := by simp [isEnd]

theorem isChild_iff (p q : Path) : isChild p q = true ↔ ∃ c, q = p ++ [c] := by
  unfold isChild
  simp only [Bool.and_eq_true, List.isPrefixOf_iff_prefix, beq_iff_eq]
  constructor
  · rintro ⟨⟨r, rfl⟩, hl⟩
    rw [List.length_append] at hl
    match r, hl with
    | [c], _ => exact ⟨c, rfl⟩
    | [], hl => simp at hl
    | _ :: _ :: _, hl => simp at hl
  · rintro ⟨c, rfl⟩
    exact ⟨List.prefix_append _ _, by simp⟩

theorem hasChildren_iff (t : Trie) (p : Path) : hasChildren t p = true ↔ ∃ c, p ++ [c] ∈ t.nodes := by
  unfold hasChildren
  rw [List.any_eq_true]
  constructor
  · rintro ⟨q, hq, hc⟩
    obtain ⟨c, rfl⟩ := (isChild_iff p q).mp hc
    exact ⟨c, hq⟩
  · rintro ⟨c, hc⟩
    exact ⟨p ++ [c], hc, (isChild_iff p _).mpr ⟨c, rfl⟩⟩

theorem mem_deleteSubtree (l : List Path) (child q : Path) :
    q ∈ deleteSubtree l child ↔ q ∈ l ∧ ¬ child <+: q := by
  unfold deleteSubtree
  rw [List.mem_filter]
  constructor
  · rintro ⟨h1, h2⟩
    refine ⟨h1, ?_⟩
    intro hp
    have := List.isPrefixOf_iff_prefix.mpr hp
    simp [this] at h2
  · rintro ⟨h1, h2⟩
    refine ⟨h1, ?_⟩
    cases h : child.isPrefixOf q with
    | false => rfl
    | true => exact absurd (List.isPrefixOf_iff_prefix.mp h) h2

/-- `delete(node.children, r)` of the child at `child` -/
def pruneChild (r : Trie) (child : Path) : Trie :=
  { r with nodes := deleteSubtree r.nodes child, ends := deleteSubtree r.ends child }

theorem removeRec_nil (t : Trie) (path : Path) :
    removeRec t path [] =
      ({ t with ends := t.ends.filter (· != path) },
       !isEnd { t with ends := t.ends.filter (· != path) } path &&
       !hasChildren { t with ends := t.ends.filter (· != path) } path) := rfl

theorem removeRec_cons (t : Trie) (path : Path) (c : Nat) (rest : List Nat) (h : path ++ [c] ∈ t.nodes) :
    removeRec t path (c :: rest) =
      ((if (removeRec t (path ++ [c]) rest).2 = true then pruneChild (removeRec t (path ++ [c]) rest).1 (path ++ [c])
        else (removeRec t (path ++ [c]) rest).1),
       !isEnd (if (removeRec t (path ++ [c]) rest).2 = true then pruneChild (removeRec t (path ++ [c]) rest).1 (path ++ [c])
        else (removeRec t (path ++ [c]) rest).1) path &&
       !hasChildren (if (removeRec t (path ++ [c]) rest).2 = true then pruneChild (removeRec t (path ++ [c]) rest).1 (path ++ [c])
        else (removeRec t (path ++ [c]) rest).1) path) := by
  rw [removeRec]
  simp only [h, if_true]
  rfl

/-- a proper extension has a first extra rune -/
theorem prefix_ne_exists {p e : Path} (h : p <+: e) (hne : e ≠ p) : ∃ d, p ++ [d] <+: e := by
  obtain ⟨r, rfl⟩ := h
  cases r with
  | nil => simp at hne
  | cons d r => exact ⟨d, ⟨r, by simp⟩⟩

theorem not_concat_prefix (p : Path) (c : Nat) : ¬ p ++ [c] <+: p := by
  intro h
  have := h.length_le
  simp at this
  omega

/-! ### the invariant -/

structure WF (t : Trie) : Prop where
  /-- the nodes are exactly the non-empty prefixes of the words -/
  nodes_iff : ∀ p, p ∈ t.nodes ↔ p ≠ [] ∧ ∃ e ∈ t.ends, p <+: e
  /-- the root is never terminal -/
  nil_not_end : [] ∉ t.ends
  nodup : t.ends.Nodup
  size_eq : t.size = t.ends.length

theorem wf_empty : WF Trie.empty :=
  ⟨fun p => by simp [Trie.empty], by simp [Trie.empty], by simp [Trie.empty], by simp [Trie.empty]⟩

/-! ### AddWord -/

theorem addLoop_snd (nodes : List Path) (path : Path) (w : List Nat) : (addLoop nodes path w).2 = path ++ w := by
  induction w generalizing nodes path with
  | nil => simp [addLoop]
  | cons c rest ih => simp [addLoop, ih]

theorem mem_addLoop (nodes : List Path) (path : Path) (w : List Nat) (q : Path) :
    q ∈ (addLoop nodes path w).1 ↔ q ∈ nodes ∨ ∃ r, r ≠ [] ∧ r <+: w ∧ q = path ++ r := by
  induction w generalizing nodes path with
  | nil =>
    simp only [addLoop, List.prefix_nil]
    constructor
    · exact Or.inl
    · rintro (h | ⟨r, hr, hr', _⟩)
      · exact h
      · exact absurd hr' hr
  | cons c rest ih =>
    simp only [addLoop, ih]
    have hstep : (q ∈ (if path ++ [c] ∈ nodes then nodes else (path ++ [c]) :: nodes)) ↔ q ∈ nodes ∨ q = path ++ [c] := by
      by_cases hc : path ++ [c] ∈ nodes
      · simp only [hc, if_true]
        constructor
        · exact Or.inl
        · rintro (h | h)
          · exact h
          · rw [h]; exact hc
      · simp only [hc, if_false, List.mem_cons]
        constructor
        · rintro (h | h)
          · exact Or.inr h
          · exact Or.inl h
        · rintro (h | h)
          · exact Or.inr h
          · exact Or.inl h
    rw [hstep]
    constructor
    · rintro ((h | h) | ⟨r, hr, hpre, rfl⟩)
      · exact Or.inl h
      · exact Or.inr ⟨[c], by simp, by simp [List.cons_prefix_cons], h⟩
      · exact Or.inr ⟨c :: r, by simp, by simp [List.cons_prefix_cons, hpre], by simp⟩
    · rintro (h | ⟨r, hr, hpre, rfl⟩)
      · exact Or.inl (Or.inl h)
      · cases r with
        | nil => exact absurd rfl hr
        | cons d r' =>
          rw [List.cons_prefix_cons] at hpre
          obtain ⟨rfl, hpre'⟩ := hpre
          cases r' with
          | nil => exact Or.inl (Or.inr rfl)
          | cons x r'' => exact Or.inr ⟨x :: r'', by simp, hpre', by simp⟩

theorem addWord_nil (t : Trie) : addWord t [] = t := by simp [addWord]

/-- the terminal paths after `AddWord`: the word is put in front unless it is empty or already there -/
theorem addWord_ends (t : Trie) (w : List Nat) :
    (addWord t w).ends = if w = [] ∨ w ∈ t.ends then t.ends else w :: t.ends := by
  unfold addWord
  by_cases hw : w = []
  · simp [hw]
  · simp only [hw, if_false, addLoop_snd, List.nil_append, false_or]
    by_cases he : w ∈ t.ends
    · simp [isEnd, he]
    · simp [isEnd, he]

theorem wf_addWord (t : Trie) (w : List Nat) (ht : WF t) : WF (addWord t w) := by
  by_cases hw : w = []
  · subst hw; rw [addWord_nil]; exact ht
  have hends := addWord_ends t w
  have hnodes : ∀ q, q ∈ (addWord t w).nodes ↔ q ∈ t.nodes ∨ ∃ r, r ≠ [] ∧ r <+: w ∧ q = r := by
    intro q
    have := mem_addLoop t.nodes [] w q
    simp only [List.nil_append] at this
    unfold addWord
    simp only [hw, if_false]
    split <;> exact this
  have hsize : (addWord t w).size = if w ∈ t.ends then t.size else t.size + 1 := by
    unfold addWord
    simp only [hw, if_false, addLoop_snd, List.nil_append]
    by_cases he : w ∈ t.ends
    · simp [isEnd, he]
    · simp [isEnd, he]
  by_cases he : w ∈ t.ends
  · simp only [hw, he, or_true, if_true] at hends
    simp only [he, if_true] at hsize
    refine ⟨?_, by rw [hends]; exact ht.nil_not_end, by rw [hends]; exact ht.nodup, by rw [hends, hsize]; exact ht.size_eq⟩
    intro p
    rw [hnodes, hends, ht.nodes_iff]
    constructor
    · rintro (h | ⟨r, hr, hpre, rfl⟩)
      · exact h
      · exact ⟨hr, w, he, hpre⟩
    · exact Or.inl
  · simp only [hw, he, or_self, if_false] at hends
    simp only [he, if_false] at hsize
    refine ⟨?_, ?_, ?_, ?_⟩
    · intro p
      rw [hnodes, hends, ht.nodes_iff]
      constructor
      · rintro (⟨h1, e, he1, he2⟩ | ⟨r, hr, hpre, rfl⟩)
        · exact ⟨h1, e, List.mem_cons_of_mem _ he1, he2⟩
        · exact ⟨hr, w, List.mem_cons_self, hpre⟩
      · rintro ⟨h1, e, he1, he2⟩
        rcases List.mem_cons.mp he1 with rfl | he1
        · exact Or.inr ⟨p, h1, he2, rfl⟩
        · exact Or.inl ⟨h1, e, he1, he2⟩
    · rw [hends]
      intro h
      rcases List.mem_cons.mp h with h | h
      · exact hw h.symm
      · exact ht.nil_not_end h
    · rw [hends]; exact List.nodup_cons.mpr ⟨he, ht.nodup⟩
    · rw [hends, hsize, ht.size_eq]; simp

/-! ### the membership test of Remove -/

theorem tailNode_exact (P : Params) (hx : P.exactTail = true) (t : Trie) (path : Path) (w : List Nat) (p : Path) :
    tailNode P t path w = some p ↔ p = path ++ w ∧ ∀ r, r ≠ [] → r <+: w → path ++ r ∈ t.nodes := by
  induction w generalizing path with
  | nil =>
    simp only [tailNode, List.append_nil, List.prefix_nil, Option.some.injEq]
    constructor
    · intro h; exact ⟨h.symm, fun r hr hr' => absurd hr' hr⟩
    · intro h; exact h.1.symm
  | cons c rest ih =>
    unfold tailNode
    simp only [hx, if_true]
    by_cases hc : path ++ [c] ∈ t.nodes
    · simp only [hc, if_true, ih]
      constructor
      · rintro ⟨hp, hall⟩
        refine ⟨by simpa using hp, ?_⟩
        intro r hr hpre
        cases r with
        | nil => exact absurd rfl hr
        | cons d r' =>
          rw [List.cons_prefix_cons] at hpre
          obtain ⟨rfl, hpre'⟩ := hpre
          cases r' with
          | nil => exact hc
          | cons x r'' =>
            have := hall (x :: r'') (by simp) hpre'
            simpa using this
      · rintro ⟨hp, hall⟩
        refine ⟨by simpa using hp, ?_⟩
        intro r hr hpre
        have := hall (c :: r) (by simp) (by simp [List.cons_prefix_cons, hpre])
        simpa using this
    · simp only [hc, if_false]
      constructor
      · intro h; cases h
      · rintro ⟨_, hall⟩
        exact absurd (hall [c] (by simp) (by simp [List.cons_prefix_cons])) hc

/-- with the exact walk, `(*HashTrie).contains` is membership in the dictionary -/
theorem containsWord_iff (P : Params) (hx : P.exactTail = true) (t : Trie) (ht : WF t) (w : List Nat) :
    containsWord P t w = true ↔ w ∈ t.ends := by
  unfold containsWord
  constructor
  · intro h
    split at h
    · rename_i p hp
      obtain ⟨rfl, _⟩ := (tailNode_exact P hx t [] w p).mp hp
      simpa [isEnd] using h
    · cases h
  · intro hw
    have : tailNode P t [] w = some w := by
      apply (tailNode_exact P hx t [] w w).mpr
      refine ⟨by simp, ?_⟩
      intro r hr hpre
      simpa using (ht.nodes_iff r).mpr ⟨hr, w, hw, hpre⟩
    rw [this]
    simpa [isEnd] using hw

/-! ### remove -/

theorem length_filter_ne {l : List Path} (hn : l.Nodup) {w : Path} (hw : w ∈ l) :
    (l.filter (· != w)).length + 1 = l.length := by
  induction l with
  | nil => cases hw
  | cons a l ih =>
    have hn' := List.nodup_cons.mp hn
    by_cases ha : a = w
    · subst ha
      have : l.filter (· != a) = l := by
        apply List.filter_eq_self.mpr
        intro b hb
        have : b ≠ a := fun h => hn'.1 (h ▸ hb)
        simp [this]
      simp [this]
    · have hw' : w ∈ l := by
        rcases List.mem_cons.mp hw with h | h
        · exact absurd h.symm ha
        · exact h
      have := ih hn'.2 hw'
      simp [ha]
      omega

/-- what `remove(node at path, word, depth)` does to a well-formed trie that holds the word `path ++ rest` -/
theorem removeRec_spec (t : Trie) (ht : WF t) (rest : List Nat) :
    ∀ path, path ++ rest ∈ t.ends →
      (removeRec t path rest).1.ends = t.ends.filter (· != path ++ rest) ∧
      (removeRec t path rest).1.size = t.size ∧
      (∀ q, q ∈ (removeRec t path rest).1.nodes ↔
        q ∈ t.nodes ∧ ((∃ e ∈ (removeRec t path rest).1.ends, q <+: e) ∨ q <+: path)) ∧
      ((removeRec t path rest).2 = true ↔ ¬ ∃ e ∈ (removeRec t path rest).1.ends, path <+: e) := by
  induction rest with
  | nil =>
    intro path hw
    simp only [List.append_nil] at hw ⊢
    rw [removeRec_nil]
    generalize ht' : ({ t with ends := t.ends.filter (· != path) } : Trie) = t'
    have hn' : t'.nodes = t.nodes := by rw [← ht']
    have he' : t'.ends = t.ends.filter (· != path) := by rw [← ht']
    have hs' : t'.size = t.size := by rw [← ht']
    have hends' : ∀ e, e ∈ t'.ends ↔ e ∈ t.ends ∧ e ≠ path := by
      intro e; rw [he']; simp [List.mem_filter]
    refine ⟨he', hs', ?_, ?_⟩
    · intro q
      show q ∈ t'.nodes ↔ _
      rw [hn']
      constructor
      · intro hq
        refine ⟨hq, ?_⟩
        obtain ⟨_, e, he, hpre⟩ := (ht.nodes_iff q).mp hq
        by_cases hep : e = path
        · exact Or.inr (hep ▸ hpre)
        · exact Or.inl ⟨e, (hends' e).mpr ⟨he, hep⟩, hpre⟩
      · exact fun h => h.1
    · show (!isEnd t' path && !hasChildren t' path) = true ↔ ¬ ∃ e ∈ t'.ends, path <+: e
      simp only [Bool.and_eq_true, Bool.not_eq_true', isEnd_false_iff]
      constructor
      · rintro ⟨_, hch⟩ ⟨e, he, hpre⟩
        have he2 := (hends' e).mp he
        obtain ⟨d, hd⟩ := prefix_ne_exists hpre he2.2
        have : path ++ [d] ∈ t'.nodes := by
          rw [hn']; exact (ht.nodes_iff _).mpr ⟨by simp, e, he2.1, hd⟩
        have hc : hasChildren t' path = true := (hasChildren_iff _ path).mpr ⟨d, this⟩
        rw [hc] at hch
        cases hch
      · intro hno
        refine ⟨fun h => ((hends' path).mp h).2 rfl, ?_⟩
        cases hc : hasChildren t' path with
        | false => rfl
        | true =>
          exfalso
          obtain ⟨d, hd⟩ := (hasChildren_iff _ path).mp hc
          rw [hn'] at hd
          obtain ⟨_, e, he, hpre⟩ := (ht.nodes_iff _).mp hd
          have hep : e ≠ path := by
            intro h; subst h; exact not_concat_prefix _ _ hpre
          exact hno ⟨e, (hends' e).mpr ⟨he, hep⟩, (List.prefix_append _ _).trans hpre⟩
  | cons c rest ih =>
    intro path hw
    have hw' : (path ++ [c]) ++ rest ∈ t.ends := by simpa using hw
    have hchild : path ++ [c] ∈ t.nodes :=
      (ht.nodes_iff _).mpr ⟨by simp, _, hw', List.prefix_append _ _⟩
    obtain ⟨ihe, ihs, ihn, ihp⟩ := ih (path ++ [c]) hw'
    have hweq : path ++ [c] ++ rest = path ++ c :: rest := by simp
    rw [hweq] at ihe
    rw [removeRec_cons t path c rest hchild]
    generalize removeRec t (path ++ [c]) rest = r at ihe ihs ihn ihp
    have hends' : ∀ e, e ∈ r.1.ends ↔ e ∈ t.ends ∧ e ≠ path ++ c :: rest := by
      intro e; rw [ihe]; simp [List.mem_filter]
    -- the trie after the optional delete
    have key : ∀ t2 : Trie, t2 = (if r.2 = true then pruneChild r.1 (path ++ [c]) else r.1) →
        t2.ends = r.1.ends ∧ t2.size = r.1.size ∧
        (∀ q, q ∈ t2.nodes ↔ q ∈ t.nodes ∧ ((∃ e ∈ r.1.ends, q <+: e) ∨ q <+: path)) := by
      intro t2 ht2
      by_cases hp : r.2 = true
      · have hno := ihp.mp hp
        rw [if_pos hp] at ht2
        have he2 : deleteSubtree r.1.ends (path ++ [c]) = r.1.ends := by
          unfold deleteSubtree
          apply List.filter_eq_self.mpr
          intro e he
          cases hpe : (path ++ [c]).isPrefixOf e with
          | false => rfl
          | true => exact absurd ⟨e, he, List.isPrefixOf_iff_prefix.mp hpe⟩ hno
        subst ht2
        refine ⟨he2, rfl, ?_⟩
        intro q
        show q ∈ deleteSubtree r.1.nodes (path ++ [c]) ↔ _
        simp only [mem_deleteSubtree, ihn]
        constructor
        · rintro ⟨⟨hq, hor⟩, hnp⟩
          refine ⟨hq, ?_⟩
          rcases hor with h | h
          · exact Or.inl h
          · rcases List.prefix_concat_iff.mp h with h | h
            · exact absurd (h ▸ List.prefix_rfl) hnp
            · exact Or.inr h
        · rintro ⟨hq, hor⟩
          rcases hor with ⟨e, he, hpre⟩ | h
          · exact ⟨⟨hq, Or.inl ⟨e, he, hpre⟩⟩, fun hcp => hno ⟨e, he, hcp.trans hpre⟩⟩
          · refine ⟨⟨hq, Or.inr (h.trans (List.prefix_append _ _))⟩, ?_⟩
            intro hcp
            have h1 := hcp.length_le
            have h2 := h.length_le
            simp at h1
            omega
      · have hyes : ∃ e ∈ r.1.ends, path ++ [c] <+: e := by
          by_cases hex : ∃ e ∈ r.1.ends, path ++ [c] <+: e
          · exact hex
          · exact absurd (ihp.mpr hex) hp
        rw [if_neg hp] at ht2
        subst ht2
        refine ⟨rfl, rfl, ?_⟩
        intro q
        rw [ihn]
        constructor
        · rintro ⟨hq, hor⟩
          refine ⟨hq, ?_⟩
          rcases hor with h | h
          · exact Or.inl h
          · rcases List.prefix_concat_iff.mp h with h | h
            · subst h; exact Or.inl hyes
            · exact Or.inr h
        · rintro ⟨hq, hor⟩
          refine ⟨hq, ?_⟩
          rcases hor with h | h
          · exact Or.inl h
          · exact Or.inr (h.trans (List.prefix_append _ _))
    obtain ⟨k1, k2, k3⟩ := key _ rfl
    generalize (if r.2 = true then pruneChild r.1 (path ++ [c]) else r.1) = t2 at k1 k2 k3 ⊢
    refine ⟨by rw [k1, ihe], by rw [k2, ihs], ?_, ?_⟩
    · intro q
      show q ∈ t2.nodes ↔ q ∈ t.nodes ∧ ((∃ e ∈ t2.ends, q <+: e) ∨ q <+: path)
      rw [k3, k1]
    · show (!isEnd t2 path && !hasChildren t2 path) = true ↔ ¬ ∃ e ∈ t2.ends, path <+: e
      rw [k1]
      simp only [Bool.and_eq_true, Bool.not_eq_true', isEnd_false_iff]
      constructor
      · rintro ⟨hne, hch⟩ ⟨e, he, hpre⟩
        have he2 := (hends' e).mp he
        have hep : e ≠ path := by
          intro h; subst h
          exact hne (k1 ▸ he)
        obtain ⟨d, hd⟩ := prefix_ne_exists hpre hep
        have h1 : path ++ [d] ∈ t.nodes := (ht.nodes_iff _).mpr ⟨by simp, e, he2.1, hd⟩
        have h2 : path ++ [d] ∈ t2.nodes := (k3 _).mpr ⟨h1, Or.inl ⟨e, he, hd⟩⟩
        have hc : hasChildren t2 path = true := (hasChildren_iff _ path).mpr ⟨d, h2⟩
        rw [hc] at hch
        cases hch
      · intro hno
        refine ⟨fun h => hno ⟨path, k1 ▸ h, List.prefix_rfl⟩, ?_⟩
        cases hc : hasChildren t2 path with
        | false => rfl
        | true =>
          exfalso
          obtain ⟨d, hd⟩ := (hasChildren_iff _ path).mp hc
          rcases ((k3 _).mp hd).2 with ⟨e, he, hpre⟩ | h
          · exact hno ⟨e, he, (List.prefix_append _ _).trans hpre⟩
          · exact not_concat_prefix _ _ h

/-- `Remove` of a word that is in the dictionary -/
theorem remove_present (P : Params) (hx : P.exactTail = true) (t : Trie) (ht : WF t) (w : List Nat)
    (hw : w ∈ t.ends) :
    (remove P t w).2 = true ∧ (remove P t w).1.ends = t.ends.filter (· != w) ∧ WF (remove P t w).1 := by
  have hc := (containsWord_iff P hx t ht w).mpr hw
  obtain ⟨he, hs, hn, _⟩ := removeRec_spec t ht w [] (by simpa using hw)
  simp only [List.nil_append] at he hn
  unfold remove
  simp only [hc, if_true]
  refine ⟨trivial, he, ?_⟩
  have hmem : ∀ e, e ∈ (removeRec t [] w).1.ends ↔ e ∈ t.ends ∧ e ≠ w := by
    intro e; rw [he]; simp [List.mem_filter]
  refine ⟨?_, ?_, ?_, ?_⟩
  · intro p
    show p ∈ (removeRec t [] w).1.nodes ↔ p ≠ [] ∧ ∃ e ∈ (removeRec t [] w).1.ends, p <+: e
    rw [hn, ht.nodes_iff]
    constructor
    · rintro ⟨⟨hp, _⟩, hor⟩
      refine ⟨hp, ?_⟩
      rcases hor with h | h
      · exact h
      · exact absurd (List.prefix_nil.mp h) hp
    · rintro ⟨hp, e, he', hpre⟩
      exact ⟨⟨hp, e, ((hmem e).mp he').1, hpre⟩, Or.inl ⟨e, he', hpre⟩⟩
  · show [] ∉ (removeRec t [] w).1.ends
    intro h
    exact ht.nil_not_end ((hmem _).mp h).1
  · show (removeRec t [] w).1.ends.Nodup
    rw [he]; exact ht.nodup.filter _
  · show (removeRec t [] w).1.size - 1 = ((removeRec t [] w).1.ends.length : Int)
    rw [hs, he, ht.size_eq, ← length_filter_ne ht.nodup hw]
    simp

/-- `Remove` of a word that is not in the dictionary changes nothing -/
theorem remove_absent (P : Params) (hx : P.exactTail = true) (t : Trie) (ht : WF t) (w : List Nat)
    (hw : w ∉ t.ends) : remove P t w = (t, false) := by
  have hc : containsWord P t w = false := by
    cases h : containsWord P t w with
    | false => rfl
    | true => exact absurd ((containsWord_iff P hx t ht w).mp h) hw
  unfold remove
  simp [hc]

/-! ### the reference dictionary: a plain list used as a set -/

/-- the words added and not since removed -/
def specStep (l : List (List Nat)) : Op → List (List Nat)
  | .add w => if w = [] ∨ w ∈ l then l else w :: l
  | .remove w => l.filter (· != w)
  | .reset => []

def spec (ops : List Op) : List (List Nat) := ops.foldl specStep []

theorem step_spec (P : Params) (hx : P.exactTail = true) (t : Trie) (ht : WF t) (o : Op) :
    WF (step P t o) ∧ (step P t o).ends = specStep t.ends o := by
  cases o with
  | add w => exact ⟨wf_addWord t w ht, addWord_ends t w⟩
  | remove w =>
    by_cases hw : w ∈ t.ends
    · obtain ⟨_, he, hwf⟩ := remove_present P hx t ht w hw
      exact ⟨hwf, he⟩
    · have := remove_absent P hx t ht w hw
      simp only [step, specStep, this]
      refine ⟨ht, ?_⟩
      symm
      apply List.filter_eq_self.mpr
      intro e he
      have : e ≠ w := fun h => hw (h ▸ he)
      simp [this]
  | reset => exact ⟨wf_empty, rfl⟩

theorem run_spec (P : Params) (hx : P.exactTail = true) (ops : List Op) :
    WF (run P ops) ∧ (run P ops).ends = spec ops := by
  unfold run spec
  suffices h : ∀ (t : Trie) (l : List (List Nat)), WF t → t.ends = l →
      WF (ops.foldl (step P) t) ∧ (ops.foldl (step P) t).ends = ops.foldl specStep l from
    h _ _ wf_empty rfl
  induction ops with
  | nil => intro t l ht hl; exact ⟨ht, hl⟩
  | cons o ops ih =>
    intro t l ht hl
    simp only [List.foldl_cons]
    obtain ⟨h1, h2⟩ := step_spec P hx t ht o
    exact ih _ _ h1 (hl ▸ h2)

end Fatchoy.C14
