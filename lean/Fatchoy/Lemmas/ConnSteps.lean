/-
Frame facts about single steps of the connection LTS (which step can change which field), used by the
property theorems that speak about "afterwards".
-/
import Fatchoy.Lemmas.ConnClose
import Fatchoy.Lemmas.ConnRead
namespace Fatchoy.Conn

theorem reachable_of_run {cfg : Cfg} : ∀ (acts : List Action) {s s' : State}, Reachable cfg s →
    run cfg s acts = some s' → Reachable cfg s'
  | [], s, s', h, hr => by simp [run] at hr; subst hr; exact h
  | a :: as, s, s', h, hr => by
    simp only [run] at hr
    split at hr
    · next s1 hs => exact reachable_of_run as (Reachable.step a h hs) hr
    · simp at hr

theorem run_of_reachable {cfg : Cfg} {s : State} (h : Reachable cfg s) :
    ∃ acts, run cfg (init cfg) acts = some s := by
  induction h with
  | init => exact ⟨[], rfl⟩
  | step a _ hs ih =>
    obtain ⟨acts, ha⟩ := ih
    refine ⟨acts ++ [a], ?_⟩
    have : ∀ (l : List Action) (s0 s1 : State), run cfg s0 l = some s1 → run cfg s0 (l ++ [a]) = step cfg s1 a := by
      intro l
      induction l with
      | nil =>
        intro s0 s1 h0; simp [run] at h0; subst h0
        simp only [List.nil_append, run]
        cases step cfg s0 a <;> rfl
      | cons b bs ihl =>
        intro s0 s1 h0
        simp only [run, List.cons_append] at h0 ⊢
        cases h2 : step cfg s0 b with
        | none => simp [h2] at h0
        | some s2 => simp only [h2] at h0 ⊢; exact ihl s2 s1 h0
    rw [this acts _ _ ha, hs]

/-- `electStep` changes nothing but the state word, the election and its ghost flag -/
theorem elect_frame {s s' : State} {g : Bool} {e : Err} {c c' : CPc} (hs : electStep s g e c = some (s', c')) :
    s'.wlog = s.wlog ∧ s'.accepted = s.accepted ∧ s'.writeShut = s.writeShut ∧ s'.snd = s.snd ∧ s'.out = s.out ∧
    s'.w = s.w ∧ (s'.st = s.st ∨ (s.st = .running ∧ s'.st = .shutdown)) := by
  unfold electStep at hs
  cases c <;> simp only at hs
  all_goals (repeat' (split at hs))
  all_goals (first
    | (simp only [Option.some.injEq, Prod.mk.injEq] at hs; obtain ⟨rfl, _⟩ := hs; simp_all; done)
    | (simp at hs; done))

/-- only the writer's write appends to its log -/
theorem step_wlog {cfg : Cfg} {s s' : State} {a : Action} (hs : step cfg s a = some s') :
    s'.wlog = s.wlog ∨ (∃ p, s.w = .writing p ∨ s.w = .flushing p) := by
  cases a <;> simp only [step] at hs
  case cls =>
    unfold stepCls at hs
    split at hs
    · simp at hs
    · split at hs
      · next he => injection hs with hs; subst hs; exact Or.inl (elect_frame he).1
      · simp at hs
  case rClose =>
    unfold stepRClose at hs
    split at hs
    · split at hs
      · next he => injection hs with hs; subst hs; exact Or.inl (elect_frame he).1
      · simp at hs
    · simp at hs
  case win =>
    unfold stepWin at hs
    cases hw : s.win with
    | none => simp [hw] at hs
    | some w =>
      simp only [hw] at hs
      cases hp : w.pc <;> simp only [hp, setWin] at hs
      all_goals (repeat' (split at hs))
      all_goals (first | (injection hs with hs; subst hs; exact Or.inl rfl) | (simp at hs))
  case wWrite =>
    unfold stepWWrite at hs
    split at hs
    · next p hw => exact Or.inr ⟨p, Or.inl hw⟩
    · next p hw => exact Or.inr ⟨p, Or.inr hw⟩
    · simp at hs
  all_goals (first
    | (unfold stepStart at hs) | (unfold stepSendCall at hs) | (unfold stepCloseCall at hs) | (unfold stepPeerSend at hs)
    | (unfold stepRTimeout at hs) | (unfold stepSnd at hs) | (unfold stepWRecv at hs) | (unfold stepWDone at hs)
    | (unfold stepWFlush at hs) | (unfold stepWWgDone at hs) | (unfold stepRArm at hs) | (unfold stepRChk at hs) | (unfold stepRFrame at hs) | (unfold stepRErr at hs)
    | (unfold stepRNil at hs) | (unfold stepRPush at hs) | (unfold stepRDrop at hs) | (unfold stepRCheck at hs)
    | (unfold stepRWgDone at hs) | (unfold stepInbPop at hs) | (unfold stepErrPop at hs) | skip)
  all_goals (repeat' (split at hs))
  all_goals (first | (injection hs with hs; subst hs; exact Or.inl rfl) | (simp at hs))

/-- only a caller past its running check appends to `accepted` -/
theorem step_accepted {cfg : Cfg} {s s' : State} {a : Action} (hs : step cfg s a = some s') :
    s'.accepted = s.accepted ∨ (∃ (i : Nat) (p : Pkt), s.snd[i]? = some (SPc.send p)) := by
  cases a <;> simp only [step] at hs
  case cls =>
    unfold stepCls at hs
    split at hs
    · simp at hs
    · split at hs
      · next he => injection hs with hs; subst hs; exact Or.inl (elect_frame he).2.1
      · simp at hs
  case rClose =>
    unfold stepRClose at hs
    split at hs
    · split at hs
      · next he => injection hs with hs; subst hs; exact Or.inl (elect_frame he).2.1
      · simp at hs
    · simp at hs
  case win =>
    unfold stepWin at hs
    cases hw : s.win with
    | none => simp [hw] at hs
    | some w =>
      simp only [hw] at hs
      cases hp : w.pc <;> simp only [hp, setWin] at hs
      all_goals (repeat' (split at hs))
      all_goals (first | (injection hs with hs; subst hs; exact Or.inl rfl) | (simp at hs))
  case snd i =>
    unfold stepSnd at hs
    split at hs
    · simp at hs
    · split at hs <;> first | (injection hs with hs; subst hs; exact Or.inl rfl) | (simp at hs)
    · split at hs <;> (injection hs with hs; subst hs; exact Or.inl rfl)
    · next p hx => exact Or.inr ⟨i, p, hx⟩
    · injection hs with hs; subst hs; exact Or.inl rfl
    · simp at hs
  all_goals (first
    | (unfold stepStart at hs) | (unfold stepSendCall at hs) | (unfold stepCloseCall at hs) | (unfold stepPeerSend at hs)
    | (unfold stepRTimeout at hs) | (unfold stepWRecv at hs) | (unfold stepWDone at hs) | (unfold stepWWrite writeOne at hs)
    | (unfold stepWFlush at hs) | (unfold stepWWgDone at hs) | (unfold stepRArm at hs) | (unfold stepRChk at hs) | (unfold stepRFrame at hs) | (unfold stepRErr at hs)
    | (unfold stepRNil at hs) | (unfold stepRPush at hs) | (unfold stepRDrop at hs) | (unfold stepRCheck at hs)
    | (unfold stepRWgDone at hs) | (unfold stepInbPop at hs) | (unfold stepErrPop at hs) | skip)
  all_goals (repeat' (split at hs))
  all_goals (first | (injection hs with hs; subst hs; exact Or.inl rfl) | (simp at hs))

/-- CloseWrite is never undone, and the state word only moves forward once shutdown began -/
theorem step_mono {cfg : Cfg} {s s' : State} {a : Action} (hs : step cfg s a = some s') :
    (s.writeShut = true → s'.writeShut = true) ∧
    ((s.st = .shutdown ∨ s.st = .terminated) → (s'.st = .shutdown ∨ s'.st = .terminated)) := by
  cases a <;> simp only [step] at hs
  case cls =>
    unfold stepCls at hs
    split at hs
    · simp at hs
    · split at hs
      · next he =>
        injection hs with hs; subst hs
        have := elect_frame he
        refine ⟨by rw [this.2.2.1]; exact id, ?_⟩
        intro hl
        show _root_.Fatchoy.Conn.State.st _ = _ ∨ _
        rcases this.2.2.2.2.2.2 with h' | ⟨h', _⟩
        · simp only []; rw [h']; exact hl
        · rw [h'] at hl; simp at hl
      · simp at hs
  case rClose =>
    unfold stepRClose at hs
    split at hs
    · split at hs
      · next he =>
        injection hs with hs; subst hs
        have := elect_frame he
        refine ⟨by rw [this.2.2.1]; exact id, ?_⟩
        intro hl
        rcases this.2.2.2.2.2.2 with h' | ⟨h', _⟩
        · simp only []; rw [h']; exact hl
        · rw [h'] at hl; simp at hl
      · simp at hs
    · simp at hs
  case win =>
    unfold stepWin at hs
    cases hw : s.win with
    | none => simp [hw] at hs
    | some w =>
      simp only [hw] at hs
      cases hp : w.pc <;> simp only [hp, setWin] at hs
      all_goals (repeat' (split at hs))
      all_goals (first | (injection hs with hs; subst hs; simp_all; done) | (simp at hs))
  all_goals (first
    | (unfold stepStart at hs) | (unfold stepSendCall at hs) | (unfold stepCloseCall at hs) | (unfold stepPeerSend at hs)
    | (unfold stepRTimeout at hs) | (unfold stepSnd at hs) | (unfold stepWRecv at hs) | (unfold stepWDone at hs)
    | (unfold stepWWrite writeOne at hs)
    | (unfold stepWFlush at hs) | (unfold stepWWgDone at hs) | (unfold stepRArm at hs) | (unfold stepRChk at hs) | (unfold stepRFrame at hs) | (unfold stepRErr at hs)
    | (unfold stepRNil at hs) | (unfold stepRPush at hs) | (unfold stepRDrop at hs) | (unfold stepRCheck at hs)
    | (unfold stepRWgDone at hs) | (unfold stepInbPop at hs) | (unfold stepErrPop at hs) | skip)
  all_goals (repeat' (split at hs))
  all_goals (first | (injection hs with hs; subst hs; simp_all; done) | (simp at hs))

/-- only SendPacket callers (their calls and their own steps) change the callers' program counters -/
theorem step_snd {cfg : Cfg} {s s' : State} {a : Action} (hs : step cfg s a = some s') :
    s'.snd = s.snd ∨ (∃ j q, a = .sendCall j q) ∨ (∃ j, a = .snd j) := by
  cases a <;> simp only [step] at hs
  case sendCall j q => exact Or.inr (Or.inl ⟨j, q, rfl⟩)
  case snd j => exact Or.inr (Or.inr ⟨j, rfl⟩)
  case cls =>
    unfold stepCls at hs
    split at hs
    · simp at hs
    · split at hs
      · next he => injection hs with hs; subst hs; exact Or.inl (elect_frame he).2.2.2.1
      · simp at hs
  case rClose =>
    unfold stepRClose at hs
    split at hs
    · split at hs
      · next he => injection hs with hs; subst hs; exact Or.inl (elect_frame he).2.2.2.1
      · simp at hs
    · simp at hs
  case win =>
    unfold stepWin at hs
    cases hw : s.win with
    | none => simp [hw] at hs
    | some w =>
      simp only [hw] at hs
      cases hp : w.pc <;> simp only [hp, setWin] at hs
      all_goals (repeat' (split at hs))
      all_goals (first | (injection hs with hs; subst hs; exact Or.inl rfl) | (simp at hs))
  all_goals (first
    | (unfold stepStart at hs) | (unfold stepCloseCall at hs) | (unfold stepPeerSend at hs)
    | (unfold stepRTimeout at hs) | (unfold stepWRecv at hs) | (unfold stepWDone at hs) | (unfold stepWWrite writeOne at hs)
    | (unfold stepWFlush at hs) | (unfold stepWWgDone at hs) | (unfold stepRArm at hs) | (unfold stepRChk at hs) | (unfold stepRFrame at hs) | (unfold stepRErr at hs)
    | (unfold stepRNil at hs) | (unfold stepRPush at hs) | (unfold stepRDrop at hs) | (unfold stepRCheck at hs)
    | (unfold stepRWgDone at hs) | (unfold stepInbPop at hs) | (unfold stepErrPop at hs) | skip)
  all_goals (repeat' (split at hs))
  all_goals (first | (injection hs with hs; subst hs; exact Or.inl rfl) | (simp at hs))

/-- other goroutines never touch a caller's program counter -/
theorem step_snd_other {cfg : Cfg} {s s' : State} {a : Action} {i : Nat} (hs : step cfg s a = some s')
    (h1 : ∀ q, a ≠ .sendCall i q) (h2 : a ≠ .snd i) (hi : i < s.snd.length) : s'.snd[i]? = s.snd[i]? := by
  rcases step_snd hs with h | ⟨j, q, rfl⟩ | ⟨j, rfl⟩
  · rw [h]
  · have hne : j ≠ i := fun h => h1 q (by rw [h])
    simp only [step] at hs
    unfold stepSendCall at hs
    split at hs
    · injection hs with hs; subst hs
      simp [List.getElem?_append_left hi]
    · split at hs
      · injection hs with hs; subst hs
        simp [hne]
      · simp at hs
  · have hne : j ≠ i := fun h => h2 (by rw [h])
    simp only [step] at hs
    unfold stepSnd at hs
    repeat' (split at hs)
    all_goals (first | (injection hs with hs; subst hs; simp [hne]; done) | (simp at hs))

/-- where a SendPacket call that began after shutdown can be, and that it accepts nothing -/
def RefusedPc (p : Pkt) (x : SPc) : Prop :=
  x = .rlock p ∨ x = .check p ∨ x = .unlock .closing ∨ x = .ret .closing

theorem refused_path {cfg : Cfg} (i : Nat) (p : Pkt) : ∀ (acts : List Action) {s s' : State}, Reachable cfg s →
    (s.st = .shutdown ∨ s.st = .terminated) → (∃ x, s.snd[i]? = some x ∧ RefusedPc p x) →
    run cfg s acts = some s' → (∀ q, Action.sendCall i q ∉ acts) →
    (∃ x, s'.snd[i]? = some x ∧ RefusedPc p x) ∧ s'.accepted = s.accepted ∧
    (s'.st = .shutdown ∨ s'.st = .terminated)
  | [], s, s', _, hl, hx, hr, _ => by simp [run] at hr; subst hr; exact ⟨hx, rfl, hl⟩
  | a :: as, s, s', h, hl, hx, hr, hn => by
    simp only [run] at hr
    cases hs : step cfg s a with
    | none => simp [hs] at hr
    | some s1 =>
      simp only [hs] at hr
      have hnr : s.st ≠ .running := by rcases hl with h' | h' <;> (rw [h']; simp)
      have hl1 := (step_mono hs).2 hl
      have hacc : s1.accepted = s.accepted := by
        rcases step_accepted hs with h' | ⟨j, q, h'⟩
        · exact h'
        · exact absurd ((inv2_reachable h).sendRunning _ (List.mem_of_getElem? h') q rfl) hnr
      have hx1 : ∃ x, s1.snd[i]? = some x ∧ RefusedPc p x := by
        obtain ⟨x, hxi, hP⟩ := hx
        have hi : i < s.snd.length := by
          rcases Nat.lt_or_ge i s.snd.length with h' | h'
          · exact h'
          · rw [List.getElem?_eq_none h'] at hxi; simp at hxi
        by_cases ha : a = .snd i
        · subst ha
          simp only [step] at hs
          unfold stepSnd at hs
          rw [hxi] at hs
          rcases hP with rfl | rfl | rfl | rfl <;> simp only at hs
          · split at hs
            · simp at hs
            · injection hs with hs; subst hs
              exact ⟨_, by simp [hi], Or.inr (Or.inl rfl)⟩
          · simp only [hnr, if_false] at hs
            injection hs with hs; subst hs
            exact ⟨_, by simp [hi], Or.inr (Or.inr (Or.inl rfl))⟩
          · injection hs with hs; subst hs
            exact ⟨_, by simp [hi], Or.inr (Or.inr (Or.inr rfl))⟩
          · simp at hs
        · have := step_snd_other hs (fun q hq => hn q (by rw [hq]; exact List.mem_cons_self)) ha hi
          exact ⟨x, by rw [this, hxi], hP⟩
      have := refused_path i p as (Reachable.step a h hs) hl1 hx1 hr
        (fun q hq => hn q (List.mem_cons_of_mem _ hq))
      exact ⟨this.1, by rw [this.2.1, hacc], this.2.2⟩

theorem code_injective (P : Params) (hv : Valid P) (a b : St) (h : St.code P a = St.code P b) : a = b := by
  obtain ⟨h1, h2, h3, h4, h5, h6⟩ := hv
  cases a <;> cases b <;> simp_all [St.code] <;> omega

/-- when no write failed, the writer's log is the wire -/
theorem wlog_eq_wire (l : List (Pkt × Bool)) (h : (l.filter (fun x => !x.2)).map (·.1) = []) :
    l.map (·.1) = (l.filter (·.2)).map (·.1) := by
  induction l with
  | nil => rfl
  | cons x xs ih =>
    obtain ⟨p, b⟩ := x
    cases b
    · simp at h
    · simp only [List.filter_cons, Bool.not_true, Bool.false_eq_true, if_false] at h
      simp [ih h]

theorem mem_wfail {s : State} {p : Pkt} (h : p ∈ wfail s) : (p, false) ∈ s.wlog := by
  simp only [wfail, List.mem_map, List.mem_filter] at h
  obtain ⟨⟨q, b⟩, ⟨hm, hb⟩, rfl⟩ := h
  cases b
  · exact hm
  · simp at hb

end Fatchoy.Conn
