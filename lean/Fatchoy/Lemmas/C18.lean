/-
Helper lemmas and the invariants of the C18 LTS (Model/C18.lean).  Core only.
-/
import Fatchoy.Model.C18
namespace Fatchoy.C18

/-! ### lists with one element replaced -/

theorem countP_set_add {α} (p : α → Bool) (l : List α) (i : Nat) (a b : α) (h : l[i]? = some a) :
    (l.set i b).countP p + (if p a then 1 else 0) = l.countP p + (if p b then 1 else 0) := by
  have hi : i < l.length := by
    rcases Nat.lt_or_ge i l.length with h' | h'
    · exact h'
    · rw [List.getElem?_eq_none h'] at h; cases h
  have ha : l[i] = a := by
    rw [List.getElem?_eq_getElem hi] at h; exact Option.some.inj h
  rw [List.countP_set hi, ha]
  have hpos : p a = true → 0 < l.countP p := fun hp =>
    List.countP_pos_iff.mpr ⟨a, ha ▸ List.getElem_mem hi, hp⟩
  cases hpa : p a <;> cases hpb : p b <;> simp_all <;> omega

theorem forall_mem_set {α} {Q : α → Prop} {l : List α} {i : Nat} {b : α}
    (h : ∀ a ∈ l, Q a) (hb : Q b) : ∀ a ∈ l.set i b, Q a := by
  intro a ha
  rcases List.mem_or_eq_of_mem_set ha with h' | h'
  · exact h a h'
  · exact h' ▸ hb

theorem mem_of_getElem? {α} {l : List α} {i : Nat} {a : α} (h : l[i]? = some a) : a ∈ l :=
  List.mem_of_getElem? h

theorem lt_of_getElem? {α} {l : List α} {i : Nat} {a : α} (h : l[i]? = some a) : i < l.length := by
  rcases Nat.lt_or_ge i l.length with h' | h'
  · exact h'
  · rw [List.getElem?_eq_none h'] at h; cases h

theorem getElem?_set_cases {α} {l : List α} {i j : Nat} {a b : α} (h : (l.set i b)[j]? = some a) :
    (j = i ∧ a = b) ∨ (j ≠ i ∧ l[j]? = some a) := by
  rw [List.getElem?_set] at h
  split at h
  · rename_i hij
    split at h
    · exact Or.inl ⟨hij.symm, (Option.some.inj h).symm⟩
    · cases h
  · rename_i hij
    exact Or.inr ⟨fun h' => hij h'.symm, h⟩

theorem getElem?_set_self' {α} {l : List α} {i : Nat} {a b : α} (h : l[i]? = some a) : (l.set i b)[i]? = some b := by
  simp [lt_of_getElem? h]

theorem getElem?_set_ne' {α} {l : List α} {i j : Nat} {b : α} (h : j ≠ i) : (l.set i b)[j]? = l[j]? := by
  simp [Ne.symm h]

/-! ### task bookkeeping -/

/-- 1 if Execute call `t` is past its send -/
def accAt (subs : List SPC) (t : Nat) : Nat :=
  match subs[t]? with
  | some .unlockOk => 1
  | some .retOk => 1
  | _ => 0

def SPC.sent : SPC → Bool
  | .unlockOk | .retOk => true
  | _ => false

theorem accAt_eq (subs : List SPC) (t : Nat) :
    accAt subs t = match subs[t]? with | some pc => (if pc.sent then 1 else 0) | none => 0 := by
  unfold accAt
  cases h : subs[t]? with
  | none => rfl
  | some pc => cases pc <;> rfl

theorem accAt_set (subs : List SPC) (i t : Nat) (old pc : SPC) (h : subs[i]? = some old) :
    accAt (subs.set i pc) t + (if t = i ∧ old.sent then 1 else 0) = accAt subs t + (if t = i ∧ pc.sent then 1 else 0) := by
  rw [accAt_eq, accAt_eq]
  by_cases hti : t = i
  · subst hti
    rw [getElem?_set_self' h, h]
    cases ho : old.sent <;> cases hp : pc.sent <;> simp [ho, hp]
  · rw [getElem?_set_ne' hti]
    simp [hti]

/-- number of workers running task `t` -/
def runs (ws : List WPC) (t : Nat) : Nat := ws.countP (fun w => w.task? == some t)

theorem runs_set (ws : List WPC) (w t : Nat) (old pc : WPC) (h : ws[w]? = some old) :
    runs (ws.set w pc) t + (if old.task? = some t then 1 else 0) = runs ws t + (if pc.task? = some t then 1 else 0) := by
  have := countP_set_add (fun w => w.task? == some t) ws w old pc h
  simpa [runs] using this

structure InvT (s : St) : Prop where
  fifo : s.started ++ s.queue = s.accepted
  startedCount : ∀ t, s.started.count t = s.finished.count t + runs s.workers t
  acceptedCount : ∀ t, s.accepted.count t = accAt s.subs t


theorem accAt_set_same (subs : List SPC) (i t : Nat) (old pc : SPC) (h : subs[i]? = some old)
    (ho : old.sent = pc.sent) : accAt (subs.set i pc) t = accAt subs t := by
  have := accAt_set subs i t old pc h
  rw [ho] at this; omega

theorem runs_set_same (ws : List WPC) (w t : Nat) (old pc : WPC) (h : ws[w]? = some old)
    (ho : old.task? = pc.task?) : runs (ws.set w pc) t = runs ws t := by
  have := runs_set ws w t old pc h
  rw [ho] at this; omega

theorem runs_append_born (ws : List WPC) (t : Nat) : runs (ws ++ [.born]) t = runs ws t := by
  simp [runs, List.countP_append, WPC.task?]

theorem InvT.of_eq {s s' : St} (h : InvT s) (h1 : s'.started = s.started) (h2 : s'.queue = s.queue)
    (h3 : s'.accepted = s.accepted) (h4 : s'.finished = s.finished)
    (h5 : ∀ t, runs s'.workers t = runs s.workers t) (h6 : ∀ t, accAt s'.subs t = accAt s.subs t) : InvT s' := by
  refine ⟨?_, ?_, ?_⟩
  · rw [h1, h2, h3]; exact h.fifo
  · intro t; rw [h1, h4, h5]; exact h.startedCount t
  · intro t; rw [h3, h6]; exact h.acceptedCount t

theorem invT_sub {s s' : St} {i : Nat} (h : InvT s) (hs : stepSub s i = some s') : InvT s' := by
  unfold stepSub at hs
  split at hs
  · cases hs
  · rename_i pc hpc
    cases pc <;> simp only [] at hs
    case send =>
      split at hs
      · injection hs with hs; subst hs
        exact h.of_eq rfl rfl rfl rfl (fun t => rfl) (fun t => accAt_set_same _ _ _ _ _ hpc rfl)
      · split at hs
        · injection hs with hs; subst hs
          refine ⟨?_, ?_, ?_⟩
          · simp [setSub, ← h.fifo]
          · intro t; exact h.startedCount t
          · intro t
            have := accAt_set s.subs i t _ .unlockOk hpc
            have h3 := h.acceptedCount t
            simp only [setSub, List.count_append, List.count_cons, List.count_nil, SPC.sent] at this h3 ⊢
            by_cases hti : t = i <;> simp_all <;> omega
        · cases hs
    all_goals
      repeat' (split at hs)
      all_goals first
        | (injection hs with hs; subst hs
           exact h.of_eq rfl rfl rfl rfl (fun t => by simp [setSub, runs_append_born])
             (fun t => accAt_set_same _ _ _ _ _ hpc rfl))
        | cases hs


theorem invT_handoff {s s' : St} {i w : Nat} (h : InvT s) (hs : stepHandoff s i w = some s') : InvT s' := by
  unfold stepHandoff at hs
  split at hs
  all_goals try (cases hs; done)
  all_goals
    rename_i hi hw
    split at hs
    case isFalse => cases hs
    rename_i hc
    injection hs with hs; subst hs
    have hf := h.fifo
    rw [hc.2, List.append_nil] at hf
    refine ⟨?_, ?_, ?_⟩
    · simp [setSub, setWrk, hc.2, hf]
    · intro t
      have h1 := h.startedCount t
      simp only [setSub, setWrk, List.count_append, List.count_cons, List.count_nil] at h1 ⊢
      first
        | (have h2 := runs_set s.workers w t _ (WPC.run i) hw
           simp only [WPC.task?] at h2
           by_cases hti : i = t <;> simp_all <;> omega)
        | (have h2 := runs_set s.workers w t _ (WPC.drun i) hw
           simp only [WPC.task?] at h2
           by_cases hti : i = t <;> simp_all <;> omega)
    · intro t
      have := accAt_set s.subs i t _ .unlockOk hi
      have h3 := h.acceptedCount t
      simp only [setSub, setWrk, List.count_append, List.count_cons, List.count_nil, SPC.sent] at this h3 ⊢
      by_cases hti : t = i <;> simp_all <;> omega


theorem invT_take {s s' : St} {w : Nat} (h : InvT s) (hs : stepTake s w = some s') : InvT s' := by
  unfold stepTake at hs
  split at hs
  case h_5 => cases hs
  case h_3 hw hq =>
    split at hs
    · injection hs with hs; subst hs
      exact h.of_eq rfl rfl rfl rfl (fun t => runs_set_same _ _ _ _ _ hw rfl) (fun t => rfl)
    · cases hs
  case h_4 hw hq =>
    split at hs
    · injection hs with hs; subst hs
      exact h.of_eq rfl rfl rfl rfl (fun t => runs_set_same _ _ _ _ _ hw rfl) (fun t => rfl)
    · cases hs
  all_goals
    rename_i t q hw hq
    injection hs with hs; subst hs
    have hf := h.fifo
    rw [hq] at hf
    refine ⟨?_, ?_, fun t' => h.acceptedCount t'⟩
    · simp [setWrk, ← hf]
    · intro t'
      have h1 := h.startedCount t'
      first
        | (have h2 := runs_set s.workers w t' _ (WPC.run t) hw
           simp only [setWrk, List.count_append, List.count_cons, List.count_nil, WPC.task?] at h1 h2 ⊢
           by_cases hti : t = t' <;> simp_all <;> omega)
        | (have h2 := runs_set s.workers w t' _ (WPC.drun t) hw
           simp only [setWrk, List.count_append, List.count_cons, List.count_nil, WPC.task?] at h1 h2 ⊢
           by_cases hti : t = t' <;> simp_all <;> omega)

theorem invT_finish (P : Params) {s s' : St} {w : Nat} {k : Kind} (h : InvT s) (hs : stepFinish P s w k = some s') : InvT s' := by
  unfold stepFinish at hs
  simp only [] at hs
  split at hs
  case h_3 => cases hs
  all_goals
    rename_i t hw
    injection hs with hs; subst hs
    refine ⟨h.fifo, ?_, fun t' => h.acceptedCount t'⟩
    intro t'
    have h1 := h.startedCount t'
    have h2 := runs_set s.workers w t' _ (if (k != .panic || P.recovers) = true then WPC.idle else WPC.dead) hw
    have h3 := runs_set s.workers w t' _ (if (k != .panic || P.recovers) = true then WPC.drain else WPC.dead) hw
    simp only [setWrk, List.count_append, List.count_cons, List.count_nil, WPC.task?] at h1 h2 h3 ⊢
    by_cases hti : t = t' <;> split at h2 <;> split at h3 <;> simp_all <;> omega


theorem invT_exit {s s' : St} {w : Nat} (h : InvT s) (hs : stepExit s w = some s') : InvT s' := by
  unfold stepExit at hs
  split at hs
  case h_2 => cases hs
  rename_i hw
  split at hs
  case isFalse => cases hs
  split at hs <;> (injection hs with hs; subst hs)
  all_goals exact h.of_eq rfl rfl rfl rfl (fun t => runs_set_same _ _ _ _ _ hw rfl) (fun t => rfl)

theorem invT_closer {s s' : St} (h : InvT s) (hs : stepCloser s = some s') : InvT s' := by
  unfold stepCloser at hs
  split at hs
  all_goals repeat' (split at hs)
  all_goals first
    | (injection hs with hs; subst hs; exact h.of_eq rfl rfl rfl rfl (fun t => rfl) (fun t => rfl))
    | cases hs

theorem invT_step (P : Params) {s s' : St} {a : Act} (h : InvT s) (hs : step P s a = some s') : InvT s' := by
  cases a with
  | sub i => exact invT_sub h hs
  | handoff i w => exact invT_handoff h hs
  | wready w =>
    simp only [step] at hs
    split at hs
    · rename_i hw
      injection hs with hs; subst hs
      exact h.of_eq rfl rfl rfl rfl (fun t => runs_set_same _ _ _ _ _ hw rfl) (fun t => rfl)
    · cases hs
  | take w => exact invT_take h hs
  | seeDone w =>
    simp only [step] at hs
    split at hs
    · rename_i hw
      split at hs
      · injection hs with hs; subst hs
        exact h.of_eq rfl rfl rfl rfl (fun t => runs_set_same _ _ _ _ _ hw rfl) (fun t => rfl)
      · cases hs
    · cases hs
  | finish w k => exact invT_finish P h hs
  | exit w => exact invT_exit h hs
  | closer => exact invT_closer h hs

theorem invT_init (P : Params) (w : Int) (cap m : Nat) : InvT (mkInit P w cap m) := by
  refine ⟨rfl, fun t => by simp [mkInit, runs], fun t => ?_⟩
  simp only [mkInit, List.count_nil, accAt_eq]
  cases h : (List.replicate m SPC.idle)[t]? with
  | none => rfl
  | some pc =>
    have := List.mem_of_getElem? h
    rw [List.mem_replicate] at this
    rw [this.2]; rfl


/-! ### control skeleton: state word, closer, locks, start-up -/

theorem mem_set_cases {α} {l : List α} {i : Nat} {a b old : α} (_hold : l[i]? = some old) (h : a ∈ l.set i b) :
    a = b ∨ ∃ j, j ≠ i ∧ l[j]? = some a := by
  rcases List.getElem_of_mem h with ⟨j, hj, hja⟩
  have hj' : (l.set i b)[j]? = some a := by rw [List.getElem?_eq_getElem hj, hja]
  rcases getElem?_set_cases hj' with ⟨_, h2⟩ | ⟨h1, h2⟩
  · exact Or.inl h2
  · exact Or.inr ⟨j, h1, h2⟩

/-- Shutdown has not (yet) flipped the state -/
def CPC.pre : CPC → Bool
  | .idle | .cas | .unlock false | .ret false => true
  | _ => false
/-- Shutdown has flipped the state and is on its way -/
def CPC.mid : CPC → Bool
  | .unlock true | .closeDone | .wait | .closeQ | .setTerm => true
  | _ => false
def CPC.doneClosed : CPC → Bool
  | .wait | .closeQ | .setTerm | .ret true => true
  | _ => false
def CPC.queueClosed : CPC → Bool
  | .setTerm | .ret true => true
  | _ => false

structure InvA (s : St) : Prop where
  npos : 1 ≤ s.n
  spawnerSt : ∀ pc ∈ s.subs, pc.isSpawner = true → s.st = .started
  initW : s.st = .init → s.workers.length = 0
  spawningLen : ∀ k, SPC.spawning k ∈ s.subs → s.workers.length = k ∧ k ≤ s.n
  waitingLen : ∀ k, SPC.waiting k ∈ s.subs → s.workers.length = s.n
  fullLen : (s.st = .running ∨ s.st = .shutdown ∨ s.st = .terminated) → s.workers.length = s.n
  uniq : ∀ (i j : Nat) (a b : SPC), s.subs[i]? = some a → s.subs[j]? = some b → a.isSpawner = true → b.isSpawner = true → i = j
  phasePre : s.closer.pre = true → s.st ≠ .shutdown ∧ s.st ≠ .terminated
  phaseMid : s.closer.mid = true → s.st = .shutdown
  phasePost : s.closer = .ret true → s.st = .terminated
  notPanicked : s.closer ≠ .panicked
  doneEq : s.done = s.closer.doneClosed
  qClosedEq : s.qClosed = s.closer.queueClosed
  wlock : s.closer.holds = true → ∀ pc ∈ s.subs, pc.holds = false
  sendRunning : ∀ pc ∈ s.subs, pc = .send → s.st = .running
  subNoPanic : ∀ pc ∈ s.subs, pc ≠ .panicked
  lenLe : s.workers.length ≤ s.n

theorem InvA.congr {s s' : St} (h : InvA s) (h1 : s'.n = s.n) (h2 : s'.st = s.st) (h3 : s'.subs = s.subs)
    (h4 : s'.closer = s.closer) (h5 : s'.done = s.done) (h6 : s'.qClosed = s.qClosed)
    (h7 : s'.workers.length = s.workers.length) : InvA s' := by
  constructor
  all_goals simp only [h1, h2, h3, h4, h5, h6, h7]
  all_goals first
    | exact h.npos | exact h.spawnerSt | exact h.initW | exact h.spawningLen | exact h.waitingLen | exact h.fullLen
    | exact h.uniq | exact h.phasePre | exact h.phaseMid | exact h.phasePost | exact h.notPanicked | exact h.doneEq
    | exact h.qClosedEq | exact h.wlock | exact h.sendRunning | exact h.subNoPanic | exact h.lenLe

theorem InvA.setWrk {s : St} (h : InvA s) (w : Nat) (pc : WPC) : InvA (setWrk s w pc) :=
  h.congr rfl rfl rfl rfl rfl rfl (by simp [Fatchoy.C18.setWrk])

/-- the closer is past its CAS exactly when the state is shutdown or terminated -/
theorem InvA.closer_of_st {s : St} (h : InvA s) :
    (s.st = .shutdown → s.closer.mid = true) ∧ (s.st = .terminated → s.closer = .ret true) := by
  have h1 := h.phasePre; have h2 := h.phaseMid; have h3 := h.phasePost; have h4 := h.notPanicked
  cases hc : s.closer with
  | unlock b => cases b <;> simp_all [CPC.pre, CPC.mid]
  | ret b => cases b <;> simp_all [CPC.pre, CPC.mid]
  | _ => simp_all [CPC.pre, CPC.mid]


theorem invA_closer {s s' : St} (h : InvA s) (hs : stepCloser s = some s') : InvA s' := by
  have hcs := h.closer_of_st
  unfold stepCloser at hs
  split at hs
  case h_1 hc =>  -- idle: Lock
    split at hs
    · cases hs
    · rename_i hany
      injection hs with hs; subst hs
      refine { h with phasePre := ?_, phaseMid := ?_, phasePost := ?_, notPanicked := ?_, doneEq := ?_, qClosedEq := ?_, wlock := ?_ }
      · intro _; have := h.phasePre (by rw [hc]; rfl); exact this
      · intro h'; cases h'
      · intro h'; cases h'
      · intro h'; cases h'
      · rw [h.doneEq, hc]; rfl
      · rw [h.qClosedEq, hc]; rfl
      · intro _ pc hm
        cases hh : pc.holds with
        | false => rfl
        | true => exact absurd (List.any_eq_true.mpr ⟨pc, hm, hh⟩) hany
  case h_2 hc =>  -- cas
    have p1 := h.phasePre; have p2 := h.phaseMid; have p3 := h.phasePost; have p5 := h.doneEq; have p6 := h.qClosedEq
    have p7 := h.wlock (by rw [hc]; rfl)
    split at hs
    · rename_i hrun
      injection hs with hs; subst hs
      refine { h with spawnerSt := ?_, initW := ?_, fullLen := ?_, phasePre := ?_, phaseMid := ?_, phasePost := ?_,
                      notPanicked := ?_, doneEq := ?_, qClosedEq := ?_, wlock := ?_, sendRunning := ?_ }
      · intro pc hm hsp; have := h.spawnerSt pc hm hsp; rw [hrun] at this; cases this
      · intro h'; cases h'
      · intro _; exact h.fullLen (Or.inl hrun)
      · intro h'; cases h'
      · intro _; rfl
      · intro h'; cases h'
      · intro h'; cases h'
      · rw [p5, hc]; rfl
      · rw [p6, hc]; rfl
      · intro _; exact p7
      · intro pc hm hp; have := p7 pc hm; rw [hp] at this; cases this
    · injection hs with hs; subst hs
      refine { h with phasePre := ?_, phaseMid := ?_, phasePost := ?_, notPanicked := ?_, doneEq := ?_, qClosedEq := ?_, wlock := ?_ }
      · intro _; exact p1 (by rw [hc]; rfl)
      · intro h'; cases h'
      · intro h'; cases h'
      · intro h'; cases h'
      · rw [p5, hc]; rfl
      · rw [p6, hc]; rfl
      · intro _; exact p7
  case h_3 won hc =>  -- unlock
    have p1 := h.phasePre; have p2 := h.phaseMid; have p5 := h.doneEq; have p6 := h.qClosedEq
    injection hs with hs; subst hs
    cases won
    · refine { h with phasePre := ?_, phaseMid := ?_, phasePost := ?_, notPanicked := ?_, doneEq := ?_, qClosedEq := ?_, wlock := ?_ }
      · intro _; exact p1 (by rw [hc]; rfl)
      · intro h'; cases h'
      · intro h'; cases h'
      · intro h'; cases h'
      · rw [p5, hc]; rfl
      · rw [p6, hc]; rfl
      · intro h'; cases h'
    · refine { h with phasePre := ?_, phaseMid := ?_, phasePost := ?_, notPanicked := ?_, doneEq := ?_, qClosedEq := ?_, wlock := ?_ }
      · intro h'; cases h'
      · intro _; exact p2 (by rw [hc]; rfl)
      · intro h'; cases h'
      · intro h'; cases h'
      · rw [p5, hc]; rfl
      · rw [p6, hc]; rfl
      · intro h'; cases h'
  case h_4 hc =>  -- closeDone
    have p2 := h.phaseMid; have p5 := h.doneEq; have p6 := h.qClosedEq
    split at hs
    · rename_i hd; rw [p5, hc] at hd; cases hd
    · injection hs with hs; subst hs
      refine { h with phasePre := ?_, phaseMid := ?_, phasePost := ?_, notPanicked := ?_, doneEq := ?_, qClosedEq := ?_, wlock := ?_ }
      · intro h'; cases h'
      · intro _; exact p2 (by rw [hc]; rfl)
      · intro h'; cases h'
      · intro h'; cases h'
      · rfl
      · rw [p6, hc]; rfl
      · intro h'; cases h'
  case h_5 hc =>  -- wait
    have p2 := h.phaseMid; have p5 := h.doneEq; have p6 := h.qClosedEq
    split at hs
    · injection hs with hs; subst hs
      refine { h with phasePre := ?_, phaseMid := ?_, phasePost := ?_, notPanicked := ?_, doneEq := ?_, qClosedEq := ?_, wlock := ?_ }
      · intro h'; cases h'
      · intro _; exact p2 (by rw [hc]; rfl)
      · intro h'; cases h'
      · intro h'; cases h'
      · rw [p5, hc]; rfl
      · rw [p6, hc]; rfl
      · intro h'; cases h'
    · cases hs
  case h_6 hc =>  -- closeQ
    have p2 := h.phaseMid; have p5 := h.doneEq; have p6 := h.qClosedEq
    split at hs
    · rename_i hd; rw [p6, hc] at hd; cases hd
    · injection hs with hs; subst hs
      refine { h with phasePre := ?_, phaseMid := ?_, phasePost := ?_, notPanicked := ?_, doneEq := ?_, qClosedEq := ?_, wlock := ?_ }
      · intro h'; cases h'
      · intro _; exact p2 (by rw [hc]; rfl)
      · intro h'; cases h'
      · intro h'; cases h'
      · rw [p5, hc]; rfl
      · rfl
      · intro h'; cases h'
  case h_7 hc =>  -- setTerm
    have p2 := h.phaseMid (by rw [hc]; rfl); have p5 := h.doneEq; have p6 := h.qClosedEq
    injection hs with hs; subst hs
    refine { h with spawnerSt := ?_, initW := ?_, fullLen := ?_, phasePre := ?_, phaseMid := ?_, phasePost := ?_,
                    notPanicked := ?_, doneEq := ?_, qClosedEq := ?_, wlock := ?_, sendRunning := ?_ }
    · intro pc hm hsp; have := h.spawnerSt pc hm hsp; rw [p2] at this; cases this
    · intro h'; cases h'
    · intro _; exact h.fullLen (Or.inr (Or.inl p2))
    · intro h'; cases h'
    · intro h'; cases h'
    · intro _; rfl
    · intro h'; cases h'
    · rw [p5, hc]; rfl
    · rw [p6, hc]; rfl
    · intro h'; cases h'
    · intro pc hm hp; have := h.sendRunning pc hm hp; rw [p2] at this; cases this
  case h_8 => cases hs
  case h_9 => cases hs


theorem uniq_set {subs : List SPC} {i : Nat} {old pc : SPC}
    (hu : ∀ (i j : Nat) (a b : SPC), subs[i]? = some a → subs[j]? = some b → a.isSpawner = true → b.isSpawner = true → i = j)
    (hi : subs[i]? = some old)
    (hpc : pc.isSpawner = true → old.isSpawner = true ∨ ∀ pc' ∈ subs, pc'.isSpawner = false) :
    ∀ (i' j' : Nat) (a b : SPC), (subs.set i pc)[i']? = some a → (subs.set i pc)[j']? = some b →
      a.isSpawner = true → b.isSpawner = true → i' = j' := by
  intro i' j' a b ha hb hsa hsb
  rcases getElem?_set_cases ha with ⟨hi1, ha1⟩ | ⟨hi1, ha1⟩ <;> rcases getElem?_set_cases hb with ⟨hj1, hb1⟩ | ⟨hj1, hb1⟩
  · rw [hi1, hj1]
  · subst ha1
    rcases hpc hsa with ho | hall
    · rw [hi1]; exact hu i j' old b hi hb1 ho hsb
    · have := hall b (List.mem_of_getElem? hb1); rw [hsb] at this; cases this
  · subst hb1
    rcases hpc hsb with ho | hall
    · rw [hj1]; exact hu i' i a old ha1 hi hsa ho
    · have := hall a (List.mem_of_getElem? ha1); rw [hsa] at this; cases this
  · exact hu i' j' a b ha1 hb1 hsa hsb

/-- a submitter moves to a pc that is not part of the start-up; nothing else changes -/
theorem InvA.setSub_plain {s : St} (h : InvA s) {i : Nat} {old : SPC} (hi : s.subs[i]? = some old) (pc : SPC)
    (hsp : pc.isSpawner = false) (hholds : s.closer.holds = true → pc.holds = false)
    (hsend : pc = .send → s.st = .running) (hnp : pc ≠ .panicked) : InvA (setSub s i pc) := by
  refine { h with spawnerSt := ?_, spawningLen := ?_, waitingLen := ?_, uniq := ?_, wlock := ?_, sendRunning := ?_, subNoPanic := ?_ }
  · exact forall_mem_set h.spawnerSt (by intro h'; rw [hsp] at h'; cases h')
  · intro k hm
    rcases mem_set_cases hi hm with h' | ⟨j, _, hj⟩
    · rw [← h'] at hsp; cases hsp
    · exact h.spawningLen k (List.mem_of_getElem? hj)
  · intro k hm
    rcases mem_set_cases hi hm with h' | ⟨j, _, hj⟩
    · rw [← h'] at hsp; cases hsp
    · exact h.waitingLen k (List.mem_of_getElem? hj)
  · exact uniq_set h.uniq hi (by intro h'; rw [hsp] at h'; cases h')
  · intro hc; exact forall_mem_set (h.wlock hc) (hholds hc)
  · exact forall_mem_set h.sendRunning hsend
  · exact forall_mem_set h.subNoPanic hnp


/-- nobody but `i` is in the start-up -/
theorem InvA.other_not_spawner {s : St} (h : InvA s) {i : Nat} {old : SPC} (hi : s.subs[i]? = some old)
    (ho : old.isSpawner = true) {j : Nat} {pc : SPC} (hj : s.subs[j]? = some pc) (hne : j ≠ i) : pc.isSpawner = false := by
  cases hp : pc.isSpawner with
  | false => rfl
  | true => exact absurd (h.uniq j i pc old hj hi hp ho) hne

theorem invA_sub {s s' : St} {i : Nat} (h : InvA s) (hs : stepSub s i = some s') : InvA s' := by
  unfold stepSub at hs
  split at hs
  · cases hs
  rename_i pc hpc
  cases pc <;> simp only [] at hs
  case idle =>
    split at hs <;> (injection hs with hs; subst hs) <;>
      exact h.setSub_plain hpc _ rfl (fun _ => rfl) (fun h' => by cases h') (fun h' => by cases h')
  case cas =>
    split at hs
    · rename_i hst
      injection hs with hs; subst hs
      have hnosp : ∀ pc' ∈ s.subs, pc'.isSpawner = false := by
        intro pc' hm
        cases hp : pc'.isSpawner with
        | false => rfl
        | true => have := h.spawnerSt pc' hm hp; rw [hst] at this; cases this
      refine { h with spawnerSt := ?_, initW := ?_, spawningLen := ?_, waitingLen := ?_, fullLen := ?_, uniq := ?_,
                      phasePre := ?_, phaseMid := ?_, phasePost := ?_, wlock := ?_, sendRunning := ?_, subNoPanic := ?_ }
      · intro _ _ _; rfl
      · intro h'; cases h'
      · intro k hm
        rcases mem_set_cases hpc hm with h' | ⟨j, _, hj⟩
        · injection h' with h'; subst h'
          exact ⟨h.initW hst, Nat.zero_le _⟩
        · have := hnosp _ (List.mem_of_getElem? hj); cases this
      · intro k hm
        rcases mem_set_cases hpc hm with h' | ⟨j, _, hj⟩
        · cases h'
        · have := hnosp _ (List.mem_of_getElem? hj); cases this
      · intro h'; rcases h' with h' | h' | h' <;> cases h'
      · exact uniq_set h.uniq hpc (fun _ => Or.inr hnosp)
      · intro _; exact ⟨fun h' => (by cases h'), fun h' => (by cases h')⟩
      · intro hm; have := h.phaseMid hm; rw [hst] at this; cases this
      · intro hm; have := h.phasePost hm; rw [hst] at this; cases this
      · intro hc; exact forall_mem_set (h.wlock hc) rfl
      · intro pc' hm hp
        rcases mem_set_cases hpc hm with h' | ⟨j, _, hj⟩
        · rw [hp] at h'; cases h'
        · have := h.sendRunning pc' (List.mem_of_getElem? hj) hp; rw [hst] at this; cases this
      · exact forall_mem_set h.subNoPanic (fun h' => by cases h')
    · injection hs with hs; subst hs
      exact h.setSub_plain hpc _ rfl (fun _ => rfl) (fun h' => by cases h') (fun h' => by cases h')
  case spawning k =>
    have hst : s.st = .started := h.spawnerSt _ (List.mem_of_getElem? hpc) rfl
    have hlen := h.spawningLen k (List.mem_of_getElem? hpc)
    split at hs
    · rename_i hk
      injection hs with hs; subst hs
      refine { h with spawnerSt := ?_, initW := ?_, spawningLen := ?_, waitingLen := ?_, fullLen := ?_, uniq := ?_,
                      wlock := ?_, sendRunning := ?_, subNoPanic := ?_, lenLe := ?_ }
      rotate_right
      · show (s.workers ++ [WPC.born]).length ≤ s.n
        rw [List.length_append, hlen.1]; exact hk
      · exact forall_mem_set h.spawnerSt (fun _ => hst)
      · intro h'; rw [hst] at h'; cases h'
      · intro k' hm
        rcases mem_set_cases hpc hm with h' | ⟨j, hne, hj⟩
        · injection h' with h'; subst h'
          refine ⟨?_, hk⟩
          show (s.workers ++ [WPC.born]).length = k + 1
          rw [List.length_append, hlen.1]; rfl
        · have := h.other_not_spawner hpc rfl hj hne; cases this
      · intro k' hm
        rcases mem_set_cases hpc hm with h' | ⟨j, hne, hj⟩
        · cases h'
        · have := h.other_not_spawner hpc rfl hj hne; cases this
      · intro h'; rw [hst] at h'; rcases h' with h' | h' | h' <;> cases h'
      · exact uniq_set h.uniq hpc (fun _ => Or.inl rfl)
      · intro hc; exact forall_mem_set (h.wlock hc) rfl
      · exact forall_mem_set h.sendRunning (fun h' => by cases h')
      · exact forall_mem_set h.subNoPanic (fun h' => by cases h')
    · rename_i hk
      injection hs with hs; subst hs
      refine { h with spawnerSt := ?_, spawningLen := ?_, waitingLen := ?_, uniq := ?_,
                      wlock := ?_, sendRunning := ?_, subNoPanic := ?_ }
      · exact forall_mem_set h.spawnerSt (fun _ => hst)
      · intro k' hm
        rcases mem_set_cases hpc hm with h' | ⟨j, hne, hj⟩
        · cases h'
        · have := h.other_not_spawner hpc rfl hj hne; cases this
      · intro k' hm
        rcases mem_set_cases hpc hm with h' | ⟨j, hne, hj⟩
        · show s.workers.length = s.n
          omega
        · have := h.other_not_spawner hpc rfl hj hne; cases this
      · exact uniq_set h.uniq hpc (fun _ => Or.inl rfl)
      · intro hc; exact forall_mem_set (h.wlock hc) rfl
      · exact forall_mem_set h.sendRunning (fun h' => by cases h')
      · exact forall_mem_set h.subNoPanic (fun h' => by cases h')
  case waiting k =>
    have hst : s.st = .started := h.spawnerSt _ (List.mem_of_getElem? hpc) rfl
    have hlen := h.waitingLen k (List.mem_of_getElem? hpc)
    split at hs
    · split at hs
      · injection hs with hs; subst hs
        refine { h with spawnerSt := ?_, spawningLen := ?_, waitingLen := ?_, uniq := ?_,
                        wlock := ?_, sendRunning := ?_, subNoPanic := ?_ }
        · exact forall_mem_set h.spawnerSt (fun _ => hst)
        · intro k' hm
          rcases mem_set_cases hpc hm with h' | ⟨j, hne, hj⟩
          · cases h'
          · have := h.other_not_spawner hpc rfl hj hne; cases this
        · intro k' hm
          rcases mem_set_cases hpc hm with h' | ⟨j, hne, hj⟩
          · exact hlen
          · have := h.other_not_spawner hpc rfl hj hne; cases this
        · exact uniq_set h.uniq hpc (fun _ => Or.inl rfl)
        · intro hc; exact forall_mem_set (h.wlock hc) rfl
        · exact forall_mem_set h.sendRunning (fun h' => by cases h')
        · exact forall_mem_set h.subNoPanic (fun h' => by cases h')
      · cases hs
    · injection hs with hs; subst hs
      have hnosp : ∀ pc' ∈ (s.subs.set i SPC.rlock), pc'.isSpawner = false := by
        intro pc' hm
        rcases mem_set_cases hpc hm with h' | ⟨j, hne, hj⟩
        · rw [h']; rfl
        · exact h.other_not_spawner hpc rfl hj hne
      refine { h with spawnerSt := ?_, initW := ?_, spawningLen := ?_, waitingLen := ?_, fullLen := ?_, uniq := ?_,
                      phasePre := ?_, phaseMid := ?_, phasePost := ?_, wlock := ?_, sendRunning := ?_, subNoPanic := ?_ }
      · intro pc' hm hp; have := hnosp pc' hm; rw [hp] at this; cases this
      · intro h'; cases h'
      · intro k' hm; have := hnosp _ hm; cases this
      · intro k' hm; have := hnosp _ hm; cases this
      · intro _; exact hlen
      · exact uniq_set h.uniq hpc (fun h' => by cases h')
      · intro _; exact ⟨fun h' => (by cases h'), fun h' => (by cases h')⟩
      · intro hm; have := h.phaseMid hm; rw [hst] at this; cases this
      · intro hm; have := h.phasePost hm; rw [hst] at this; cases this
      · intro hc; exact forall_mem_set (h.wlock hc) rfl
      · intro _ _ _; rfl
      · exact forall_mem_set h.subNoPanic (fun h' => by cases h')
  case spin =>
    split at hs
    · cases hs
    · injection hs with hs; subst hs
      exact h.setSub_plain hpc _ rfl (fun _ => rfl) (fun h' => by cases h') (fun h' => by cases h')
  case rlock =>
    split at hs
    · cases hs
    · rename_i hnh
      injection hs with hs; subst hs
      exact h.setSub_plain hpc _ rfl (fun hc => absurd hc hnh) (fun h' => by cases h') (fun h' => by cases h')
  case check =>
    have hnh : s.closer.holds = true → False := fun hc => by
      have := h.wlock hc _ (List.mem_of_getElem? hpc); cases this
    split at hs
    · rename_i hrun
      injection hs with hs; subst hs
      exact h.setSub_plain hpc _ rfl (fun hc => (hnh hc).elim) (fun _ => hrun) (fun h' => by cases h')
    · injection hs with hs; subst hs
      exact h.setSub_plain hpc _ rfl (fun hc => (hnh hc).elim) (fun h' => by cases h') (fun h' => by cases h')
  case send =>
    have hnh : s.closer.holds = true → False := fun hc => by
      have := h.wlock hc _ (List.mem_of_getElem? hpc); cases this
    have hrun := h.sendRunning _ (List.mem_of_getElem? hpc) rfl
    split at hs
    · rename_i hq
      exfalso
      rw [h.qClosedEq] at hq
      have h1 := h.phaseMid; have h3 := h.phasePost
      rw [hrun] at h1 h3
      cases hc : s.closer <;> rw [hc] at hq h1 h3 <;> simp [CPC.queueClosed, CPC.mid] at hq h1 h3
      all_goals (rename_i b; cases b <;> simp_all)
    · split at hs
      · injection hs with hs; subst hs
        have h0 : InvA { s with queue := s.queue ++ [i], accepted := s.accepted ++ [i] } :=
          h.congr rfl rfl rfl rfl rfl rfl rfl
        exact h0.setSub_plain (s := { s with queue := s.queue ++ [i], accepted := s.accepted ++ [i] }) hpc _ rfl
          (fun hc => (hnh hc).elim) (fun h' => by cases h') (fun h' => by cases h')
      · cases hs
  case unlockOk =>
    have hnh : s.closer.holds = true → False := fun hc => by
      have := h.wlock hc _ (List.mem_of_getElem? hpc); cases this
    injection hs with hs; subst hs
    exact h.setSub_plain hpc _ rfl (fun hc => (hnh hc).elim) (fun h' => by cases h') (fun h' => by cases h')
  case unlockErr =>
    have hnh : s.closer.holds = true → False := fun hc => by
      have := h.wlock hc _ (List.mem_of_getElem? hpc); cases this
    injection hs with hs; subst hs
    exact h.setSub_plain hpc _ rfl (fun hc => (hnh hc).elim) (fun h' => by cases h') (fun h' => by cases h')
  all_goals cases hs


theorem invA_handoff {s s' : St} {i w : Nat} (h : InvA s) (hs : stepHandoff s i w = some s') : InvA s' := by
  unfold stepHandoff at hs
  split at hs
  all_goals try (cases hs; done)
  all_goals
    rename_i hi hw
    have hnh : s.closer.holds = true → False := fun hc => by
      have := h.wlock hc _ (List.mem_of_getElem? hi); cases this
    split at hs
    case isFalse => cases hs
    injection hs with hs; subst hs
    have h0 : InvA { s with accepted := s.accepted ++ [i], started := s.started ++ [i] } :=
      h.congr rfl rfl rfl rfl rfl rfl rfl
    exact (h0.setSub_plain (s := { s with accepted := s.accepted ++ [i], started := s.started ++ [i] }) hi _ rfl
      (fun hc => (hnh hc).elim) (fun h' => by cases h') (fun h' => by cases h')).setWrk _ _

theorem invA_step (P : Params) {s s' : St} {a : Act} (h : InvA s) (hs : step P s a = some s') : InvA s' := by
  cases a with
  | sub i => exact invA_sub h hs
  | handoff i w => exact invA_handoff h hs
  | wready w =>
    simp only [step] at hs
    split at hs
    · injection hs with hs; subst hs
      exact (h.congr (s' := { s with ready := s.ready + 1 }) rfl rfl rfl rfl rfl rfl rfl).setWrk _ _
    · cases hs
  | take w =>
    simp only [step] at hs
    unfold stepTake at hs
    split at hs
    case h_5 => cases hs
    case h_1 t q _ _ =>
      injection hs with hs; subst hs
      exact (h.congr (s' := { s with queue := q, started := s.started ++ [t] }) rfl rfl rfl rfl rfl rfl rfl).setWrk _ _
    case h_2 t q _ _ =>
      injection hs with hs; subst hs
      exact (h.congr (s' := { s with queue := q, started := s.started ++ [t] }) rfl rfl rfl rfl rfl rfl rfl).setWrk _ _
    all_goals
      split at hs
      · injection hs with hs; subst hs; exact h.setWrk _ _
      · cases hs
  | seeDone w =>
    simp only [step] at hs
    split at hs
    · split at hs
      · injection hs with hs; subst hs; exact h.setWrk _ _
      · cases hs
    · cases hs
  | finish w k =>
    simp only [step] at hs
    unfold stepFinish at hs
    simp only [] at hs
    split at hs
    case h_3 => cases hs
    all_goals
      rename_i t _
      injection hs with hs; subst hs
      exact (h.congr (s' := { s with finished := s.finished ++ [t] }) rfl rfl rfl rfl rfl rfl rfl).setWrk _ _
  | exit w =>
    simp only [step] at hs
    unfold stepExit at hs
    split at hs
    case h_2 => cases hs
    split at hs
    case isFalse => cases hs
    split at hs <;> (injection hs with hs; subst hs)
    · exact h.setWrk _ _
    · exact (h.congr (s' := { s with wg := s.wg - 1 }) rfl rfl rfl rfl rfl rfl rfl).setWrk _ _
  | closer => exact invA_closer h hs

theorem invA_init (P : Params) (hv : Valid P) (w : Int) (cap m : Nat) : InvA (mkInit P w cap m) := by
  have hidle : ∀ pc ∈ (mkInit P w cap m).subs, pc = SPC.idle := by
    intro pc hm; exact (List.mem_replicate.mp hm).2
  constructor
  · show 1 ≤ (if w ≤ 0 then P.minWorkers else w.toNat)
    split
    · exact hv.2.2
    · omega
  · intro pc hm hsp; rw [hidle pc hm] at hsp; cases hsp
  · intro _; rfl
  · intro k hm; cases hidle _ hm
  · intro k hm; cases hidle _ hm
  · intro h'; rcases h' with h' | h' | h' <;> cases h'
  · intro i j a b ha hb hsa; rw [hidle a (List.mem_of_getElem? ha)] at hsa; cases hsa
  · intro _; exact ⟨fun h' => (by cases h'), fun h' => (by cases h')⟩
  · intro h'; cases h'
  · intro h'; cases h'
  · intro h'; cases h'
  · rfl
  · rfl
  · intro h'; cases h'
  · intro pc hm hp; rw [hidle pc hm] at hp; cases hp
  · intro pc hm hp; rw [hidle pc hm] at hp; cases hp
  · exact Nat.zero_le _

/-! ### workers, WaitGroup, queue at shutdown -/

def WPC.alive (w : WPC) : Bool := w != .exited
def WPC.draining : WPC → Bool
  | .drain | .drun _ | .exited => true
  | _ => false
def WPC.bad : WPC → Bool
  | .dead | .nilrun => true
  | _ => false
def CPC.pastWait : CPC → Bool
  | .closeQ | .setTerm | .ret true => true
  | _ => false

structure InvW (s : St) : Prop where
  wgEq : s.wg = s.workers.countP WPC.alive
  drainDone : ∀ w ∈ s.workers, w.draining = true → s.done = true
  exitedEmpty : WPC.exited ∈ s.workers → s.queue = []
  noBad : ∀ w ∈ s.workers, w.bad = false
  afterWait : s.closer.pastWait = true → s.wg = 0 ∧ s.queue = []

theorem InvW.congr {s s' : St} (h : InvW s) (h1 : s'.wg = s.wg) (h2 : s'.workers = s.workers) (h3 : s'.done = s.done)
    (h4 : s'.queue = s.queue) (h5 : s'.closer = s.closer) : InvW s' := by
  constructor
  all_goals simp only [h1, h2, h3, h4, h5]
  all_goals first
    | exact h.wgEq | exact h.drainDone | exact h.exitedEmpty | exact h.noBad | exact h.afterWait

/-- worker `w` changes its pc, staying alive; queue, done, wg, closer unchanged -/
theorem InvW.setWrk_alive {s : St} (h : InvW s) {w : Nat} {old : WPC} (hw : s.workers[w]? = some old) (pc : WPC)
    (hold : old.alive = true) (hnew : pc.alive = true) (hdr : pc.draining = true → s.done = true)
    (hbad : pc.bad = false) : InvW (setWrk s w pc) := by
  refine { h with wgEq := ?_, drainDone := ?_, exitedEmpty := ?_, noBad := ?_ }
  · have := countP_set_add WPC.alive s.workers w old pc hw
    rw [hold, hnew] at this
    show s.wg = (s.workers.set w pc).countP WPC.alive
    rw [h.wgEq]; simp at this; omega
  · exact forall_mem_set h.drainDone hdr
  · intro hm
    rcases mem_set_cases hw hm with h' | ⟨j, _, hj⟩
    · rw [← h'] at hnew; cases hnew
    · exact h.exitedEmpty (List.mem_of_getElem? hj)
  · exact forall_mem_set h.noBad hbad

theorem exited_mem_of_countP_zero (ws : List WPC) (h0 : ws.countP WPC.alive = 0) (hne : 0 < ws.length) : WPC.exited ∈ ws := by
  cases ws with
  | nil => cases hne
  | cons a as =>
    have := List.countP_eq_zero.mp h0 a (List.mem_cons_self ..)
    cases a <;> simp [WPC.alive] at this
    exact List.mem_cons_self ..

theorem InvA.not_running_of_done {s : St} (h : InvA s) (hd : s.done = true) : s.st ≠ .running := by
  intro hrun
  rw [h.doneEq] at hd
  have h1 := h.phaseMid; have h3 := h.phasePost
  rw [hrun] at h1 h3
  cases hc : s.closer <;> rw [hc] at hd h1 h3 <;> simp [CPC.doneClosed, CPC.mid] at hd h1 h3
  rename_i b; cases b <;> simp_all

theorem InvA.not_running_of_pastWait {s : St} (h : InvA s) (hd : s.closer.pastWait = true) : s.st = .shutdown ∨ s.st = .terminated := by
  have h1 := h.phaseMid; have h3 := h.phasePost
  cases hc : s.closer <;> rw [hc] at hd h1 h3 <;> simp [CPC.pastWait, CPC.mid] at hd h1 h3
  · exact Or.inl h1
  · exact Or.inl h1
  · rename_i b; cases b <;> simp_all


theorem invW_sub {s s' : St} {i : Nat} (h : InvW s) (ha : InvA s) (hs : stepSub s i = some s') : InvW s' := by
  unfold stepSub at hs
  split at hs
  · cases hs
  rename_i pc hpc
  cases pc <;> simp only [] at hs
  case spawning k =>
    have hst : s.st = .started := ha.spawnerSt _ (List.mem_of_getElem? hpc) rfl
    split at hs
    · injection hs with hs; subst hs
      refine ⟨?_, ?_, ?_, ?_, ?_⟩
      · show s.wg + 1 = (s.workers ++ [WPC.born]).countP WPC.alive
        rw [List.countP_append, h.wgEq]; rfl
      · intro w hm hd
        rcases List.mem_append.mp hm with h' | h'
        · exact h.drainDone w h' hd
        · rw [List.mem_singleton.mp h'] at hd; cases hd
      · intro hm
        rcases List.mem_append.mp hm with h' | h'
        · exact h.exitedEmpty h'
        · cases (List.mem_singleton.mp h')
      · intro w hm
        rcases List.mem_append.mp hm with h' | h'
        · exact h.noBad w h'
        · rw [List.mem_singleton.mp h']; rfl
      · intro hp
        rcases ha.not_running_of_pastWait hp with h' | h' <;> rw [hst] at h' <;> cases h'
    · injection hs with hs; subst hs
      exact h.congr rfl rfl rfl rfl rfl
  case send =>
    have hrun := ha.sendRunning _ (List.mem_of_getElem? hpc) rfl
    split at hs
    · injection hs with hs; subst hs
      exact h.congr rfl rfl rfl rfl rfl
    · split at hs
      · injection hs with hs; subst hs
        refine { h with exitedEmpty := ?_, afterWait := ?_ }
        · intro hm
          exact absurd hrun (ha.not_running_of_done (h.drainDone _ hm rfl))
        · intro hp
          rcases ha.not_running_of_pastWait hp with h' | h' <;> rw [hrun] at h' <;> cases h'
      · cases hs
  all_goals
    repeat' (split at hs)
    all_goals first
      | (injection hs with hs; subst hs; exact h.congr rfl rfl rfl rfl rfl)
      | cases hs

theorem invW_handoff {s s' : St} {i w : Nat} (h : InvW s) (hs : stepHandoff s i w = some s') : InvW s' := by
  unfold stepHandoff at hs
  split at hs
  all_goals try (cases hs; done)
  all_goals
    rename_i hi hw
    split at hs
    case isFalse => cases hs
    injection hs with hs; subst hs
    have h0 : InvW (setSub { s with accepted := s.accepted ++ [i], started := s.started ++ [i] } i .unlockOk) :=
      h.congr rfl rfl rfl rfl rfl
    first
      | exact h0.setWrk_alive hw (.drun i) rfl rfl (fun _ => h.drainDone .drain (List.mem_of_getElem? hw) rfl) rfl
      | exact h0.setWrk_alive hw (.run i) rfl rfl (fun h' => Bool.noConfusion h') rfl


theorem InvW.alive_pos {s : St} (h : InvW s) {w : Nat} {pc : WPC} (hw : s.workers[w]? = some pc) (ha : pc.alive = true) :
    0 < s.wg := by
  rw [h.wgEq]; exact List.countP_pos_iff.mpr ⟨pc, List.mem_of_getElem? hw, ha⟩

theorem pastWait_of_queueClosed (c : CPC) (h : c.queueClosed = true) : c.pastWait = true := by
  cases c with
  | ret b => cases b <;> simp_all [CPC.queueClosed, CPC.pastWait]
  | _ => simp_all [CPC.queueClosed, CPC.pastWait]

theorem invW_take {s s' : St} {w : Nat} (h : InvW s) (ha : InvA s) (hs : stepTake s w = some s') : InvW s' := by
  unfold stepTake at hs
  split at hs
  case h_5 => cases hs
  case h_3 hw hq =>
    split at hs
    · rename_i hqc
      exfalso
      rw [ha.qClosedEq] at hqc
      have hp : s.closer.pastWait = true := pastWait_of_queueClosed _ hqc
      have := h.alive_pos hw rfl
      have := (h.afterWait hp).1
      omega
    · cases hs
  case h_4 hw hq =>
    split at hs
    · rename_i hqc
      exfalso
      rw [ha.qClosedEq] at hqc
      have hp : s.closer.pastWait = true := pastWait_of_queueClosed _ hqc
      have := h.alive_pos hw rfl
      have := (h.afterWait hp).1
      omega
    · cases hs
  all_goals
    rename_i t q hw hq
    injection hs with hs; subst hs
    have hnoex : WPC.exited ∉ s.workers := fun hm => by have := h.exitedEmpty hm; rw [hq] at this; cases this
    have hnopw : s.closer.pastWait = true → False := fun hp => by have := (h.afterWait hp).2; rw [hq] at this; cases this
    have h0 : InvW { s with queue := q, started := s.started ++ [t] } :=
      ⟨h.wgEq, h.drainDone, fun hm => absurd hm hnoex, h.noBad, fun hp => (hnopw hp).elim⟩
    first
      | exact h0.setWrk_alive hw (.drun t) rfl rfl (fun _ => h.drainDone .drain (List.mem_of_getElem? hw) rfl) rfl
      | exact h0.setWrk_alive hw (.run t) rfl rfl (fun h' => Bool.noConfusion h') rfl

theorem invW_finish (P : Params) (hv : Valid P) {s s' : St} {w : Nat} {k : Kind} (h : InvW s)
    (hs : stepFinish P s w k = some s') : InvW s' := by
  unfold stepFinish at hs
  have hsv : (k != Kind.panic || P.recovers) = true := by rw [hv.2.1]; simp
  simp only [hsv, if_true] at hs
  split at hs
  case h_3 => cases hs
  all_goals
    rename_i t hw
    injection hs with hs; subst hs
    have h0 : InvW { s with finished := s.finished ++ [t] } := h.congr rfl rfl rfl rfl rfl
    first
      | exact h0.setWrk_alive hw .drain rfl rfl (fun _ => h.drainDone (.drun t) (List.mem_of_getElem? hw) rfl) rfl
      | exact h0.setWrk_alive hw .idle rfl rfl (fun h' => Bool.noConfusion h') rfl

theorem invW_exit {s s' : St} {w : Nat} (h : InvW s) (hs : stepExit s w = some s') : InvW s' := by
  unfold stepExit at hs
  split at hs
  case h_2 => cases hs
  rename_i hw
  split at hs
  case isFalse => cases hs
  rename_i hc
  have hpos := h.alive_pos hw rfl
  split at hs
  · omega
  · injection hs with hs; subst hs
    refine ⟨?_, ?_, ?_, ?_, ?_⟩
    · have := countP_set_add WPC.alive s.workers w _ WPC.exited hw
      show s.wg - 1 = (s.workers.set w WPC.exited).countP WPC.alive
      rw [h.wgEq]; simp [WPC.alive] at this; omega
    · exact forall_mem_set h.drainDone (fun _ => h.drainDone .drain (List.mem_of_getElem? hw) rfl)
    · intro _; exact hc.1
    · exact forall_mem_set h.noBad rfl
    · intro hp; have := (h.afterWait hp).1; omega

theorem invW_closer {s s' : St} (h : InvW s) (ha : InvA s) (hs : stepCloser s = some s') : InvW s' := by
  unfold stepCloser at hs
  split at hs
  case h_5 hc =>  -- wait
    split at hs
    · rename_i hwg
      injection hs with hs; subst hs
      refine { h with afterWait := ?_ }
      intro _
      refine ⟨hwg, h.exitedEmpty (exited_mem_of_countP_zero _ (by rw [← h.wgEq]; exact hwg) ?_)⟩
      have := ha.fullLen (Or.inr (Or.inl (ha.phaseMid (by rw [hc]; rfl))))
      have := ha.npos
      omega
    · cases hs
  case h_6 hc =>  -- closeQ
    split at hs <;> (injection hs with hs; subst hs)
    · exact { h with afterWait := fun h' => by cases h' }
    · exact { h with afterWait := fun _ => h.afterWait (by rw [hc]; rfl) }
  case h_7 hc =>  -- setTerm
    injection hs with hs; subst hs
    exact { h with afterWait := fun _ => h.afterWait (by rw [hc]; rfl) }
  case h_4 hc =>  -- closeDone
    split at hs <;> (injection hs with hs; subst hs)
    · exact { h with afterWait := fun h' => by cases h' }
    · exact { h with afterWait := fun h' => (by cases h'), drainDone := fun _ _ _ => rfl }
  case h_3 won hc =>
    injection hs with hs; subst hs
    cases won <;> exact { h with afterWait := fun h' => by cases h' }
  case h_1 hc =>
    split at hs
    · cases hs
    · injection hs with hs; subst hs
      exact { h with afterWait := fun h' => by cases h' }
  case h_2 hc =>
    split at hs <;> (injection hs with hs; subst hs) <;> exact { h with afterWait := fun h' => by cases h' }
  all_goals cases hs


theorem invW_step (P : Params) (hv : Valid P) {s s' : St} {a : Act} (h : InvW s) (ha : InvA s)
    (hs : step P s a = some s') : InvW s' := by
  cases a with
  | sub i => exact invW_sub h ha hs
  | handoff i w => exact invW_handoff h hs
  | wready w =>
    simp only [step] at hs
    split at hs
    · rename_i hw
      injection hs with hs; subst hs
      exact (h.congr (s' := { s with ready := s.ready + 1 }) rfl rfl rfl rfl rfl).setWrk_alive hw .idle rfl rfl
        (fun h' => Bool.noConfusion h') rfl
    · cases hs
  | take w => exact invW_take h ha hs
  | seeDone w =>
    simp only [step] at hs
    split at hs
    · rename_i hw
      split at hs
      · rename_i hd
        injection hs with hs; subst hs
        exact h.setWrk_alive hw .drain rfl rfl (fun _ => hd) rfl
      · cases hs
    · cases hs
  | finish w k => exact invW_finish P hv h hs
  | exit w => exact invW_exit h hs
  | closer => exact invW_closer h ha hs

theorem invW_init (P : Params) (w : Int) (cap m : Nat) : InvW (mkInit P w cap m) :=
  ⟨rfl, fun _ hm => (by cases hm), fun hm => (by cases hm), fun _ hm => (by cases hm), fun h' => (by cases h')⟩

/-! ### one worker: tasks run one at a time -/

def running (ws : List WPC) : List Nat := ws.filterMap WPC.task?

structure InvF (s : St) : Prop where
  serial : s.n = 1 → s.started = s.finished ++ running s.workers

theorem running_set_one (ws : List WPC) (w : Nat) (old pc : WPC) (hlen : ws.length ≤ 1) (hw : ws[w]? = some old) :
    ws = [old] ∧ ws.set w pc = [pc] := by
  match ws, hlen with
  | [a], _ =>
    cases w with
    | zero => simp at hw; subst hw; simp
    | succ w => simp at hw
  | [], _ => simp at hw

theorem step_n (P : Params) {s s' : St} {a : Act} (hs : step P s a = some s') : s'.n = s.n ∧ s'.cap = s.cap := by
  cases a <;> simp only [step, stepSub, stepHandoff, stepTake, stepFinish, stepExit, stepCloser] at hs <;>
    (repeat' split at hs) <;> first | (injection hs with hs; subst hs; exact ⟨rfl, rfl⟩) | cases hs

theorem running_set_same : ∀ (ws : List WPC) (w : Nat) (old pc : WPC), ws[w]? = some old → old.task? = pc.task? →
    running (ws.set w pc) = running ws
  | [], _, _, _, h, _ => by simp at h
  | a :: as, 0, old, pc, h, ht => by
    simp at h; subst h
    simp [running, List.filterMap_cons, ht]
  | a :: as, w + 1, old, pc, h, ht => by
    simp at h
    have := running_set_same as w old pc h ht
    simp only [running, List.set_cons_succ, List.filterMap_cons] at this ⊢
    rw [this]

theorem InvF.of_eq {s s' : St} (h : InvF s) (h0 : s'.n = s.n) (h1 : s'.started = s.started) (h2 : s'.finished = s.finished)
    (h3 : running s'.workers = running s.workers) : InvF s' :=
  ⟨fun hn => by rw [h1, h2, h3]; exact h.serial (h0 ▸ hn)⟩

theorem invF_step (P : Params) {s s' : St} {a : Act} (h : InvF s) (ha : InvA s) (hs : step P s a = some s') : InvF s' := by
  have hle := ha.lenLe
  cases a with
  | sub i =>
    simp only [step, stepSub] at hs
    repeat' split at hs
    all_goals first
      | (injection hs with hs; subst hs; exact h.of_eq rfl rfl rfl (by simp [setSub, running, WPC.task?]))
      | cases hs
  | handoff i w =>
    simp only [step, stepHandoff] at hs
    repeat' split at hs
    all_goals first | (cases hs; done) | skip
    all_goals
      rename_i hi hw _
      injection hs with hs; subst hs
      constructor
      intro hn
      have hn' : s.n = 1 := hn
      have := h.serial hn'
      simp only [setWrk, setSub] at ⊢
      first
        | (obtain ⟨e1, e2⟩ := running_set_one s.workers w _ (WPC.run i) (by omega) hw
           rw [e2, this, e1]; simp [running, WPC.task?])
        | (obtain ⟨e1, e2⟩ := running_set_one s.workers w _ (WPC.drun i) (by omega) hw
           rw [e2, this, e1]; simp [running, WPC.task?])
  | wready w =>
    simp only [step] at hs
    split at hs
    · rename_i hw
      injection hs with hs; subst hs
      exact h.of_eq rfl rfl rfl (running_set_same _ _ _ _ hw rfl)
    · cases hs
  | take w =>
    simp only [step, stepTake] at hs
    split at hs
    case h_5 => cases hs
    case h_3 hw _ =>
      split at hs
      · injection hs with hs; subst hs; exact h.of_eq rfl rfl rfl (running_set_same _ _ _ _ hw rfl)
      · cases hs
    case h_4 hw _ =>
      split at hs
      · injection hs with hs; subst hs; exact h.of_eq rfl rfl rfl (running_set_same _ _ _ _ hw rfl)
      · cases hs
    all_goals
      rename_i t q hw _
      injection hs with hs; subst hs
      constructor
      intro hn
      have hn' : s.n = 1 := hn
      have := h.serial hn'
      simp only [setWrk] at ⊢
      first
        | (obtain ⟨e1, e2⟩ := running_set_one s.workers w _ (WPC.run t) (by omega) hw
           rw [e2, this, e1]; simp [running, WPC.task?])
        | (obtain ⟨e1, e2⟩ := running_set_one s.workers w _ (WPC.drun t) (by omega) hw
           rw [e2, this, e1]; simp [running, WPC.task?])
  | seeDone w =>
    simp only [step] at hs
    split at hs
    · rename_i hw
      split at hs
      · injection hs with hs; subst hs; exact h.of_eq rfl rfl rfl (running_set_same _ _ _ _ hw rfl)
      · cases hs
    · cases hs
  | finish w k =>
    simp only [step, stepFinish] at hs
    split at hs
    case h_3 => cases hs
    all_goals
      rename_i t hw
      injection hs with hs; subst hs
      constructor
      intro hn
      have hn' : s.n = 1 := hn
      have := h.serial hn'
      simp only [setWrk] at ⊢
      obtain ⟨e1, e2⟩ := running_set_one s.workers w _ (if (k != Kind.panic || P.recovers) = true then WPC.idle else WPC.dead) (by omega) hw
      obtain ⟨_, e3⟩ := running_set_one s.workers w _ (if (k != Kind.panic || P.recovers) = true then WPC.drain else WPC.dead) (by omega) hw
      first
        | (rw [e2, this, e1]; split <;> simp [running, WPC.task?])
        | (rw [e3, this, e1]; split <;> simp [running, WPC.task?])
  | exit w =>
    simp only [step, stepExit] at hs
    repeat' split at hs
    all_goals first | (cases hs; done) | skip
    all_goals
      rename_i hw _ _
      injection hs with hs; subst hs
      exact h.of_eq rfl rfl rfl (running_set_same _ _ _ _ hw rfl)
  | closer =>
    simp only [step, stepCloser] at hs
    repeat' split at hs
    all_goals first
      | (injection hs with hs; subst hs; exact h.of_eq rfl rfl rfl rfl)
      | cases hs


/-! ### the invariant -/

structure Inv (s : St) : Prop where
  A : InvA s
  W : InvW s
  T : InvT s
  F : InvF s

theorem inv_init (P : Params) (hv : Valid P) (w : Int) (cap m : Nat) : Inv (mkInit P w cap m) :=
  ⟨invA_init P hv w cap m, invW_init P w cap m, invT_init P w cap m, ⟨fun _ => rfl⟩⟩

theorem inv_step (P : Params) (hv : Valid P) {s s' : St} {a : Act} (h : Inv s) (hs : step P s a = some s') : Inv s' :=
  ⟨invA_step P h.A hs, invW_step P hv h.W h.A hs, invT_step P h.T hs, invF_step P h.F h.A hs⟩

theorem reach_inv (P : Params) (hv : Valid P) {s : St} (hr : Reach P s) : Inv s := by
  induction hr with
  | init w cap m => exact inv_init P hv w cap m
  | step a _ hs ih => exact inv_step P hv ih hs

theorem steps_inv (P : Params) (hv : Valid P) {s s' : St} (h : Inv s) (hr : Steps P s s') : Inv s' := by
  induction hr with
  | refl => exact h
  | step a _ hs ih => exact inv_step P hv ih hs

theorem reach_steps (P : Params) {s s' : St} (hr : Reach P s) (hs : Steps P s s') : Reach P s' := by
  induction hs with
  | refl => exact hr
  | step a _ hs ih => exact Reach.step a ih hs

/-- once Shutdown has returned (having shut the executor down) nothing observable changes any more -/
theorem quiet_step (P : Params) {s s' : St} {a : Act} (h : Inv s) (hq : s.closer = .ret true) (hs : step P s a = some s') :
    s'.closer = .ret true ∧ s'.started = s.started ∧ s'.finished = s.finished ∧ s'.accepted = s.accepted ∧
      s'.workers = s.workers := by
  have hterm := h.A.phasePost hq
  have hwg := (h.W.afterWait (by rw [hq]; rfl)).1
  have hall : ∀ (w : Nat) (pc : WPC), s.workers[w]? = some pc → pc = .exited := by
    intro w pc hw
    have h0 : s.workers.countP WPC.alive = 0 := by rw [← h.W.wgEq]; exact hwg
    have := List.countP_eq_zero.mp h0 pc (List.mem_of_getElem? hw)
    cases pc <;> simp [WPC.alive] at this ⊢
  have hnosend : ∀ i : Nat, s.subs[i]? ≠ some SPC.send := by
    intro i hi
    have := h.A.sendRunning _ (List.mem_of_getElem? hi) rfl
    rw [hterm] at this; cases this
  have hnospawn : ∀ (i k : Nat), s.subs[i]? ≠ some (SPC.spawning k) := by
    intro i k hi
    have := h.A.spawnerSt _ (List.mem_of_getElem? hi) rfl
    rw [hterm] at this; cases this
  cases a with
  | sub i =>
    simp only [step, stepSub] at hs
    repeat' split at hs
    all_goals first
      | (injection hs with hs; subst hs; exact ⟨hq, rfl, rfl, rfl, rfl⟩)
      | (cases hs; done)
      | (rename_i heq _; exact absurd heq (hnosend i))
      | (rename_i heq _ _; exact absurd heq (hnosend i))
      | (rename_i heq _; exact absurd heq (hnospawn i _))
  | closer =>
    simp only [step, stepCloser, hq] at hs
    cases hs
  | handoff i w =>
    simp only [step, stepHandoff] at hs
    repeat' split at hs
    all_goals first
      | (cases hs; done)
      | (rename_i heq _ _; exact absurd heq (hnosend i))
  | wready w =>
    simp only [step] at hs
    split at hs
    · rename_i hw; cases hall w _ hw
    · cases hs
  | take w =>
    simp only [step, stepTake] at hs
    split at hs
    all_goals first
      | (cases hs; done)
      | (rename_i hw _; cases hall w _ hw)
  | seeDone w =>
    simp only [step] at hs
    split at hs
    · rename_i hw; cases hall w _ hw
    · cases hs
  | finish w k =>
    simp only [step, stepFinish] at hs
    split at hs
    all_goals first
      | (cases hs; done)
      | (rename_i hw; cases hall w _ hw)
  | exit w =>
    simp only [step, stepExit] at hs
    split at hs
    all_goals first
      | (cases hs; done)
      | (rename_i hw; cases hall w _ hw)

theorem quiet_steps (P : Params) (hv : Valid P) {s s' : St} (h : Inv s) (hq : s.closer = .ret true) (hr : Steps P s s') :
    s'.closer = .ret true ∧ s'.started = s.started ∧ s'.finished = s.finished ∧ s'.accepted = s.accepted ∧
      s'.workers = s.workers := by
  induction hr with
  | refl => exact ⟨hq, rfl, rfl, rfl, rfl⟩
  | step a hr' hs ih =>
    obtain ⟨q1, e1, e2, e3, e4⟩ := ih
    obtain ⟨q2, f1, f2, f3, f4⟩ := quiet_step P (steps_inv P hv h hr') q1 hs
    exact ⟨q2, f1.trans e1, f2.trans e2, f3.trans e3, f4.trans e4⟩


theorem reach_runActs (P : Params) : ∀ (as : List Act) {s s' : St}, Reach P s → runActs P s as = some s' → Reach P s'
  | [], s, s', hr, h => by simp [runActs] at h; exact h ▸ hr
  | a :: as, s, s', hr, h => by
    simp only [runActs] at h
    split at h
    · rename_i s1 hs1; exact reach_runActs P as (Reach.step a hr hs1) h
    · cases h

/-! ### a concrete schedule used by the non-vacuity examples of Props/C18.lean
2 workers, capacity 1, three Execute calls (tasks 0, 1, 2: task 0 panics, task 1 fails), Execute 1 arrives during the
start-up and spins, Execute 2 blocks on the full queue, Shutdown is called while tasks 0 and 1 run and task 2 is queued. -/
def demoPrefix : List Act :=
  [.sub 0, .sub 0, .sub 1, .sub 0, .sub 0, .sub 0, .wready 0, .wready 1, .sub 0, .sub 0, .sub 0, .sub 1,
   .sub 0, .sub 0, .sub 0, .sub 0, .take 0, .sub 1, .sub 1, .sub 1, .sub 1, .sub 2, .sub 2, .sub 2,
   .take 1, .sub 2, .sub 2]
def demoShutdown : List Act :=
  [.closer, .closer, .closer, .closer, .finish 0 .panic, .take 0, .finish 1 .err, .seeDone 1, .exit 1,
   .finish 0 .ok, .seeDone 0, .exit 0, .closer, .closer, .closer]
def demoInit : St := mkInit params 2 1 4

end Fatchoy.C18
