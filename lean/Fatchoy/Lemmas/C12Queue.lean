/-
Helper lemmas for C12, second part: the unbounded queue of linked blocks and the concurrent queue.
-/
import Fatchoy.Lemmas.C12Valid
set_option linter.unusedSectionVars false
set_option linter.unusedVariables false
namespace Fatchoy.C12
section
variable {α : Type} [Inhabited α]

/-- invariant of the block chain: no empty block, the head index is inside the head block, `len` is exact -/
structure UWF (q : UQ α) : Prop where
  nonempty : ∀ b, b ∈ q.blocks → 0 < b.length
  hp_nil : q.blocks = [] → q.hp = 0
  hp_lt : ∀ b rest, q.blocks = b :: rest → q.hp < b.length
  len_eq : q.len = q.blocks.flatten.length - q.hp

theorem UQ.zero_wf : UWF (UQ.zero : UQ α) := by
  constructor <;> simp [UQ.zero]

theorem UQ.abs_length {q : UQ α} (hw : UWF q) : q.abs.length = q.len := by
  simp [UQ.abs, hw.len_eq]

theorem UWF.hp_le {q : UQ α} (hw : UWF q) : q.hp ≤ q.blocks.flatten.length := by
  cases hb : q.blocks with
  | nil => have := hw.hp_nil hb; omega
  | cons b rest =>
    have := hw.hp_lt b rest hb
    simp only [List.flatten_cons, List.length_append]; omega

theorem push_refines (P : Params) {q : UQ α} (hw : UWF q) (v : α) :
    UWF (q.push P v) ∧ (q.push P v).abs = q.abs ++ [v] := by
  have hle := hw.hp_le
  obtain ⟨hne, hnil, hlt, hlen⟩ := hw
  unfold UQ.push
  cases hl : q.blocks.getLast? with
  | none =>
    have hb : q.blocks = [] := List.getLast?_eq_none_iff.mp hl
    have hp0 := hnil hb
    simp only []
    refine ⟨?_, ?_⟩
    · constructor
      · intro b hbm; simp only [List.mem_singleton] at hbm; subst hbm; simp
      · intro h; simp at h
      · intro b rest h
        simp only [List.cons.injEq] at h
        obtain ⟨rfl, _⟩ := h
        simp; omega
      · simp only [List.flatten_cons, List.flatten_nil, List.length_append, List.length_singleton, List.length_nil]
        rw [hlen, hb]; simp; omega
    · simp [UQ.abs, hb, hp0]
  | some t =>
    have hsplit : q.blocks = q.blocks.dropLast ++ [t] := by
      obtain ⟨ys, hys⟩ := List.getLast?_eq_some_iff.mp hl
      rw [hys, List.dropLast_concat]
    have htpos : 0 < t.length := hne t (by rw [hsplit]; simp)
    have hflat : q.blocks.flatten = q.blocks.dropLast.flatten ++ t := by
      conv => lhs; rw [hsplit]
      simp
    simp only []
    split
    · -- the last block is full: a new block
      refine ⟨?_, ?_⟩
      · constructor
        · intro b hbm
          simp only [List.mem_append, List.mem_singleton] at hbm
          rcases hbm with h | h
          · exact hne b h
          · subst h; simp
        · intro h; simp at h
        · intro b rest h
          cases hb : q.blocks with
          | nil => rw [hb] at hsplit; simp at hsplit
          | cons b0 r0 =>
            rw [hb] at h
            simp only [List.cons_append, List.cons.injEq] at h
            obtain ⟨rfl, _⟩ := h
            exact hlt _ _ hb
        · simp only [List.flatten_append, List.flatten_cons, List.flatten_nil, List.append_nil,
            List.length_append, List.length_singleton]
          omega
      · simp only [UQ.abs, List.flatten_append, List.flatten_cons, List.flatten_nil, List.append_nil]
        rw [List.drop_append_of_le_length hle]
    · -- room in the last block
      refine ⟨?_, ?_⟩
      · constructor
        · intro b hbm
          simp only [List.mem_append, List.mem_singleton] at hbm
          rcases hbm with h | h
          · exact hne b (List.dropLast_subset _ h)
          · subst h; simp
        · intro h; simp at h
        · intro b rest h
          cases hb : q.blocks with
          | nil => rw [hb] at hsplit; simp at hsplit
          | cons b0 r0 =>
            have hl0 := hlt _ _ hb
            rw [hb] at h hl
            cases r0 with
            | nil =>
              simp only [List.getLast?_singleton, Option.some.injEq] at hl
              subst hl
              simp only [List.dropLast_singleton, List.nil_append, List.cons.injEq] at h
              obtain ⟨rfl, _⟩ := h
              simp; omega
            | cons r1 rs =>
              simp only [List.dropLast_cons_cons, List.cons_append, List.cons.injEq] at h
              obtain ⟨rfl, _⟩ := h
              exact hl0
        · simp only [List.flatten_append, List.flatten_cons, List.flatten_nil, List.append_nil,
            List.length_append, List.length_singleton]
          rw [hlen, hflat]
          simp only [List.length_append]
          rw [hflat] at hle
          simp only [List.length_append] at hle
          omega
      · simp only [UQ.abs, List.flatten_append, List.flatten_cons, List.flatten_nil, List.append_nil]
        rw [hflat, ← List.append_assoc]
        rw [hflat] at hle
        rw [List.drop_append_of_le_length hle]

theorem pop_refines {q : UQ α} (hw : UWF q) :
    (q.abs = [] ∧ q.pop = some (q, none)) ∨
    (∃ q' x t, q.abs = x :: t ∧ q.pop = some (q', some x) ∧ UWF q' ∧ q'.abs = t) := by
  have hle := hw.hp_le
  obtain ⟨hne, hnil, hlt, hlen⟩ := hw
  unfold UQ.pop
  cases hb : q.blocks with
  | nil =>
    left
    simp [UQ.abs, hb]
  | cons b rest =>
    right
    have hl0 := hlt _ _ hb
    have hrd : rd b q.hp = some b[q.hp] := by simp [rd, List.getElem?_eq_getElem hl0]
    have hwr : wr b q.hp nil = some (b.set q.hp nil) := by simp [wr, hl0]
    simp only [Option.bind_eq_bind]
    rw [hrd, hwr]
    simp only [Option.bind_some]
    have hlen' : q.len ≠ 0 := by
      rw [hlen, hb]; simp only [List.flatten_cons, List.length_append]; omega
    rw [if_neg hlen']
    have habs : q.abs = b[q.hp] :: (b.drop (q.hp + 1) ++ rest.flatten) := by
      simp only [UQ.abs, hb, List.flatten_cons]
      rw [List.drop_append_of_le_length (by omega), List.drop_eq_getElem_cons hl0]
      rfl
    simp only [List.length_set]
    split
    · rename_i hge
      refine ⟨_, _, _, habs, rfl, ?_, ?_⟩
      · constructor
        · intro b' hb'; exact hne b' (by rw [hb]; exact List.mem_cons_of_mem _ hb')
        · intro _; rfl
        · intro b' r' h
          simp only [] at h
          have := hne b' (by rw [hb, h]; simp)
          simp only []; omega
        · simp only []
          rw [hlen, hb]; simp only [List.flatten_cons, List.length_append]; omega
      · simp only [UQ.abs, List.drop_zero]
        rw [List.drop_eq_nil_of_le (by omega)]; rfl
    · rename_i hlt2
      refine ⟨_, _, _, habs, rfl, ?_, ?_⟩
      · constructor
        · intro b' hb'
          simp only [List.mem_cons] at hb'
          rcases hb' with h | h
          · subst h; simp only [List.length_set]; omega
          · exact hne b' (by rw [hb]; exact List.mem_cons_of_mem _ h)
        · intro h; simp at h
        · intro b' r' h
          simp only [List.cons.injEq] at h
          obtain ⟨rfl, _⟩ := h
          simp only [List.length_set]; omega
        · simp only [List.flatten_cons, List.length_append, List.length_set]
          rw [hlen, hb]; simp only [List.flatten_cons, List.length_append]; omega
      · simp only [UQ.abs, List.flatten_cons]
        rw [List.drop_append_of_le_length (by simp only [List.length_set]; omega)]
        rw [List.drop_set_of_lt (by omega)]

theorem front_refines {q : UQ α} (hw : UWF q) :
    (q.abs = [] ∧ q.front = some none) ∨ (∃ x t, q.abs = x :: t ∧ q.front = some (some x)) := by
  obtain ⟨hne, hnil, hlt, hlen⟩ := hw
  unfold UQ.front
  cases hb : q.blocks with
  | nil => left; simp [UQ.abs, hb]
  | cons b rest =>
    right
    have hl0 := hlt _ _ hb
    refine ⟨b[q.hp], b.drop (q.hp + 1) ++ rest.flatten, ?_, ?_⟩
    · simp only [UQ.abs, hb, List.flatten_cons]
      rw [List.drop_append_of_le_length (by omega), List.drop_eq_getElem_cons hl0]
      rfl
    · simp [rd, List.getElem?_eq_getElem hl0]

theorem init_wf (q : UQ α) : UWF q.init ∧ q.init.abs = [] := by
  refine ⟨?_, by simp [UQ.init, UQ.abs]⟩
  constructor <;> simp [UQ.init]

/-- one call: succeeds, keeps the invariant, does what the plain list queue does -/
theorem ustep_refines (P : Params) {q : UQ α} (hw : UWF q) (op : UOp α) :
    ∃ q' o, q.step P op = some (q', o) ∧ UWF q' ∧ (q'.abs, o) = ulistStep q.abs op := by
  cases op with
  | push v =>
    obtain ⟨hw', ha⟩ := push_refines P hw v
    exact ⟨_, _, rfl, hw', by simp [ulistStep, ha]⟩
  | pop =>
    rcases pop_refines hw with ⟨ha, hp⟩ | ⟨q', x, t, ha, hp, hw', ha'⟩
    · exact ⟨q, .empty, by simp [UQ.step, hp], hw, by simp [ulistStep, ha]⟩
    · exact ⟨q', .val x, by simp [UQ.step, hp], hw', by simp [ulistStep, ha, ha']⟩
  | front =>
    rcases front_refines hw with ⟨ha, hp⟩ | ⟨x, t, ha, hp⟩
    · exact ⟨q, .empty, by simp [UQ.step, hp], hw, by simp [ulistStep, ha]⟩
    · exact ⟨q, .val x, by simp [UQ.step, hp], hw, by simp [ulistStep, ha]⟩
  | len =>
    exact ⟨q, .num q.len, rfl, hw, by simp [ulistStep, UQ.abs_length hw]⟩
  | init =>
    obtain ⟨hw', ha⟩ := init_wf q
    exact ⟨_, _, rfl, hw', by simp [ulistStep, ha]⟩

theorem urun_refines (P : Params) : ∀ (ops : List (UOp α)) (q : UQ α), UWF q →
    ∃ q' outs, UQ.run P q ops = some (q', outs) ∧ UWF q' ∧ (q'.abs, outs) = ulistRun q.abs ops := by
  intro ops
  induction ops with
  | nil => intro q hw; exact ⟨q, [], rfl, hw, rfl⟩
  | cons op ops ih =>
    intro q hw
    obtain ⟨q1, o, h1, hw1, hr1⟩ := ustep_refines P hw op
    obtain ⟨q2, os, h2, hw2, hr2⟩ := ih q1 hw1
    refine ⟨q2, o :: os, ?_, hw2, ?_⟩
    · simp [UQ.run, h1, h2]
    · simp only [ulistRun]
      rw [← hr1]
      simp only []
      rw [← hr2]

/-- on plain lists: what was there and what went in = what came out followed by what is still there -/
theorem list_conservation : ∀ (ops : List (UOp α)) (l : List α), (∀ op, op ∈ ops → op ≠ .init) →
    l ++ pushed ops = popped ops (ulistRun l ops).2 ++ (ulistRun l ops).1 := by
  intro ops
  induction ops with
  | nil => intro l _; simp [pushed, popped, ulistRun]
  | cons op ops ih =>
    intro l hni
    have hni' : ∀ op, op ∈ ops → op ≠ .init := fun o ho => hni o (List.mem_cons_of_mem _ ho)
    cases op with
    | push v =>
      have := ih (l ++ [v]) hni'
      simp only [ulistRun, ulistStep, pushed, popped]
      rw [← this]; simp
    | pop =>
      cases l with
      | nil =>
        have := ih [] hni'
        simp only [ulistRun, ulistStep, pushed, popped]
        exact this
      | cons x t =>
        have := ih t hni'
        simp only [ulistRun, ulistStep, pushed, popped]
        rw [List.cons_append, this]; simp
    | front =>
      have := ih l hni'
      cases l with
      | nil => simp only [ulistRun, ulistStep, pushed, popped]; exact this
      | cons x t => simp only [ulistRun, ulistStep, pushed, popped]; exact this
    | len =>
      have := ih l hni'
      simp only [ulistRun, ulistStep, pushed, popped]; exact this
    | init => exact absurd rfl (hni .init (by simp))

theorem filter_prefix_of_append {l₁ l₂ l : List α} (p : α → Bool) (h : l = l₁ ++ l₂) :
    l₁.filter p <+: l.filter p := by
  rw [h, List.filter_append]; exact List.prefix_append _ _

theorem crun_eq_run (P : Params) : ∀ (as : List (CAct α)) (q : UQ α),
    crun P q as = UQ.run P q (as.map CAct.op) := by
  intro as
  induction as with
  | nil => intro q; rfl
  | cons a as ih =>
    intro q
    simp only [crun, cstep, List.map_cons, UQ.run]
    cases q.step P a.op with
    | none => rfl
    | some r => simp only [Option.bind_eq_bind, Option.bind_some]; rw [ih]

theorem enqueued_eq : ∀ (as : List (CAct α)), enqueued as = pushed (as.map CAct.op) := by
  intro as
  induction as with
  | nil => rfl
  | cons a as ih => cases a <;> simp [enqueued, pushed, CAct.op, ih]

theorem dequeued_eq : ∀ (as : List (CAct α)) (os : List (UOut α)),
    dequeued as os = popped (as.map CAct.op) os := by
  intro as
  induction as with
  | nil => intro os; cases os <;> simp [dequeued, popped]
  | cons a as ih =>
    intro os
    cases os with
    | nil => cases a <;> simp [dequeued, popped, CAct.op]
    | cons o os => cases a <;> cases o <;> simp [dequeued, popped, CAct.op, ih]

theorem cact_no_init (as : List (CAct α)) : ∀ op, op ∈ as.map CAct.op → op ≠ .init := by
  intro op h
  simp only [List.mem_map] at h
  obtain ⟨a, _, rfl⟩ := h
  cases a <;> simp [CAct.op]

end
end Fatchoy.C12
