/-
Helper lemmas for C08 (segment id generators): the `Valid` side-condition, the hypotheses of the
property (`StepOK`, `CounterOK`, `Legal`), what one generator does inside the no-overflow range, and
the invariant of the system (database + adapters + generators + log of issued ids).
-/
import Fatchoy.Model.C08
namespace Fatchoy.C08

/-- The regenerated facts: the default step is a positive int32; every adapter's `Incr` carries the
"did not grow" guard; `Next` runs under the mutex; `reload` assigns only after `Incr` succeeded;
`uuid.Init` installs the generator only after `Init` succeeded. -/
def Valid (P : Params) : Prop :=
  1 ≤ P.defaultStep ∧ P.defaultStep < 2 ^ 31 ∧
  P.guardRedis = true ∧ P.guardEtcd = true ∧ P.guardMongo = true ∧ P.guardMysql = true ∧
  P.nextLocked = true ∧ P.reloadAfterIncr = true ∧ P.apiInitFirst = true
instance (P : Params) : Decidable (Valid P) := by unfold Valid; infer_instance

/-! ### the hypotheses of the property -/

/-- the common step of all generators on the store: at least 1 (an int32 in the code) -/
def StepOK (st : Int) : Prop := 1 ≤ st ∧ st + 1 < two63

/-- no overflow: the segment of counter `c`, and the id after it, fit int64; counters are not negative -/
def CounterOK (st c : Int) : Prop := 0 ≤ c ∧ (c + 1) * st + 1 < two63

theorem wrap64_of_range {x : Int} (h1 : -two63 ≤ x) (h2 : x < two63) : wrap64 x = x := by
  simp [wrap64, h1, h2]

theorem seg_end (c st : Int) : (c + 1) * st = c * st + st := by rw [Int.add_mul, Int.one_mul]

theorem mul_step_nonneg {st c : Int} (hs : 1 ≤ st) (hc : 0 ≤ c) : 0 ≤ c * st :=
  Int.mul_nonneg hc (by omega)

/-- the segments of different counters do not meet -/
theorem seg_disjoint {st c c' id : Int} (hs : 1 ≤ st) (h1 : c * st < id) (h2 : id ≤ (c + 1) * st)
    (h3 : c' * st < id) (h4 : id ≤ (c' + 1) * st) : c = c' := by
  have hs0 : (0 : Int) ≤ st := by omega
  rcases Int.lt_trichotomy c c' with h | h | h
  · have : (c + 1) * st ≤ c' * st := Int.mul_le_mul_of_nonneg_right (by omega) hs0
    omega
  · exact h
  · have : (c' + 1) * st ≤ c * st := Int.mul_le_mul_of_nonneg_right (by omega) hs0
    omega

/-- a later counter's segment lies above an earlier one's -/
theorem seg_above {st c c' : Int} (hs : 1 ≤ st) (h : c < c') : (c + 1) * st ≤ c' * st :=
  Int.mul_le_mul_of_nonneg_right (by omega) (by omega)

/-! ### one generator inside the no-overflow range -/

/-- a generator that holds a lease: its state is inside the segment of its counter -/
def Holds (st : Int) (g : Gen) : Prop :=
  g.step = st ∧ CounterOK st g.counter ∧ g.counter * st ≤ g.lastID ∧ g.lastID ≤ (g.counter + 1) * st

theorem rangeEnd_eq {st c : Int} {g : Gen} (hg : g.step = st) (hs : StepOK st) (hc : CounterOK st c) :
    rangeEnd g c = (c + 1) * st := by
  obtain ⟨hs1, hs2⟩ := hs
  obtain ⟨hc1, hc2⟩ := hc
  have h0 := mul_step_nonneg hs1 hc1
  have h1 : c ≤ c * st := by
    have := Int.mul_le_mul_of_nonneg_left hs1 hc1
    omega
  have e := seg_end c st
  have t63 : two63 = 9223372036854775808 := rfl
  unfold rangeEnd
  rw [hg, wrap64_of_range (x := c + 1) (by omega) (by omega), wrap64_of_range (by omega) (by omega)]

theorem reload_ok {st c : Int} {g : Gen} (hg : g.step = st) (hs : StepOK st) (hc : CounterOK st c) :
    reload g (.ok c) = (none, { g with counter := c, lastID := c * st }) := by
  have hr := rangeEnd_eq hg hs hc
  obtain ⟨hs1, hs2⟩ := hs
  obtain ⟨hc1, hc2⟩ := hc
  have h0 := mul_step_nonneg hs1 hc1
  have e := seg_end c st
  have t63 : two63 = 9223372036854775808 := rfl
  have hw : wrap64 (c * st) = c * st := wrap64_of_range (by omega) (by omega)
  simp only [reload, hr, hg, hw]
  rw [if_neg (by omega)]

/-- `Next` inside the segment: the next id, no store call -/
theorem next_inside {st : Int} {g : Gen} (hs : StepOK st) (h : Holds st g) (hin : g.lastID + 1 ≤ (g.counter + 1) * st)
    (r : Resp) : next g r = (.id (g.lastID + 1), { g with lastID := g.lastID + 1 }) ∧ needsStore g = false := by
  obtain ⟨hg, hc, h1, h2⟩ := h
  have hr := rangeEnd_eq hg hs hc
  have h0 := mul_step_nonneg hs.1 hc.1
  have t63 : two63 = 9223372036854775808 := rfl
  have hw : wrap64 (g.lastID + 1) = g.lastID + 1 := wrap64_of_range (by omega) (by have := hc.2; omega)
  constructor
  · simp only [next, hr, hw, if_pos hin]
  · simp only [needsStore, hr, hw, hin, not_true_eq_false, decide_false]

/-- `Next` at the end of the segment: the store is asked; a counter `c` starts the segment of `c` -/
theorem next_reload {st : Int} {g : Gen} (hs : StepOK st) (h : Holds st g) (hend : g.lastID = (g.counter + 1) * st) :
    needsStore g = true ∧
    (∀ c, CounterOK st c → next g (.ok c) = (.id (c * st + 1), { g with counter := c, lastID := c * st + 1 })) ∧
    next g .errStore = (.errStore, g) ∧ next g .errRange = (.errRange, g) := by
  obtain ⟨hg, hc, h1, h2⟩ := h
  have hr := rangeEnd_eq hg hs hc
  have h0 := mul_step_nonneg hs.1 hc.1
  have t63 : two63 = 9223372036854775808 := rfl
  have hw : wrap64 (g.lastID + 1) = g.lastID + 1 := wrap64_of_range (by omega) (by have := hc.2; omega)
  have hout : ¬ (g.lastID + 1 ≤ (g.counter + 1) * st) := by omega
  refine ⟨?_, ?_, ?_, ?_⟩
  · simp only [needsStore, hr, hw, hout, not_false_eq_true, decide_true]
  · intro c hcc
    have h0' := mul_step_nonneg hs.1 hcc.1
    have e := seg_end c st
    have hw' : wrap64 (c * st + 1) = c * st + 1 := wrap64_of_range (by omega) (by have := hcc.2; have := hs.1; omega)
    simp only [next, hr, hw, if_neg hout, reload_ok hg hs hcc, hw']
  · simp only [next, hr, hw, if_neg hout, reload]
  · simp only [next, hr, hw, if_neg hout, reload]

theorem init_ok {st c : Int} {g : Gen} (hg : g.step = st) (hs : StepOK st) (hc : CounterOK st c) :
    init g (.ok c) = (.done, { g with counter := c, lastID := c * st }) := by
  simp only [init, reload_ok hg hs hc]

theorem init_err (g : Gen) : init g .errStore = (.errStore, g) ∧ init g .errRange = (.errRange, g) := by
  simp [init, reload]

theorem holds_fresh {st c : Int} {g : Gen} (hg : g.step = st) (hs : StepOK st) (hc : CounterOK st c) :
    Holds st { g with counter := c, lastID := c * st } := by
  refine ⟨hg, hc, Int.le_refl _, ?_⟩
  have := seg_end c st
  have := hs.1
  show c * st ≤ (c + 1) * st
  omega

/-! ### the system invariant -/

/-- adapters only ever remember larger counters -/
def AdsLe (ads ads' : List Adapter) : Prop :=
  ∀ (i : Nat) (a : Adapter), ads[i]? = some a → ∃ a' : Adapter, ads'[i]? = some a' ∧ a.lastId ≤ a'.lastId

theorem AdsLe.refl (ads : List Adapter) : AdsLe ads ads := fun _ a h => ⟨a, h, Int.le_refl _⟩

/-- what is known about one generator: its step is the common step, its leases were all handed out
by the database (inside the no-overflow range), and once initialised it holds one of them, stays
inside that segment, and its adapter remembers a counter at least as large -/
def GenInv (st : Int) (used : List Int) (ads : List Adapter) (gs : GenSt) : Prop :=
  gs.gen.step = st ∧ (∀ c ∈ gs.leased, c ∈ used ∧ CounterOK st c) ∧
  (gs.inited = true → gs.gen.counter ∈ gs.leased ∧ Holds st gs.gen ∧
    ∃ a, ads[gs.ad]? = some a ∧ gs.gen.counter ≤ a.lastId)

theorem GenInv.mono {st : Int} {used used' : List Int} {ads ads' : List Adapter} {gs : GenSt}
    (h : GenInv st used ads gs) (hu : ∀ c ∈ used, c ∈ used') (ha : AdsLe ads ads') : GenInv st used' ads' gs := by
  obtain ⟨h1, h2, h3⟩ := h
  refine ⟨h1, fun c hc => ⟨hu c (h2 c hc).1, (h2 c hc).2⟩, ?_⟩
  intro hi
  obtain ⟨k1, k2, a, k3, k4⟩ := h3 hi
  obtain ⟨a', k5, k6⟩ := ha _ _ k3
  exact ⟨k1, k2, a', k5, by omega⟩

/-- a logged id: its generator is initialised, its `lastID` is at least that id, and the id lies in
the segment of one of the generator's leases -/
def EntryOK (st : Int) (gens : List GenSt) (e : Nat × Int) : Prop :=
  ∃ gs, gens[e.1]? = some gs ∧ gs.inited = true ∧ e.2 ≤ gs.gen.lastID ∧
    ∃ c ∈ gs.leased, c * st < e.2 ∧ e.2 ≤ (c + 1) * st

def Inv (st : Int) (s : Sys) : Prop :=
  (∀ (g : Nat) (gs : GenSt), s.gens[g]? = some gs → GenInv st s.used s.ads gs) ∧
  (∀ (g₁ g₂ : Nat) (gs₁ gs₂ : GenSt), g₁ ≠ g₂ → s.gens[g₁]? = some gs₁ → s.gens[g₂]? = some gs₂ →
    ∀ c ∈ gs₁.leased, c ∉ gs₂.leased) ∧
  (∀ e ∈ s.log, EntryOK st s.gens e) ∧
  s.log.Pairwise (fun a b => a.2 ≠ b.2 ∧ (a.1 = b.1 → b.2 < a.2))

theorem inv_empty (st : Int) : Inv st Sys.empty := by
  refine ⟨?_, ?_, ?_, ?_⟩ <;> simp [Sys.empty]

theorem lookup_set {α : Type} {l : List α} {i j : Nat} {x y : α} (h : (l.set i x)[j]? = some y) :
    (j = i ∧ y = x) ∨ (j ≠ i ∧ l[j]? = some y) := by
  rw [List.getElem?_set] at h
  split at h
  · rename_i hij
    split at h
    · simp only [Option.some.injEq] at h; exact Or.inl ⟨hij.symm, h.symm⟩
    · cases h
  · rename_i hij; exact Or.inr ⟨fun e => hij e.symm, h⟩

/-- One generator `g` changes from `gs` to `gs'`, the database and the adapters move on, possibly one
id is logged for `g`: the invariant is kept provided the new generator state is fine, leases grow
only by values the database had not handed out, `lastID` does not decrease, and the logged id is
the new `lastID`, above the old one, inside one of the generator's segments. -/
theorem inv_update {st : Int} (hs : StepOK st) {s : Sys} (hI : Inv st s) {g : Nat} {gs gs' : GenSt}
    (hg : s.gens[g]? = some gs) {used' : List Int} {ads' : List Adapter}
    (hu : ∀ c ∈ s.used, c ∈ used') (ha : AdsLe s.ads ads') (hgi : GenInv st used' ads' gs')
    (hl : gs'.leased = gs.leased ∨ ∃ c, gs'.leased = c :: gs.leased ∧ c ∉ s.used)
    (hin : gs.inited = true → gs'.inited = true ∧ gs.gen.lastID ≤ gs'.gen.lastID)
    {log' : List (Nat × Int)}
    (hlog : log' = s.log ∨ ∃ n, log' = (g, n) :: s.log ∧ gs.inited = true ∧ gs'.inited = true ∧
      n = gs'.gen.lastID ∧ gs.gen.lastID < n ∧ ∃ c ∈ gs'.leased, c * st < n ∧ n ≤ (c + 1) * st) :
    Inv st { used := used', ads := ads', gens := s.gens.set g gs', log := log' } := by
  obtain ⟨i1, i2, i3, i4⟩ := hI
  have hlen : g < s.gens.length := by
    obtain ⟨h, -⟩ := List.getElem?_eq_some_iff.mp hg; exact h
  have hself : (s.gens.set g gs')[g]? = some gs' := List.getElem?_set_self hlen
  have hother : ∀ j : Nat, j ≠ g → (s.gens.set g gs')[j]? = s.gens[j]? :=
    fun j hj => List.getElem?_set_ne (fun e => hj e.symm)
  have hsub : ∀ c ∈ gs.leased, c ∈ gs'.leased := by
    intro c hc
    rcases hl with h | ⟨c', h, -⟩
    · rw [h]; exact hc
    · rw [h]; exact List.mem_cons_of_mem _ hc
  -- (1) every generator
  have j1 : ∀ (j : Nat) (y : GenSt), (s.gens.set g gs')[j]? = some y → GenInv st used' ads' y := by
    intro j y hy
    rcases lookup_set hy with ⟨-, rfl⟩ | ⟨-, hy⟩
    · exact hgi
    · exact (i1 j y hy).mono hu ha
  -- (2) leases stay disjoint
  have j2 : ∀ (g₁ g₂ : Nat) (gs₁ gs₂ : GenSt), g₁ ≠ g₂ → (s.gens.set g gs')[g₁]? = some gs₁ → (s.gens.set g gs')[g₂]? = some gs₂ →
      ∀ c ∈ gs₁.leased, c ∉ gs₂.leased := by
    intro g₁ g₂ gs₁ gs₂ hne h₁ h₂ c hc
    rcases lookup_set h₁ with ⟨e₁, q₁⟩ | ⟨n₁, k₁⟩ <;> rcases lookup_set h₂ with ⟨e₂, q₂⟩ | ⟨n₂, k₂⟩
    · exact absurd (e₁.trans e₂.symm) hne
    · -- g₁ = g changed, g₂ untouched
      rw [q₁] at hc
      rcases hl with h | ⟨c', h, hfresh⟩
      · rw [h] at hc; exact i2 g g₂ gs gs₂ (by omega) hg k₂ c hc
      · rw [h] at hc
        rcases List.mem_cons.mp hc with rfl | hc
        · intro hmem; exact hfresh ((i1 g₂ gs₂ k₂).2.1 _ hmem).1
        · exact i2 g g₂ gs gs₂ (by omega) hg k₂ c hc
    · -- g₂ = g changed
      have hold := i2 g₁ g gs₁ gs (by omega) k₁ hg c hc
      rw [q₂]
      rcases hl with h | ⟨c', h, hfresh⟩
      · rw [h]; exact hold
      · rw [h]
        intro hmem
        rcases List.mem_cons.mp hmem with rfl | hmem
        · exact hfresh ((i1 g₁ gs₁ k₁).2.1 _ hc).1
        · exact hold hmem
    · exact i2 g₁ g₂ gs₁ gs₂ hne k₁ k₂ c hc
  -- (3) old entries stay fine
  have j3old : ∀ e ∈ s.log, EntryOK st (s.gens.set g gs') e := by
    intro e he
    obtain ⟨gse, k1, k2, k3, c, k4, k5⟩ := i3 e he
    by_cases heg : e.1 = g
    · rw [heg] at k1
      rw [hg] at k1
      simp only [Option.some.injEq] at k1
      subst k1
      obtain ⟨m1, m2⟩ := hin k2
      exact ⟨gs', by rw [heg]; exact hself, m1, by omega, c, hsub c k4, k5⟩
    · exact ⟨gse, by rw [hother _ heg]; exact k1, k2, k3, c, k4, k5⟩
  rcases hlog with rfl | ⟨n, rfl, hi, hi', hn, hlt, c, hc, hseg⟩
  · exact ⟨j1, j2, j3old, i4⟩
  · refine ⟨j1, j2, ?_, ?_⟩
    · intro e he
      rcases List.mem_cons.mp he with rfl | he
      · exact ⟨gs', hself, hi', by simp only; omega, c, hc, hseg⟩
      · exact j3old e he
    · refine List.pairwise_cons.mpr ⟨?_, i4⟩
      intro e he
      obtain ⟨gse, k1, k2, k3, c₂, k4, k5, k6⟩ := i3 e he
      by_cases heg : e.1 = g
      · rw [heg, hg] at k1
        simp only [Option.some.injEq] at k1
        subst k1
        exact ⟨by simp only; omega, fun _ => by simp only; omega⟩
      · refine ⟨?_, fun h => absurd h.symm heg⟩
        intro heq
        simp only at heq
        rw [← heq] at k5 k6
        have hcc : c = c₂ := seg_disjoint hs.1 hseg.1 hseg.2 k5 k6
        have := j2 g e.1 gs' gse (fun h => heg h.symm) hself (by rw [hother _ heg]; exact k1) c hc
        exact this (hcc ▸ k4)

/-! ### the hypotheses of the property, per action -/

/-- the database's contract and the no-overflow range: a value it hands out was never handed out
(or lost in a failed call) before, is not negative, and its segment fits int64 -/
def RawOK (st : Int) (s : Sys) (raw : Raw) : Prop := ∀ c, raw = .ok c → c ∉ s.used ∧ CounterOK st c

/-- same step for every generator on the store; `Next` only after a successful `Init`; the
database keeps its contract -/
def Legal (P : Params) (st : Int) (s : Sys) : Action → Prop
  | .newAdapter => True
  | .create st' _ => (newGen P st').step = st
  | .init _ raw => RawOK st s raw
  | .next g raw => RawOK st s raw ∧ ∃ gs : GenSt, s.gens[g]? = some gs ∧ gs.inited = true
  | .crash _ => True

/-- what a store call does to the database, the adapters and the caller -/
theorem storeCall_spec {st : Int} {s : Sys} {gs : GenSt} {raw : Raw} {resp : Resp} {ads' : List Adapter}
    {used' : List Int} (hraw : RawOK st s raw) (h : storeCall s gs raw = some (resp, ads', used')) :
    AdsLe s.ads ads' ∧ (∀ c ∈ s.used, c ∈ used') ∧
    (resp = .errStore ∨ resp = .errRange ∨ ∃ c, resp = .ok c) ∧
    (∀ c, resp = .ok c → raw = .ok c ∧ used' = c :: s.used ∧
      ∃ a : Adapter, s.ads[gs.ad]? = some a ∧ (a.lastId = 0 ∨ a.lastId < c) ∧ ads'[gs.ad]? = some { lastId := c }) := by
  unfold storeCall at h
  cases ha : s.ads[gs.ad]? with
  | none => rw [ha] at h; cases h
  | some a =>
    rw [ha] at h
    have hlt : gs.ad < s.ads.length := by
      obtain ⟨h', -⟩ := List.getElem?_eq_some_iff.mp ha; exact h'
    have same : AdsLe s.ads (s.ads.set gs.ad a) := by
      intro i b hb
      by_cases hi : gs.ad = i
      · subst hi; rw [ha] at hb; cases hb
        exact ⟨a, List.getElem?_set_self hlt, Int.le_refl _⟩
      · exact ⟨b, by rw [List.getElem?_set_ne hi]; exact hb, Int.le_refl _⟩
    cases raw with
    | failBefore =>
      simp only [Adapter.incr, Raw.moved, Option.some.injEq, Prod.mk.injEq] at h
      obtain ⟨rfl, rfl, rfl⟩ := h
      exact ⟨same, fun c hc => hc, Or.inl rfl, fun c hc => by cases hc⟩
    | failAfter c' =>
      simp only [Adapter.incr, Raw.moved, Option.some.injEq, Prod.mk.injEq] at h
      obtain ⟨rfl, rfl, rfl⟩ := h
      exact ⟨same, fun c hc => List.mem_cons_of_mem _ hc, Or.inl rfl, fun c hc => by cases hc⟩
    | ok c' =>
      obtain ⟨-, hc0, -⟩ := hraw c' rfl
      simp only [Adapter.incr, Raw.moved] at h
      split at h
      · simp only [Option.some.injEq, Prod.mk.injEq] at h
        obtain ⟨rfl, rfl, rfl⟩ := h
        exact ⟨same, fun c hc => List.mem_cons_of_mem _ hc, Or.inr (Or.inl rfl), fun c hc => by cases hc⟩
      · rename_i hg
        simp only [Option.some.injEq, Prod.mk.injEq] at h
        obtain ⟨rfl, rfl, rfl⟩ := h
        have hacc : a.lastId = 0 ∨ a.lastId < c' := by omega
        refine ⟨?_, fun c hc => List.mem_cons_of_mem _ hc, Or.inr (Or.inr ⟨c', rfl⟩), ?_⟩
        · intro i b hb
          by_cases hi : gs.ad = i
          · subst hi; rw [ha] at hb; cases hb
            exact ⟨_, List.getElem?_set_self hlt, by simp only; omega⟩
          · exact ⟨b, by rw [List.getElem?_set_ne hi]; exact hb, Int.le_refl _⟩
        · intro c hc
          simp only [Resp.ok.injEq] at hc
          subst hc
          exact ⟨rfl, rfl, a, rfl, hacc, List.getElem?_set_self hlt⟩

theorem genSt_eta (gs : GenSt) :
    ({ gs with gen := gs.gen, inited := gs.inited || false, leased := gs.leased } : GenSt) = gs := by
  cases gs; simp

theorem set_lookup_self {α : Type} {l : List α} {i : Nat} {x : α} (h : l[i]? = some x) : l.set i x = l := by
  apply List.ext_getElem?
  intro j
  by_cases hij : i = j
  · subst hij
    obtain ⟨hlt, -⟩ := List.getElem?_eq_some_iff.mp h
    rw [List.getElem?_set_self hlt, h]
  · rw [List.getElem?_set_ne hij]

/-- a new counter accepted by the generator's adapter is above the counter the generator holds -/
theorem accepted_above {st : Int} {s : Sys} {gs : GenSt} {a : Adapter} {c : Int}
    (hgi : GenInv st s.used s.ads gs) (hi : gs.inited = true) (ha : s.ads[gs.ad]? = some a)
    (hacc : a.lastId = 0 ∨ a.lastId < c) (hfresh : c ∉ s.used) (hc : CounterOK st c) : gs.gen.counter < c := by
  obtain ⟨-, h2, h3⟩ := hgi
  obtain ⟨k1, ⟨-, k2, -, -⟩, a', k3, k4⟩ := h3 hi
  rw [ha] at k3; cases k3
  have hne : c ≠ gs.gen.counter := fun e => hfresh (e ▸ (h2 _ k1).1)
  have := k2.1
  have := hc.1
  omega

/-- every legal action keeps the invariant -/
theorem step_inv (P : Params) {st : Int} (hs : StepOK st) {s s' : Sys} {a : Action} {o : Out} {b : Bool}
    (hI : Inv st s) (hL : Legal P st s a) (h : step P s a = some (s', o, b)) : Inv st s' := by
  obtain ⟨i1, i2, i3, i4⟩ := hI
  have hI : Inv st s := ⟨i1, i2, i3, i4⟩
  cases a with
  | newAdapter =>
    simp only [step, Option.some.injEq, Prod.mk.injEq] at h
    obtain ⟨rfl, -, -⟩ := h
    have ha : AdsLe s.ads (s.ads ++ [{ lastId := 0 }]) := by
      intro i a hi
      obtain ⟨hlt, -⟩ := List.getElem?_eq_some_iff.mp hi
      exact ⟨a, by rw [List.getElem?_append_left hlt]; exact hi, Int.le_refl _⟩
    exact ⟨fun g gs hg => (i1 g gs hg).mono (fun c hc => hc) ha, i2, i3, i4⟩
  | create st' ad =>
    simp only [step] at h
    split at h
    · simp only [Option.some.injEq, Prod.mk.injEq] at h
      obtain ⟨rfl, -, -⟩ := h
      have look : ∀ (j : Nat) (y : GenSt), (s.gens ++ [({ gen := newGen P st', ad := ad, inited := false, alive := true, leased := [] } : GenSt)])[j]? = some y →
          s.gens[j]? = some y ∨ y.leased = [] ∧ y.inited = false ∧ y.gen.step = st := by
        intro j y hy
        rw [List.getElem?_append] at hy
        split at hy
        · exact Or.inl hy
        · right
          cases hj : j - s.gens.length with
          | zero => rw [hj] at hy; simp only [List.getElem?_cons_zero, Option.some.injEq] at hy; subst hy; exact ⟨rfl, rfl, hL⟩
          | succ k => rw [hj] at hy; simp at hy
      refine ⟨?_, ?_, ?_, i4⟩
      · intro g gs hg
        rcases look g gs hg with h | ⟨h1, h2, h3⟩
        · exact i1 g gs h
        · exact ⟨h3, by rw [h1]; simp, by rw [h2]; simp⟩
      · intro g₁ g₂ gs₁ gs₂ hne h₁ h₂ c hc
        rcases look g₁ gs₁ h₁ with k₁ | ⟨k₁, -, -⟩
        · rcases look g₂ gs₂ h₂ with k₂ | ⟨k₂, -, -⟩
          · exact i2 g₁ g₂ gs₁ gs₂ hne k₁ k₂ c hc
          · rw [k₂]; simp
        · rw [k₁] at hc; simp at hc
      · intro e he
        obtain ⟨gs, k1, k2⟩ := i3 e he
        obtain ⟨hlt, -⟩ := List.getElem?_eq_some_iff.mp k1
        exact ⟨gs, by rw [List.getElem?_append_left hlt]; exact k1, k2⟩
    · cases h
  | crash g =>
    simp only [step] at h
    cases hg : s.gens[g]? with
    | none => rw [hg] at h; cases h
    | some gs =>
      rw [hg] at h
      simp only at h
      split at h
      · simp only [Option.some.injEq, Prod.mk.injEq] at h
        obtain ⟨rfl, -, -⟩ := h
        exact inv_update (gs' := { gs with alive := false }) hs hI hg (fun c hc => hc) (AdsLe.refl _)
          (show GenInv st s.used s.ads { gs with alive := false } from i1 g gs hg) (Or.inl rfl)
          (fun hi => ⟨hi, Int.le_refl _⟩) (Or.inl rfl)
      · cases h
  | init g raw =>
    simp only [step] at h
    cases hg : s.gens[g]? with
    | none => rw [hg] at h; cases h
    | some gs =>
      rw [hg] at h
      simp only at h
      split at h
      · cases hsc : storeCall s gs raw with
        | none => rw [hsc] at h; cases h
        | some t =>
          obtain ⟨resp, ads', used'⟩ := t
          rw [hsc] at h
          simp only [Option.some.injEq, Prod.mk.injEq] at h
          obtain ⟨rfl, -, -⟩ := h
          have hgi := i1 g gs hg
          obtain ⟨m1, m2, m3, m4⟩ := storeCall_spec hL hsc
          rcases m3 with rfl | rfl | ⟨c, rfl⟩
          · rw [(init_err gs.gen).1]
            simp only [show ((Out.errStore == Out.done) = false) from rfl, leaseOf, genSt_eta]
            exact inv_update hs hI hg m2 m1 (hgi.mono m2 m1) (Or.inl rfl) (fun hi => ⟨hi, Int.le_refl _⟩) (Or.inl rfl)
          · rw [(init_err gs.gen).2]
            simp only [show ((Out.errRange == Out.done) = false) from rfl, leaseOf, genSt_eta]
            exact inv_update hs hI hg m2 m1 (hgi.mono m2 m1) (Or.inl rfl) (fun hi => ⟨hi, Int.le_refl _⟩) (Or.inl rfl)
          · obtain ⟨rfl, rfl, a, ha, hacc, ha'⟩ := m4 c rfl
            obtain ⟨hfresh, hc⟩ := hL c rfl
            rw [init_ok hgi.1 hs hc]
            simp only [show ((Out.done == Out.done) = true) from rfl, Bool.or_true, leaseOf]
            refine inv_update hs hI hg m2 m1 ?_ (Or.inr ⟨c, rfl, hfresh⟩) ?_ (Or.inl rfl)
            · refine ⟨hgi.1, ?_, fun _ => ⟨List.mem_cons_self, holds_fresh hgi.1 hs hc, _, ha', Int.le_refl _⟩⟩
              intro c' hc'
              rcases List.mem_cons.mp hc' with rfl | hc'
              · exact ⟨List.mem_cons_self, hc⟩
              · exact ⟨m2 _ (hgi.2.1 c' hc').1, (hgi.2.1 c' hc').2⟩
            · intro hi
              refine ⟨rfl, ?_⟩
              have hab := accepted_above hgi hi ha hacc hfresh hc
              obtain ⟨-, ⟨-, -, -, k4⟩, -⟩ := hgi.2.2 hi
              have := seg_above hs.1 hab
              show gs.gen.lastID ≤ c * st
              omega
      · cases h
  | next g raw =>
    obtain ⟨hraw, gs₀, hg₀, hi⟩ := hL
    simp only [step] at h
    rw [hg₀] at h
    simp only at h
    have hgi := i1 g gs₀ hg₀
    obtain ⟨hcnt, hh, a₀, ha₀, hle₀⟩ := hgi.2.2 hi
    split at h
    · split at h
      · -- the store is asked: the segment is used up
        rename_i hneed
        have hend : gs₀.gen.lastID = (gs₀.gen.counter + 1) * st := by
          by_cases hlt : gs₀.gen.lastID < (gs₀.gen.counter + 1) * st
          · have := (next_inside hs hh (by omega) .errStore).2
            rw [this] at hneed; cases hneed
          · have := hh.2.2.2; omega
        obtain ⟨-, nok, nes, ner⟩ := next_reload hs hh hend
        cases hsc : storeCall s gs₀ raw with
        | none => rw [hsc] at h; cases h
        | some t =>
          obtain ⟨resp, ads', used'⟩ := t
          rw [hsc] at h
          simp only [Option.some.injEq, Prod.mk.injEq] at h
          obtain ⟨rfl, -, -⟩ := h
          obtain ⟨m1, m2, m3, m4⟩ := storeCall_spec hraw hsc
          rcases m3 with rfl | rfl | ⟨c, rfl⟩
          · rw [nes]
            simp only [leaseOf]
            have : ({ gs₀ with gen := gs₀.gen, leased := gs₀.leased } : GenSt) = gs₀ := by cases gs₀; rfl
            rw [this]
            exact inv_update hs hI hg₀ m2 m1 (hgi.mono m2 m1) (Or.inl rfl) (fun hi => ⟨hi, Int.le_refl _⟩) (Or.inl rfl)
          · rw [ner]
            simp only [leaseOf]
            have : ({ gs₀ with gen := gs₀.gen, leased := gs₀.leased } : GenSt) = gs₀ := by cases gs₀; rfl
            rw [this]
            exact inv_update hs hI hg₀ m2 m1 (hgi.mono m2 m1) (Or.inl rfl) (fun hi => ⟨hi, Int.le_refl _⟩) (Or.inl rfl)
          · obtain ⟨rfl, rfl, a, ha, hacc, ha'⟩ := m4 c rfl
            obtain ⟨hfresh, hc⟩ := hraw c rfl
            rw [nok c hc]
            simp only [leaseOf]
            have hab := accepted_above hgi hi ha hacc hfresh hc
            have hsa := seg_above hs.1 hab
            have e := seg_end c st
            have := hs.1
            refine inv_update hs hI hg₀ m2 m1 ?_ (Or.inr ⟨c, rfl, hfresh⟩) ?_
              (Or.inr ⟨c * st + 1, rfl, hi, hi, rfl, by omega, c, List.mem_cons_self, by omega, by omega⟩)
            · refine ⟨hgi.1, ?_, fun _ => ⟨List.mem_cons_self, ⟨hgi.1, hc, by simp only; omega, by simp only; omega⟩, _, ha', Int.le_refl _⟩⟩
              intro c' hc'
              rcases List.mem_cons.mp hc' with rfl | hc'
              · exact ⟨List.mem_cons_self, hc⟩
              · exact ⟨m2 _ (hgi.2.1 c' hc').1, (hgi.2.1 c' hc').2⟩
            · intro _
              exact ⟨hi, by simp only; omega⟩
      · -- inside the segment
        rename_i hneed
        have hin : gs₀.gen.lastID + 1 ≤ (gs₀.gen.counter + 1) * st := by
          by_cases hlt : gs₀.gen.lastID < (gs₀.gen.counter + 1) * st
          · omega
          · have hend : gs₀.gen.lastID = (gs₀.gen.counter + 1) * st := by have := hh.2.2.2; omega
            exact absurd (next_reload hs hh hend).1 hneed
        rw [(next_inside hs hh hin .errStore).1] at h
        simp only [Option.some.injEq, Prod.mk.injEq] at h
        obtain ⟨rfl, -, -⟩ := h
        obtain ⟨q1, q2, q3, q4⟩ := hh
        refine inv_update (gs' := { gs₀ with gen := { gs₀.gen with lastID := gs₀.gen.lastID + 1 } }) hs hI hg₀
          (fun c hc => hc) (AdsLe.refl _) ?_ (Or.inl rfl) (fun _ => ⟨hi, by simp only; omega⟩)
          (Or.inr ⟨gs₀.gen.lastID + 1, rfl, hi, hi, rfl, by omega, gs₀.gen.counter, hcnt, by omega, hin⟩)
        exact ⟨hgi.1, hgi.2.1, fun _ => ⟨hcnt, ⟨q1, q2, by simp only; omega, hin⟩, a₀, ha₀, hle₀⟩⟩
    · cases h

/-- the three ways a legal `Next` can go, with the resulting state spelled out -/
theorem step_next_cases (P : Params) {st : Int} (hs : StepOK st) {s s' : Sys} {g : Nat} {raw : Raw} {o : Out} {b : Bool}
    (hI : Inv st s) (hL : Legal P st s (.next g raw)) (h : step P s (.next g raw) = some (s', o, b)) :
    ∃ gs : GenSt, s.gens[g]? = some gs ∧ gs.alive = true ∧ gs.inited = true ∧ Holds st gs.gen ∧
    ((b = false ∧ gs.gen.lastID + 1 ≤ (gs.gen.counter + 1) * st ∧ o = .id (gs.gen.lastID + 1) ∧
        s'.used = s.used ∧ s'.ads = s.ads ∧ s'.log = (g, gs.gen.lastID + 1) :: s.log ∧
        s'.gens = s.gens.set g { gs with gen := { gs.gen with lastID := gs.gen.lastID + 1 } }) ∨
     (b = true ∧ gs.gen.lastID = (gs.gen.counter + 1) * st ∧ ∃ c, raw = .ok c ∧ gs.gen.counter < c ∧
        o = .id (c * st + 1) ∧ s'.used = c :: s.used ∧ s'.log = (g, c * st + 1) :: s.log ∧
        s'.gens = s.gens.set g { gs with gen := { gs.gen with counter := c, lastID := c * st + 1 }, leased := c :: gs.leased }) ∨
     (b = true ∧ gs.gen.lastID = (gs.gen.counter + 1) * st ∧
        ((o = .errStore ∧ (raw = .failBefore ∨ ∃ c, raw = .failAfter c)) ∨ (o = .errRange ∧ ∃ c, raw = .ok c)) ∧
        (raw = .failBefore → s'.used = s.used) ∧ s'.gens = s.gens ∧ s'.log = s.log)) := by
  obtain ⟨i1, i2, i3, i4⟩ := hI
  obtain ⟨hraw, gs₀, hg₀, hi⟩ := hL
  simp only [step] at h
  rw [hg₀] at h
  simp only at h
  have hgi := i1 g gs₀ hg₀
  obtain ⟨hcnt, hh, a₀, ha₀, hle₀⟩ := hgi.2.2 hi
  split at h
  · rename_i halive
    refine ⟨gs₀, hg₀, halive, hi, hh, ?_⟩
    split at h
    · rename_i hneed
      have hend : gs₀.gen.lastID = (gs₀.gen.counter + 1) * st := by
        by_cases hlt : gs₀.gen.lastID < (gs₀.gen.counter + 1) * st
        · have := (next_inside hs hh (by omega) .errStore).2
          rw [this] at hneed; cases hneed
        · have := hh.2.2.2; omega
      obtain ⟨-, nok, nes, ner⟩ := next_reload hs hh hend
      cases hsc : storeCall s gs₀ raw with
      | none => rw [hsc] at h; cases h
      | some t =>
        obtain ⟨resp, ads', used'⟩ := t
        rw [hsc] at h
        simp only [Option.some.injEq, Prod.mk.injEq] at h
        obtain ⟨rfl, rfl, rfl⟩ := h
        obtain ⟨m1, m2, m3, m4⟩ := storeCall_spec hraw hsc
        have hgeta : ({ gs₀ with gen := gs₀.gen, leased := gs₀.leased } : GenSt) = gs₀ := by cases gs₀; rfl
        have hfb : raw = .failBefore → used' = s.used := by
          intro hr; subst hr
          simp only [storeCall, ha₀, Adapter.incr, Raw.moved, Option.some.injEq, Prod.mk.injEq] at hsc
          exact hsc.2.2.symm
        have hkind : ∀ r : Resp, resp = r → (r = .errStore → raw = .failBefore ∨ ∃ c, raw = .failAfter c) ∧
            (r = .errRange → ∃ c, raw = .ok c) := by
          intro r hr
          cases raw with
          | failBefore => simp only [storeCall, ha₀, Adapter.incr, Option.some.injEq, Prod.mk.injEq] at hsc
                          exact ⟨fun _ => Or.inl rfl, fun h' => by rw [← hr, ← hsc.1] at h'; cases h'⟩
          | failAfter c => simp only [storeCall, ha₀, Adapter.incr, Option.some.injEq, Prod.mk.injEq] at hsc
                           exact ⟨fun _ => Or.inr ⟨c, rfl⟩, fun h' => by rw [← hr, ← hsc.1] at h'; cases h'⟩
          | ok c =>
            refine ⟨fun h' => ?_, fun _ => ⟨c, rfl⟩⟩
            simp only [storeCall, ha₀, Adapter.incr] at hsc
            split at hsc
            · simp only [Option.some.injEq, Prod.mk.injEq] at hsc; rw [← hr, ← hsc.1] at h'; cases h'
            · simp only [Option.some.injEq, Prod.mk.injEq] at hsc; rw [← hr, ← hsc.1] at h'; cases h'
        rcases m3 with rfl | rfl | ⟨c, rfl⟩
        · right; right
          rw [nes]
          exact ⟨rfl, hend, Or.inl ⟨rfl, (hkind _ rfl).1 rfl⟩, hfb, set_lookup_self hg₀, rfl⟩
        · right; right
          rw [ner]
          exact ⟨rfl, hend, Or.inr ⟨rfl, (hkind _ rfl).2 rfl⟩, hfb, set_lookup_self hg₀, rfl⟩
        · right; left
          obtain ⟨rfl, rfl, a, ha, hacc, ha'⟩ := m4 c rfl
          obtain ⟨hfresh, hc⟩ := hraw c rfl
          rw [nok c hc]
          exact ⟨rfl, hend, c, rfl, accepted_above hgi hi ha hacc hfresh hc, rfl, rfl, rfl, rfl⟩
    · rename_i hneed
      have hin : gs₀.gen.lastID + 1 ≤ (gs₀.gen.counter + 1) * st := by
        by_cases hlt : gs₀.gen.lastID < (gs₀.gen.counter + 1) * st
        · omega
        · have hend : gs₀.gen.lastID = (gs₀.gen.counter + 1) * st := by have := hh.2.2.2; omega
          exact absurd (next_reload hs hh hend).1 hneed
      rw [(next_inside hs hh hin .errStore).1] at h
      simp only [Option.some.injEq, Prod.mk.injEq] at h
      obtain ⟨rfl, rfl, rfl⟩ := h
      exact Or.inl ⟨rfl, hin, rfl, rfl, rfl, rfl, rfl⟩
  · cases h

/-- the two ways a legal `Init` can go -/
theorem step_init_cases (P : Params) {st : Int} (hs : StepOK st) {s s' : Sys} {g : Nat} {raw : Raw} {o : Out} {b : Bool}
    (hI : Inv st s) (hL : Legal P st s (.init g raw)) (h : step P s (.init g raw) = some (s', o, b)) :
    ∃ gs : GenSt, s.gens[g]? = some gs ∧ gs.alive = true ∧ b = true ∧
    ((∃ c, raw = .ok c ∧ o = .done ∧ s'.used = c :: s.used ∧ s'.log = s.log ∧
        s'.gens = s.gens.set g { gs with gen := { gs.gen with counter := c, lastID := c * st }, inited := true,
                                         leased := c :: gs.leased }) ∨
     ((o = .errStore ∨ o = .errRange) ∧ s'.gens = s.gens ∧ s'.log = s.log)) := by
  obtain ⟨i1, -, -, -⟩ := hI
  simp only [step] at h
  cases hg : s.gens[g]? with
  | none => rw [hg] at h; cases h
  | some gs =>
    rw [hg] at h
    simp only at h
    split at h
    · rename_i halive
      cases hsc : storeCall s gs raw with
      | none => rw [hsc] at h; cases h
      | some t =>
        obtain ⟨resp, ads', used'⟩ := t
        rw [hsc] at h
        simp only [Option.some.injEq, Prod.mk.injEq] at h
        obtain ⟨rfl, rfl, rfl⟩ := h
        have hgi := i1 g gs hg
        obtain ⟨m1, m2, m3, m4⟩ := storeCall_spec hL hsc
        refine ⟨gs, rfl, halive, rfl, ?_⟩
        rcases m3 with rfl | rfl | ⟨c, rfl⟩
        · right
          rw [(init_err gs.gen).1]
          exact ⟨Or.inl rfl, set_lookup_self (by rw [hg]; congr 1; exact (genSt_eta gs).symm), rfl⟩
        · right
          rw [(init_err gs.gen).2]
          exact ⟨Or.inr rfl, set_lookup_self (by rw [hg]; congr 1; exact (genSt_eta gs).symm), rfl⟩
        · left
          obtain ⟨rfl, rfl, -⟩ := m4 c rfl
          obtain ⟨-, hc⟩ := hL c rfl
          rw [init_ok hgi.1 hs hc]
          exact ⟨c, rfl, rfl, rfl, rfl, by simp [leaseOf]⟩
    · cases h

/-! ### histories -/

/-- run a list of actions from a state; `none` if one of them names a generator/adapter that does not exist or crashed -/
def runActs (P : Params) : Sys → List Action → Option Sys
  | s, [] => some s
  | s, a :: as => match step P s a with
    | some (s', _, _) => runActs P s' as
    | none => none

/-- every action of the history satisfies the hypotheses of the property in the state it is taken in -/
def LegalRun (P : Params) (st : Int) : Sys → List Action → Prop
  | _, [] => True
  | s, a :: as => Legal P st s a ∧ match step P s a with
    | some (s', _, _) => LegalRun P st s' as
    | none => True

theorem runActs_inv (P : Params) {st : Int} (hs : StepOK st) {s s' : Sys} {as : List Action}
    (hI : Inv st s) (hL : LegalRun P st s as) (h : runActs P s as = some s') : Inv st s' := by
  induction as generalizing s with
  | nil => simp only [runActs, Option.some.injEq] at h; exact h ▸ hI
  | cons a as ih =>
    simp only [runActs] at h
    obtain ⟨hl, hrest⟩ := hL
    cases hst : step P s a with
    | none => rw [hst] at h; cases h
    | some t =>
      obtain ⟨s₁, o, b⟩ := t
      rw [hst] at h hrest
      exact ih (step_inv P hs hI hl hst) hrest h

/-- the log only grows at its head -/
theorem step_log_suffix (P : Params) {s s' : Sys} {a : Action} {o : Out} {b : Bool}
    (h : step P s a = some (s', o, b)) : ∃ new, s'.log = new ++ s.log := by
  cases a with
  | newAdapter => simp only [step, Option.some.injEq, Prod.mk.injEq] at h; exact ⟨[], by rw [← h.1]; rfl⟩
  | create st' ad =>
    simp only [step] at h
    split at h
    · simp only [Option.some.injEq, Prod.mk.injEq] at h; exact ⟨[], by rw [← h.1]; rfl⟩
    · cases h
  | crash g =>
    simp only [step] at h
    split at h
    · split at h
      · simp only [Option.some.injEq, Prod.mk.injEq] at h; exact ⟨[], by rw [← h.1]; rfl⟩
      · cases h
    · cases h
  | init g raw =>
    simp only [step] at h
    split at h
    · split at h
      · split at h
        · cases h
        · simp only [Option.some.injEq, Prod.mk.injEq] at h; exact ⟨[], by rw [← h.1]; rfl⟩
      · cases h
    · cases h
  | next g raw =>
    simp only [step] at h
    split at h
    · split at h
      · split at h
        · split at h
          · cases h
          · simp only [Option.some.injEq, Prod.mk.injEq] at h
            rw [← h.1]
            simp only
            split
            · exact ⟨[_], rfl⟩
            · exact ⟨[], rfl⟩
        · simp only [Option.some.injEq, Prod.mk.injEq] at h
          rw [← h.1]
          simp only
          split
          · exact ⟨[_], rfl⟩
          · exact ⟨[], rfl⟩
      · cases h
    · cases h

theorem runActs_log_suffix (P : Params) {s s' : Sys} {as : List Action} (h : runActs P s as = some s') :
    ∃ new, s'.log = new ++ s.log := by
  induction as generalizing s with
  | nil => simp only [runActs, Option.some.injEq] at h; exact ⟨[], by rw [h]; rfl⟩
  | cons a as ih =>
    simp only [runActs] at h
    cases hst : step P s a with
    | none => rw [hst] at h; cases h
    | some t =>
      obtain ⟨s₁, o, b⟩ := t
      rw [hst] at h
      obtain ⟨n₁, h₁⟩ := step_log_suffix P hst
      obtain ⟨n₂, h₂⟩ := ih h
      exact ⟨n₂ ++ n₁, by rw [h₂, h₁, List.append_assoc]⟩

/-- a history: legal actions from the empty system (no adapter, no generator, nothing handed out) -/
def History (P : Params) (st : Int) (as : List Action) (s : Sys) : Prop :=
  LegalRun P st Sys.empty as ∧ runActs P Sys.empty as = some s

theorem history_inv (P : Params) {st : Int} (hs : StepOK st) {as : List Action} {s : Sys}
    (h : History P st as s) : Inv st s :=
  runActs_inv P hs (inv_empty st) h.1 h.2

/-- ids issued by generator `g`, in the order of issue (the log is kept newest first) -/
def issuedBy (s : Sys) (g : Nat) : List Int := (s.log.reverse.filter (fun e => e.1 == g)).map (·.2)

/-- all ids issued, in the order of issue -/
def issued (s : Sys) : List Int := s.log.reverse.map (·.2)

/-! ### decidability of the hypotheses (for the non-vacuity examples) -/

instance (st c : Int) : Decidable (CounterOK st c) := by unfold CounterOK; infer_instance
instance (st : Int) : Decidable (StepOK st) := by unfold StepOK; infer_instance

instance (st : Int) (s : Sys) (raw : Raw) : Decidable (RawOK st s raw) :=
  match raw with
  | .ok c => decidable_of_iff (c ∉ s.used ∧ CounterOK st c)
      ⟨fun h c' hc' => by cases hc'; exact h, fun h => h c rfl⟩
  | .failBefore => isTrue (fun c h => by cases h)
  | .failAfter _ => isTrue (fun c h => by cases h)

instance (s : Sys) (g : Nat) : Decidable (∃ gs : GenSt, s.gens[g]? = some gs ∧ gs.inited = true) :=
  match h : s.gens[g]? with
  | some gs => decidable_of_iff (gs.inited = true)
      ⟨fun hi => ⟨gs, rfl, hi⟩, fun ⟨gs', h1, h2⟩ => by cases h1; exact h2⟩
  | none => isFalse (fun ⟨_, h1, _⟩ => by cases h1)

instance (P : Params) (st : Int) (s : Sys) (a : Action) : Decidable (Legal P st s a) := by
  cases a <;> unfold Legal <;> infer_instance

instance instDecLegalRun (P : Params) (st : Int) : (s : Sys) → (as : List Action) → Decidable (LegalRun P st s as)
  | _, [] => isTrue trivial
  | s, a :: as =>
    match h : step P s a with
    | some (s', _, _) =>
      have : Decidable (LegalRun P st s' as) := instDecLegalRun P st s' as
      decidable_of_iff (Legal P st s a ∧ LegalRun P st s' as) (by simp only [LegalRun, h])
    | none => decidable_of_iff (Legal P st s a) (by simp only [LegalRun, h, and_true])

instance (P : Params) (st : Int) (as : List Action) (s : Sys) : Decidable (History P st as s) := by
  unfold History; infer_instance

/-! ### an example history (used by the non-vacuity examples of Props/C08.lean) -/
namespace Ex

/-- step 2, one shared adapter; generator 0 leases 3, generator 1's first `Init` fails, then leases 5;
generator 0 issues 7 and 8, its segment is used up: a store call that fails after moving to 6, a
value (4) the shared adapter's guard refuses, then counter 9 → id 19; generator 0 crashes, generator
2 is created in its place, leases 10 and issues 21; generator 1 issues 11. -/
def acts : List Action :=
  [.newAdapter, .create 2 0, .create 2 0, .init 0 (.ok 3), .init 1 .failBefore, .init 1 (.ok 5),
   .next 0 .failBefore, .next 0 .failBefore, .next 0 (.failAfter 6), .next 0 (.ok 4), .next 0 (.ok 9),
   .crash 0, .create 2 0, .init 2 (.ok 10), .next 2 .failBefore, .next 1 .failBefore]

def final : Sys :=
  { used := [10, 9, 4, 6, 5, 3], ads := [{ lastId := 10 }],
    gens := [{ gen := { step := 2, counter := 9, lastID := 19 }, ad := 0, inited := true, alive := false, leased := [9, 3] },
             { gen := { step := 2, counter := 5, lastID := 11 }, ad := 0, inited := true, alive := true, leased := [5] },
             { gen := { step := 2, counter := 10, lastID := 21 }, ad := 0, inited := true, alive := true, leased := [10] }],
    log := [(1, 11), (2, 21), (0, 19), (0, 8), (0, 7)] }

theorem hist : History params 2 acts final := by decide

end Ex

/-- the model's `wrap64` is the balanced remainder modulo 2^64, i.e. what `BitVec.toInt` of a 64-bit result is
(used by the `C08_tr_*` theorems) -/
theorem wrap64_eq_bmod (x : Int) : wrap64 x = x.bmod (2 ^ 64) := by
  unfold wrap64 Int.bmod two63 two64
  simp only [show ((2:Nat)^64 : Nat) = 18446744073709551616 from rfl]
  split <;> split <;> omega

end Fatchoy.C08
