/-
CRC-32 lemmas (C02, stretch): the bit step of the reflected CRC is linear over GF(2) and a zero
input bit maps non-zero states to non-zero states; hence flipping any single bit of a message of
any length changes its CRC-32.
-/
import Fatchoy.Model.Crc32
namespace Fatchoy.Crc32


theorem mask_xor (p q : Bool) : mask p ^^^ mask q = mask (p ^^ q) := by
  cases p <;> cases q <;> simp [mask]

theorem bitv_xor (p q : Bool) : bitv p ^^^ bitv q = bitv (p ^^ q) := by
  cases p <;> cases q <;> simp [bitv]

theorem xor4 (a b c d : BitVec 32) : (a ^^^ b) ^^^ (c ^^^ d) = (a ^^^ c) ^^^ (b ^^^ d) := by
  ext i; simp only [BitVec.getElem_xor]
  cases a[i] <;> cases b[i] <;> cases c[i] <;> cases d[i] <;> rfl

/-- the bit step is linear over GF(2) -/
theorem stepBit_xor (s t : BitVec 32) (a b : Bool) :
    stepBit (s ^^^ t) (a ^^ b) = stepBit s a ^^^ stepBit t b := by
  unfold stepBit
  rw [← bitv_xor, xor4 s t, BitVec.ushiftRight_xor_distrib, BitVec.getLsbD_xor, ← mask_xor, xor4]

/-- a zero input bit maps a non-zero state to a non-zero state -/
theorem stepBit_false_ne_zero (s : BitVec 32) (h : s ≠ 0#32) : stepBit s false ≠ 0#32 := by
  unfold stepBit
  simp only [bitv, BitVec.xor_zero, Bool.false_eq_true, ↓reduceIte]
  intro hc
  have hx : s >>> 1 = mask (s.getLsbD 0) := BitVec.xor_eq_zero_iff.mp hc
  have hn : (s >>> 1).toNat = s.toNat / 2 := by
    simp [BitVec.toNat_ushiftRight, Nat.shiftRight_eq_div_pow]
  have hlt := s.isLt
  cases hb : s.getLsbD 0 with
  | false =>
    rw [hb] at hx
    have h0 : (s >>> 1).toNat = 0 := by rw [hx]; rfl
    have hbit : s.toNat % 2 = 0 := by
      have := hb
      simp [BitVec.getLsbD, Nat.testBit_zero] at this
      omega
    apply h
    apply BitVec.eq_of_toNat_eq
    simp; omega
  | true =>
    rw [hb] at hx
    have h1 : (s >>> 1).toNat = 0xEDB88320 := by rw [hx]; rfl
    omega

def run (s : BitVec 32) (bits : List Bool) : BitVec 32 := bits.foldl stepBit s

theorem run_false_ne_zero (k : Nat) (s : BitVec 32) (h : s ≠ 0#32) : run s (List.replicate k false) ≠ 0#32 := by
  induction k generalizing s with
  | zero => simpa [run] using h
  | succ k ih =>
    simp only [run, List.replicate_succ, List.foldl_cons]
    exact ih _ (stepBit_false_ne_zero s h)

theorem run_zero_false (k : Nat) : run 0#32 (List.replicate k false) = 0#32 := by
  induction k with
  | zero => rfl
  | succ k ih =>
    simp only [run, List.replicate_succ, List.foldl_cons] at ih ⊢
    have : stepBit 0#32 false = 0#32 := by decide
    rw [this]; exact ih

/-- flip the bit at position `i` -/
def flipAt : List Bool → Nat → List Bool
  | [], _ => []
  | x :: xs, 0 => (!x) :: xs
  | x :: xs, i + 1 => x :: flipAt xs i

/-- a flip anywhere in the input changes the final state -/
theorem run_flipAt (bits : List Bool) (i : Nat) (hi : i < bits.length) (s : BitVec 32) :
    ∃ d, d ≠ 0#32 ∧ run s (flipAt bits i) = run s bits ^^^ d := by
  induction bits generalizing i s with
  | nil => simp at hi
  | cons x xs ih =>
    cases i with
    | zero =>
      simp only [flipAt, run, List.foldl_cons]
      -- stepBit s (!x) = stepBit s x ^^^ stepBit 0 true, then linear propagation of the difference
      have hstep : stepBit s (!x) = stepBit s x ^^^ stepBit 0#32 true := by
        have := stepBit_xor s 0#32 x true
        simp only [BitVec.xor_zero] at this
        rw [← this]; cases x <;> rfl
      rw [hstep]
      -- propagate: run (a ^^^ d) xs = run a xs ^^^ run d (zeros)
      have hlin : ∀ (l : List Bool) (a d : BitVec 32), run (a ^^^ d) l = run a l ^^^ run d (List.replicate l.length false) := by
        intro l
        induction l with
        | nil => intro a d; simp [run]
        | cons y ys ihl =>
          intro a d
          simp only [run, List.foldl_cons, List.length_cons, List.replicate_succ] at ihl ⊢
          have := stepBit_xor a d y false
          simp only [Bool.xor_false] at this
          rw [this]; exact ihl _ _
      refine ⟨run (stepBit 0#32 true) (List.replicate xs.length false), run_false_ne_zero _ _ (by decide), ?_⟩
      exact hlin xs _ _
    | succ i =>
      simp only [flipAt, run, List.foldl_cons]
      exact ih i (by simpa using hi) _




/-- the bits of a message in the order the CRC consumes them -/
def bitsOf : List UInt8 → List Bool
  | [] => []
  | b :: bs => byteBits b ++ bitsOf bs

theorem bitsOf_length (bs : List UInt8) : (bitsOf bs).length = 8 * bs.length := by
  induction bs with
  | nil => rfl
  | cons b bs ih => simp [bitsOf, byteBits, ih]; omega

theorem stepByte_eq (s : BitVec 32) (b : UInt8) : stepByte s b = run s (byteBits b) := rfl

theorem update_eq_run (s : BitVec 32) (bs : List UInt8) : update s bs = run s (bitsOf bs) := by
  induction bs generalizing s with
  | nil => rfl
  | cons b bs ih =>
    simp only [update, List.foldl_cons, bitsOf, run, List.foldl_append] at ih ⊢
    rw [ih]; rfl

/-- flip bit `k` (0 = least significant) of a byte -/
def flipByte (b : UInt8) (k : Nat) : UInt8 := UInt8.ofBitVec (b.toBitVec ^^^ (1#8 <<< k))

/-- flip bit `i` of a message: bit `i % 8` of byte `i / 8` -/
def flipBit : List UInt8 → Nat → List UInt8
  | [], _ => []
  | b :: bs, i => if i < 8 then flipByte b i :: bs else b :: flipBit bs (i - 8)

theorem byteBits_flip0 : ∀ v : BitVec 8,
    byteBits (flipByte (UInt8.ofBitVec v) 0) = flipAt (byteBits (UInt8.ofBitVec v)) 0 := by decide
theorem byteBits_flip1 : ∀ v : BitVec 8,
    byteBits (flipByte (UInt8.ofBitVec v) 1) = flipAt (byteBits (UInt8.ofBitVec v)) 1 := by decide
theorem byteBits_flip2 : ∀ v : BitVec 8,
    byteBits (flipByte (UInt8.ofBitVec v) 2) = flipAt (byteBits (UInt8.ofBitVec v)) 2 := by decide
theorem byteBits_flip3 : ∀ v : BitVec 8,
    byteBits (flipByte (UInt8.ofBitVec v) 3) = flipAt (byteBits (UInt8.ofBitVec v)) 3 := by decide
theorem byteBits_flip4 : ∀ v : BitVec 8,
    byteBits (flipByte (UInt8.ofBitVec v) 4) = flipAt (byteBits (UInt8.ofBitVec v)) 4 := by decide
theorem byteBits_flip5 : ∀ v : BitVec 8,
    byteBits (flipByte (UInt8.ofBitVec v) 5) = flipAt (byteBits (UInt8.ofBitVec v)) 5 := by decide
theorem byteBits_flip6 : ∀ v : BitVec 8,
    byteBits (flipByte (UInt8.ofBitVec v) 6) = flipAt (byteBits (UInt8.ofBitVec v)) 6 := by decide
theorem byteBits_flip7 : ∀ v : BitVec 8,
    byteBits (flipByte (UInt8.ofBitVec v) 7) = flipAt (byteBits (UInt8.ofBitVec v)) 7 := by decide

/-- flipping bit `k` of a byte flips exactly the `k`-th of its bits as the CRC consumes them
    (a complete table: 8 positions x 256 byte values, by evaluation) -/
theorem byteBits_flip (k : Nat) (hk : k < 8) (v : BitVec 8) :
    byteBits (flipByte (UInt8.ofBitVec v) k) = flipAt (byteBits (UInt8.ofBitVec v)) k := by
  have : k = 0 ∨ k = 1 ∨ k = 2 ∨ k = 3 ∨ k = 4 ∨ k = 5 ∨ k = 6 ∨ k = 7 := by omega
  rcases this with h | h | h | h | h | h | h | h <;> subst h
  · exact byteBits_flip0 v
  · exact byteBits_flip1 v
  · exact byteBits_flip2 v
  · exact byteBits_flip3 v
  · exact byteBits_flip4 v
  · exact byteBits_flip5 v
  · exact byteBits_flip6 v
  · exact byteBits_flip7 v

theorem flipAt_append_left (a b : List Bool) (i : Nat) (h : i < a.length) : flipAt (a ++ b) i = flipAt a i ++ b := by
  induction a generalizing i with
  | nil => simp at h
  | cons x xs ih =>
    cases i with
    | zero => rfl
    | succ i => simp only [List.cons_append, flipAt]; rw [ih i (by simpa using h)]

theorem flipAt_append_right (a b : List Bool) (i : Nat) (h : a.length ≤ i) : flipAt (a ++ b) i = a ++ flipAt b (i - a.length) := by
  induction a generalizing i with
  | nil => simp
  | cons x xs ih =>
    cases i with
    | zero => simp at h
    | succ i =>
      simp only [List.cons_append, flipAt, List.length_cons, Nat.add_sub_add_right]
      rw [ih i (by simpa using h)]

theorem bitsOf_flipBit (bs : List UInt8) (i : Nat) (h : i < 8 * bs.length) :
    bitsOf (flipBit bs i) = flipAt (bitsOf bs) i := by
  induction bs generalizing i with
  | nil => simp at h
  | cons b bs ih =>
    unfold flipBit
    by_cases h8 : i < 8
    · simp only [h8, if_true, bitsOf]
      have := byteBits_flip i h8 b.toBitVec
      simp only [UInt8.ofBitVec_toBitVec] at this
      rw [this, flipAt_append_left _ _ _ (by simp [byteBits]; exact h8)]
    · simp only [h8, if_false, bitsOf]
      rw [ih (i - 8) (by simp at h; omega), flipAt_append_right _ _ _ (by simp [byteBits]; omega)]
      simp [byteBits]

/-- flipping any single bit of a message of any length changes its CRC-32 -/
theorem crc32_flip (m : List UInt8) (i : Nat) (h : i < 8 * m.length) : crc32 (flipBit m i) ≠ crc32 m := by
  unfold crc32
  rw [update_eq_run, update_eq_run, bitsOf_flipBit m i h]
  obtain ⟨d, hd, hr⟩ := run_flipAt (bitsOf m) i (by rw [bitsOf_length]; exact h) INIT
  rw [hr]
  intro hc
  have h1 : run INIT (bitsOf m) ^^^ d = run INIT (bitsOf m) := by
    have := congrArg (fun x => ~~~x) hc
    simpa using this
  apply hd
  have : run INIT (bitsOf m) ^^^ (run INIT (bitsOf m) ^^^ d) = run INIT (bitsOf m) ^^^ run INIT (bitsOf m) := by rw [h1]
  rw [← BitVec.xor_assoc, BitVec.xor_self, BitVec.zero_xor] at this
  exact this



/-! ### the table-driven form equals the bitwise definition -/


theorem shift8_eq_run (s : BitVec 32) : shift8 s = run s (List.replicate 8 false) := rfl

/-- linearity of a run over equally long inputs, in the form used here: the state difference
    travels through zero inputs -/
theorem run_xor_zeros (l : List Bool) (a d : BitVec 32) :
    run (a ^^^ d) l = run a l ^^^ run d (List.replicate l.length false) := by
  induction l generalizing a d with
  | nil => simp [run]
  | cons y ys ih =>
    simp only [run, List.foldl_cons, List.length_cons, List.replicate_succ] at ih ⊢
    have := stepBit_xor a d y false
    simp only [Bool.xor_false] at this
    rw [this]; exact ih _ _

theorem shift8_xor (a d : BitVec 32) : shift8 (a ^^^ d) = shift8 a ^^^ shift8 d := by
  rw [shift8_eq_run, shift8_eq_run, shift8_eq_run]
  have := run_xor_zeros (List.replicate 8 false) a d
  simpa using this

/-- feeding the bits of a byte into the zero state = shifting the byte out of the state (complete table) -/
theorem run_zero_byte : ∀ v : BitVec 8,
    run 0#32 (byteBits (UInt8.ofBitVec v)) = shift8 (BitVec.ofNat 32 v.toNat) := by decide



theorem stepBit_false_even (t : BitVec 32) (h : t.getLsbD 0 = false) : stepBit t false = t >>> 1 := by
  unfold stepBit
  simp [bitv, mask, h, ← BitVec.getLsbD_eq_getElem]

theorem run_zeros_shift (k : Nat) (t : BitVec 32) (h : ∀ j, j < k → t.getLsbD j = false) :
    run t (List.replicate k false) = t >>> k := by
  induction k generalizing t with
  | zero => simp [run]
  | succ k ih =>
    simp only [run, List.replicate_succ, List.foldl_cons]
    rw [stepBit_false_even t (h 0 (by omega))]
    have := ih (t >>> 1) (fun j hj => by
      rw [BitVec.getLsbD_ushiftRight]; exact h (1 + j) (by omega))
    simp only [run] at this
    rw [this, ← BitVec.shiftRight_add, Nat.add_comm]

theorem split_lo_hi (x : BitVec 32) : x = (x &&& 0xff#32) ^^^ (x &&& 0xffffff00#32) := by
  have : ∀ a : Bool, ∀ b : Bool, a = ((a && b) ^^ (a && !b)) := by decide
  ext i hi
  simp only [← BitVec.getLsbD_eq_getElem, BitVec.getLsbD_xor, BitVec.getLsbD_and]
  have hm : (0xffffff00#32).getLsbD i = !(0xff#32).getLsbD i := by
    have : ∀ j : Fin 32, (0xffffff00#32).getLsbD j.val = !(0xff#32).getLsbD j.val := by decide
    exact this ⟨i, hi⟩
  rw [hm]; exact this _ _

theorem hi_low_zero (x : BitVec 32) (j : Nat) (hj : j < 8) : (x &&& 0xffffff00#32).getLsbD j = false := by
  rw [BitVec.getLsbD_and]
  have : ∀ j : Fin 8, (0xffffff00#32).getLsbD j.val = false := by decide
  rw [this ⟨j, hj⟩]; simp

theorem hi_shift (x : BitVec 32) : (x &&& 0xffffff00#32) >>> 8 = x >>> 8 := by
  ext i hi
  simp only [BitVec.getElem_ushiftRight, BitVec.getLsbD_and]
  by_cases h : 8 + i < 32
  · have : ∀ j : Fin 24, (0xffffff00#32).getLsbD (8 + j.val) = true := by decide
    rw [this ⟨i, by omega⟩]; simp
  · have h1 : x.getLsbD (8 + i) = false := BitVec.getLsbD_of_ge x (8 + i) (by omega)
    rw [h1]; simp

theorem table_get (i : Nat) (h : i < 256) : table[i]! = shift8 (BitVec.ofNat 32 i) := by
  have hs : table.size = 256 := by simp [table]
  rw [getElem!_pos table i (by rw [hs]; exact h)]
  simp [table]

theorem lo_lt (x : BitVec 32) : (x &&& 0xff#32).toNat < 256 := by
  rw [BitVec.toNat_and]
  exact Nat.lt_of_le_of_lt Nat.and_le_right (by decide)

/-- the table step (on bit vectors) is the eight bit steps -/
theorem stepByteB_eq (s : BitVec 32) (b : UInt8) : stepByteB s b = stepByte s b := by
  have h1 : stepByte s b = shift8 (s ^^^ BitVec.ofNat 32 b.toNat) := by
    rw [stepByte_eq]
    have := run_xor_zeros (byteBits b) 0#32 s
    rw [BitVec.zero_xor] at this
    rw [this]
    have hb := run_zero_byte b.toBitVec
    simp only [UInt8.ofBitVec_toBitVec] at hb
    rw [hb, shift8_xor, BitVec.xor_comm]
    rfl
  rw [h1]
  unfold stepByteB
  simp only
  generalize s ^^^ BitVec.ofNat 32 b.toNat = x
  rw [table_get _ (lo_lt x)]
  conv => rhs; rw [split_lo_hi x]
  rw [shift8_xor]
  congr 1
  · congr 1
    apply BitVec.eq_of_toNat_eq
    simp
  · rw [shift8_eq_run, run_zeros_shift 8 _ (hi_low_zero x), hi_shift]

theorem tableU_get (i : Nat) (h : i < 256) : (tableU[i]!).toBitVec = table[i]! := by
  have hs : table.size = 256 := by simp [table]
  have hu : tableU.size = 256 := by simp [tableU, hs]
  rw [getElem!_pos tableU i (by rw [hu]; exact h), getElem!_pos table i (by rw [hs]; exact h)]
  simp [tableU]

/-- the machine-word step is the bit-vector step -/
theorem stepByteT_eq (s : UInt32) (b : UInt8) : (stepByteT s b).toBitVec = stepByteB s.toBitVec b := by
  unfold stepByteT stepByteB
  simp only
  have hx : (s ^^^ b.toUInt32).toBitVec = s.toBitVec ^^^ BitVec.ofNat 32 b.toNat := by
    rw [UInt32.toBitVec_xor]
    congr 1
    apply BitVec.eq_of_toNat_eq
    simp [Nat.mod_eq_of_lt (Nat.lt_trans b.toNat_lt (by decide : 2 ^ 8 < 2 ^ 32))]
  have hidx : ((s ^^^ b.toUInt32) &&& 0xff).toNat = ((s.toBitVec ^^^ BitVec.ofNat 32 b.toNat) &&& 0xff#32).toNat := by
    rw [← hx]; rfl
  rw [UInt32.toBitVec_xor, hidx, tableU_get _ (lo_lt _)]
  congr 1
  rw [← hx]
  rfl

theorem updateT_eq (s : UInt32) (bs : List UInt8) : (updateT s bs).toBitVec = update s.toBitVec bs := by
  induction bs generalizing s with
  | nil => rfl
  | cons b bs ih =>
    show (updateT (stepByteT s b) bs).toBitVec = update (stepByte s.toBitVec b) bs
    rw [ih, stepByteT_eq, stepByteB_eq]

/-- the table-driven CRC-32 (machine words, one look-up per byte) is the bitwise CRC-32, for every input -/
theorem crc32_table_eq (bs : List UInt8) : crc32T bs = crc32 bs := by
  unfold crc32T crc32
  rw [updateT_eq]
  rfl

end Fatchoy.Crc32
