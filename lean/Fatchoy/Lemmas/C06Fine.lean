/-
C06 helper lemmas for the fine-grained transition systems (Model/C06Fine.lean): the invariant of the
client-side bookkeeping holds at every point INSIDE a tick, whatever client calls fall there.
-/
import Fatchoy.Lemmas.C06
import Fatchoy.Model.C06Fine
namespace Fatchoy.C05

/-! ## client calls, for either scheduler -/

/-- a client call touches only the front (table, id counter, request queues, cancelled marks) -/
theorem WS.client_step (G : Geom) {s s' : WS} {a : Act} {o : Out} {l : List Nat} (hc : a.isClient = true)
    (h : FrontOK s.f l) (hs : WS.step G s a = .ok s' o) :
    FrontOK s'.f l ∧ s'.w = s.w ∧ s'.f.log = s.f.log ∧ s.f.nextId ≤ s'.f.nextId ∧
    (∀ i, i ≤ s.f.nextId → (i ∈ s'.f.refer → i ∈ s.f.refer)) ∧ (∀ i ∈ s.f.cancelled, i ∈ s'.f.cancelled) := by
  cases a with
  | after d =>
    simp only [WS.step] at hs
    split at hs
    · cases hs
    · cases hs
      refine ⟨h.start d 0, rfl, rfl, ?_, ?_, fun i hi => hi⟩
      · rw [nextID_eq _ _ h]; exact Nat.le_succ _
      · intro i hi hm
        rw [nextID_eq _ _ h] at hm
        simp only [Front.start, List.mem_append, List.mem_singleton] at hm
        rcases hm with hm | hm
        · exact hm
        · omega
  | every p =>
    simp only [WS.step] at hs
    split at hs
    · cases hs
    · cases hs
      refine ⟨h.start 0 p, rfl, rfl, ?_, ?_, fun i hi => hi⟩
      · rw [nextID_eq _ _ h]; exact Nat.le_succ _
      · intro i hi hm
        rw [nextID_eq _ _ h] at hm
        simp only [Front.start, List.mem_append, List.mem_singleton] at hm
        rcases hm with hm | hm
        · exact hm
        · omega
  | cancel j =>
    simp only [WS.step] at hs
    split at hs
    · rename_i hin
      split at hs
      · cases hs
      · cases hs
        exact ⟨h.cancel hin, rfl, rfl, Nat.le_refl _, fun i _ hm => (List.mem_filter.mp hm).1,
          fun i hi => List.mem_append_left _ hi⟩
    · cases hs; exact ⟨h, rfl, rfl, Nat.le_refl _, fun i _ hm => hm, fun i hi => hi⟩
  | clock n => simp only [WS.step] at hs; cases hs; exact ⟨h, rfl, rfl, Nat.le_refl _, fun i _ hm => hm, fun i hi => hi⟩
  | add => simp [Act.isClient] at hc
  | del => simp [Act.isClient] at hc
  | tick => simp [Act.isClient] at hc

theorem HS.client_step (G : Geom) {s s' : HS} {a : Act} {o : Out} {l : List Nat} (hc : a.isClient = true)
    (h : FrontOK s.f l) (hs : HS.step G s a = .ok s' o) :
    FrontOK s'.f l ∧ s'.heap = s.heap ∧ s'.f.log = s.f.log ∧ s.f.nextId ≤ s'.f.nextId ∧
    (∀ i, i ≤ s.f.nextId → (i ∈ s'.f.refer → i ∈ s.f.refer)) ∧ (∀ i ∈ s.f.cancelled, i ∈ s'.f.cancelled) ∧
    (∀ i, i ≤ s.f.nextId → (i ∈ s'.f.addIds → i ∈ s.f.addIds)) := by
  cases a with
  | after d =>
    simp only [HS.step] at hs
    split at hs
    · cases hs
    · cases hs
      refine ⟨h.start _ 0, rfl, rfl, ?_, ?_, fun i hi => hi, ?_⟩
      · rw [nextID_eq _ _ h]; exact Nat.le_succ _
      · intro i hi hm
        rw [nextID_eq _ _ h] at hm
        simp only [Front.start, List.mem_append, List.mem_singleton] at hm
        rcases hm with hm | hm
        · exact hm
        · omega
      · intro i hi hm
        rw [nextID_eq _ _ h] at hm
        simp only [Front.addIds, Front.start, List.map_append, List.mem_append, List.map_cons, List.map_nil,
          List.mem_singleton] at hm
        rcases hm with hm | hm
        · exact hm
        · omega
  | every p =>
    simp only [HS.step] at hs
    split at hs
    · cases hs
    · cases hs
      refine ⟨h.start _ p, rfl, rfl, ?_, ?_, fun i hi => hi, ?_⟩
      · rw [nextID_eq _ _ h]; exact Nat.le_succ _
      · intro i hi hm
        rw [nextID_eq _ _ h] at hm
        simp only [Front.start, List.mem_append, List.mem_singleton] at hm
        rcases hm with hm | hm
        · exact hm
        · omega
      · intro i hi hm
        rw [nextID_eq _ _ h] at hm
        simp only [Front.addIds, Front.start, List.map_append, List.mem_append, List.map_cons, List.map_nil,
          List.mem_singleton] at hm
        rcases hm with hm | hm
        · exact hm
        · omega
  | cancel j =>
    simp only [HS.step] at hs
    split at hs
    · rename_i hin
      split at hs
      · cases hs
      · cases hs
        exact ⟨h.cancel hin, rfl, rfl, Nat.le_refl _, fun i _ hm => (List.mem_filter.mp hm).1,
          fun i hi => List.mem_append_left _ hi, fun i _ hm => hm⟩
    · cases hs; exact ⟨h, rfl, rfl, Nat.le_refl _, fun i _ hm => hm, fun i hi => hi, fun i _ hm => hm⟩
  | clock n =>
    simp only [HS.step] at hs; cases hs
    exact ⟨h, rfl, rfl, Nat.le_refl _, fun i _ hm => hm, fun i hi => hi, fun i _ hm => hm⟩
  | add => simp [Act.isClient] at hc
  | del => simp [Act.isClient] at hc
  | tick => simp [Act.isClient] at hc

/-! ## wheel -/

/-- ids the worker holds in its hands inside a tick and that are still pending: the detached chain, and a
periodic node between its decision and its re-arm (a one-shot node decided for delivery is no longer
pending: it left the table under the guard) -/
def WPc.ids : WPc → List Nat
  | .idle => []
  | .pass _ chain => Fatchoy.C05.ids chain
  | .send _ n chain => (if n.period > 0 then [n.id] else []) ++ Fatchoy.C05.ids chain

/-- ids in flight: decided for delivery, send not yet done -/
def WPc.inflight : WPc → List Nat
  | .send _ n _ => [n.id]
  | _ => []

structure WFInv (x : WF) : Prop where
  front : FrontOK x.s.f (ids x.s.w.nodes ++ x.pc.ids)
  fl_le : ∀ i ∈ x.pc.inflight, i ≤ x.s.f.nextId
  /-- a one-shot node decided for delivery has left the table -/
  fl_one : ∀ b n ns, x.pc = .send b n ns → n.period = 0 → n.id ∉ x.s.f.refer

theorem WFInv.init (off time : Nat) : WFInv (WF.init off time) := by
  refine ⟨?_, ?_, ?_⟩
  · simpa [WF.init, WS.init, ids, WPc.ids] using FrontOK.init
  · simp [WF.init, WPc.inflight]
  · intro b n ns h; simp [WF.init] at h

theorem ids_append (a b : List WNode) : ids (a ++ b) = ids a ++ ids b := by simp [ids]

theorem WF.detach_inv (G : Geom) (x : WF) (b : Bool) (h : FrontOK x.s.f (ids x.s.w.nodes)) :
    WFInv (x.detach G b) := by
  refine ⟨?_, ?_, ?_⟩
  · apply h.perm
    simp only [WF.detach, WPc.ids, ← ids_append]
    exact ((List.perm_append_comm.trans (List.filter_append_perm _ _)).map _).symm
  · simp [WF.detach, WPc.inflight]
  · intro b' n ns hpc; simp [WF.detach] at hpc

theorem WFInv.step (G : Geom) {x x' : WF} {a : FAct} {o : Out} (h : WFInv x)
    (hs : WF.step G x a = .ok x' o) : WFInv x' := by
  cases a with
  | cl a =>
    simp only [WF.step] at hs
    split at hs
    · rename_i hc
      cases hr : WS.step G x.s a with
      | ok s' o' =>
        rw [hr] at hs
        simp only [WF.lift, Res.ok.injEq] at hs
        obtain ⟨rfl, _⟩ := hs
        obtain ⟨c1, c2, _, c4, c5, _⟩ := WS.client_step G hc h.front hr
        refine ⟨by simp only [c2]; exact c1, fun i hi => Nat.le_trans (h.fl_le i hi) c4, ?_⟩
        intro b n ns hpc hp hm
        have hpc' : x.pc = .send b n ns := hpc
        exact h.fl_one b n ns hpc' hp (c5 n.id (h.fl_le n.id (by simp [hpc', WPc.inflight])) hm)
      | blocked => rw [hr] at hs; simp [WF.lift] at hs
      | panic => rw [hr] at hs; simp [WF.lift] at hs
    · cases hs
  | add =>
    simp only [WF.step] at hs
    split at hs
    · rename_i hpc
      have hfr : FrontOK x.s.f (ids x.s.w.nodes) := by simpa [hpc, WPc.ids] using h.front
      cases hr : WS.step G x.s .add with
      | ok s' o' =>
        rw [hr] at hs
        simp only [WF.lift, Res.ok.injEq] at hs
        obtain ⟨rfl, _⟩ := hs
        refine ⟨?_, by simp [hpc, WPc.inflight], by intro b n ns hp; simp [hpc] at hp⟩
        simp only [hpc, WPc.ids, List.append_nil]
        simp only [WS.step] at hr
        split at hr
        · cases hr; exact hfr
        · rename_i r q hq
          split at hr
          · rename_i hcan; cases hr; exact hfr.pop_add_drop hq hcan
          · split at hr
            · cases hr
            · cases hr
              apply (hfr.pop_add_link hq).perm
              simp only [ids, List.map_append, List.map_cons, List.map_nil]
              exact (List.perm_append_singleton ..).symm
      | blocked => rw [hr] at hs; simp [WF.lift] at hs
      | panic => rw [hr] at hs; simp [WF.lift] at hs
    all_goals cases hs
  | del =>
    simp only [WF.step] at hs
    split at hs
    · rename_i hpc
      have hfr : FrontOK x.s.f (ids x.s.w.nodes) := by simpa [hpc, WPc.ids] using h.front
      cases hr : WS.step G x.s .del with
      | ok s' o' =>
        rw [hr] at hs
        simp only [WF.lift, Res.ok.injEq] at hs
        obtain ⟨rfl, _⟩ := hs
        refine ⟨?_, by simp [hpc, WPc.inflight], by intro b n ns hp; simp [hpc] at hp⟩
        simp only [hpc, WPc.ids, List.append_nil]
        simp only [WS.step] at hr
        split at hr
        · cases hr; exact hfr
        · rename_i i q hq
          cases hr
          have := hfr.pop_del hq
          have e : ids (x.s.w.nodes.filter (fun n => n.id ≠ i)) = (ids x.s.w.nodes).filter (· ≠ i) := by
            simp only [ids, List.filter_map]; rfl
          show FrontOK _ (ids (x.s.w.nodes.filter (fun n => n.id ≠ i)))
          rw [e]; exact this
      | blocked => rw [hr] at hs; simp [WF.lift] at hs
      | panic => rw [hr] at hs; simp [WF.lift] at hs
    all_goals cases hs
  | begin =>
    simp only [WF.step] at hs
    split at hs
    · rename_i hpc
      cases hs
      exact WF.detach_inv G x false (by simpa [hpc, WPc.ids] using h.front)
    all_goals cases hs
  | next =>
    simp only [WF.step] at hs
    split at hs
    · cases hs
    · -- decide
      rename_i b n ns hpc
      have hfr := h.front
      rw [hpc] at hfr
      simp only [WPc.ids, ids, List.map_cons] at hfr
      have hfr' : FrontOK x.s.f (n.id :: (ids x.s.w.nodes ++ ids ns)) := hfr.perm List.perm_middle
      split at hs
      · rename_i hcan
        cases hs
        exact ⟨by simpa [WPc.ids] using hfr'.unlink_cancelled hcan, by simp [WPc.inflight],
          by intro b' n' ns' hp; simp at hp⟩
      · split at hs
        · rename_i hcan hper
          cases hs
          refine ⟨?_, ?_, ?_⟩
          · simp only [WPc.ids, hper, if_true]
            exact hfr
          · intro i hi
            simp only [WPc.inflight, List.mem_singleton] at hi
            subst hi
            exact hfr'.linked_le n.id (List.mem_cons_self ..)
          · intro b' n' ns' hp hp0
            simp only [WPc.send.injEq] at hp
            obtain ⟨_, rfl, _⟩ := hp
            omega
        · rename_i hcan hper
          cases hs
          have hp0 : ¬ n.period > 0 := hper
          refine ⟨?_, ?_, ?_⟩
          · simp only [WPc.ids, hp0, if_false, List.nil_append]
            exact hfr'.unlink_oneshot
          · intro i hi
            simp only [WPc.inflight, List.mem_singleton] at hi
            subst hi
            exact hfr'.linked_le n.id (List.mem_cons_self ..)
          · intro b' n' ns' hp _
            simp only [WPc.send.injEq] at hp
            obtain ⟨_, rfl, _⟩ := hp
            simp [Front.drop]
    · -- deliver
      rename_i b n ns hpc
      have hfr := h.front
      rw [hpc] at hfr
      simp only [WPc.ids] at hfr
      split at hs
      · rename_i hper
        cases hs
        refine ⟨?_, by simp [WPc.inflight], by intro b' n' ns' hp; simp at hp⟩
        simp only [hper, if_true] at hfr
        apply (hfr.deliver _ _ _).perm
        simp only [WPc.ids, ids, List.map_append, List.map_cons, List.map_nil, List.append_assoc,
          List.singleton_append]
        rfl
      · rename_i hper
        cases hs
        refine ⟨?_, by simp [WPc.inflight], by intro b' n' ns' hp; simp at hp⟩
        simp only [hper, if_false, List.nil_append] at hfr
        simpa [WPc.ids] using hfr.deliver _ _ _
    · -- counters, shiftWheels, detach the second bucket
      rename_i hpc
      cases hs
      apply WF.detach_inv
      have hfr : FrontOK x.s.f (ids x.s.w.nodes) := by simpa [hpc, WPc.ids, ids] using h.front
      exact hfr.perm (WS.mid_ids_perm G x.s).symm
    · rename_i hpc
      cases hs
      refine ⟨by simpa [hpc, WPc.ids, ids] using h.front, by simp [WPc.inflight], by intro b n ns hp; simp at hp⟩

/-- run a list of fine-grained steps; `none` when one of them is not enabled or panics -/
def WF.run (G : Geom) : WF → List FAct → Option WF
  | x, [] => some x
  | x, a :: as =>
    match WF.step G x a with
    | .ok x' _ => WF.run G x' as
    | _ => none

/-- reachable from a fresh wheel (any position, any time) by ANY sequence of client calls and worker
steps, client calls falling anywhere — also inside an expiry pass and between a decision and its send -/
inductive WFReach (G : Geom) : WF → Prop
  | init (off time : Nat) : WFReach G (WF.init off time)
  | step {x x' : WF} {a : FAct} {o : Out} : WFReach G x → WF.step G x a = .ok x' o → WFReach G x'

theorem WFReach.inv {G : Geom} {x : WF} (h : WFReach G x) : WFInv x := by
  induction h with
  | init off time => exact WFInv.init off time
  | step _ hs ih => exact ih.step G hs

theorem WFReach.run {G : Geom} : ∀ (acts : List FAct) {x x' : WF}, WFReach G x → WF.run G x acts = some x' → WFReach G x'
  | [], x, x', h, hr => by simp only [WF.run, Option.some.injEq] at hr; exact hr ▸ h
  | a :: as, x, x', h, hr => by
    simp only [WF.run] at hr
    split at hr
    · rename_i x1 o he
      exact WFReach.run as (h.step he) hr
    · cases hr

/-- a client call or a request handled between ticks changes neither the log nor the worker's position -/
theorem WS.step_log (G : Geom) {s s' : WS} {a : Act} {o : Out} (hnt : a ≠ .tick) (hs : WS.step G s a = .ok s' o) :
    s'.f.log = s.f.log ∧ ∀ i ∈ s.f.cancelled, i ∈ s'.f.cancelled := by
  cases a with
  | after d => simp only [WS.step] at hs; split at hs <;> cases hs; exact ⟨rfl, fun _ h => h⟩
  | every p => simp only [WS.step] at hs; split at hs <;> cases hs; exact ⟨rfl, fun _ h => h⟩
  | cancel j =>
    simp only [WS.step] at hs
    split at hs
    · split at hs
      · cases hs
      · cases hs; exact ⟨rfl, fun _ h => List.mem_append_left _ h⟩
    · cases hs; exact ⟨rfl, fun _ h => h⟩
  | add =>
    simp only [WS.step] at hs
    split at hs
    · cases hs; exact ⟨rfl, fun _ h => h⟩
    · split at hs
      · cases hs; exact ⟨rfl, fun _ h => h⟩
      · split at hs <;> cases hs; exact ⟨rfl, fun _ h => h⟩
  | del => simp only [WS.step] at hs; split at hs <;> cases hs <;> exact ⟨rfl, fun _ h => h⟩
  | tick => exact absurd rfl hnt
  | clock n => simp only [WS.step] at hs; cases hs; exact ⟨rfl, fun _ h => h⟩

theorem Act.client_ne_tick {a : Act} (h : a.isClient = true) : a ≠ .tick := by
  intro e; subst e; simp [Act.isClient] at h

/-- once a timer is cancelled, the only deliveries of it that can still be logged are the sends already in
flight: `budget` bounds (new log entries of `id`) + (its occurrences among the nodes in flight) -/
def WBudget (x : WF) (id : Nat) (e0 : List (Nat × Nat)) (k0 : Nat) : Prop :=
  id ∈ x.s.f.cancelled ∧ ∃ new, entries x.s.f.log id = new ++ e0 ∧ new.length + x.pc.inflight.count id ≤ k0

theorem wbudget_step (G : Geom) {x x' : WF} {a : FAct} {o : Out} {id : Nat} {e0 : List (Nat × Nat)} {k0 : Nat}
    (h : WBudget x id e0 k0) (hs : WF.step G x a = .ok x' o) : WBudget x' id e0 k0 := by
  obtain ⟨hc, new, he, hk⟩ := h
  cases a with
  | cl a =>
    simp only [WF.step] at hs
    split at hs
    · rename_i hcl
      cases hr : WS.step G x.s a with
      | ok s' o' =>
        rw [hr] at hs
        simp only [WF.lift, Res.ok.injEq] at hs
        obtain ⟨rfl, _⟩ := hs
        obtain ⟨l1, l2⟩ := WS.step_log G (Act.client_ne_tick hcl) hr
        exact ⟨l2 id hc, new, by simp only [l1]; exact he, hk⟩
      | blocked => rw [hr] at hs; simp [WF.lift] at hs
      | panic => rw [hr] at hs; simp [WF.lift] at hs
    · cases hs
  | add =>
    simp only [WF.step] at hs
    split at hs
    · cases hr : WS.step G x.s .add with
      | ok s' o' =>
        rw [hr] at hs
        simp only [WF.lift, Res.ok.injEq] at hs
        obtain ⟨rfl, _⟩ := hs
        obtain ⟨l1, l2⟩ := WS.step_log G (by simp) hr
        exact ⟨l2 id hc, new, by simp only [l1]; exact he, hk⟩
      | blocked => rw [hr] at hs; simp [WF.lift] at hs
      | panic => rw [hr] at hs; simp [WF.lift] at hs
    all_goals cases hs
  | del =>
    simp only [WF.step] at hs
    split at hs
    · cases hr : WS.step G x.s .del with
      | ok s' o' =>
        rw [hr] at hs
        simp only [WF.lift, Res.ok.injEq] at hs
        obtain ⟨rfl, _⟩ := hs
        obtain ⟨l1, l2⟩ := WS.step_log G (by simp) hr
        exact ⟨l2 id hc, new, by simp only [l1]; exact he, hk⟩
      | blocked => rw [hr] at hs; simp [WF.lift] at hs
      | panic => rw [hr] at hs; simp [WF.lift] at hs
    all_goals cases hs
  | begin =>
    simp only [WF.step] at hs
    split at hs
    · cases hs
      exact ⟨hc, new, he, by simp only [WF.detach, WPc.inflight, List.count_nil]; omega⟩
    all_goals cases hs
  | next =>
    simp only [WF.step] at hs
    split at hs
    · cases hs
    · rename_i b n ns hpc
      split at hs
      · cases hs
        exact ⟨hc, new, he, by simp only [WPc.inflight, List.count_nil]; omega⟩
      · rename_i hcan
        have hne : n.id ≠ id := fun e => hcan (e ▸ hc)
        have hcnt : ([n.id] : List Nat).count id = 0 := by
          simp [hne]
        split at hs
        · cases hs
          exact ⟨hc, new, he, by simp only [WPc.inflight, hcnt]; omega⟩
        · cases hs
          exact ⟨hc, new, he, by simp only [WPc.inflight, hcnt]; omega⟩
    · rename_i b n ns hpc
      rw [hpc] at hk
      simp only [WPc.inflight] at hk
      have key : id ∈ x.s.f.cancelled ∧ ∃ new', entries ((x.s.f.deliver x.s.w.time n.id n.deadline).log) id = new' ++ e0 ∧
          new'.length + 0 ≤ k0 := by
        refine ⟨hc, ?_⟩
        by_cases hid : n.id = id
        · refine ⟨(x.s.w.time, n.id) :: new, ?_, ?_⟩
          · simp only [Front.deliver, entries, List.filter_cons, hid, beq_self_eq_true, if_true, List.cons_append]
            exact congrArg _ he
          · simp only [hid, List.count_cons_self, List.count_nil, List.length_cons] at hk ⊢; omega
        · refine ⟨new, ?_, by omega⟩
          simp only [Front.deliver, entries, List.filter_cons]
          have : ((n.id == id) = false) := by simpa using hid
          simp only [this]
          exact he
      obtain ⟨k1, new', k2, k3⟩ := key
      split at hs
      · cases hs
        exact ⟨k1, new', k2, by simp only [WPc.inflight, List.count_nil]; omega⟩
      · cases hs
        exact ⟨k1, new', k2, by simp only [WPc.inflight, List.count_nil]; omega⟩
    · cases hs
      exact ⟨hc, new, he, by simp only [WF.detach, WPc.inflight, List.count_nil]; omega⟩
    · cases hs
      exact ⟨hc, new, he, by simp only [WPc.inflight, List.count_nil]; omega⟩

theorem wbudget_run (G : Geom) {id : Nat} {e0 : List (Nat × Nat)} {k0 : Nat} : ∀ (acts : List FAct) (x x' : WF),
    WBudget x id e0 k0 → WF.run G x acts = some x' → WBudget x' id e0 k0
  | [], x, x', h, hr => by simp only [WF.run, Option.some.injEq] at hr; exact hr ▸ h
  | a :: as, x, x', h, hr => by
    simp only [WF.run] at hr
    split at hr
    · rename_i x1 o he
      exact wbudget_run G as x1 x' (wbudget_step G h he) hr
    · cases hr

/-! ### the atomic tick is the uninterrupted sequence of fine-grained steps -/

/-- k consecutive steps of the worker inside a tick -/
def WF.nexts (G : Geom) : Nat → WF → Option WF
  | 0, x => some x
  | k + 1, x =>
    match WF.step G x .next with
    | .ok x' _ => WF.nexts G k x'
    | _ => none

theorem WF.nexts_add (G : Geom) : ∀ (a b : Nat) (x y z : WF), WF.nexts G a x = some y → WF.nexts G b y = some z →
    WF.nexts G (a + b) x = some z
  | 0, b, x, y, z, h1, h2 => by
    simp only [WF.nexts, Option.some.injEq] at h1; subst h1; simpa using h2
  | a + 1, b, x, y, z, h1, h2 => by
    have e : a + 1 + b = (a + b) + 1 := by omega
    rw [e]
    simp only [WF.nexts] at h1 ⊢
    split at h1
    · rename_i x1 o he
      exact WF.nexts_add G a b x1 y z h1 h2
    · cases h1

/-- the steps for one node of the chain = `expireOne` -/
theorem WF.node_steps (G : Geom) (b : Bool) (n : WNode) (ns : List WNode) (s : WS) :
    ∃ k, WF.nexts G k { s := s, pc := .pass b (n :: ns) } = some { s := WS.expireOne G s n, pc := .pass b ns } := by
  by_cases hc : n.id ∈ s.f.cancelled
  · exact ⟨1, by simp [WF.nexts, WF.step, hc, WS.expireOne]⟩
  · by_cases hp : n.period > 0
    · exact ⟨2, by simp [WF.nexts, WF.step, hc, hp, WS.expireOne]⟩
    · exact ⟨2, by simp [WF.nexts, WF.step, hc, hp, WS.expireOne, Front.deliver, Front.drop]⟩

/-- one pass over a detached chain = `expireList` -/
theorem WF.pass_steps (G : Geom) (b : Bool) : ∀ (chain : List WNode) (s : WS),
    ∃ k, WF.nexts G k { s := s, pc := .pass b chain } = some { s := WS.expireList G s chain, pc := .pass b [] }
  | [], s => ⟨0, rfl⟩
  | n :: ns, s => by
    obtain ⟨k1, h1⟩ := WF.node_steps G b n ns s
    obtain ⟨k2, h2⟩ := WF.pass_steps G b ns (WS.expireOne G s n)
    exact ⟨k1 + k2, WF.nexts_add G _ _ _ _ _ h1 h2⟩

/-- from "worker idle", `begin` followed by enough uninterrupted `next` steps is exactly the atomic `tick`
of Model/C05Sched.lean (which the theorems of C05 are about) -/
theorem WF.fine_tick (G : Geom) (s : WS) :
    ∃ k, WF.nexts G k (WF.detach G { s := s, pc := .idle } false) = some { s := WS.tick G s, pc := .idle } := by
  obtain ⟨k1, h1⟩ := WF.pass_steps G false (s.w.nodes.filter (Wheel.inBucket 0 (s.w.cur G % G.nearSize)))
    { s with w := { s.w with nodes := s.w.nodes.filter (fun n => !Wheel.inBucket 0 (s.w.cur G % G.nearSize) n) } }
  have e1 : WS.expireList G
      { s with w := { s.w with nodes := s.w.nodes.filter (fun n => !Wheel.inBucket 0 (s.w.cur G % G.nearSize) n) } }
      (s.w.nodes.filter (Wheel.inBucket 0 (s.w.cur G % G.nearSize))) = WS.expire G s := rfl
  rw [e1] at h1
  let s2 := WS.mid G (WS.expire G s)
  obtain ⟨k2, h2⟩ := WF.pass_steps G true (s2.w.nodes.filter (Wheel.inBucket 0 (s2.w.cur G % G.nearSize)))
    { s2 with w := { s2.w with nodes := s2.w.nodes.filter (fun n => !Wheel.inBucket 0 (s2.w.cur G % G.nearSize) n) } }
  have e2 : WS.expireList G
      { s2 with w := { s2.w with nodes := s2.w.nodes.filter (fun n => !Wheel.inBucket 0 (s2.w.cur G % G.nearSize) n) } }
      (s2.w.nodes.filter (Wheel.inBucket 0 (s2.w.cur G % G.nearSize))) = WS.expire G s2 := rfl
  rw [e2] at h2
  have hmid : WF.nexts G 1 { s := WS.expire G s, pc := .pass false [] } =
      some { s := { s2 with w := { s2.w with nodes := s2.w.nodes.filter (fun n => !Wheel.inBucket 0 (s2.w.cur G % G.nearSize) n) } },
             pc := .pass true (s2.w.nodes.filter (Wheel.inBucket 0 (s2.w.cur G % G.nearSize))) } := rfl
  have hend : WF.nexts G 1 { s := WS.expire G s2, pc := .pass true [] } = some { s := WS.expire G s2, pc := .idle } := rfl
  have h12 := WF.nexts_add G _ _ _ _ _ h1 hmid
  have h123 := WF.nexts_add G _ _ _ _ _ h12 h2
  have h1234 := WF.nexts_add G _ _ _ _ _ h123 hend
  exact ⟨_, h1234⟩

/-! ## heap -/

/-- ids in flight: decided for delivery by `trigger`, send not yet done -/
def HPc.inflight : HPc → List Nat
  | .idle => []
  | .trig _ _ exp => exp.map (·.1)
  | .sends _ rest => rest.map (·.1)

structure HFInv (x : HF) : Prop where
  sorted : HSorted x.s.heap
  front : FrontOK x.s.f (hids x.s.heap)
  /-- `maxId` was the id counter when the tick began and the heap only changes in the worker's hands -/
  trig_le : ∀ now maxId exp, x.pc = .trig now maxId exp → ∀ n ∈ x.s.heap, n.id ≤ maxId
  fl_le : ∀ i ∈ x.pc.inflight, i ≤ x.s.f.nextId
  fl_q : ∀ i ∈ x.pc.inflight, i ∉ x.s.f.addIds

theorem HFInv.init (time : Nat) : HFInv (HF.init time) := by
  refine ⟨List.Pairwise.nil, by simpa [HF.init, HS.init, hids] using FrontOK.init, ?_, ?_, ?_⟩
  · intro now maxId exp h; simp [HF.init] at h
  · simp [HF.init, HPc.inflight]
  · simp [HF.init, HPc.inflight]

theorem HFInv.hinv {x : HF} (h : HFInv x) : HInv x.s := ⟨h.sorted, h.front⟩

theorem HFInv.step (G : Geom) {x x' : HF} {a : FAct} {o : Out} (h : HFInv x)
    (hs : HF.step G x a = .ok x' o) : HFInv x' := by
  cases a with
  | cl a =>
    simp only [HF.step] at hs
    split at hs
    · rename_i hc
      cases hr : HS.step G x.s a with
      | ok s' o' =>
        rw [hr] at hs
        simp only [HF.lift, Res.ok.injEq] at hs
        obtain ⟨rfl, _⟩ := hs
        obtain ⟨c1, c2, _, c4, _, _, c7⟩ := HS.client_step G hc h.front hr
        refine ⟨by simp only [c2]; exact h.sorted, by simp only [c2]; exact c1, ?_,
          fun i hi => Nat.le_trans (h.fl_le i hi) c4, fun i hi hm => h.fl_q i hi (c7 i (h.fl_le i hi) hm)⟩
        intro now maxId exp hpc n hn
        simp only [c2] at hn
        exact h.trig_le now maxId exp hpc n hn
      | blocked => rw [hr] at hs; simp [HF.lift] at hs
      | panic => rw [hr] at hs; simp [HF.lift] at hs
    · cases hs
  | add =>
    simp only [HF.step] at hs
    split at hs
    · rename_i hpc
      cases hr : HS.step G x.s .add with
      | ok s' o' =>
        rw [hr] at hs
        simp only [HF.lift, Res.ok.injEq] at hs
        obtain ⟨rfl, _⟩ := hs
        have hi := h.hinv.step G hr
        exact ⟨hi.sorted, hi.front, by intro now maxId exp hp; simp [hpc] at hp, by simp [hpc, HPc.inflight],
          by simp [hpc, HPc.inflight]⟩
      | blocked => rw [hr] at hs; simp [HF.lift] at hs
      | panic => rw [hr] at hs; simp [HF.lift] at hs
    all_goals cases hs
  | del =>
    simp only [HF.step] at hs
    split at hs
    · rename_i hpc
      cases hr : HS.step G x.s .del with
      | ok s' o' =>
        rw [hr] at hs
        simp only [HF.lift, Res.ok.injEq] at hs
        obtain ⟨rfl, _⟩ := hs
        have hi := h.hinv.step G hr
        exact ⟨hi.sorted, hi.front, by intro now maxId exp hp; simp [hpc] at hp, by simp [hpc, HPc.inflight],
          by simp [hpc, HPc.inflight]⟩
      | blocked => rw [hr] at hs; simp [HF.lift] at hs
      | panic => rw [hr] at hs; simp [HF.lift] at hs
    all_goals cases hs
  | begin =>
    simp only [HF.step] at hs
    split at hs
    · cases hs
      refine ⟨h.sorted, h.front, ?_, by simp [HPc.inflight], by simp [HPc.inflight]⟩
      intro now maxId exp hp n hn
      simp only [HPc.trig.injEq] at hp
      obtain ⟨_, rfl, _⟩ := hp
      exact h.front.linked_le n.id (mem_hids.mpr ⟨n, hn, rfl⟩)
    all_goals cases hs
  | next =>
    simp only [HF.step] at hs
    split at hs
    · cases hs
    · rename_i now maxId exp hpc
      have hfl : ∀ i ∈ exp.map (·.1), i ≤ x.s.f.nextId ∧ i ∉ x.s.f.addIds := fun i hi =>
        ⟨h.fl_le i (by simpa [hpc, HPc.inflight] using hi), h.fl_q i (by simpa [hpc, HPc.inflight] using hi)⟩
      split at hs
      · cases hs
        exact ⟨h.sorted, h.front, by intro a b c hp; simp at hp,
          fun i hi => (hfl i (by simpa [HPc.inflight] using hi)).1, fun i hi => (hfl i (by simpa [HPc.inflight] using hi)).2⟩
      · rename_i n rest hh
        have hle := h.trig_le now maxId exp hpc
        have hfr := h.front
        have hso := h.sorted
        rw [hh] at hle hfr hso
        simp only [hids, List.map_cons] at hfr
        have hso' := (List.pairwise_cons.mp hso).2
        have hnle : n.id ≤ x.s.f.nextId := hfr.linked_le n.id (List.mem_cons_self ..)
        have hnq : n.id ∉ x.s.f.addIds := by
          have hn := hfr.nodup
          rw [List.nodup_append] at hn
          exact fun hm => hn.2.2 n.id hm n.id (List.mem_cons_self ..) rfl
        split at hs
        · cases hs
          exact ⟨h.sorted, h.front, by intro a b c hp; simp at hp,
            fun i hi => (hfl i (by simpa [HPc.inflight] using hi)).1, fun i hi => (hfl i (by simpa [HPc.inflight] using hi)).2⟩
        · split at hs
          · cases hs
          · split at hs
            · rename_i hcan
              cases hs
              refine ⟨hso', hfr.unlink_cancelled hcan, ?_,
                fun i hi => (hfl i (by simpa [hpc, HPc.inflight] using hi)).1,
                fun i hi => (hfl i (by simpa [hpc, HPc.inflight] using hi)).2⟩
              intro a b c hp m hm
              rw [hpc] at hp
              simp only [HPc.trig.injEq] at hp
              obtain ⟨_, rfl, _⟩ := hp
              exact hle m (List.mem_cons_of_mem _ hm)
            · split at hs
              · cases hs
                refine ⟨hinsert_sorted _ _ hso', ?_, ?_, ?_, ?_⟩
                · apply hfr.perm
                  exact ((hinsert_perm { n with deadline := now + n.period } rest).map (·.id)).symm
                · intro a b c hp m hm
                  simp only [HPc.trig.injEq] at hp
                  obtain ⟨_, rfl, _⟩ := hp
                  rcases List.mem_cons.mp ((hinsert_perm _ _).mem_iff.mp hm) with rfl | hm
                  · exact hle n (List.mem_cons_self ..)
                  · exact hle m (List.mem_cons_of_mem _ hm)
                · intro i hi
                  simp only [HPc.inflight, List.map_append, List.mem_append, List.map_cons, List.map_nil,
                    List.mem_singleton] at hi
                  rcases hi with hi | rfl
                  · exact (hfl i hi).1
                  · exact hnle
                · intro i hi
                  simp only [HPc.inflight, List.map_append, List.mem_append, List.map_cons, List.map_nil,
                    List.mem_singleton] at hi
                  rcases hi with hi | rfl
                  · exact (hfl i hi).2
                  · exact hnq
              · cases hs
                refine ⟨hso', hfr.unlink_oneshot, ?_, ?_, ?_⟩
                · intro a b c hp m hm
                  simp only [HPc.trig.injEq] at hp
                  obtain ⟨_, rfl, _⟩ := hp
                  exact hle m (List.mem_cons_of_mem _ hm)
                · intro i hi
                  simp only [HPc.inflight, List.map_append, List.mem_append, List.map_cons, List.map_nil,
                    List.mem_singleton] at hi
                  rcases hi with hi | rfl
                  · exact (hfl i hi).1
                  · exact hnle
                · intro i hi
                  simp only [HPc.inflight, List.map_append, List.mem_append, List.map_cons, List.map_nil,
                    List.mem_singleton] at hi
                  rcases hi with hi | rfl
                  · exact (hfl i hi).2
                  · exact hnq
    · rename_i now p rest hpc
      cases hs
      refine ⟨h.sorted, h.front.deliver _ _ _, by intro a b c hp; simp at hp, ?_, ?_⟩
      · intro i hi
        exact h.fl_le i (by simp only [hpc, HPc.inflight, List.map_cons]; exact List.mem_cons_of_mem _ (by simpa [HPc.inflight] using hi))
      · intro i hi
        exact h.fl_q i (by simp only [hpc, HPc.inflight, List.map_cons]; exact List.mem_cons_of_mem _ (by simpa [HPc.inflight] using hi))
    · cases hs
      exact ⟨h.sorted, h.front, by intro a b c hp; simp at hp, by simp [HPc.inflight], by simp [HPc.inflight]⟩

def HF.run (G : Geom) : HF → List FAct → Option HF
  | x, [] => some x
  | x, a :: as =>
    match HF.step G x a with
    | .ok x' _ => HF.run G x' as
    | _ => none

/-- reachable from a fresh heap scheduler by ANY sequence of client calls and worker steps, client calls
falling anywhere — also between two decisions of `trigger` and between the decisions and the sends -/
inductive HFReach (G : Geom) : HF → Prop
  | init (time : Nat) : HFReach G (HF.init time)
  | step {x x' : HF} {a : FAct} {o : Out} : HFReach G x → HF.step G x a = .ok x' o → HFReach G x'

theorem HFReach.inv {G : Geom} {x : HF} (h : HFReach G x) : HFInv x := by
  induction h with
  | init time => exact HFInv.init time
  | step _ hs ih => exact ih.step G hs

theorem HFReach.run {G : Geom} : ∀ (acts : List FAct) {x x' : HF}, HFReach G x → HF.run G x acts = some x' → HFReach G x'
  | [], x, x', h, hr => by simp only [HF.run, Option.some.injEq] at hr; exact hr ▸ h
  | a :: as, x, x', h, hr => by
    simp only [HF.run] at hr
    split at hr
    · rename_i x1 o he
      exact HFReach.run as (h.step he) hr
    · cases hr

theorem HS.step_log (G : Geom) {s s' : HS} {a : Act} {o : Out} (hnt : a ≠ .tick) (hs : HS.step G s a = .ok s' o) :
    s'.f.log = s.f.log ∧ ∀ i ∈ s.f.cancelled, i ∈ s'.f.cancelled := by
  cases a with
  | after d => simp only [HS.step] at hs; split at hs <;> cases hs; exact ⟨rfl, fun _ h => h⟩
  | every p => simp only [HS.step] at hs; split at hs <;> cases hs; exact ⟨rfl, fun _ h => h⟩
  | cancel j =>
    simp only [HS.step] at hs
    split at hs
    · split at hs
      · cases hs
      · cases hs; exact ⟨rfl, fun _ h => List.mem_append_left _ h⟩
    · cases hs; exact ⟨rfl, fun _ h => h⟩
  | add =>
    simp only [HS.step] at hs
    split at hs
    · cases hs; exact ⟨rfl, fun _ h => h⟩
    · split at hs <;> cases hs <;> exact ⟨rfl, fun _ h => h⟩
  | del => simp only [HS.step] at hs; split at hs <;> cases hs <;> exact ⟨rfl, fun _ h => h⟩
  | tick => exact absurd rfl hnt
  | clock n => simp only [HS.step] at hs; cases hs; exact ⟨rfl, fun _ h => h⟩

def HBudget (x : HF) (id : Nat) (e0 : List (Nat × Nat)) (k0 : Nat) : Prop :=
  id ∈ x.s.f.cancelled ∧ ∃ new, entries x.s.f.log id = new ++ e0 ∧ new.length + x.pc.inflight.count id ≤ k0

theorem hbudget_step (G : Geom) {x x' : HF} {a : FAct} {o : Out} {id : Nat} {e0 : List (Nat × Nat)} {k0 : Nat}
    (h : HBudget x id e0 k0) (hs : HF.step G x a = .ok x' o) : HBudget x' id e0 k0 := by
  obtain ⟨hc, new, he, hk⟩ := h
  cases a with
  | cl a =>
    simp only [HF.step] at hs
    split at hs
    · rename_i hcl
      cases hr : HS.step G x.s a with
      | ok s' o' =>
        rw [hr] at hs
        simp only [HF.lift, Res.ok.injEq] at hs
        obtain ⟨rfl, _⟩ := hs
        obtain ⟨l1, l2⟩ := HS.step_log G (Act.client_ne_tick hcl) hr
        exact ⟨l2 id hc, new, by simp only [l1]; exact he, hk⟩
      | blocked => rw [hr] at hs; simp [HF.lift] at hs
      | panic => rw [hr] at hs; simp [HF.lift] at hs
    · cases hs
  | add =>
    simp only [HF.step] at hs
    split at hs
    · cases hr : HS.step G x.s .add with
      | ok s' o' =>
        rw [hr] at hs
        simp only [HF.lift, Res.ok.injEq] at hs
        obtain ⟨rfl, _⟩ := hs
        obtain ⟨l1, l2⟩ := HS.step_log G (by simp) hr
        exact ⟨l2 id hc, new, by simp only [l1]; exact he, hk⟩
      | blocked => rw [hr] at hs; simp [HF.lift] at hs
      | panic => rw [hr] at hs; simp [HF.lift] at hs
    all_goals cases hs
  | del =>
    simp only [HF.step] at hs
    split at hs
    · cases hr : HS.step G x.s .del with
      | ok s' o' =>
        rw [hr] at hs
        simp only [HF.lift, Res.ok.injEq] at hs
        obtain ⟨rfl, _⟩ := hs
        obtain ⟨l1, l2⟩ := HS.step_log G (by simp) hr
        exact ⟨l2 id hc, new, by simp only [l1]; exact he, hk⟩
      | blocked => rw [hr] at hs; simp [HF.lift] at hs
      | panic => rw [hr] at hs; simp [HF.lift] at hs
    all_goals cases hs
  | begin =>
    simp only [HF.step] at hs
    split at hs
    · cases hs
      exact ⟨hc, new, he, by simp only [HPc.inflight, List.map_nil, List.count_nil]; omega⟩
    all_goals cases hs
  | next =>
    simp only [HF.step] at hs
    split at hs
    · cases hs
    · rename_i now maxId exp hpc
      rw [hpc] at hk
      simp only [HPc.inflight] at hk
      split at hs
      · cases hs; exact ⟨hc, new, he, by simpa [HPc.inflight] using hk⟩
      · rename_i n rest hh
        split at hs
        · cases hs; exact ⟨hc, new, he, by simpa [HPc.inflight] using hk⟩
        · split at hs
          · cases hs
          · split at hs
            · cases hs; exact ⟨hc, new, he, by simpa [hpc, HPc.inflight] using hk⟩
            · rename_i hcan
              have hne : n.id ≠ id := fun e => hcan (e ▸ hc)
              have hcnt : ((exp ++ [(n.id, n.deadline)]).map (·.1)).count id = (exp.map (·.1)).count id := by
                simp [List.count_append, hne]
              split at hs
              · cases hs
                exact ⟨hc, new, he, by simp only [HPc.inflight, hcnt]; exact hk⟩
              · cases hs
                exact ⟨hc, new, by simpa [Front.drop] using he, by simp only [HPc.inflight, hcnt]; exact hk⟩
    · rename_i now p rest hpc
      rw [hpc] at hk
      simp only [HPc.inflight, List.map_cons] at hk
      cases hs
      refine ⟨hc, ?_⟩
      by_cases hid : p.1 = id
      · refine ⟨(now, p.1) :: new, ?_, ?_⟩
        · simp only [Front.deliver, entries, List.filter_cons, hid, beq_self_eq_true, if_true, List.cons_append]
          exact congrArg _ he
        · simp only [hid, List.count_cons_self, List.length_cons, HPc.inflight] at hk ⊢; omega
      · refine ⟨new, ?_, ?_⟩
        · simp only [Front.deliver, entries, List.filter_cons]
          have : ((p.1 == id) = false) := by simpa using hid
          simp only [this]
          exact he
        · have : (p.1 :: rest.map (·.1)).count id = (rest.map (·.1)).count id := by
            simp [hid]
          simp only [HPc.inflight]; omega
    · cases hs
      exact ⟨hc, new, he, by simp only [HPc.inflight, List.count_nil]; omega⟩

theorem hbudget_run (G : Geom) {id : Nat} {e0 : List (Nat × Nat)} {k0 : Nat} : ∀ (acts : List FAct) (x x' : HF),
    HBudget x id e0 k0 → HF.run G x acts = some x' → HBudget x' id e0 k0
  | [], x, x', h, hr => by simp only [HF.run, Option.some.injEq] at hr; exact hr ▸ h
  | a :: as, x, x', h, hr => by
    simp only [HF.run] at hr
    split at hr
    · rename_i x1 o he
      exact hbudget_run G as x1 x' (hbudget_step G h he) hr
    · cases hr

/-! ### the heap's atomic tick is the uninterrupted sequence of fine-grained steps -/

def HF.nexts (G : Geom) : Nat → HF → Option HF
  | 0, x => some x
  | k + 1, x =>
    match HF.step G x .next with
    | .ok x' _ => HF.nexts G k x'
    | _ => none

theorem HF.nexts_add (G : Geom) : ∀ (a b : Nat) (x y z : HF), HF.nexts G a x = some y → HF.nexts G b y = some z →
    HF.nexts G (a + b) x = some z
  | 0, b, x, y, z, h1, h2 => by
    simp only [HF.nexts, Option.some.injEq] at h1; subst h1; simpa using h2
  | a + 1, b, x, y, z, h1, h2 => by
    have e : a + 1 + b = (a + b) + 1 := by omega
    rw [e]
    simp only [HF.nexts] at h1 ⊢
    split at h1
    · rename_i x1 o he
      exact HF.nexts_add G a b x1 y z h1 h2
    · cases h1

/-- the loop of `trigger`, step by step -/
theorem HF.trig_steps (G : Geom) (now maxId : Nat) : ∀ (fuel : Nat) (s : HS) (acc : List (Nat × Nat)) (s' : HS)
    (acc' : List (Nat × Nat)), HS.triggerLoop now maxId fuel s acc = some (s', acc') →
    ∃ k, HF.nexts G k { s := s, pc := .trig now maxId acc } = some { s := s', pc := .sends now acc' } := by
  intro fuel
  induction fuel with
  | zero => intro s acc s' acc' h; simp [HS.triggerLoop] at h
  | succ fuel ih =>
    intro s acc s' acc' h
    simp only [HS.triggerLoop] at h
    split at h
    · rename_i hh
      simp only [Option.some.injEq, Prod.mk.injEq] at h
      obtain ⟨rfl, rfl⟩ := h
      exact ⟨1, by simp [HF.nexts, HF.step, hh]⟩
    · rename_i n rest hh
      split at h
      · rename_i hnd
        simp only [Option.some.injEq, Prod.mk.injEq] at h
        obtain ⟨rfl, rfl⟩ := h
        exact ⟨1, by simp [HF.nexts, HF.step, hh, hnd]⟩
      · rename_i hnd
        split at h
        · cases h
        · rename_i hid
          split at h
          · rename_i hc
            obtain ⟨k, hk⟩ := ih _ _ _ _ h
            exact ⟨k + 1, by simp only [HF.nexts, HF.step, hh, hnd, hid, hc, if_true, if_false]; exact hk⟩
          · rename_i hc
            split at h
            · rename_i hp
              obtain ⟨k, hk⟩ := ih _ _ _ _ h
              exact ⟨k + 1, by simp only [HF.nexts, HF.step, hh, hnd, hid, hc, hp, if_true, if_false]; exact hk⟩
            · rename_i hp
              obtain ⟨k, hk⟩ := ih _ _ _ _ h
              exact ⟨k + 1, by simp only [HF.nexts, HF.step, hh, hnd, hid, hc, hp, if_false]; exact hk⟩

/-- the send loop of `tick`, step by step -/
theorem HF.send_steps (G : Geom) (now : Nat) : ∀ (l : List (Nat × Nat)) (s : HS),
    ∃ k, HF.nexts G k { s := s, pc := .sends now l } = some { s := { s with f := HS.logAll s.f now l }, pc := .idle }
  | [], s => ⟨1, by simp [HF.nexts, HF.step, HS.logAll]⟩
  | p :: ps, s => by
    obtain ⟨k, hk⟩ := HF.send_steps G now ps { s with f := s.f.deliver now p.1 p.2 }
    exact ⟨k + 1, by simp only [HF.nexts, HF.step, HS.logAll]; exact hk⟩

/-- from "worker idle", `begin` followed by enough uninterrupted `next` steps is exactly the atomic `tick` -/
theorem HF.fine_tick (G : Geom) (s s' : HS) (h : HS.tick s = some s') :
    ∃ k, HF.nexts G k { s := s, pc := .trig s.now s.f.nextId [] } = some { s := s', pc := .idle } := by
  simp only [HS.tick] at h
  split at h
  · rename_i s1 ids ht
    simp only [Option.some.injEq] at h
    subst h
    obtain ⟨k1, h1⟩ := HF.trig_steps G _ _ _ _ _ _ _ ht
    obtain ⟨k2, h2⟩ := HF.send_steps G s.now ids s1
    exact ⟨k1 + k2, HF.nexts_add G _ _ _ _ _ h1 h2⟩
  · cases h

/-! ### inversion of lifted steps, and: every state of the coarse systems is a state of the fine ones -/

theorem WF.cl_inv (G : Geom) {x x' : WF} {a : Act} {o : Out} (hs : WF.step G x (.cl a) = .ok x' o) :
    a.isClient = true ∧ ∃ s', WS.step G x.s a = .ok s' o ∧ x' = { x with s := s' } := by
  simp only [WF.step] at hs
  split at hs
  · rename_i hc
    cases hr : WS.step G x.s a with
    | ok s' o' =>
      rw [hr] at hs
      simp only [WF.lift, Res.ok.injEq] at hs
      obtain ⟨rfl, rfl⟩ := hs
      exact ⟨hc, s', rfl, rfl⟩
    | blocked => rw [hr] at hs; simp [WF.lift] at hs
    | panic => rw [hr] at hs; simp [WF.lift] at hs
  · cases hs

theorem HF.cl_inv (G : Geom) {x x' : HF} {a : Act} {o : Out} (hs : HF.step G x (.cl a) = .ok x' o) :
    a.isClient = true ∧ ∃ s', HS.step G x.s a = .ok s' o ∧ x' = { x with s := s' } := by
  simp only [HF.step] at hs
  split at hs
  · rename_i hc
    cases hr : HS.step G x.s a with
    | ok s' o' =>
      rw [hr] at hs
      simp only [HF.lift, Res.ok.injEq] at hs
      obtain ⟨rfl, rfl⟩ := hs
      exact ⟨hc, s', rfl, rfl⟩
    | blocked => rw [hr] at hs; simp [HF.lift] at hs
    | panic => rw [hr] at hs; simp [HF.lift] at hs
  · cases hs

theorem WFReach.nexts {G : Geom} : ∀ (k : Nat) {x y : WF}, WFReach G x → WF.nexts G k x = some y → WFReach G y
  | 0, x, y, h, hk => by simp only [WF.nexts, Option.some.injEq] at hk; exact hk ▸ h
  | k + 1, x, y, h, hk => by
    simp only [WF.nexts] at hk
    split at hk
    · rename_i x1 o he
      exact WFReach.nexts k (h.step he) hk
    · cases hk

theorem HFReach.nexts {G : Geom} : ∀ (k : Nat) {x y : HF}, HFReach G x → HF.nexts G k x = some y → HFReach G y
  | 0, x, y, h, hk => by simp only [HF.nexts, Option.some.injEq] at hk; exact hk ▸ h
  | k + 1, x, y, h, hk => by
    simp only [HF.nexts] at hk
    split at hk
    · rename_i x1 o he
      exact HFReach.nexts k (h.step he) hk
    · cases hk

/-- every state of the coarse wheel system (atomic ticks, C05) is a state of the fine one with the worker idle -/
theorem WReach.fine {G : Geom} {s : WS} (h : WReach G s) : WFReach G { s := s, pc := .idle } := by
  induction h with
  | init off time => exact WFReach.init off time
  | @step s s' a o _ hs ih =>
    cases a with
    | tick =>
      simp only [WS.step, Res.ok.injEq] at hs
      obtain ⟨rfl, _⟩ := hs
      obtain ⟨k, hk⟩ := WF.fine_tick G s
      exact WFReach.nexts k (ih.step (a := .begin) (o := .done) rfl) hk
    | after d => exact ih.step (a := .cl (.after d)) (o := o) (by simp [WF.step, Act.isClient, hs, WF.lift])
    | every p => exact ih.step (a := .cl (.every p)) (o := o) (by simp [WF.step, Act.isClient, hs, WF.lift])
    | cancel j => exact ih.step (a := .cl (.cancel j)) (o := o) (by simp [WF.step, Act.isClient, hs, WF.lift])
    | clock n => exact ih.step (a := .cl (.clock n)) (o := o) (by simp [WF.step, Act.isClient, hs, WF.lift])
    | add => exact ih.step (a := .add) (o := o) (by simp [WF.step, hs, WF.lift])
    | del => exact ih.step (a := .del) (o := o) (by simp [WF.step, hs, WF.lift])

/-- every state of the coarse heap system is a state of the fine one with the worker idle -/
theorem HReach.fine {G : Geom} {s : HS} (h : HReach G s) : HFReach G { s := s, pc := .idle } := by
  induction h with
  | init time => exact HFReach.init time
  | @step s s' a o _ hs ih =>
    cases a with
    | tick =>
      simp only [HS.step] at hs
      split at hs
      · rename_i s1 ht
        simp only [Res.ok.injEq] at hs
        obtain ⟨rfl, _⟩ := hs
        obtain ⟨k, hk⟩ := HF.fine_tick G s s1 ht
        exact HFReach.nexts k (ih.step (a := .begin) (o := .done) rfl) hk
      · cases hs
    | after d => exact ih.step (a := .cl (.after d)) (o := o) (by simp [HF.step, Act.isClient, hs, HF.lift])
    | every p => exact ih.step (a := .cl (.every p)) (o := o) (by simp [HF.step, Act.isClient, hs, HF.lift])
    | cancel j => exact ih.step (a := .cl (.cancel j)) (o := o) (by simp [HF.step, Act.isClient, hs, HF.lift])
    | clock n => exact ih.step (a := .cl (.clock n)) (o := o) (by simp [HF.step, Act.isClient, hs, HF.lift])
    | add => exact ih.step (a := .add) (o := o) (by simp [HF.step, hs, HF.lift])
    | del => exact ih.step (a := .del) (o := o) (by simp [HF.step, hs, HF.lift])

/-! ### a tick always ends: a measure that every worker step inside the tick decreases and no client call changes -/

def WF.measure (x : WF) : Nat :=
  match x.pc with
  | .idle => 0
  | .pass true c => 2 * c.length + 1
  | .send true _ c => 2 * c.length + 2
  | .pass false c => 4 * c.length + 2 * x.s.w.nodes.length + 3
  | .send false _ c => 4 * c.length + 2 * x.s.w.nodes.length + 6

theorem WF.detach_measure_true (G : Geom) (x : WF) :
    (x.detach G true).measure ≤ 2 * x.s.w.nodes.length + 1 := by
  simp only [WF.detach, WF.measure]
  have := List.length_filter_le (Wheel.inBucket 0 (x.s.w.cur G % G.nearSize)) x.s.w.nodes
  omega

theorem WF.next_measure (G : Geom) {x x' : WF} {o : Out} (hs : WF.step G x .next = .ok x' o) :
    x'.measure < x.measure := by
  rcases x with ⟨s, pc⟩
  simp only [WF.step] at hs
  split at hs
  · cases hs
  · rename_i _ b n ns
    split at hs
    · cases hs
      cases b <;> simp only [WF.measure, List.length_cons] <;> omega
    · split at hs <;> cases hs <;> cases b <;> simp only [WF.measure, List.length_cons] <;> omega
  · rename_i _ b n ns
    split at hs <;> cases hs <;> cases b <;>
      simp only [WF.measure, List.length_append, List.length_cons, List.length_nil] <;> omega
  · cases hs
    have h1 := WF.detach_measure_true G
      { s := { s with w := Wheel.shift G { s.w with time := s.w.time + 1 } }, pc := .pass false [] }
    have h2 : (Wheel.shift G { s.w with time := s.w.time + 1 }).nodes.length = s.w.nodes.length := by
      have := (Wheel.shift_spec G { s.w with time := s.w.time + 1 }).2.2.length_eq
      simpa using this
    simp only [h2] at h1
    show (WF.detach G { s := { s with w := Wheel.shift G { s.w with time := s.w.time + 1 } }, pc := .pass false [] } true).measure
      < 4 * ([] : List WNode).length + 2 * s.w.nodes.length + 3
    simp only [List.length_nil]
    omega
  · cases hs
    simp [WF.measure]

theorem WF.client_measure (G : Geom) {x x' : WF} {a : Act} {o : Out} (hs : WF.step G x (.cl a) = .ok x' o) :
    x'.measure = x.measure ∧ x'.pc = x.pc := by
  obtain ⟨hc, s', hs', rfl⟩ := WF.cl_inv G hs
  have hw : s'.w = x.s.w := by
    cases a with
    | after d => simp only [WS.step] at hs'; split at hs' <;> cases hs'; rfl
    | every p => simp only [WS.step] at hs'; split at hs' <;> cases hs'; rfl
    | cancel j =>
      simp only [WS.step] at hs'
      split at hs'
      · split at hs' <;> cases hs'; rfl
      · cases hs'; rfl
    | clock n => simp only [WS.step] at hs'; cases hs'; rfl
    | add => simp [Act.isClient] at hc
    | del => simp [Act.isClient] at hc
    | tick => simp [Act.isClient] at hc
  exact ⟨by simp only [WF.measure, hw], rfl⟩

def HF.measure (x : HF) : Nat :=
  match x.pc with
  | .idle => 0
  | .trig now _ exp => 2 * (x.s.heap.filter (hdue now)).length + exp.length + 2
  | .sends _ rest => rest.length + 1

theorem HF.next_measure (G : Geom) {x x' : HF} {o : Out} (hs : HF.step G x .next = .ok x' o) :
    x'.measure < x.measure := by
  rcases x with ⟨s, pc⟩
  simp only [HF.step] at hs
  split at hs
  · cases hs
  · rename_i _ now maxId exp
    split at hs
    · cases hs; simp only [HF.measure]; omega
    · rename_i n rest hh
      split at hs
      · cases hs; simp only [HF.measure]; omega
      · rename_i hnd
        have hdn : hdue now n = true := by simp only [hdue, decide_eq_true_eq]; omega
        split at hs
        · cases hs
        · split at hs
          · cases hs
            simp only [HF.measure, hh, List.filter_cons, hdn, if_true, List.length_cons]; omega
          · split at hs
            · rename_i hp
              cases hs
              have hnp : hdue now { n with deadline := now + n.period } = false := by
                have : ¬ (now + n.period ≤ now) := by omega
                show decide (now + n.period ≤ now) = false
                exact decide_eq_false this
              simp only [HF.measure, hh, filter_hinsert_false _ _ hnp, List.filter_cons, hdn, if_true, List.length_cons,
                List.length_append, List.length_nil]
              omega
            · cases hs
              simp only [HF.measure, hh, List.filter_cons, hdn, if_true, List.length_cons, List.length_append,
                List.length_nil]
              omega
  · rename_i _ now p rest
    cases hs
    simp only [HF.measure, List.length_cons]; omega
  · cases hs
    simp [HF.measure]

theorem HF.client_measure (G : Geom) {x x' : HF} {a : Act} {o : Out} (hs : HF.step G x (.cl a) = .ok x' o) :
    x'.measure = x.measure ∧ x'.pc = x.pc := by
  obtain ⟨hc, s', hs', rfl⟩ := HF.cl_inv G hs
  have hw : s'.heap = x.s.heap := by
    cases a with
    | after d => simp only [HS.step] at hs'; split at hs' <;> cases hs'; rfl
    | every p => simp only [HS.step] at hs'; split at hs' <;> cases hs'; rfl
    | cancel j =>
      simp only [HS.step] at hs'
      split at hs'
      · split at hs' <;> cases hs'; rfl
      · cases hs'; rfl
    | clock n => simp only [HS.step] at hs'; cases hs'; rfl
    | add => simp [Act.isClient] at hc
    | del => simp [Act.isClient] at hc
    | tick => simp [Act.isClient] at hc
  exact ⟨by simp only [HF.measure, hw], rfl⟩

end Fatchoy.C05
