/-
C05 helper lemmas: the delivery log of the wheel is ordered by (due) time.  Holds for any geometry.
-/
import Fatchoy.Lemmas.C05WheelTrace
namespace Fatchoy.C05

/-- newest first: times never increase towards the past, and nothing is logged in the future -/
def LogOK (log : List (Nat × Nat)) (time : Nat) : Prop :=
  log.Pairwise (fun a b => b.1 ≤ a.1) ∧ ∀ e ∈ log, e.1 ≤ time

theorem LogOK.mono {log : List (Nat × Nat)} {t t' : Nat} (h : LogOK log t) (ht : t ≤ t') : LogOK log t' :=
  ⟨h.1, fun e he => Nat.le_trans (h.2 e he) ht⟩

theorem LogOK.batch {log : List (Nat × Nat)} {t : Nat} (h : LogOK log t) (batch : List (Nat × Nat))
    (hb : ∀ e ∈ batch, e.1 = t) : LogOK (batch ++ log) t := by
  refine ⟨?_, ?_⟩
  · rw [List.pairwise_append]
    refine ⟨?_, h.1, ?_⟩
    · apply List.Pairwise.imp_of_mem (R := fun _ _ => True)
      · intro a b ha hb' _; rw [hb a ha, hb b hb']; exact Nat.le_refl _
      · exact List.pairwise_of_forall (fun _ _ => trivial)
    · intro a ha b hb'; rw [hb a ha]; exact h.2 b hb'
  · intro e he
    rcases List.mem_append.mp he with he | he
    · rw [hb e he]; exact Nat.le_refl _
    · exact h.2 e he

namespace WS

theorem expire_logOK (G : Geom) (s : WS) (h : LogOK s.f.log s.w.time) :
    LogOK (expire G s).f.log (expire G s).w.time := by
  unfold expire
  obtain ⟨_, h2, _, _, _, _, _, h8, _⟩ := expireList_spec G
    (s.w.nodes.filter (Wheel.inBucket 0 (s.w.cur G % G.nearSize)))
    { s with w := { s.w with nodes := s.w.nodes.filter (fun n => !Wheel.inBucket 0 (s.w.cur G % G.nearSize) n) } }
  rw [h2, h8]
  apply h.batch
  intro e he
  simp only [List.mem_reverse, List.mem_map] at he
  obtain ⟨n, _, rfl⟩ := he
  rfl

theorem tick_logOK (G : Geom) (s : WS) (h : LogOK s.f.log s.w.time) :
    LogOK (tick G s).f.log (tick G s).w.time := by
  rw [tick_eq]
  apply expire_logOK
  rw [mid_f, mid_time]
  exact (expire_logOK G s h).mono (Nat.le_succ _)

theorem step_logOK (G : Geom) {s s' : WS} {a : Act} {o : Out} (h : LogOK s.f.log s.w.time)
    (hs : step G s a = .ok s' o) : LogOK s'.f.log s'.w.time := by
  cases a with
  | tick => simp only [step] at hs; cases hs; exact tick_logOK G s h
  | after d => simp only [step] at hs; split at hs <;> cases hs; exact h
  | every p => simp only [step] at hs; split at hs <;> cases hs; exact h
  | cancel j =>
    simp only [step] at hs
    split at hs
    · split at hs <;> cases hs; exact h
    · cases hs; exact h
  | add =>
    simp only [step] at hs
    split at hs
    · cases hs; exact h
    · split at hs
      · cases hs; exact h
      · split at hs <;> cases hs; exact h
  | del => simp only [step] at hs; split at hs <;> cases hs <;> exact h
  | clock n => simp only [step] at hs; cases hs; exact h

end WS

theorem WReach.logOK {G : Geom} {s : WS} (h : WReach G s) : LogOK s.f.log s.w.time := by
  induction h with
  | init off time => exact ⟨List.Pairwise.nil, fun e he => by simp [WS.init, Front.init] at he⟩
  | step _ hs ih => exact WS.step_logOK G ih hs

end Fatchoy.C05
