/-
C11, layer ZS: zset.go over the structural skip list simulates zset.go over the content list (layer Z),
for every tower height the calls may draw.
-/
import Fatchoy.Lemmas.C11ZS2
namespace Fatchoy.C11
open S

/-- the structural sorted set `zs` and the content-level sorted set `z` are the same set -/
structure RelS (ml : Nat) (zs : ZS) (z : ZSet) : Prop where
  dict : zs.dict = z.dict
  abs : S.abs zs.sl = z.zsl
  ok : S.SOk zs.sl
  head : S.height zs.sl 0 = ml

theorem relS_empty (ml : Nat) (h : 1 ≤ ml) : RelS ml (ZS.empty ml) ZSet.empty := by
  have hI := inv_new ml h
  refine ⟨rfl, ?_, SOk_of_inv hI, ?_⟩
  · show S.abs (S.new ml) = []
    rw [hI.abs_eq]; rfl
  · simp [ZS.empty, S.new, height, nd]

/-- the `GetRank` contract holds for every node of a set whose members are unique -/
theorem Rel.contract_mem {z : ZSet} {m : Dict} (h : Rel z m) :
    ∀ n ∈ z.zsl, L.RankContract z.zsl n.score n.ele := by
  intro n hn n' hn' he
  rw [h.member_unique hn' hn he]
  exact Int.le_refl _

theorem step_simS {ml : Nat} {zs : ZS} {z : ZSet} {m : Dict} (hr : RelS ml zs z) (hz : Rel z m)
    (op : Op) (h : Nat) (h1 : 1 ≤ h) (h2 : h ≤ ml) :
    ∃ zs', stepS zs h op = some (zs', (step z op).2) ∧ RelS ml zs' (step z op).1 := by
  obtain ⟨hd, ha, hok, hh⟩ := hr
  have hI : Inv zs.sl (ids zs.sl) := hok
  cases op with
  | len =>
    refine ⟨zs, ?_, ⟨hd, ha, hok, hh⟩⟩
    simp only [stepS, step]
    rw [hI.len_abs, ha]
  | add e score =>
    simp only [stepS, step, hd]
    cases hg : dget z.dict e with
    | none =>
      simp only []
      have hgm : dget m e = none := by rw [← hz.dget_eq]; exact hg
      have hnot : (⟨score, e⟩ : Node) ∉ S.abs zs.sl := by
        rw [ha]; intro hm; exact hz.absent hgm _ hm rfl
      obtain ⟨t, id, hi1, hi2, hi3, hi4, hi5⟩ := insert_refines hI score e h h1 (by rw [hh]; exact h2) hnot
      rw [hi1]
      simp only []
      have hsc : (nd t id).score = score := by
        have := congrArg Node.score hi4; exact this
      rw [hsc]
      exact ⟨_, rfl, ⟨rfl, by rw [hi3, ha], hi2, by rw [hi5, hh]⟩⟩
    | some cur =>
      simp only []
      by_cases hc : cur = score
      · subst hc
        simp only [bne_self_eq_false, Bool.false_eq_true, if_false]
        exact ⟨zs, rfl, ⟨hd, ha, hok, hh⟩⟩
      · have hne : (cur != score) = true := by simpa using hc
        simp only [hne, if_true]
        have hgm : dget m e = some cur := by rw [← hz.dget_eq]; exact hg
        have hdel := hz.delete_eq hgm
        obtain ⟨t1, r, hd1, hd2, hd3, hd4, hd5, hd6⟩ := delete_refines hI cur e
        rw [ha, hdel] at hd3 hd4
        rw [hd1, hdel]
        simp only [] at hd3 hd4 ⊢
        cases r with
        | none => simp at hd4
        | some x =>
          simp only [Option.map_some, Option.some.injEq] at hd4
          have hele : (nd t1 x).ele = e := by
            have := congrArg Node.ele ((hd5 x).trans hd4); exact this
          simp only []
          rw [hele]
          have hI1 : Inv t1 (ids t1) := hd2
          have hnot : (⟨score, e⟩ : Node) ∉ S.abs t1 := by
            rw [hd3]; intro hm
            rw [List.mem_filter] at hm
            simp at hm
          obtain ⟨t, id, hi1, hi2, hi3, hi4, hi5⟩ := insert_refines hI1 score e h h1
            (by rw [hd6, hh]; exact h2) hnot
          rw [hi1]
          simp only []
          exact ⟨_, rfl, ⟨rfl, by rw [hi3, hd3], hi2, by rw [hi5, hd6, hh]⟩⟩
  | remove e =>
    simp only [stepS, step, hd]
    cases hg : dget z.dict e with
    | none => exact ⟨zs, rfl, ⟨hd, ha, hok, hh⟩⟩
    | some sc =>
      simp only []
      obtain ⟨t1, r, hd1, hd2, hd3, _, _, hd6⟩ := delete_refines hI sc e
      rw [hd1]
      simp only []
      exact ⟨_, rfl, ⟨rfl, by rw [hd3, ha], hd2, by rw [hd6, hh]⟩⟩
  | removeRangeByScore min max =>
    simp only [stepS, step]
    by_cases hmm : min > max
    · simp only [hmm, if_true]
      exact ⟨zs, rfl, ⟨hd, ha, hok, hh⟩⟩
    · simp only [hmm, if_false]
      obtain ⟨t, hr1, hr2, hr3, _, hr5⟩ := deleteRangeByScore_refines hI min max
      rw [hr1]
      simp only []
      rw [ha] at hr3 ⊢
      exact ⟨_, rfl, ⟨by simp only [hd], hr3, hr2, by rw [hr5, hh]⟩⟩
  | removeRangeByRank start stop =>
    simp only [stepS, step]
    rw [hI.len_abs, ha]
    cases hnr : normRange (z.zsl.length : Int) start stop with
    | none => exact ⟨zs, rfl, ⟨hd, ha, hok, hh⟩⟩
    | some ab =>
      obtain ⟨a, b⟩ := ab
      simp only []
      obtain ⟨t, hr1, hr2, hr3, _, hr5⟩ := deleteRangeByRank_refines hI (a + 1) (b + 1)
      rw [hr1]
      simp only []
      rw [ha] at hr3 ⊢
      exact ⟨_, rfl, ⟨by simp only [hd], hr3, hr2, by rw [hr5, hh]⟩⟩
  | count min max =>
    refine ⟨zs, ?_, ⟨hd, ha, hok, hh⟩⟩
    simp only [stepS, step]
    rw [countS_refines hI min max (by rw [ha]; exact hz.contract_mem), ha]
    rfl
  | getRank e reverse =>
    simp only [stepS, step, hd]
    cases hg : dget z.dict e with
    | none => exact ⟨zs, rfl, ⟨hd, ha, hok, hh⟩⟩
    | some sc =>
      simp only []
      have hgm : dget m e = some sc := by rw [← hz.dget_eq]; exact hg
      have hmem : (⟨sc, e⟩ : Node) ∈ z.zsl := (hz.mem_iff e sc).mp hgm
      have hcon : L.RankContract (S.abs zs.sl) sc e := by
        rw [ha]
        intro n hn he
        have := hz.member_unique hn hmem he
        rw [this]; exact Int.le_refl _
      rw [getRank_refines hI sc e hcon, hI.len_abs, ha]
      exact ⟨zs, rfl, ⟨hd, ha, hok, hh⟩⟩
  | getScore e =>
    refine ⟨zs, ?_, ⟨hd, ha, hok, hh⟩⟩
    simp only [stepS, step, hd]
  | getRange start stop reverse =>
    simp only [stepS, step]
    rw [rangeByRankS_refines hI, ha]
    cases rangeByRank z.zsl start stop reverse <;> exact ⟨zs, rfl, ⟨hd, ha, hok, hh⟩⟩
  | getRangeByScore min max reverse =>
    refine ⟨zs, ?_, ⟨hd, ha, hok, hh⟩⟩
    simp only [stepS, step]
    rw [rangeByScoreS_refines hI, ha]
    rfl

/-- a whole call sequence, each call with the tower height it draws -/
theorem traceS_sim {ml : Nat} :
    ∀ (ops : List (Op × Nat)), (∀ p ∈ ops, 1 ≤ p.2 ∧ p.2 ≤ ml) →
    ∀ (zs : ZS) (z : ZSet) (m : Dict), RelS ml zs z → Rel z m →
      traceS zs ops = some (trace z (ops.map (·.1))) ∧
      ∃ zs', runS zs ops = some zs' ∧ RelS ml zs' (run z (ops.map (·.1))) := by
  intro ops
  induction ops with
  | nil => intro _ zs z m hr _; exact ⟨rfl, zs, rfl, hr⟩
  | cons p rest ih =>
    intro hh zs z m hr hz
    obtain ⟨op, h⟩ := p
    obtain ⟨h1, h2⟩ := hh (op, h) List.mem_cons_self
    obtain ⟨zs', hs1, hs2⟩ := step_simS hr hz op h h1 h2
    have hz' := (step_sim z m op hz).1
    obtain ⟨i1, zs'', i2, i3⟩ := ih (fun q hq => hh q (List.mem_cons_of_mem _ hq)) zs' _ _ hs2 hz'
    simp only [traceS, runS, hs1, List.map_cons, trace]
    rw [i1]
    exact ⟨rfl, zs'', i2, i3⟩

end Fatchoy.C11
