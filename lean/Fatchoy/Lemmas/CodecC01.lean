/-
Statement-level definitions of C01 (`WF`, `Encodable`, `Fits`, `expect`) and the format-generic
lemmas behind its theorems: marshalling is total for a lawful environment, it only ORs codec bits
into the flag, and the round trip holds for either format.
-/
import Fatchoy.Lemmas.CodecRoundtrip
namespace Fatchoy.Codec
open Fatchoy.Crc32
set_option linter.unusedSimpArgs false


/-- the caller set none of the two codec bits; a V2 packet carries at most 255 references -/
def WF (F : Fmt) (p : Pkt) : Prop := p.flag &&& 3#8 = 0#8 ∧ (F.v2 = true → p.refs.length ≤ 255)

instance (F : Fmt) (p : Pkt) : Decidable (WF F p) := by unfold WF; infer_instance

/-- `BodyToBytes` can convert the body -/
def Encodable (P : Params) (e : Env) (p : Pkt) : Prop := (bodyToBytes P e p.body).isSome
instance (P : Params) (e : Env) (p : Pkt) : Decidable (Encodable P e p) := by unfold Encodable; infer_instance

/-- number of bytes of the frame with wire body `w` -/
def frameLen (F : Fmt) (p : Pkt) (w : Bytes) : Nat :=
  F.headerSize + (if F.v2 then p.refs.length else 0) * 4 + w.length

/-- the packet is within the format's frame limit (after compression) -/
def Fits (P : Params) (F : Fmt) (e : Env) (p : Pkt) : Prop :=
  ∀ w p', marshalBody P e p = .ok (w, p') → frameLen F p w ≤ F.max

/-- what the decoder of format `F` returns for `p` -/
def expect (P : Params) (F : Fmt) (e : Env) (p : Pkt) : Pkt :=
  let b := (bodyToBytes P e p.body).getD []
  if F.v2 then expectV2 P e p b else expectV1 P e p b

/-- a lawful environment never fails to marshal an encodable body -/
theorem marshal_total {P : Params} {e : Env} {p : Pkt} (hl : e.Lawful) (he : Encodable P e p) :
    ∃ w p', marshalBody P e p = .ok (w, p') := by
  unfold Encodable at he
  cases hb : bodyToBytes P e p.body with
  | none => rw [hb] at he; simp at he
  | some b =>
    unfold marshalBody
    simp only [hb]
    by_cases hthr : e.threshold > 0 ∧ b.length > e.threshold
    · obtain ⟨z, hz, _, _⟩ := hl.cmp b
      simp only [hthr, and_self, if_true, hz]
      cases e.enc with
      | none => exact ⟨_, _, rfl⟩
      | some f => by_cases hzl : z.length > 0 <;> simp only [hzl, if_true, if_false] <;> exact ⟨_, _, rfl⟩
    · simp only [hthr, if_false]
      cases e.enc with
      | none => exact ⟨_, _, rfl⟩
      | some f => by_cases hzl : b.length > 0 <;> simp only [hzl, if_true, if_false] <;> exact ⟨_, _, rfl⟩

/-- the encoder only ORs codec bits into the flag; everything else of the packet is untouched -/
theorem marshal_flag {P : Params} {e : Env} {p p' : Pkt} {w : Bytes} (hm : marshalBody P e p = .ok (w, p')) :
    ∃ bits : BitVec 8, (bits = 0 ∨ bits = bit8 P.flagCompressed ∨ bits = bit8 P.flagEncrypted ∨
        bits = bit8 P.flagCompressed ||| bit8 P.flagEncrypted) ∧ p' = { p with flag := p.flag ||| bits } := by
  unfold marshalBody at hm
  cases hb : bodyToBytes P e p.body with
  | none => simp [hb] at hm
  | some b =>
    simp only [hb] at hm
    by_cases hthr : e.threshold > 0 ∧ b.length > e.threshold
    · simp only [hthr, and_self, if_true] at hm
      cases hz : e.compress b with
      | none => simp [hz] at hm
      | some z =>
        simp only [hz] at hm
        cases henc : e.enc with
        | none =>
          simp only [henc] at hm
          injection hm with hm; injection hm with _ hp; subst hp
          exact ⟨_, Or.inr (Or.inl rfl), rfl⟩
        | some f =>
          simp only [henc] at hm
          by_cases hzl : z.length > 0
          · simp only [hzl, if_true] at hm
            injection hm with hm; injection hm with _ hp; subst hp
            exact ⟨_, Or.inr (Or.inr (Or.inr rfl)), by simp [BitVec.or_assoc]⟩
          · simp only [hzl, if_false] at hm
            injection hm with hm; injection hm with _ hp; subst hp
            exact ⟨_, Or.inr (Or.inl rfl), rfl⟩
    · simp only [hthr, if_false] at hm
      cases henc : e.enc with
      | none =>
        simp only [henc] at hm
        injection hm with hm; injection hm with _ hp; subst hp
        exact ⟨0, Or.inl rfl, by simp⟩
      | some f =>
        simp only [henc] at hm
        by_cases hzl : b.length > 0
        · simp only [hzl, if_true] at hm
          injection hm with hm; injection hm with _ hp; subst hp
          exact ⟨_, Or.inr (Or.inr (Or.inl rfl)), rfl⟩
        · simp only [hzl, if_false] at hm
          injection hm with hm; injection hm with _ hp; subst hp
          exact ⟨0, Or.inl rfl, by simp⟩

/-- round trip for either format -/
theorem roundtrip {P : Params} {F : Fmt} {e : Env} {p : Pkt} {tail : Bytes} {cs : Chunks}
    (hF : ValidFmt F) (hf : ValidFlags P) (hl : e.Lawful) (wf : WF F p) (he : Encodable P e p) (fit : Fits P F e p)
    (hcs : flat cs = (writePacket P F e p).bytes ++ tail) :
    (readPacket P F e cs).res = .ok (expect P F e p) ∧ flat (readPacket P F e cs).rest = tail := by
  obtain ⟨w, p', hm⟩ := marshal_total hl he
  have hfit := fit w p' hm
  unfold Encodable at he
  cases hb : bodyToBytes P e p.body with
  | none => rw [hb] at he; simp at he
  | some b =>
    rcases hF with hv | hv
    · have h2 : F.v2 = false := hv.1
      have := roundtrip_v1 hv hf hl wf.1 hb hm (by simpa [frameLen, h2, hv.2.1] using hfit) hcs
      simpa [expect, hb, h2] using this
    · have h2 : F.v2 = true := hv.1
      have := roundtrip_v2 hv hf hl wf.1 (wf.2 h2) hb hm (by simpa [frameLen, h2, hv.2.1] using hfit) hcs
      simpa [expect, hb, h2] using this




/-- `ReadHeadBody` depends on the reader only through the bytes it will deliver -/
theorem readHeadBody_congr {F : Fmt} {cs cs' : Chunks} (h : flat cs = flat cs') :
    (readHeadBody F cs).res = (readHeadBody F cs').res ∧
    flat (readHeadBody F cs).rest = flat (readHeadBody F cs').rest ∧
    (readHeadBody F cs).alloc = (readHeadBody F cs').alloc ∧
    (readHeadBody F cs).awaited = (readHeadBody F cs').awaited := by
  obtain ⟨a1, a2⟩ := readFull_congr (n := F.headerSize) h
  unfold readHeadBody
  rcases h1 : readFull F.headerSize cs with ⟨x1, x2⟩
  rcases h2 : readFull F.headerSize cs' with ⟨y1, y2⟩
  rw [h1, h2] at a1 a2
  simp only at a1 a2
  subst a1
  cases x1 with
  | error er => exact ⟨rfl, a2, rfl, rfl⟩
  | ok hdr =>
    simp only
    cases field? F.get "len" hdr with
    | none => exact ⟨rfl, a2, rfl, rfl⟩
    | some len =>
      simp only
      by_cases hg : len < F.readLo ∨ len > F.readHi
      · simp only [hg, if_true]; exact ⟨trivial, a2, trivial, trivial⟩
      · simp only [hg, if_false]
        obtain ⟨b1, b2⟩ := readFull_congr (n := subWrap F.lenBits len F.readSub) a2
        rcases h3 : readFull (subWrap F.lenBits len F.readSub) x2 with ⟨u1, u2⟩
        rcases h4 : readFull (subWrap F.lenBits len F.readSub) y2 with ⟨v1, v2⟩
        rw [h3, h4] at b1 b2
        simp only at b1 b2
        subst b1
        cases u1 <;> exact ⟨rfl, b2, rfl, rfl⟩

/-- however the stream is chunked, `ReadPacket` returns the same result, consumes the same bytes and
    makes the same requests -/
theorem readPacket_congr {P : Params} {F : Fmt} {e : Env} {cs cs' : Chunks} (h : flat cs = flat cs') :
    (readPacket P F e cs).res = (readPacket P F e cs').res ∧
    flat (readPacket P F e cs).rest = flat (readPacket P F e cs').rest ∧
    (readPacket P F e cs).alloc = (readPacket P F e cs').alloc ∧
    (readPacket P F e cs).awaited = (readPacket P F e cs').awaited := by
  obtain ⟨a1, a2, a3, a4⟩ := readHeadBody_congr (F := F) h
  unfold readPacket
  simp only [← a1]
  cases (readHeadBody F cs).res with
  | error er => exact ⟨rfl, a2, a3, a4⟩
  | ok hp => exact ⟨rfl, a2, a3, a4⟩

/-- `k` consecutive reads from one stream -/
def readN (P : Params) (F : Fmt) (e : Env) : Nat → Chunks → List (Except Err Pkt) × Chunks
  | 0, cs => ([], cs)
  | k + 1, cs =>
    let o := readPacket P F e cs
    let r := readN P F e k o.rest
    (o.res :: r.1, r.2)

/-- the frames of a list of packets, back to back -/
def framesOf (P : Params) (F : Fmt) (e : Env) (ps : List Pkt) : Bytes :=
  (ps.map (fun p => (writePacket P F e p).bytes)).flatten

theorem stream_roundtrip {P : Params} {F : Fmt} {e : Env} (hF : ValidFmt F) (hf : ValidFlags P) (hl : e.Lawful)
    (ps : List Pkt) (hps : ∀ p ∈ ps, WF F p ∧ Encodable P e p ∧ Fits P F e p) (tail : Bytes) (cs : Chunks)
    (hcs : flat cs = framesOf P F e ps ++ tail) :
    (readN P F e ps.length cs).1 = ps.map (fun p => .ok (expect P F e p)) ∧
    flat (readN P F e ps.length cs).2 = tail := by
  induction ps generalizing cs with
  | nil => simpa [readN, framesOf] using hcs
  | cons p ps ih =>
    obtain ⟨wf, he, fit⟩ := hps p (List.mem_cons_self ..)
    have hcs' : flat cs = (writePacket P F e p).bytes ++ (framesOf P F e ps ++ tail) := by
      rw [hcs]; simp [framesOf]
    obtain ⟨r1, r2⟩ := roundtrip hF hf hl wf he fit hcs'
    obtain ⟨i1, i2⟩ := ih (fun q hq => hps q (List.mem_cons_of_mem _ hq)) _ r2
    simp only [List.length_cons, readN, List.map_cons]
    rw [r1, i1]
    exact ⟨rfl, i2⟩




/-- whenever `WritePacket` returns an error it has not called `Write` -/
theorem write_error_no_byte (P : Params) (F : Fmt) (e : Env) (p : Pkt) {er : Err}
    (h : (writePacket P F e p).ret = .error er) : (writePacket P F e p).writes = [] := by
  unfold writePacket at h ⊢
  by_cases h1 : F.v2 = true ∧ p.refs.length > P.maxRefs
  · simp only [h1, and_self, if_true]
  · simp only [h1, if_false] at h ⊢
    cases hm : marshalBody P e p with
    | error er' => simp only [hm]
    | ok wp =>
      obtain ⟨w, p'⟩ := wp
      simp only [hm] at h ⊢
      generalize (if F.v2 = true then p'.refs else []) = refs at h ⊢
      by_cases hov : F.headerSize + refs.length * 4 + w.length > F.writeMax
      · simp only [hov, if_true]
      · simp only [hov, if_false] at h ⊢
        cases hb : buildHeader F p' refs.length (F.headerSize + refs.length * 4 + w.length) (refBytes refs) w with
        | none => simp only [hb]
        | some hdr => simp only [hb] at h; cases h

/-- the packet after `WritePacket`, whatever the outcome: only codec bits were ORed into the flag -/
theorem write_pkt (P : Params) (F : Fmt) (e : Env) (p : Pkt) :
    ∃ bits : BitVec 8, (bits = 0 ∨ bits = bit8 P.flagCompressed ∨ bits = bit8 P.flagEncrypted ∨
        bits = bit8 P.flagCompressed ||| bit8 P.flagEncrypted) ∧
      (writePacket P F e p).pkt = { p with flag := p.flag ||| bits } := by
  have h0 : p = { p with flag := p.flag ||| 0 } := by simp
  unfold writePacket
  by_cases h1 : F.v2 = true ∧ p.refs.length > P.maxRefs
  · simp only [h1, and_self, if_true]; exact ⟨0, Or.inl rfl, h0⟩
  · simp only [h1, if_false]
    cases hm : marshalBody P e p with
    | error er' => exact ⟨0, Or.inl rfl, h0⟩
    | ok wp =>
      obtain ⟨w, p'⟩ := wp
      obtain ⟨bits, hb, hp⟩ := marshal_flag hm
      refine ⟨bits, hb, ?_⟩
      simp only
      generalize (if F.v2 = true then p'.refs else []) = refs
      by_cases hov : F.headerSize + refs.length * 4 + w.length > F.writeMax
      · simp only [hov, if_true]; exact hp
      · simp only [hov, if_false]
        cases hb : buildHeader F p' refs.length (F.headerSize + refs.length * 4 + w.length) (refBytes refs) w with
        | none => exact hp
        | some hdr => exact hp

/-- a frame beyond the limit is refused -/
theorem write_over_limit {P : Params} {F : Fmt} {e : Env} {p p' : Pkt} {w : Bytes} (hF : ValidFmt F)
    (hm : marshalBody P e p = .ok (w, p')) (h : frameLen F p w > F.max) :
    ∃ er, (writePacket P F e p).ret = .error er := by
  obtain ⟨bits, _, hp⟩ := marshal_flag hm
  have href : p'.refs = p.refs := by rw [hp]
  rcases hF with hv | hv
  · rw [writePacket_v1 hv hm]
    have : 14 + w.length > F.max := by simpa [frameLen, hv.1, hv.2.1] using h
    simp only [this, if_true]; exact ⟨_, rfl⟩
  · rw [writePacket_v2 hv hm]
    by_cases hr : p.refs.length > P.maxRefs
    · simp only [hr, if_true]; exact ⟨_, rfl⟩
    · have : 20 + p'.refs.length * 4 + w.length > F.max := by simpa [frameLen, hv.1, hv.2.1, href] using h
      simp only [hr, this, if_true, if_false]; exact ⟨_, rfl⟩

/-- too many references are refused before anything else happens -/
theorem write_refs_limit {P : Params} {F : Fmt} (e : Env) {p : Pkt} (h2 : F.v2 = true)
    (h : p.refs.length > P.maxRefs) :
    (writePacket P F e p).ret = .error .refcount ∧ (writePacket P F e p).pkt = p := by
  unfold writePacket
  simp [h2, h]

/-- a packet within the limits is accepted: the return value is the frame length -/
theorem write_ok {P : Params} {F : Fmt} {e : Env} {p p' : Pkt} {w : Bytes} (hF : ValidFmt F) (hf : ValidFlags P)
    (hm : marshalBody P e p = .ok (w, p')) (hr : F.v2 = true → p.refs.length ≤ 255) (h : frameLen F p w ≤ F.max) :
    (writePacket P F e p).ret = .ok (frameLen F p w) ∧ (writePacket P F e p).bytes.length = frameLen F p w ∧
    (writePacket P F e p).writes.length = 2 := by
  obtain ⟨bits, _, hp⟩ := marshal_flag hm
  have href : p'.refs = p.refs := by rw [hp]
  rcases hF with hv | hv
  · rw [writePacket_v1 hv hm]
    have h' : ¬ 14 + w.length > F.max := by
      have : 14 + w.length ≤ F.max := by simpa [frameLen, hv.1, hv.2.1] using h
      omega
    simp only [h', if_false]
    simp [frameLen, hv.1, hv.2.1, WrOut.bytes, hdrV1_length]
  · rw [writePacket_v2 hv hm]
    have hr' : ¬ p.refs.length > P.maxRefs := by rw [hf.2.2.2]; have := hr hv.1; omega
    have h' : ¬ 20 + p'.refs.length * 4 + w.length > F.max := by
      have : 20 + p.refs.length * 4 + w.length ≤ F.max := by simpa [frameLen, hv.1, hv.2.1] using h
      rw [href]; omega
    simp only [hr', h', if_false]
    simp [frameLen, hv.1, hv.2.1, WrOut.bytes, hdrV2_length, refBytes_length, href]
    omega



/-- every error `WritePacket` can return for a valid format -/
theorem write_errors {P : Params} {F : Fmt} (hF : ValidFmt F) (e : Env) (p : Pkt) {er : Err}
    (h : (writePacket P F e p).ret = .error er) :
    er = .refcount ∨ er = .overflow ∨ er = .compress ∨ (er = .panicBody ∧ bodyToBytes P e p.body = none) := by
  cases hm : marshalBody P e p with
  | error er' =>
    have hret : (writePacket P F e p).ret = .error er' ∨ (writePacket P F e p).ret = .error .refcount := by
      unfold writePacket
      by_cases h1 : F.v2 = true ∧ p.refs.length > P.maxRefs
      · simp only [h1, and_self, if_true]; exact Or.inr trivial
      · simp only [h1, if_false, hm]; exact Or.inl trivial
    rcases hret with hret | hret
    · rw [hret] at h; injection h with h; subst h
      unfold marshalBody at hm
      cases hb : bodyToBytes P e p.body with
      | none => simp only [hb] at hm; injection hm with hm; exact Or.inr (Or.inr (Or.inr ⟨hm.symm, rfl⟩))
      | some b =>
        simp only [hb] at hm
        by_cases hthr : e.threshold > 0 ∧ b.length > e.threshold
        · simp only [hthr, and_self, if_true] at hm
          cases hz : e.compress b with
          | none => simp only [hz] at hm; injection hm with hm; exact Or.inr (Or.inr (Or.inl hm.symm))
          | some z =>
            simp only [hz] at hm
            cases henc : e.enc with
            | none => rw [henc] at hm; cases hm
            | some f => rw [henc] at hm; simp only at hm; split at hm <;> cases hm
        · simp only [hthr, if_false] at hm
          cases henc : e.enc with
          | none => rw [henc] at hm; cases hm
          | some f => rw [henc] at hm; simp only at hm; split at hm <;> cases hm
    · rw [hret] at h; injection h with h; exact Or.inl h.symm
  | ok wp =>
    obtain ⟨w, p'⟩ := wp
    rcases hF with hv | hv
    · rw [writePacket_v1 hv hm] at h
      split at h
      · injection h with h; exact Or.inr (Or.inl h.symm)
      · cases h
    · rw [writePacket_v2 hv hm] at h
      split at h
      · injection h with h; exact Or.inl h.symm
      · split at h
        · injection h with h; exact Or.inr (Or.inl h.symm)
        · cases h

/-! ### a small lawful environment for the non-vacuity examples -/

/-- "compression" prefixes a marker byte, the "cipher" reverses the byte string -/
def demoEnv : Env :=
  { threshold := 4
    compress := fun b => some (0x78 :: b)
    decompress := fun z => match z with
      | [] => none
      | _ :: b => some b
    enc := some List.reverse
    dec := some List.reverse
    putVarint := putVarint64
    varint := varint64 }

theorem demoEnv_lawful : demoEnv.Lawful where
  cmp := fun b => ⟨0x78 :: b, rfl, by simp, rfl⟩
  dec_enc := fun f hf => by
    have : f = List.reverse := by
      have h : some List.reverse = some f := hf
      injection h with h; exact h.symm
    subst this
    exact ⟨List.reverse, rfl, fun b => List.reverse_reverse b⟩
  enc_len := fun f hf b => by
    have : f = List.reverse := by
      have h : some List.reverse = some f := hf
      injection h with h; exact h.symm
    subst this
    exact List.length_reverse

/-! ### re-encoding the packet the encoder left behind -/
theorem or_or_self (a b : BitVec 8) : (a ||| b) ||| b = a ||| b := by
  rw [BitVec.or_assoc, BitVec.or_self]
theorem or_or_or_self (a b c : BitVec 8) : ((a ||| b) ||| c) ||| b = (a ||| b) ||| c := by
  ext i; simp; cases a[i] <;> cases b[i] <;> cases c[i] <;> simp

/-- the packet the encoder leaves behind (codec bits set) marshals to the same wire body and stays the same -/
theorem marshal_again (P : Params) (e : Env) (p p' : Pkt) (w : Bytes)
    (h : marshalBody P e p = .ok (w, p')) : marshalBody P e p' = .ok (w, p') := by
  unfold marshalBody at h ⊢
  cases hb : bodyToBytes P e p.body with
  | none => simp [hb] at h
  | some body =>
    simp only [hb] at h
    by_cases hc : e.threshold > 0 ∧ body.length > e.threshold
    · simp only [hc, and_self, if_true] at h
      cases hz : e.compress body with
      | none => simp [hz] at h
      | some z =>
        simp only [hz] at h
        cases he : e.enc with
        | none =>
          simp only [he] at h
          injection h with h; injection h with h1 h2; subst h1; subst h2
          simp [hb, hc, hz, or_or_self]
        | some f =>
          simp only [he] at h
          by_cases hl : z.length > 0
          · simp only [hl, if_true] at h
            injection h with h; injection h with h1 h2; subst h1; subst h2
            simp [hb, hc, hz, hl, or_or_or_self, or_or_self]
          · simp only [hl, if_false] at h
            injection h with h; injection h with h1 h2; subst h1; subst h2
            simp [hb, hc, hz, hl, or_or_self]
    · simp only [hc, if_false] at h
      cases he : e.enc with
      | none =>
        simp only [he] at h
        injection h with h; injection h with h1 h2; subst h1; subst h2
        simp [hb, hc]
      | some f =>
        simp only [he] at h
        by_cases hl : body.length > 0
        · simp only [hl, if_true] at h
          injection h with h; injection h with h1 h2; subst h1; subst h2
          simp [hb, hc, hl, or_or_self]
        · simp only [hl, if_false] at h
          injection h with h; injection h with h1 h2; subst h1; subst h2
          simp [hb, hc, hl]

end Fatchoy.Codec
