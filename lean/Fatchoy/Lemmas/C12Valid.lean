/-
C12: the decidable side-conditions on the facts regenerated from collections/queue.
-/
import Fatchoy.Model.C12
namespace Fatchoy.C12

/-- deque: the minimum capacity is a power of two (the `&`-mask arithmetic depends on it), `resize`
  doubles the element count and `shrinkIfExcess` fires at one quarter -/
def ValidD (P : Params) : Prop :=
  (∃ k, k < 63 ∧ P.minCapacity = 2 ^ k) ∧ P.growShift = 1 ∧ P.shrinkShift = 2

instance (P : Params) : Decidable (ValidD P) := by unfold ValidD; exact inferInstance

/-- queues: the slice sizes are never written outside the tests and `Push` uses them where the model
  does; every method of the concurrent queue is Lock…Unlock (for the read-only `Len` and `Front`
  possibly RLock…RUnlock) around exactly one call of the inner queue, and these four methods are all there are -/
def ValidQ (P : Params) : Prop :=
  P.sliceVarsConst = true ∧
  P.pushShape = "node:firstSliceSize,maxInternalSliceSize last:maxFirstSliceSize,maxInternalSliceSize" ∧
  P.cqMethods = "Dequeue:W:Pop Enqueue:W:Push Len:r:Len Peek:r:Front"

instance (P : Params) : Decidable (ValidQ P) := by unfold ValidQ; exact inferInstance

def Valid (P : Params) : Prop := ValidD P ∧ ValidQ P

instance (P : Params) : Decidable (Valid P) := by unfold Valid; exact inferInstance

end Fatchoy.C12
