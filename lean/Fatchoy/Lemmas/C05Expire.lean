/-
C05 helper lemmas, part 4: closed form of `expireNear` (what one pass over the detached bucket does to
the node list, the delivery log and the table), and its reading under the placement invariant.
-/
import Fatchoy.Lemmas.C05WheelList
namespace Fatchoy.C05

/-- not cancelled -/
def liveB (cancelled : List Nat) (n : WNode) : Bool := decide (n.id ∉ cancelled)

/-- the re-armed copy of a periodic node delivered at `time` -/
def rearm (G : Geom) (off time : Nat) (n : WNode) : WNode :=
  linkAt G off time { n with deadline := time + n.period }

@[simp] theorem rearm_id : (rearm G off time n).id = n.id := rfl
@[simp] theorem rearm_deadline : (rearm G off time n).deadline = time + n.period := rfl
@[simp] theorem rearm_period : (rearm G off time n).period = n.period := rfl

namespace WS

theorem expireOne_frame (G : Geom) (s : WS) (n : WNode) :
    (expireOne G s n).w.off = s.w.off ∧ (expireOne G s n).w.time = s.w.time ∧
    (expireOne G s n).f.cancelled = s.f.cancelled ∧ (expireOne G s n).f.addQ = s.f.addQ ∧
    (expireOne G s n).f.delQ = s.f.delQ ∧ (expireOne G s n).f.nextId = s.f.nextId := by
  unfold expireOne
  split
  · simp
  · split <;> simp [Front.deliver, Front.drop]

theorem expireOne_nodes (G : Geom) (s : WS) (n : WNode) :
    (expireOne G s n).w.nodes = s.w.nodes ++
      (if liveB s.f.cancelled n && decide (n.period > 0) then [rearm G s.w.off s.w.time n] else []) := by
  unfold expireOne liveB
  by_cases hc : n.id ∈ s.f.cancelled
  · simp [hc]
  · by_cases hp : n.period > 0
    · simp [hc, hp, rearm, link_eq_linkAt]
    · simp [hc, hp]

theorem expireOne_log (G : Geom) (s : WS) (n : WNode) :
    (expireOne G s n).f.log = (if liveB s.f.cancelled n then [(s.w.time, n.id)] else []) ++ s.f.log := by
  unfold expireOne liveB
  by_cases hc : n.id ∈ s.f.cancelled
  · simp [hc]
  · by_cases hp : n.period > 0
    · simp [hc, hp, Front.deliver]
    · simp [hc, hp, Front.deliver, Front.drop]

theorem expireOne_refer (G : Geom) (s : WS) (n : WNode) :
    (expireOne G s n).f.refer =
      (if liveB s.f.cancelled n && decide (n.period = 0) then s.f.refer.filter (· ≠ n.id) else s.f.refer) := by
  unfold expireOne liveB
  by_cases hc : n.id ∈ s.f.cancelled
  · simp [hc]
  · by_cases hp : n.period > 0
    · have : ¬ n.period = 0 := by omega
      simp [hc, hp, this, Front.deliver]
    · have : n.period = 0 := by omega
      simp [hc, this, Front.deliver, Front.drop]

/-- closed form of the loop of `expireNear` over a detached bucket `hit` -/
theorem expireList_spec (G : Geom) : ∀ (hit : List WNode) (s : WS),
    (expireList G s hit).w.off = s.w.off ∧ (expireList G s hit).w.time = s.w.time ∧
    (expireList G s hit).f.cancelled = s.f.cancelled ∧ (expireList G s hit).f.addQ = s.f.addQ ∧
    (expireList G s hit).f.delQ = s.f.delQ ∧ (expireList G s hit).f.nextId = s.f.nextId ∧
    (expireList G s hit).w.nodes = s.w.nodes ++
      (hit.filter (fun n => liveB s.f.cancelled n && decide (n.period > 0))).map (rearm G s.w.off s.w.time) ∧
    (expireList G s hit).f.log =
      ((hit.filter (liveB s.f.cancelled)).map (fun n => (s.w.time, n.id))).reverse ++ s.f.log ∧
    (expireList G s hit).f.refer = s.f.refer.filter (fun i =>
      !((hit.filter (fun n => liveB s.f.cancelled n && decide (n.period = 0))).map (·.id)).contains i) := by
  intro hit
  induction hit with
  | nil =>
    intro s
    have ht : ∀ l : List Nat, l.filter (fun _ => true) = l := fun l => List.filter_eq_self.mpr (fun _ _ => rfl)
    simp [expireList, ht]
  | cons n ns ih =>
    intro s
    simp only [expireList]
    obtain ⟨h1, h2, h3, h4, h5, h6, h7, h8, h9⟩ := ih (expireOne G s n)
    obtain ⟨f1, f2, f3, f4, f5, f6⟩ := expireOne_frame G s n
    rw [f1] at h1; rw [f2] at h2; rw [f3] at h3; rw [f4] at h4; rw [f5] at h5; rw [f6] at h6
    rw [f1, f2, f3, expireOne_nodes] at h7
    rw [f2, f3, expireOne_log] at h8
    rw [f3, expireOne_refer] at h9
    refine ⟨h1, h2, h3, h4, h5, h6, ?_, ?_, ?_⟩
    · rw [h7, List.filter_cons]
      split <;> simp
    · rw [h8, List.filter_cons]
      split <;> simp
    · rw [h9, List.filter_cons]
      split
      · simp only [List.map_cons, List.filter_filter]
        apply List.filter_congr
        intro i _
        by_cases hi : i = n.id <;> simp [hi]
      · rfl

end WS
end Fatchoy.C05
