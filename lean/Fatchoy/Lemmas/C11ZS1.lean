/-
C11, layer ZS (zset.go over the structural skip list): the pointer walks of `GetRange` and
`GetRangeByScore`, and the three read-only computations `Count`, `GetRange`, `GetRangeByScore` against
their layer-Z counterparts on the abstraction.
-/
import Fatchoy.Lemmas.C11SDelRange
import Fatchoy.Model.C11ZS
import Fatchoy.Lemmas.C11Z
namespace Fatchoy.C11
open S

/-- following `forward` from the first node of a chain suffix = walking the suffix -/
theorem walkFwd_spec {s : SList} {l : List Nat} (hI : Inv s l) :
    ∀ (n : Nat) (pre suf : List Nat), l = pre ++ suf →
      walkFwd s n suf.head? = walk (suf.map (nodeOf s)) n := by
  intro n
  induction n with
  | zero => intro pre suf _; cases suf <;> rfl
  | succ n ih =>
    intro pre suf hl
    cases suf with
    | nil => rfl
    | cons x r =>
      have hx : x ∈ l := by rw [hl]; simp
      have hx0 : x ≠ 0 := hI.ne_zero hx
      have hf : (cell s x 0).fwd = r.head? :=
        hI.fwd0 (pre := 0 :: pre) (x := x) (suf := r) (by rw [hl]; rfl)
      simp only [List.head?_cons, walkFwd, hx0, if_false, List.map_cons, walk]
      rw [hf, ih (pre ++ [x]) r (by rw [hl]; simp)]
      rfl

/-- following `backward` from the last node of a chain prefix = walking the reversed prefix -/
theorem walkBwd_spec {s : SList} {l : List Nat} (hI : Inv s l) :
    ∀ (n : Nat) (pre suf : List Nat), l = pre ++ suf →
      walkBwd s n pre.getLast? = walk (pre.reverse.map (nodeOf s)) n := by
  intro n
  induction n with
  | zero => intro pre suf _; cases h : pre.getLast? <;> cases h2 : pre.reverse <;> rfl
  | succ n ih =>
    intro pre suf hl
    rcases List.eq_nil_or_concat pre with hp | ⟨pre', x, hp⟩
    · subst hp; rfl
    · rw [List.concat_eq_append] at hp
      subst hp
      have hx : x ∈ l := by rw [hl]; simp
      have hx0 : x ≠ 0 := hI.ne_zero hx
      have hb : (nd s x).bwd = pre'.getLast? := hI.bwd pre' x suf (by rw [hl]; simp)
      simp only [List.getLast?_append, List.getLast?_singleton, Option.some_or, walkBwd, hx0, if_false,
        List.reverse_append, List.reverse_singleton, List.singleton_append, List.map_cons, walk]
      rw [hb, ih pre' (x :: suf) (by rw [hl]; simp)]
      rfl

/-- the forward loop of `GetRangeByScore` from the first node of a suffix -/
theorem collect_fwd {s : SList} {l : List Nat} (hI : Inv s l) (min max : Int) :
    ∀ (suf pre : List Nat), l = pre ++ suf → ∀ fuel, suf.length < fuel →
      collect s false min max fuel suf.head? =
        some (some (((suf.map (nodeOf s)).takeWhile (fun n => !(decide (n.score > max)))).map (·.ele))) := by
  intro suf
  induction suf with
  | nil => intro pre _ fuel hf; cases fuel with | zero => omega | succ f => rfl
  | cons x r ih =>
    intro pre hl fuel hf
    cases fuel with
    | zero => omega
    | succ fuel =>
      have hx : x ∈ l := by rw [hl]; simp
      have hx0 : x ≠ 0 := hI.ne_zero hx
      have hfw : (cell s x 0).fwd = r.head? :=
        hI.fwd0 (pre := 0 :: pre) (x := x) (suf := r) (by rw [hl]; rfl)
      have hsc : (nd s x).score = (nodeOf s x).score := rfl
      simp only [List.head?_cons, collect, Bool.false_eq_true, if_false, List.map_cons, hsc]
      by_cases hgt : (nodeOf s x).score > max
      · simp [hgt]
      · have hd : decide ((nodeOf s x).score > max) = false := by simpa using hgt
        simp only [hd, Bool.false_eq_true, if_false, hx0]
        rw [hfw, ih (pre ++ [x]) (by rw [hl]; simp) fuel (by simp at hf; omega)]
        rw [List.takeWhile_cons_of_pos (by simp [hd])]
        rfl

/-- the backward loop of `GetRangeByScore` from the last node of a prefix -/
theorem collect_bwd {s : SList} {l : List Nat} (hI : Inv s l) (min max : Int) :
    ∀ (n : Nat) (pre suf : List Nat), pre.length = n → l = pre ++ suf → ∀ fuel, pre.length < fuel →
      collect s true min max fuel pre.getLast? =
        some (some (((pre.reverse.map (nodeOf s)).takeWhile (fun n => !(decide (n.score < min)))).map (·.ele))) := by
  intro n
  induction n with
  | zero =>
    intro pre suf hn _ fuel hf
    have : pre = [] := List.eq_nil_of_length_eq_zero hn
    subst this
    cases fuel with | zero => omega | succ f => rfl
  | succ n ih =>
    intro pre suf hn hl fuel hf
    cases fuel with
    | zero => omega
    | succ fuel =>
      rcases List.eq_nil_or_concat pre with hp | ⟨pre', x, hp⟩
      · subst hp; simp at hn
      · rw [List.concat_eq_append] at hp
        subst hp
        have hx : x ∈ l := by rw [hl]; simp
        have hx0 : x ≠ 0 := hI.ne_zero hx
        have hb : (nd s x).bwd = pre'.getLast? := hI.bwd pre' x suf (by rw [hl]; simp)
        have hsc : (nd s x).score = (nodeOf s x).score := rfl
        simp only [List.getLast?_append, List.getLast?_singleton, Option.some_or, collect, if_true,
          List.reverse_append, List.reverse_singleton, List.singleton_append, List.map_cons, hsc]
        by_cases hlt : (nodeOf s x).score < min
        · simp [hlt]
        · have hd : decide ((nodeOf s x).score < min) = false := by simpa using hlt
          simp only [hd, Bool.false_eq_true, if_false, hx0]
          rw [hb, ih pre' (x :: suf) (by simp at hn; omega) (by rw [hl]; simp) fuel (by simp at hf; omega)]
          rw [List.takeWhile_cons_of_pos (by simp [hd])]
          rfl

/-- `Count` over the structure = `Count` over the content, when every node's rank is inside the
  `GetRank` contract (true whenever members are unique) -/
theorem countS_refines {s : SList} {l : List Nat} (hI : Inv s l) (min max : Int)
    (hcon : ∀ n ∈ abs s, L.RankContract (abs s) n.score n.ele) :
    countS s min max = some (countRange (abs s) min max) := by
  unfold countS countRange
  by_cases hmm : min > max
  · simp [hmm]
  · simp only [hmm, if_false]
    obtain ⟨p, hp1, hp2, hp3⟩ := firstInRange_refines hI min max
    rw [hp1, ← hp2]
    cases p with
    | none => rfl
    | some zn =>
      have hzn : nodeOf s zn ∈ abs s := by
        rw [hI.abs_eq]; exact List.mem_map_of_mem (hp3 zn rfl).1
      have hk : (nd s zn).score = (nodeOf s zn).score ∧ (nd s zn).ele = (nodeOf s zn).ele := ⟨rfl, rfl⟩
      simp only [Option.map_some]
      rw [hk.1, hk.2, getRank_refines hI _ _ (hcon _ hzn)]
      simp only []
      obtain ⟨q, hq1, hq2, hq3⟩ := lastInRange_refines hI min max
      rw [hq1, ← hq2]
      have hlen : s.length = ((abs s).length : Int) := by rw [hI.len, hI.abs_eq, List.length_map]
      cases q with
      | none => simp only [Option.map_none]; rw [hlen]
      | some zn2 =>
        have hzn2 : nodeOf s zn2 ∈ abs s := by
          rw [hI.abs_eq]; exact List.mem_map_of_mem (hq3 zn2 rfl).1
        have hk2 : (nd s zn2).score = (nodeOf s zn2).score ∧ (nd s zn2).ele = (nodeOf s zn2).ele := ⟨rfl, rfl⟩
        simp only [Option.map_some]
        rw [hk2.1, hk2.2, getRank_refines hI _ _ (hcon _ hzn2), hlen]

end Fatchoy.C11
