/-
Header lemmas of the codec model: for the two documented layouts (pinned by `ValidV1`/`ValidV2`),
`buildHeader` produces the documented bytes and every accessor reads back what `Pack` stored.
-/
import Fatchoy.Lemmas.CodecBasic
import Fatchoy.Lemmas.Crc32
namespace Fatchoy.Codec
open Fatchoy.Crc32
set_option linter.unusedSimpArgs false


/-- the checksum-covered part of the documented V1 header: len(2) type(1) flag(1) seq(2) cmd(4) -/
def preV1 (n typ flag seq cmd : Nat) : Bytes :=
  bePut 2 n ++ bePut 1 typ ++ bePut 1 flag ++ bePut 2 seq ++ bePut 4 cmd

/-- the checksum-covered part of the documented V2 header: len(3) type(1) flag(1) #ref(1) seq(2) node(4) cmd(4) -/
def preV2 (n typ flag nref seq node cmd : Nat) : Bytes :=
  bePut 3 n ++ bePut 1 typ ++ bePut 1 flag ++ bePut 1 nref ++ bePut 2 seq ++ bePut 4 node ++ bePut 4 cmd

theorem preV1_length (n typ flag seq cmd : Nat) : (preV1 n typ flag seq cmd).length = 10 := by
  simp [preV1, bePut_length]
theorem preV2_length (n typ flag nref seq node cmd : Nat) : (preV2 n typ flag nref seq node cmd).length = 16 := by
  simp [preV2, bePut_length]

/-- the checksum field: CRC-32 over covered header part, references, body -/
def frameCrc (pre refsB body : Bytes) : Nat := (crc32 (pre ++ refsB ++ body)).toNat

theorem buildHeader_v1 {F : Fmt} (hv : ValidV1 F) (p : Pkt) (nref n : Nat) (refsB body : Bytes) :
    buildHeader F p nref n refsB body =
      some (preV1 n p.typ.toNat p.flag.toNat p.seq.toNat p.cmd.toNat ++
        bePut 4 (frameCrc (preV1 n p.typ.toNat p.flag.toNat p.seq.toNat p.cmd.toNat) refsB body)) := by
  obtain ⟨_, hs, hp, hc, _, hcov, _⟩ := hv
  unfold buildHeader
  rw [hs, hp, hc, hcov]
  simp [packFields, v1PackL, putAt, bePut, zeros, List.replicate, packVal, preV1, frameCrc, crc32_table_eq]

theorem buildHeader_v2 {F : Fmt} (hv : ValidV2 F) (p : Pkt) (nref n : Nat) (refsB body : Bytes) :
    buildHeader F p nref n refsB body =
      some (preV2 n p.typ.toNat p.flag.toNat nref p.seq.toNat p.node.toNat p.cmd.toNat ++
        bePut 4 (frameCrc (preV2 n p.typ.toNat p.flag.toNat nref p.seq.toNat p.node.toNat p.cmd.toNat) refsB body)) := by
  obtain ⟨_, hs, hp, hc, _, hcov, _⟩ := hv
  unfold buildHeader
  rw [hs, hp, hc, hcov]
  simp [packFields, v2PackL, putAt, bePut, zeros, List.replicate, packVal, preV2, frameCrc, crc32_table_eq]

theorem field_v1 (n t f s c k : Nat) :
    let hdr := preV1 n t f s c ++ bePut 4 k
    field? v1GetL "len" hdr = some (n % 256 ^ 2) ∧ field? v1GetL "typ" hdr = some (t % 256 ^ 1) ∧
    field? v1GetL "flag" hdr = some (f % 256 ^ 1) ∧ field? v1GetL "seq" hdr = some (s % 256 ^ 2) ∧
    field? v1GetL "cmd" hdr = some (c % 256 ^ 4) ∧ field? v1GetL "crc" hdr = some (k % 256 ^ 4) := by
  intro hdr
  have hl : hdr.length = 14 := by simp [hdr, preV1, bePut_length]
  have e0 : hdr.take 2 = bePut 2 n := by simp [hdr, preV1, bePut]
  have e1 : (hdr.drop 2).take 1 = bePut 1 t := by simp [hdr, preV1, bePut]
  have e2 : (hdr.drop 3).take 1 = bePut 1 f := by simp [hdr, preV1, bePut]
  have e3 : (hdr.drop 4).take 2 = bePut 2 s := by simp [hdr, preV1, bePut]
  have e4 : (hdr.drop 6).take 4 = bePut 4 c := by simp [hdr, preV1, bePut]
  have e5 : (hdr.drop 10).take 4 = bePut 4 k := by simp [hdr, preV1, bePut]
  refine ⟨?_, ?_, ?_, ?_, ?_, ?_⟩ <;>
    simp only [field?, v1GetL, List.find?, hl] <;> simp [e0, e1, e2, e3, e4, e5, beGet_bePut]

theorem field_v2 (n t f r s d c k : Nat) :
    let hdr := preV2 n t f r s d c ++ bePut 4 k
    field? v2GetL "len" hdr = some (n % 256 ^ 3) ∧ field? v2GetL "typ" hdr = some (t % 256 ^ 1) ∧
    field? v2GetL "flag" hdr = some (f % 256 ^ 1) ∧ field? v2GetL "nref" hdr = some (r % 256 ^ 1) ∧
    field? v2GetL "seq" hdr = some (s % 256 ^ 2) ∧ field? v2GetL "node" hdr = some (d % 256 ^ 4) ∧
    field? v2GetL "cmd" hdr = some (c % 256 ^ 4) ∧ field? v2GetL "crc" hdr = some (k % 256 ^ 4) := by
  intro hdr
  have hl : hdr.length = 20 := by simp [hdr, preV2, bePut_length]
  have e0 : hdr.take 3 = bePut 3 n := by simp [hdr, preV2, bePut]
  have e1 : (hdr.drop 3).take 1 = bePut 1 t := by simp [hdr, preV2, bePut]
  have e2 : (hdr.drop 4).take 1 = bePut 1 f := by simp [hdr, preV2, bePut]
  have e3 : (hdr.drop 5).take 1 = bePut 1 r := by simp [hdr, preV2, bePut]
  have e4 : (hdr.drop 6).take 2 = bePut 2 s := by simp [hdr, preV2, bePut]
  have e5 : (hdr.drop 8).take 4 = bePut 4 d := by simp [hdr, preV2, bePut]
  have e6 : (hdr.drop 12).take 4 = bePut 4 c := by simp [hdr, preV2, bePut]
  have e7 : (hdr.drop 16).take 4 = bePut 4 k := by simp [hdr, preV2, bePut]
  refine ⟨?_, ?_, ?_, ?_, ?_, ?_, ?_, ?_⟩ <;>
    simp only [field?, v2GetL, List.find?, hl] <;> simp [e0, e1, e2, e3, e4, e5, e6, e7, beGet_bePut]

end Fatchoy.Codec
