/-
Concrete states used by the non-vacuity examples of Props/C05.lean and Props/C06.lean.
-/
import Fatchoy.Lemmas.C06
namespace Fatchoy.C05

instance (l : List WNode) (id D P : Nat) : Decidable (has l id D P) := by unfold has; exact inferInstance
instance (l : List HNode) (id D P : Nat) : Decidable (hhas l id D P) := by unfold hhas; exact inferInstance

/-- a wheel two ticks before the 2^32 wrap of its position, at time 7 -/
def exW0 : WS := WS.init (4294967294 - 7) 7
/-- a one-shot timer (id 1, delay 3: due after the wrap), a periodic one (id 2, period 2), a one-shot with
delay 300 (id 3, level 1), a one-shot with a delay far beyond 2^32 (id 4: clamped, parked in the last
level), all accepted; timer 5 started and cancelled before the worker saw either request -/
def exActs : List Act :=
  [.after 3, .add, .every 2, .after 300, .add, .add, .after 8589934592000, .add, .after 1, .cancel 5]
def exW : WS := (WS.run geom exW0 exActs).getD exW0
theorem exW_run : WS.run geom exW0 exActs = some exW := by rfl
theorem exW_reach : WReach geom exW := WReach.run exActs (WReach.init _ _) exW_run

def exH0 : HS := HS.init 1000
def exH : HS := (HS.run geom exH0 exActs).getD exH0
theorem exH_run : HS.run geom exH0 exActs = some exH := by rfl
theorem exH_reach : HReach geom exH := HReach.run exActs (HReach.init _) exH_run

end Fatchoy.C05
