/-
C05 helper lemmas, part 7: one timer id followed through `expireNear`, through the position
increment + `shiftWheels`, and through a whole `tick`; preservation of the back-end invariant.
-/
import Fatchoy.Lemmas.C05Track
namespace Fatchoy.C05

/-- the node list holds timer `id` with deadline `D` and period `P` -/
def has (l : List WNode) (id D P : Nat) : Prop := ∃ n ∈ l, n.id = id ∧ n.deadline = D ∧ n.period = P

theorem nodup_id_inj {l : List WNode} (hnd : (ids l).Nodup) {a b : WNode} (ha : a ∈ l) (hb : b ∈ l)
    (he : a.id = b.id) : a = b := by
  have h1 := filter_id_singleton l hnd a ha
  have h2 : b ∈ l.filter (fun m => m.id == a.id) := by
    simp [List.mem_filter, hb, he]
  rw [h1] at h2
  exact (List.mem_singleton.mp h2).symm

theorem mem_ids {l : List WNode} {i : Nat} : i ∈ ids l ↔ ∃ n ∈ l, n.id = i := by
  simp [ids]

namespace WS

section
variable (c : Nat) (s : WS) (h : ∀ n ∈ s.w.nodes, NodeOK s.w.off s.w.time n) (hnd : (ids s.w.nodes).Nodup)
include h hnd

theorem expire_nodup : (ids (expire (litGeom c) s).w.nodes).Nodup := by
  obtain ⟨_, _, _, _, _, _, h7, _, _⟩ := expire_spec c s h
  rw [h7]
  unfold ids
  rw [List.map_append, List.map_map]
  have e : ((fun n : WNode => n.id) ∘ rearm (litGeom c) s.w.off s.w.time) = (fun n : WNode => n.id) := by
    funext n; rfl
  rw [e, ← List.map_append]
  have hsub : (s.w.nodes.filter (fun n => !dueB s.w.time n) ++
      (s.w.nodes.filter (dueB s.w.time)).filter (fun n => liveB s.f.cancelled n && decide (n.period > 0))).Sublist
      (s.w.nodes.filter (fun n => !dueB s.w.time n) ++ s.w.nodes.filter (dueB s.w.time)) :=
    List.Sublist.append (List.Sublist.refl _) List.filter_sublist
  have hperm : (s.w.nodes.filter (fun n => !dueB s.w.time n) ++ s.w.nodes.filter (dueB s.w.time)).Perm s.w.nodes :=
    List.perm_append_comm.trans (List.filter_append_perm _ _)
  have hn2 : ((s.w.nodes.filter (fun n => !dueB s.w.time n) ++ s.w.nodes.filter (dueB s.w.time)).map (·.id)).Nodup :=
    (hperm.map _).nodup_iff.mpr hnd
  exact (hsub.map _).nodup hn2

/-- a timer that is not due is untouched by `expireNear` -/
theorem expire_keep (id D P : Nat) (hh : has s.w.nodes id D P) (hD : D ≠ s.w.time) :
    has (expire (litGeom c) s).w.nodes id D P ∧
    entries (expire (litGeom c) s).f.log id = entries s.f.log id ∧
    (id ∈ (expire (litGeom c) s).f.refer ↔ id ∈ s.f.refer) := by
  obtain ⟨n, hn, rfl, rfl, rfl⟩ := hh
  refine ⟨⟨n, (mem_expire_nodes c s h n).mpr (.inl ⟨hn, hD⟩), rfl, rfl, rfl⟩, ?_, ?_⟩
  · rw [expire_log_entries c s h, filter_id_singleton _ hnd n hn]
    have : dueB s.w.time n = false := by simp [dueB, hD]
    simp [this]
  · rw [mem_expire_refer c s h]
    constructor
    · exact fun x => x.1
    · intro x
      refine ⟨x, ?_⟩
      rintro ⟨m, hm, hi, hd, _, _⟩
      have := nodup_id_inj hnd hm hn hi
      subst this
      exact hD hd

/-- a one-shot timer that is due and not cancelled is delivered (once) and leaves wheel and table -/
theorem expire_oneshot (id : Nat) (hh : has s.w.nodes id s.w.time 0) (hl : id ∉ s.f.cancelled) :
    id ∉ ids (expire (litGeom c) s).w.nodes ∧ id ∉ (expire (litGeom c) s).f.refer ∧
    entries (expire (litGeom c) s).f.log id = (s.w.time, id) :: entries s.f.log id := by
  obtain ⟨n, hn, rfl, hd, hp⟩ := hh
  refine ⟨?_, ?_, ?_⟩
  · rw [mem_ids]
    rintro ⟨m, hm, hi⟩
    rcases (mem_expire_nodes c s h m).mp hm with ⟨hm', hmd⟩ | ⟨n', hn', _, _, hp', rfl⟩
    · have := nodup_id_inj hnd hm' hn hi
      subst this
      exact hmd hd
    · have := nodup_id_inj hnd hn' hn hi
      subst this
      omega
  · rw [mem_expire_refer c s h]
    rintro ⟨_, hx⟩
    exact hx ⟨n, hn, rfl, hd, hl, hp⟩
  · rw [expire_log_entries c s h, filter_id_singleton _ hnd n hn]
    have h1 : dueB s.w.time n = true := by simp [dueB, hd]
    have h2 : liveB s.f.cancelled n = true := by simp [liveB, hl]
    simp [h1, h2]

/-- a periodic timer that is due and not cancelled is delivered (once) and re-armed one period later -/
theorem expire_periodic (id P : Nat) (hh : has s.w.nodes id s.w.time P) (hP : P > 0) (hl : id ∉ s.f.cancelled) :
    has (expire (litGeom c) s).w.nodes id (s.w.time + P) P ∧
    entries (expire (litGeom c) s).f.log id = (s.w.time, id) :: entries s.f.log id ∧
    (id ∈ (expire (litGeom c) s).f.refer ↔ id ∈ s.f.refer) := by
  obtain ⟨n, hn, rfl, hd, rfl⟩ := hh
  refine ⟨⟨rearm (litGeom c) s.w.off s.w.time n, (mem_expire_nodes c s h _).mpr (.inr ⟨n, hn, hd, hl, hP, rfl⟩),
    rfl, rfl, rfl⟩, ?_, ?_⟩
  · rw [expire_log_entries c s h, filter_id_singleton _ hnd n hn]
    have h1 : dueB s.w.time n = true := by simp [dueB, hd]
    have h2 : liveB s.f.cancelled n = true := by simp [liveB, hl]
    simp [h1, h2]
  · rw [mem_expire_refer c s h]
    constructor
    · exact fun x => x.1
    · intro x
      refine ⟨x, ?_⟩
      rintro ⟨m, hm, hi, _, _, hp⟩
      have := nodup_id_inj hnd hm hn hi
      subst this
      omega

/-- a cancelled timer that is due is unlinked without a delivery -/
theorem expire_cancelled (id P : Nat) (hh : has s.w.nodes id s.w.time P) (hl : id ∈ s.f.cancelled) :
    id ∉ ids (expire (litGeom c) s).w.nodes ∧
    entries (expire (litGeom c) s).f.log id = entries s.f.log id ∧
    (id ∈ (expire (litGeom c) s).f.refer ↔ id ∈ s.f.refer) := by
  obtain ⟨n, hn, rfl, hd, rfl⟩ := hh
  refine ⟨?_, ?_, ?_⟩
  · rw [mem_ids]
    rintro ⟨m, hm, hi⟩
    rcases (mem_expire_nodes c s h m).mp hm with ⟨hm', hmd⟩ | ⟨n', hn', _, hl', _, rfl⟩
    · have := nodup_id_inj hnd hm' hn hi
      subst this
      exact hmd hd
    · have := nodup_id_inj hnd hn' hn hi
      subst this
      exact hl' hl
  · rw [expire_log_entries c s h, filter_id_singleton _ hnd n hn]
    have h2 : liveB s.f.cancelled n = false := by simp [liveB, hl]
    simp [h2]
  · rw [mem_expire_refer c s h]
    constructor
    · exact fun x => x.1
    · intro x
      refine ⟨x, ?_⟩
      rintro ⟨m, hm, hi, _, hl', _⟩
      have := nodup_id_inj hnd hm hn hi
      subst this
      exact hl' hl

omit hnd in
/-- an id that is not in the wheel stays out and sees no delivery -/
theorem expire_absent (id : Nat) (hh : id ∉ ids s.w.nodes) :
    id ∉ ids (expire (litGeom c) s).w.nodes ∧
    entries (expire (litGeom c) s).f.log id = entries s.f.log id ∧
    (id ∈ (expire (litGeom c) s).f.refer ↔ id ∈ s.f.refer) := by
  refine ⟨?_, ?_, ?_⟩
  · rw [mem_ids]
    rintro ⟨m, hm, hi⟩
    rcases (mem_expire_nodes c s h m).mp hm with ⟨hm', _⟩ | ⟨n', hn', _, _, _, rfl⟩
    · exact hh (mem_ids.mpr ⟨m, hm', hi⟩)
    · exact hh (mem_ids.mpr ⟨n', hn', hi⟩)
  · rw [expire_log_entries c s h, filter_id_nil _ _ hh]
    simp
  · rw [mem_expire_refer c s h]
    constructor
    · exact fun x => x.1
    · intro x
      refine ⟨x, ?_⟩
      rintro ⟨m, hm, hi, _⟩
      exact hh (mem_ids.mpr ⟨m, hm, hi⟩)

end

end WS
end Fatchoy.C05

namespace Fatchoy.C05
namespace WS

/-- the state between the two passes of a tick: counters moved on, `shiftWheels` done -/
def mid (G : Geom) (s : WS) : WS := { s with w := Wheel.shift G { s.w with time := s.w.time + 1 } }

theorem tick_eq (G : Geom) (s : WS) : tick G s = expire G (mid G (expire G s)) := rfl

@[simp] theorem mid_f (G : Geom) (s : WS) : (mid G s).f = s.f := rfl
theorem mid_off (G : Geom) (s : WS) : (mid G s).w.off = s.w.off := (Wheel.shift_spec G _).1
theorem mid_time (G : Geom) (s : WS) : (mid G s).w.time = s.w.time + 1 := (Wheel.shift_spec G _).2.1
theorem mid_perm (G : Geom) (s : WS) :
    (mid G s).w.nodes.Perm (s.w.nodes.map (shiftNode G s.w.off (s.w.time + 1))) := (Wheel.shift_spec G _).2.2

theorem mem_mid (G : Geom) (s : WS) (m : WNode) :
    m ∈ (mid G s).w.nodes ↔ ∃ n ∈ s.w.nodes, m = shiftNode G s.w.off (s.w.time + 1) n := by
  rw [(mid_perm G s).mem_iff, List.mem_map]
  constructor
  · rintro ⟨n, hn, rfl⟩; exact ⟨n, hn, rfl⟩
  · rintro ⟨n, hn, rfl⟩; exact ⟨n, hn, rfl⟩

theorem mid_has (G : Geom) (s : WS) (id D P : Nat) : has (mid G s).w.nodes id D P ↔ has s.w.nodes id D P := by
  unfold has
  constructor
  · rintro ⟨m, hm, h1, h2, h3⟩
    obtain ⟨n, hn, rfl⟩ := (mem_mid G s m).mp hm
    obtain ⟨c1, c2, c3⟩ := shiftNode_core G s.w.off (s.w.time + 1) n
    exact ⟨n, hn, c1 ▸ h1, c2 ▸ h2, c3 ▸ h3⟩
  · rintro ⟨n, hn, h1, h2, h3⟩
    obtain ⟨c1, c2, c3⟩ := shiftNode_core G s.w.off (s.w.time + 1) n
    exact ⟨_, (mem_mid G s _).mpr ⟨n, hn, rfl⟩, c1.trans h1, c2.trans h2, c3.trans h3⟩

theorem mid_ids_perm (G : Geom) (s : WS) : (ids (mid G s).w.nodes).Perm (ids s.w.nodes) := by
  have := (mid_perm G s).map (·.id)
  rw [List.map_map] at this
  have e : ((fun n : WNode => n.id) ∘ shiftNode G s.w.off (s.w.time + 1)) = (fun n : WNode => n.id) := by
    funext n; exact (shiftNode_core G s.w.off (s.w.time + 1) n).1
  rw [e] at this
  exact this

theorem mid_mem_ids (G : Geom) (s : WS) (i : Nat) : i ∈ ids (mid G s).w.nodes ↔ i ∈ ids s.w.nodes :=
  (mid_ids_perm G s).mem_iff

/-- after the first pass nothing is due any more, so the increment + `shiftWheels` restores the invariant -/
theorem mid_ok (c : Nat) (s : WS) (h : ∀ n ∈ s.w.nodes, NodeOK s.w.off s.w.time n ∧ n.deadline ≠ s.w.time) :
    ∀ m ∈ (mid (litGeom c) s).w.nodes, NodeOK (mid (litGeom c) s).w.off (mid (litGeom c) s).w.time m := by
  intro m hm
  obtain ⟨n, hn, rfl⟩ := (mem_mid _ s m).mp hm
  rw [mid_off, mid_time]
  exact shiftNode_ok c (pending_of_ok (h n hn).1 (h n hn).2)

/-- after `expireNear` every node is still placed correctly and none is due -/
theorem expire_ok (c : Nat) (s : WS) (h : ∀ n ∈ s.w.nodes, NodeOK s.w.off s.w.time n) :
    ∀ m ∈ (expire (litGeom c) s).w.nodes, NodeOK s.w.off s.w.time m ∧ m.deadline ≠ s.w.time := by
  intro m hm
  rcases (mem_expire_nodes c s h m).mp hm with ⟨hm', hd⟩ | ⟨n, hn, _, _, hp, rfl⟩
  · exact ⟨h m hm', hd⟩
  · refine ⟨?_, ?_⟩
    · exact linkAt_ok c _ _ _ (by simp)
    · simp; omega

/-- `tick` preserves the back-end invariant -/
theorem tick_ok (c : Nat) (s : WS) (h : WheelOK s.w) : WheelOK (tick (litGeom c) s).w := by
  have e1 := expire_ok c s h.ok
  obtain ⟨f1, f2, _⟩ := expire_frame c s h.ok
  have n1 := expire_nodup c s h.ok h.nodup
  let s1 := expire (litGeom c) s
  have hm : ∀ n ∈ s1.w.nodes, NodeOK s1.w.off s1.w.time n ∧ n.deadline ≠ s1.w.time := by
    intro n hn; rw [f1, f2]; exact e1 n hn
  have m1 := mid_ok c s1 hm
  let s2 := mid (litGeom c) s1
  have n2 : (ids s2.w.nodes).Nodup := (mid_ids_perm _ s1).nodup_iff.mpr n1
  have e2 := expire_ok c s2 m1
  obtain ⟨g1, g2, _⟩ := expire_frame c s2 m1
  rw [tick_eq]
  exact ⟨fun n hn => by rw [g1, g2]; exact (e2 n hn).1, expire_nodup c s2 m1 n2⟩

end WS
end Fatchoy.C05

namespace Fatchoy.C05
namespace WS

/-- the facts about the middle of a tick that the tracking lemmas need -/
theorem tick_stages (c : Nat) (s : WS) (h : WheelOK s.w) :
    (∀ n ∈ (mid (litGeom c) (expire (litGeom c) s)).w.nodes,
      NodeOK (mid (litGeom c) (expire (litGeom c) s)).w.off (mid (litGeom c) (expire (litGeom c) s)).w.time n) ∧
    (ids (mid (litGeom c) (expire (litGeom c) s)).w.nodes).Nodup ∧
    (mid (litGeom c) (expire (litGeom c) s)).w.time = s.w.time + 1 ∧
    (mid (litGeom c) (expire (litGeom c) s)).w.off = s.w.off ∧
    (mid (litGeom c) (expire (litGeom c) s)).f.cancelled = s.f.cancelled := by
  have e1 := expire_ok c s h.ok
  obtain ⟨f1, f2, f3, _⟩ := expire_frame c s h.ok
  have n1 := expire_nodup c s h.ok h.nodup
  have hm : ∀ n ∈ (expire (litGeom c) s).w.nodes,
      NodeOK (expire (litGeom c) s).w.off (expire (litGeom c) s).w.time n ∧ n.deadline ≠ (expire (litGeom c) s).w.time := by
    intro n hn; rw [f1, f2]; exact e1 n hn
  refine ⟨mid_ok c _ hm, (mid_ids_perm _ _).nodup_iff.mpr n1, ?_, ?_, ?_⟩
  · rw [mid_time, f2]
  · rw [mid_off, f1]
  · rw [mid_f, f3]

theorem tick_frame (c : Nat) (s : WS) (h : WheelOK s.w) :
    (tick (litGeom c) s).w.off = s.w.off ∧ (tick (litGeom c) s).w.time = s.w.time + 1 ∧
    (tick (litGeom c) s).f.cancelled = s.f.cancelled ∧ (tick (litGeom c) s).f.addQ = s.f.addQ ∧
    (tick (litGeom c) s).f.delQ = s.f.delQ ∧ (tick (litGeom c) s).f.nextId = s.f.nextId := by
  obtain ⟨m1, _, m3, m4, m5⟩ := tick_stages c s h
  obtain ⟨f1, f2, f3, f4, f5, f6⟩ := expire_frame c s h.ok
  obtain ⟨g1, g2, g3, g4, g5, g6⟩ := expire_frame c _ m1
  rw [tick_eq]
  refine ⟨g1.trans m4, g2.trans m3, g3.trans m5, ?_, ?_, ?_⟩
  · rw [g4, mid_f, f4]
  · rw [g5, mid_f, f5]
  · rw [g6, mid_f, f6]

section
variable (c : Nat) (s : WS) (h : WheelOK s.w)
include h

/-- a timer due later than the tick reaches is untouched by the tick -/
theorem tick_keep (id D P : Nat) (hh : has s.w.nodes id D P) (h1 : D ≠ s.w.time) (h2 : D ≠ s.w.time + 1) :
    has (tick (litGeom c) s).w.nodes id D P ∧
    entries (tick (litGeom c) s).f.log id = entries s.f.log id ∧
    (id ∈ (tick (litGeom c) s).f.refer ↔ id ∈ s.f.refer) := by
  obtain ⟨m1, m2, m3, _, _⟩ := tick_stages c s h
  obtain ⟨a1, a2, a3⟩ := expire_keep c s h.ok h.nodup id D P hh h1
  have hh2 := (mid_has (litGeom c) _ id D P).mpr a1
  obtain ⟨b1, b2, b3⟩ := expire_keep c _ m1 m2 id D P hh2 (by rw [m3]; exact h2)
  rw [tick_eq]
  exact ⟨b1, b2.trans (by rw [mid_f]; exact a2), b3.trans (by rw [mid_f]; exact a3)⟩

/-- a one-shot timer due at the time the tick starts from (delay 0) is delivered by the first pass -/
theorem tick_oneshot_now (id : Nat) (hh : has s.w.nodes id s.w.time 0) (hl : id ∉ s.f.cancelled) :
    id ∉ ids (tick (litGeom c) s).w.nodes ∧ id ∉ (tick (litGeom c) s).f.refer ∧
    entries (tick (litGeom c) s).f.log id = (s.w.time, id) :: entries s.f.log id := by
  obtain ⟨m1, _, _, _, _⟩ := tick_stages c s h
  obtain ⟨a1, a2, a3⟩ := expire_oneshot c s h.ok h.nodup id hh hl
  have hh2 : id ∉ ids (mid (litGeom c) (expire (litGeom c) s)).w.nodes := by rw [mid_mem_ids]; exact a1
  obtain ⟨b1, b2, b3⟩ := expire_absent c _ m1 id hh2
  rw [tick_eq]
  refine ⟨b1, ?_, b2.trans (by rw [mid_f]; exact a3)⟩
  rw [b3, mid_f]; exact a2

/-- a one-shot timer due at the time the tick reaches is delivered by the second pass -/
theorem tick_oneshot_next (id : Nat) (hh : has s.w.nodes id (s.w.time + 1) 0) (hl : id ∉ s.f.cancelled) :
    id ∉ ids (tick (litGeom c) s).w.nodes ∧ id ∉ (tick (litGeom c) s).f.refer ∧
    entries (tick (litGeom c) s).f.log id = (s.w.time + 1, id) :: entries s.f.log id := by
  obtain ⟨m1, m2, m3, _, m5⟩ := tick_stages c s h
  obtain ⟨a1, a2, _⟩ := expire_keep c s h.ok h.nodup id _ 0 hh (by omega)
  have hh2 := (mid_has (litGeom c) _ id _ 0).mpr a1
  rw [← m3] at hh2
  obtain ⟨b1, b2, b3⟩ := expire_oneshot c _ m1 m2 id hh2 (by rw [m5]; exact hl)
  rw [tick_eq]
  refine ⟨b1, b2, ?_⟩
  rw [b3, m3, mid_f, a2]

/-- a periodic timer due at the time the tick reaches is delivered by the second pass and re-armed -/
theorem tick_periodic_next (id P : Nat) (hh : has s.w.nodes id (s.w.time + 1) P) (hP : P > 0) (hl : id ∉ s.f.cancelled) :
    has (tick (litGeom c) s).w.nodes id (s.w.time + 1 + P) P ∧
    entries (tick (litGeom c) s).f.log id = (s.w.time + 1, id) :: entries s.f.log id ∧
    (id ∈ (tick (litGeom c) s).f.refer ↔ id ∈ s.f.refer) := by
  obtain ⟨m1, m2, m3, _, m5⟩ := tick_stages c s h
  obtain ⟨a1, a2, a3⟩ := expire_keep c s h.ok h.nodup id _ P hh (by omega)
  have hh2 := (mid_has (litGeom c) _ id _ P).mpr a1
  rw [← m3] at hh2
  obtain ⟨b1, b2, b3⟩ := expire_periodic c _ m1 m2 id P hh2 hP (by rw [m5]; exact hl)
  rw [tick_eq]
  rw [m3] at b1 b2
  refine ⟨b1, ?_, b3.trans (by rw [mid_f]; exact a3)⟩
  rw [b2, mid_f, a2]

/-- a cancelled timer is never delivered by a tick -/
theorem tick_cancelled (id D P : Nat) (hh : has s.w.nodes id D P) (hl : id ∈ s.f.cancelled) :
    entries (tick (litGeom c) s).f.log id = entries s.f.log id ∧
    (id ∈ (tick (litGeom c) s).f.refer ↔ id ∈ s.f.refer) := by
  obtain ⟨m1, m2, m3, _, m5⟩ := tick_stages c s h
  rw [tick_eq]
  by_cases h1 : D = s.w.time
  · subst h1
    obtain ⟨a1, a2, a3⟩ := expire_cancelled c s h.ok h.nodup id P hh hl
    have hh2 : id ∉ ids (mid (litGeom c) (expire (litGeom c) s)).w.nodes := by rw [mid_mem_ids]; exact a1
    obtain ⟨_, b2, b3⟩ := expire_absent c _ m1 id hh2
    exact ⟨b2.trans (by rw [mid_f]; exact a2), b3.trans (by rw [mid_f]; exact a3)⟩
  · obtain ⟨a1, a2, a3⟩ := expire_keep c s h.ok h.nodup id D P hh h1
    have hh2 := (mid_has (litGeom c) _ id D P).mpr a1
    by_cases h2 : D = s.w.time + 1
    · subst h2
      rw [← m3] at hh2
      obtain ⟨_, b2, b3⟩ := expire_cancelled c _ m1 m2 id P hh2 (by rw [m5]; exact hl)
      exact ⟨b2.trans (by rw [mid_f]; exact a2), b3.trans (by rw [mid_f]; exact a3)⟩
    · obtain ⟨_, b2, b3⟩ := expire_keep c _ m1 m2 id D P hh2 (by rw [m3]; exact h2)
      exact ⟨b2.trans (by rw [mid_f]; exact a2), b3.trans (by rw [mid_f]; exact a3)⟩

/-- an id that is not in the wheel is not affected by a tick -/
theorem tick_absent (id : Nat) (hh : id ∉ ids s.w.nodes) :
    id ∉ ids (tick (litGeom c) s).w.nodes ∧
    entries (tick (litGeom c) s).f.log id = entries s.f.log id ∧
    (id ∈ (tick (litGeom c) s).f.refer ↔ id ∈ s.f.refer) := by
  obtain ⟨m1, _, _, _, _⟩ := tick_stages c s h
  obtain ⟨a1, a2, a3⟩ := expire_absent c s h.ok id hh
  have hh2 : id ∉ ids (mid (litGeom c) (expire (litGeom c) s)).w.nodes := by rw [mid_mem_ids]; exact a1
  obtain ⟨b1, b2, b3⟩ := expire_absent c _ m1 id hh2
  rw [tick_eq]
  exact ⟨b1, b2.trans (by rw [mid_f]; exact a2), b3.trans (by rw [mid_f]; exact a3)⟩

end

end WS
end Fatchoy.C05
