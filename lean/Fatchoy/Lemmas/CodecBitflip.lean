/-
Single-bit damage (C02, stretch): lemmas about `flipBit` on byte strings and the theorem that a
frame with one flipped bit outside its length field fails the checksum comparison.
-/
import Fatchoy.Lemmas.CodecC02
import Fatchoy.Lemmas.Crc32
namespace Fatchoy.Codec
open Fatchoy.Crc32
set_option linter.unusedSimpArgs false


theorem flipBit_length (a : Bytes) (i : Nat) : (flipBit a i).length = a.length := by
  induction a generalizing i with
  | nil => rfl
  | cons b bs ih =>
    unfold flipBit
    by_cases h : i < 8 <;> simp [h, ih]

theorem flipBit_append_left (a b : Bytes) (i : Nat) (h : i < 8 * a.length) : flipBit (a ++ b) i = flipBit a i ++ b := by
  induction a generalizing i with
  | nil => simp at h
  | cons x xs ih =>
    simp only [List.cons_append]
    unfold flipBit
    by_cases h8 : i < 8
    · simp [h8]
    · simp only [h8, if_false, List.cons_append]
      rw [ih (i - 8) (by simp at h; omega)]

theorem flipBit_append_right (a b : Bytes) (i : Nat) (h : 8 * a.length ≤ i) :
    flipBit (a ++ b) i = a ++ flipBit b (i - 8 * a.length) := by
  induction a generalizing i with
  | nil => simp
  | cons x xs ih =>
    simp only [List.cons_append]
    have h8 : ¬ i < 8 := by simp at h; omega
    rw [flipBit]
    simp only [h8, if_false]
    rw [ih (i - 8) (by simp at h; omega)]
    have : i - 8 - 8 * xs.length = i - 8 * (x :: xs).length := by simp only [List.length_cons]; omega
    rw [this]

theorem take_flipBit (a : Bytes) (i L : Nat) (h : 8 * L ≤ i) : (flipBit a i).take L = a.take L := by
  induction a generalizing i L with
  | nil => rfl
  | cons x xs ih =>
    cases L with
    | zero => simp
    | succ L =>
      unfold flipBit
      have h8 : ¬ i < 8 := by omega
      simp only [h8, if_false, List.take_succ_cons]
      rw [ih (i - 8) L (by omega)]

/-- a flip changes the byte string (a consequence of `crc32_flip`) -/
theorem flipBit_ne (a : Bytes) (i : Nat) (h : i < 8 * a.length) : flipBit a i ≠ a := by
  intro hc
  exact crc32_flip a i h (by rw [hc])

/-- width of the length field -/
def lenWidth (F : Fmt) : Nat := if F.v2 then 3 else 2

theorem len_field_eq {F : Fmt} (hF : ValidFmt F) {hdr : Bytes} (hl : hdr.length = F.headerSize) :
    field? F.get "len" hdr = some (beGet (hdr.take (lenWidth F))) := by
  rcases hF with hv | hv
  · obtain ⟨h2, hs, _, _, hg, _⟩ := hv
    rw [hs] at hl
    simp [field?, hg, v1GetL, List.find?, hl, lenWidth, h2]
  · obtain ⟨h2, hs, _, _, hg, _⟩ := hv
    rw [hs] at hl
    simp [field?, hg, v2GetL, List.find?, hl, lenWidth, h2]

theorem cover_facts {F : Fmt} (hF : ValidFmt F) : F.crcCover + 4 = F.headerSize ∧ lenWidth F ≤ F.crcCover := by
  rcases hF with hv | hv
  · obtain ⟨h2, hs, _, _, _, hc, _⟩ := hv
    simp [hs, hc, lenWidth, h2]
  · obtain ⟨h2, hs, _, _, _, hc, _⟩ := hv
    simp [hs, hc, lenWidth, h2]

/-- a checksum field that differs from the CRC-32 of covered header part and payload -/
theorem unmarshal_crc_error {P : Params} {F : Fmt} (hF : ValidFmt F) (e : Env) {hdr pl : Bytes}
    (hl : hdr.length = F.headerSize)
    (h : (crc32 (hdr.take F.crcCover ++ pl)).toNat ≠ beGet (hdr.drop F.crcCover)) :
    unmarshal P F e hdr pl = .error .crc := by
  rcases hF with hv | hv
  · have hl' : hdr.length = 14 := by rw [hl, hv.2.1]
    rw [unmarshal_any_v1 hv e hdr pl hl']
    rw [hv.2.2.2.2.2.1] at h
    have : (hdr.drop 10).take 4 = hdr.drop 10 := List.take_of_length_le (by rw [List.length_drop]; omega)
    rw [this, if_pos h]
  · have hl' : hdr.length = 20 := by rw [hl, hv.2.1]
    rw [unmarshal_any_v2 hv e hdr pl hl']
    rw [hv.2.2.2.2.2.1] at h
    have : (hdr.drop 16).take 4 = hdr.drop 16 := List.take_of_length_le (by rw [List.length_drop]; omega)
    rw [this, if_pos h]

/-- one flipped bit outside the length field of a frame with a correct checksum: the read fails the
    checksum comparison, whatever follows on the stream -/
theorem bitflip_frame {P : Params} {F : Fmt} (hF : ValidFmt F) (e : Env) {hdr pl tail : Bytes} {n : Nat}
    (hl : hdr.length = F.headerSize) (hn : field? F.get "len" hdr = some n)
    (hnn : n = F.headerSize + pl.length) (hmax : n ≤ F.max)
    (hcrc : (crc32 (hdr.take F.crcCover ++ pl)).toNat = beGet (hdr.drop F.crcCover))
    (i : Nat) (hlo : 8 * lenWidth F ≤ i) (hi : i < 8 * (F.headerSize + pl.length)) {cs : Chunks}
    (hcs : flat cs = flipBit (hdr ++ pl) i ++ tail) :
    (readPacket P F e cs).res = .error .crc := by
  obtain ⟨hcov, hlw⟩ := cover_facts hF
  have hnlen : n = beGet (hdr.take (lenWidth F)) := by
    have := len_field_eq hF hl; rw [hn] at this; injection this
  -- the damaged header and payload
  have key : ∃ hdr' pl', flipBit (hdr ++ pl) i = hdr' ++ pl' ∧ hdr'.length = F.headerSize ∧ pl'.length = pl.length ∧
      hdr'.take (lenWidth F) = hdr.take (lenWidth F) ∧
      (crc32 (hdr'.take F.crcCover ++ pl')).toNat ≠ beGet (hdr'.drop F.crcCover) := by
    have hsplit : hdr = hdr.take F.crcCover ++ hdr.drop F.crcCover := (List.take_append_drop _ _).symm
    have hA : (hdr.take F.crcCover).length = F.crcCover := by rw [List.length_take]; omega
    have hC : (hdr.drop F.crcCover).length = 4 := by rw [List.length_drop]; omega
    by_cases hh : i < 8 * F.headerSize
    · rw [flipBit_append_left _ _ _ (by rw [hl]; exact hh)]
      refine ⟨flipBit hdr i, pl, rfl, by rw [flipBit_length, hl], rfl, take_flipBit _ _ _ hlo, ?_⟩
      by_cases hc : i < 8 * F.crcCover
      · -- the flip is in the covered part of the header
        have hfl := flipBit_append_left (hdr.take F.crcCover) (hdr.drop F.crcCover) i (by rw [hA]; exact hc)
        rw [List.take_append_drop] at hfl
        have ht : (flipBit hdr i).take F.crcCover = flipBit (hdr.take F.crcCover) i := by
          rw [hfl, take_pre (by rw [flipBit_length, hA])]
        have hd : (flipBit hdr i).drop F.crcCover = hdr.drop F.crcCover := by
          rw [hfl, List.drop_left' (by rw [flipBit_length, hA])]
        rw [ht, hd, ← hcrc, ← flipBit_append_left _ _ _ (by rw [hA]; exact hc)]
        intro heq
        exact crc32_flip (hdr.take F.crcCover ++ pl) i (by rw [List.length_append, hA]; omega)
          (BitVec.eq_of_toNat_eq heq)
      · -- the flip is in the checksum field
        have hfl := flipBit_append_right (hdr.take F.crcCover) (hdr.drop F.crcCover) i (by rw [hA]; omega)
        rw [List.take_append_drop, hA] at hfl
        have ht : (flipBit hdr i).take F.crcCover = hdr.take F.crcCover := by rw [hfl, take_pre hA]
        have hd : (flipBit hdr i).drop F.crcCover = flipBit (hdr.drop F.crcCover) (i - 8 * F.crcCover) := by
          rw [hfl, List.drop_left' hA]
        rw [ht, hd, hcrc]
        intro heq
        exact flipBit_ne (hdr.drop F.crcCover) (i - 8 * F.crcCover) (by rw [hC]; omega)
          (beGet_inj _ _ (flipBit_length _ _) heq.symm)
    · -- the flip is in the payload
      rw [flipBit_append_right _ _ _ (by rw [hl]; omega), hl]
      refine ⟨hdr, flipBit pl (i - 8 * F.headerSize), rfl, hl, flipBit_length _ _, rfl, ?_⟩
      rw [← hcrc]
      have hfl := flipBit_append_right (hdr.take F.crcCover) pl (i - 8 * 4) (by rw [hA]; omega)
      rw [hA] at hfl
      have hidx : i - 8 * 4 - 8 * F.crcCover = i - 8 * F.headerSize := by omega
      rw [hidx] at hfl
      rw [← hfl]
      intro heq
      exact crc32_flip (hdr.take F.crcCover ++ pl) (i - 8 * 4) (by rw [List.length_append, hA]; omega)
        (BitVec.eq_of_toNat_eq heq)
  obtain ⟨hdr', pl', hfl, hl', hpl', htk, hbad⟩ := key
  have hn' : field? F.get "len" hdr' = some n := by rw [len_field_eq hF hl', htk, ← hnlen]
  obtain ⟨hres, _⟩ := readPacket_complete (P := P) hF e (cs := cs) (hdr := hdr') (pl := pl') (tail := tail)
    (by rw [hcs, hfl, List.append_assoc]) hl' hn' (by rw [hpl']; exact hnn) hmax
  rw [hres]
  exact unmarshal_crc_error hF e hl' hbad




/-- `UnmarshalPacket` answers "checksum mismatch" exactly when the checksum field differs from the
    CRC-32 of covered header part and payload -/
theorem unmarshal_crc_iff {P : Params} {F : Fmt} (hF : ValidFmt F) (e : Env) {hdr pl : Bytes}
    (hl : hdr.length = F.headerSize) :
    unmarshal P F e hdr pl = .error .crc ↔ (crc32 (hdr.take F.crcCover ++ pl)).toNat ≠ beGet (hdr.drop F.crcCover) := by
  refine ⟨fun h => ?_, fun h => unmarshal_crc_error hF e hl h⟩
  intro heq
  rcases hF with hv | hv
  · have hl' : hdr.length = 14 := by rw [hl, hv.2.1]
    rw [unmarshal_any_v1 hv e hdr pl hl'] at h
    rw [hv.2.2.2.2.2.1] at heq
    have : (hdr.drop 10).take 4 = hdr.drop 10 := List.take_of_length_le (by rw [List.length_drop]; omega)
    rw [this, if_neg (fun hc => hc heq)] at h
    rcases unmarshalPayload_no_panic h with h | h | h <;> cases h
  · have hl' : hdr.length = 20 := by rw [hl, hv.2.1]
    rw [unmarshal_any_v2 hv e hdr pl hl'] at h
    rw [hv.2.2.2.2.2.1] at heq
    have : (hdr.drop 16).take 4 = hdr.drop 16 := List.take_of_length_le (by rw [List.length_drop]; omega)
    rw [this, if_neg (fun hc => hc heq)] at h
    rcases unmarshalPayload_no_panic h with h | h | h <;> cases h

/-- one flipped bit INSIDE the length field of a frame with a correct checksum, anything following:
    with `n'` the damaged length and `rest` the bytes behind the header, the read is refused
    (`n'` outside [header, max]), ends in end-of-stream (`rest` too short), or is `UnmarshalPacket`
    of the damaged header and the first `n' - header` bytes of `rest` — and that passes the checksum
    comparison exactly when the CRC-32 of the new covered bytes `m'` equals that of the old ones `m`,
    two different byte strings: a CRC collision. -/
theorem lenflip_frame {P : Params} {F : Fmt} (hF : ValidFmt F) (hlo : F.readLo = F.headerSize) (e : Env)
    {hdr pl tail : Bytes}
    (hl : hdr.length = F.headerSize)
    (hcrc : (crc32 (hdr.take F.crcCover ++ pl)).toNat = beGet (hdr.drop F.crcCover))
    (i : Nat) (hi : i < 8 * lenWidth F) {cs : Chunks} (hcs : flat cs = flipBit (hdr ++ pl) i ++ tail) :
    ∃ n', field? F.get "len" (flipBit hdr i) = some n' ∧
      (n' < F.headerSize ∨ n' > F.max → (readPacket P F e cs).res = .error .overflow) ∧
      (F.headerSize ≤ n' → n' ≤ F.max → (pl ++ tail).length < n' - F.headerSize →
        (readPacket P F e cs).res = .error .eof ∨ (readPacket P F e cs).res = .error .short) ∧
      (F.headerSize ≤ n' → n' ≤ F.max → n' - F.headerSize ≤ (pl ++ tail).length →
        let m := hdr.take F.crcCover ++ pl
        let m' := (flipBit hdr i).take F.crcCover ++ (pl ++ tail).take (n' - F.headerSize)
        (readPacket P F e cs).res = unmarshal P F e (flipBit hdr i) ((pl ++ tail).take (n' - F.headerSize)) ∧
        m' ≠ m ∧
        ((readPacket P F e cs).res = .error .crc ↔ crc32 m' ≠ crc32 m)) := by
  obtain ⟨hcov, hlw⟩ := cover_facts hF
  obtain ⟨hsub, hhi, hle, _, hbits, hmb, _⟩ := fmt_facts hF
  have hl' : (flipBit hdr i).length = F.headerSize := by rw [flipBit_length, hl]
  have hres : ∀ er, (readHeadBody F cs).res = .error er → (readPacket P F e cs).res = .error er := by
    intro er h; unfold readPacket; simp only [h]
  have hfl : flipBit (hdr ++ pl) i = flipBit hdr i ++ pl :=
    flipBit_append_left _ _ _ (by rw [hl]; omega)
  have hcs' : flat cs = flipBit hdr i ++ (pl ++ tail) := by rw [hcs, hfl, List.append_assoc]
  obtain ⟨n', hn', hn24, hn16⟩ := len_field hF hl'
  -- the damaged header: covered part changed, checksum field unchanged
  have hA : (hdr.take F.crcCover).length = F.crcCover := by rw [List.length_take]; omega
  have hflA := flipBit_append_left (hdr.take F.crcCover) (hdr.drop F.crcCover) i (by rw [hA]; omega)
  rw [List.take_append_drop] at hflA
  have ht : (flipBit hdr i).take F.crcCover = flipBit (hdr.take F.crcCover) i := by
    rw [hflA, take_pre (by rw [flipBit_length, hA])]
  have hd : (flipBit hdr i).drop F.crcCover = hdr.drop F.crcCover := by
    rw [hflA, List.drop_left' (by rw [flipBit_length, hA])]
  refine ⟨n', hn', fun hbad => ?_, fun h1 h2 h3 => ?_, fun h1 h2 h3 => ?_⟩
  · exact hres _ (readHeadBody_refused hl' hn' (by rw [hlo, hhi]; exact hbad) hcs').1
  · have hg : ¬ (n' < F.readLo ∨ n' > F.readHi) := by rw [hlo, hhi]; omega
    have hsw : subWrap F.lenBits n' F.readSub = n' - F.headerSize := by
      rw [hsub, subWrap_eq (by omega) (by omega)]
    obtain ⟨⟨er, e1, e2⟩, _⟩ := readHeadBody_short_payload (rest := pl ++ tail) hl' hn' hg (by rw [hsw]; exact h3) hcs'
    rcases e2 with e2 | e2 <;> subst e2
    · exact Or.inl (hres _ e1)
    · exact Or.inr (hres _ e1)
  · intro m m'
    have hpl' : ((pl ++ tail).take (n' - F.headerSize)).length = n' - F.headerSize := by
      rw [List.length_take]; omega
    obtain ⟨hr, _⟩ := readPacket_complete (P := P) hF e (cs := cs) (hdr := flipBit hdr i)
      (pl := (pl ++ tail).take (n' - F.headerSize)) (tail := (pl ++ tail).drop (n' - F.headerSize))
      (by rw [hcs', List.take_append_drop]) hl' hn' (by rw [hpl']; omega) h2
    have hne : m' ≠ m := by
      intro heq
      have := (List.append_inj heq (by rw [ht, flipBit_length, hA])).1
      rw [ht] at this
      exact flipBit_ne _ i (by rw [hA]; omega) this
    refine ⟨hr, hne, ?_⟩
    rw [hr, unmarshal_crc_iff hF e hl', hd, ← hcrc]
    constructor
    · intro h hc; exact h (by rw [hc])
    · intro h hc; exact h (BitVec.eq_of_toNat_eq hc)


end Fatchoy.Codec
