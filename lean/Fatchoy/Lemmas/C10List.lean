/-
C10 helper lemmas, part 1: sorted association lists (the specification side).
-/
import Fatchoy.Model.C10Spec
namespace Fatchoy.C10

def AllLt (l : List Entry) (k : Nat) : Prop := ∀ e ∈ l, e.1 < k
def AllGt (l : List Entry) (k : Nat) : Prop := ∀ e ∈ l, k < e.1

theorem AllLt.append {a b : List Entry} {k : Nat} (ha : AllLt a k) (hb : AllLt b k) : AllLt (a ++ b) k := by
  intro e he; rcases List.mem_append.mp he with h | h
  · exact ha e h
  · exact hb e h

theorem AllGt.append {a b : List Entry} {k : Nat} (ha : AllGt a k) (hb : AllGt b k) : AllGt (a ++ b) k := by
  intro e he; rcases List.mem_append.mp he with h | h
  · exact ha e h
  · exact hb e h

theorem AllLt.nil {k : Nat} : AllLt [] k := by intro e he; cases he
theorem AllGt.nil {k : Nat} : AllGt [] k := by intro e he; cases he

theorem AllLt.mono {a : List Entry} {k k' : Nat} (h : AllLt a k) (hk : k ≤ k') : AllLt a k' :=
  fun e he => Nat.lt_of_lt_of_le (h e he) hk
theorem AllGt.mono {a : List Entry} {k k' : Nat} (h : AllGt a k) (hk : k' ≤ k) : AllGt a k' :=
  fun e he => Nat.lt_of_le_of_lt hk (h e he)

theorem sorted_append {a b : List Entry} :
    Sorted (a ++ b) ↔ Sorted a ∧ Sorted b ∧ ∀ x ∈ a, ∀ y ∈ b, x.1 < y.1 := by
  unfold Sorted; exact List.pairwise_append

theorem sorted_cons {e : Entry} {l : List Entry} : Sorted (e :: l) ↔ AllGt l e.1 ∧ Sorted l := by
  unfold Sorted AllGt; exact List.pairwise_cons

/-- the shape every in-order listing has around one node -/
theorem sorted_mid {a b : List Entry} {k : Nat} {v : Int} :
    Sorted (a ++ (k, v) :: b) ↔ Sorted a ∧ Sorted b ∧ AllLt a k ∧ AllGt b k ∧ ∀ x ∈ a, ∀ y ∈ b, x.1 < y.1 := by
  rw [sorted_append, sorted_cons]
  constructor
  · rintro ⟨ha, ⟨hgt, hb⟩, hab⟩
    refine ⟨ha, hb, fun e he => hab e he _ (List.mem_cons_self ..), hgt, fun x hx y hy => hab x hx y (List.mem_cons_of_mem _ hy)⟩
  · rintro ⟨ha, hb, hlt, hgt, hab⟩
    refine ⟨ha, ⟨hgt, hb⟩, fun x hx y hy => ?_⟩
    rcases List.mem_cons.mp hy with rfl | hy
    · exact hlt x hx
    · exact hab x hx y hy

theorem mem_insertS {k : Nat} {v : Int} {l : List Entry} {e : Entry} (h : e ∈ insertS k v l) :
    e = (k, v) ∨ e ∈ l := by
  induction l with
  | nil => simp [insertS] at h; exact .inl h
  | cons a rest ih =>
    unfold insertS at h
    split at h
    · rcases List.mem_cons.mp h with h | h
      · exact .inl h
      · exact .inr h
    · split at h
      · rcases List.mem_cons.mp h with h | h
        · exact .inr (h ▸ List.mem_cons_self ..)
        · rcases ih h with h | h
          · exact .inl h
          · exact .inr (List.mem_cons_of_mem _ h)
      · rcases List.mem_cons.mp h with h | h
        · exact .inl h
        · exact .inr (List.mem_cons_of_mem _ h)

theorem insertS_sorted {k : Nat} {v : Int} {l : List Entry} (h : Sorted l) : Sorted (insertS k v l) := by
  induction l with
  | nil => simp [insertS, Sorted]
  | cons a rest ih =>
    obtain ⟨hgt, hs⟩ := sorted_cons.mp h
    unfold insertS
    split
    · rename_i hlt
      refine sorted_cons.mpr ⟨?_, h⟩
      intro e he
      rcases List.mem_cons.mp he with rfl | he
      · exact hlt
      · exact Nat.lt_trans hlt (hgt e he)
    · split
      · rename_i hlt
        refine sorted_cons.mpr ⟨?_, ih hs⟩
        intro e he
        rcases mem_insertS he with rfl | he
        · exact hlt
        · exact hgt e he
      · rename_i h1 h2
        have : k = a.1 := by omega
        refine sorted_cons.mpr ⟨?_, hs⟩
        intro e he; simpa [this] using hgt e he

/-- inserting between a part entirely below and a part entirely above -/
theorem insertS_new {k : Nat} {v : Int} {a b : List Entry} (ha : AllLt a k) (hb : AllGt b k) :
    insertS k v (a ++ b) = a ++ (k, v) :: b := by
  induction a with
  | nil =>
    cases b with
    | nil => rfl
    | cons e rest =>
      have : k < e.1 := hb e (List.mem_cons_self ..)
      simp [insertS, this]
  | cons e rest ih =>
    have h1 : e.1 < k := ha e (List.mem_cons_self ..)
    have h2 : ¬ k < e.1 := by omega
    simp only [List.cons_append, insertS, h1, h2, if_true, if_false]
    rw [ih (fun x hx => ha x (List.mem_cons_of_mem _ hx))]

/-- replacing the value of a key that is present -/
theorem insertS_replace {k : Nat} {v old : Int} {a b : List Entry} (ha : AllLt a k) :
    insertS k v (a ++ (k, old) :: b) = a ++ (k, v) :: b := by
  induction a with
  | nil => simp [insertS]
  | cons e rest ih =>
    have h1 : e.1 < k := ha e (List.mem_cons_self ..)
    have h2 : ¬ k < e.1 := by omega
    simp only [List.cons_append, insertS, h1, h2, if_true, if_false]
    rw [ih (fun x hx => ha x (List.mem_cons_of_mem _ hx))]

theorem filter_ne_of_allLt {k : Nat} {a : List Entry} (ha : AllLt a k) : a.filter (fun e => e.1 != k) = a := by
  apply List.filter_eq_self.mpr
  intro e he
  have := ha e he
  simp; omega

theorem filter_ne_of_allGt {k : Nat} {a : List Entry} (ha : AllGt a k) : a.filter (fun e => e.1 != k) = a := by
  apply List.filter_eq_self.mpr
  intro e he
  have := ha e he
  simp; omega

theorem eraseS_present {k : Nat} {v : Int} {a b : List Entry} (ha : AllLt a k) (hb : AllGt b k) :
    eraseS k (a ++ (k, v) :: b) = a ++ b := by
  unfold eraseS
  rw [List.filter_append, List.filter_cons, filter_ne_of_allLt ha, filter_ne_of_allGt hb]
  simp

theorem eraseS_absent {k : Nat} {a b : List Entry} (ha : AllLt a k) (hb : AllGt b k) :
    eraseS k (a ++ b) = a ++ b := by
  unfold eraseS
  rw [List.filter_append, filter_ne_of_allLt ha, filter_ne_of_allGt hb]

theorem eraseS_sorted {k : Nat} {l : List Entry} (h : Sorted l) : Sorted (eraseS k l) :=
  List.Pairwise.filter _ h

theorem find_none_of_allLt {k : Nat} {a : List Entry} (ha : AllLt a k) : a.find? (fun e => e.1 == k) = none := by
  apply List.find?_eq_none.mpr
  intro e he; have := ha e he; simp; omega

theorem find_none_of_allGt {k : Nat} {a : List Entry} (ha : AllGt a k) : a.find? (fun e => e.1 == k) = none := by
  apply List.find?_eq_none.mpr
  intro e he; have := ha e he; simp; omega

theorem lookupS_present {k : Nat} {v : Int} {a b : List Entry} (ha : AllLt a k) :
    lookupS k (a ++ (k, v) :: b) = some v := by
  unfold lookupS
  rw [List.find?_append, find_none_of_allLt ha]
  simp

theorem lookupS_absent {k : Nat} {a b : List Entry} (ha : AllLt a k) (hb : AllGt b k) :
    lookupS k (a ++ b) = none := by
  unfold lookupS
  rw [List.find?_append, find_none_of_allLt ha, find_none_of_allGt hb]
  simp

/-! ### the specification is a map (no tree involved) -/

theorem lookupS_cons (k : Nat) (e : Entry) (l : List Entry) :
    lookupS k (e :: l) = if e.1 = k then some e.2 else lookupS k l := by
  unfold lookupS
  rw [List.find?_cons]
  by_cases h : e.1 = k
  · simp [h]
  · have : (e.1 == k) = false := by simp [h]
    simp [h, this]

theorem lookupS_insertS_same (l : List Entry) (k : Nat) (v : Int) : lookupS k (insertS k v l) = some v := by
  induction l with
  | nil => simp [insertS, lookupS]
  | cons e rest ih =>
    unfold insertS
    split
    · simp [lookupS_cons]
    · split
      · rename_i h1 h2
        have : e.1 ≠ k := by omega
        simp [lookupS_cons, this, ih]
      · simp [lookupS_cons]

theorem lookupS_insertS_other (l : List Entry) {k k' : Nat} (hk : k' ≠ k) (v : Int) :
    lookupS k' (insertS k v l) = lookupS k' l := by
  induction l with
  | nil => simp [insertS, Ne.symm hk, lookupS]
  | cons e rest ih =>
    unfold insertS
    split
    · simp [lookupS_cons, Ne.symm hk]
    · split
      · simp [lookupS_cons, ih]
      · rename_i h1 h2
        have : e.1 = k := by omega
        have h3 : e.1 ≠ k' := by omega
        simp [lookupS_cons, Ne.symm hk, h3]

theorem lookupS_eraseS_same (l : List Entry) (k : Nat) : lookupS k (eraseS k l) = none := by
  unfold lookupS eraseS
  simp only [Option.map_eq_none_iff]
  apply List.find?_eq_none.mpr
  intro e he
  have := (List.mem_filter.mp he).2
  simpa using this

theorem lookupS_eraseS_other (l : List Entry) {k k' : Nat} (hk : k' ≠ k) :
    lookupS k' (eraseS k l) = lookupS k' l := by
  induction l with
  | nil => rfl
  | cons e rest ih =>
    unfold eraseS at ih ⊢
    rw [List.filter_cons]
    by_cases h : e.1 = k
    · have h3 : e.1 ≠ k' := by omega
      simp [h, lookupS_cons, ih]
      intro h4; omega
    · simp [h, lookupS_cons, ih]

end Fatchoy.C10
