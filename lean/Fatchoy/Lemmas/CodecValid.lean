/-
Side-conditions on the regenerated codec parameters (C01, C02): what the proofs need from the source.
`Valid01` is what the round-trip / layout theorems use; `Valid02` adds the lower range guards of
the three readers (repair of D1).  Both are decidable; `C01_valid` / `C02_valid` discharge them for the
regenerated parameters by `decide`.
-/
import Fatchoy.Model.Codec
namespace Fatchoy.Codec

/-- the documented V1 header: len(2) type(1) flag(1) seq(2) cmd(4) crc(4) -/
def v1PackL : Layout := [("len", 0, 2), ("typ", 2, 1), ("flag", 3, 1), ("seq", 4, 2), ("cmd", 6, 4)]
def v1GetL : Layout := [("len", 0, 2), ("typ", 2, 1), ("flag", 3, 1), ("seq", 4, 2), ("cmd", 6, 4), ("crc", 10, 4)]
/-- the documented V2 header: len(3) type(1) flag(1) #ref(1) seq(2) node(4) cmd(4) crc(4) -/
def v2PackL : Layout :=
  [("len", 0, 3), ("typ", 3, 1), ("flag", 4, 1), ("nref", 5, 1), ("seq", 6, 2), ("node", 8, 4), ("cmd", 12, 4)]
def v2GetL : Layout :=
  [("len", 0, 3), ("typ", 3, 1), ("flag", 4, 1), ("nref", 5, 1), ("seq", 6, 2), ("node", 8, 4), ("cmd", 12, 4), ("crc", 16, 4)]

/-- V1: Pack and the accessors use the documented layout, the checksum is the IEEE CRC-32 of the first
    ten header bytes and the body stored in the last four, the length is a 16-bit value, writer and
    reader use the format's maximum, which fits the length field. -/
def ValidV1 (F : Fmt) : Prop :=
  F.v2 = false ∧ F.headerSize = 14 ∧ F.pack = v1PackL ∧ F.setCrc = (10, 4) ∧ F.get = v1GetL ∧
  F.crcCover = 10 ∧ F.crcParts = "head,payload" ∧ F.crcCtor = "crc32.NewIEEE()" ∧
  F.lenBits = 16 ∧ F.readSub = 14 ∧ F.writeMax = F.max ∧ F.readHi = F.max ∧ F.readLo ≤ 14 ∧
  14 ≤ F.max ∧ F.max < 2 ^ 16
instance (F : Fmt) : Decidable (ValidV1 F) := by unfold ValidV1; infer_instance

def ValidV2 (F : Fmt) : Prop :=
  F.v2 = true ∧ F.headerSize = 20 ∧ F.pack = v2PackL ∧ F.setCrc = (16, 4) ∧ F.get = v2GetL ∧
  F.crcCover = 16 ∧ F.crcParts = "head,refer,payload" ∧ F.crcCtor = "crc32.NewIEEE()" ∧
  F.lenBits = 32 ∧ F.readSub = 20 ∧ F.writeMax = F.max ∧ F.readHi = F.max ∧ F.readLo ≤ 20 ∧
  20 ≤ F.max ∧ F.max < 2 ^ 24
instance (F : Fmt) : Decidable (ValidV2 F) := by unfold ValidV2; infer_instance

/-- a format the theorems are about: one of the two -/
def ValidFmt (F : Fmt) : Prop := ValidV1 F ∨ ValidV2 F
instance (F : Fmt) : Decidable (ValidFmt F) := by unfold ValidFmt; infer_instance

/-- the flag bits and the reference limit -/
def ValidFlags (P : Params) : Prop :=
  P.flagCompressed = 1 ∧ P.flagEncrypted = 2 ∧ P.flagError = 16 ∧ P.maxRefs = 255
instance (P : Params) : Decidable (ValidFlags P) := by unfold ValidFlags; infer_instance

def Valid01 (P : Params) : Prop := ValidV1 P.v1 ∧ ValidV2 P.v2 ∧ ValidFlags P
instance (P : Params) : Decidable (Valid01 P) := by unfold Valid01; infer_instance

/-- the lower range guards of the readers (D1): a length below the header size is refused;
    a codec bit on an empty body is not ignored -/
def ValidGuards (P : Params) : Prop :=
  P.v1.readLo = P.v1.headerSize ∧ P.v2.readLo = P.v2.headerSize ∧
  P.v1.bodyStepOnFlags = true ∧ P.v2.bodyStepOnFlags = true ∧
  P.ldHeader = 2 ∧ P.ldLenBits = 16 ∧ P.ldReadSub = 2 ∧ P.ldReadLo = 2
instance (P : Params) : Decidable (ValidGuards P) := by unfold ValidGuards; infer_instance

/-- the length-prefixed reader/writer pair (`ReadLenData` / `WriteLenData`): a 16-bit big-endian
    prefix that counts itself; the writer refuses what does not fit below the field maximum; the
    reader accepts every length from the prefix size up.  The writer's return value (`ldRetAdd`) is
    deliberately not constrained: the theorems state it as it is. -/
def ValidLd (P : Params) : Prop :=
  P.ldHeader = 2 ∧ P.ldLenBits = 16 ∧ P.ldReadSub = 2 ∧ P.ldReadLo ≤ 2 ∧
  P.ldWriteAdd = 2 ∧ P.ldWriteHeader = 2 ∧ P.ldWriteHi = 65534
instance (P : Params) : Decidable (ValidLd P) := by unfold ValidLd; infer_instance

def Valid02 (P : Params) : Prop := Valid01 P ∧ ValidGuards P
instance (P : Params) : Decidable (Valid02 P) := by unfold Valid02; infer_instance

end Fatchoy.Codec
