/-
C10 helper lemmas, part 2: the in-order listing through every tree operation
(rotations and recolourings never change it; descent finds the place the sorted list dictates).
-/
import Fatchoy.Lemmas.C10List
namespace Fatchoy.C10

/-- entries to the left of the hole of a path, in order -/
def pathL : Path → List Entry
  | [] => []
  | f :: p => pathL p ++ (match f.dir with | .R => toList f.sib ++ [(f.k, f.v)] | .L => [])

/-- entries to the right of the hole of a path, in order -/
def pathR : Path → List Entry
  | [] => []
  | f :: p => (match f.dir with | .L => (f.k, f.v) :: toList f.sib | .R => []) ++ pathR p

@[simp] theorem toList_nil : toList .nil = [] := rfl
@[simp] theorem toList_node : toList (.node c l k v r) = toList l ++ (k, v) :: toList r := rfl
@[simp] theorem toList_blacken : toList (blacken t) = toList t := by cases t <;> rfl
@[simp] theorem pathL_nil : pathL [] = [] := rfl
@[simp] theorem pathR_nil : pathR [] = [] := rfl
@[simp] theorem pathL_consL : pathL ({ dir := .L, c := c, k := k, v := v, sib := s } :: p) = pathL p := by
  simp [pathL]
@[simp] theorem pathL_consR : pathL ({ dir := .R, c := c, k := k, v := v, sib := s } :: p) = pathL p ++ (toList s ++ [(k, v)]) := by
  simp [pathL]
@[simp] theorem pathR_consL : pathR ({ dir := .L, c := c, k := k, v := v, sib := s } :: p) = (k, v) :: (toList s ++ pathR p) := by
  simp [pathR]
@[simp] theorem pathR_consR : pathR ({ dir := .R, c := c, k := k, v := v, sib := s } :: p) = pathR p := by
  simp [pathR]

theorem toList_fill (f : Frame) (t : Tree) :
    toList (fill f t) = (match f.dir with | .R => toList f.sib ++ [(f.k, f.v)] | .L => []) ++ toList t ++
      (match f.dir with | .L => (f.k, f.v) :: toList f.sib | .R => []) := by
  unfold fill; cases f.dir <;> simp

theorem toList_plug : ∀ (p : Path) (t : Tree), toList (plug p t) = pathL p ++ toList t ++ pathR p
  | [], t => by simp [plug]
  | f :: p, t => by
    simp only [plug, toList_plug p, toList_fill, pathL, pathR, List.append_assoc]

/-- induction over a path two frames at a time (the insertion fix-up climbs to the grandparent) -/
theorem path_ind2 {P : Path → Prop} (h0 : P []) (h1 : ∀ f, P [f])
    (h2 : ∀ f g rest, P rest → P (f :: g :: rest)) : ∀ p, P p
  | [] => h0
  | [f] => h1 f
  | f :: g :: rest => h2 f g rest (path_ind2 h0 h1 h2 rest)

theorem toList_insFix : ∀ (p : Path) (xl : Tree) (xk : Nat) (xv : Int) (xr : Tree),
    toList (insFix xl xk xv xr p) = pathL p ++ (toList xl ++ (xk, xv) :: toList xr) ++ pathR p := by
  intro p
  induction p using path_ind2 with
  | h0 => intro xl xk xv xr; simp [insFix]
  | h1 f =>
    intro xl xk xv xr
    unfold insFix
    split
    · rw [toList_fill]; simp [pathL, pathR]
    · rcases f with ⟨d, c, k, v, s⟩
      cases d <;> simp
  | h2 f g rest ih =>
    intro xl xk xv xr
    unfold insFix
    split
    · rw [toList_plug]; simp
    · rcases f with ⟨fd, fc, fk, fv, fs⟩
      rcases g with ⟨gd, gc, gk, gv, gs⟩
      split
      · rename_i ul uk uv ur hsib
        simp only at hsib
        subst hsib
        cases gd <;> cases fd <;> simp [ih, fill]
      · cases gd <;> cases fd <;> simp [toList_plug]

/-- the tree inside either outcome of a fix-up step -/
def stepTree : Sum Tree Tree → Tree
  | .inl t => t
  | .inr t => t

theorem toList_caseL (pc : Color) (x : Tree) (pk : Nat) (pv : Int) (sib : Tree) :
    toList (stepTree (caseL pc x pk pv sib)) = toList x ++ (pk, pv) :: toList sib := by
  unfold caseL
  split
  · simp [stepTree]
  · split
    · simp [stepTree]
    · split
      · split <;> simp [stepTree]
      · simp [stepTree]

theorem toList_caseR (pc : Color) (x : Tree) (pk : Nat) (pv : Int) (sib : Tree) :
    toList (stepTree (caseR pc x pk pv sib)) = toList sib ++ (pk, pv) :: toList x := by
  unfold caseR
  split
  · simp [stepTree]
  · split
    · simp [stepTree]
    · split
      · split <;> simp [stepTree]
      · simp [stepTree]

theorem toList_delFix : ∀ (p : Path) (x : Tree), toList (delFix x p) = pathL p ++ toList x ++ pathR p
  | [], x => by simp [delFix]
  | f :: rest, x => by
    rcases f with ⟨fd, fc, fk, fv, fs⟩
    unfold delFix
    split
    · simp [toList_plug]
    · split
      · rename_i sl sk sv sr hd hs
        simp only at hd hs; subst hd; subst hs
        have := toList_caseL .red x fk fv sl
        split <;> rename_i t heq <;> rw [heq] at this <;> simp [stepTree] at this <;> simp [toList_plug, this]
      · rename_i sib hd hnr
        simp only at hd; subst hd
        have := toList_caseL fc x fk fv fs
        split <;> rename_i t heq <;> rw [heq] at this <;> simp [stepTree] at this
        · rw [toList_delFix rest t, this]; simp
        · simp [toList_plug, this]
      · rename_i sl sk sv sr hd hs
        simp only at hd hs; subst hd; subst hs
        have := toList_caseR .red x fk fv sr
        split <;> rename_i t heq <;> rw [heq] at this <;> simp [stepTree] at this <;> simp [toList_plug, this]
      · rename_i sib hd hnr
        simp only at hd; subst hd
        have := toList_caseR fc x fk fv fs
        split <;> rename_i t heq <;> rw [heq] at this <;> simp [stepTree] at this
        · rw [toList_delFix rest t, this]; simp
        · simp [toList_plug, this]

theorem toList_spliceOut (c : Color) (repl : Tree) (p : Path) :
    toList (spliceOut c repl p) = pathL p ++ toList repl ++ pathR p := by
  unfold spliceOut; split
  · exact toList_delFix p repl
  · exact toList_plug p repl

/-- the leftmost node: first of the listing; the walk to it only adds entries to the right of the hole -/
theorem descendMin_spec : ∀ (l : Tree) (c : Color) (k : Nat) (v : Int) (r : Tree) (acc : Path),
    pathL (descendMin c l k v r acc).2.2 = pathL acc ∧
    minKV l k v :: (toList (descendMin c l k v r acc).2.1 ++ pathR (descendMin c l k v r acc).2.2)
      = toList (.node c l k v r) ++ pathR acc
  | .nil, c, k, v, r, acc => by simp [descendMin, minKV]
  | .node lc ll lk lv lr, c, k, v, r, acc => by
    have ih := descendMin_spec ll lc lk lv lr ({ dir := .L, c := c, k := k, v := v, sib := r } :: acc)
    simp only [descendMin, minKV]
    refine ⟨by rw [ih.1]; simp, ?_⟩
    rw [ih.2]; simp

theorem toList_deleteAt (c : Color) (l r : Tree) (p : Path) :
    toList (deleteAt c l r p) = pathL p ++ (toList l ++ toList r) ++ pathR p := by
  cases l with
  | nil => simp [deleteAt, toList_spliceOut]
  | node lc ll lk lv lr =>
    cases r with
    | nil => simp [deleteAt, toList_spliceOut]
    | node rc rl rk rv rr =>
      have h := descendMin_spec rl rc rk rv rr
        ({ dir := .R, c := c, k := (minKV rl rk rv).1, v := (minKV rl rk rv).2, sib := .node lc ll lk lv lr } :: p)
      simp only [deleteAt, toList_spliceOut]
      rw [h.1]
      have h2 := h.2
      simp only [pathL_consR, pathR_consR, List.append_assoc] at h2 ⊢
      simp only [List.cons_append, List.nil_append]
      rw [h2]

/-! ### descent -/

theorem descend_plug : ∀ (t : Tree) (k : Nat) (p : Path), plug (descend t k p).2 (descend t k p).1 = plug p t
  | .nil, k, p => by simp [descend]
  | .node c l k' v r, k, p => by
    unfold descend
    split
    · rw [descend_plug l]; simp [plug, fill]
    · split
      · rw [descend_plug r]; simp [plug, fill]
      · rfl

/-- what descent ends on: the nil link where `k` belongs, or the node holding `k` -/
theorem descend_focus : ∀ (t : Tree) (k : Nat) (p : Path),
    (descend t k p).1 = .nil ∨ ∃ c l v r, (descend t k p).1 = .node c l k v r
  | .nil, k, p => by simp [descend]
  | .node c l k' v r, k, p => by
    unfold descend
    split
    · exact descend_focus l k _
    · split
      · exact descend_focus r k _
      · rename_i h1 h2
        have : k' = k := by omega
        subst this
        exact .inr ⟨c, l, v, r, rfl⟩

/-- descent in a sorted tree keeps everything left of the hole below `k` and everything right of it above -/
theorem descend_bounds : ∀ (t : Tree) (k : Nat) (p : Path), Sorted (toList t) →
    AllLt (pathL p) k → AllGt (pathR p) k →
    AllLt (pathL (descend t k p).2) k ∧ AllGt (pathR (descend t k p).2) k ∧ Sorted (toList (descend t k p).1)
  | .nil, k, p, hs, hl, hr => by simp [descend]; exact ⟨hl, hr, hs⟩
  | .node c l k' v r, k, p, hs, hl, hr => by
    obtain ⟨hsl, hsr, hlt, hgt, _⟩ := sorted_mid.mp hs
    unfold descend
    split
    · rename_i hk
      refine descend_bounds l k _ hsl (by simpa using hl) ?_
      rw [pathR_consL]
      intro e he
      rcases List.mem_cons.mp he with rfl | he
      · exact hk
      · rcases List.mem_append.mp he with he | he
        · exact Nat.lt_trans hk (hgt e he)
        · exact hr e he
    · split
      · rename_i hk
        refine descend_bounds r k _ hsr ?_ (by simpa using hr)
        rw [pathL_consR]
        refine hl.append (AllLt.append (hlt.mono (Nat.le_of_lt hk)) ?_)
        intro e he; simp at he; subst he; exact hk
      · exact ⟨hl, hr, hs⟩

/-- everything known about `descend t k []` in a sorted tree -/
theorem descend_root (t : Tree) (k : Nat) (hs : Sorted (toList t)) :
    let s := (descend t k []).1
    let p := (descend t k []).2
    toList t = pathL p ++ toList s ++ pathR p ∧ plug p s = t ∧ AllLt (pathL p) k ∧ AllGt (pathR p) k ∧ Sorted (toList s) := by
  have h1 := descend_plug t k []
  have h2 := descend_bounds t k [] hs AllLt.nil AllGt.nil
  simp only [plug] at h1
  refine ⟨?_, h1, h2.1, h2.2.1, h2.2.2⟩
  rw [← toList_plug, h1]

end Fatchoy.C10
