/-
C05: a concrete structural heap for the non-vacuity examples of Props/C05.lean.
-/
import Fatchoy.Lemmas.C05BinHeapSim
namespace Fatchoy.C05

def exArr : BHeap := #[⟨⟨2, 1002, 2⟩, 0⟩, ⟨⟨4, 1003, 0⟩, 1⟩, ⟨⟨1, 1003, 0⟩, 2⟩]

theorem exArr_inv : BInv exArr := by
  rw [BInv_iff]
  refine ⟨fun i hi h0 => ?_, fun i hi => ?_⟩
  · have : i = 1 ∨ i = 2 := by simp [exArr] at hi; omega
    rcases this with rfl | rfl <;> decide +revert
  · have : i = 0 ∨ i = 1 ∨ i = 2 := by simp [exArr] at hi; omega
    rcases this with rfl | rfl | rfl <;> decide +revert

theorem exArr_distinct : Distinct exArr := by unfold Distinct; decide

end Fatchoy.C05
