/-
C11, structural skip list S, `Insert` part 4: the invariant holds again, for the chain with the new node
at its sorted position.
-/
import Fatchoy.Lemmas.C11SInsert3
namespace Fatchoy.C11.S

/-- a node after a position of `header :: A` is a node of `A` -/
theorem mem_suf_of_split {A pre l1 : List Nat} {x y : Nat} (hn : (0 :: A).Nodup)
    (hA : 0 :: A = pre ++ x :: l1) (hy : y ∈ l1) : y ∈ A := by
  have : y ∈ 0 :: A := by rw [hA]; simp [hy]
  rcases List.mem_cons.mp this with h0 | h1
  · exfalso
    subst h0
    rw [hA] at hn
    cases pre with
    | nil =>
      simp only [List.nil_append, List.cons.injEq] at hA
      rw [← hA.1] at hn
      simp [hy] at hn
    | cons q pre' =>
      simp only [List.cons_append, List.cons.injEq] at hA
      rw [← hA.1] at hn
      simp [hy] at hn
  · exact h1

section
variable {s : SList} {l A B : List Nat} {ur0 : List (Nat × Int)} {tgt : Node} {h : Nat} {t : SList}

theorem InsCtx.id_fresh (c : InsCtx s l A B ur0 tgt h) : s.nodes.length ∉ 0 :: l := by
  intro hm
  rcases List.mem_cons.mp hm with h0 | hl
  · have := c.inv.head_valid; omega
  · have := c.inv.valid _ hl; omega

theorem InsCtx.mem_B (c : InsCtx s l A B ur0 tgt h) {b : Nat} (hb : b ∈ B) : b ∈ l := by
  rw [c.hl]; exact List.mem_append_right _ hb

theorem InsCtx.nodupA (c : InsCtx s l A B ur0 tgt h) : (0 :: A ++ B).Nodup := by
  have := c.inv.nodup; rwa [c.hl] at this

theorem InsCtx.nodupA0 (c : InsCtx s l A B ur0 tgt h) : (0 :: A).Nodup :=
  c.nodupA.sublist (List.sublist_append_left _ _)

theorem InsCtx.up_old (_c : InsCtx s l A B ur0 tgt h) (hf : InsFacts s (urExt s ur0 h) tgt h t) (i : Nat)
    {y : Nat} (hy : y ≠ s.nodes.length) : up t i y = up s i y := by
  unfold up; rw [hf.hgt, if_neg hy]

theorem InsCtx.up_new (_c : InsCtx s l A B ur0 tgt h) (hf : InsFacts s (urExt s ur0 h) tgt h t) (i : Nat) :
    up t i s.nodes.length = decide (i < h) := by
  unfold up; rw [hf.hgt, if_pos rfl]

theorem InsCtx.nxt_old (c : InsCtx s l A B ur0 tgt h) (hf : InsFacts s (urExt s ur0 h) tgt h t) (i : Nat)
    {L : List Nat} (hL : ∀ y ∈ L, y ∈ 0 :: l) : nxt t i L = nxt s i L ∧ dst t i L = dst s i L :=
  nxt_congr (fun a ha => c.up_old hf i (fun h0 => c.id_fresh (h0 ▸ hL a ha)))

theorem InsCtx.level_le_new (_c : InsCtx s l A B ur0 tgt h) : s.level ≤ newLevel s h ∧ h ≤ newLevel s h := by
  unfold newLevel; split <;> omega

theorem InsCtx.rank0 (c : InsCtx s l A B ur0 tgt h) : rankOf (urExt s ur0 h) 0 = (A.length : Int) :=
  (isUpd_zero c.inv c.hl (c.urExt_upd 0 (Or.inl c.inv.level_pos))).2

/-- the split `update[i]` stands at, with `rank[0] - rank[i]` = the number of nodes skipped after it -/
theorem InsCtx.upd_split (c : InsCtx s l A B ur0 tgt h) (i : Nat) (hi : i < s.level ∨ i < h) :
    ∃ p suf, 0 :: A = p ++ updOf (urExt s ur0 h) i :: suf ∧ i < height s (updOf (urExt s ur0 h) i) ∧
      (∀ a ∈ suf, up s i a = false) ∧
      rankOf (urExt s ur0 h) 0 - rankOf (urExt s ur0 h) i = (suf.length : Int) := by
  obtain ⟨p, suf, hs, hy, hnone, hr⟩ := c.urExt_upd i hi
  refine ⟨p, suf, hs, hy, hnone, ?_⟩
  rw [c.rank0, hr]
  have := congrArg List.length hs
  simp only [List.length_cons, List.length_append] at this
  omega

theorem InsCtx.no_up_above (c : InsCtx s l A B ur0 tgt h) {i : Nat} (hi : s.level ≤ i) {L : List Nat}
    (hL : ∀ y ∈ L, y ∈ l) : ∀ y ∈ L, up s i y = false := by
  intro y hy
  have := (c.inv.hgt y (hL y hy)).2
  simp [up]; omega

end

/-- the cells of the new state are what the new chain determines -/
theorem insert_cells {s : SList} {l A B : List Nat} {ur0 : List (Nat × Int)} {tgt : Node} {h : Nat} {t : SList}
    (c : InsCtx s l A B ur0 tgt h) (hf : InsFacts s (urExt s ur0 h) tgt h t) :
    ∀ pre x suf, 0 :: (A ++ s.nodes.length :: B) = pre ++ x :: suf → ∀ i, i < height t x →
      (cell t x i).fwd = nxt t i suf ∧ (i < t.level → (cell t x i).span = dst t i suf) := by
  intro pre x suf hs i hi
  have hs' : (0 :: A) ++ s.nodes.length :: B = pre ++ x :: suf := by rw [← hs]; rfl
  have hlv := c.level_le_new
  rcases split_insert hs' with ⟨l1, hA, hsuf⟩ | ⟨hpre, hx, hsuf⟩ | ⟨p2, hpre, hB⟩
  · -- x stands before the new node
    have hxA : x ∈ 0 :: A := by rw [hA]; simp
    have hxl : x ∈ 0 :: l := by
      rcases List.mem_cons.mp hxA with h0 | h1
      · rw [h0]; simp
      · exact List.mem_cons_of_mem _ (c.mem_A h1)
    have hxid : x ≠ s.nodes.length := fun h0 => c.id_fresh (h0 ▸ hxl)
    rw [hf.hgt, if_neg hxid] at hi
    have hl1A : ∀ y ∈ l1, y ∈ A := fun y hy => mem_suf_of_split c.nodupA0 hA hy
    have hl1l : ∀ y ∈ l1, y ∈ 0 :: l := fun y hy => List.mem_cons_of_mem _ (c.mem_A (hl1A y hy))
    have hBl : ∀ y ∈ B, y ∈ 0 :: l := fun y hy => List.mem_cons_of_mem _ (c.mem_B hy)
    have hold : 0 :: l = pre ++ x :: (l1 ++ B) := by
      rw [c.hl, ← List.cons_append, hA]; simp
    obtain ⟨ofw, osp⟩ := c.inv.cells pre x (l1 ++ B) hold i hi
    rw [hsuf, hf.level]
    by_cases hex : ∃ a ∈ l1, up s i a = true
    · -- some node of height > i between x and the new node: nothing changed for x
      obtain ⟨a, ha, hua⟩ := hex
      have hil : i < s.level := by
        have := (c.inv.hgt a (c.mem_A (hl1A a ha))).2
        simp [up] at hua; omega
      have hne : x ≠ updOf (urExt s ur0 h) i := by
        intro heq
        obtain ⟨p, sf, hsp, _, hnone, _⟩ := c.upd_split i (Or.inl hil)
        rw [← heq] at hsp
        have := (split_unique c.nodupA0 hA hsp).2
        rw [this] at ha
        have := hnone a ha
        rw [hua] at this; cases this
      rw [hf.cell_other x i hxid (fun _ => hne)]
      have hua' : up t i a = true := by rw [c.up_old hf i (fun h0 => c.id_fresh (h0 ▸ hl1l a ha))]; exact hua
      obtain ⟨n1, d1⟩ := nxt_append_some ha hua' (s.nodes.length :: B)
      obtain ⟨n2, d2⟩ := nxt_append_some ha hua B
      obtain ⟨n3, d3⟩ := c.nxt_old hf i hl1l
      rw [n1, d1, n3, d3, ofw, n2]
      refine ⟨rfl, fun _ => ?_⟩
      rw [osp hil, d2]
    · -- x is the last node of height > i before the new node
      have hnone : ∀ a ∈ l1, up s i a = false := by
        intro a ha
        cases hu : up s i a with
        | false => rfl
        | true => exact absurd ⟨a, ha, hu⟩ hex
      have hnone' : ∀ a ∈ l1, up t i a = false := fun a ha => by
        rw [c.up_old hf i (fun h0 => c.id_fresh (h0 ▸ hl1l a ha))]; exact hnone a ha
      obtain ⟨n1, d1⟩ := nxt_append_none hnone' (s.nodes.length :: B)
      obtain ⟨n2, d2⟩ := nxt_append_none hnone B
      obtain ⟨n3, d3⟩ := c.nxt_old hf i hBl
      rw [n1, d1]
      by_cases hil : i < newLevel s h
      · -- x = update[i]
        have hi' : i < s.level ∨ i < h := by unfold newLevel at hil; split at hil <;> omega
        obtain ⟨p, sf, hsp, hyh, hnn, hr⟩ := c.upd_split i hi'
        have hux : up s i x = true := by simp [up]; exact hi
        have huy : up s i (updOf (urExt s ur0 h) i) = true := by simp [up]; exact hyh
        obtain ⟨_, hxeq, hsf⟩ := isUpd_unique hA hsp hux huy hnone hnn
        by_cases hih : i < h
        · rw [hxeq, hf.cell_lo i hih]
          simp only [nxt, dst, c.up_new hf i, hih, decide_true, if_true]
          constructor
          · first | rfl | trivial
          · intro _
            rw [hr, hsf] <;> omega
        · have hil2 : i < s.level := by omega
          rw [hxeq, hf.cell_hi i (by omega) hil, ← hxeq]
          simp only [nxt, dst, c.up_new hf i, hih, decide_false, Bool.false_eq_true, if_false]
          rw [n3, d3, ofw, n2]
          constructor
          · first | rfl | trivial
          · intro _
            rw [osp hil2, d2] <;> omega
      · -- above the new level: only the header has such cells, and they hold nil
        rw [hf.cell_other x i hxid (fun hh => absurd hh hil)]
        have hab : ∀ y ∈ l1 ++ B, up s i y = false :=
          c.no_up_above (by omega) (fun y hy => by
            rcases List.mem_append.mp hy with h1 | h2
            · exact c.mem_A (hl1A y h1)
            · exact c.mem_B h2)
        have hB0 : ∀ y ∈ B, up t i y = false := fun y hy => by
          rw [c.up_old hf i (fun h0 => c.id_fresh (h0 ▸ hBl y hy))]
          exact hab y (List.mem_append_right _ hy)
        have hidn : up t i s.nodes.length = false := by rw [c.up_new hf i]; simp; omega
        rw [ofw, (nxt_none hab).1]
        simp only [nxt, hidn, Bool.false_eq_true, if_false, (nxt_none hB0).1]
        exact ⟨by first | rfl | trivial, fun hh => absurd hh hil⟩
  · -- x is the new node
    subst hx
    rw [hf.hgt, if_pos rfl] at hi
    rw [hsuf, hf.level]
    have hBl : ∀ y ∈ B, y ∈ 0 :: l := fun y hy => List.mem_cons_of_mem _ (c.mem_B hy)
    obtain ⟨n3, d3⟩ := c.nxt_old hf i hBl
    rw [hf.cell_new i hi, n3, d3]
    by_cases hil : s.level ≤ i
    · rw [if_pos hil]
      have hab : ∀ y ∈ l, up s i y = false := c.no_up_above hil (fun y hy => hy)
      have hB0 : ∀ y ∈ B, up s i y = false := fun y hy => hab y (c.mem_B hy)
      obtain ⟨ofw, _⟩ := c.inv.cells [] 0 l rfl i (by have := c.hh; omega)
      simp only []
      rw [ofw, (nxt_none hab).1, (nxt_none hB0).1, (nxt_none hB0).2]
      refine ⟨rfl, fun _ => ?_⟩
      have hr0 : rankOf (urExt s ur0 h) i = 0 := by
        unfold rankOf; rw [getD_urExt_hi s ur0 h i (by rw [c.hlen]; exact hil)]
      rw [c.rank0, hr0, c.inv.len, c.hl]
      simp only [List.length_append]; omega
    · rw [if_neg hil]
      have hil' : i < s.level := by omega
      obtain ⟨p, sf, hsp, hyh, hnn, hr⟩ := c.upd_split i (Or.inl hil')
      have hold : 0 :: l = p ++ updOf (urExt s ur0 h) i :: (sf ++ B) := by
        rw [c.hl, ← List.cons_append, hsp]; simp
      obtain ⟨ofw, osp⟩ := c.inv.cells p _ (sf ++ B) hold i hyh
      obtain ⟨n2, d2⟩ := nxt_append_none hnn B
      simp only []
      rw [ofw, n2, osp hil', d2, hr]
      exact ⟨rfl, fun _ => by omega⟩
  · -- x stands after the new node
    have hxB : x ∈ B := by rw [hB]; simp
    have hxl : x ∈ 0 :: l := List.mem_cons_of_mem _ (c.mem_B hxB)
    have hxid : x ≠ s.nodes.length := fun h0 => c.id_fresh (h0 ▸ hxl)
    rw [hf.hgt, if_neg hxid] at hi
    have hxA : x ∉ 0 :: A := by
      intro hm
      have hn := c.nodupA
      rw [List.nodup_append] at hn
      exact hn.2.2 x hm x hxB rfl
    have hne : ∀ j, j < newLevel s h → x ≠ updOf (urExt s ur0 h) j := by
      intro j hj heq
      have hj' : j < s.level ∨ j < h := by unfold newLevel at hj; split at hj <;> omega
      exact hxA (heq ▸ (isUpd_valid c.inv c.hl (c.urExt_upd j hj')).2.2)
    have hold : 0 :: l = ((0 :: A) ++ p2) ++ x :: suf := by
      rw [c.hl, hB]; simp
    obtain ⟨ofw, osp⟩ := c.inv.cells _ x suf hold i hi
    have hsufl : ∀ y ∈ suf, y ∈ 0 :: l := fun y hy =>
      List.mem_cons_of_mem _ (c.mem_B (by rw [hB]; simp [hy]))
    obtain ⟨n3, d3⟩ := c.nxt_old hf i hsufl
    rw [hf.cell_other x i hxid (hne i), n3, d3, hf.level]
    refine ⟨ofw, fun _ => osp ?_⟩
    have := (c.inv.hgt x (c.mem_B hxB)).2
    omega

end Fatchoy.C11.S
