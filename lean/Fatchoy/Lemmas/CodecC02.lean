/-
Lemmas behind the C02 theorems: what `ReadHeadBody` does on an arbitrary stream (four exhaustive
cases), `UnmarshalPacket` on an arbitrary header of the right size, and the absence of panics.
-/
import Fatchoy.Lemmas.CodecC01
namespace Fatchoy.Codec
open Fatchoy.Crc32
set_option linter.unusedSimpArgs false


theorem readFull_ok_length {n : Nat} {cs : Chunks} {a : Bytes} (h : (readFull n cs).1 = .ok a) : a.length = n := by
  by_cases hlt : (flat cs).length < n
  · rw [(readFull_err hlt).1] at h; cases h
  · have hs : flat cs = (flat cs).take n ++ (flat cs).drop n := (List.take_append_drop n _).symm
    have hl : ((flat cs).take n).length = n := by rw [List.length_take]; omega
    rw [(readFull_ok hs hl).1] at h
    injection h with h; rw [← h, hl]

/-- the bytes consumed by an `io.ReadFull` that succeeded are the next `n` bytes of the stream -/
theorem readFull_ok_flat {n : Nat} {cs : Chunks} {a : Bytes} (h : (readFull n cs).1 = .ok a) :
    flat cs = a ++ flat (readFull n cs).2 := by
  by_cases hlt : (flat cs).length < n
  · rw [(readFull_err hlt).1] at h; cases h
  · have hs : flat cs = (flat cs).take n ++ (flat cs).drop n := (List.take_append_drop n _).symm
    have hl : ((flat cs).take n).length = n := by rw [List.length_take]; omega
    obtain ⟨r1, r2⟩ := readFull_ok hs hl
    rw [r1] at h
    injection h with h
    rw [r2, ← h]; exact hs

/-- `UnmarshalPacket` on any 14-byte header -/
theorem unmarshal_any_v1 {P : Params} {F : Fmt} (hv : ValidV1 F) (e : Env) (hdr pl : Bytes) (hl : hdr.length = 14) :
    unmarshal P F e hdr pl =
      if (crc32 (hdr.take 10 ++ pl)).toNat ≠ beGet ((hdr.drop 10).take 4) then .error .crc
      else unmarshalPayload P e F.bodyStepOnFlags (headPktV1 (beGet ((hdr.drop 3).take 1)) (beGet ((hdr.drop 4).take 2))
        (beGet ((hdr.drop 6).take 4))) 0 pl := by
  obtain ⟨h2, _, _, _, hg, hcov, _⟩ := hv
  unfold unmarshal
  simp only [crc32_table_eq]
  simp only [hg, h2, hcov, field?, v1GetL, List.find?, hl]
  simp [headPktV1]

/-- `UnmarshalPacket` on any 20-byte header -/
theorem unmarshal_any_v2 {P : Params} {F : Fmt} (hv : ValidV2 F) (e : Env) (hdr pl : Bytes) (hl : hdr.length = 20) :
    unmarshal P F e hdr pl =
      if (crc32 (hdr.take 16 ++ pl)).toNat ≠ beGet ((hdr.drop 16).take 4) then .error .crc
      else unmarshalPayload P e F.bodyStepOnFlags (headPktV2 (beGet ((hdr.drop 3).take 1)) (beGet ((hdr.drop 4).take 1))
        (beGet ((hdr.drop 6).take 2)) (beGet ((hdr.drop 8).take 4)) (beGet ((hdr.drop 12).take 4)))
        (beGet ((hdr.drop 5).take 1)) pl := by
  obtain ⟨h2, _, _, _, hg, hcov, _⟩ := hv
  unfold unmarshal
  simp only [crc32_table_eq]
  simp only [hg, h2, hcov, field?, v2GetL, List.find?, hl]
  simp [headPktV2]

theorem decompressStep_err {P : Params} {e : Env} {p : Pkt} {flag : BitVec 8} {body : Bytes} {er : Err}
    (h : decompressStep P e p flag body = .error er) :
    er = .decompress ∧ flag &&& bit8 P.flagCompressed ≠ 0 ∧ e.decompress body = none := by
  unfold decompressStep at h
  split at h
  · rename_i hc
    cases hz : e.decompress body with
    | none => simp only [hz] at h; injection h with h; exact ⟨h.symm, hc, rfl⟩
    | some u => simp only [hz] at h; cases h
  · cases h

theorem unmarshalBody_no_panic {P : Params} {e : Env} {body : Bytes} {p : Pkt} {er : Err}
    (h : unmarshalBody P e body p = .error er) : er = .needDecrypt ∨ er = .decompress := by
  unfold unmarshalBody at h
  split at h
  · cases hd : e.dec with
    | none => simp only [hd] at h; injection h with h; exact Or.inl h.symm
    | some f => simp only [hd] at h; exact Or.inr (decompressStep_err h).1
  · exact Or.inr (decompressStep_err h).1

theorem unmarshalPayload_no_panic {P : Params} {e : Env} {b : Bool} {p0 : Pkt} {nref : Nat} {pl : Bytes} {er : Err}
    (h : unmarshalPayload P e b p0 nref pl = .error er) : er = .refcount ∨ er = .needDecrypt ∨ er = .decompress := by
  unfold unmarshalPayload at h
  by_cases h1 : nref > 0 ∧ pl.length < nref * 4
  · simp only [h1, and_self, if_true] at h; injection h with h; exact Or.inl h.symm
  · simp only [h1, if_false] at h
    have hsome : (readRefs nref pl).isSome := by
      apply readRefs_isSome
      by_cases h0 : nref = 0
      · subst h0; simp
      · have : ¬ pl.length < nref * 4 := fun hc => h1 ⟨by omega, hc⟩
        omega
    cases hr : readRefs nref pl with
    | none => rw [hr] at hsome; simp at hsome
    | some refs =>
      simp only [hr] at h
      split at h
      · exact Or.inr (unmarshalBody_no_panic h)
      · cases h




/-- the length accessor never indexes out of range on a header of the right size -/
theorem len_field {F : Fmt} (hF : ValidFmt F) {hdr : Bytes} (hl : hdr.length = F.headerSize) :
    ∃ n, field? F.get "len" hdr = some n ∧ n < 2 ^ 24 ∧ (F.v2 = false → n < 2 ^ 16) := by
  rcases hF with hv | hv
  · obtain ⟨h2, hs, _, _, hg, _⟩ := hv
    rw [hs] at hl
    refine ⟨beGet (hdr.take 2), by simp [field?, hg, v1GetL, List.find?, hl], ?_⟩
    have : beGet (hdr.take 2) < 2 ^ 16 := by
      have h2l : (hdr.take 2).length = 2 := by rw [List.length_take]; omega
      match hb : hdr.take 2, h2l with
      | [a, b], _ =>
        have := a.toNat_lt; have := b.toNat_lt
        simp [beGet]; omega
    exact ⟨by omega, fun _ => this⟩
  · obtain ⟨h2, hs, _, _, hg, _⟩ := hv
    rw [hs] at hl
    refine ⟨beGet (hdr.take 3), by simp [field?, hg, v2GetL, List.find?, hl], ?_, fun h => by rw [h2] at h; cases h⟩
    have h3l : (hdr.take 3).length = 3 := by rw [List.length_take]; omega
    match hb : hdr.take 3, h3l with
    | [a, b, c], _ =>
      have := a.toNat_lt; have := b.toNat_lt; have := c.toNat_lt
      simp [beGet]; omega

/-- every way `ReadHeadBody` can end, on any stream -/
theorem readHeadBody_cases {F : Fmt} (hF : ValidFmt F) (cs : Chunks) :
    let o := readHeadBody F cs
    ((flat cs).length < F.headerSize ∧ (o.res = .error .eof ∨ o.res = .error .short) ∧ o.alloc = [] ∧
      o.awaited = [F.headerSize]) ∨
    (∃ hdr tail n, flat cs = hdr ++ tail ∧ hdr.length = F.headerSize ∧ field? F.get "len" hdr = some n ∧
      (((n < F.readLo ∨ n > F.readHi) ∧ o.res = .error .overflow ∧ o.alloc = [] ∧ o.awaited = [F.headerSize] ∧
        flat o.rest = tail) ∨
      (¬ (n < F.readLo ∨ n > F.readHi) ∧ tail.length < subWrap F.lenBits n F.readSub ∧
        (o.res = .error .eof ∨ o.res = .error .short) ∧ o.alloc = [subWrap F.lenBits n F.readSub] ∧
        o.awaited = [F.headerSize, subWrap F.lenBits n F.readSub]) ∨
      (∃ pl tail', ¬ (n < F.readLo ∨ n > F.readHi) ∧ tail = pl ++ tail' ∧ pl.length = subWrap F.lenBits n F.readSub ∧
        o.res = .ok (hdr, pl) ∧ flat o.rest = tail' ∧ o.alloc = [pl.length] ∧ o.awaited = [F.headerSize, pl.length]))) := by
  intro o
  by_cases hsh : (flat cs).length < F.headerSize
  · left
    obtain ⟨⟨er, h1, h2⟩, h3, h4⟩ := readHeadBody_short_header hsh
    refine ⟨hsh, ?_, h3, h4⟩
    rcases h2 with h2 | h2 <;> subst h2
    · exact Or.inl h1
    · exact Or.inr h1
  · right
    have hs : flat cs = (flat cs).take F.headerSize ++ (flat cs).drop F.headerSize := (List.take_append_drop _ _).symm
    have hl : ((flat cs).take F.headerSize).length = F.headerSize := by rw [List.length_take]; omega
    obtain ⟨n, hn, _⟩ := len_field hF hl
    refine ⟨_, _, n, hs, hl, hn, ?_⟩
    by_cases hg : n < F.readLo ∨ n > F.readHi
    · left
      obtain ⟨a1, a2, a3, a4⟩ := readHeadBody_refused hl hn hg hs
      exact ⟨hg, a1, a3, a4, a2⟩
    · right
      by_cases hp : ((flat cs).drop F.headerSize).length < subWrap F.lenBits n F.readSub
      · left
        obtain ⟨⟨er, h1, h2⟩, h3, h4⟩ := readHeadBody_short_payload hl hn hg hp hs
        refine ⟨hg, hp, ?_, h3, h4⟩
        rcases h2 with h2 | h2 <;> subst h2
        · exact Or.inl h1
        · exact Or.inr h1
      · right
        have hs2 : (flat cs).drop F.headerSize =
            ((flat cs).drop F.headerSize).take (subWrap F.lenBits n F.readSub) ++
            ((flat cs).drop F.headerSize).drop (subWrap F.lenBits n F.readSub) := (List.take_append_drop _ _).symm
        have hl2 : (((flat cs).drop F.headerSize).take (subWrap F.lenBits n F.readSub)).length =
            subWrap F.lenBits n F.readSub := by rw [List.length_take]; omega
        obtain ⟨a1, a2, a3, a4⟩ := readHeadBody_ok hl hn hg hl2.symm (by rw [← hs2]; exact hs)
        exact ⟨_, _, hg, hs2, hl2, a1, a2, a3, a4⟩




theorem fmt_facts {F : Fmt} (hF : ValidFmt F) :
    F.readSub = F.headerSize ∧ F.readHi = F.max ∧ F.headerSize ≤ F.max ∧ F.readLo ≤ F.headerSize ∧
    (∀ n, n < 2 ^ 24 → (F.v2 = false → n < 2 ^ 16) → n < 2 ^ F.lenBits) ∧ F.max < 2 ^ F.lenBits ∧
    (F.headerSize = 14 ∨ F.headerSize = 20) := by
  rcases hF with hv | hv
  · obtain ⟨h2, hs, _, _, _, _, _, _, hlb, hsub, _, hhi, hlo, h14, hm⟩ := hv
    rw [hs, hlb, hsub, hhi]
    exact ⟨rfl, rfl, h14, hlo, fun n _ h => h h2, hm, Or.inl rfl⟩
  · obtain ⟨h2, hs, _, _, _, _, _, _, hlb, hsub, _, hhi, hlo, h20, hm⟩ := hv
    rw [hs, hlb, hsub, hhi]
    exact ⟨rfl, rfl, h20, hlo, fun n h _ => by omega, by omega, Or.inr rfl⟩

/-- `ReadHeadBody` never ends in a panic -/
theorem readHeadBody_no_panic {F : Fmt} (hF : ValidFmt F) (cs : Chunks) {er : Err}
    (h : (readHeadBody F cs).res = .error er) : er = .eof ∨ er = .short ∨ er = .overflow := by
  have hc := readHeadBody_cases hF cs
  simp only at hc
  rcases hc with ⟨_, h1 | h1, _⟩ | ⟨hdr, tail, n, _, _, _, hc⟩
  · rw [h1] at h; injection h with h; exact Or.inl h.symm
  · rw [h1] at h; injection h with h; exact Or.inr (Or.inl h.symm)
  · rcases hc with ⟨_, h1, _⟩ | ⟨_, _, h1 | h1, _⟩ | ⟨pl, tail', _, _, _, h1, _⟩
    · rw [h1] at h; injection h with h; exact Or.inr (Or.inr h.symm)
    · rw [h1] at h; injection h with h; exact Or.inl h.symm
    · rw [h1] at h; injection h with h; exact Or.inr (Or.inl h.symm)
    · rw [h1] at h; cases h

theorem readHeadBody_ok_length {F : Fmt} (hF : ValidFmt F) (cs : Chunks) {hdr pl : Bytes}
    (h : (readHeadBody F cs).res = .ok (hdr, pl)) : hdr.length = F.headerSize := by
  have hc := readHeadBody_cases hF cs
  simp only at hc
  rcases hc with ⟨_, h1 | h1, _⟩ | ⟨hdr', tail, n, _, hl, _, hc⟩
  · rw [h1] at h; cases h
  · rw [h1] at h; cases h
  · rcases hc with ⟨_, h1, _⟩ | ⟨_, _, h1 | h1, _⟩ | ⟨pl', tail', _, _, _, h1, _⟩
    · rw [h1] at h; cases h
    · rw [h1] at h; cases h
    · rw [h1] at h; cases h
    · rw [h1] at h; injection h with h; injection h with h _; rw [← h]; exact hl

/-- `UnmarshalPacket` on a header of the right size ends in a packet or one of five errors -/
theorem unmarshal_no_panic {P : Params} {F : Fmt} (hF : ValidFmt F) (e : Env) {hdr pl : Bytes}
    (hl : hdr.length = F.headerSize) {er : Err} (h : unmarshal P F e hdr pl = .error er) :
    er = .crc ∨ er = .refcount ∨ er = .needDecrypt ∨ er = .decompress := by
  rcases hF with hv | hv
  · rw [unmarshal_any_v1 hv e hdr pl (by rw [hl, hv.2.1])] at h
    split at h
    · injection h with h; exact Or.inl h.symm
    · exact Or.inr (unmarshalPayload_no_panic h)
  · rw [unmarshal_any_v2 hv e hdr pl (by rw [hl, hv.2.1])] at h
    split at h
    · injection h with h; exact Or.inl h.symm
    · exact Or.inr (unmarshalPayload_no_panic h)

/-- every error `ReadPacket` can return -/
theorem readPacket_errors {P : Params} {F : Fmt} (hF : ValidFmt F) (e : Env) (cs : Chunks) {er : Err}
    (h : (readPacket P F e cs).res = .error er) :
    er = .eof ∨ er = .short ∨ er = .overflow ∨ er = .crc ∨ er = .refcount ∨ er = .needDecrypt ∨ er = .decompress := by
  unfold readPacket at h
  cases hr : (readHeadBody F cs).res with
  | error er' =>
    simp only [hr] at h
    injection h with h; subst h
    rcases readHeadBody_no_panic hF cs hr with h | h | h <;> simp [h]
  | ok hp =>
    obtain ⟨hdr, pl⟩ := hp
    simp only [hr] at h
    rcases unmarshal_no_panic hF e (readHeadBody_ok_length hF cs hr) h with h | h | h | h <;> simp [h]

/-- with the lower range guard in place nothing beyond the frame limit is allocated or awaited -/
theorem readHeadBody_bound {F : Fmt} (hF : ValidFmt F) (hlo : F.readLo = F.headerSize) (cs : Chunks) :
    (∀ a ∈ (readHeadBody F cs).alloc, a ≤ F.max - F.headerSize) ∧ (readHeadBody F cs).awaited.sum ≤ F.max := by
  obtain ⟨hsub, hhi, hle, _, hbits, hmb, _⟩ := fmt_facts hF
  have hc := readHeadBody_cases hF cs
  simp only at hc
  have key : ∀ n hdr, hdr.length = F.headerSize → field? F.get "len" hdr = some n → ¬ (n < F.readLo ∨ n > F.readHi) →
      subWrap F.lenBits n F.readSub ≤ F.max - F.headerSize := by
    intro n hdr hl hn hg
    rw [hlo, hhi] at hg
    rw [hsub, subWrap_eq (by omega) (by omega)]
    omega
  rcases hc with ⟨_, _, h1, h2⟩ | ⟨hdr, tail, n, _, hl, hn, hc⟩
  · rw [h1, h2]; simp; exact hle
  · rcases hc with ⟨_, _, h1, h2, _⟩ | ⟨hg, _, _, h1, h2⟩ | ⟨pl, tail', hg, _, hpl, _, _, h1, h2⟩
    · rw [h1, h2]; simp; exact hle
    · have := key n hdr hl hn hg
      rw [h1, h2]; simp; omega
    · have := key n hdr hl hn hg
      rw [h1, h2, hpl]; simp; omega




/-- a complete frame on the stream: `ReadPacket` is `UnmarshalPacket` of its header and payload -/
theorem readPacket_complete {P : Params} {F : Fmt} (hF : ValidFmt F) (e : Env) {cs : Chunks} {hdr pl tail : Bytes} {n : Nat}
    (hcs : flat cs = hdr ++ (pl ++ tail)) (hl : hdr.length = F.headerSize) (hn : field? F.get "len" hdr = some n)
    (hnn : n = F.headerSize + pl.length) (hmax : n ≤ F.max) :
    (readPacket P F e cs).res = unmarshal P F e hdr pl ∧ flat (readPacket P F e cs).rest = tail := by
  obtain ⟨hsub, hhi, hle, hlo, hbits, hmb, _⟩ := fmt_facts hF
  have hg : ¬ (n < F.readLo ∨ n > F.readHi) := by rw [hhi]; omega
  have hsw : subWrap F.lenBits n F.readSub = pl.length := by
    rw [hsub, subWrap_eq (by omega) (by omega)]; omega
  obtain ⟨r1, r2, _, _⟩ := readHeadBody_ok hl hn hg hsw hcs
  unfold readPacket
  simp only [r1, r2]
  exact ⟨trivial, trivial⟩

/-- a frame cut short at any offset is answered with an error -/
theorem truncated_frame {P : Params} {F : Fmt} (hF : ValidFmt F) (e : Env) {cs : Chunks} {hdr pl : Bytes} {n k : Nat}
    (hl : hdr.length = F.headerSize) (hn : field? F.get "len" hdr = some n)
    (hnn : n = F.headerSize + pl.length) (hmax : n ≤ F.max) (hk : k < F.headerSize + pl.length)
    (hcs : flat cs = (hdr ++ pl).take k) :
    (readPacket P F e cs).res = .error .eof ∨ (readPacket P F e cs).res = .error .short := by
  obtain ⟨hsub, hhi, hle, hlo, hbits, hmb, _⟩ := fmt_facts hF
  have hres : ∀ er, (readHeadBody F cs).res = .error er → (readPacket P F e cs).res = .error er := by
    intro er h; unfold readPacket; simp only [h]
  by_cases hsh : k < F.headerSize
  · have : (flat cs).length < F.headerSize := by
      rw [hcs, List.length_take, List.length_append]; omega
    obtain ⟨⟨er, h1, h2⟩, _⟩ := readHeadBody_short_header this
    rcases h2 with h2 | h2 <;> subst h2
    · exact Or.inl (hres _ h1)
    · exact Or.inr (hres _ h1)
  · have htk : (hdr ++ pl).take k = hdr ++ pl.take (k - F.headerSize) := by
      rw [List.take_append, hl, List.take_of_length_le (by omega)]
    have hg : ¬ (n < F.readLo ∨ n > F.readHi) := by rw [hhi]; omega
    have hsw : subWrap F.lenBits n F.readSub = pl.length := by
      rw [hsub, subWrap_eq (by omega) (by omega)]; omega
    obtain ⟨⟨er, h1, h2⟩, _⟩ := readHeadBody_short_payload (rest := pl.take (k - F.headerSize)) hl hn hg
      (by rw [hsw, List.length_take]; omega) (by rw [hcs, htk])
    rcases h2 with h2 | h2 <;> subst h2
    · exact Or.inl (hres _ h1)
    · exact Or.inr (hres _ h1)

/-- the frame `WritePacket` produced: a header of the right size whose length field is the frame
    length, followed by the payload (references and body) -/
theorem written_frame {P : Params} {F : Fmt} {e : Env} {p p' : Pkt} {w : Bytes} (hF : ValidFmt F) (hf : ValidFlags P)
    (hm : marshalBody P e p = .ok (w, p')) (hr : F.v2 = true → p.refs.length ≤ 255) (fit : frameLen F p w ≤ F.max) :
    ∃ hdr pl, (writePacket P F e p).bytes = hdr ++ pl ∧ hdr.length = F.headerSize ∧
      field? F.get "len" hdr = some (F.headerSize + pl.length) ∧ F.headerSize + pl.length = frameLen F p w ∧
      (crc32 (hdr.take F.crcCover ++ pl)).toNat = beGet (hdr.drop F.crcCover) := by
  obtain ⟨bits, _, hp⟩ := marshal_flag hm
  have href : p'.refs = p.refs := by rw [hp]
  rcases hF with hv | hv
  · rw [writePacket_v1 hv hm]
    have hfit : 14 + w.length ≤ F.max := by simpa [frameLen, hv.1, hv.2.1] using fit
    have h' : ¬ 14 + w.length > F.max := by omega
    simp only [h', if_false]
    have hm16 := hv.2.2.2.2.2.2.2.2.2.2.2.2.2.2
    have hcrcf : (crc32 ((hdrV1 p' w).take F.crcCover ++ w)).toNat = beGet ((hdrV1 p' w).drop F.crcCover) := by
      rw [hv.2.2.2.2.2.1]
      unfold hdrV1
      rw [take_pre (preV1_length ..), List.drop_left' (preV1_length ..), beGet_bePut_of_lt (frameCrc_lt _ _ _)]
      simp [frameCrc]
    refine ⟨hdrV1 p' w, w, by simp [WrOut.bytes], by rw [hdrV1_length, hv.2.1], ?_, by simp [frameLen, hv.1, hv.2.1], hcrcf⟩
    have := (field_v1 (14 + w.length) p'.typ.toNat p'.flag.toNat p'.seq.toNat p'.cmd.toNat
      (frameCrc (preV1 (14 + w.length) p'.typ.toNat p'.flag.toNat p'.seq.toNat p'.cmd.toNat) [] w)).1
    rw [Nat.mod_eq_of_lt (by omega)] at this
    rw [hv.2.2.2.2.1, hv.2.1]; exact this
  · rw [writePacket_v2 hv hm]
    have hr' : ¬ p.refs.length > P.maxRefs := by rw [hf.2.2.2]; have := hr hv.1; omega
    have hfit : 20 + p.refs.length * 4 + w.length ≤ F.max := by simpa [frameLen, hv.1, hv.2.1] using fit
    have h' : ¬ 20 + p'.refs.length * 4 + w.length > F.max := by rw [href]; omega
    simp only [hr', h', if_false]
    have hm24 := hv.2.2.2.2.2.2.2.2.2.2.2.2.2.2
    have hpl : (refBytes p'.refs ++ w).length = p'.refs.length * 4 + w.length := by
      rw [List.length_append, refBytes_length]
    have hcrcf : (crc32 ((hdrV2 p' w).take F.crcCover ++ (refBytes p'.refs ++ w))).toNat =
        beGet ((hdrV2 p' w).drop F.crcCover) := by
      rw [hv.2.2.2.2.2.1]
      unfold hdrV2
      rw [take_pre (preV2_length ..), List.drop_left' (preV2_length ..), beGet_bePut_of_lt (frameCrc_lt _ _ _)]
      simp [frameCrc]
    refine ⟨hdrV2 p' w, refBytes p'.refs ++ w, by simp [WrOut.bytes], by rw [hdrV2_length, hv.2.1], ?_,
      by rw [hpl, href]; simp [frameLen, hv.1, hv.2.1]; omega, hcrcf⟩
    have := (field_v2 (20 + p'.refs.length * 4 + w.length) p'.typ.toNat p'.flag.toNat p'.refs.length p'.seq.toNat
      p'.node.toNat p'.cmd.toNat
      (frameCrc (preV2 (20 + p'.refs.length * 4 + w.length) p'.typ.toNat p'.flag.toNat p'.refs.length p'.seq.toNat
        p'.node.toNat p'.cmd.toNat) (refBytes p'.refs) w)).1
    rw [Nat.mod_eq_of_lt (by rw [href]; omega)] at this
    rw [hv.2.2.2.2.1, hv.2.1, hpl]
    rw [show 20 + (p'.refs.length * 4 + w.length) = 20 + p'.refs.length * 4 + w.length by omega]
    exact this




/-- encrypted bit without a decryptor -/
theorem unmarshalBody_undecryptable {P : Params} {e : Env} {body : Bytes} {p : Pkt}
    (hbit : p.flag &&& bit8 P.flagEncrypted ≠ 0) (hd : e.dec = none) :
    unmarshalBody P e body p = .error .needDecrypt := by
  unfold unmarshalBody; simp only [hbit, if_true, hd, ne_eq, not_false_eq_true]

/-- compressed bit on a body that does not inflate (after decryption, if the encrypted bit is set) -/
theorem unmarshalBody_not_decompressible {P : Params} {e : Env} {body : Bytes} {p : Pkt} :
    (p.flag &&& bit8 P.flagEncrypted = 0 → p.flag &&& bit8 P.flagCompressed ≠ 0 → e.decompress body = none →
      unmarshalBody P e body p = .error .decompress) ∧
    (∀ g, p.flag &&& bit8 P.flagEncrypted ≠ 0 → e.dec = some g →
      p.flag &&& ~~~ bit8 P.flagEncrypted &&& bit8 P.flagCompressed ≠ 0 → e.decompress (g body) = none →
      unmarshalBody P e body p = .error .decompress) := by
  refine ⟨fun h1 h2 h3 => ?_, fun g h1 hd h2 h3 => ?_⟩
  · unfold unmarshalBody
    rw [if_neg (fun hc => hc h1)]
    unfold decompressStep
    rw [if_pos h2, h3]
  · unfold unmarshalBody
    rw [if_pos h1, hd]
    simp only
    unfold decompressStep
    rw [if_pos h2, h3]

/-- more references announced than the payload holds -/
theorem unmarshalPayload_refcount {P : Params} {e : Env} {b : Bool} {p0 : Pkt} {nref : Nat} {pl : Bytes}
    (h : pl.length < nref * 4) : unmarshalPayload P e b p0 nref pl = .error .refcount := by
  unfold unmarshalPayload
  have : nref > 0 ∧ pl.length < nref * 4 := ⟨by omega, h⟩
  simp only [this, and_self, if_true]

/-- with room for the references, `unmarshalPayload` is `unmarshalBody` on what follows them —
    when there are body bytes, or (with the guard on the flag bits) a codec bit is set -/
theorem unmarshalPayload_body {P : Params} {e : Env} {b : Bool} {p0 : Pkt} {nref : Nat} {pl : Bytes}
    (h : nref * 4 ≤ pl.length)
    (hne : pl.drop (nref * 4) ≠ [] ∨ (b = true ∧ p0.flag &&& (bit8 P.flagCompressed ||| bit8 P.flagEncrypted) ≠ 0)) :
    ∃ refs, unmarshalPayload P e b p0 nref pl = unmarshalBody P e (pl.drop (nref * 4)) { p0 with refs := refs } := by
  unfold unmarshalPayload
  have h1 : ¬ (nref > 0 ∧ pl.length < nref * 4) := by omega
  have hs := readRefs_isSome nref pl h
  cases hr : readRefs nref pl with
  | none => rw [hr] at hs; simp at hs
  | some refs =>
    have hcond : (pl.drop (nref * 4)).length > 0 ∨
        (b = true ∧ p0.flag &&& (bit8 P.flagCompressed ||| bit8 P.flagEncrypted) ≠ 0) := by
      rcases hne with hne | hne
      · exact Or.inl (List.length_pos_iff.mpr hne)
      · exact Or.inr hne
    simp only [h1, if_false, hcond, if_true]
    exact ⟨refs, rfl⟩

/-- the flag / reference-count fields of an arbitrary header, as `UnmarshalPacket` sees them -/
theorem unmarshal_shape {P : Params} {F : Fmt} (hF : ValidFmt F) (e : Env) {hdr : Bytes} (pl : Bytes)
    (hl : hdr.length = F.headerSize) :
    ∃ f r p0, field? F.get "flag" hdr = some f ∧ (if F.v2 then field? F.get "nref" hdr = some r else r = 0) ∧
      p0.flag = BitVec.ofNat 8 f ∧
      (unmarshal P F e hdr pl = .error .crc ∨ unmarshal P F e hdr pl = unmarshalPayload P e F.bodyStepOnFlags p0 r pl) := by
  rcases hF with hv | hv
  · have hl' : hdr.length = 14 := by rw [hl, hv.2.1]
    rw [unmarshal_any_v1 hv e hdr pl hl']
    refine ⟨beGet ((hdr.drop 3).take 1), 0,
      headPktV1 (beGet ((hdr.drop 3).take 1)) (beGet ((hdr.drop 4).take 2)) (beGet ((hdr.drop 6).take 4)),
      by simp [field?, hv.2.2.2.2.1, v1GetL, List.find?, hl'], by simp [hv.1], rfl, ?_⟩
    split
    · exact Or.inl rfl
    · exact Or.inr rfl
  · have hl' : hdr.length = 20 := by rw [hl, hv.2.1]
    rw [unmarshal_any_v2 hv e hdr pl hl']
    refine ⟨beGet ((hdr.drop 4).take 1), beGet ((hdr.drop 5).take 1),
      headPktV2 (beGet ((hdr.drop 3).take 1)) (beGet ((hdr.drop 4).take 1))
        (beGet ((hdr.drop 6).take 2)) (beGet ((hdr.drop 8).take 4)) (beGet ((hdr.drop 12).take 4)),
      by simp [field?, hv.2.2.2.2.1, v2GetL, List.find?, hl'],
      by simp [hv.1, field?, hv.2.2.2.2.1, v2GetL, List.find?, hl'], rfl, ?_⟩
    split
    · exact Or.inl rfl
    · exact Or.inr rfl

/-! ### the length-prefixed reader -/

theorem readLenData_cases (P : Params) (hg : ValidGuards P) (cs : Chunks) (o : LdOut) (ho : o = readLenData P cs) :
    (∀ a ∈ o.alloc, a ≤ 65535 - 2) ∧ o.awaited.sum ≤ 65535 ∧
    (∀ er, o.res = .error er → er = .eof ∨ er = .short ∨ er = .overflow) ∧
    (∀ hdr tail, flat cs = hdr ++ tail → hdr.length = 2 → beGet hdr < 2 →
      o.res = .error .overflow ∧ o.alloc = [] ∧ o.awaited = [2]) := by
  obtain ⟨_, _, _, _, hh, hb, hsub, hlo⟩ := hg
  unfold readLenData at ho
  rw [hh, hb, hsub, hlo] at ho
  by_cases hsh : (flat cs).length < 2
  · obtain ⟨r1, r2⟩ := readFull_err hsh
    rcases hrf : readFull 2 cs with ⟨x1, x2⟩
    rw [hrf] at r1 ho
    simp only at r1
    subst r1
    simp only at ho
    subst ho
    refine ⟨by simp, by simp, ?_, ?_⟩
    · intro er h
      injection h with h; subst h
      by_cases hz : (flat cs).length = 0 <;> simp [hz]
    · intro hdr tail hcs hl _
      rw [hcs, List.length_append, hl] at hsh; omega
  · have hs : flat cs = (flat cs).take 2 ++ (flat cs).drop 2 := (List.take_append_drop _ _).symm
    have hl : ((flat cs).take 2).length = 2 := by rw [List.length_take]; omega
    obtain ⟨r1, r2⟩ := readFull_ok hs hl
    rcases hrf : readFull 2 cs with ⟨x1, x2⟩
    rw [hrf] at r1 r2 ho
    simp only at r1 r2
    subst r1
    simp only at ho
    have hlt : beGet ((flat cs).take 2) < 65536 := by
      match hb : (flat cs).take 2, hl with
      | [a, b], _ =>
        have := a.toNat_lt; have := b.toNat_lt
        simp [beGet]; omega
    have hhdr : ∀ hdr tail, flat cs = hdr ++ tail → hdr.length = 2 → hdr = (flat cs).take 2 := by
      intro hdr tail hcs hl2
      rw [hcs, ← hl2, List.take_left']; rfl
    by_cases hlow : beGet ((flat cs).take 2) < 2
    · simp only [hlow, if_true] at ho
      subst ho
      refine ⟨by simp, by simp, ?_, ?_⟩
      · intro er h; injection h with h; subst h; simp
      · intro hdr tail hcs hl2 _; exact ⟨rfl, rfl, rfl⟩
    · simp only [hlow, if_false] at ho
      have hsw : subWrap 16 (beGet ((flat cs).take 2)) 2 = beGet ((flat cs).take 2) - 2 :=
        subWrap_eq (by omega) (by omega)
      rw [hsw] at ho
      rcases hrf2 : readFull (beGet ((flat cs).take 2) - 2) x2 with ⟨y1, y2⟩
      rw [hrf2] at ho
      cases y1 with
      | error er =>
        simp only at ho
        subst ho
        refine ⟨by simp; omega, by simp; omega, ?_, ?_⟩
        · intro er' h
          injection h with h; subst h
          by_cases hlt2 : (flat x2).length < beGet ((flat cs).take 2) - 2
          · have := (readFull_err hlt2).1
            rw [hrf2] at this; simp only at this
            injection this with this
            by_cases hz : (flat x2).length = 0 <;> simp [hz] at this <;> simp [this]
          · have hs2 : flat x2 = (flat x2).take (beGet ((flat cs).take 2) - 2) ++ (flat x2).drop (beGet ((flat cs).take 2) - 2) :=
              (List.take_append_drop _ _).symm
            have hl2 : ((flat x2).take (beGet ((flat cs).take 2) - 2)).length = beGet ((flat cs).take 2) - 2 := by
              rw [List.length_take]; omega
            have := (readFull_ok hs2 hl2).1
            rw [hrf2] at this; cases this
        · intro hdr tail hcs hl2 hb2
          rw [hhdr hdr tail hcs hl2] at hb2; omega
      | ok d =>
        simp only at ho
        subst ho
        refine ⟨by simp; omega, by simp; omega, ?_, ?_⟩
        · intro er' h; cases h
        · intro hdr tail hcs hl2 hb2
          rw [hhdr hdr tail hcs hl2] at hb2; omega



/-- the ghost outputs of `ReadPacket` are those of its `ReadHeadBody` -/
theorem readPacket_ghost (P : Params) (F : Fmt) (e : Env) (cs : Chunks) :
    (readPacket P F e cs).alloc = (readHeadBody F cs).alloc ∧
    (readPacket P F e cs).awaited = (readHeadBody F cs).awaited := by
  unfold readPacket
  simp only
  split <;> exact ⟨rfl, rfl⟩


/-- under `Valid02` both formats are valid and guarded from below -/
theorem valid02_fmt {P : Params} (hv : Valid02 P) {F : Fmt} (hF : F = P.v1 ∨ F = P.v2) :
    ValidFmt F ∧ F.readLo = F.headerSize ∧ F.bodyStepOnFlags = true := by
  rcases hF with h | h
  · rw [h]; exact ⟨Or.inl hv.1.1, hv.2.1, hv.2.2.2.1⟩
  · rw [h]; exact ⟨Or.inr hv.1.2.1, hv.2.2.1, hv.2.2.2.2.1⟩

/-- an environment without decryptor whose "zlib" refuses everything (for the non-vacuity examples) -/
def hostileEnv : Env :=
  { threshold := 0, compress := fun _ => none, decompress := fun _ => none, enc := none, dec := none,
    putVarint := putVarint64, varint := varint64 }

end Fatchoy.Codec
