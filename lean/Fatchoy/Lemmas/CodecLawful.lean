/-
A model of the hypothesis `Env.Lawful` (C01): the toy cipher of the correspondence run is lawful
for every key, a tiny run-length codec is inverted by its decoder, and the environment built from
the two (`modelEnv`) is `Lawful` — so the round-trip theorems are not vacuous in their hypotheses.
-/
import Fatchoy.Lemmas.CodecC01
namespace Fatchoy.Codec


/-- the toy cipher without accumulator -/
def toyMap (key : Array UInt8) (encrypt : Bool) : Nat → Bytes → Bytes
  | _, [] => []
  | i, b :: bs => toyStep key encrypt i b :: toyMap key encrypt (i + 1) bs

theorem toyGo_eq (key : Array UInt8) (e : Bool) (i : Nat) (bs acc : Bytes) :
    toyGo key e i bs acc = acc.reverse ++ toyMap key e i bs := by
  induction bs generalizing i acc with
  | nil => simp [toyGo, toyMap]
  | cons b bs ih => simp [toyGo, toyMap, ih]

theorem toy_eq (key : Bytes) (e : Bool) (bs : Bytes) : toy key e bs = toyMap key.toArray e 0 bs := by
  simp [toy, toyGo_eq]

theorem toyMap_length (key : Array UInt8) (e : Bool) (i : Nat) (bs : Bytes) : (toyMap key e i bs).length = bs.length := by
  induction bs generalizing i with
  | nil => rfl
  | cons b bs ih => simp [toyMap, ih]

theorem toyMap_inv (key : Array UInt8) (i : Nat) (bs : Bytes) : toyMap key false i (toyMap key true i bs) = bs := by
  induction bs generalizing i with
  | nil => rfl
  | cons b bs ih => simp [toyMap, toyStep, ih, UInt8.add_sub_cancel]

theorem toyMap_inv' (key : Array UInt8) (i : Nat) (bs : Bytes) : toyMap key true i (toyMap key false i bs) = bs := by
  induction bs generalizing i with
  | nil => rfl
  | cons b bs ih => simp [toyMap, toyStep, ih, UInt8.sub_add_cancel]

/-- for every key (the empty one included): decryption undoes encryption, encryption undoes
    decryption, and both preserve the length -/
theorem toy_lawful (key : Bytes) (bs : Bytes) :
    toy key false (toy key true bs) = bs ∧ toy key true (toy key false bs) = bs ∧
    (toy key true bs).length = bs.length ∧ (toy key false bs).length = bs.length := by
  simp only [toy_eq]
  exact ⟨toyMap_inv _ _ _, toyMap_inv' _ _ _, toyMap_length _ _ _ _, toyMap_length _ _ _ _⟩



/-- a tiny run-length encoder: (count, byte) pairs, counts 1..255 -/
def rleEnc : Bytes → Bytes
  | [] => []
  | b :: bs =>
    match rleEnc bs with
    | c :: b' :: rest => if b' = b ∧ c < 255 then (c + 1) :: b :: rest else 1 :: b :: c :: b' :: rest
    | _ => [1, b]

/-- its decoder; `none` for an odd length or a zero count -/
def rleDec : Bytes → Option Bytes
  | [] => some []
  | [_] => none
  | c :: b :: rest =>
    if c = 0 then none else
    match rleDec rest with
    | some r => some (List.replicate c.toNat b ++ r)
    | none => none

theorem rleDec_rleEnc (bs : Bytes) : rleDec (rleEnc bs) = some bs := by
  induction bs with
  | nil => rfl
  | cons b bs ih =>
    unfold rleEnc
    match h : rleEnc bs with
    | [] =>
      rw [h] at ih
      have : bs = [] := by simp [rleDec] at ih; exact ih
      subst this
      simp [rleDec]
    | [x] => rw [h] at ih; simp [rleDec] at ih
    | c :: b' :: rest =>
      rw [h] at ih
      simp only
      unfold rleDec at ih
      by_cases hc0 : c = 0
      · simp [hc0] at ih
      · simp only [hc0, if_false] at ih
        cases hr : rleDec rest with
        | none => rw [hr] at ih; simp at ih
        | some r =>
          rw [hr] at ih
          simp only [Option.some.injEq] at ih
          by_cases hm : b' = b ∧ c < 255
          · simp only [hm, and_self, if_true]
            obtain ⟨hb, hlt⟩ := hm
            subst hb
            have hlt' : c.toNat < 255 := by simpa using UInt8.lt_iff_toNat_lt.mp hlt
            have hne : c + 1 ≠ 0 := by
              intro h0
              have := congrArg UInt8.toNat h0
              rw [UInt8.toNat_add] at this
              simp at this; omega
            have hcn : (c + 1).toNat = c.toNat + 1 := by
              rw [UInt8.toNat_add]; simp; omega
            unfold rleDec
            simp only [hne, if_false, hr, hcn, List.replicate_succ, List.cons_append]
            rw [ih]
          · simp only [hm, if_false]
            unfold rleDec
            have h1 : (1 : UInt8) ≠ 0 := by decide
            simp only [h1, if_false]
            unfold rleDec
            simp only [hc0, if_false, hr]
            rw [← ih]; rfl


/-- a fully lawful environment: "zlib" is a marker byte followed by the run-length code, the cipher
    is the toy cipher with the given key, varints are Go's -/
def modelEnv (key : Bytes) (thr : Nat) : Env :=
  { threshold := thr
    compress := fun b => some (0x78 :: rleEnc b)
    decompress := fun z => match z with
      | [] => none
      | _ :: r => rleDec r
    enc := some (toy key true)
    dec := some (toy key false)
    putVarint := putVarint64
    varint := varint64 }

theorem modelEnv_lawful (key : Bytes) (thr : Nat) : (modelEnv key thr).Lawful where
  cmp := fun b => ⟨0x78 :: rleEnc b, rfl, by simp, rleDec_rleEnc b⟩
  dec_enc := fun f hf => by
    have : f = toy key true := by
      have h : some (toy key true) = some f := hf
      injection h with h; exact h.symm
    subst this
    exact ⟨toy key false, rfl, fun b => (toy_lawful key b).1⟩
  enc_len := fun f hf b => by
    have : f = toy key true := by
      have h : some (toy key true) = some f := hf
      injection h with h; exact h.symm
    subst this
    exact (toy_lawful key b).2.2.1



theorem rleEnc_length (bs : Bytes) : (rleEnc bs).length ≤ 2 * bs.length := by
  induction bs with
  | nil => simp [rleEnc]
  | cons b bs ih =>
    unfold rleEnc
    match h : rleEnc bs with
    | [] => simp only [List.length_cons, List.length_nil]; omega
    | [x] => simp only [List.length_cons, List.length_nil]; omega
    | c :: b' :: rest =>
      rw [h] at ih
      simp only [List.length_cons] at ih ⊢
      split <;> simp only [List.length_cons] <;> omega

/-- in the model environment the wire body is at most one marker byte plus twice the body -/
theorem modelEnv_marshal_length {P : Params} {key : Bytes} {thr : Nat} {p p' : Pkt} {b w : Bytes}
    (hb : bodyToBytes P (modelEnv key thr) p.body = some b)
    (hm : marshalBody P (modelEnv key thr) p = .ok (w, p')) : w.length ≤ 2 * b.length + 1 := by
  unfold marshalBody at hm
  rw [hb] at hm
  have hl := rleEnc_length b
  have ht : ∀ x : Bytes, (toy key true x).length = x.length := fun x => (toy_lawful key x).2.2.1
  simp only [modelEnv] at hm
  by_cases hthr : thr > 0 ∧ b.length > thr
  · simp only [hthr, and_self, if_true] at hm
    by_cases hz : (0x78 :: rleEnc b).length > 0
    · simp only [hz, if_true] at hm
      injection hm with hm; injection hm with hw _; rw [← hw, ht]; simp; omega
    · simp at hz
  · simp only [hthr, if_false] at hm
    by_cases hz : b.length > 0
    · simp only [hz, if_true] at hm
      injection hm with hm; injection hm with hw _; rw [← hw, ht]; omega
    · simp only [hz, if_false] at hm
      injection hm with hm; injection hm with hw _; rw [← hw]; omega

/-- hence a packet whose doubled body leaves room for header and references fits -/
theorem modelEnv_fits {P : Params} {F : Fmt} {key : Bytes} {thr : Nat} {p : Pkt} {b : Bytes}
    (hb : bodyToBytes P (modelEnv key thr) p.body = some b)
    (h : F.headerSize + p.refs.length * 4 + 2 * b.length + 1 ≤ F.max) : Fits P F (modelEnv key thr) p := by
  intro w p' hm
  have := modelEnv_marshal_length hb hm
  unfold frameLen
  split <;> omega


end Fatchoy.Codec
