/-
The listener LTS: `Close` returns under every interleaving.
`no_stuck`: while `Close` has been called and has not returned, some internal step (of a serve loop or of the caller
of `Close`) is enabled — whether or not anybody drains the hand-off queue, whatever the clients do.
`measure_decreases`: `mu` strictly decreases with every internal step; only the environment can raise it.
-/
import Fatchoy.Lemmas.Listener
namespace Fatchoy.Listener

theorem sum_pos {α : Type} (f : α → Nat) : ∀ (l : List α), (l.map f).sum ≠ 0 → ∃ (i : Nat) (x : α), l[i]? = some x ∧ f x ≠ 0
  | [], h => by simp at h
  | a :: l, h => by
    by_cases ha : f a = 0
    · simp only [List.map_cons, List.sum_cons, ha, Nat.zero_add] at h
      obtain ⟨i, x, hx, hf⟩ := sum_pos f l h
      exact ⟨i + 1, x, by simpa using hx, hf⟩
    · exact ⟨0, a, rfl, ha⟩

theorem close_enabled {s : State} (h : s.cl ≠ .idle ∧ s.cl ≠ .returned ∧ s.cl ≠ .dead ∧ (s.cl = .wait → s.wg = 0)) :
    (stepClose s).isSome = true := by
  unfold stepClose
  cases hcl : s.cl <;> simp only [hcl] at h ⊢
  all_goals (first | rfl | (simp at h; done) | skip)
  all_goals (repeat' split)
  all_goals (first | rfl | (simp_all; done))

theorem no_stuck (cfg : Cfg) {s : State} (h : Reachable cfg s) (hc : s.cl ≠ .idle ∧ s.cl ≠ .returned) :
    ∃ a, a.internal = true ∧ (step cfg s a).isSome = true := by
  have hi := inv_reachable h
  by_cases hw : s.cl = .wait ∧ s.wg ≠ 0
  · obtain ⟨hcl, hwg⟩ := hw
    rw [hi.wg_] at hwg
    obtain ⟨i, l, hl, hact⟩ := sum_pos act s.loops hwg
    have hshut := hi.shut i l hl (by rw [hcl]; trivial)
    have hdone : s.done = true := by rw [hi.done_, hcl]; rfl
    obtain ⟨o, pend, pc⟩ := l
    simp only at hshut; subst hshut
    cases pc with
    | accepting => exact ⟨.acceptClosed i, rfl, by simp [step, stepAcceptErr, hl]⟩
    | errCheck => exact ⟨.loop i false, rfl, by simp [step, stepLoop, hl]⟩
    | got c => exact ⟨.loop i false, rfl, by simp [step, stepLoop, hl, hdone]⟩
    | offer c => exact ⟨.loop i true, rfl, by simp [step, stepLoop, hl, hdone]⟩
    | wgDone =>
      refine ⟨.loop i false, rfl, ?_⟩
      simp only [step, stepLoop, hl]
      split <;> rfl
    | exited => simp [act, active] at hact
  · refine ⟨.close, rfl, close_enabled ⟨hc.1, hc.2, hi.notDead, ?_⟩⟩
    intro hcl
    by_cases h0 : s.wg = 0
    · exact h0
    · exact absurd ⟨hcl, h0⟩ hw

/-! ### the measure -/

def LPc.rem : LPc → Nat
  | .got _ => 5 | .offer _ => 4 | .accepting => 3 | .errCheck => 2 | .wgDone => 1 | .exited => 0
def Loop.rem (l : Loop) : Nat := l.pc.rem + 3 * l.pend.length
def clRem (s : State) : Nat :=
  match s.cl with
  | .idle => 0
  | .closeLn k => 6 + (s.loops.length - k)
  | .closeDone => 5 | .wait => 4 | .closeBacklog => 3 | .clear => 2 | .returned => 0 | .dead => 0

def mu (s : State) : Nat := clRem s + (s.loops.map Loop.rem).sum

theorem measure_decreases {cfg : Cfg} {s s' : State} {a : Action} (hi : a.internal = true)
    (hs : step cfg s a = some s') : mu s' < mu s := by
  cases a <;> simp [Action.internal] at hi <;> simp only [step] at hs
  case accept i =>
    unfold stepAccept at hs
    split at hs
    · next c rest hl =>
      injection hs with hs; subst hs
      have := sum_set Loop.rem s.loops i _ ⟨true, rest, .got c⟩ hl
      simp only [mu, clRem, List.length_set, Loop.rem, LPc.rem, List.length_cons] at this ⊢
      omega
    · simp at hs
  case acceptClosed i =>
    unfold stepAcceptErr at hs
    simp only [Bool.false_eq_true, if_false] at hs
    split at hs
    · next o pend hl =>
      repeat' (split at hs)
      all_goals (first | (simp at hs; done) | skip)
      all_goals (injection hs with hs; subst hs)
      all_goals (
        have := sum_set Loop.rem s.loops i _ ⟨o, [], .errCheck⟩ hl
        simp only [mu, clRem, List.length_set, Loop.rem, LPc.rem, List.length_nil] at this ⊢
        omega)
    · simp at hs
  case loop i td =>
    unfold stepLoop at hs
    simp only [setPc] at hs
    split at hs
    · simp at hs
    · next l hl =>
      have hsum := fun pc => sum_set Loop.rem s.loops i l ⟨l.isOpen, l.pend, pc⟩ hl
      obtain ⟨o, pend, pc⟩ := l
      simp only at hs hsum
      cases pc <;> simp only at hs
      all_goals (repeat' (split at hs))
      all_goals (first | (simp at hs; done) | skip)
      all_goals (injection hs with hs; subst hs)
      all_goals (simp only [mu, clRem, List.length_set])
      all_goals (first
        | (have := hsum .wgDone; simp only [Loop.rem, LPc.rem] at this ⊢; omega)
        | (have := hsum (.offer ‹_›); simp only [Loop.rem, LPc.rem] at this ⊢; omega)
        | (have := hsum .accepting; simp only [Loop.rem, LPc.rem] at this ⊢; omega)
        | (have := hsum .exited; simp only [Loop.rem, LPc.rem] at this ⊢; omega))
  case close =>
    unfold stepClose at hs
    split at hs
    · simp at hs
    · next k hcl =>
      split at hs
      · next l hl =>
        injection hs with hs; subst hs
        have := sum_set Loop.rem s.loops k l { l with isOpen := false, pend := [] } hl
        have hk : k < s.loops.length := by
          rcases Nat.lt_or_ge k s.loops.length with h' | h'
          · exact h'
          · rw [List.getElem?_eq_none h'] at hl; simp at hl
        simp only [mu, clRem, hcl, List.length_set, Loop.rem, List.length_nil] at this ⊢
        omega
      · injection hs with hs; subst hs
        simp only [mu, clRem, hcl]; omega
    all_goals (rename_i hcl)
    all_goals (repeat' (split at hs))
    all_goals (first | (simp at hs; done) | skip)
    all_goals (injection hs with hs; subst hs; simp only [mu, clRem, hcl]; omega)

theorem run_reachable {cfg : Cfg} : ∀ (acts : List Action) {s s' : State}, Reachable cfg s →
    run cfg s acts = some s' → Reachable cfg s'
  | [], s, s', h, hr => by simp [run] at hr; subst hr; exact h
  | a :: as, s, s', h, hr => by
    simp only [run] at hr
    cases hs : step cfg s a with
    | none => simp [hs] at hr
    | some s1 => simp only [hs] at hr; exact run_reachable as (Reachable.step a h hs) hr

theorem internal_run_bound {cfg : Cfg} : ∀ (acts : List Action) {s s' : State},
    (∀ a ∈ acts, a.internal = true) → run cfg s acts = some s' → acts.length + mu s' ≤ mu s
  | [], s, s', _, hr => by simp [run] at hr; subst hr; simp
  | a :: as, s, s', hi, hr => by
    simp only [run] at hr
    cases hs : step cfg s a with
    | none => simp [hs] at hr
    | some s1 =>
      simp only [hs] at hr
      have h1 := measure_decreases (hi a List.mem_cons_self) hs
      have h2 := internal_run_bound as (fun b hb => hi b (List.mem_cons_of_mem _ hb)) hr
      simp only [List.length_cons]; omega

/-- internal steps and the consumer never move the caller of `Close` backwards to `idle` -/
theorem step_cl_not_idle {cfg : Cfg} {s s' : State} {a : Action} (hs : step cfg s a = some s') (hc : s.cl ≠ .idle) :
    s'.cl ≠ .idle := by
  cases a <;> simp only [step] at hs
  all_goals (first
    | (unfold stepListen at hs) | (unfold stepDial at hs) | (unfold stepTake at hs) | (unfold stepCloseCall at hs)
    | (unfold stepAcceptErr at hs) | (unfold stepAccept at hs) | (unfold stepLoop at hs; simp only [setPc] at hs)
    | (unfold stepClose at hs))
  all_goals (repeat' (split at hs))
  all_goals (first
    | (simp at hs; done)
    | (injection hs with hs; subst hs; first | exact hc | (simp; done))
    | (exact absurd ‹s.cl = CPc.idle› hc))

theorem held_sum_zero : ∀ (l : List Loop), (∀ x ∈ l, x.pc = .exited) → (l.map heldCount).sum = 0
  | [], _ => rfl
  | a :: l, h => by
    have ha := h a List.mem_cons_self
    have := held_sum_zero l (fun x hx => h x (List.mem_cons_of_mem _ hx))
    simp [heldCount, held, ha, this]

/-- after `Close` has returned nothing is accepted, handed off or closed any more, and clients are refused -/
theorem frozen_step {cfg : Cfg} {s s' : State} {a : Action} (h : Inv cfg s) (hc : s.cl = .returned)
    (hs : step cfg s a = some s') :
    s'.accepted = s.accepted ∧ s'.handed = s.handed ∧ s'.closed = s.closed ∧ s'.cl = .returned ∧
    (∀ i c, a = .dial i c → s'.refused = s.refused ++ [c]) := by
  have hex : ∀ (i : Nat) (l : Loop), s.loops[i]? = some l → l.pc = .exited ∧ l.isOpen = false := fun i l hl =>
    ⟨h.gone (by rw [hc]; rfl) l (List.mem_of_getElem? hl), h.shut i l hl (by rw [hc]; trivial)⟩
  cases a <;> simp only [step] at hs
  case listen => unfold stepListen at hs; rw [hc] at hs; simp at hs
  case dial i c =>
    unfold stepDial at hs
    split at hs
    · simp at hs
    · next l hl =>
      rw [(hex i l hl).2] at hs
      simp only [Bool.false_eq_true, if_false] at hs
      injection hs with hs; subst hs
      exact ⟨rfl, rfl, rfl, hc, fun i' c' he => by injection he with _ h2; rw [h2]⟩
  case take =>
    unfold stepTake at hs
    split at hs
    · injection hs with hs; subst hs; exact ⟨rfl, rfl, rfl, hc, fun _ _ he => by simp at he⟩
    · simp at hs
  case closeCall =>
    unfold stepCloseCall at hs
    rw [hc] at hs
    simp only at hs
    injection hs with hs; subst hs; exact ⟨rfl, rfl, rfl, rfl, fun _ _ he => by simp at he⟩
  case acceptFail i =>
    unfold stepAcceptErr at hs
    split at hs
    · next o pend hl => have := (hex i _ hl).1; simp at this
    · simp at hs
  case acceptClosed i =>
    unfold stepAcceptErr at hs
    split at hs
    · next o pend hl => have := (hex i _ hl).1; simp at this
    · simp at hs
  case accept i =>
    unfold stepAccept at hs
    split at hs
    · next c rest hl => have := (hex i _ hl).1; simp at this
    · simp at hs
  case loop i td =>
    unfold stepLoop at hs
    split at hs
    · simp at hs
    · next l hl =>
      rw [(hex i l hl).1] at hs
      simp at hs
  case close => unfold stepClose at hs; rw [hc] at hs; simp at hs

end Fatchoy.Listener
