/-
C05 helper lemmas: the structural binary heap, part 3: `heap.Push`, `heap.Pop`, `heap.Remove`, `heap.Fix` composed with
the `timerHeap` methods establish / keep the heap order and the index invariant, for any size and contents, and
change the multiset of nodes as specified.
-/
import Fatchoy.Lemmas.C05BinHeapLoops
namespace Fatchoy.C05

/-- the index invariant: every node's `index` field is its array position -/
def IdxOK (a : BHeap) : Prop := ∀ k, k < a.size → idx a k = k

/-- heap order (`∀ i > 0, ¬Less a[i] a[parent i]`) and index invariant -/
structure BInv (a : BHeap) : Prop where
  ord : Ord (key a) a.size
  idx : IdxOK a

theorem BInv.empty : BInv #[] := ⟨fun k _ hk => by simp at hk, fun k hk => by simp at hk⟩

theorem idxOK_bswap (a : BHeap) (i j : Nat) (hi : i < a.size) (hj : j < a.size) (h : IdxOK a) : IdxOK (bswap a i j hi hj) := by
  intro k hk
  rw [idx_bswap]
  split
  · rfl
  · exact h k (by simpa using hk)

theorem idxOK_bup (a : BHeap) (j : Nat) (hj : j < a.size) (h : IdxOK a) : IdxOK (bup a j hj) :=
  bup_ind IdxOK j (fun _ _ _ _ _ _ _ h => idxOK_bswap _ _ _ _ _ h) a j hj (Nat.le_refl _) h

theorem idxOK_bdown (a : BHeap) (i n : Nat) (hn : n ≤ a.size) (h : IdxOK a) : IdxOK (bdown a i n hn).1 :=
  bdown_ind IdxOK n (fun _ _ _ _ _ _ _ h => idxOK_bswap _ _ _ _ _ h) a i hn h

theorem keys_bup (a : BHeap) (j : Nat) (hj : j < a.size) : (keys (bup a j hj)).Perm (keys a) :=
  bup_ind (fun b => (keys b).Perm (keys a)) j (fun _ _ _ _ _ _ _ h => (keys_bswap ..).trans h) a j hj (Nat.le_refl _) (List.Perm.refl _)

theorem keys_bdown (a : BHeap) (i n : Nat) (hn : n ≤ a.size) : (keys (bdown a i n hn).1).Perm (keys a) :=
  bdown_ind (fun b => (keys b).Perm (keys a)) n (fun _ _ _ _ _ _ _ h => (keys_bswap ..).trans h) a i hn (List.Perm.refl _)

/-- `down(h, i, n)` does not touch the positions from `n` on -/
theorem key_bdown_frame (a : BHeap) (i n : Nat) (hn : n ≤ a.size) (k : Nat) (hk : n ≤ k) : key (bdown a i n hn).1 k = key a k :=
  bdown_ind (fun b => key b k = key a k) n (fun b i j hi hj hin hjn h => by
    rw [key_bswap, if_neg (by omega), if_neg (by omega)]; exact h) a i hn rfl

/-- `up(h, j)` does not touch the positions above `j` -/
theorem key_bup_frame (a : BHeap) (j : Nat) (hj : j < a.size) (k : Nat) (hk : j < k) : key (bup a j hj) k = key a k :=
  bup_ind (fun b => key b k = key a k) j (fun b i j' hi hj him hjm h => by
    rw [key_bswap, if_neg (by omega), if_neg (by omega)]; exact h) a j hj (Nat.le_refl _) rfl

theorem ord_mono {f : Nat → HNode} {n m : Nat} (h : Ord f n) (hm : m ≤ n) : Ord f m :=
  fun k hk hkm => h k hk (by omega)

theorem ord_congr {f g : Nat → HNode} {n : Nat} (h : Ord f n) (hg : ∀ k, k < n → g k = f k) : Ord g n := by
  intro k hk hkn
  rw [hg k hkn, hg _ (by omega)]
  exact h k hk hkn

theorem hole_of_ord' {f g : Nat → HNode} {i n : Nat} (h : Ord f n) (hg : ∀ k, k < n → k ≠ i → g k = f k) : Hole g i n := by
  refine ⟨fun k hk hkn h1 h2 => ?_, fun k hk hkn h1 h2 => ?_⟩
  · rw [hg k hkn h1, hg _ (by omega) h2]; exact h k hk hkn
  · rw [hg k hkn (by omega), hg _ (by omega) (by omega)]
    have := h k hk hkn
    rw [h1] at this
    exact LE_trans (h i h2 (by omega)) this

/-! ### `timerHeap.Pop` -/

theorem key_pop (b : BHeap) (k : Nat) (hk : k < b.size - 1) : key b.pop k = key b k := by
  unfold key; grind
theorem idx_pop (b : BHeap) (k : Nat) (hk : k < b.size - 1) : idx b.pop k = idx b k := by
  unfold idx; grind

theorem keys_pop (b : BHeap) (hb : b.size ≠ 0) : keys b = keys b.pop ++ [key b (b.size - 1)] := by
  have : b = b.pop.push (b[b.size - 1]'(by omega)) := by
    apply Array.ext
    · simp; omega
    · intro k h1 h2; grind
  conv => lhs; rw [this]
  simp [keys, key_eq]

theorem bpopLast_spec (b : BHeap) (hb : b.size ≠ 0) (n : Nat) (hn : b.size = n + 1) (ho : Ord (key b) n) (hi : IdxOK b) :
    ∃ a' v, bpopLast b = some (a', v) ∧ BInv a' ∧ a'.size = n ∧ v.n = key b n ∧ v.index = -1 ∧ keys b = keys a' ++ [v.n] := by
  refine ⟨b.pop, { b[b.size - 1] with index := -1 }, by simp [bpopLast, hb], ⟨?_, ?_⟩, by simp; omega, ?_, rfl, ?_⟩
  · have hs : b.pop.size = n := by simp; omega
    rw [hs]
    exact ord_congr ho (fun k hk => key_pop b k (by omega))
  · intro k hk
    have hs : b.pop.size = n := by simp; omega
    rw [idx_pop b k (by omega)]
    exact hi k (by omega)
  · simp only; rw [key_eq]; congr 1; omega
  · simp only; rw [key_eq]; exact keys_pop b hb

/-! ### `heap.Push` -/

theorem key_push (a : BHeap) (b : BNode) (k : Nat) (hk : k ≤ a.size) : key (a.push b) k = if k < a.size then key a k else b.n := by
  unfold key; grind
theorem idx_push (a : BHeap) (b : BNode) (k : Nat) (hk : k ≤ a.size) : idx (a.push b) k = if k < a.size then idx a k else b.index := by
  unfold idx; grind

theorem hole_last {f g : Nat → HNode} {n : Nat} (h : Ord f n) (hg : ∀ k, k < n → g k = f k) : Hole g n (n + 1) := by
  refine ⟨fun k hk hkn h1 h2 => ?_, fun k hk hkn h1 h2 => by omega⟩
  rw [hg k (by omega), hg _ (by omega)]; exact h k hk (by omega)

theorem bpush_spec (a : BHeap) (x : HNode) (h : BInv a) :
    BInv (bpush a x) ∧ (bpush a x).size = a.size + 1 ∧ (keys (bpush a x)).Perm (x :: keys a) := by
  unfold bpush
  have hs : (a.push ⟨x, a.size⟩).size = a.size + 1 := by simp
  refine ⟨⟨?_, ?_⟩, by rw [bup_size, hs], ?_⟩
  · rw [bup_size, hs]
    refine bup_ord _ _ _ _ (by omega) ?_ (fun k hk hkn hpar => by omega)
    exact hole_last h.ord (fun k hk => by rw [key_push _ _ _ (by omega), if_pos hk])
  · apply idxOK_bup
    intro k hk
    rw [idx_push _ _ _ (by omega)]
    split
    · exact h.idx k (by assumption)
    · simp at hk ⊢; omega
  · refine (keys_bup ..).trans ?_
    simp only [keys, Array.toList_push, List.map_append, List.map_cons, List.map_nil]
    exact List.perm_append_singleton _ _

/-! ### `heap.Pop`, `heap.Remove`, `heap.Fix` -/

/-- after `Swap(i, n)` with n the last position: a hole at `i` in the heap of the first `n` elements -/
theorem hole_after_swap (a : BHeap) (i : Nat) (hi : i < a.size - 1) (h : Ord (key a) a.size) :
    Hole (key (bswap a i (a.size - 1) (by omega) (by omega))) i (a.size - 1) :=
  hole_of_ord' (ord_mono h (by omega)) (fun k hk hne => by
    rw [key_bswap, if_neg hne, if_neg (by omega)])

theorem bpop_spec (a : BHeap) (h : BInv a) (hne : a.size ≠ 0) :
    ∃ a' v, bpop a = some (a', v) ∧ BInv a' ∧ a'.size + 1 = a.size ∧ v.n = key a 0 ∧ v.index = -1 ∧
      (keys a).Perm (v.n :: keys a') := by
  unfold bpop
  simp only [hne, dite_false]
  have hsz : (bdown (bswap a 0 (a.size - 1) (by omega) (by omega)) 0 (a.size - 1) (by simp)).1.size = a.size - 1 + 1 := by
    rw [bdown_size, size_bswap]; omega
  have hord : Ord (key (bdown (bswap a 0 (a.size - 1) (by omega) (by omega)) 0 (a.size - 1) (by simp)).1) (a.size - 1) := by
    by_cases h1 : a.size = 1
    · intro k hk hkn; omega
    · exact bdown_ord _ _ _ _ (hole_after_swap a 0 (by omega) h.ord) (fun h0 => by omega)
  obtain ⟨a', v, e, hinv, hs', hv, hvi, hk⟩ := bpopLast_spec _ (by omega) (a.size - 1) hsz hord
    (idxOK_bdown _ _ _ _ (idxOK_bswap _ _ _ _ _ h.idx))
  refine ⟨a', v, e, hinv, by omega, ?_, hvi, ?_⟩
  · rw [hv, key_bdown_frame _ _ _ _ _ (Nat.le_refl _), key_bswap]
    split
    · rename_i h0; rw [h0]
    · simp
  · have := (keys_bdown (bswap a 0 (a.size - 1) (by omega) (by omega)) 0 (a.size - 1) (by simp)).trans (keys_bswap ..)
    rw [hk] at this
    exact this.symm.trans (List.perm_append_singleton _ _)

theorem remove_finish (a b : BHeap) (n i : Nat) (hb : b.size = n + 1) (ha : a.size = n + 1) (ho : Ord (key b) n)
    (hi : IdxOK b) (hp : (keys b).Perm (keys a)) (hk : key b n = key a i) :
    ∃ a' v, bpopLast b = some (a', v) ∧ BInv a' ∧ a'.size + 1 = a.size ∧ v.n = key a i ∧ v.index = -1 ∧
      (keys a).Perm (v.n :: keys a') := by
  obtain ⟨a', v, e, hinv, hs', hv, hvi, hkk⟩ := bpopLast_spec b (by omega) n hb ho hi
  refine ⟨a', v, e, hinv, by omega, by rw [hv, hk], hvi, ?_⟩
  rw [hkk] at hp
  exact hp.symm.trans (List.perm_append_singleton _ _)

theorem bremove_spec (a : BHeap) (h : BInv a) (i : Nat) (hi : i < a.size) :
    ∃ a' v, bremove a i = some (a', v) ∧ BInv a' ∧ a'.size + 1 = a.size ∧ v.n = key a i ∧ v.index = -1 ∧
      (keys a).Perm (v.n :: keys a') := by
  unfold bremove
  simp only [hi, dite_true]
  split
  · rename_i hn
    exact remove_finish a a (a.size - 1) i (by omega) (by omega) (ord_mono h.ord (by omega)) h.idx (List.Perm.refl _) (by rw [hn])
  · rename_i hn
    have hin : i < a.size - 1 := by omega
    have hole := hole_after_swap a i hin h.ord
    have hfix := bdown_fix _ i (a.size - 1) (by simp) hole
    have hkn : key (bswap a i (a.size - 1) hi (by omega)) (a.size - 1) = key a i := by
      rw [key_bswap, if_neg (by omega), if_pos rfl]
    split
    · rename_i hmv
      refine remove_finish a _ (a.size - 1) i (by rw [bdown_size, size_bswap]; omega) (by omega) (hfix.1 hmv)
        (idxOK_bdown _ _ _ _ (idxOK_bswap _ _ _ _ _ h.idx)) ((keys_bdown ..).trans (keys_bswap ..)) ?_
      rw [key_bdown_frame _ _ _ _ _ (Nat.le_refl _), hkn]
    · rename_i hmv
      obtain ⟨e, hc⟩ := hfix.2 hmv
      refine remove_finish a _ (a.size - 1) i (by rw [bup_size, bdown_size, size_bswap]; omega) (by omega) ?_
        (idxOK_bup _ _ _ (idxOK_bdown _ _ _ _ (idxOK_bswap _ _ _ _ _ h.idx)))
        ((keys_bup ..).trans ((keys_bdown ..).trans (keys_bswap ..))) ?_
      · exact bup_ord _ i _ (a.size - 1) hin (by rw [e]; exact hole) (by rw [e]; exact hc)
      · rw [key_bup_frame _ _ _ _ hin, key_bdown_frame _ _ _ _ _ (Nat.le_refl _), hkn]

theorem bfix_spec (a : BHeap) (i : Nat) (hi : i < a.size) (hidx : IdxOK a) (hh : Hole (key a) i a.size) :
    ∃ a', bfix a i = some a' ∧ BInv a' ∧ a'.size = a.size ∧ (keys a').Perm (keys a) := by
  unfold bfix
  simp only [hi, dite_true]
  have hfix := bdown_fix a i a.size (Nat.le_refl _) hh
  split
  · rename_i hmv
    refine ⟨_, rfl, ⟨?_, idxOK_bdown _ _ _ _ hidx⟩, bdown_size .., keys_bdown ..⟩
    rw [bdown_size]; exact hfix.1 hmv
  · rename_i hmv
    obtain ⟨e, hc⟩ := hfix.2 hmv
    refine ⟨_, rfl, ⟨?_, idxOK_bup _ _ _ (idxOK_bdown _ _ _ _ hidx)⟩, by rw [bup_size, bdown_size], (keys_bup ..).trans (keys_bdown ..)⟩
    rw [bup_size, bdown_size]
    exact bup_ord _ i _ a.size hi (by rw [e]; exact hh) (by rw [e]; exact hc)

theorem bsetDeadline_size (a : BHeap) (i d : Nat) : (bsetDeadline a i d).size = a.size := by
  unfold bsetDeadline; split <;> simp

theorem key_bsetDeadline (a : BHeap) (i d k : Nat) (hi : i < a.size) :
    key (bsetDeadline a i d) k = if k = i then { key a i with deadline := d } else key a k := by
  unfold bsetDeadline key; grind
theorem idx_bsetDeadline (a : BHeap) (i d k : Nat) : idx (bsetDeadline a i d) k = idx a k := by
  unfold bsetDeadline idx; grind

theorem keys_bsetDeadline (a : BHeap) (i d : Nat) (hi : i < a.size) :
    keys (bsetDeadline a i d) = (keys a).set i { key a i with deadline := d } := by
  apply List.ext_getElem
  · simp [keys, bsetDeadline_size]
  · intro k h1 h2
    simp only [keys, List.length_map, Array.length_toList, bsetDeadline_size] at h1
    simp only [keys, List.getElem_map, Array.getElem_toList, List.getElem_set]
    rw [key_eq _ _ (by rw [bsetDeadline_size]; exact h1), key_bsetDeadline _ _ _ _ hi, key_eq _ _ h1]
    split <;> split <;> first | rfl | omega

/-- `node.deadline = d; heap.Fix(h, i)`: any change of the deadline at `i` is repaired -/
theorem bfix_set_spec (a : BHeap) (h : BInv a) (i d : Nat) (hi : i < a.size) :
    ∃ a', bfix (bsetDeadline a i d) i = some a' ∧ BInv a' ∧ a'.size = a.size ∧
      (keys a').Perm ((keys a).set i { key a i with deadline := d }) := by
  obtain ⟨a', e, hinv, hs, hp⟩ := bfix_spec (bsetDeadline a i d) i (by rw [bsetDeadline_size]; exact hi)
    (fun k hk => by rw [idx_bsetDeadline]; exact h.idx k (by simpa [bsetDeadline_size] using hk))
    (by rw [bsetDeadline_size]
        exact hole_of_ord' h.ord (fun k _ hne => by rw [key_bsetDeadline _ _ _ _ hi, if_neg hne]))
  exact ⟨a', e, hinv, by rw [hs, bsetDeadline_size], by rw [← keys_bsetDeadline _ _ _ hi]; exact hp⟩

end Fatchoy.C05
