/-
C11, structural skip list S, `deleteNode` part 1: the state it produces, accessor by accessor.
-/
import Fatchoy.Lemmas.C11SInsert5
namespace Fatchoy.C11.S

theorem levelStep_unlink (upd : List Nat) (x : Nat) : LevelStep (unlinkLevel upd x) := by
  refine ⟨?_, ?_, ?_⟩
  · intro t i
    unfold unlinkLevel
    simp only []
    split <;> exact keeps_setCell _ _ _ _
  · intro t i y j hj
    unfold unlinkLevel
    simp only []
    split <;> exact cell_setCell_ne _ _ _ _ _ _ (Or.inr hj)
  · intro t t' i hk hc y
    unfold unlinkLevel
    simp only [hc]
    split <;> simp only [cell_setCell, hk.size, hk.hgt, hc]

/-- the level loop of `deleteNode` -/
def unlinked (s : SList) (x : Nat) (upd : List Nat) : SList :=
  (List.range s.level).foldl (unlinkLevel upd x) s

theorem unlinked_spec (s : SList) (x : Nat) (upd : List Nat)
    (hU : ∀ j, j < s.level → upd.getD j 0 < s.nodes.length ∧ j < height s (upd.getD j 0)) :
    Keeps s (unlinked s x upd) ∧
    ∀ y j, cell (unlinked s x upd) y j =
      if j < s.level ∧ y = upd.getD j 0 then
        (if (cell s y j).fwd == some x then ⟨(cell s x j).fwd, (cell s y j).span + ((cell s x j).span - 1)⟩
         else ⟨(cell s y j).fwd, (cell s y j).span - 1⟩)
      else cell s y j := by
  obtain ⟨hk, hc⟩ := fold_levels (levelStep_unlink upd x) (List.range s.level) List.nodup_range s
  refine ⟨hk, ?_⟩
  intro y j
  unfold unlinked
  rw [hc]
  by_cases hj : j < s.level
  · rw [if_pos (List.mem_range.mpr hj)]
    obtain ⟨h1, h2⟩ := hU j hj
    by_cases hy : y = upd.getD j 0
    · subst hy
      rw [if_pos (show j < s.level ∧ upd.getD j 0 = upd.getD j 0 from ⟨hj, rfl⟩)]
      by_cases hfx : ((cell s (upd.getD j 0) j).fwd == some x) = true
      · simp only [unlinkLevel, hfx, if_true]
        rw [cell_setCell_self _ _ _ _ h1 h2]
      · simp only [unlinkLevel, hfx, if_false, Bool.false_eq_true]
        rw [cell_setCell_self _ _ _ _ h1 h2]
    · have : ¬ (j < s.level ∧ y = upd.getD j 0) := fun hh => hy hh.2
      rw [if_neg this]
      unfold unlinkLevel
      simp only []
      split <;> exact cell_setCell_ne _ _ _ _ _ _ (Or.inl hy)
  · rw [if_neg (fun hm => hj (List.mem_range.mp hm)), if_neg (fun hh => hj hh.1)]

/-- what `shrink` returns: a level between 1 and the old one, with a non-nil header link below it
  (unless it is 1), and nil header links from it up to the old level -/
theorem shrink_spec (s : SList) (n : Nat) (hn : 1 ≤ n) :
    1 ≤ shrink s n ∧ shrink s n ≤ n ∧
    (1 < shrink s n → (cell s 0 (shrink s n - 1)).fwd ≠ none) ∧
    ∀ i, shrink s n ≤ i → i < n → (cell s 0 i).fwd = none := by
  induction n with
  | zero => omega
  | succ n ih =>
    cases n with
    | zero => simp only [shrink]; exact ⟨by omega, by omega, fun h => by omega, fun i h1 h2 => by omega⟩
    | succ n =>
      simp only [shrink]
      by_cases hc : (cell s 0 (n + 1)).fwd = none
      · rw [if_pos (by simpa using hc)]
        obtain ⟨i1, i2, i3, i4⟩ := ih (by omega)
        refine ⟨i1, by omega, i3, ?_⟩
        intro i hi1 hi2
        by_cases hi : i < n + 1
        · exact i4 i hi1 hi
        · have : i = n + 1 := by omega
          rw [this]; exact hc
      · rw [if_neg (by simpa using hc)]
        refine ⟨by omega, Nat.le_refl _, fun _ => by simpa using hc, fun i h1 h2 => by omega⟩

@[simp] theorem nd_withTail (s : SList) (t : Option Nat) (y : Nat) : nd { s with tail := t } y = nd s y := rfl
@[simp] theorem nd_withLength (s : SList) (n : Int) (y : Nat) : nd { s with length := n } y = nd s y := rfl

theorem shrink_congr {a b : SList} (h : ∀ i, cell a 0 i = cell b 0 i) (n : Nat) : shrink a n = shrink b n := by
  induction n using shrink.induct a with
  | case1 => rfl
  | case2 => rfl
  | case3 n hc ih => simp only [shrink]; rw [if_pos hc, if_pos (by rw [← h]; exact hc)]; exact ih
  | case4 n hc => simp only [shrink]; rw [if_neg hc, if_neg (by rw [← h]; exact hc)]

theorem unlinkBack_spec (u : SList) (x : Nat) :
    let t := unlinkBack u x
    t.nodes.length = u.nodes.length ∧ (∀ y, height t y = height u y) ∧ (∀ y, nodeOf t y = nodeOf u y) ∧
    (∀ y j, cell t y j = cell u y j) ∧ t.level = u.level ∧ t.length = u.length ∧
    t.tail = (if (cell u x 0).fwd = none then (nd u x).bwd else u.tail) ∧
    ∀ y, (nd t y).bwd =
      if (cell u x 0).fwd = some y ∧ y < u.nodes.length then (nd u x).bwd else (nd u y).bwd := by
  intro t
  cases hf : (cell u x 0).fwd with
  | none =>
    have ht : t = { u with tail := (nd u x).bwd } := by
      show unlinkBack u x = _
      unfold unlinkBack; rw [hf]
    rw [ht]
    exact ⟨rfl, fun _ => rfl, fun _ => rfl, fun _ _ => rfl, rfl, rfl, by simp, fun y => by simp⟩
  | some f =>
    have ht : t = setBwd u f (nd u x).bwd := by
      show unlinkBack u x = _
      unfold unlinkBack; rw [hf]
    rw [ht]
    refine ⟨by simp, by simp, by simp, by simp, rfl, rfl, by simp, ?_⟩
    intro y
    rw [bwd_setBwd]
    by_cases hy : y = f
    · subst hy; simp
    · have : ¬ (some f = some y ∧ y < u.nodes.length) := fun hh => hy (Option.some.inj hh.1).symm
      rw [if_neg (fun hh => hy hh.1), if_neg this]

/-- `deleteNode`, accessor by accessor -/
theorem deleteNode_spec (s : SList) (x : Nat) (upd : List Nat)
    (hU : ∀ j, j < s.level → upd.getD j 0 < s.nodes.length ∧ j < height s (upd.getD j 0)) :
    let t := deleteNode s x upd
    let u := unlinked s x upd
    t.nodes.length = s.nodes.length ∧ (∀ y, height t y = height s y) ∧ (∀ y, nodeOf t y = nodeOf s y) ∧
    (∀ y j, cell t y j = cell u y j) ∧
    t.level = shrink u s.level ∧ t.length = s.length - 1 ∧
    t.tail = (if (cell u x 0).fwd = none then (nd s x).bwd else s.tail) ∧
    ∀ y, (nd t y).bwd =
      if (cell u x 0).fwd = some y ∧ y < s.nodes.length then (nd s x).bwd else (nd s y).bwd := by
  intro t u
  obtain ⟨hk, _⟩ := unlinked_spec s x upd hU
  obtain ⟨b1, b2, b3, b4, b5, b6, b7, b8⟩ := unlinkBack_spec u x
  have ht : t = { (unlinkBack u x) with level := shrink (unlinkBack u x) (unlinkBack u x).level, length := (unlinkBack u x).length - 1 } := rfl
  rw [ht]
  refine ⟨?_, ?_, ?_, ?_, ?_, ?_, ?_, ?_⟩
  · show (unlinkBack u x).nodes.length = _; rw [b1, hk.size]
  · intro y; show height (unlinkBack u x) y = _; rw [b2, hk.hgt]
  · intro y; show nodeOf (unlinkBack u x) y = _; rw [b3, hk.key]
  · intro y j; show cell (unlinkBack u x) y j = _; rw [b4]
  · show shrink (unlinkBack u x) (unlinkBack u x).level = _
    rw [b5, hk.level, shrink_congr (fun i => b4 0 i)]
  · show (unlinkBack u x).length - 1 = _; rw [b6, hk.len]
  · show (unlinkBack u x).tail = _; rw [b7, hk.bwd, hk.tail]
  · intro y; show (nd (unlinkBack u x) y).bwd = _; rw [b8, hk.bwd, hk.bwd, hk.size]

end Fatchoy.C11.S
