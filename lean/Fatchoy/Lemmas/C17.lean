/-
Helper lemmas for C17 (consistent hashing): the association list behaves like a map, insertion sort sorts,
the binary search finds the least index above the hash, and `lookup` returns the owner of the cyclic
successor of the hash among the ring points (`IsSucc`), a notion that depends only on the *set* of points.
-/
import Fatchoy.Model.C17
namespace Fatchoy.C17

set_option linter.unusedSectionVars false
variable {μ : Type} [DecidableEq μ]

/-! ### the association list is a map -/

theorem find_erase (c : List (Nat × μ)) (p q : Nat) :
    find (erase c p) q = if q = p then none else find c q := by
  induction c with
  | nil => simp [erase, find]
  | cons e c ih =>
    obtain ⟨k, m⟩ := e
    unfold erase at ih ⊢
    by_cases hk : k = p
    · subst hk
      simp only [List.filter_cons, bne_self_eq_false, Bool.false_eq_true, if_false, ih, find]
      by_cases hq : q = k
      · simp [hq]
      · have : ¬ k = q := fun h => hq h.symm
        simp [hq, this]
    · have hb : ((k, m).1 != p) = true := by simp [hk]
      simp only [List.filter_cons, hb, if_true, find, ih]
      by_cases hq : q = p
      · subst hq; simp [hk]
      · simp [hq]

theorem find_insert (c : List (Nat × μ)) (p q : Nat) (m : μ) :
    find (insert c p m) q = if q = p then some m else find c q := by
  unfold insert
  simp only [find, find_erase]
  by_cases hq : q = p
  · subst hq; simp
  · have : ¬ p = q := fun h => hq h.symm
    simp [hq, this]

theorem mem_keys_iff (c : List (Nat × μ)) (q : Nat) : q ∈ keys c ↔ ∃ m, find c q = some m := by
  induction c with
  | nil => simp [keys, find]
  | cons e c ih =>
    obtain ⟨k, m⟩ := e
    unfold keys at ih ⊢
    simp only [List.map_cons, List.mem_cons, find, ih]
    by_cases hk : k = q
    · subst hk; simp
    · have : ¬ q = k := fun h => hk h.symm
      simp [hk, this]

theorem find_foldl_insert (m : μ) (ps : List Nat) (c : List (Nat × μ)) (q : Nat) :
    find (ps.foldl (fun c p => insert c p m) c) q = if q ∈ ps then some m else find c q := by
  induction ps generalizing c with
  | nil => simp
  | cons p ps ih =>
    simp only [List.foldl_cons, ih, find_insert, List.mem_cons]
    by_cases h1 : q ∈ ps
    · simp [h1]
    · by_cases h2 : q = p
      · simp [h2]
      · simp [h1, h2]

theorem find_removeStep (m : μ) (c : List (Nat × μ)) (p q : Nat) :
    find (removeStep true m c p) q = if q = p ∧ find c q = some m then none else find c q := by
  unfold removeStep
  simp only [if_true]
  by_cases hq : q = p
  · subst hq
    by_cases hf : find c q = some m
    · simp [hf, find_erase]
    · simp [hf]
  · by_cases hf : find c p = some m
    · simp [hf, find_erase, hq]
    · simp [hf, hq]

theorem find_foldl_remove (m : μ) (ps : List Nat) (c : List (Nat × μ)) (q : Nat) :
    find (ps.foldl (removeStep true m) c) q = if q ∈ ps ∧ find c q = some m then none else find c q := by
  induction ps generalizing c with
  | nil => simp
  | cons p ps ih =>
    simp only [List.foldl_cons, ih, find_removeStep, List.mem_cons]
    by_cases hq : q = p
    · subst hq
      by_cases hf : find c q = some m
      · simp [hf]
      · simp [hf]
    · simp [hq]

/-- the unguarded loop (the code before the repair of D16): every replica point goes, whoever owns it -/
theorem find_foldl_remove_unguarded (m : μ) (ps : List Nat) (c : List (Nat × μ)) (q : Nat) :
    find (ps.foldl (removeStep false m) c) q = if q ∈ ps then none else find c q := by
  induction ps generalizing c with
  | nil => simp
  | cons p ps ih =>
    have hs : removeStep false m c p = erase c p := by simp [removeStep]
    simp only [List.foldl_cons, ih, hs, find_erase, List.mem_cons]
    by_cases hq : q = p
    · simp [hq]
    · simp [hq]

/-! ### insertion sort -/

theorem mem_insertSorted (x a : Nat) (l : List Nat) : a ∈ insertSorted x l ↔ a = x ∨ a ∈ l := by
  induction l with
  | nil => simp [insertSorted]
  | cons y ys ih =>
    unfold insertSorted
    split
    · simp
    · simp only [List.mem_cons, ih]
      constructor
      · rintro (h | h | h)
        · exact Or.inr (Or.inl h)
        · exact Or.inl h
        · exact Or.inr (Or.inr h)
      · rintro (h | h | h)
        · exact Or.inr (Or.inl h)
        · exact Or.inl h
        · exact Or.inr (Or.inr h)

theorem sorted_insertSorted (x : Nat) (l : List Nat) (hl : l.Pairwise (· ≤ ·)) :
    (insertSorted x l).Pairwise (· ≤ ·) := by
  induction l with
  | nil => simp [insertSorted]
  | cons y ys ih =>
    unfold insertSorted
    have hy := List.pairwise_cons.mp hl
    split
    · rename_i hxy
      refine List.pairwise_cons.mpr ⟨?_, hl⟩
      intro a ha
      rcases List.mem_cons.mp ha with rfl | ha
      · exact hxy
      · exact Nat.le_trans hxy (hy.1 a ha)
    · rename_i hxy
      refine List.pairwise_cons.mpr ⟨?_, ih hy.2⟩
      intro a ha
      rcases (mem_insertSorted x a ys).mp ha with rfl | ha
      · omega
      · exact hy.1 a ha

theorem mem_sortPoints (a : Nat) (l : List Nat) : a ∈ sortPoints l ↔ a ∈ l := by
  induction l with
  | nil => simp [sortPoints]
  | cons y ys ih =>
    unfold sortPoints at ih ⊢
    simp only [List.foldr_cons, mem_insertSorted, ih, List.mem_cons]

theorem sorted_sortPoints (l : List Nat) : (sortPoints l).Pairwise (· ≤ ·) := by
  induction l with
  | nil => simp [sortPoints]
  | cons y ys ih =>
    unfold sortPoints at ih ⊢
    simpa only [List.foldr_cons] using sorted_insertSorted y _ ih

/-! ### the binary search -/

theorem searchLoop_spec (a : List Nat) (h : Nat) (hs : a.Pairwise (· ≤ ·)) :
    ∀ (n lo hi : Nat) (hhi : hi ≤ a.length), hi - lo = n → lo ≤ hi →
      (∀ j (hj : j < a.length), j < lo → a[j] ≤ h) →
      (∀ j (hj : j < a.length), hi ≤ j → h < a[j]) →
      lo ≤ searchLoop a h lo hi hhi ∧ searchLoop a h lo hi hhi ≤ hi ∧
      (∀ j (hj : j < a.length), j < searchLoop a h lo hi hhi → a[j] ≤ h) ∧
      (∀ j (hj : j < a.length), searchLoop a h lo hi hhi ≤ j → h < a[j]) := by
  have hsort := List.pairwise_iff_getElem.mp hs
  intro n
  induction n using Nat.strongRecOn with
  | _ n ih =>
    intro lo hi hhi hn hle h1 h2
    unfold searchLoop
    by_cases hlt : lo < hi
    · simp only [hlt, dif_pos]
      have hm : lo + (hi - lo) / 2 < a.length := by omega
      by_cases hc : a[lo + (hi - lo) / 2] ≤ h
      · simp only [hc, if_true]
        have := ih (hi - (lo + (hi - lo) / 2 + 1)) (by omega) (lo + (hi - lo) / 2 + 1) hi hhi rfl (by omega)
          (by
            intro j hj hjl
            by_cases hjm : j = lo + (hi - lo) / 2
            · subst hjm; exact hc
            · exact Nat.le_trans (hsort j (lo + (hi - lo) / 2) hj hm (by omega)) hc)
          h2
        refine ⟨by omega, this.2.1, this.2.2.1, this.2.2.2⟩
      · simp only [hc, if_false]
        have := ih ((lo + (hi - lo) / 2) - lo) (by omega) lo (lo + (hi - lo) / 2) (by omega) rfl (by omega) h1
          (by
            intro j hj hjl
            by_cases hjm : j = lo + (hi - lo) / 2
            · subst hjm; omega
            · have := hsort (lo + (hi - lo) / 2) j hm hj (by omega)
              omega)
        refine ⟨this.1, by omega, this.2.2.1, this.2.2.2⟩
    · simp only [hlt, dif_neg, not_false_eq_true]
      have : lo = hi := by omega
      subst this
      exact ⟨Nat.le_refl _, Nat.le_refl _, h1, h2⟩

/-- the cyclic successor of `h` among the points `ks`: the least point above `h`, or, if there is none,
  the least point of all -/
def IsSucc (ks : List Nat) (h p : Nat) : Prop :=
  p ∈ ks ∧ ((h < p ∧ ∀ q ∈ ks, h < q → p ≤ q) ∨ ((∀ q ∈ ks, q ≤ h) ∧ ∀ q ∈ ks, p ≤ q))

theorem IsSucc.congr {ks ks' : List Nat} {h p : Nat} (hk : ∀ q, q ∈ ks ↔ q ∈ ks') (hp : IsSucc ks h p) :
    IsSucc ks' h p := by
  obtain ⟨hm, hc⟩ := hp
  refine ⟨(hk p).mp hm, ?_⟩
  rcases hc with ⟨h1, h2⟩ | ⟨h1, h2⟩
  · exact Or.inl ⟨h1, fun q hq => h2 q ((hk q).mpr hq)⟩
  · exact Or.inr ⟨fun q hq => h1 q ((hk q).mpr hq), fun q hq => h2 q ((hk q).mpr hq)⟩

theorem IsSucc.unique {ks : List Nat} {h p p' : Nat} (hp : IsSucc ks h p) (hp' : IsSucc ks h p') : p = p' := by
  obtain ⟨hm, hc⟩ := hp
  obtain ⟨hm', hc'⟩ := hp'
  rcases hc with ⟨h1, h2⟩ | ⟨h1, h2⟩ <;> rcases hc' with ⟨h1', h2'⟩ | ⟨h1', h2'⟩
  · have := h2 p' hm' h1'; have := h2' p hm h1; omega
  · have := h1' p hm; omega
  · have := h1 p' hm'; omega
  · have := h2 p' hm'; have := h2' p hm; omega

/-- the successor in a set of points is also the successor in every subset that still contains it -/
theorem IsSucc.mono {ks ks' : List Nat} {h p : Nat} (hsub : ∀ q, q ∈ ks' → q ∈ ks) (hp : IsSucc ks h p)
    (hmem : p ∈ ks') : IsSucc ks' h p := by
  obtain ⟨_, hc⟩ := hp
  refine ⟨hmem, ?_⟩
  rcases hc with ⟨h1, h2⟩ | ⟨h1, h2⟩
  · exact Or.inl ⟨h1, fun q hq => h2 q (hsub q hq)⟩
  · exact Or.inr ⟨fun q hq => h1 q (hsub q hq), fun q hq => h2 q (hsub q hq)⟩

/-- `search` on a sorted list: the least index whose point is above `h`, or 0 when there is none -/
theorem search_sorted (a : List Nat) (h : Nat) (hs : a.Pairwise (· ≤ ·)) :
    (∃ hi : search a h < a.length, h < a[search a h] ∧ ∀ j (hj : j < a.length), j < search a h → a[j] ≤ h) ∨
    (search a h = 0 ∧ ∀ p ∈ a, p ≤ h) := by
  have sp := searchLoop_spec a h hs a.length 0 a.length (Nat.le_refl _) rfl (Nat.zero_le _)
    (fun j _ hj => absurd hj (Nat.not_lt_zero _)) (fun j hj hle => absurd hj (by omega))
  unfold search
  by_cases hge : searchLoop a h 0 a.length (Nat.le_refl _) ≥ a.length
  · right
    simp only [hge, if_true, true_and]
    intro p hp
    obtain ⟨j, hj, rfl⟩ := List.mem_iff_getElem.mp hp
    exact sp.2.2.1 j hj (by omega)
  · left
    simp only [hge, if_false]
    have hlt : searchLoop a h 0 a.length (Nat.le_refl _) < a.length := by omega
    exact ⟨hlt, sp.2.2.2 _ hlt (Nat.le_refl _), sp.2.2.1⟩

theorem search_pick (a : List Nat) (h : Nat) (hs : a.Pairwise (· ≤ ·)) (hne : a ≠ []) :
    ∃ p, a[search a h]? = some p ∧ IsSucc a h p := by
  have hsort := List.pairwise_iff_getElem.mp hs
  have hpos : 0 < a.length := List.length_pos_iff.mpr hne
  rcases search_sorted a h hs with ⟨hi, hgt, hbelow⟩ | ⟨h0, hall⟩
  · refine ⟨a[search a h], List.getElem?_eq_getElem hi, List.getElem_mem hi, Or.inl ⟨hgt, ?_⟩⟩
    intro q hq hhq
    obtain ⟨j, hj, rfl⟩ := List.mem_iff_getElem.mp hq
    by_cases hji : j < search a h
    · have := hbelow j hj hji; omega
    · by_cases hje : j = search a h
      · subst hje; exact Nat.le_refl _
      · exact hsort _ _ hi hj (by omega)
  · rw [h0]
    refine ⟨a[0], List.getElem?_eq_getElem hpos, List.getElem_mem hpos, Or.inr ⟨hall, ?_⟩⟩
    intro q hq
    obtain ⟨j, hj, rfl⟩ := List.mem_iff_getElem.mp hq
    by_cases hj0 : j = 0
    · subst hj0; exact Nat.le_refl _
    · exact hsort _ _ hpos hj (by omega)

theorem search_nil (h : Nat) : search [] h = 0 := by
  unfold search searchLoop
  simp

/-! ### well-formed rings -/

/-- what every reachable ring satisfies: the sorted list is the sorted key set of the map, every point is
  owned by a current member, and it is one of the replica points of its owner -/
structure WF (pts : μ → List Nat) (r : Ring μ) : Prop where
  sorted_eq : r.sorted = updateSorted r.circle
  owner_mem : ∀ p m, find r.circle p = some m → m ∈ r.nodes
  owner_pts : ∀ p m, find r.circle p = some m → p ∈ pts m

theorem wf_empty (pts : μ → List Nat) : WF pts (Ring.empty : Ring μ) :=
  ⟨rfl, fun p m h => by simp [Ring.empty, find] at h, fun p m h => by simp [Ring.empty, find] at h⟩

theorem find_addNode (pts : μ → List Nat) (r : Ring μ) (m : μ) (q : Nat) :
    find (addNode pts r m).circle q = if q ∈ pts m then some m else find r.circle q :=
  find_foldl_insert m (pts m) r.circle q

theorem find_removeNode (pts : μ → List Nat) (r : Ring μ) (m : μ) (q : Nat) :
    find (removeNode true pts r m).circle q =
      if q ∈ pts m ∧ find r.circle q = some m then none else find r.circle q :=
  find_foldl_remove m (pts m) r.circle q

theorem find_removeNode_unguarded (pts : μ → List Nat) (r : Ring μ) (m : μ) (q : Nat) :
    find (removeNode false pts r m).circle q = if q ∈ pts m then none else find r.circle q :=
  find_foldl_remove_unguarded m (pts m) r.circle q

theorem wf_addNode (pts : μ → List Nat) (r : Ring μ) (m : μ) (hr : WF pts r) : WF pts (addNode pts r m) := by
  have hn : (addNode pts r m).nodes = if m ∈ r.nodes then r.nodes else m :: r.nodes := rfl
  refine ⟨rfl, ?_, ?_⟩
  · intro p x hx
    rw [find_addNode] at hx
    rw [hn]
    by_cases hp : p ∈ pts m
    · simp only [hp, if_true, Option.some.injEq] at hx
      subst hx
      by_cases hm : m ∈ r.nodes <;> simp [hm]
    · simp only [hp, if_false] at hx
      have := hr.owner_mem p x hx
      by_cases hm : m ∈ r.nodes <;> simp [hm, this]
  · intro p x hx
    rw [find_addNode] at hx
    by_cases hp : p ∈ pts m
    · simp only [hp, if_true, Option.some.injEq] at hx
      subst hx; exact hp
    · simp only [hp, if_false] at hx
      exact hr.owner_pts p x hx

theorem wf_removeNode (g : Bool) (pts : μ → List Nat) (r : Ring μ) (m : μ) (hr : WF pts r) :
    WF pts (removeNode g pts r m) := by
  have hn : (removeNode g pts r m).nodes = r.nodes.filter (· ≠ m) := rfl
  -- every binding that survives was there before
  have hold : ∀ p x, find (removeNode g pts r m).circle p = some x → find r.circle p = some x ∧ x ≠ m := by
    intro p x hx
    cases g with
    | true =>
      rw [find_removeNode] at hx
      by_cases hp : p ∈ pts m ∧ find r.circle p = some m
      · simp [hp] at hx
      · simp only [hp, if_false] at hx
        refine ⟨hx, ?_⟩
        intro h
        subst h
        exact hp ⟨hr.owner_pts p x hx, hx⟩
    | false =>
      rw [find_removeNode_unguarded] at hx
      by_cases hp : p ∈ pts m
      · simp [hp] at hx
      · simp only [hp, if_false] at hx
        refine ⟨hx, ?_⟩
        intro h
        subst h
        exact hp (hr.owner_pts p x hx)
  refine ⟨rfl, ?_, ?_⟩
  · intro p x hx
    obtain ⟨h1, h2⟩ := hold p x hx
    rw [hn]
    simp [hr.owner_mem p x h1, h2]
  · intro p x hx
    exact hr.owner_pts p x (hold p x hx).1

theorem wf_run (g : Bool) (pts : μ → List Nat) (ops : List (Op μ)) : WF pts (run g pts ops) := by
  unfold run
  suffices h : ∀ r : Ring μ, WF pts r → WF pts (ops.foldl (step g pts) r) from h _ (wf_empty pts)
  induction ops with
  | nil => intro r hr; exact hr
  | cons o ops ih =>
    intro r hr
    simp only [List.foldl_cons]
    apply ih
    cases o with
    | add m => exact wf_addNode pts r m hr
    | remove m => exact wf_removeNode g pts r m hr

/-! ### what `lookup` returns -/

theorem mem_sorted_iff {pts : μ → List Nat} {r : Ring μ} (hr : WF pts r) (q : Nat) :
    q ∈ r.sorted ↔ q ∈ keys r.circle := by
  rw [hr.sorted_eq]; exact mem_sortPoints q _

/-- a ring without points: `GetNodeBy` indexes an empty slice -/
theorem lookup_empty {pts : μ → List Nat} {r : Ring μ} (hr : WF pts r) (hk : keys r.circle = []) (h : Nat) :
    lookup r h = .panic := by
  have hs : r.sorted = [] := by
    rw [hr.sorted_eq]; unfold updateSorted; rw [hk]; rfl
  unfold lookup
  rw [hs, search_nil]; rfl

/-- a ring with at least one point: `GetNodeBy` returns the owner of the cyclic successor of the hash -/
theorem lookup_total {pts : μ → List Nat} {r : Ring μ} (hr : WF pts r) (hk : keys r.circle ≠ []) (h : Nat) :
    ∃ p m, IsSucc (keys r.circle) h p ∧ find r.circle p = some m ∧ lookup r h = .node m := by
  have hs : r.sorted.Pairwise (· ≤ ·) := by rw [hr.sorted_eq]; exact sorted_sortPoints _
  have hne : r.sorted ≠ [] := by
    obtain ⟨q, hq⟩ := List.exists_mem_of_ne_nil _ hk
    exact List.ne_nil_of_mem ((mem_sorted_iff hr q).mpr hq)
  obtain ⟨p, hp, hsucc⟩ := search_pick r.sorted h hs hne
  have hsucc' : IsSucc (keys r.circle) h p := hsucc.congr (mem_sorted_iff hr)
  obtain ⟨m, hm⟩ := (mem_keys_iff r.circle p).mp hsucc'.1
  refine ⟨p, m, hsucc', hm, ?_⟩
  unfold lookup
  rw [hp]; simp only [hm]

theorem lookup_of_succ {pts : μ → List Nat} {r : Ring μ} (hr : WF pts r) {h p : Nat} {m : μ}
    (hp : IsSucc (keys r.circle) h p) (hm : find r.circle p = some m) : lookup r h = .node m := by
  have hk : keys r.circle ≠ [] := List.ne_nil_of_mem hp.1
  obtain ⟨p', m', hp', hm', hl⟩ := lookup_total hr hk h
  have := hp.unique hp'
  subst this
  rw [hm] at hm'
  cases hm'
  exact hl

theorem succ_of_lookup {pts : μ → List Nat} {r : Ring μ} (hr : WF pts r) {h : Nat} {m : μ}
    (hl : lookup r h = .node m) : ∃ p, IsSucc (keys r.circle) h p ∧ find r.circle p = some m := by
  by_cases hk : keys r.circle = []
  · rw [lookup_empty hr hk] at hl; cases hl
  · obtain ⟨p, m', hp, hm, hl'⟩ := lookup_total hr hk h
    rw [hl] at hl'
    cases hl'
    exact ⟨p, hp, hm⟩

theorem keys_eq_nil_iff (c : List (Nat × μ)) : keys c = [] ↔ c = [] := by
  unfold keys; simp

/-- two well-formed rings whose maps agree point by point answer every lookup alike -/
theorem lookup_congr {pts : μ → List Nat} {r r' : Ring μ} (hr : WF pts r) (hr' : WF pts r')
    (hf : ∀ p, find r.circle p = find r'.circle p) (h : Nat) : lookup r h = lookup r' h := by
  have hk : ∀ q, q ∈ keys r.circle ↔ q ∈ keys r'.circle := by
    intro q; rw [mem_keys_iff, mem_keys_iff, hf q]
  by_cases he : keys r.circle = []
  · have he' : keys r'.circle = [] := by
      apply List.eq_nil_iff_forall_not_mem.mpr
      intro q hq
      have := (hk q).mpr hq
      rw [he] at this
      cases this
    rw [lookup_empty hr he, lookup_empty hr' he']
  · obtain ⟨p, m, hp, hm, hl⟩ := lookup_total hr he h
    rw [hl]
    exact (lookup_of_succ hr' (hp.congr hk) (by rw [← hf p]; exact hm)).symm

/-! ### side-conditions on the regenerated constants -/

/-- what the proofs and the model need from the source: the ownership guard of `RemoveNode` (D16), FNV-1a
  shape of `hashKey` on 32 bits, one replica format `%s<sep>%d` shared by AddNode and RemoveNode, at least
  one replica, `<=` in the binary search -/
def Valid (P : Params) : Prop :=
  P.guarded = true ∧ 0 < P.replicas ∧ P.hashBits = 32 ∧ P.fnvOrder = "xor-mul" ∧ P.searchCmp = "<=" ∧
  P.fmtAdd = P.fmtRemove ∧ (parseFmt P.fmtAdd).isSome = true ∧ P.offset < 2 ^ 32 ∧ P.prime < 2 ^ 32

instance (P : Params) : Decidable (Valid P) := by unfold Valid; infer_instance

/-- the members' replica points never collide, and every member has at least one -/
def NoCollision (pts : μ → List Nat) : Prop :=
  (∀ a b, a ≠ b → ∀ p, p ∈ pts a → p ∉ pts b) ∧ ∀ a, pts a ≠ []

/-- without collisions every current member owns all its replica points -/
theorem owns_all_run (g : Bool) (pts : μ → List Nat) (hnc : NoCollision pts) (ops : List (Op μ)) :
    ∀ m ∈ (run g pts ops).nodes, ∀ p ∈ pts m, find (run g pts ops).circle p = some m := by
  unfold run
  suffices h : ∀ r : Ring μ, (∀ m ∈ r.nodes, ∀ p ∈ pts m, find r.circle p = some m) →
      ∀ m ∈ (ops.foldl (step g pts) r).nodes, ∀ p ∈ pts m, find (ops.foldl (step g pts) r).circle p = some m from
    h _ (by intro m hm; simp [Ring.empty] at hm)
  induction ops with
  | nil => intro r hr; exact hr
  | cons o ops ih =>
    intro r hr
    simp only [List.foldl_cons]
    apply ih
    cases o with
    | add a =>
      intro m hm p hp
      have hn : (addNode pts r a).nodes = if a ∈ r.nodes then r.nodes else a :: r.nodes := rfl
      show find (addNode pts r a).circle p = some m
      rw [find_addNode]
      by_cases hma : m = a
      · subst hma; simp [hp]
      · have hpa : p ∉ pts a := hnc.1 m a hma p hp
        simp only [hpa, if_false]
        apply hr m _ p hp
        change m ∈ (addNode pts r a).nodes at hm
        rw [hn] at hm
        by_cases ha : a ∈ r.nodes
        · simpa [ha] using hm
        · simp only [ha, if_false, List.mem_cons] at hm
          rcases hm with hm | hm
          · exact absurd hm hma
          · exact hm
    | remove a =>
      intro m hm p hp
      have hn : (removeNode g pts r a).nodes = r.nodes.filter (· ≠ a) := rfl
      change m ∈ (removeNode g pts r a).nodes at hm
      rw [hn] at hm
      have hm' := List.mem_filter.mp hm
      have hma : m ≠ a := by simpa using hm'.2
      have hpa : p ∉ pts a := hnc.1 m a hma p hp
      show find (removeNode g pts r a).circle p = some m
      cases g with
      | true => rw [find_removeNode]; simp only [hpa, false_and, if_false]; exact hr m hm'.1 p hp
      | false => rw [find_removeNode_unguarded]; simp only [hpa, if_false]; exact hr m hm'.1 p hp

end Fatchoy.C17
