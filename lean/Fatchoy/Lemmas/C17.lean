/-
Helper lemmas for C17 (consistent hashing): the association list behaves like a map, insertion sort sorts,
the binary search finds the least index above the hash, and `lookup` returns the owner of the cyclic
successor of the hash among the ring points (`IsSucc`), a notion that depends only on the *set* of points.
-/
import Fatchoy.Model.C17
namespace Fatchoy.C17

set_option linter.unusedSectionVars false
variable {μ : Type} [DecidableEq μ]

/-! ### the association list is a map -/

theorem find_erase (c : List (Nat × μ)) (p q : Nat) :
    find (erase c p) q = if q = p then none else find c q := by
  induction c with
  | nil => simp [erase, find]
  | cons e c ih =>
    obtain ⟨k, m⟩ := e
    unfold erase at ih ⊢
    by_cases hk : k = p
    · subst hk
      simp only [List.filter_cons, bne_self_eq_false, Bool.false_eq_true, if_false, ih, find]
      by_cases hq : q = k
      · simp [hq]
      · have : ¬ k = q := fun h => hq h.symm
        simp [hq, this]
    · have hb : ((k, m).1 != p) = true := by simp [hk]
      simp only [List.filter_cons, hb, if_true, find, ih]
      by_cases hq : q = p
      · subst hq; simp [hk]
      · simp [hq]

theorem find_insert (c : List (Nat × μ)) (p q : Nat) (m : μ) :
    find (insert c p m) q = if q = p then some m else find c q := by
  unfold insert
  simp only [find, find_erase]
  by_cases hq : q = p
  · subst hq; simp
  · have : ¬ p = q := fun h => hq h.symm
    simp [hq, this]

theorem mem_keys_iff (c : List (Nat × μ)) (q : Nat) : q ∈ keys c ↔ ∃ m, find c q = some m := by
  induction c with
  | nil => simp [keys, find]
  | cons e c ih =>
    obtain ⟨k, m⟩ := e
    unfold keys at ih ⊢
    simp only [List.map_cons, List.mem_cons, find, ih]
    by_cases hk : k = q
    · subst hk; simp
    · have : ¬ q = k := fun h => hk h.symm
      simp [hk, this]

theorem find_foldl_insert (m : μ) (ps : List Nat) (c : List (Nat × μ)) (q : Nat) :
    find (ps.foldl (fun c p => insert c p m) c) q = if q ∈ ps then some m else find c q := by
  induction ps generalizing c with
  | nil => simp
  | cons p ps ih =>
    simp only [List.foldl_cons, ih, find_insert, List.mem_cons]
    by_cases h1 : q ∈ ps
    · simp [h1]
    · by_cases h2 : q = p
      · simp [h2]
      · simp [h1, h2]

theorem find_removeStep (m : μ) (c : List (Nat × μ)) (p q : Nat) :
    find (removeStep true m c p) q = if q = p ∧ find c q = some m then none else find c q := by
  unfold removeStep
  simp only [if_true]
  by_cases hq : q = p
  · subst hq
    by_cases hf : find c q = some m
    · simp [hf, find_erase]
    · simp [hf]
  · by_cases hf : find c p = some m
    · simp [hf, find_erase, hq]
    · simp [hf, hq]

theorem find_foldl_remove (m : μ) (ps : List Nat) (c : List (Nat × μ)) (q : Nat) :
    find (ps.foldl (removeStep true m) c) q = if q ∈ ps ∧ find c q = some m then none else find c q := by
  induction ps generalizing c with
  | nil => simp
  | cons p ps ih =>
    simp only [List.foldl_cons, ih, find_removeStep, List.mem_cons]
    by_cases hq : q = p
    · subst hq
      by_cases hf : find c q = some m
      · simp [hf]
      · simp [hf]
    · simp [hq]

/-- the unguarded loop (the code before the repair of D16): every replica point goes, whoever owns it -/
theorem find_foldl_remove_unguarded (m : μ) (ps : List Nat) (c : List (Nat × μ)) (q : Nat) :
    find (ps.foldl (removeStep false m) c) q = if q ∈ ps then none else find c q := by
  induction ps generalizing c with
  | nil => simp
  | cons p ps ih =>
    have hs : removeStep false m c p = erase c p := by simp [removeStep]
    simp only [List.foldl_cons, ih, hs, find_erase, List.mem_cons]
    by_cases hq : q = p
    · simp [hq]
    · simp [hq]

/-! ### insertion sort -/

theorem mem_insertSorted (x a : Nat) (l : List Nat) : a ∈ insertSorted x l ↔ a = x ∨ a ∈ l := by
  induction l with
  | nil => simp [insertSorted]
  | cons y ys ih =>
    unfold insertSorted
    split
    · simp
    · simp only [List.mem_cons, ih]
      constructor
      · rintro (h | h | h)
        · exact Or.inr (Or.inl h)
        · exact Or.inl h
        · exact Or.inr (Or.inr h)
      · rintro (h | h | h)
        · exact Or.inr (Or.inl h)
        · exact Or.inl h
        · exact Or.inr (Or.inr h)

theorem sorted_insertSorted (x : Nat) (l : List Nat) (hl : l.Pairwise (· ≤ ·)) :
    (insertSorted x l).Pairwise (· ≤ ·) := by
  induction l with
  | nil => simp [insertSorted]
  | cons y ys ih =>
    unfold insertSorted
    have hy := List.pairwise_cons.mp hl
    split
    · rename_i hxy
      refine List.pairwise_cons.mpr ⟨?_, hl⟩
      intro a ha
      rcases List.mem_cons.mp ha with rfl | ha
      · exact hxy
      · exact Nat.le_trans hxy (hy.1 a ha)
    · rename_i hxy
      refine List.pairwise_cons.mpr ⟨?_, ih hy.2⟩
      intro a ha
      rcases (mem_insertSorted x a ys).mp ha with rfl | ha
      · omega
      · exact hy.1 a ha

theorem mem_sortPoints (a : Nat) (l : List Nat) : a ∈ sortPoints l ↔ a ∈ l := by
  induction l with
  | nil => simp [sortPoints]
  | cons y ys ih =>
    unfold sortPoints at ih ⊢
    simp only [List.foldr_cons, mem_insertSorted, ih, List.mem_cons]

theorem sorted_sortPoints (l : List Nat) : (sortPoints l).Pairwise (· ≤ ·) := by
  induction l with
  | nil => simp [sortPoints]
  | cons y ys ih =>
    unfold sortPoints at ih ⊢
    simpa only [List.foldr_cons] using sorted_insertSorted y _ ih

/-! ### the binary search -/

theorem searchLoop_spec (a : List Nat) (h : Nat) (hs : a.Pairwise (· ≤ ·)) :
    ∀ (n lo hi : Nat) (hhi : hi ≤ a.length), hi - lo = n → lo ≤ hi →
      (∀ j (hj : j < a.length), j < lo → a[j] ≤ h) →
      (∀ j (hj : j < a.length), hi ≤ j → h < a[j]) →
      lo ≤ searchLoop a h lo hi hhi ∧ searchLoop a h lo hi hhi ≤ hi ∧
      (∀ j (hj : j < a.length), j < searchLoop a h lo hi hhi → a[j] ≤ h) ∧
      (∀ j (hj : j < a.length), searchLoop a h lo hi hhi ≤ j → h < a[j]) := by
  have hsort := List.pairwise_iff_getElem.mp hs
  intro n
  induction n using Nat.strongRecOn with
  | _ n ih =>
    intro lo hi hhi hn hle h1 h2
    unfold searchLoop
    by_cases hlt : lo < hi
    · simp only [hlt, dif_pos]
      have hm : lo + (hi - lo) / 2 < a.length := by omega
      by_cases hc : a[lo + (hi - lo) / 2] ≤ h
      · simp only [hc, if_true]
        have := ih (hi - (lo + (hi - lo) / 2 + 1)) (by omega) (lo + (hi - lo) / 2 + 1) hi hhi rfl (by omega)
          (by
            intro j hj hjl
            by_cases hjm : j = lo + (hi - lo) / 2
            · subst hjm; exact hc
            · exact Nat.le_trans (hsort j (lo + (hi - lo) / 2) hj hm (by omega)) hc)
          h2
        refine ⟨by omega, this.2.1, this.2.2.1, this.2.2.2⟩
      · simp only [hc, if_false]
        have := ih ((lo + (hi - lo) / 2) - lo) (by omega) lo (lo + (hi - lo) / 2) (by omega) rfl (by omega) h1
          (by
            intro j hj hjl
            by_cases hjm : j = lo + (hi - lo) / 2
            · subst hjm; omega
            · have := hsort (lo + (hi - lo) / 2) j hm hj (by omega)
              omega)
        refine ⟨this.1, by omega, this.2.2.1, this.2.2.2⟩
    · simp only [hlt, dif_neg, not_false_eq_true]
      have : lo = hi := by omega
      subst this
      exact ⟨Nat.le_refl _, Nat.le_refl _, h1, h2⟩

/-- the cyclic successor of `h` among the points `ks`: the least point above `h`, or, if there is none,
  the least point of all -/
def IsSucc (ks : List Nat) (h p : Nat) : Prop :=
  p ∈ ks ∧ ((h < p ∧ ∀ q ∈ ks, h < q → p ≤ q) ∨ ((∀ q ∈ ks, q ≤ h) ∧ ∀ q ∈ ks, p ≤ q))

theorem IsSucc.congr {ks ks' : List Nat} {h p : Nat} (hk : ∀ q, q ∈ ks ↔ q ∈ ks') (hp : IsSucc ks h p) :
    IsSucc ks' h p := by
  obtain ⟨hm, hc⟩ := hp
  refine ⟨(hk p).mp hm, ?_⟩
  rcases hc with ⟨h1, h2⟩ | ⟨h1, h2⟩
  · exact Or.inl ⟨h1, fun q hq => h2 q ((hk q).mpr hq)⟩
  · exact Or.inr ⟨fun q hq => h1 q ((hk q).mpr hq), fun q hq => h2 q ((hk q).mpr hq)⟩

theorem IsSucc.unique {ks : List Nat} {h p p' : Nat} (hp : IsSucc ks h p) (hp' : IsSucc ks h p') : p = p' := by
  obtain ⟨hm, hc⟩ := hp
  obtain ⟨hm', hc'⟩ := hp'
  rcases hc with ⟨h1, h2⟩ | ⟨h1, h2⟩ <;> rcases hc' with ⟨h1', h2'⟩ | ⟨h1', h2'⟩
  · have := h2 p' hm' h1'; have := h2' p hm h1; omega
  · have := h1' p hm; omega
  · have := h1 p' hm'; omega
  · have := h2 p' hm'; have := h2' p hm; omega

/-- the successor in a set of points is also the successor in every subset that still contains it -/
theorem IsSucc.mono {ks ks' : List Nat} {h p : Nat} (hsub : ∀ q, q ∈ ks' → q ∈ ks) (hp : IsSucc ks h p)
    (hmem : p ∈ ks') : IsSucc ks' h p := by
  obtain ⟨_, hc⟩ := hp
  refine ⟨hmem, ?_⟩
  rcases hc with ⟨h1, h2⟩ | ⟨h1, h2⟩
  · exact Or.inl ⟨h1, fun q hq => h2 q (hsub q hq)⟩
  · exact Or.inr ⟨fun q hq => h1 q (hsub q hq), fun q hq => h2 q (hsub q hq)⟩

/-- `search` on a sorted list: the least index whose point is above `h`, or 0 when there is none -/
theorem search_sorted (a : List Nat) (h : Nat) (hs : a.Pairwise (· ≤ ·)) :
    (∃ hi : search a h < a.length, h < a[search a h] ∧ ∀ j (hj : j < a.length), j < search a h → a[j] ≤ h) ∨
    (search a h = 0 ∧ ∀ p ∈ a, p ≤ h) := by
  have sp := searchLoop_spec a h hs a.length 0 a.length (Nat.le_refl _) rfl (Nat.zero_le _)
    (fun j _ hj => absurd hj (Nat.not_lt_zero _)) (fun j hj hle => absurd hj (by omega))
  unfold search
  by_cases hge : searchLoop a h 0 a.length (Nat.le_refl _) ≥ a.length
  · right
    simp only [hge, if_true, true_and]
    intro p hp
    obtain ⟨j, hj, rfl⟩ := List.mem_iff_getElem.mp hp
    exact sp.2.2.1 j hj (by omega)
  · left
    simp only [hge, if_false]
    have hlt : searchLoop a h 0 a.length (Nat.le_refl _) < a.length := by omega
    exact ⟨hlt, sp.2.2.2 _ hlt (Nat.le_refl _), sp.2.2.1⟩

theorem search_pick (a : List Nat) (h : Nat) (hs : a.Pairwise (· ≤ ·)) (hne : a ≠ []) :
    ∃ p, a[search a h]? = some p ∧ IsSucc a h p := by
  have hsort := List.pairwise_iff_getElem.mp hs
  have hpos : 0 < a.length := List.length_pos_iff.mpr hne
  rcases search_sorted a h hs with ⟨hi, hgt, hbelow⟩ | ⟨h0, hall⟩
  · refine ⟨a[search a h], List.getElem?_eq_getElem hi, List.getElem_mem hi, Or.inl ⟨hgt, ?_⟩⟩
    intro q hq hhq
    obtain ⟨j, hj, rfl⟩ := List.mem_iff_getElem.mp hq
    by_cases hji : j < search a h
    · have := hbelow j hj hji; omega
    · by_cases hje : j = search a h
      · subst hje; exact Nat.le_refl _
      · exact hsort _ _ hi hj (by omega)
  · rw [h0]
    refine ⟨a[0], List.getElem?_eq_getElem hpos, List.getElem_mem hpos, Or.inr ⟨hall, ?_⟩⟩
    intro q hq
    obtain ⟨j, hj, rfl⟩ := List.mem_iff_getElem.mp hq
    by_cases hj0 : j = 0
    · subst hj0; exact Nat.le_refl _
    · exact hsort _ _ hpos hj (by omega)

theorem search_nil (h : Nat) : search [] h = 0 := by
  unfold search searchLoop
  simp

/-! ### the give-back loop of RemoveNode -/

theorem find_restoreStep (m : μ) (c : List (Nat × μ)) (p q : Nat) :
    find (restoreStep m c p) q = if q = p ∧ find c q = none then some m else find c q := by
  unfold restoreStep
  by_cases hq : q = p
  · subst hq
    cases hf : find c q with
    | none => simp [find_insert]
    | some x => simp [hf]
  · cases hf : find c p with
    | none => simp [find_insert, hq]
    | some x => simp [hq]

theorem find_foldl_restoreStep (m : μ) (ps : List Nat) (c : List (Nat × μ)) (q : Nat) :
    find (ps.foldl (restoreStep m) c) q = if q ∈ ps ∧ find c q = none then some m else find c q := by
  induction ps generalizing c with
  | nil => simp
  | cons p ps ih =>
    simp only [List.foldl_cons, ih, find_restoreStep, List.mem_cons]
    by_cases hq : q = p
    · subst hq
      cases hf : find c q with
      | none => simp
      | some x => simp
    · simp [hq]

theorem restore_cons (pts : μ → List Nat) (m : μ) (ms : List μ) (c : List (Nat × μ)) :
    restore pts (m :: ms) c = restore pts ms ((pts m).foldl (restoreStep m) c) := rfl

/-- a point that is on the ring keeps its owner -/
theorem restore_keep (pts : μ → List Nat) (ms : List μ) (c : List (Nat × μ)) (q : Nat) (x : μ)
    (h : find c q = some x) : find (restore pts ms c) q = some x := by
  induction ms generalizing c with
  | nil => exact h
  | cons m ms ih =>
    rw [restore_cons]
    apply ih
    rw [find_foldl_restoreStep]
    simp [h]

/-- a point that appears is a replica point of one of the visited members, and goes to that member -/
theorem restore_new (pts : μ → List Nat) (ms : List μ) (c : List (Nat × μ)) (q : Nat) (x : μ)
    (h0 : find c q = none) (h : find (restore pts ms c) q = some x) : x ∈ ms ∧ q ∈ pts x := by
  induction ms generalizing c with
  | nil => rw [show restore pts [] c = c from rfl, h0] at h; cases h
  | cons m ms ih =>
    rw [restore_cons] at h
    by_cases hq : q ∈ pts m
    · have h1 : find ((pts m).foldl (restoreStep m) c) q = some m := by
        rw [find_foldl_restoreStep]; simp [hq, h0]
      rw [restore_keep pts ms _ q m h1] at h
      cases h
      exact ⟨List.mem_cons_self, hq⟩
    · have h1 : find ((pts m).foldl (restoreStep m) c) q = none := by
        rw [find_foldl_restoreStep]; simp [hq, h0]
      obtain ⟨hx, hp⟩ := ih _ h1 h
      exact ⟨List.mem_cons_of_mem _ hx, hp⟩

/-- afterwards every replica point of every visited member is on the ring -/
theorem restore_covers (pts : μ → List Nat) (ms : List μ) (c : List (Nat × μ)) (m : μ) (q : Nat)
    (hm : m ∈ ms) (hq : q ∈ pts m) : ∃ x, find (restore pts ms c) q = some x := by
  induction ms generalizing c with
  | nil => cases hm
  | cons a ms ih =>
    rw [restore_cons]
    rcases List.mem_cons.mp hm with rfl | hm
    · cases hf : find c q with
      | none =>
        exact ⟨m, restore_keep pts ms _ q m (by rw [find_foldl_restoreStep]; simp [hq, hf])⟩
      | some x =>
        exact ⟨x, restore_keep pts ms _ q x (by rw [find_foldl_restoreStep]; simp [hf])⟩
    · exact ih _ hm

/-! ### well-formed rings -/

/-- the order in which RemoveNode visits the remaining members enumerates exactly the member set -/
def OrdOK (K : Cfg μ) : Prop := ∀ l m, m ∈ K.ord l ↔ m ∈ l

/-- what every reachable ring satisfies: the sorted list is the sorted key set of the map, every point is
  owned by a current member, and it is one of the replica points of its owner -/
structure WF (K : Cfg μ) (r : Ring μ) : Prop where
  sorted_eq : r.sorted = updateSorted r.circle
  owner_mem : ∀ p m, find r.circle p = some m → m ∈ r.nodes
  owner_pts : ∀ p m, find r.circle p = some m → p ∈ K.pts m

/-- with the give-back loop: every replica point of every member is on the ring (owned by someone) -/
def Covered (K : Cfg μ) (r : Ring μ) : Prop := ∀ m ∈ r.nodes, ∀ p ∈ K.pts m, p ∈ keys r.circle

theorem wf_empty (K : Cfg μ) : WF K (Ring.empty : Ring μ) :=
  ⟨rfl, fun p m h => by simp [Ring.empty, find] at h, fun p m h => by simp [Ring.empty, find] at h⟩

theorem find_addNode (pts : μ → List Nat) (r : Ring μ) (m : μ) (q : Nat) :
    find (addNode pts r m).circle q = if q ∈ pts m then some m else find r.circle q :=
  find_foldl_insert m (pts m) r.circle q

/-- the map after the delete loop of `RemoveNode`, before points are given back -/
def afterDelete (K : Cfg μ) (r : Ring μ) (m : μ) : List (Nat × μ) :=
  (K.pts m).foldl (removeStep K.guarded m) r.circle

theorem removeNode_circle (K : Cfg μ) (r : Ring μ) (m : μ) :
    (removeNode K r m).circle =
      if K.restores then restore K.pts (K.ord (r.nodes.filter (· ≠ m))) (afterDelete K r m) else afterDelete K r m := rfl

theorem removeNode_nodes (K : Cfg μ) (r : Ring μ) (m : μ) :
    (removeNode K r m).nodes = r.nodes.filter (· ≠ m) := rfl

/-- a binding that survives the delete loop was there before and is not the removed member's -/
theorem afterDelete_old {K : Cfg μ} {r : Ring μ} (hr : WF K r) (m : μ) (p : Nat) (x : μ)
    (hx : find (afterDelete K r m) p = some x) : find r.circle p = some x ∧ x ≠ m := by
  unfold afterDelete at hx
  cases hg : K.guarded with
  | true =>
    rw [hg, find_foldl_remove] at hx
    by_cases hp : p ∈ K.pts m ∧ find r.circle p = some m
    · simp [hp] at hx
    · simp only [hp, if_false] at hx
      refine ⟨hx, ?_⟩
      intro h
      subst h
      exact hp ⟨hr.owner_pts p x hx, hx⟩
  | false =>
    rw [hg, find_foldl_remove_unguarded] at hx
    by_cases hp : p ∈ K.pts m
    · simp [hp] at hx
    · simp only [hp, if_false] at hx
      refine ⟨hx, ?_⟩
      intro h
      subst h
      exact hp (hr.owner_pts p x hx)

/-- the guarded delete loop keeps every binding of another member -/
theorem afterDelete_keep {K : Cfg μ} (hg : K.guarded = true) (r : Ring μ) (m : μ) (p : Nat) (x : μ)
    (hx : find r.circle p = some x) (hne : x ≠ m) : find (afterDelete K r m) p = some x := by
  unfold afterDelete
  rw [hg, find_foldl_remove]
  have : ¬ (p ∈ K.pts m ∧ find r.circle p = some m) := by
    rintro ⟨_, h2⟩
    rw [hx] at h2
    exact hne (Option.some.inj h2)
  simp only [this, if_false]; exact hx

/-- where a binding of the ring after `RemoveNode` comes from: it was there before (and is not the removed
  member's), or it was given back to a remaining member -/
theorem removeNode_origin {K : Cfg μ} (hord : OrdOK K) {r : Ring μ} (hr : WF K r) (m : μ) (p : Nat) (x : μ)
    (hx : find (removeNode K r m).circle p = some x) :
    (find r.circle p = some x ∧ x ≠ m) ∨
    (find (afterDelete K r m) p = none ∧ x ∈ r.nodes.filter (· ≠ m) ∧ p ∈ K.pts x) := by
  rw [removeNode_circle] at hx
  cases hrs : K.restores with
  | false =>
    rw [hrs] at hx
    exact Or.inl (afterDelete_old hr m p x hx)
  | true =>
    rw [hrs] at hx
    simp only [if_true] at hx
    cases hd : find (afterDelete K r m) p with
    | some y =>
      rw [restore_keep _ _ _ p y hd] at hx
      have hxy : y = x := Option.some.inj hx
      subst hxy
      exact Or.inl (afterDelete_old hr m p y hd)
    | none =>
      obtain ⟨h1, h2⟩ := restore_new _ _ _ p x hd hx
      exact Or.inr ⟨rfl, (hord _ x).mp h1, h2⟩

theorem wf_addNode (K : Cfg μ) (r : Ring μ) (m : μ) (hr : WF K r) : WF K (addNode K.pts r m) := by
  have hn : (addNode K.pts r m).nodes = if m ∈ r.nodes then r.nodes else m :: r.nodes := rfl
  refine ⟨rfl, ?_, ?_⟩
  · intro p x hx
    rw [find_addNode] at hx
    rw [hn]
    by_cases hp : p ∈ K.pts m
    · simp only [hp, if_true, Option.some.injEq] at hx
      subst hx
      by_cases hm : m ∈ r.nodes <;> simp [hm]
    · simp only [hp, if_false] at hx
      have := hr.owner_mem p x hx
      by_cases hm : m ∈ r.nodes <;> simp [hm, this]
  · intro p x hx
    rw [find_addNode] at hx
    by_cases hp : p ∈ K.pts m
    · simp only [hp, if_true, Option.some.injEq] at hx
      subst hx; exact hp
    · simp only [hp, if_false] at hx
      exact hr.owner_pts p x hx

theorem wf_removeNode (K : Cfg μ) (hord : OrdOK K) (r : Ring μ) (m : μ) (hr : WF K r) :
    WF K (removeNode K r m) := by
  refine ⟨rfl, ?_, ?_⟩
  · intro p x hx
    rw [removeNode_nodes]
    rcases removeNode_origin hord hr m p x hx with ⟨h1, h2⟩ | ⟨_, h2, _⟩
    · simp [hr.owner_mem p x h1, h2]
    · exact h2
  · intro p x hx
    rcases removeNode_origin hord hr m p x hx with ⟨h1, _⟩ | ⟨_, _, h3⟩
    · exact hr.owner_pts p x h1
    · exact h3

theorem wf_run (K : Cfg μ) (hord : OrdOK K) (ops : List (Op μ)) : WF K (run K ops) := by
  unfold run
  suffices h : ∀ r : Ring μ, WF K r → WF K (ops.foldl (step K) r) from h _ (wf_empty K)
  induction ops with
  | nil => intro r hr; exact hr
  | cons o ops ih =>
    intro r hr
    simp only [List.foldl_cons]
    apply ih
    cases o with
    | add m => exact wf_addNode K r m hr
    | remove m => exact wf_removeNode K hord r m hr

theorem covered_addNode (K : Cfg μ) (r : Ring μ) (m : μ) (hc : Covered K r) : Covered K (addNode K.pts r m) := by
  intro x hx p hp
  apply (mem_keys_iff _ p).mpr
  rw [find_addNode]
  by_cases hpm : p ∈ K.pts m
  · exact ⟨m, by simp [hpm]⟩
  · simp only [hpm, if_false]
    have hn : (addNode K.pts r m).nodes = if m ∈ r.nodes then r.nodes else m :: r.nodes := rfl
    rw [hn] at hx
    have hxr : x ∈ r.nodes := by
      by_cases hm : m ∈ r.nodes
      · simpa [hm] using hx
      · simp only [hm, if_false, List.mem_cons] at hx
        rcases hx with rfl | hx
        · exact absurd hp hpm
        · exact hx
    exact (mem_keys_iff _ p).mp (hc x hxr p hp)

theorem covered_removeNode (K : Cfg μ) (hrs : K.restores = true) (hord : OrdOK K) (r : Ring μ) (m : μ) :
    Covered K (removeNode K r m) := by
  intro x hx p hp
  rw [removeNode_nodes] at hx
  apply (mem_keys_iff _ p).mpr
  rw [removeNode_circle, hrs]
  simp only [if_true]
  exact restore_covers K.pts _ _ x p ((hord _ x).mpr hx) hp

theorem covered_run (K : Cfg μ) (hrs : K.restores = true) (hord : OrdOK K) (ops : List (Op μ)) :
    Covered K (run K ops) := by
  unfold run
  suffices h : ∀ r : Ring μ, Covered K r → Covered K (ops.foldl (step K) r) from
    h _ (by intro m hm; simp [Ring.empty] at hm)
  induction ops with
  | nil => intro r hr; exact hr
  | cons o ops ih =>
    intro r hr
    simp only [List.foldl_cons]
    apply ih
    cases o with
    | add m => exact covered_addNode K r m hr
    | remove m => exact covered_removeNode K hrs hord r m

/-- with guard and give-back loop: the points of the ring after `RemoveNode` were all on it before -/
theorem keys_removeNode_sub {K : Cfg μ} (hord : OrdOK K) {r : Ring μ} (hr : WF K r) (hc : Covered K r) (m : μ)
    (q : Nat) (hq : q ∈ keys (removeNode K r m).circle) : q ∈ keys r.circle := by
  obtain ⟨x, hx⟩ := (mem_keys_iff _ q).mp hq
  rcases removeNode_origin hord hr m q x hx with ⟨h1, _⟩ | ⟨_, h2, h3⟩
  · exact (mem_keys_iff _ q).mpr ⟨x, h1⟩
  · exact hc x (List.mem_filter.mp h2).1 q h3

/-- with guard (and give-back loop or not): a binding of another member survives `RemoveNode` -/
theorem removeNode_keep {K : Cfg μ} (hg : K.guarded = true) (r : Ring μ) (m : μ) (p : Nat) (x : μ)
    (hx : find r.circle p = some x) (hne : x ≠ m) : find (removeNode K r m).circle p = some x := by
  rw [removeNode_circle]
  have := afterDelete_keep hg r m p x hx hne
  cases K.restores with
  | false => exact this
  | true => exact restore_keep _ _ _ p x this

/-! ### what `lookup` returns -/

theorem mem_sorted_iff {K : Cfg μ} {r : Ring μ} (hr : WF K r) (q : Nat) :
    q ∈ r.sorted ↔ q ∈ keys r.circle := by
  rw [hr.sorted_eq]; exact mem_sortPoints q _

/-- a ring without points: `GetNodeBy` indexes an empty slice -/
theorem lookup_empty {K : Cfg μ} {r : Ring μ} (hr : WF K r) (hk : keys r.circle = []) (h : Nat) :
    lookup r h = .panic := by
  have hs : r.sorted = [] := by
    rw [hr.sorted_eq]; unfold updateSorted; rw [hk]; rfl
  unfold lookup
  rw [hs, search_nil]; rfl

/-- a ring with at least one point: `GetNodeBy` returns the owner of the cyclic successor of the hash -/
theorem lookup_total {K : Cfg μ} {r : Ring μ} (hr : WF K r) (hk : keys r.circle ≠ []) (h : Nat) :
    ∃ p m, IsSucc (keys r.circle) h p ∧ find r.circle p = some m ∧ lookup r h = .node m := by
  have hs : r.sorted.Pairwise (· ≤ ·) := by rw [hr.sorted_eq]; exact sorted_sortPoints _
  have hne : r.sorted ≠ [] := by
    obtain ⟨q, hq⟩ := List.exists_mem_of_ne_nil _ hk
    exact List.ne_nil_of_mem ((mem_sorted_iff hr q).mpr hq)
  obtain ⟨p, hp, hsucc⟩ := search_pick r.sorted h hs hne
  have hsucc' : IsSucc (keys r.circle) h p := hsucc.congr (mem_sorted_iff hr)
  obtain ⟨m, hm⟩ := (mem_keys_iff r.circle p).mp hsucc'.1
  refine ⟨p, m, hsucc', hm, ?_⟩
  unfold lookup
  rw [hp]; simp only [hm]

theorem lookup_of_succ {K : Cfg μ} {r : Ring μ} (hr : WF K r) {h p : Nat} {m : μ}
    (hp : IsSucc (keys r.circle) h p) (hm : find r.circle p = some m) : lookup r h = .node m := by
  have hk : keys r.circle ≠ [] := List.ne_nil_of_mem hp.1
  obtain ⟨p', m', hp', hm', hl⟩ := lookup_total hr hk h
  have := hp.unique hp'
  subst this
  rw [hm] at hm'
  cases hm'
  exact hl

theorem succ_of_lookup {K : Cfg μ} {r : Ring μ} (hr : WF K r) {h : Nat} {m : μ}
    (hl : lookup r h = .node m) : ∃ p, IsSucc (keys r.circle) h p ∧ find r.circle p = some m := by
  by_cases hk : keys r.circle = []
  · rw [lookup_empty hr hk] at hl; cases hl
  · obtain ⟨p, m', hp, hm, hl'⟩ := lookup_total hr hk h
    rw [hl] at hl'
    cases hl'
    exact ⟨p, hp, hm⟩

theorem keys_eq_nil_iff (c : List (Nat × μ)) : keys c = [] ↔ c = [] := by
  unfold keys; simp

/-- two well-formed rings whose maps agree point by point answer every lookup alike -/
theorem lookup_congr {K : Cfg μ} {r r' : Ring μ} (hr : WF K r) (hr' : WF K r')
    (hf : ∀ p, find r.circle p = find r'.circle p) (h : Nat) : lookup r h = lookup r' h := by
  have hk : ∀ q, q ∈ keys r.circle ↔ q ∈ keys r'.circle := by
    intro q; rw [mem_keys_iff, mem_keys_iff, hf q]
  by_cases he : keys r.circle = []
  · have he' : keys r'.circle = [] := by
      apply List.eq_nil_iff_forall_not_mem.mpr
      intro q hq
      have := (hk q).mpr hq
      rw [he] at this
      cases this
    rw [lookup_empty hr he, lookup_empty hr' he']
  · obtain ⟨p, m, hp, hm, hl⟩ := lookup_total hr he h
    rw [hl]
    exact (lookup_of_succ hr' (hp.congr hk) (by rw [← hf p]; exact hm)).symm

/-! ### side-conditions on the regenerated constants -/

/-- what the proofs and the model need from the source: the ownership guard of `RemoveNode` (D16) and its
  give-back loop, FNV-1a shape of `hashKey` on 32 bits, one replica format `%s<sep>%d` shared by AddNode and
  both loops of RemoveNode, at least one replica, `<=` in the binary search -/
def Valid (P : Params) : Prop :=
  P.guarded = true ∧ P.restores = true ∧ 0 < P.replicas ∧ P.hashBits = 32 ∧ P.fnvOrder = "xor-mul" ∧
  P.searchCmp = "<=" ∧ P.fmtAdd = P.fmtRemove ∧ P.fmtRestore = P.fmtAdd ∧ (parseFmt P.fmtAdd).isSome = true ∧
  P.offset < 2 ^ 32 ∧ P.prime < 2 ^ 32

instance (P : Params) : Decidable (Valid P) := by unfold Valid; infer_instance

/-! ### the concrete configuration -/

theorem mem_insertName (x a : List UInt8) (l : List (List UInt8)) : a ∈ insertName x l ↔ a = x ∨ a ∈ l := by
  induction l with
  | nil => simp [insertName]
  | cons y ys ih =>
    unfold insertName
    split
    · simp only [List.mem_cons, ih]
      constructor
      · rintro (h | h | h)
        · exact Or.inr (Or.inl h)
        · exact Or.inl h
        · exact Or.inr (Or.inr h)
      · rintro (h | h | h)
        · exact Or.inr (Or.inl h)
        · exact Or.inl h
        · exact Or.inr (Or.inr h)
    · simp

theorem mem_sortNames (a : List UInt8) (l : List (List UInt8)) : a ∈ sortNames l ↔ a ∈ l := by
  induction l with
  | nil => simp [sortNames]
  | cons y ys ih =>
    unfold sortNames at ih ⊢
    simp only [List.foldr_cons, mem_insertName, ih, List.mem_cons]

theorem replicaPoints_ne_nil (P : Params) (hp : 0 < P.replicas) (sep m : List UInt8) : replicaPoints P sep m ≠ [] := by
  unfold replicaPoints
  intro h
  have := congrArg List.length h
  simp at this
  omega

/-- under `Valid` the driver's configuration exists, has guard and give-back loop, a proper visiting order
  and at least one replica point per member -/
theorem concreteCfg_valid (P : Params) (hv : Valid P) :
    ∃ K, concreteCfg? P = some K ∧ K.guarded = true ∧ K.restores = true ∧ OrdOK K ∧ ∀ a, K.pts a ≠ [] := by
  obtain ⟨hg, hrs, hrep, _, _, _, hfr, hft, hsome, _, _⟩ := hv
  obtain ⟨sep, hsep⟩ := Option.isSome_iff_exists.mp hsome
  refine ⟨{ guarded := P.guarded, restores := P.restores, pts := replicaPoints P sep, ord := sortNames }, ?_, hg, hrs, ?_, ?_⟩
  · unfold concreteCfg?
    rw [← hfr, hft, hsep]
    simp
  · intro l m; exact mem_sortNames m l
  · intro a; exact replicaPoints_ne_nil P hrep sep a

end Fatchoy.C17
