/-
C10 helper lemmas, part 6: red-black balance through the insertion and deletion fix-ups.
`Bal t c n`: `t` has root colour `c` (nil is black), no red node has a red child, and every path from
the root to a nil link passes exactly `n` black nodes.
-/
import Fatchoy.Model.C10
namespace Fatchoy.C10

inductive Bal : Tree → Color → Nat → Prop
  | nil : Bal .nil .black 0
  | red : Bal l .black n → Bal r .black n → Bal (.node .red l k v r) .red n
  | black : Bal l c1 n → Bal r c2 n → Bal (.node .black l k v r) .black (n+1)

/-- the red-black invariant of a whole tree: balanced with a black root -/
def RB (t : Tree) : Prop := ∃ n, Bal t .black n

/-- a path whose hole must be filled with a subtree of black height `n`; a red frame sits under a black one
(in particular the outermost frame, the root, is black) -/
inductive PathOK : Path → Nat → Prop
  | nil : PathOK [] n
  | consB : f.c = .black → Bal f.sib cs n → PathOK rest (n+1) → PathOK (f :: rest) n
  | consR : f.c = .red → g.c = .black → Bal f.sib .black n → PathOK (g :: rest) n → PathOK (f :: g :: rest) n

def headRed : Path → Bool
  | f :: _ => f.c = .red
  | [] => false

/-- a subtree of root colour `c` and black height `n` may be plugged into `p` -/
structure Fits (p : Path) (c : Color) (n : Nat) : Prop where
  ok : PathOK p n
  red : headRed p = true → c = .black
  root : p = [] → c = .black

@[simp] theorem isRed_red : isRed (.node .red l k v r) = true := rfl
@[simp] theorem isRed_black : isRed (.node .black l k v r) = false := rfl
@[simp] theorem isRed_nil : isRed .nil = false := rfl
@[simp] theorem blacken_node : blacken (.node c l k v r) = .node .black l k v r := rfl
@[simp] theorem blacken_nil : blacken .nil = .nil := rfl

theorem fill_bal_black {f : Frame} (hc : f.c = .black) (hs : Bal f.sib cs n) (ht : Bal t c n) :
    Bal (fill f t) .black (n+1) := by
  unfold fill; cases hd : f.dir <;> simp [hc] <;> first | exact .black ht hs | exact .black hs ht

theorem fill_bal_red {f : Frame} (hc : f.c = .red) (hs : Bal f.sib .black n) (ht : Bal t .black n) :
    Bal (fill f t) .red n := by
  unfold fill; cases hd : f.dir <;> simp [hc] <;> first | exact .red ht hs | exact .red hs ht

/-- colour of the root of `plug p t` when `t` has colour `c` -/
def plugColor (p : Path) (c : Color) : Color := match p with | [] => c | _ => .black

theorem plug_bal : ∀ {p : Path} {t c n}, PathOK p n → Bal t c n → (headRed p = true → c = .black) →
    ∃ m, Bal (plug p t) (plugColor p c) m := by
  intro p
  induction p with
  | nil => intro t c n _ ht _; exact ⟨n, ht⟩
  | cons f rest ih =>
    intro t c n hp ht hr
    cases hp with
    | consB hc hs hrest =>
      simp only [plug]
      obtain ⟨m, h⟩ := ih hrest (fill_bal_black hc hs ht) (fun _ => rfl)
      have : plugColor rest .black = .black := by cases rest <;> rfl
      rw [this] at h
      exact ⟨m, h⟩
    | consR hc hg hs hrest =>
      simp only [plug]
      have : c = .black := hr (by simp [headRed, hc])
      subst this
      obtain ⟨m, h⟩ := ih hrest (fill_bal_red hc hs ht) (fun h => by simp [headRed, hg] at h)
      exact ⟨m, h⟩

theorem plug_fits (hf : Fits p c n) (ht : Bal t c n) : ∃ m, Bal (plug p t) .black m := by
  obtain ⟨m, h⟩ := plug_bal hf.ok ht hf.red
  cases p with
  | nil => have := hf.root rfl; subst this; exact ⟨m, h⟩
  | cons f rest => exact ⟨m, h⟩

theorem blacken_bal (h : Bal t c m) : ∃ m', Bal (blacken t) .black m' := by
  cases h with
  | nil => exact ⟨0, .nil⟩
  | red hl hr => exact ⟨_, .black hl hr⟩
  | black hl hr => exact ⟨_, .black hl hr⟩

theorem plug_blacken (hp : PathOK p n) (ht : Bal t c n) (hr : headRed p = true → c = .black) :
    ∃ m, Bal (blacken (plug p t)) .black m := by
  obtain ⟨m, h⟩ := plug_bal hp ht hr
  exact blacken_bal h

/-! ### insertion -/

theorem insFix_bal : ∀ (p : Path) (xl : Tree) (xk : Nat) (xv : Int) (xr : Tree) (n : Nat), PathOK p n →
    Bal (.node .red xl xk xv xr) .red n → ∃ m, Bal (blacken (insFix xl xk xv xr p)) .black m
  | [], xl, xk, xv, xr, n, _, hx => by
    unfold insFix; exact blacken_bal hx
  | [f], xl, xk, xv, xr, n, hp, hx => by
    unfold insFix
    cases hp with
    | consB hc hs hrest => simp only [hc, if_true]; exact blacken_bal (fill_bal_black hc hs hx)
  | f :: g :: rest, xl, xk, xv, xr, n, hp, hx => by
    unfold insFix
    split
    · rename_i hb
      refine plug_blacken hp hx ?_
      intro h; simp [headRed, hb] at h
    · rename_i hnb
      cases hp with
      | consB hc _ _ => exact absurd hc hnb
      | consR hc hg hs hrest =>
        cases hrest with
        | consR hgr => simp [hg] at hgr
        | consB _ hu hrest' =>
          split
          · -- red uncle
            rename_i ul uk uv ur hsib
            rw [hsib] at hu
            cases hu with
            | red hul hur =>
              have hp' : Bal (fill {f with c := .black} (.node .red xl xk xv xr)) .black (n+1) :=
                fill_bal_black (f := {f with c := .black}) rfl hs hx
              have hub : Bal (Tree.node .black ul uk uv ur) .black (n+1) := .black hul hur
              cases hgd : g.dir
              · exact insFix_bal rest _ _ _ _ (n+1) hrest' (.red hp' hub)
              · exact insFix_bal rest _ _ _ _ (n+1) hrest' (.red hub hp')
          · -- black uncle
            rename_i uncle hnotred
            have hub : Bal g.sib .black n := by
              generalize g.sib = gs at hu hnotred
              cases hu with
              | nil => exact .nil
              | red hl hr => exact absurd rfl (hnotred _ _ _ _)
              | black hl hr => exact .black hl hr
            cases hx with
            | red hxl hxr =>
              have key : ∀ t, Bal t .black (n+1) → ∃ m, Bal (blacken (plug rest t)) .black m :=
                fun t ht => plug_blacken hrest' ht (fun _ => rfl)
              cases hgd : g.dir <;> cases hfd : f.dir <;> simp only [] <;> apply key
              · exact .black (.red hxl hxr) (.red hs hub)
              · exact .black (.red hs hxl) (.red hxr hub)
              · exact .black (.red hub hxl) (.red hxr hs)
              · exact .black (.red hub hs) (.red hxl hxr)

/-! ### deletion -/

/-- the subtree a parent of colour `pc` must be, when its children have black height `n+1` -/
def parentBH (pc : Color) (n : Nat) : Nat := match pc with | .red => n + 1 | .black => n + 2

theorem isRed_false_of_black (h : Bal t .black n) : isRed t = false := by
  cases h <;> rfl

theorem bal_black_of_not_red (h : Bal t c n) (hr : isRed t = false) : Bal t .black n := by
  cases h with
  | nil => exact .nil
  | red _ _ => simp [isRed] at hr
  | black hl hr' => exact .black hl hr'

theorem blacken_black_bal (h : Bal t .black n) : Bal (blacken t) .black n := by
  cases h with
  | nil => exact .nil
  | black hl hr => exact .black hl hr

/-- local repair lemma, left side: a hole one black short under a parent of colour `pc` with a black sibling -/
theorem caseL_spec (pc : Color) (hx : Bal x .black n) (hs : Bal sib .black (n+1)) :
    match caseL pc x pk pv sib with
    | .inl t => (pc = .black → Bal t .black (n+1)) ∧ (pc = .red → isRed t = true ∧ Bal (blacken t) .black (n+1))
    | .inr t => Bal t pc (parentBH pc n) := by
  cases hs with
  | black hsl hsr =>
    rename_i sl c1 sr c2 sk sv
    cases hrl : isRed sl <;> cases hrr : isRed sr
    · -- both black
      have h1 := bal_black_of_not_red hsl hrl
      have h2 := bal_black_of_not_red hsr hrr
      simp only [caseL, hrl, hrr, Bool.not_false, Bool.and_self, if_true]
      constructor
      · intro h; subst h; exact .black hx (.red h1 h2)
      · intro h; subst h; exact ⟨rfl, .black hx (.red h1 h2)⟩
    · -- sr red
      cases hsr with
      | nil => simp at hrr
      | black _ _ => simp at hrr
      | red hsrl hsrr' =>
        simp [caseL, hrl]
        cases pc
        · exact .red (.black hx hsl) (.black hsrl hsrr')
        · exact .black (.black hx hsl) (.black hsrl hsrr')
    · -- sl red, sr black
      have h2 := bal_black_of_not_red hsr hrr
      cases hsl with
      | nil => simp at hrl
      | black _ _ => simp at hrl
      | red hsll hslr' =>
        simp [caseL, hrr]
        cases pc
        · exact .red (.black hx hsll) (.black hslr' h2)
        · exact .black (.black hx hsll) (.black hslr' h2)
    · -- both red: right-red branch
      cases hsr with
      | nil => simp at hrr
      | black _ _ => simp at hrr
      | red hsrl hsrr' =>
        simp [caseL, hrl]
        cases pc
        · exact .red (.black hx hsl) (.black hsrl hsrr')
        · exact .black (.black hx hsl) (.black hsrl hsrr')

/-- local repair lemma, right side -/
theorem caseR_spec (pc : Color) (hx : Bal x .black n) (hs : Bal sib .black (n+1)) :
    match caseR pc x pk pv sib with
    | .inl t => (pc = .black → Bal t .black (n+1)) ∧ (pc = .red → isRed t = true ∧ Bal (blacken t) .black (n+1))
    | .inr t => Bal t pc (parentBH pc n) := by
  cases hs with
  | black hsl hsr =>
    rename_i sl c1 sr c2 sk sv
    cases hrl : isRed sl <;> cases hrr : isRed sr
    · have h1 := bal_black_of_not_red hsl hrl
      have h2 := bal_black_of_not_red hsr hrr
      simp only [caseR, hrl, hrr, Bool.not_false, Bool.and_self, if_true]
      constructor
      · intro h; subst h; exact .black (.red h1 h2) hx
      · intro h; subst h; exact ⟨rfl, .black (.red h1 h2) hx⟩
    · -- sr red, sl black
      have h1 := bal_black_of_not_red hsl hrl
      cases hsr with
      | nil => simp at hrr
      | black _ _ => simp at hrr
      | red hsrl hsrr' =>
        simp [caseR, hrl]
        cases pc
        · exact .red (.black h1 hsrl) (.black hsrr' hx)
        · exact .black (.black h1 hsrl) (.black hsrr' hx)
    · -- sl red
      cases hsl with
      | nil => simp at hrl
      | black _ _ => simp at hrl
      | red hsll hslr' =>
        simp [caseR, hrr]
        cases pc
        · exact .red (.black hsll hslr') (.black hsr hx)
        · exact .black (.black hsll hslr') (.black hsr hx)
    · cases hsl with
      | nil => simp at hrl
      | black _ _ => simp at hrl
      | red hsll hslr' =>
        simp [caseR, hrr]
        cases pc
        · exact .red (.black hsll hslr') (.black hsr hx)
        · exact .black (.black hsll hslr') (.black hsr hx)

/-- what the fix-up loop is handed: a black-rooted (or empty) subtree one black short,
    or a red-rooted subtree that becomes right once blackened -/
def Deficient (x : Tree) (n : Nat) : Prop :=
  (isRed x = false ∧ Bal x .black n) ∨ (isRed x = true ∧ Bal (blacken x) .black (n+1))

theorem plug_black_top (hrest : PathOK rest (n+1)) (ht : Bal t .black (n+1)) :
    ∃ m, Bal (plug rest t) .black m := by
  obtain ⟨m, h⟩ := plug_bal hrest ht (fun _ => rfl)
  have : plugColor rest .black = .black := by cases rest <;> rfl
  rw [this] at h
  exact ⟨m, h⟩

theorem delFix_bal : ∀ (p : Path) (x : Tree) (n : Nat), PathOK p (n+1) → Deficient x n →
    ∃ m, Bal (delFix x p) .black m
  | [], x, n, _, hx => by
    unfold delFix
    rcases hx with ⟨_, hb⟩ | ⟨_, hb⟩
    · exact ⟨_, blacken_black_bal hb⟩
    · exact ⟨_, hb⟩
  | f :: rest, x, n, hp, hx => by
    unfold delFix
    rcases hx with ⟨hnr, hb⟩ | ⟨hr, hb⟩
    · simp only [hnr, Bool.false_eq_true, if_false]
      have hfacts : (f.c = .black ∧ (∃ cs, Bal f.sib cs (n+1)) ∧ PathOK rest (n+2)) ∨
          (f.c = .red ∧ Bal f.sib .black (n+1) ∧ PathOK rest (n+1) ∧ headRed rest = false) := by
        cases hp with
        | consB hc hs hrest => exact .inl ⟨hc, ⟨_, hs⟩, hrest⟩
        | consR hc hg hs hrest => exact .inr ⟨hc, hs, hrest, by simp [headRed, hg]⟩
      split
      · -- L, red sibling
        rename_i sl sk sv sr hd hsib
        rcases hfacts with ⟨hc, ⟨cs, hs⟩, hrest⟩ | ⟨hc, hs, _, _⟩
        · rw [hsib] at hs
          cases hs with
          | red hsl hsr =>
            have := caseL_spec (pk := f.k) (pv := f.v) .red hb hsl
            split <;> rename_i t heq <;> rw [heq] at this <;> simp only at this
            · exact plug_black_top hrest (.black (this.2 trivial).2 hsr)
            · obtain ⟨m, h⟩ := plug_black_top hrest (.black this hsr)
              exact ⟨m, blacken_black_bal h⟩
        · rw [hsib] at hs; cases hs
      · -- L, sibling not red
        rename_i sib hd hnotred
        rcases hfacts with ⟨hc, ⟨cs, hs⟩, hrest⟩ | ⟨hc, hs, hrest, hhr⟩
        · have hs' : Bal f.sib .black (n+1) := by
            generalize f.sib = gs at hs hnotred
            cases hs with
            | red _ _ => exact absurd rfl (hnotred _ _ _ _)
            | black hl hr => exact .black hl hr
          have := caseL_spec (pk := f.k) (pv := f.v) f.c hb hs'
          split <;> rename_i t heq <;> rw [heq] at this <;> simp only at this
          · have hbt := this.1 hc
            exact delFix_bal rest t (n+1) hrest (.inl ⟨isRed_false_of_black hbt, hbt⟩)
          · rw [hc] at this
            obtain ⟨m, h⟩ := plug_black_top hrest this
            exact ⟨m, blacken_black_bal h⟩
        · have := caseL_spec (pk := f.k) (pv := f.v) f.c hb hs
          split <;> rename_i t heq <;> rw [heq] at this <;> simp only at this
          · have hbt := this.2 hc
            exact delFix_bal rest t n hrest (.inr hbt)
          · rw [hc] at this
            exact plug_blacken hrest this (fun h => by simp [hhr] at h)
      · -- R, red sibling
        rename_i sl sk sv sr hd hsib
        rcases hfacts with ⟨hc, ⟨cs, hs⟩, hrest⟩ | ⟨hc, hs, _, _⟩
        · rw [hsib] at hs
          cases hs with
          | red hsl hsr =>
            have := caseR_spec (pk := f.k) (pv := f.v) .red hb hsr
            split <;> rename_i t heq <;> rw [heq] at this <;> simp only at this
            · exact plug_black_top hrest (.black hsl (this.2 trivial).2)
            · obtain ⟨m, h⟩ := plug_black_top hrest (.black hsl this)
              exact ⟨m, blacken_black_bal h⟩
        · rw [hsib] at hs; cases hs
      · -- R, sibling not red
        rename_i sib hd hnotred
        rcases hfacts with ⟨hc, ⟨cs, hs⟩, hrest⟩ | ⟨hc, hs, hrest, hhr⟩
        · have hs' : Bal f.sib .black (n+1) := by
            generalize f.sib = gs at hs hnotred
            cases hs with
            | red _ _ => exact absurd rfl (hnotred _ _ _ _)
            | black hl hr => exact .black hl hr
          have := caseR_spec (pk := f.k) (pv := f.v) f.c hb hs'
          split <;> rename_i t heq <;> rw [heq] at this <;> simp only at this
          · have hbt := this.1 hc
            exact delFix_bal rest t (n+1) hrest (.inl ⟨isRed_false_of_black hbt, hbt⟩)
          · rw [hc] at this
            obtain ⟨m, h⟩ := plug_black_top hrest this
            exact ⟨m, blacken_black_bal h⟩
        · have := caseR_spec (pk := f.k) (pv := f.v) f.c hb hs
          split <;> rename_i t heq <;> rw [heq] at this <;> simp only at this
          · have hbt := this.2 hc
            exact delFix_bal rest t n hrest (.inr hbt)
          · rw [hc] at this
            exact plug_blacken hrest this (fun h => by simp [hhr] at h)
    · simp only [hr, if_true]
      obtain ⟨m, h⟩ := plug_bal hp hb (fun _ => rfl)
      exact ⟨m, h⟩

end Fatchoy.C10
