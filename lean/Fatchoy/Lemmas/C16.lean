/-
C16 — helper lemmas: byte-buffer reads/writes, CFB in keystream form, the invariants of the in-place
machine of Model/C16.lean and the proof that a canonical unrolled program (Model/C16Spec.lean:
`canonEnc`, `canonDec`, any block size `N > 0`, any stride `S > 0`, `S` even for decryption) computes
textbook CFB for every packet length.
-/
import Fatchoy.Model.C16Spec
namespace Fatchoy.C16

/-! ### buffers -/


theorem hasLen_iff (l : Bytes) (k : Nat) : hasLen l k = true ↔ k ≤ l.length := by
  induction l generalizing k with
  | nil => cases k <;> simp [hasLen]
  | cons a t ih => cases k with
    | zero => simp [hasLen]
    | succ k => simp [hasLen, ih]

@[simp] theorem not_hasLen (l : Bytes) (k : Nat) : (!hasLen l k) = true ↔ l.length < k := by
  rw [Bool.not_eq_true', ← Bool.not_eq_true, hasLen_iff]; omega

@[simp] theorem length_xorBytes (a b : Bytes) : (xorBytes a b).length = min a.length b.length := by
  simp [xorBytes]

theorem xorBytes_cancel (a k : Bytes) (h : a.length ≤ k.length) : xorBytes (xorBytes a k) k = a := by
  induction a generalizing k with
  | nil => simp [xorBytes]
  | cons x xs ih =>
    cases k with
    | nil => simp at h
    | cons y ys =>
      simp only [xorBytes, List.zipWith_cons_cons] at ih ⊢
      rw [ih ys (by simpa using h)]
      simp [UInt8.xor_assoc]

@[simp] theorem length_rd (b : Bytes) (o n : Nat) : (rd b o n).length = min n (b.length - o) := by
  simp [rd]

theorem length_wr (b : Bytes) (o : Nat) (v : Bytes) (h : o + v.length ≤ b.length) : (wr b o v).length = b.length := by
  simp [wr]; omega

theorem rd_wr_same (b : Bytes) (o : Nat) (v : Bytes) (h : o ≤ b.length) : rd (wr b o v) o v.length = v := by
  simp [rd, wr, List.length_take, Nat.min_eq_left h]

theorem rd_wr_before (b : Bytes) (o : Nat) (v : Bytes) (o' n : Nat) (h : o' + n ≤ o) (hb : o ≤ b.length) :
    rd (wr b o v) o' n = rd b o' n := by
  simp only [rd, wr]
  rw [List.drop_append_of_le_length (by simp; omega), List.take_append_of_le_length (by simp; omega)]
  rw [List.drop_take, List.take_take]
  congr 1; omega

theorem rd_wr_after (b : Bytes) (o : Nat) (v : Bytes) (o' n : Nat) (h : o + v.length ≤ o') (hb : o ≤ b.length) :
    rd (wr b o v) o' n = rd b o' n := by
  simp only [rd, wr]
  congr 1
  rw [List.drop_append, List.drop_append]
  simp only [List.length_take, Nat.min_eq_left hb, List.drop_drop]
  rw [List.drop_of_length_le (by simp; omega), List.drop_of_length_le (by omega)]
  simp; congr 1; omega

theorem rd_append_right (a b : Bytes) (o n : Nat) (h : a.length = o) : rd (a ++ b) o n = b.take n := by
  simp [rd, List.drop_left' h]

theorem wr_append_right (a b : Bytes) (o : Nat) (v : Bytes) (h : a.length = o) :
    wr (a ++ b) o v = a ++ (v ++ b.drop v.length) := by
  subst h
  simp [wr, List.drop_append]


/-! ### CFB in keystream form -/

/-- CFB encryption in keystream form: `ks` is `E` of the previous ciphertext block -/
def cfbEncK (E : Bytes → Bytes) (N : Nat) (ks m : Bytes) : Bytes :=
  if _h : m = [] ∨ N = 0 then [] else
    let c := xorBytes (m.take N) ks
    c ++ cfbEncK E N (E c) (m.drop N)
termination_by m.length
decreasing_by
  have : m.length ≠ 0 := fun h => _h (Or.inl (List.eq_nil_of_length_eq_zero h))
  simp only [List.length_drop]; omega

def cfbDecK (E : Bytes → Bytes) (N : Nat) (ks c : Bytes) : Bytes :=
  if _h : c = [] ∨ N = 0 then [] else
    xorBytes (c.take N) ks ++ cfbDecK E N (E (c.take N)) (c.drop N)
termination_by c.length
decreasing_by
  have : c.length ≠ 0 := fun h => _h (Or.inl (List.eq_nil_of_length_eq_zero h))
  simp only [List.length_drop]; omega

theorem cfbEnc_eq_K (E : Bytes → Bytes) (N : Nat) (prev m : Bytes) :
    cfbEnc E N prev m = cfbEncK E N (E prev) m := by
  induction h : m.length using Nat.strongRecOn generalizing m prev with
  | _ n ih =>
    rw [cfbEnc, cfbEncK]
    split
    · rfl
    · rename_i hne
      simp only
      rw [ih (m.drop N).length _ _ _ rfl]
      subst h
      have : m.length ≠ 0 := fun h => hne (Or.inl (List.eq_nil_of_length_eq_zero h))
      simp only [List.length_drop]; omega

theorem cfbDec_eq_K (E : Bytes → Bytes) (N : Nat) (prev c : Bytes) :
    cfbDec E N prev c = cfbDecK E N (E prev) c := by
  induction h : c.length using Nat.strongRecOn generalizing c prev with
  | _ n ih =>
    rw [cfbDec, cfbDecK]
    split
    · rfl
    · rename_i hne
      rw [ih (c.drop N).length _ _ _ rfl]
      subst h
      have : c.length ≠ 0 := fun h => hne (Or.inl (List.eq_nil_of_length_eq_zero h))
      simp only [List.length_drop]; omega

theorem cfbEncK_nil (E : Bytes → Bytes) (N : Nat) (ks : Bytes) : cfbEncK E N ks [] = [] := by
  rw [cfbEncK]; simp
theorem cfbDecK_nil (E : Bytes → Bytes) (N : Nat) (ks : Bytes) : cfbDecK E N ks [] = [] := by
  rw [cfbDecK]; simp

/-- one full or partial block peeled off -/
theorem cfbEncK_step (E : Bytes → Bytes) (N : Nat) (hN : 0 < N) (ks m : Bytes) (hm : m ≠ []) :
    cfbEncK E N ks m = xorBytes (m.take N) ks ++ cfbEncK E N (E (xorBytes (m.take N) ks)) (m.drop N) := by
  rw [cfbEncK]
  have : ¬ (m = [] ∨ N = 0) := by intro h; rcases h with h | h; exact hm h; omega
  simp [this]

theorem cfbDecK_step (E : Bytes → Bytes) (N : Nat) (hN : 0 < N) (ks c : Bytes) (hc : c ≠ []) :
    cfbDecK E N ks c = xorBytes (c.take N) ks ++ cfbDecK E N (E (c.take N)) (c.drop N) := by
  rw [cfbDecK]
  have : ¬ (c = [] ∨ N = 0) := by intro h; rcases h with h | h; exact hc h; omega
  simp [this]

/-- the last, short block (also the empty remainder): just the byte-wise xor -/
theorem cfbEncK_short (E : Bytes → Bytes) (N : Nat) (ks m : Bytes) (hks : ks.length = N) (hm : m.length ≤ N) :
    cfbEncK E N ks m = xorBytes m ks := by
  by_cases h0 : m = []
  · subst h0; simp [cfbEncK_nil, xorBytes]
  · have hN : 0 < N := by
      have : m.length ≠ 0 := fun h => h0 (List.eq_nil_of_length_eq_zero h)
      omega
    rw [cfbEncK_step E N hN ks m h0, List.take_of_length_le hm, List.drop_of_length_le hm, cfbEncK_nil]
    simp

theorem cfbDecK_short (E : Bytes → Bytes) (N : Nat) (ks c : Bytes) (hks : ks.length = N) (hc : c.length ≤ N) :
    cfbDecK E N ks c = xorBytes c ks := by
  by_cases h0 : c = []
  · subst h0; simp [cfbDecK_nil, xorBytes]
  · have hN : 0 < N := by
      have : c.length ≠ 0 := fun h => h0 (List.eq_nil_of_length_eq_zero h)
      omega
    rw [cfbDecK_step E N hN ks c h0, List.take_of_length_le hc, List.drop_of_length_le hc, cfbDecK_nil]
    simp

theorem length_cfbEncK (E : Bytes → Bytes) (N : Nat) (hN : 0 < N) (hE : ∀ x, x.length = N → (E x).length = N)
    (ks m : Bytes) (hks : ks.length = N) : (cfbEncK E N ks m).length = m.length := by
  induction h : m.length using Nat.strongRecOn generalizing m ks with
  | _ n ih =>
    by_cases hle : m.length ≤ N
    · rw [cfbEncK_short E N ks m hks hle]; simp; omega
    · have hm : m ≠ [] := by intro h0; subst h0; simp at hle
      rw [cfbEncK_step E N hN ks m hm, List.length_append]
      have hx : (xorBytes (m.take N) ks).length = N := by simp; omega
      rw [ih (m.drop N).length (by subst h; simp; omega) _ _ (hE _ hx) rfl, hx]
      simp; omega

/-- decryption inverts encryption (keystream form) -/
theorem cfbDecK_cfbEncK (E : Bytes → Bytes) (N : Nat) (hN : 0 < N) (hE : ∀ x, x.length = N → (E x).length = N)
    (ks m : Bytes) (hks : ks.length = N) : cfbDecK E N ks (cfbEncK E N ks m) = m := by
  induction h : m.length using Nat.strongRecOn generalizing m ks with
  | _ n ih =>
    by_cases hle : m.length ≤ N
    · rw [cfbEncK_short E N ks m hks hle, cfbDecK_short E N ks _ hks (by simp; omega)]
      exact xorBytes_cancel m ks (by omega)
    · have hm : m ≠ [] := by intro h0; subst h0; simp at hle
      have hx : (xorBytes (m.take N) ks).length = N := by simp; omega
      rw [cfbEncK_step E N hN ks m hm]
      rw [cfbDecK_step E N hN ks _ (by intro h0; have := congrArg List.length h0; rw [List.length_append, hx] at this; simp at this; omega)]
      rw [List.take_left' hx, List.drop_left' hx]
      rw [ih (m.drop N).length (by subst h; simp; omega) _ _ (hE _ hx) rfl]
      rw [xorBytes_cancel _ _ (by simp; omega)]
      exact List.take_append_drop N m


/-! ### the machine -/




theorem execs_nil (p : Prog) (E : Bytes → Bytes) (bs : Nat) (iv : Bytes) (st : St) :
    execs p E bs iv [] st = some st := rfl

theorem execs_cons (p : Prog) (E : Bytes → Bytes) (bs : Nat) (iv : Bytes) (s : Stmt) (ss : List Stmt) (st : St) :
    execs p E bs iv (s :: ss) st = (exec p E bs iv st s).bind (execs p E bs iv ss) := rfl

theorem execs_append (p : Prog) (E : Bytes → Bytes) (bs : Nat) (iv : Bytes) (a b : List Stmt) (st : St) :
    execs p E bs iv (a ++ b) st = (execs p E bs iv a st).bind (execs p E bs iv b) := by
  induction a generalizing st with
  | nil => simp [execs]
  | cons s ss ih =>
    simp only [List.cons_append, execs]
    cases exec p E bs iv st s with
    | none => simp
    | some st' => simp [ih]

theorem blockEncrypt_eq (p : Prog) (E : Bytes → Bytes) (bs : Nat) (st : St) (r : Ref) (src : Bytes)
    (h1 : bs ≤ src.length) (h2 : bs ≤ regLen p (resolve st.sw r)) :
    blockEncrypt p E bs st r src =
      some { st with buf := wr st.buf (regOff p (resolve st.sw r)) (E (src.take bs)) } := by
  unfold blockEncrypt
  have : ¬ ((!hasLen src bs) = true ∨ regLen p (resolve st.sw r) < bs) := by
    rw [not_hasLen]; omega
  rw [if_neg this]

theorem exec_xor_eq (p : Prog) (E : Bytes → Bytes) (bs : Nat) (iv : Bytes) (st : St) (d s w : Nat) (r : Ref)
    (h1 : s + w ≤ st.rest.length) (h2 : d + w ≤ st.rest.length)
    (h3 : regOff p (resolve st.sw r) + w ≤ st.buf.length) :
    exec p E bs iv st (.xor d s w r) =
      some { st with rest := wr st.rest d (xorBytes (rd st.rest s w) (rd st.buf (regOff p (resolve st.sw r)) w)) } := by
  simp only [exec]
  have : ¬ ((!hasLen st.rest (s + w)) = true ∨ (!hasLen st.rest (d + w)) = true ∨
      (rd st.buf (regOff p (resolve st.sw r)) w).length < w) := by
    rw [not_hasLen, not_hasLen, length_rd]; omega
  rw [if_neg this]

theorem exec_adv_eq (p : Prog) (E : Bytes → Bytes) (bs : Nat) (iv : Bytes) (st : St) (k : Nat)
    (h : k ≤ st.rest.length) :
    exec p E bs iv st (.adv k) =
      some { st with done := (st.rest.take k).reverse ++ st.done, rest := st.rest.drop k } := by
  simp only [exec]
  have : ¬ ((!hasLen st.rest k) = true) := by rw [not_hasLen]; omega
  rw [if_neg this]

/-! ### encryption: the invariant and one block -/

/-- `st` is an encryption in progress: `A` (of length `off`) are the ciphertext bytes already
  written above `base`, `B` the plaintext still to do, `tbl` holds the keystream block for `B`;
  finishing the job in CFB terms yields `target` -/
def EncInv (E : Bytes → Bytes) (N : Nat) (target : Bytes) (st : St) (off : Nat) : Prop :=
  ∃ A B, st.rest = A ++ B ∧ A.length = off ∧ N ≤ st.buf.length ∧ st.sw = false ∧
    st.done.reverse ++ (A ++ cfbEncK E N (rd st.buf 0 N) B) = target

theorem enc_block (p : Prog) (E : Bytes → Bytes) (N : Nat) (iv target : Bytes) (hp : p.tblLen = N) (hN : 0 < N)
    (hE : ∀ x, x.length = N → (E x).length = N) (r : Ref) (hr : r = .var false ∨ r = .ptr false)
    (len : Option Nat) (hl : len = some N ∨ len = none)
    (st : St) (off : Nat) (hinv : EncInv E N target st off) (hlen : off + N ≤ st.rest.length) :
    ∃ st', execs p E N iv [.xor off off N r, .enc (.var false) off len] st = some st' ∧
      EncInv E N target st' (off + N) ∧ st'.rest.length = st.rest.length ∧ st'.done = st.done ∧
      st'.buf.length = st.buf.length := by
  obtain ⟨A, B, hrest, hA, hbuf, hsw, htgt⟩ := hinv
  have hB : N ≤ B.length := by rw [hrest, List.length_append] at hlen; omega
  have hres : resolve st.sw r = false := by rcases hr with rfl | rfl <;> simp [resolve, hsw]
  have hres0 : resolve st.sw (.var false) = false := by simp [resolve, hsw]
  have hoff : regOff p false = 0 := by simp [regOff]
  have hlenr : regLen p false = N := by simp [regLen, hp]
  let ks := rd st.buf 0 N
  have hks : ks.length = N := by simp [ks]; omega
  let c := xorBytes (B.take N) ks
  have hc : c.length = N := by simp [c, hks]; omega
  -- the xor
  have hx := exec_xor_eq p E N iv st off off N r hlen hlen (by rw [hres, hoff]; omega)
  rw [hres, hoff, hrest, rd_append_right A B off N hA, wr_append_right A B off _ hA] at hx
  change exec p E N iv st (.xor off off N r) = some { st with rest := A ++ (c ++ B.drop c.length) } at hx
  rw [hc] at hx
  -- the block encryption
  let st1 : St := { st with rest := A ++ (c ++ B.drop N) }
  have hsrc : ∀ src : Bytes, src.take N = c → N ≤ src.length →
      blockEncrypt p E N st1 (.var false) src = some { st1 with buf := wr st.buf 0 (E c) } := by
    intro src h1 h2
    have := blockEncrypt_eq p E N st1 (.var false) src h2 (by show N ≤ regLen p (resolve st.sw _); rw [hres0, hlenr]; omega)
    rw [this, h1]; show some { st1 with buf := wr st.buf (regOff p (resolve st.sw (.var false))) (E c) } = _
    rw [hres0, hoff]
  have hrest1 : st1.rest.length = st.rest.length := by
    show (A ++ (c ++ B.drop N)).length = _
    rw [hrest]; simp [hc]; omega
  have he : exec p E N iv st1 (.enc (.var false) off len) = some { st1 with buf := wr st.buf 0 (E c) } := by
    rcases hl with rfl | rfl
    · simp only [exec]
      have : ¬ ((!hasLen st1.rest (off + N)) = true) := by rw [not_hasLen, hrest1]; omega
      rw [if_neg this]
      apply hsrc
      · show (rd (A ++ (c ++ B.drop N)) off N).take N = c
        rw [rd_append_right A _ off N hA, List.take_take, Nat.min_self, List.take_left' hc]
      · show N ≤ (rd (A ++ (c ++ B.drop N)) off N).length
        rw [rd_append_right A _ off N hA]; simp [hc]
    · simp only [exec]
      have : ¬ ((!hasLen st1.rest off) = true) := by rw [not_hasLen, hrest1]; omega
      rw [if_neg this]
      apply hsrc
      · show ((A ++ (c ++ B.drop N)).drop off).take N = c
        rw [List.drop_left' hA, List.take_left' hc]
      · show N ≤ ((A ++ (c ++ B.drop N)).drop off).length
        rw [List.drop_left' hA]; simp [hc]
  refine ⟨{ st1 with buf := wr st.buf 0 (E c) }, ?_, ?_, hrest1, rfl, ?_⟩
  rotate_left 2
  · show (wr st.buf 0 (E c)).length = _
    rw [length_wr _ _ _ (by rw [hE c hc]; omega)]
  · rw [execs_cons, hx]; simp only [Option.bind_some]; rw [execs_cons, he]; simp [execs]
  · have hEc : (E c).length = N := hE c hc
    refine ⟨A ++ c, B.drop N, ?_, ?_, ?_, hsw, ?_⟩
    · show A ++ (c ++ B.drop N) = (A ++ c) ++ B.drop N
      simp
    · simp [hA, hc]
    · show N ≤ (wr st.buf 0 (E c)).length
      rw [length_wr _ _ _ (by omega)]; exact hbuf
    · show st.done.reverse ++ ((A ++ c) ++ cfbEncK E N (rd (wr st.buf 0 (E c)) 0 N) (B.drop N)) = target
      have h1 : rd (wr st.buf 0 (E c)) 0 N = E c := by
        have := rd_wr_same st.buf 0 (E c) (by omega); rwa [hEc] at this
      rw [h1, ← htgt]
      have hBne : B ≠ [] := by intro h0; subst h0; simp at hB; omega
      rw [cfbEncK_step E N hN (rd st.buf 0 N) B hBne]
      simp [c, ks]




theorem enc_body (p : Prog) (E : Bytes → Bytes) (N : Nat) (iv target : Bytes) (hp : p.tblLen = N) (hN : 0 < N)
    (hE : ∀ x, x.length = N → (E x).length = N) (r : Ref) (hr : r = .var false ∨ r = .ptr false) :
    ∀ (c k : Nat) (st : St), EncInv E N target st (k * N) → (k + c) * N ≤ st.rest.length →
      ∃ st', execs p E N iv (encBody N r k c) st = some st' ∧ EncInv E N target st' ((k + c) * N) ∧
        st'.rest.length = st.rest.length ∧ st'.done = st.done ∧ st'.buf.length = st.buf.length := by
  intro c
  induction c with
  | zero => intro k st hinv _; exact ⟨st, rfl, by simpa using hinv, rfl, rfl, rfl⟩
  | succ c ih =>
    intro k st hinv hlen
    have e1 : k + (c + 1) = (k + 1) + c := by omega
    have h1 : k * N + N = (k + 1) * N := (Nat.succ_mul k N).symm
    have h2 : (k + 1) * N ≤ (k + 1 + c) * N := Nat.mul_le_mul_right N (Nat.le_add_right _ _)
    rw [e1] at hlen ⊢
    obtain ⟨st1, hx1, hinv1, hl1, hd1, hb1⟩ :=
      enc_block p E N iv target hp hN hE r hr (some N) (Or.inl rfl) st (k * N) hinv (by omega)
    rw [h1] at hinv1
    obtain ⟨st2, hx2, hinv2, hl2, hd2, hb2⟩ := ih (k + 1) st1 hinv1 (by omega)
    refine ⟨st2, ?_, hinv2, by omega, by rw [hd2, hd1], by omega⟩
    show execs p E N iv ([Stmt.xor (k * N) (k * N) N r, Stmt.enc (.var false) (k * N) (some N)] ++ encBody N r (k + 1) c) st = _
    rw [execs_append, hx1]; exact hx2

theorem enc_adv (p : Prog) (E : Bytes → Bytes) (N : Nat) (iv target : Bytes) (st : St) (off : Nat)
    (hinv : EncInv E N target st off) :
    ∃ st', exec p E N iv st (.adv off) = some st' ∧ EncInv E N target st' 0 ∧
      st'.rest.length = st.rest.length - off ∧ st'.buf.length = st.buf.length := by
  obtain ⟨A, B, hrest, hA, hbuf, hsw, htgt⟩ := hinv
  have hle : off ≤ st.rest.length := by rw [hrest]; simp; omega
  refine ⟨_, exec_adv_eq p E N iv st off hle, ⟨[], B, ?_, rfl, hbuf, hsw, ?_⟩, ?_⟩
  · show st.rest.drop off = [] ++ B
    rw [hrest, List.drop_left' hA]; rfl
  · show ((st.rest.take off).reverse ++ st.done).reverse ++ ([] ++ cfbEncK E N (rd st.buf 0 N) B) = target
    rw [hrest, List.take_left' hA, ← htgt]; simp
  · refine ⟨?_, rfl⟩
    show (st.rest.drop off).length = _
    simp

/-- one pass of the stride loop body -/
theorem enc_stride (p : Prog) (E : Bytes → Bytes) (N S : Nat) (iv target : Bytes) (hp : p.tblLen = N) (hN : 0 < N)
    (hE : ∀ x, x.length = N → (E x).length = N) (r : Ref) (hr : r = .var false ∨ r = .ptr false)
    (st : St) (hinv : EncInv E N target st 0) (hlen : S * N ≤ st.rest.length) :
    ∃ st', execs p E N iv (encBody N r 0 S ++ [.adv (S * N)]) st = some st' ∧ EncInv E N target st' 0 ∧
      st'.rest.length = st.rest.length - S * N ∧ st'.buf.length = st.buf.length := by
  obtain ⟨st1, hx1, hinv1, hl1, _, hb1⟩ := enc_body p E N iv target hp hN hE r hr S 0 st (by simpa using hinv) (by simpa using hlen)
  rw [Nat.zero_add] at hinv1
  obtain ⟨st2, hx2, hinv2, hl2, hb2⟩ := enc_adv p E N iv target st1 (S * N) hinv1
  refine ⟨st2, ?_, hinv2, by omega, by omega⟩
  rw [execs_append, hx1]; simp only [Option.bind_some, execs_cons, hx2, execs_nil]

theorem enc_loop (p : Prog) (E : Bytes → Bytes) (N S : Nat) (iv target : Bytes) (hp : p.tblLen = N) (hN : 0 < N)
    (hE : ∀ x, x.length = N → (E x).length = N) (r : Ref) (hr : r = .var false ∨ r = .ptr false)
    (hbody : p.body = encBody N r 0 S ++ [.adv (S * N)]) (hwin : p.window = S * N) :
    ∀ (q : Nat) (st : St), EncInv E N target st 0 → q * (S * N) ≤ st.rest.length →
      ∃ st', loopN p E N iv q st = some st' ∧ EncInv E N target st' 0 ∧
        st'.rest.length = st.rest.length - q * (S * N) ∧ st'.buf.length = st.buf.length := by
  intro q
  induction q with
  | zero => intro st hinv _; exact ⟨st, rfl, hinv, by simp, rfl⟩
  | succ q ih =>
    intro st hinv hlen
    rw [Nat.succ_mul] at hlen
    obtain ⟨st1, hx1, hinv1, hl1, hb1⟩ := enc_stride p E N S iv target hp hN hE r hr st hinv (by omega)
    obtain ⟨st2, hx2, hinv2, hl2, hb2⟩ := ih st1 hinv1 (by omega)
    refine ⟨st2, ?_, hinv2, by rw [Nat.succ_mul]; omega, by omega⟩
    simp only [loopN]
    have : ¬ ((!hasLen st.rest p.window) = true) := by rw [not_hasLen, hwin]; omega
    rw [if_neg this, hbody, hx1]; exact hx2

theorem enc_final (p : Prog) (E : Bytes → Bytes) (N : Nat) (iv target : Bytes) (hp : p.tblLen = N)
    (st : St) (hinv : EncInv E N target st 0) (hlen : st.rest.length ≤ N) :
    ∃ st', exec p E N iv st (.xorRest (.var false)) = some st' ∧ st'.data = target ∧ st'.buf = st.buf := by
  obtain ⟨A, B, hrest, hA, hbuf, hsw, htgt⟩ := hinv
  have hA0 : A = [] := List.eq_nil_of_length_eq_zero hA
  subst hA0
  simp only [List.nil_append] at hrest htgt
  refine ⟨_, rfl, ?_, rfl⟩
  have hres : resolve st.sw (.var false) = false := by simp [resolve, hsw]
  show st.done.reverse ++ (xorBytes st.rest (rd st.buf (regOff p (resolve st.sw (.var false))) (regLen p (resolve st.sw (.var false)))) ++
    st.rest.drop (xorBytes st.rest (rd st.buf (regOff p (resolve st.sw (.var false))) (regLen p (resolve st.sw (.var false))))).length) = target
  rw [hres]
  have h0 : regOff p false = 0 := by simp [regOff]
  have h1 : regLen p false = N := by simp [regLen, hp]
  rw [h0, h1]
  have hks : (rd st.buf 0 N).length = N := by simp; omega
  rw [List.drop_of_length_le (by simp [hks]; omega), List.append_nil, ← htgt,
    cfbEncK_short E N _ B hks (by rw [← hrest]; exact hlen), hrest]

theorem enc_tail (p : Prog) (E : Bytes → Bytes) (N : Nat) (iv target : Bytes) (hp : p.tblLen = N) (hN : 0 < N)
    (hE : ∀ x, x.length = N → (E x).length = N) (r : Ref) (hr : r = .var false ∨ r = .ptr false) :
    ∀ (t : Nat) (st : St), EncInv E N target st 0 → t * N ≤ st.rest.length → st.rest.length ≤ t * N + N →
      ∃ st', runFrom p E N iv (encCases N r t) st = some st' ∧ st'.data = target ∧
        st'.buf.length = st.buf.length := by
  intro t
  induction t with
  | zero =>
    intro st hinv _ hle
    obtain ⟨st1, hx, hd, hb⟩ := enc_final p E N iv target hp st hinv (by omega)
    refine ⟨st1, ?_, hd, by rw [hb]⟩
    simp [encCases, runFrom, execs_cons, execs_nil, hx]
  | succ t ih =>
    intro st hinv hlen hle
    rw [Nat.succ_mul] at hlen hle
    obtain ⟨st1, hx1, hinv1, hl1, _, hb1⟩ :=
      enc_block p E N iv target hp hN hE r hr none (Or.inr rfl) st 0 hinv (by omega)
    rw [Nat.zero_add] at hinv1
    obtain ⟨st2, hx2, hinv2, hl2, hb2⟩ := enc_adv p E N iv target st1 N hinv1
    obtain ⟨st3, hx3, hd3, hb3⟩ := ih st2 hinv2 (by omega) (by omega)
    refine ⟨st3, ?_, hd3, by omega⟩
    show runFrom p E N iv (⟨t + 1, encTailStep N r, true⟩ :: encCases N r t) st = _
    simp only [runFrom]
    show (execs p E N iv ([Stmt.xor 0 0 N r, Stmt.enc (.var false) 0 none] ++ [Stmt.adv N]) st).bind _ = _
    rw [execs_append, hx1]
    simp only [Option.bind_some, execs_cons, hx2, execs_nil, if_true]
    exact hx3




theorem switch_encCases (p : Prog) (E : Bytes → Bytes) (bs : Nat) (iv : Bytes) (N : Nat) (r : Ref) :
    ∀ (T t : Nat) (st : St), t ≤ T →
      switch p E bs iv (encCases N r T) t st = runFrom p E bs iv (encCases N r t) st := by
  intro T
  induction T with
  | zero => intro t st ht; have : t = 0 := by omega
            subst this; simp [encCases, switch]
  | succ T ih =>
    intro t st ht
    by_cases h : t = T + 1
    · subst h; simp [encCases, switch]
    · have hne : ¬ (T + 1 = t) := fun h' => h h'.symm
      show switch p E bs iv (⟨T + 1, encTailStep N r, true⟩ :: encCases N r T) t st = _
      simp only [switch, hne, if_false]
      exact ih t st (by omega)

/-- lengths: `q` strides, `t` tail blocks and the remainder make up the packet -/
theorem split_len (L N S : Nat) (hN : 0 < N) :
    (L / N / S) * (S * N) ≤ L ∧ (L / N % S) * N ≤ L - (L / N / S) * (S * N) ∧
    L - (L / N / S) * (S * N) ≤ (L / N % S) * N + N := by
  have h1 : N * (L / N) + L % N = L := Nat.div_add_mod L N
  have h2 : S * (L / N / S) + L / N % S = L / N := Nat.div_add_mod (L / N) S
  have h3 : L % N < N := Nat.mod_lt _ hN
  generalize L / N = n at *
  generalize n / S = q at *
  generalize n % S = t at *
  generalize L % N = m at *
  have e : q * (S * N) + t * N + m = L := by
    rw [← h1, ← h2, Nat.mul_add]
    congr 1; congr 1
    · ac_rfl
    · exact Nat.mul_comm t N
  omega

theorem run_canonEnc (N S : Nat) (ph : Bool) (hN : 0 < N) (hS : 0 < S) (E : Bytes → Bytes)
    (hE : ∀ x, x.length = N → (E x).length = N) (iv buf data : Bytes) (hiv : N ≤ iv.length) (hbuf : N ≤ buf.length) :
    ∃ buf', run (canonEnc N S ph) E N iv buf data = some (cfbEnc E N (iv.take N) data, buf') ∧
      buf'.length = buf.length := by
  let p := canonEnc N S ph
  let r : Ref := if ph then .ptr false else .var false
  have hr : r = .var false ∨ r = .ptr false := by cases ph <;> simp [r]
  have hp : p.tblLen = N := rfl
  let target := cfbEnc E N (iv.take N) data
  -- prologue
  let st0 : St := { done := [], rest := data, buf := buf, sw := false }
  have hEiv : (E (iv.take N)).length = N := hE _ (by simp; omega)
  have hpre : execs p E N iv p.pre st0 = some { st0 with buf := wr buf 0 (E (iv.take N)) } := by
    show execs p E N iv [.encIV (.var false)] st0 = _
    simp only [execs_cons, exec]
    rw [blockEncrypt_eq p E N st0 (.var false) iv hiv (by simp [resolve, regLen, st0, hp])]
    simp [resolve, regOff, st0, execs_nil]
  let st1 : St := { st0 with buf := wr buf 0 (E (iv.take N)) }
  have hb1 : st1.buf.length = buf.length := length_wr _ _ _ (by omega)
  have hinv1 : EncInv E N target st1 0 := by
    refine ⟨[], data, rfl, rfl, by rw [hb1]; exact hbuf, rfl, ?_⟩
    show ([] : Bytes).reverse ++ ([] ++ cfbEncK E N (rd (wr buf 0 (E (iv.take N))) 0 N) data) = target
    have := rd_wr_same buf 0 (E (iv.take N)) (by omega)
    rw [hEiv] at this
    rw [this]; simp [target, cfbEnc_eq_K]
  obtain ⟨hq, ht, hm⟩ := split_len data.length N S hN
  have hrest1 : st1.rest.length = data.length := rfl
  obtain ⟨st2, hx2, hinv2, hl2, hb2⟩ :=
    enc_loop p E N S iv target hp hN hE r hr rfl rfl (data.length / N / S) st1 hinv1 (by rw [hrest1]; exact hq)
  obtain ⟨st3, hx3, hd3, hb3⟩ :=
    enc_tail p E N iv target hp hN hE r hr (data.length / N % S) st2 hinv2 (by omega) (by omega)
  refine ⟨st3.buf, ?_, by omega⟩
  unfold run
  have hc : ¬ (buf.length < (canonEnc N S ph).tblLen ∨ buf.length < (canonEnc N S ph).nextHi) := by
    show ¬ (buf.length < N ∨ buf.length < 0); omega
  rw [if_neg hc]
  show (execs p E N iv p.pre st0).bind _ = _
  rw [hpre]
  simp only [Option.bind_some]
  show (loopN p E N iv (data.length / N / S) st1).bind _ = _
  rw [hx2]
  simp only [Option.bind_some]
  show (switch p E N iv (encCases N r (S - 1)) (data.length / N % S) st2).bind _ = _
  rw [switch_encCases p E N iv N r (S - 1) _ st2 (by have := Nat.mod_lt (data.length / N) hS; omega), hx3]
  simp [hd3, target]




/-! ### decryption: the invariant and one block -/

/-- offset in the scratch buffer of the physical register of a valid two-register program -/
def roff (N : Nat) (b : Bool) : Nat := if b then N else 0

/-- `st` is a decryption in progress: `A` (of length `off`) are the plaintext bytes already written
  above `base`, `B` the ciphertext still to do, the physical register `c` holds the keystream block
  for `B` -/
def DecInv (E : Bytes → Bytes) (N : Nat) (target : Bytes) (st : St) (off : Nat) (c : Bool) : Prop :=
  ∃ A B, st.rest = A ++ B ∧ A.length = off ∧ 2 * N ≤ st.buf.length ∧
    st.done.reverse ++ (A ++ cfbDecK E N (rd st.buf (roff N c) N) B) = target

/-- the register layout of a decryption: `tbl := buf[0:N]`, `next := buf[N:2N]` -/
def DecRegs (p : Prog) (N : Nat) : Prop := p.tblLen = N ∧ p.nextLo = N ∧ p.nextHi = 2 * N

theorem regOff_dec (p : Prog) (N : Nat) (hp : DecRegs p N) (b : Bool) : regOff p b = roff N b := by
  cases b <;> simp [regOff, roff, hp.2.1]
theorem regLen_dec (p : Prog) (N : Nat) (hp : DecRegs p N) (b : Bool) : regLen p b = N := by
  cases b <;> simp [regLen, hp.1, hp.2.1, hp.2.2]; omega

theorem rd_wr_other (buf : Bytes) (N : Nat) (c : Bool) (v : Bytes) (hv : v.length = N) (hb : 2 * N ≤ buf.length) :
    rd (wr buf (roff N (!c)) v) (roff N c) N = rd buf (roff N c) N := by
  cases c
  · exact rd_wr_before buf N v 0 N (by simp) (by omega)
  · exact rd_wr_after buf 0 v N N (by omega) (by omega)

/-- one block: `E(ciphertext block)` into the other register first, then the block is overwritten -/
theorem dec_block (p : Prog) (E : Bytes → Bytes) (N : Nat) (iv target : Bytes) (hp : DecRegs p N) (hN : 0 < N)
    (hE : ∀ x, x.length = N → (E x).length = N) (c : Bool) (r1 r2 : Ref)
    (len : Option Nat) (hl : len = some N ∨ len = none)
    (st : St) (off : Nat) (hr1 : resolve st.sw r1 = !c) (hr2 : resolve st.sw r2 = c)
    (hinv : DecInv E N target st off c) (hlen : off + N ≤ st.rest.length) :
    ∃ st', execs p E N iv [.enc r1 off len, .xor off off N r2] st = some st' ∧
      DecInv E N target st' (off + N) (!c) ∧ st'.rest.length = st.rest.length ∧ st'.done = st.done ∧
      st'.buf.length = st.buf.length ∧ st'.sw = st.sw := by
  obtain ⟨A, B, hrest, hA, hbuf, htgt⟩ := hinv
  have hB : N ≤ B.length := by rw [hrest, List.length_append] at hlen; omega
  let blk := B.take N
  have hblk : blk.length = N := by simp [blk]; omega
  have hEb : (E blk).length = N := hE blk hblk
  have hroff : ∀ b, roff N b + N ≤ st.buf.length := by intro b; cases b <;> simp [roff] <;> omega
  -- the block encryption of the ciphertext block
  have hsrc : ∀ src : Bytes, src.take N = blk → N ≤ src.length →
      blockEncrypt p E N st r1 src = some { st with buf := wr st.buf (roff N (!c)) (E blk) } := by
    intro src h1 h2
    rw [blockEncrypt_eq p E N st r1 src h2 (by rw [regLen_dec p N hp]; omega), h1, hr1, regOff_dec p N hp]
  have he : exec p E N iv st (.enc r1 off len) = some { st with buf := wr st.buf (roff N (!c)) (E blk) } := by
    rcases hl with rfl | rfl
    · simp only [exec]
      have : ¬ ((!hasLen st.rest (off + N)) = true) := by rw [not_hasLen]; omega
      rw [if_neg this]
      apply hsrc
      · rw [hrest, rd_append_right A _ off N hA, List.take_take, Nat.min_self]
      · rw [hrest, rd_append_right A _ off N hA]; simp; omega
    · simp only [exec]
      have : ¬ ((!hasLen st.rest off) = true) := by rw [not_hasLen]; omega
      rw [if_neg this]
      apply hsrc
      · rw [hrest, List.drop_left' hA]
      · rw [hrest, List.drop_left' hA]; omega
  let st1 : St := { st with buf := wr st.buf (roff N (!c)) (E blk) }
  have hb1 : st1.buf.length = st.buf.length := length_wr _ _ _ (by rw [hEb]; exact hroff _)
  -- the xor
  let ks := rd st.buf (roff N c) N
  have hks : ks.length = N := by simp [ks]; have := hroff c; omega
  have hx := exec_xor_eq p E N iv st1 off off N r2 hlen hlen
    (by show regOff p (resolve st.sw r2) + N ≤ st1.buf.length; rw [hr2, regOff_dec p N hp, hb1]; exact hroff c)
  have hk : rd st1.buf (regOff p (resolve st1.sw r2)) N = ks := by
    show rd (wr st.buf (roff N (!c)) (E blk)) (regOff p (resolve st.sw r2)) N = ks
    rw [hr2, regOff_dec p N hp, rd_wr_other st.buf N c (E blk) hEb hbuf]
  rw [hk] at hx
  have hrest1 : st1.rest = A ++ B := hrest
  rw [hrest1, rd_append_right A B off N hA, wr_append_right A B off _ hA] at hx
  have hxl : (xorBytes (B.take N) ks).length = N := by simp [hks]; omega
  rw [hxl] at hx
  refine ⟨{ st1 with rest := A ++ (xorBytes (B.take N) ks ++ B.drop N) }, ?_, ⟨A ++ xorBytes blk ks, B.drop N, ?_, ?_, ?_, ?_⟩, ?_, rfl, hb1, rfl⟩
  · rw [execs_cons, he]; simp only [Option.bind_some]; rw [execs_cons, hx]; simp [execs_nil]
  · show A ++ (xorBytes (B.take N) ks ++ B.drop N) = (A ++ xorBytes blk ks) ++ B.drop N
    simp [blk]
  · simp [hA, blk, hks]; omega
  · show 2 * N ≤ st1.buf.length
    rw [hb1]; exact hbuf
  · show st.done.reverse ++ ((A ++ xorBytes blk ks) ++ cfbDecK E N (rd (wr st.buf (roff N (!c)) (E blk)) (roff N (!c)) N) (B.drop N)) = target
    have h1 : rd (wr st.buf (roff N (!c)) (E blk)) (roff N (!c)) N = E blk := by
      have := rd_wr_same st.buf (roff N (!c)) (E blk) (by have := hroff (!c); omega); rwa [hEb] at this
    have hBne : B ≠ [] := by intro h0; subst h0; simp at hB; omega
    rw [h1, ← htgt, cfbDecK_step E N hN (rd st.buf (roff N c) N) B hBne]
    simp [blk, ks]
  · show (A ++ (xorBytes (B.take N) ks ++ B.drop N)).length = st.rest.length
    rw [hrest]; simp [hxl]; omega




/-- the register holding the keystream after `n` blocks of the stride body -/
def flips : Nat → Bool → Bool
  | 0, b => b
  | n + 1, b => flips n (!b)

theorem flips_two_mul (n : Nat) (b : Bool) : flips (2 * n) b = b := by
  induction n generalizing b with
  | zero => rfl
  | succ n ih =>
    have : 2 * (n + 1) = (2 * n + 1) + 1 := by omega
    rw [this]; simp [flips, ih]

theorem flips_even (S : Nat) (b : Bool) (h : S % 2 = 0) : flips S b = b := by
  have : S = 2 * (S / 2) := by omega
  rw [this]; exact flips_two_mul _ _

theorem dec_body (p : Prog) (E : Bytes → Bytes) (N : Nat) (iv target : Bytes) (hp : DecRegs p N) (hN : 0 < N)
    (hE : ∀ x, x.length = N → (E x).length = N) (ph : Bool) :
    ∀ (cnt : Nat) (cur : Bool) (k : Nat) (st : St), st.sw = false → DecInv E N target st (k * N) cur →
      (k + cnt) * N ≤ st.rest.length →
      ∃ st', execs p E N iv (decBody N ph cur k cnt) st = some st' ∧
        DecInv E N target st' ((k + cnt) * N) (flips cnt cur) ∧
        st'.rest.length = st.rest.length ∧ st'.done = st.done ∧ st'.buf.length = st.buf.length ∧ st'.sw = false := by
  intro cnt
  induction cnt with
  | zero => intro cur k st hsw hinv _; exact ⟨st, rfl, by simpa [flips] using hinv, rfl, rfl, rfl, hsw⟩
  | succ cnt ih =>
    intro cur k st hsw hinv hlen
    have e1 : k + (cnt + 1) = (k + 1) + cnt := by omega
    have h1 : k * N + N = (k + 1) * N := (Nat.succ_mul k N).symm
    have h2 : (k + 1) * N ≤ (k + 1 + cnt) * N := Nat.mul_le_mul_right N (Nat.le_add_right _ _)
    rw [e1] at hlen ⊢
    obtain ⟨st1, hx1, hinv1, hl1, hd1, hb1, hs1⟩ :=
      dec_block p E N iv target hp hN hE cur (.var (!cur)) (if ph then .ptr cur else .var cur) (some N) (Or.inl rfl)
        st (k * N) (by simp [resolve, hsw]) (by cases ph <;> simp [resolve, hsw]) hinv (by omega)
    rw [h1] at hinv1
    obtain ⟨st2, hx2, hinv2, hl2, hd2, hb2, hs2⟩ := ih (!cur) (k + 1) st1 (by rw [hs1, hsw]) hinv1 (by omega)
    refine ⟨st2, ?_, hinv2, by omega, by rw [hd2, hd1], by omega, hs2⟩
    show execs p E N iv ([Stmt.enc (.var (!cur)) (k * N) (some N),
      Stmt.xor (k * N) (k * N) N (if ph then .ptr cur else .var cur)] ++ decBody N ph (!cur) (k + 1) cnt) st = _
    rw [execs_append, hx1]; exact hx2

theorem dec_adv (p : Prog) (E : Bytes → Bytes) (N : Nat) (iv target : Bytes) (st : St) (off : Nat) (c : Bool)
    (hinv : DecInv E N target st off c) :
    ∃ st', exec p E N iv st (.adv off) = some st' ∧ DecInv E N target st' 0 c ∧
      st'.rest.length = st.rest.length - off ∧ st'.buf.length = st.buf.length ∧ st'.sw = st.sw := by
  obtain ⟨A, B, hrest, hA, hbuf, htgt⟩ := hinv
  have hle : off ≤ st.rest.length := by rw [hrest]; simp; omega
  refine ⟨_, exec_adv_eq p E N iv st off hle, ⟨[], B, ?_, rfl, hbuf, ?_⟩, ?_, rfl, rfl⟩
  · show st.rest.drop off = [] ++ B
    rw [hrest, List.drop_left' hA]; rfl
  · show ((st.rest.take off).reverse ++ st.done).reverse ++ ([] ++ cfbDecK E N (rd st.buf (roff N c) N) B) = target
    rw [hrest, List.take_left' hA, ← htgt]; simp
  · show (st.rest.drop off).length = _
    simp

theorem dec_stride (p : Prog) (E : Bytes → Bytes) (N S : Nat) (iv target : Bytes) (hp : DecRegs p N) (hN : 0 < N)
    (hE : ∀ x, x.length = N → (E x).length = N) (ph : Bool) (hS : S % 2 = 0)
    (st : St) (hsw : st.sw = false) (hinv : DecInv E N target st 0 false) (hlen : S * N ≤ st.rest.length) :
    ∃ st', execs p E N iv (decBody N ph false 0 S ++ [.adv (S * N)]) st = some st' ∧ DecInv E N target st' 0 false ∧
      st'.rest.length = st.rest.length - S * N ∧ st'.buf.length = st.buf.length ∧ st'.sw = false := by
  obtain ⟨st1, hx1, hinv1, hl1, _, hb1, hs1⟩ :=
    dec_body p E N iv target hp hN hE ph S false 0 st hsw (by simpa using hinv) (by simpa using hlen)
  rw [Nat.zero_add, flips_even S false hS] at hinv1
  obtain ⟨st2, hx2, hinv2, hl2, hb2, hs2⟩ := dec_adv p E N iv target st1 (S * N) false hinv1
  refine ⟨st2, ?_, hinv2, by omega, by omega, by rw [hs2, hs1]⟩
  rw [execs_append, hx1]; simp only [Option.bind_some, execs_cons, hx2, execs_nil]

theorem dec_loop (p : Prog) (E : Bytes → Bytes) (N S : Nat) (iv target : Bytes) (hp : DecRegs p N) (hN : 0 < N)
    (hE : ∀ x, x.length = N → (E x).length = N) (ph : Bool) (hS : S % 2 = 0)
    (hbody : p.body = decBody N ph false 0 S ++ [.adv (S * N)]) (hwin : p.window = S * N) :
    ∀ (q : Nat) (st : St), st.sw = false → DecInv E N target st 0 false → q * (S * N) ≤ st.rest.length →
      ∃ st', loopN p E N iv q st = some st' ∧ DecInv E N target st' 0 false ∧
        st'.rest.length = st.rest.length - q * (S * N) ∧ st'.buf.length = st.buf.length ∧ st'.sw = false := by
  intro q
  induction q with
  | zero => intro st hsw hinv _; exact ⟨st, rfl, hinv, by simp, rfl, hsw⟩
  | succ q ih =>
    intro st hsw hinv hlen
    rw [Nat.succ_mul] at hlen
    obtain ⟨st1, hx1, hinv1, hl1, hb1, hs1⟩ := dec_stride p E N S iv target hp hN hE ph hS st hsw hinv (by omega)
    obtain ⟨st2, hx2, hinv2, hl2, hb2, hs2⟩ := ih st1 hs1 hinv1 (by omega)
    refine ⟨st2, ?_, hinv2, by rw [Nat.succ_mul]; omega, by omega, hs2⟩
    simp only [loopN]
    have : ¬ ((!hasLen st.rest p.window) = true) := by rw [not_hasLen, hwin]; omega
    rw [if_neg this, hbody, hx1]; exact hx2

theorem dec_final (p : Prog) (E : Bytes → Bytes) (N : Nat) (iv target : Bytes) (hp : DecRegs p N)
    (st : St) (hinv : DecInv E N target st 0 st.sw) (hlen : st.rest.length ≤ N) :
    ∃ st', exec p E N iv st (.xorRest (.var false)) = some st' ∧ st'.data = target ∧ st'.buf = st.buf := by
  obtain ⟨A, B, hrest, hA, hbuf, htgt⟩ := hinv
  have hA0 : A = [] := List.eq_nil_of_length_eq_zero hA
  subst hA0
  simp only [List.nil_append] at hrest htgt
  refine ⟨_, rfl, ?_, rfl⟩
  have hres : resolve st.sw (.var false) = st.sw := by simp [resolve]
  show st.done.reverse ++ (xorBytes st.rest (rd st.buf (regOff p (resolve st.sw (.var false))) (regLen p (resolve st.sw (.var false)))) ++
    st.rest.drop (xorBytes st.rest (rd st.buf (regOff p (resolve st.sw (.var false))) (regLen p (resolve st.sw (.var false))))).length) = target
  rw [hres, regOff_dec p N hp, regLen_dec p N hp]
  have hks : (rd st.buf (roff N st.sw) N).length = N := by
    simp; cases st.sw <;> simp [roff] <;> omega
  rw [List.drop_of_length_le (by simp [hks]; omega), List.append_nil, ← htgt,
    cfbDecK_short E N _ B hks (by rw [← hrest]; exact hlen), hrest]

theorem dec_tail (p : Prog) (E : Bytes → Bytes) (N : Nat) (iv target : Bytes) (hp : DecRegs p N) (hN : 0 < N)
    (hE : ∀ x, x.length = N → (E x).length = N) :
    ∀ (t : Nat) (st : St), DecInv E N target st 0 st.sw → t * N ≤ st.rest.length → st.rest.length ≤ t * N + N →
      ∃ st', runFrom p E N iv (decCases N t) st = some st' ∧ st'.data = target ∧
        st'.buf.length = st.buf.length := by
  intro t
  induction t with
  | zero =>
    intro st hinv _ hle
    obtain ⟨st1, hx, hd, hb⟩ := dec_final p E N iv target hp st hinv (by omega)
    refine ⟨st1, ?_, hd, by rw [hb]⟩
    simp [decCases, runFrom, execs_cons, execs_nil, hx]
  | succ t ih =>
    intro st hinv hlen hle
    rw [Nat.succ_mul] at hlen hle
    obtain ⟨st1, hx1, hinv1, hl1, _, hb1, hs1⟩ :=
      dec_block p E N iv target hp hN hE st.sw (.var true) (.var false) none (Or.inr rfl) st 0
        (by cases st.sw <;> simp [resolve]) (by cases st.sw <;> simp [resolve]) hinv (by omega)
    rw [Nat.zero_add] at hinv1
    -- the exchange of the slice variables
    let st2 : St := { st1 with sw := !st1.sw }
    have hinv2 : DecInv E N target st2 N st2.sw := by
      show DecInv E N target st2 N (!st1.sw); rw [hs1]; exact hinv1
    obtain ⟨st3, hx3, hinv3, hl3, hb3, hs3⟩ := dec_adv p E N iv target st2 N st2.sw hinv2
    rw [← hs3] at hinv3
    obtain ⟨st4, hx4, hd4, hb4⟩ := ih st3 hinv3 (by have : st2.rest.length = st1.rest.length := rfl; omega)
      (by have : st2.rest.length = st1.rest.length := rfl; omega)
    refine ⟨st4, ?_, hd4, by have : st2.buf.length = st1.buf.length := rfl; omega⟩
    show runFrom p E N iv (⟨t + 1, decTailStep N, true⟩ :: decCases N t) st = _
    simp only [runFrom]
    show (execs p E N iv ([Stmt.enc (.var true) 0 none, Stmt.xor 0 0 N (.var false)] ++ [Stmt.swap, Stmt.adv N]) st).bind _ = _
    rw [execs_append, hx1]
    simp only [Option.bind_some, execs_cons, exec]
    show (Option.bind (exec p E N iv st2 (.adv N)) _).bind _ = _
    rw [hx3]
    simp only [Option.bind_some, execs_nil, if_true]
    exact hx4

theorem switch_decCases (p : Prog) (E : Bytes → Bytes) (bs : Nat) (iv : Bytes) (N : Nat) :
    ∀ (T t : Nat) (st : St), t ≤ T →
      switch p E bs iv (decCases N T) t st = runFrom p E bs iv (decCases N t) st := by
  intro T
  induction T with
  | zero => intro t st ht; have : t = 0 := by omega
            subst this; simp [decCases, switch]
  | succ T ih =>
    intro t st ht
    by_cases h : t = T + 1
    · subst h; simp [decCases, switch]
    · have hne : ¬ (T + 1 = t) := fun h' => h h'.symm
      show switch p E bs iv (⟨T + 1, decTailStep N, true⟩ :: decCases N T) t st = _
      simp only [switch, hne, if_false]
      exact ih t st (by omega)




theorem run_canonDec (N S : Nat) (ph : Bool) (hN : 0 < N) (hS : 0 < S) (hS2 : S % 2 = 0) (E : Bytes → Bytes)
    (hE : ∀ x, x.length = N → (E x).length = N) (iv buf data : Bytes) (hiv : N ≤ iv.length) (hbuf : 2 * N ≤ buf.length) :
    ∃ buf', run (canonDec N S ph) E N iv buf data = some (cfbDec E N (iv.take N) data, buf') ∧
      buf'.length = buf.length := by
  let p := canonDec N S ph
  have hp : DecRegs p N := ⟨rfl, rfl, rfl⟩
  let target := cfbDec E N (iv.take N) data
  let st0 : St := { done := [], rest := data, buf := buf, sw := false }
  have hEiv : (E (iv.take N)).length = N := hE _ (by simp; omega)
  have hpre : execs p E N iv p.pre st0 = some { st0 with buf := wr buf 0 (E (iv.take N)) } := by
    show execs p E N iv [.encIV (.var false)] st0 = _
    simp only [execs_cons, exec]
    rw [blockEncrypt_eq p E N st0 (.var false) iv hiv (by rw [regLen_dec p N hp]; omega)]
    simp [resolve, regOff, st0, execs_nil]
  let st1 : St := { st0 with buf := wr buf 0 (E (iv.take N)) }
  have hb1 : st1.buf.length = buf.length := length_wr _ _ _ (by omega)
  have hinv1 : DecInv E N target st1 0 false := by
    refine ⟨[], data, rfl, rfl, by rw [hb1]; exact hbuf, ?_⟩
    show ([] : Bytes).reverse ++ ([] ++ cfbDecK E N (rd (wr buf 0 (E (iv.take N))) (roff N false) N) data) = target
    have := rd_wr_same buf 0 (E (iv.take N)) (by omega)
    rw [hEiv] at this
    show ([] : Bytes).reverse ++ ([] ++ cfbDecK E N (rd (wr buf 0 (E (iv.take N))) 0 N) data) = target
    rw [this]; simp [target, cfbDec_eq_K]
  obtain ⟨hq, ht, hm⟩ := split_len data.length N S hN
  have hrest1 : st1.rest.length = data.length := rfl
  obtain ⟨st2, hx2, hinv2, hl2, hb2, hs2⟩ :=
    dec_loop p E N S iv target hp hN hE ph hS2 rfl rfl (data.length / N / S) st1 rfl hinv1 (by rw [hrest1]; exact hq)
  rw [← hs2] at hinv2
  obtain ⟨st3, hx3, hd3, hb3⟩ :=
    dec_tail p E N iv target hp hN hE (data.length / N % S) st2 hinv2 (by omega) (by omega)
  refine ⟨st3.buf, ?_, by omega⟩
  unfold run
  have hc : ¬ (buf.length < (canonDec N S ph).tblLen ∨ buf.length < (canonDec N S ph).nextHi) := by
    show ¬ (buf.length < N ∨ buf.length < 2 * N); omega
  rw [if_neg hc]
  show (execs p E N iv p.pre st0).bind _ = _
  rw [hpre]
  simp only [Option.bind_some]
  show (loopN p E N iv (data.length / N / S) st1).bind _ = _
  rw [hx2]
  simp only [Option.bind_some]
  show (switch p E N iv (decCases N (S - 1)) (data.length / N % S) st2).bind _ = _
  rw [switch_decCases p E N iv N (S - 1) _ st2 (by have := Nat.mod_lt (data.length / N) hS; omega), hx3]
  simp [hd3, target]

/-! ### the error branches -/

theorem run_short_iv (p : Prog) (E : Bytes → Bytes) (bs : Nat) (iv buf data : Bytes) (r : Ref) (rest : List Stmt)
    (hpre : p.pre = .encIV r :: rest) (hiv : iv.length < bs) : run p E bs iv buf data = none := by
  unfold run
  split
  · rfl
  · rw [hpre]
    simp only [execs_cons, exec, blockEncrypt]
    have : (!hasLen iv bs) = true := by rw [not_hasLen]; exact hiv
    simp [this]

theorem run_short_buf (p : Prog) (E : Bytes → Bytes) (bs : Nat) (iv buf data : Bytes)
    (h : buf.length < p.tblLen ∨ buf.length < p.nextHi) : run p E bs iv buf data = none := by
  unfold run; rw [if_pos h]

/-! ### the dispatch under `Valid` -/

theorem dispatch_mem (l : List (Nat × Option Prog)) (bs : Nat) (p : Prog) (h : dispatch l bs = some p) :
    (bs, some p) ∈ l := by
  induction l with
  | nil => simp [dispatch] at h
  | cons e es ih =>
    obtain ⟨s, q⟩ := e
    simp only [dispatch] at h
    by_cases hs : s = bs
    · rw [if_pos hs] at h; subst hs; subst h; exact List.mem_cons_self
    · rw [if_neg hs] at h; exact List.mem_cons_of_mem _ (ih h)

theorem dispatch_none (l : List (Nat × Option Prog)) (bs : Nat) (h : bs ∉ l.map (·.1)) : dispatch l bs = none := by
  induction l with
  | nil => rfl
  | cons e es ih =>
    obtain ⟨s, q⟩ := e
    simp only [List.map_cons, List.mem_cons, not_or] at h
    simp only [dispatch]
    rw [if_neg (fun hs => h.1 hs.symm)]
    exact ih h.2

theorem dispatch_some (l : List (Nat × Option Prog)) (valid : Nat × Option Prog → Bool)
    (hall : l.all valid = true) (hnone : ∀ s, valid (s, none) = false) (bs : Nat) (h : bs ∈ l.map (·.1)) :
    ∃ p, dispatch l bs = some p ∧ valid (bs, some p) = true := by
  induction l with
  | nil => simp at h
  | cons e es ih =>
    obtain ⟨s, q⟩ := e
    simp only [List.all_cons, Bool.and_eq_true] at hall
    simp only [dispatch]
    by_cases hs : s = bs
    · rw [if_pos hs]; subst hs
      cases q with
      | none => rw [hnone] at hall; exact absurd hall.1 (by simp)
      | some p => exact ⟨p, rfl, hall.1⟩
    · rw [if_neg hs]
      simp only [List.map_cons, List.mem_cons] at h
      rcases h with h | h
      · exact absurd h.symm hs
      · exact ih hall.2 h


/-! ### what `Valid` gives, sessions, streams -/



theorem valid_enc (P : Params) (hv : ValidCore P) (bs : Nat) (hbs : Supported P bs) :
    ∃ S ph, dispatch P.enc bs = some (canonEnc bs S ph) ∧ 0 < bs ∧ 0 < S := by
  obtain ⟨p, hd, hval⟩ := dispatch_some P.enc validEncEntry hv.1 (fun _ => rfl) bs hbs
  simp only [validEncEntry, decide_eq_true_eq] at hval
  obtain ⟨h0, hS, hp⟩ := hval
  rcases hp with hp | hp
  · exact ⟨p.stride, false, by rw [hd, ← hp], h0, hS⟩
  · exact ⟨p.stride, true, by rw [hd, ← hp], h0, hS⟩

theorem valid_dec (P : Params) (hv : ValidCore P) (bs : Nat) (hbs : Supported P bs) :
    ∃ S ph, dispatch P.dec bs = some (canonDec bs S ph) ∧ 0 < bs ∧ 0 < S ∧ S % 2 = 0 := by
  have hbs' : bs ∈ P.dec.map (·.1) := by rw [← hv.2.2.1]; exact hbs
  obtain ⟨p, hd, hval⟩ := dispatch_some P.dec validDecEntry hv.2.1 (fun _ => rfl) bs hbs'
  simp only [validDecEntry, decide_eq_true_eq] at hval
  obtain ⟨h0, hS, hS2, hp⟩ := hval
  rcases hp with hp | hp
  · exact ⟨p.stride, false, by rw [hd, ← hp], h0, hS, hS2⟩
  · exact ⟨p.stride, true, by rw [hd, ← hp], h0, hS, hS2⟩

theorem session_map (f : Bytes → Bytes → Option (Bytes × Bytes)) (g : Bytes → Bytes) (L : Nat)
    (h : ∀ buf m, L ≤ buf.length → ∃ buf', f buf m = some (g m, buf') ∧ buf'.length = buf.length) :
    ∀ (ms : List Bytes) (buf : Bytes), L ≤ buf.length → session f buf ms = some (ms.map g) := by
  intro ms
  induction ms with
  | nil => intro _ _; rfl
  | cons m ms ih =>
    intro buf hb
    obtain ⟨buf', h1, h2⟩ := h buf m hb
    simp only [session, h1, ih buf' (by omega)]
    rfl

theorem select_inverse (enc dec : Bytes → Bytes) (hinv : ∀ m, dec (enc m) = m) (msgs : List Bytes) (sel : List Nat) :
    (sel.filterMap ((msgs.map enc)[·]?)).map dec = sel.filterMap (msgs[·]?) := by
  rw [List.map_filterMap]
  congr 1
  funext i
  simp only [List.getElem?_map, Option.map_map]
  cases msgs[i]? with
  | none => rfl
  | some m => simp [hinv]

theorem length_streamXor (ks : Nat → UInt8) (m : Bytes) : (streamXor ks m).length = m.length := by
  simp [streamXor]

theorem streamXor_streamXor (ks : Nat → UInt8) (m : Bytes) : streamXor ks (streamXor ks m) = m := by
  apply List.ext_getElem
  · simp [streamXor]
  · intro i h1 h2
    simp [streamXor, UInt8.xor_assoc]

/-! ### the state representation is one flat buffer addressed through `base` -/

theorem rd_data (st : St) (off n : Nat) : rd st.data (st.base + off) n = rd st.rest off n := by
  simp only [rd, St.data, St.base]
  rw [List.drop_append, List.drop_of_length_le (by simp)]
  simp

theorem wr_data (st : St) (off : Nat) (v : Bytes) :
    wr st.data (st.base + off) v = ({ st with rest := wr st.rest off v } : St).data := by
  simp only [wr, St.data, St.base]
  rw [List.take_append, List.drop_append, List.take_of_length_le (by simp), List.drop_of_length_le (by simp; omega)]
  simp; congr 2; omega

theorem adv_data (p : Prog) (E : Bytes → Bytes) (bs : Nat) (iv : Bytes) (st st' : St) (k : Nat)
    (h : exec p E bs iv st (.adv k) = some st') : st'.data = st.data ∧ st'.base = st.base + k := by
  simp only [exec] at h
  split at h
  · exact absurd h (by simp)
  · rename_i hk
    rw [not_hasLen] at hk
    injection h with h; subst h
    simp [St.data, St.base]; omega


end Fatchoy.C16
