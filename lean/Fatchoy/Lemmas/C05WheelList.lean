/-
C05 helper lemmas, part 3: the list level of the wheel.  `cascade` / `shiftWheels` permute the node
list and act node-wise (`shiftNode`); under the placement invariant the near bucket that comes up
holds exactly the nodes that are due, so `expireNear` is "deliver every node whose deadline is now".
-/
import Fatchoy.Lemmas.C05Shift
namespace Fatchoy.C05

theorem filter_map_perm {α : Type} (p : α → Bool) (f : α → α) : ∀ l : List α,
    (l.filter (fun x => !p x) ++ (l.filter p).map f).Perm (l.map (fun x => if p x then f x else x))
  | [] => by simp
  | x :: l => by
    have ih := filter_map_perm p f l
    by_cases hx : p x = true
    · simp only [List.filter_cons, hx, Bool.not_true, Bool.false_eq_true, if_false, if_true, List.map_cons]
      exact List.perm_middle.trans (ih.cons _)
    · simp only [Bool.not_eq_true] at hx
      simp only [List.filter_cons, hx, Bool.not_false, if_true, Bool.false_eq_true, if_false, List.map_cons,
        List.cons_append]
      exact ih.cons _

namespace Wheel

@[simp] theorem cascade_off (G : Geom) (w : Wheel) (k s : Nat) : (w.cascade G k s).off = w.off := rfl
@[simp] theorem cascade_time (G : Geom) (w : Wheel) (k s : Nat) : (w.cascade G k s).time = w.time := rfl

theorem cascade_perm (G : Geom) (w : Wheel) (k s : Nat) :
    (w.cascade G k s).nodes.Perm (w.nodes.map (casN G w.off w.time k s)) := by
  have h := filter_map_perm (inBucket k s) (linkAt G w.off w.time) w.nodes
  unfold cascade
  simp only
  have e1 : (fun n => w.link G n) = linkAt G w.off w.time := by funext n; rfl
  have e2 : (fun x => if inBucket k s x = true then linkAt G w.off w.time x else x) = casN G w.off w.time k s := by
    funext n; rfl
  rw [e2] at h
  exact h

theorem shiftLoop_spec (G : Geom) : ∀ fuel i ticks (w : Wheel),
    (shiftLoop G fuel i ticks w).off = w.off ∧ (shiftLoop G fuel i ticks w).time = w.time ∧
    (shiftLoop G fuel i ticks w).nodes.Perm (w.nodes.map (shiftNodeLoop G w.off w.time fuel i ticks)) := by
  intro fuel
  induction fuel with
  | zero =>
    intro i ticks w
    refine ⟨rfl, rfl, ?_⟩
    have : shiftNodeLoop G w.off w.time 0 i ticks = id := by funext n; rfl
    simp [shiftLoop, this]
  | succ f ih =>
    intro i ticks w
    have hc := cascade_perm G w (i + 1) (ticks % G.lvlSize)
    by_cases hz : ticks % G.lvlSize ≠ 0
    · have e : shiftNodeLoop G w.off w.time (f + 1) i ticks = casN G w.off w.time (i + 1) (ticks % G.lvlSize) := by
        funext n; simp only [shiftNodeLoop]; rw [if_pos hz]
      have e0 : shiftLoop G (f + 1) i ticks w = w.cascade G (i + 1) (ticks % G.lvlSize) := by
        simp only [shiftLoop]; rw [if_pos hz]
      rw [e0, e]
      exact ⟨rfl, rfl, hc⟩
    · obtain ⟨h1, h2, h3⟩ := ih (i + 1) (ticks / G.lvlSize) (w.cascade G (i + 1) (ticks % G.lvlSize))
      have e : shiftNodeLoop G w.off w.time (f + 1) i ticks =
          (shiftNodeLoop G w.off w.time f (i + 1) (ticks / G.lvlSize)) ∘ (casN G w.off w.time (i + 1) (ticks % G.lvlSize)) := by
        funext n; simp only [shiftNodeLoop]; rw [if_neg hz]; rfl
      have e0 : shiftLoop G (f + 1) i ticks w =
          shiftLoop G f (i + 1) (ticks / G.lvlSize) (w.cascade G (i + 1) (ticks % G.lvlSize)) := by
        simp only [shiftLoop]; rw [if_neg hz]
      rw [e0, e]
      refine ⟨h1, h2, ?_⟩
      rw [← List.map_map]
      exact h3.trans (hc.map _)

theorem shift_spec (G : Geom) (w : Wheel) :
    (w.shift G).off = w.off ∧ (w.shift G).time = w.time ∧
    (w.shift G).nodes.Perm (w.nodes.map (shiftNode G w.off w.time)) := by
  unfold shift shiftNode cur
  simp only
  split
  · refine ⟨rfl, rfl, ?_⟩
    have : (fun n : WNode => n) = id := rfl
    simp
  · exact shiftLoop_spec G _ _ _ w

end Wheel
end Fatchoy.C05
