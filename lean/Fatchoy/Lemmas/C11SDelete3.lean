/-
C11, structural skip list S, `deleteNode` part 3 and `Delete`: the invariant after unlinking, and
`Delete` refines `L.delete`.
-/
import Fatchoy.Lemmas.C11SDelete2
namespace Fatchoy.C11.S

section
variable {s : SList} {l A : List Nat} {x : Nat} {B : List Nat} {upd : List Nat} {t : SList}

theorem DelCtx.fwd0_x (c : DelCtx s l A x B upd) (hf : DelFacts s x upd t) :
    (cell t x 0).fwd = B.head? := by
  have hne : ¬ (0 < s.level ∧ x = upd.getD 0 0) := by
    intro hh
    obtain ⟨r, hu⟩ := c.upd 0 hh.1
    have hl' : l = A ++ (x :: B) := c.hl
    exact c.x_notin_A (hh.2 ▸ (isUpd_valid c.inv hl' hu).2.2)
  rw [hf.cell, if_neg hne]
  exact c.inv.fwd0 (pre := 0 :: A) (x := x) (suf := B) (by rw [c.hl]; rfl)

theorem delete_bwd (c : DelCtx s l A x B upd) (hf : DelFacts s x upd t) :
    ∀ pre y suf, A ++ B = pre ++ y :: suf → (nd t y).bwd = pre.getLast? := by
  intro pre y suf hs
  rw [hf.bwd, c.fwd0_x hf]
  have hbx : (nd s x).bwd = A.getLast? := c.inv.bwd A x B c.hl
  rcases List.append_eq_append_iff.mp hs with ⟨a', ha1, ha2⟩ | ⟨c', hc1, hc2⟩
  · -- pre = A ++ a', B = a' ++ y :: suf
    have hyB : y ∈ B := by rw [ha2]; simp
    have hyv : y < s.nodes.length := c.inv.valid y (c.mem_B hyB)
    cases a' with
    | nil =>
      simp only [List.nil_append] at ha2
      simp only [List.append_nil] at ha1
      rw [ha2, ha1]
      simp [hyv, hbx]
    | cons q a'' =>
      have hnot : ¬ (B.head? = some y ∧ y < s.nodes.length) := by
        intro hh
        rw [ha2] at hh
        simp only [List.cons_append, List.head?_cons, Option.some.injEq] at hh
        have hn := c.nodup'
        rw [List.nodup_append] at hn
        have hnB := (List.nodup_cons.mp hn.2.1).2
        rw [ha2, ← hh.1] at hnB
        simp at hnB
      rw [if_neg hnot, ha1]
      have := c.inv.bwd (A ++ x :: q :: a'') y suf (by rw [c.hl, ha2]; simp)
      rw [this]
      simp [List.getLast?_append]
  · cases c' with
    | nil =>
      simp only [List.nil_append] at hc2
      simp only [List.append_nil] at hc1
      have hyv : y < s.nodes.length := c.inv.valid y (c.mem_B (by rw [← hc2]; simp))
      rw [← hc2, ← hc1]
      simp [hyv, hbx]
    | cons q l1 =>
      simp only [List.cons_append, List.cons.injEq] at hc2
      obtain ⟨hq, _⟩ := hc2
      subst hq
      have hyA : y ∈ A := by rw [hc1]; simp
      have hnot : ¬ (B.head? = some y ∧ y < s.nodes.length) := by
        intro hh
        have hyB : y ∈ B := List.mem_of_head? hh.1
        have hn := c.nodup'
        rw [List.nodup_append] at hn
        exact hn.2.2 y (List.mem_cons_of_mem _ hyA) y (List.mem_cons_of_mem _ hyB) rfl
      rw [if_neg hnot]
      exact c.inv.bwd pre y (l1 ++ x :: B) (by rw [c.hl, hc1]; simp)

theorem delete_tail (c : DelCtx s l A x B upd) (hf : DelFacts s x upd t) :
    t.tail = (A ++ B).getLast? := by
  rw [hf.tail, c.fwd0_x hf]
  cases B with
  | nil =>
    simp only [List.head?_nil, if_true, List.append_nil]
    exact c.inv.bwd A x [] c.hl
  | cons b r =>
    simp only [List.head?_cons, reduceCtorEq, if_false]
    rw [c.inv.tail, c.hl]
    simp [List.getLast?_append]

/-- the invariant after `deleteNode` -/
theorem deleteNode_inv (c : DelCtx s l A x B upd) (hf : DelFacts s x upd t) : Inv t (A ++ B) := by
  have hsub : (A ++ B).Sublist l := by
    rw [c.hl]; exact List.Sublist.append (List.Sublist.refl _) (List.sublist_cons_self _ _)
  have hmem : ∀ y ∈ A ++ B, y ∈ l := fun y hy => hsub.subset hy
  have hcells := delete_cells c hf
  -- no node is higher than the new level
  have hhgt : ∀ y ∈ A ++ B, height s y ≤ t.level := by
    intro y hy
    by_cases hlt : t.level < height s y
    · exfalso
      have hys := (c.inv.hgt y (hmem y hy)).2
      have hfw := hf.above t.level (Nat.le_refl _) (by omega)
      have h0 : t.level < height t 0 := by
        rw [hf.hgt]; have := c.inv.level_le; have := hf.level_le; omega
      rw [(hcells [] 0 (A ++ B) rfl t.level h0).1, nxt_eq_none_iff] at hfw
      have := hfw y hy
      rw [c.up_t hf] at this
      simp [up] at this
      omega
    · omega
  refine ⟨?_, ?_, ?_, hf.level_pos, ?_, ?_, ?_, delete_bwd c hf, delete_tail c hf, ?_, ?_, hf.top⟩
  · exact c.inv.nodup.sublist (List.Sublist.cons_cons 0 hsub)
  · intro y hy; rw [hf.size]; exact c.inv.valid y (hmem y hy)
  · rw [hf.size]
    have := c.inv.room
    have := hsub.length_le
    omega
  · rw [hf.hgt]; have := c.inv.level_le; have := hf.level_le; omega
  · intro y hy
    rw [hf.hgt]
    exact ⟨(c.inv.hgt y (hmem y hy)).1, hhgt y hy⟩
  · intro pre y suf hs i hi
    obtain ⟨h1, h2⟩ := hcells pre y suf hs i hi
    exact ⟨h1, fun hlt => h2 (by have := hf.level_le; omega)⟩
  · rw [hf.len, c.inv.len, c.hl]
    simp only [List.length_append, List.length_cons]; omega
  · have : (A ++ B).map (nodeOf t) = (A ++ B).map (nodeOf s) :=
      List.map_congr_left (fun a _ => hf.key a)
    rw [this]
    exact c.inv.sorted.sublist (hsub.map _)

/-- after the unlinking, the same `update[]` still describes `header :: A` -/
theorem DelCtx.upd_after (c : DelCtx s l A x B upd) (hf : DelFacts s x upd t) :
    ∀ i, i < t.level → ∃ r, IsUpd t A i (upd.getD i 0) r := by
  intro i hi
  obtain ⟨r, p, suf, hs, hy, hnone, hr⟩ := c.upd i (by have := hf.level_le; omega)
  exact ⟨r, p, suf, hs, by rw [hf.hgt]; exact hy, fun a ha => by rw [c.up_t hf]; exact hnone a ha, hr⟩

end

theorem getD_map_fst (ur : List (Nat × Int)) (i : Nat) : (ur.map (·.1)).getD i 0 = updOf ur i := by
  unfold updOf
  simp only [List.getD_eq_getElem?_getD, List.getElem?_map]
  cases ur[i]? <;> rfl

/-- `Delete(score, ele)`: it terminates, the invariant holds again, the content is `L.delete` of the
  content, the node returned (if any) is the one `L.delete` names, and it keeps its key in the table -/
theorem delete_refines {s : SList} {l : List Nat} (hI : Inv s l) (score : Int) (ele : Nat) :
    ∃ t r, delete s score ele = some (t, r) ∧ SOk t ∧ abs t = (L.delete (abs s) score ele).1 ∧
      r.map (nodeOf s) = (L.delete (abs s) score ele).2 ∧ (∀ y, nodeOf t y = nodeOf s y) ∧
      height t 0 = height s 0 := by
  let tgt : Node := ⟨score, ele⟩
  let A := l.takeWhile (fun x => (nodeOf s x).lt tgt)
  let B := l.dropWhile (fun x => (nodeOf s x).lt tgt)
  have hl : l = A ++ B := (List.takeWhile_append_dropWhile).symm
  have hc : Cut s (fun f _ => f.key.lt tgt) A B := cut_key hI (fun n => n.lt tgt) (lt_down tgt)
  obtain ⟨ur, hsearch, hlen, hupd⟩ := search_top hI hl hc
  obtain ⟨e1, e2⟩ := abs_takeWhile hI (fun n => n.lt tgt)
  -- update[0] is the last node of header :: A; its level-0 successor is the first node of B
  obtain ⟨p0, suf0, hs0, hy0, hn0, _⟩ := hupd 0 hI.level_pos
  have hsuf0 : suf0 = [] := suf_nil_of_level0 hI hl hs0 hn0
  subst hsuf0
  have hfw : (cell s (updOf ur 0) 0).fwd = B.head? :=
    hI.fwd0 (pre := p0) (x := updOf ur 0) (suf := B) (by rw [hl, ← List.cons_append, hs0]; simp)
  unfold delete
  rw [hsearch]
  simp only []
  rw [hfw]
  unfold L.delete
  rw [e2]
  cases hB : B with
  | nil =>
    refine ⟨s, none, rfl, SOk_of_inv hI, ?_, ?_, fun _ => rfl, rfl⟩
    · show abs s = _; simp [B] at hB; rw [hB]; rfl
    · simp [B] at hB; rw [hB]; rfl
  | cons x B' =>
    have hB' : l.dropWhile (fun x => (nodeOf s x).lt tgt) = x :: B' := hB
    rw [hB']
    simp only [List.head?_cons, List.map_cons]
    have hkey : nodeOf s x = (nd s x).key := rfl
    by_cases hm : (score == (nd s x).score && (nd s x).ele == ele) = true
    · -- found: unlink x
      have hm' : (score == (nodeOf s x).score && (nodeOf s x).ele == ele) = true := hm
      rw [if_pos hm, if_pos hm']
      have ctx : DelCtx s l A x B' (ur.map (·.1)) := by
        refine ⟨hI, by rw [hl, hB], ?_⟩
        intro i hi
        rw [getD_map_fst]
        exact ⟨_, hupd i hi⟩
      have hf := deleteNode_facts ctx
      have hinv := deleteNode_inv ctx hf
      refine ⟨_, _, rfl, SOk_of_inv hinv, ?_, rfl, hf.key, hf.hgt 0⟩
      rw [hinv.abs_eq, e1, List.map_append]
      show _ = A.map (nodeOf s) ++ B'.map (nodeOf s)
      congr 1 <;> exact List.map_congr_left (fun a _ => hf.key a)
    · have hm' : ¬ (score == (nodeOf s x).score && (nodeOf s x).ele == ele) = true := hm
      rw [if_neg hm, if_neg hm']
      exact ⟨s, none, rfl, SOk_of_inv hI, rfl, rfl, fun _ => rfl, rfl⟩

end Fatchoy.C11.S
