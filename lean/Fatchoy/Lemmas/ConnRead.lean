/-
Layer 4 of the invariants of the connection LTS: the reader pump and the inbound queue.
`Inv4`: what the reader decoded is exactly the frames at the head of what the peer sent, in order; every
decoded frame is delivered to the inbound queue, or is the one frame being handed over, or is the one frame
abandoned because the connection was closing; the inbound queue is FIFO; the receive counters count the
decoded frames.
-/
import Fatchoy.Lemmas.Conn
namespace Fatchoy.Conn

structure Inv4 (s : State) : Prop where
  wireIn : s.peerAll = s.decoded.map In.frame ++ s.peerIn
  dec : s.decoded = s.delivered ++ pending s.r ++ s.dropped
  dropLate : s.dropped ≠ [] → (s.r = .wgDone ∨ s.r = .exited)
  dropOne : s.dropped.length ≤ 1
  inbq : s.delivered = s.consumed ++ s.inb
  recvP : s.recvPkts = s.decoded.length
  recvB : s.recvBytes = sizes s.decoded

theorem inv4_init (cfg : Cfg) : Inv4 (init cfg) := by
  constructor <;> simp [init, pending, sizes]

/-- steps that leave the reader's data alone and keep (or only advance within) a pc without a pending frame -/
theorem inv4_frame {s s' : State} (h : Inv4 s) (e1 : s'.peerAll = s.peerAll) (e2 : s'.decoded = s.decoded)
    (e3 : s'.peerIn = s.peerIn) (e4 : s'.delivered = s.delivered) (e5 : s'.dropped = s.dropped)
    (e6 : s'.consumed = s.consumed) (e7 : s'.inb = s.inb) (e8 : s'.recvPkts = s.recvPkts)
    (e9 : s'.recvBytes = s.recvBytes) (e10 : pending s'.r = pending s.r)
    (e11 : (s.r = .wgDone ∨ s.r = .exited) → (s'.r = .wgDone ∨ s'.r = .exited)) : Inv4 s' := by
  obtain ⟨a, b, c, c', d, e, f⟩ := h
  constructor
  · rw [e1, e2, e3]; exact a
  · rw [e2, e4, e5, e10]; exact b
  · rw [e5]; exact fun hd => e11 (c hd)
  · rw [e5]; exact c'
  · rw [e4, e6, e7]; exact d
  · rw [e8, e2]; exact e
  · rw [e9, e2]; exact f

theorem sizes_append' (l : List Pkt) (p : Pkt) : sizes (l ++ [p]) = sizes l + p.size := by
  simp [sizes]

theorem dropped_nil {s : State} (h : Inv4 s) (hr : s.r ≠ .wgDone ∧ s.r ≠ .exited) : s.dropped = [] := by
  cases hdd : s.dropped with
  | nil => rfl
  | cons x xs =>
    rcases h.dropLate (by simp [hdd]) with h' | h'
    · exact absurd h' hr.1
    · exact absurd h' hr.2

theorem inv4_rFrame {s s' : State} (h : Inv4 s) (hs : stepRFrame s = some s') : Inv4 s' := by
  unfold stepRFrame at hs
  split at hs
  · next p rest hr hin =>
    injection hs with hs; subst hs
    have hd : s.dropped = [] := dropped_nil h (by simp [hr])
    obtain ⟨a, b, c, c', d, e, f⟩ := h
    constructor
    · show s.peerAll = List.map In.frame (s.decoded ++ [p]) ++ rest
      rw [a, hin]; simp
    · show s.decoded ++ [p] = s.delivered ++ pending (.deliver p) ++ s.dropped
      rw [b, hr, hd]; simp [pending]
    · show s.dropped ≠ [] → _
      intro h0; exact absurd hd h0
    · exact c'
    · exact d
    · show s.recvPkts + 1 = (s.decoded ++ [p]).length
      rw [e]; simp
    · show s.recvBytes + p.size = sizes (s.decoded ++ [p])
      rw [f, sizes_append']
  · simp at hs

theorem inv4_rPush {cfg : Cfg} {s s' : State} (h : Inv4 s) (hs : stepRPush cfg s = some s') : Inv4 s' := by
  unfold stepRPush at hs
  split at hs
  · next p hr =>
    split at hs
    · injection hs with hs; subst hs
      obtain ⟨a, b, c, c', d, e, f⟩ := h
      constructor
      · exact a
      · show s.decoded = s.delivered ++ [p] ++ pending .checkExit ++ s.dropped
        rw [b, hr]; simp [pending]
      · show s.dropped ≠ [] → _
        intro h0
        rcases c h0 with h' | h' <;> (rw [hr] at h'; simp at h')
      · exact c'
      · show s.delivered ++ [p] = s.consumed ++ (s.inb ++ [p])
        rw [d]; simp
      · exact e
      · exact f
    · simp at hs
  · simp at hs

theorem inv4_rDrop {s s' : State} (h : Inv4 s) (hs : stepRDrop s = some s') : Inv4 s' := by
  unfold stepRDrop at hs
  split at hs
  · next p hr =>
    split at hs
    · injection hs with hs; subst hs
      have hd : s.dropped = [] := dropped_nil h (by simp [hr])
      obtain ⟨a, b, c, c', d, e, f⟩ := h
      constructor
      · exact a
      · show s.decoded = s.delivered ++ pending .wgDone ++ (s.dropped ++ [p])
        rw [b, hr, hd]; simp [pending]
      · intro _; exact Or.inl rfl
      · show (s.dropped ++ [p]).length ≤ 1
        rw [hd]; simp
      · exact d
      · exact e
      · exact f
    · simp at hs
  · simp at hs

/-- reader steps between pcs that carry no frame, starting from a pc where nothing was dropped yet -/
theorem inv4_move {s s' : State} (h : Inv4 s) (e1 : s'.peerAll = s.peerAll) (e2 : s'.decoded = s.decoded)
    (e3 : s'.peerIn = s.peerIn) (e4 : s'.delivered = s.delivered) (e5 : s'.dropped = s.dropped)
    (e6 : s'.consumed = s.consumed) (e7 : s'.inb = s.inb) (e8 : s'.recvPkts = s.recvPkts)
    (e9 : s'.recvBytes = s.recvBytes) (hp : pending s.r = []) (hp' : pending s'.r = [])
    (hr : (s.r ≠ .wgDone ∧ s.r ≠ .exited) ∨ s'.r = .exited ∨ s'.r = .wgDone) : Inv4 s' := by
  have hd : s.dropped ≠ [] → (s'.r = .wgDone ∨ s'.r = .exited) := by
    intro h0
    rcases hr with hr | hr | hr
    · exact absurd (dropped_nil h hr) h0
    · exact Or.inr hr
    · exact Or.inl hr
  obtain ⟨a, b, c, c', d, e, f⟩ := h
  constructor
  · rw [e1, e2, e3]; exact a
  · rw [e2, e4, e5, hp']; rw [hp] at b; exact b
  · rw [e5]; exact hd
  · rw [e5]; exact c'
  · rw [e4, e6, e7]; exact d
  · rw [e8, e2]; exact e
  · rw [e9, e2]; exact f

macro "inv4_mv" h:ident hs:ident : tactic => `(tactic| (
  repeat' (split at $hs:ident)
  all_goals (first
    | (injection $hs:ident with $hs:ident; subst $hs:ident
       exact inv4_move $h rfl rfl rfl rfl rfl rfl rfl rfl rfl (by simp_all [pending]) (by simp [pending]) (by simp_all))
    | (simp at $hs:ident))))

macro "inv4_other" h:ident hs:ident : tactic => `(tactic| (
  repeat' (split at $hs:ident)
  all_goals (first
    | (injection $hs:ident with $hs:ident; subst $hs:ident
       exact inv4_frame $h rfl rfl rfl rfl rfl rfl rfl rfl rfl rfl id)
    | (simp at $hs:ident))))

theorem inv4_elect {s s' : State} {g : Bool} {e : Err} {c c' : CPc} (h : Inv4 s)
    (hs : electStep s g e c = some (s', c')) : Inv4 s' ∧ s'.r = s.r := by
  unfold electStep at hs
  cases c <;> simp only at hs
  all_goals (repeat' (split at hs))
  all_goals (first
    | (simp only [Option.some.injEq, Prod.mk.injEq] at hs; obtain ⟨rfl, _⟩ := hs
       exact ⟨inv4_frame h rfl rfl rfl rfl rfl rfl rfl rfl rfl rfl id, rfl⟩)
    | (simp at hs))

theorem inv4_step {cfg : Cfg} {s s' : State} (a : Action) (h1 : Inv1 s) (h : Inv4 s)
    (hs : step cfg s a = some s') : Inv4 s' := by
  cases a <;> simp only [step] at hs
  case start =>
    unfold stepStart at hs
    split at hs
    · next hi =>
      injection hs with hs; subst hs
      have hr := (h1.init_ hi).2
      exact inv4_move h rfl rfl rfl rfl rfl rfl rfl rfl rfl (by simp [hr, pending]) (by simp [pending]) (by simp [hr])
    · injection hs with hs; subst hs
      exact inv4_frame h rfl rfl rfl rfl rfl rfl rfl rfl rfl rfl id
  case sendCall => unfold stepSendCall at hs; inv4_other h hs
  case closeCall => unfold stepCloseCall at hs; inv4_other h hs
  case peerSend =>
    unfold stepPeerSend at hs
    injection hs with hs; subst hs
    obtain ⟨a, b, c, c', d, e, f⟩ := h
    refine ⟨?_, b, c, c', d, e, f⟩
    show s.peerAll ++ _ = _ ++ (s.peerIn ++ _)
    rw [a]; simp
  case inbCall => inv4_other h hs
  case errCall => inv4_other h hs
  case rTimeout => unfold stepRTimeout at hs; inv4_mv h hs
  case snd => unfold stepSnd at hs; inv4_other h hs
  case cls =>
    unfold stepCls at hs
    split at hs
    · simp at hs
    · split at hs
      · next s1 pc1 he =>
        injection hs with hs; subst hs
        exact inv4_frame (inv4_elect h he).1 rfl rfl rfl rfl rfl rfl rfl rfl rfl rfl id
      · simp at hs
  case win =>
    unfold stepWin at hs
    cases hw : s.win with
    | none => simp [hw] at hs
    | some w =>
      simp only [hw] at hs
      cases hp : w.pc <;> simp only [hp, setWin] at hs
      all_goals inv4_other h hs
  case wRecv => unfold stepWRecv at hs; inv4_other h hs
  case wDone => unfold stepWDone at hs; inv4_other h hs
  case wWrite => unfold stepWWrite writeOne at hs; inv4_other h hs
  case wFlush => unfold stepWFlush at hs; inv4_other h hs
  case wWgDone => unfold stepWWgDone at hs; inv4_other h hs
  case rArm => unfold stepRArm at hs; inv4_mv h hs
  case rChk =>
    unfold stepRChk at hs
    split at hs
    · next hr =>
      injection hs with hs; subst hs
      exact inv4_move h rfl rfl rfl rfl rfl rfl rfl rfl rfl (by simp [hr, pending])
        (by show pending (if _ then _ else _) = []; split <;> simp [pending]) (by simp [hr])
    · simp at hs
  case rFrame => exact inv4_rFrame h hs
  case rErr => unfold stepRErr at hs; inv4_mv h hs
  case rNil => unfold stepRNil at hs; inv4_mv h hs
  case rPush => exact inv4_rPush h hs
  case rDrop => exact inv4_rDrop h hs
  case rCheck =>
    unfold stepRCheck at hs
    split at hs
    · next hr =>
      injection hs with hs; subst hs
      exact inv4_move h rfl rfl rfl rfl rfl rfl rfl rfl rfl (by simp [hr, pending])
        (by show pending (if _ then _ else _) = []; split <;> simp [pending]) (by simp [hr])
    · simp at hs
  case rClose =>
    unfold stepRClose at hs
    split at hs
    · next e c hr =>
      split at hs
      · next s1 c1 he =>
        injection hs with hs; subst hs
        obtain ⟨h', er⟩ := inv4_elect h he
        rw [hr] at er
        exact inv4_move h' rfl rfl rfl rfl rfl rfl rfl rfl rfl (by simp [er, pending])
          (by cases c1 <;> simp [pending]) (by simp [er])
      · simp at hs
    · simp at hs
  case rWgDone => unfold stepRWgDone at hs; inv4_mv h hs
  case inbPop =>
    unfold stepInbPop at hs
    split at hs
    · next p rest _ hin =>
      injection hs with hs; subst hs
      obtain ⟨a, b, c, c', d, e, f⟩ := h
      refine ⟨a, b, c, c', ?_, e, f⟩
      show s.delivered = s.consumed ++ [p] ++ rest
      rw [d, hin]; simp
    · simp at hs
  case errPop => unfold stepErrPop at hs; inv4_other h hs

theorem inv4_reachable {cfg : Cfg} {s : State} (h : Reachable cfg s) : Inv4 s := by
  induction h with
  | init => exact inv4_init cfg
  | step a hr hs ih => exact inv4_step a (inv1_reachable hr) ih hs

end Fatchoy.Conn
