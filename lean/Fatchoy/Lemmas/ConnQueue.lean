/-
Layer 3 of the invariants of the connection LTS: the outbound queue and the writer pump.
`Inv3`: accepted = written ++ in flight ++ queued (order!); the writer leaves its loop only after the
election; once it is past the flush the queue is empty (and, by `Inv2`, stays empty); the sent counters
equal what crossed the wire.
-/
import Fatchoy.Lemmas.ConnLock
namespace Fatchoy.Conn

/-- the writer has left its select loop (it is in the deferred flush or beyond) -/
def WPc.leaving : WPc → Bool
  | .flush => true | .flushing _ => true | .wgDone => true | .exited => true | _ => false
/-- the writer is past the flush -/
def WPc.past : WPc → Bool
  | .wgDone => true | .exited => true | _ => false

structure Inv3 (s : State) : Prop where
  fifo : s.accepted = s.wlog.map (·.1) ++ inflight s.w ++ s.out
  left : s.w.leaving = true → s.win ≠ none
  drained : s.w.past = true → s.out = []
  sentP : s.sentPkts = (wire s).length
  sentB : s.sentBytes = sizes (wire s)

theorem inv3_init (cfg : Cfg) : Inv3 (init cfg) := by
  constructor <;> simp [init, inflight, WPc.leaving, WPc.past, wire, sizes]

theorem inv3_frame {s s' : State} (h : Inv3 s) (e1 : s'.accepted = s.accepted) (e2 : s'.wlog = s.wlog)
    (e3 : s'.w = s.w) (e4 : s'.out = s.out) (e5 : s.win ≠ none → s'.win ≠ none)
    (e6 : s'.sentPkts = s.sentPkts) (e7 : s'.sentBytes = s.sentBytes) : Inv3 s' := by
  obtain ⟨h1, h2, h3, h4, h5⟩ := h
  constructor
  · rw [e1, e2, e3, e4]; exact h1
  · rw [e3]; exact fun hl => e5 (h2 hl)
  · rw [e3, e4]; exact h3
  · rw [e6]; simp only [wire, e2]; exact h4
  · rw [e7]; simp only [wire, e2]; exact h5

theorem win_none_of_running {s : State} (h1 : Inv1 s) (hr : s.st = .running) : s.win = none := by
  cases hw : s.win with
  | none => rfl
  | some w =>
    have := (h1.some_ w hw).2.1
    rw [hr] at this
    cases hp : w.pc <;> simp [hp, phaseOf] at this

theorem inv3_start {s s' : State} (h1 : Inv1 s) (h : Inv3 s) (hs : stepStart s = some s') : Inv3 s' := by
  unfold stepStart at hs
  split at hs
  · next hi =>
    injection hs with hs; subst hs
    have hw := (h1.init_ hi).1
    obtain ⟨a, b, c, d, e⟩ := h
    constructor
    · simpa [hw, inflight] using a
    · simp [WPc.leaving]
    · simp [WPc.past]
    · exact d
    · exact e
  · injection hs with hs; subst hs
    exact inv3_frame h rfl rfl rfl rfl id rfl rfl

theorem inv3_snd {cfg : Cfg} {s s' : State} {i : Nat} (h1 : Inv1 s) (h2 : Inv2 s) (h : Inv3 s)
    (hs : stepSnd cfg s i = some s') : Inv3 s' := by
  unfold stepSnd at hs
  split at hs
  · simp at hs
  · split at hs
    · simp at hs
    · injection hs with hs; subst hs; exact inv3_frame h rfl rfl rfl rfl id rfl rfl
  · split at hs <;> (injection hs with hs; subst hs; exact inv3_frame h rfl rfl rfl rfl id rfl rfl)
  · next p hx =>
    split at hs
    · split at hs
      · -- the one step that enqueues
        injection hs with hs; subst hs
        have hrun := h2.sendRunning _ (List.mem_of_getElem? hx) p rfl
        have hwn := win_none_of_running h1 hrun
        obtain ⟨a, b, c, d, e⟩ := h
        have hnl : s.w.leaving = false := by
          cases hl : s.w.leaving with
          | false => rfl
          | true => exact absurd hwn (b hl)
        constructor
        · show s.accepted ++ [p] = _
          rw [a]; simp [List.append_assoc]
        · exact b
        · intro hp
          exfalso
          cases hww : s.w <;> simp_all [WPc.leaving, WPc.past]
        · exact d
        · exact e
      · injection hs with hs; subst hs; exact inv3_frame h rfl rfl rfl rfl id rfl rfl
    · injection hs with hs; subst hs; exact inv3_frame h rfl rfl rfl rfl id rfl rfl
    · injection hs with hs; subst hs; exact inv3_frame h rfl rfl rfl rfl id rfl rfl
  · injection hs with hs; subst hs; exact inv3_frame h rfl rfl rfl rfl id rfl rfl
  · simp at hs

theorem win_some_of_done {s : State} (h1 : Inv1 s) (hd : s.done = true) : s.win ≠ none := by
  intro hn; have := (h1.none_ hn).2.2.1; rw [hd] at this; simp at this

theorem win_some_of_ochan {s : State} (h1 : Inv1 s) (hd : s.ochan ≠ .open) : s.win ≠ none := by
  intro hn; exact hd (h1.none_ hn).2.2.2.2.2.1

/-- the queue field is nil only after both pumps have exited -/
theorem writer_exited_of_nil {s : State} (h1 : Inv1 s) (hd : s.ochan = .nil) : s.w = .exited := by
  cases hw : s.win with
  | none => have := (h1.none_ hw).2.2.2.2.2.1; rw [hd] at this; simp at this
  | some w =>
    have h3 := h1.some_ w hw
    have ho := h3.2.2.2.2.2.2.2.1
    rw [hd] at ho
    have hg : (phaseOf w.graceful w.pc).gone = true := by
      cases hp : w.pc <;> simp [hp, phaseOf] at ho ⊢
    exact (h3.2.2.2.2.2.1 hg).1

theorem inv3_wRecv {s s' : State} (h1 : Inv1 s) (h : Inv3 s) (hs : stepWRecv s = some s') : Inv3 s' := by
  unfold stepWRecv at hs
  obtain ⟨a, b, c, d, e⟩ := h
  split at hs
  · next hw =>
    cases hoc : s.ochan <;> cases hout : s.out <;> simp only [hoc, hout] at hs
    all_goals (first | (simp at hs; done) | skip)
    all_goals (injection hs with hs; subst hs)
    · -- open, p :: rest
      refine ⟨?_, by simp [WPc.leaving], by simp [WPc.past], d, e⟩
      show s.accepted = _
      rw [a, hw, hout]; simp [inflight]
    · -- closed, []
      refine ⟨?_, fun _ => (win_some_of_ochan h1 (by rw [hoc]; simp) : s.win ≠ none), by simp [WPc.past], d, e⟩
      show s.accepted = _
      rw [a, hw, hout]; simp [inflight]
    · -- closed, p :: rest
      refine ⟨?_, by simp [WPc.leaving], by simp [WPc.past], d, e⟩
      show s.accepted = _
      rw [a, hw, hout]; simp [inflight]
  · simp at hs

theorem inv3_wDone {s s' : State} (h1 : Inv1 s) (h : Inv3 s) (hs : stepWDone s = some s') : Inv3 s' := by
  unfold stepWDone at hs
  obtain ⟨a, b, c, d, e⟩ := h
  split at hs
  · next hw =>
    split at hs
    · next hd =>
      injection hs with hs; subst hs
      constructor
      · show s.accepted = _
        rw [a, hw]; simp [inflight]
      · exact fun _ => (win_some_of_done h1 hd : s.win ≠ none)
      · simp [WPc.past]
      · exact d
      · exact e
    · simp at hs
  · simp at hs

theorem wire_append_ok (l : List (Pkt × Bool)) (p : Pkt) :
    ((l ++ [(p, true)]).filter (·.2)).map (·.1) = (l.filter (·.2)).map (·.1) ++ [p] := by
  simp [List.filter_append]

theorem wire_append_fail (l : List (Pkt × Bool)) (p : Pkt) :
    ((l ++ [(p, false)]).filter (·.2)).map (·.1) = (l.filter (·.2)).map (·.1) := by
  simp [List.filter_append]

theorem sizes_append (l : List Pkt) (p : Pkt) : sizes (l ++ [p]) = sizes l + p.size := by
  simp [sizes]

theorem inv3_writeOne {s s' : State} {p : Pkt} {ok : Bool} {next : WPc} (h : Inv3 s)
    (hin : inflight s.w = [p]) (hnext : inflight next = []) (hl : next.leaving = true → s.w.leaving = true)
    (hp : next.past = false) (hs : writeOne s p ok next = some s') : Inv3 s' := by
  unfold writeOne at hs
  obtain ⟨a, b, c, d, e⟩ := h
  split at hs
  · split at hs
    · injection hs with hs; subst hs
      constructor
      · show s.accepted = _
        rw [a, hin, hnext]; simp
      · intro hl'; exact b (hl hl')
      · intro hp'; rw [hp] at hp'; simp at hp'
      · show s.sentPkts + 1 = _
        simp only [wire, wire_append_ok, List.length_append, List.length_cons, List.length_nil]
        rw [d]; rfl
      · show s.sentBytes + p.size = _
        simp only [wire, wire_append_ok, sizes_append]
        rw [e]; rfl
    · simp at hs
  · split at hs
    · injection hs with hs; subst hs
      constructor
      · show s.accepted = _
        rw [a, hin, hnext]; simp
      · intro hl'; exact b (hl hl')
      · intro hp'; rw [hp] at hp'; simp at hp'
      · show s.sentPkts = _
        simp only [wire, wire_append_fail]; exact d
      · show s.sentBytes = _
        simp only [wire, wire_append_fail]; exact e
    · simp at hs

theorem inv3_wWrite {s s' : State} {ok : Bool} (h : Inv3 s) (hs : stepWWrite s ok = some s') : Inv3 s' := by
  unfold stepWWrite at hs
  split at hs
  · next p hw => exact inv3_writeOne h (by simp [hw, inflight]) rfl (by simp [WPc.leaving]) rfl hs
  · next p hw => exact inv3_writeOne h (by simp [hw, inflight]) rfl (by simp [hw, WPc.leaving]) rfl hs
  · simp at hs

theorem inv3_wFlush {s s' : State} (h1 : Inv1 s) (h : Inv3 s) (hs : stepWFlush s = some s') : Inv3 s' := by
  unfold stepWFlush at hs
  obtain ⟨a, b, c, d, e⟩ := h
  split at hs
  · next hw =>
    have hwin : s.win ≠ none := b (by simp [hw, WPc.leaving])
    have hnn : s.ochan ≠ .nil := by
      intro hn
      have := writer_exited_of_nil h1 hn
      rw [hw] at this; simp at this
    cases hoc : s.ochan <;> cases hout : s.out <;> simp only [hoc, hout] at hs
    all_goals (first | (exact absurd hoc hnn) | skip)
    all_goals (injection hs with hs; subst hs)
    · exact ⟨by show s.accepted = _; rw [a, hw, hout]; simp [inflight], fun _ => hwin, fun _ => rfl, d, e⟩
    · refine ⟨?_, fun _ => hwin, by simp [WPc.past], d, e⟩
      show s.accepted = _
      rw [a, hw, hout]; simp [inflight]
    · exact ⟨by show s.accepted = _; rw [a, hw, hout]; simp [inflight], fun _ => hwin, fun _ => rfl, d, e⟩
    · refine ⟨?_, fun _ => hwin, by simp [WPc.past], d, e⟩
      show s.accepted = _
      rw [a, hw, hout]; simp [inflight]
  · simp at hs

theorem inv3_wWgDone {s s' : State} (h : Inv3 s) (hs : stepWWgDone s = some s') : Inv3 s' := by
  unfold stepWWgDone at hs
  obtain ⟨a, b, c, d, e⟩ := h
  split at hs
  · next hw =>
    have hwin : s.win ≠ none := b (by simp [hw, WPc.leaving])
    have ho : s.out = [] := c (by simp [hw, WPc.past])
    split at hs <;>
      (injection hs with hs; subst hs
       exact ⟨by show s.accepted = _; rw [a, hw]; simp [inflight], fun _ => hwin, fun _ => ho, d, e⟩)
  · simp at hs

theorem inv3_elect {s s' : State} {g : Bool} {e : Err} {c c' : CPc} (h : Inv3 s)
    (hs : electStep s g e c = some (s', c')) : Inv3 s' := by
  unfold electStep at hs
  cases c <;> simp only at hs
  all_goals (repeat' (split at hs))
  all_goals (first
    | (simp only [Option.some.injEq, Prod.mk.injEq] at hs; obtain ⟨rfl, _⟩ := hs
       exact inv3_frame h rfl rfl rfl rfl (by simp_all) rfl rfl)
    | (simp at hs))

theorem inv3_win {cfg : Cfg} {s s' : State} (h : Inv3 s) (hs : stepWin cfg s = some s') : Inv3 s' := by
  unfold stepWin at hs
  cases hw : s.win with
  | none => simp [hw] at hs
  | some w =>
    simp only [hw] at hs
    cases hp : w.pc <;> simp only [hp, setWin] at hs
    all_goals (repeat' (split at hs))
    all_goals (first
      | (injection hs with hs; subst hs; exact inv3_frame h rfl rfl rfl rfl (by simp) rfl rfl)
      | (simp at hs))

macro "inv3_other" h:ident hs:ident : tactic => `(tactic| (
  repeat' (split at $hs:ident)
  all_goals (first
    | (injection $hs:ident with $hs:ident; subst $hs:ident
       exact inv3_frame $h rfl rfl rfl rfl id rfl rfl)
    | (simp at $hs:ident))))

theorem inv3_step {cfg : Cfg} {s s' : State} (a : Action) (h1 : Inv1 s) (h2 : Inv2 s) (h : Inv3 s)
    (hs : step cfg s a = some s') : Inv3 s' := by
  cases a <;> simp only [step] at hs
  case start => exact inv3_start h1 h hs
  case sendCall => unfold stepSendCall at hs; inv3_other h hs
  case closeCall => unfold stepCloseCall at hs; inv3_other h hs
  case peerSend => unfold stepPeerSend at hs; inv3_other h hs
  case inbCall => inv3_other h hs
  case errCall => inv3_other h hs
  case rTimeout => unfold stepRTimeout at hs; inv3_other h hs
  case snd => exact inv3_snd h1 h2 h hs
  case cls =>
    unfold stepCls at hs
    split at hs
    · simp at hs
    · split at hs
      · next s1 pc1 he =>
        injection hs with hs; subst hs
        exact inv3_frame (inv3_elect h he) rfl rfl rfl rfl id rfl rfl
      · simp at hs
  case win => exact inv3_win h hs
  case wRecv => exact inv3_wRecv h1 h hs
  case wDone => exact inv3_wDone h1 h hs
  case wWrite => exact inv3_wWrite h hs
  case wFlush => exact inv3_wFlush h1 h hs
  case wWgDone => exact inv3_wWgDone h hs
  case rArm => unfold stepRArm at hs; inv3_other h hs
  case rChk => unfold stepRChk at hs; inv3_other h hs
  case rFrame => unfold stepRFrame at hs; inv3_other h hs
  case rErr => unfold stepRErr at hs; inv3_other h hs
  case rNil => unfold stepRNil at hs; inv3_other h hs
  case rPush => unfold stepRPush at hs; inv3_other h hs
  case rDrop => unfold stepRDrop at hs; inv3_other h hs
  case rCheck => unfold stepRCheck at hs; inv3_other h hs
  case rClose =>
    unfold stepRClose at hs
    split at hs
    · split at hs
      · next s1 c1 he =>
        injection hs with hs; subst hs
        exact inv3_frame (inv3_elect h he) rfl rfl rfl rfl id rfl rfl
      · simp at hs
    · simp at hs
  case rWgDone => unfold stepRWgDone at hs; inv3_other h hs
  case inbPop => unfold stepInbPop at hs; inv3_other h hs
  case errPop => unfold stepErrPop at hs; inv3_other h hs

theorem inv3_reachable {cfg : Cfg} {s : State} (h : Reachable cfg s) : Inv3 s := by
  induction h with
  | init => exact inv3_init cfg
  | step a hr hs ih => exact inv3_step a (inv1_reachable hr) (inv2_reachable hr) ih hs

end Fatchoy.Conn
