/-
C11, structural skip list S, `deleteNode` part 2: unlinking the node that follows `update[0]` keeps the
invariant, for the chain without that node.
-/
import Fatchoy.Lemmas.C11SDelete1
namespace Fatchoy.C11.S

/-- everything `deleteNode` is called with: the chain is `A ++ x :: B`, `upd[i]` is the last node of
  height > i in `header :: A` -/
structure DelCtx (s : SList) (l A : List Nat) (x : Nat) (B : List Nat) (upd : List Nat) : Prop where
  inv : Inv s l
  hl : l = A ++ x :: B
  upd : ∀ i, i < s.level → ∃ r, IsUpd s A i (upd.getD i 0) r

section
variable {s : SList} {l A : List Nat} {x : Nat} {B : List Nat} {upd : List Nat}

theorem DelCtx.nodup' (c : DelCtx s l A x B upd) : ((0 :: A) ++ x :: B).Nodup := by
  have := c.inv.nodup; rwa [c.hl] at this

theorem DelCtx.nodupA0 (c : DelCtx s l A x B upd) : (0 :: A).Nodup :=
  c.nodup'.sublist (List.sublist_append_left _ _)

theorem DelCtx.x_notin_A (c : DelCtx s l A x B upd) : x ∉ 0 :: A := by
  intro hm
  have := c.nodup'
  rw [List.nodup_append] at this
  exact this.2.2 x hm x List.mem_cons_self rfl

theorem DelCtx.x_notin_B (c : DelCtx s l A x B upd) : x ∉ B := by
  have := c.nodup'
  rw [List.nodup_append] at this
  exact (List.nodup_cons.mp this.2.1).1

theorem DelCtx.mem_A (c : DelCtx s l A x B upd) {a : Nat} (ha : a ∈ A) : a ∈ l := by
  rw [c.hl]; exact List.mem_append_left _ ha
theorem DelCtx.mem_B (c : DelCtx s l A x B upd) {b : Nat} (hb : b ∈ B) : b ∈ l := by
  rw [c.hl]; exact List.mem_append_right _ (List.mem_cons_of_mem _ hb)
theorem DelCtx.mem_x (c : DelCtx s l A x B upd) : x ∈ l := by rw [c.hl]; simp

theorem DelCtx.hU (c : DelCtx s l A x B upd) :
    ∀ j, j < s.level → upd.getD j 0 < s.nodes.length ∧ j < height s (upd.getD j 0) := by
  intro j hj
  obtain ⟨r, hu⟩ := c.upd j hj
  have hl' : l = A ++ (x :: B) := c.hl
  obtain ⟨v1, v2, _⟩ := isUpd_valid c.inv hl' hu
  exact ⟨v1, v2⟩

/-- the cells of `x` -/
theorem DelCtx.cells_x (c : DelCtx s l A x B upd) (i : Nat) (hi : i < height s x) :
    (cell s x i).fwd = nxt s i B ∧ (i < s.level → (cell s x i).span = dst s i B) :=
  c.inv.cells (0 :: A) x B (by rw [c.hl]; rfl) i hi

/-- the cells of `update[i]` before the unlinking -/
theorem DelCtx.cells_upd (c : DelCtx s l A x B upd) (i : Nat) (hi : i < s.level) :
    ∃ p suf, 0 :: A = p ++ upd.getD i 0 :: suf ∧ i < height s (upd.getD i 0) ∧
      (∀ a ∈ suf, up s i a = false) ∧
      (cell s (upd.getD i 0) i).fwd = (if up s i x then some x else nxt s i B) ∧
      (cell s (upd.getD i 0) i).span = suf.length + (if up s i x then 1 else 1 + dst s i B) := by
  obtain ⟨r, p, suf, hs, hy, hnone, _⟩ := c.upd i hi
  refine ⟨p, suf, hs, hy, hnone, ?_⟩
  have hold : 0 :: l = p ++ upd.getD i 0 :: (suf ++ x :: B) := by
    rw [c.hl, ← List.cons_append, hs]; simp
  obtain ⟨ofw, osp⟩ := c.inv.cells p _ _ hold i hy
  obtain ⟨n1, d1⟩ := nxt_append_none hnone (x :: B)
  rw [ofw, osp hi, n1, d1]
  simp only [nxt, dst]
  exact ⟨by first | rfl | trivial, by first | rfl | trivial⟩

end

/-- the state after `deleteNode`, in terms of the state before -/
structure DelFacts (s : SList) (x : Nat) (upd : List Nat) (t : SList) : Prop where
  size : t.nodes.length = s.nodes.length
  hgt : ∀ y, height t y = height s y
  key : ∀ y, nodeOf t y = nodeOf s y
  cell : ∀ y j, cell t y j =
    if j < s.level ∧ y = upd.getD j 0 then
      (if (cell s y j).fwd == some x then ⟨(cell s x j).fwd, (cell s y j).span + ((cell s x j).span - 1)⟩
       else ⟨(cell s y j).fwd, (cell s y j).span - 1⟩)
    else cell s y j
  level_pos : 1 ≤ t.level
  level_le : t.level ≤ s.level
  top : 1 < t.level → (S.cell t 0 (t.level - 1)).fwd ≠ none
  above : ∀ i, t.level ≤ i → i < s.level → (S.cell t 0 i).fwd = none
  len : t.length = s.length - 1
  tail : t.tail = (if (S.cell t x 0).fwd = none then (nd s x).bwd else s.tail)
  bwd : ∀ y, (nd t y).bwd =
    if (S.cell t x 0).fwd = some y ∧ y < s.nodes.length then (nd s x).bwd else (nd s y).bwd

theorem deleteNode_facts {s : SList} {l A : List Nat} {x : Nat} {B : List Nat} {upd : List Nat}
    (c : DelCtx s l A x B upd) : DelFacts s x upd (deleteNode s x upd) := by
  obtain ⟨d1, d2, d3, d4, d5, d6, d7, d8⟩ := deleteNode_spec s x upd c.hU
  obtain ⟨_, uc⟩ := unlinked_spec s x upd c.hU
  obtain ⟨s1, s2, s3, s4⟩ := shrink_spec (unlinked s x upd) s.level c.inv.level_pos
  refine ⟨d1, d2, d3, fun y j => by rw [d4, uc], ?_, ?_, ?_, ?_, d6, ?_, ?_⟩
  · rw [d5]; exact s1
  · rw [d5]; exact s2
  · rw [d5, d4]; exact s3
  · intro i h1 h2; rw [d4]; rw [d5] at h1; exact s4 i h1 h2
  · rw [d7, d4]
  · intro y; rw [d8, d4]

section
variable {s : SList} {l A : List Nat} {x : Nat} {B : List Nat} {upd : List Nat} {t : SList}

theorem DelCtx.up_t (_c : DelCtx s l A x B upd) (hf : DelFacts s x upd t) (i y : Nat) : up t i y = up s i y := by
  unfold up; rw [hf.hgt]

theorem DelCtx.nxt_t (c : DelCtx s l A x B upd) (hf : DelFacts s x upd t) (i : Nat) (L : List Nat) :
    nxt t i L = nxt s i L ∧ dst t i L = dst s i L :=
  nxt_congr (fun a _ => c.up_t hf i a)

/-- the cells after `deleteNode` are what the chain without `x` determines (spans for the levels below
  the old level) -/
theorem delete_cells (c : DelCtx s l A x B upd) (hf : DelFacts s x upd t) :
    ∀ pre y suf, 0 :: (A ++ B) = pre ++ y :: suf → ∀ i, i < height t y →
      (cell t y i).fwd = nxt t i suf ∧ (i < s.level → (cell t y i).span = dst t i suf) := by
  intro pre y suf hs i hi
  rw [hf.hgt] at hi
  have hs' : (0 :: A) ++ B = pre ++ y :: suf := by rw [← hs]; rfl
  obtain ⟨nt, dt⟩ := c.nxt_t hf i suf
  rw [nt, dt, hf.cell]
  rcases List.append_eq_append_iff.mp hs' with ⟨a', ha1, ha2⟩ | ⟨c', hc1, hc2⟩
  · -- pre = (0 :: A) ++ a', B = a' ++ y :: suf : y stands after x
    have hyB : y ∈ B := by rw [ha2]; simp
    have hyA : y ∉ 0 :: A := by
      intro hm
      have := c.nodup'
      rw [List.nodup_append] at this
      exact this.2.2 y hm y (List.mem_cons_of_mem _ hyB) rfl
    have hne : ¬ (i < s.level ∧ y = upd.getD i 0) := by
      intro hh
      obtain ⟨r, hu⟩ := c.upd i hh.1
      have hl' : l = A ++ (x :: B) := c.hl
      exact hyA (hh.2 ▸ (isUpd_valid c.inv hl' hu).2.2)
    rw [if_neg hne]
    have hold : 0 :: l = ((0 :: A) ++ x :: a') ++ y :: suf := by rw [c.hl, ha2]; simp
    exact c.inv.cells _ y suf hold i hi
  · -- 0 :: A = pre ++ c', y :: suf = c' ++ B
    cases c' with
    | nil =>
      -- y is the first node of B
      simp only [List.nil_append] at hc2
      have hyB : y ∈ B := by rw [← hc2]; simp
      have hyA : y ∉ 0 :: A := by
        intro hm
        have := c.nodup'
        rw [List.nodup_append] at this
        exact this.2.2 y hm y (List.mem_cons_of_mem _ hyB) rfl
      have hne : ¬ (i < s.level ∧ y = upd.getD i 0) := by
        intro hh
        obtain ⟨r, hu⟩ := c.upd i hh.1
        have hl' : l = A ++ (x :: B) := c.hl
        exact hyA (hh.2 ▸ (isUpd_valid c.inv hl' hu).2.2)
      rw [if_neg hne]
      have hold : 0 :: l = ((0 :: A) ++ [x]) ++ y :: suf := by rw [c.hl, ← hc2]; simp
      exact c.inv.cells _ y suf hold i hi
    | cons q l1 =>
      simp only [List.cons_append, List.cons.injEq] at hc2
      obtain ⟨hq, hsuf⟩ := hc2
      subst hq
      -- 0 :: A = pre ++ y :: l1, suf = l1 ++ B
      have hl1A : ∀ z ∈ l1, z ∈ A := fun z hz => mem_suf_of_split c.nodupA0 hc1 hz
      have hold : 0 :: l = pre ++ y :: (l1 ++ x :: B) := by
        rw [c.hl, ← List.cons_append, hc1]; simp
      obtain ⟨ofw, osp⟩ := c.inv.cells pre y _ hold i hi
      rw [hsuf]
      by_cases hex : ∃ a ∈ l1, up s i a = true
      · obtain ⟨a, ha, hua⟩ := hex
        have hil : i < s.level := by
          have := (c.inv.hgt a (c.mem_A (hl1A a ha))).2
          simp [up] at hua; omega
        have hne : ¬ (i < s.level ∧ y = upd.getD i 0) := by
          intro hh
          obtain ⟨p, sf, hsp, _, hnone, _, _⟩ := c.cells_upd i hh.1
          rw [← hh.2] at hsp
          have := (split_unique c.nodupA0 hc1 hsp).2
          rw [this] at ha
          have := hnone a ha
          rw [hua] at this; cases this
        rw [if_neg hne, ofw]
        obtain ⟨n1, d1⟩ := nxt_append_some ha hua (x :: B)
        obtain ⟨n2, d2⟩ := nxt_append_some ha hua B
        rw [n1, n2, d2]
        exact ⟨rfl, fun h => by rw [osp h, d1]⟩
      · have hnone : ∀ a ∈ l1, up s i a = false := by
          intro a ha
          cases hu : up s i a with
          | false => rfl
          | true => exact absurd ⟨a, ha, hu⟩ hex
        obtain ⟨n2, d2⟩ := nxt_append_none hnone B
        rw [n2, d2]
        by_cases hil : i < s.level
        · obtain ⟨p, sf, hsp, hyh, hnn, cf, cs⟩ := c.cells_upd i hil
          have hux : up s i y = true := by simp [up]; exact hi
          have huy : up s i (upd.getD i 0) = true := by simp [up]; exact hyh
          obtain ⟨_, hyeq, hsf⟩ := isUpd_unique hc1 hsp hux huy hnone hnn
          rw [if_pos ⟨hil, hyeq⟩, hyeq, cf, cs, ← hsf]
          by_cases hxu : up s i x = true
          · have hxh : i < height s x := by simpa [up] using hxu
            obtain ⟨xf, xs⟩ := c.cells_x i hxh
            simp only [hxu, if_true, beq_self_eq_true]
            rw [xf, xs hil]
            exact ⟨rfl, fun _ => by omega⟩
          · have hxu' : up s i x = false := by simpa using hxu
            have hneq : (nxt s i B == some x) = false := by
              cases hnb : nxt s i B with
              | none => rfl
              | some b =>
                obtain ⟨b1, b2, hb, _⟩ := nxt_some_split hnb
                have : b ∈ B := by rw [hb]; simp
                have hbx : b ≠ x := fun h0 => c.x_notin_B (h0 ▸ this)
                simp [hbx]
            simp only [hxu', Bool.false_eq_true, if_false, hneq]
            exact ⟨by first | rfl | trivial, fun _ => by omega⟩
        · have hne : ¬ (i < s.level ∧ y = upd.getD i 0) := fun hh => hil hh.1
          rw [if_neg hne, ofw]
          have hab : ∀ z ∈ l1 ++ x :: B, up s i z = false := by
            intro z hz
            have hzl : z ∈ l := by
              rcases List.mem_append.mp hz with h1 | h2
              · exact c.mem_A (hl1A z h1)
              · rcases List.mem_cons.mp h2 with h3 | h3
                · rw [h3]; exact c.mem_x
                · exact c.mem_B h3
            have := (c.inv.hgt z hzl).2
            simp [up]; omega
          have hB0 : ∀ z ∈ B, up s i z = false := fun z hz =>
            hab z (List.mem_append_right _ (List.mem_cons_of_mem _ hz))
          rw [(nxt_none hab).1, (nxt_none hB0).1]
          exact ⟨by first | rfl | trivial, fun h => absurd h hil⟩

end

end Fatchoy.C11.S
