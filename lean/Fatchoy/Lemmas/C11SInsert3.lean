/-
C11, structural skip list S, `Insert` part 3: the state `insertAt` produces, in terms of the state before
and of what the search found.
-/
import Fatchoy.Lemmas.C11SInsert2
import Fatchoy.Lemmas.C11SRank
namespace Fatchoy.C11.S

/-- everything `Insert` knows after its search -/
structure InsCtx (s : SList) (l A B : List Nat) (ur0 : List (Nat × Int)) (tgt : Node) (h : Nat) : Prop where
  inv : Inv s l
  hl : l = A ++ B
  hlen : ur0.length = s.level
  upd : ∀ i, i < s.level → IsUpd s A i (updOf ur0 i) (rankOf ur0 i)
  h1 : 1 ≤ h
  hh : h ≤ height s 0
  ltA : ∀ a ∈ A, (nodeOf s a).lt tgt = true
  gtB : ∀ b ∈ B, tgt.lt (nodeOf s b) = true

/-- `update[]`/`rank[]` extended to the new levels -/
def urExt (s : SList) (ur0 : List (Nat × Int)) (h : Nat) : List (Nat × Int) :=
  ur0 ++ List.replicate (h - s.level) (0, 0)

theorem getD_urExt_hi (s : SList) (ur0 : List (Nat × Int)) (h i : Nat) (hi : ur0.length ≤ i) :
    (urExt s ur0 h).getD i (0, 0) = (0, 0) := by
  unfold urExt
  simp only [List.getD_eq_getElem?_getD]
  rw [List.getElem?_append_right hi]
  by_cases h2 : i - ur0.length < h - s.level
  · rw [List.getElem?_replicate]; simp [h2]
  · rw [List.getElem?_eq_none (by simp; omega)]; rfl

theorem InsCtx.mem_A {s l A B ur0 tgt h} (c : InsCtx s l A B ur0 tgt h) {a : Nat} (ha : a ∈ A) : a ∈ l := by
  rw [c.hl]; exact List.mem_append_left _ ha

theorem InsCtx.urExt_upd {s l A B ur0 tgt h} (c : InsCtx s l A B ur0 tgt h) (i : Nat)
    (hi : i < s.level ∨ i < h) :
    IsUpd s A i (updOf (urExt s ur0 h) i) (rankOf (urExt s ur0 h) i) := by
  by_cases h1 : i < s.level
  · have := c.upd i h1
    unfold updOf rankOf urExt at *
    rw [getD_append_left _ _ _ _ (by rw [c.hlen]; exact h1)]
    exact this
  · have hi2 : i < h := by omega
    unfold updOf rankOf
    rw [getD_urExt_hi s ur0 h i (by rw [c.hlen]; omega)]
    refine ⟨[], A, rfl, by show i < height s 0; have := c.hh; omega, ?_, rfl⟩
    intro a ha
    have := (c.inv.hgt a (c.mem_A ha)).2
    simp [up]; omega

/-- `update[i]` is a node of the table that takes part in level i, and is not the new node -/
theorem isUpd_valid {s : SList} {l A B : List Nat} (hI : Inv s l) (hl : l = A ++ B) {i y : Nat} {r : Int}
    (h : IsUpd s A i y r) : y < s.nodes.length ∧ i < height s y ∧ y ∈ 0 :: A := by
  obtain ⟨p, suf, hs, hy, _, _⟩ := h
  have hm : y ∈ 0 :: A := by rw [hs]; simp
  refine ⟨?_, hy, hm⟩
  rcases List.mem_cons.mp hm with h0 | hA
  · rw [h0]; exact hI.head_valid
  · exact hI.valid y (by rw [hl]; exact List.mem_append_left _ hA)

/-- the new level -/
def newLevel (s : SList) (h : Nat) : Nat := if s.level < h then h else s.level

/-- the state after `Insert`, accessor by accessor -/
structure InsFacts (s : SList) (ur : List (Nat × Int)) (tgt : Node) (h : Nat) (t : SList) : Prop where
  size : t.nodes.length = s.nodes.length + 1
  hgt : ∀ y, height t y = if y = s.nodes.length then h else height s y
  key : ∀ y, nodeOf t y = if y = s.nodes.length then tgt else nodeOf s y
  level : t.level = newLevel s h
  len : t.length = s.length + 1
  cell_other : ∀ y j, y ≠ s.nodes.length → (j < newLevel s h → y ≠ updOf ur j) → cell t y j = cell s y j
  cell_lo : ∀ j, j < h → cell t (updOf ur j) j = ⟨some s.nodes.length, rankOf ur 0 - rankOf ur j + 1⟩
  cell_hi : ∀ j, h ≤ j → j < newLevel s h →
    cell t (updOf ur j) j = ⟨(cell s (updOf ur j) j).fwd, (cell s (updOf ur j) j).span + 1⟩
  cell_new : ∀ j, j < h → cell t s.nodes.length j =
    if s.level ≤ j then ⟨(cell s 0 j).fwd, s.length - (rankOf ur 0 - rankOf ur j)⟩
    else ⟨(cell s (updOf ur j) j).fwd, (cell s (updOf ur j) j).span - (rankOf ur 0 - rankOf ur j)⟩
  tail : t.tail = if (cell t s.nodes.length 0).fwd = none then some s.nodes.length else s.tail
  bwd : ∀ y, (nd t y).bwd =
    if (cell t s.nodes.length 0).fwd = some y ∧ y < s.nodes.length + 1 then some s.nodes.length
    else if y = s.nodes.length then (if updOf ur 0 ≠ 0 then some (updOf ur 0) else none)
    else (nd s y).bwd

theorem insertAt_facts {s l A B ur0 tgt h} (c : InsCtx s l A B ur0 tgt h) :
    (insertAt s ur0 tgt.score tgt.ele h).2 = s.nodes.length ∧
    InsFacts s (urExt s ur0 h) tgt h (insertAt s ur0 tgt.score tgt.ele h).1 := by
  -- the phases
  obtain ⟨g1, g2, g3, g4, g5, g6, g7, g8⟩ := growLevels_spec s h c.inv.head_valid c.hh
  obtain ⟨p1, p2, p3, p4, p5, p6, p7, p8⟩ := pushNode_spec (growLevels s h) tgt.score tgt.ele h
  rw [g1] at p1 p2 p3 p4 p5
  have hlv3 : (pushNode (growLevels s h) tgt.score tgt.ele h).level = newLevel s h := by rw [p8, g7]; rfl
  have hU : ∀ j, j < h ∨ j < (pushNode (growLevels s h) tgt.score tgt.ele h).level →
      updOf (urExt s ur0 h) j < (pushNode (growLevels s h) tgt.score tgt.ele h).nodes.length ∧
      updOf (urExt s ur0 h) j ≠ s.nodes.length ∧
      j < height (pushNode (growLevels s h) tgt.score tgt.ele h) (updOf (urExt s ur0 h) j) := by
    intro j hj
    have hj' : j < s.level ∨ j < h := by
      rw [hlv3] at hj; unfold newLevel at hj
      rcases hj with hj | hj
      · exact Or.inr hj
      · split at hj <;> omega
    obtain ⟨v1, v2, _⟩ := isUpd_valid c.inv c.hl (c.urExt_upd j hj')
    have hne : updOf (urExt s ur0 h) j ≠ s.nodes.length := by omega
    refine ⟨by rw [p1]; omega, hne, ?_⟩
    rw [p2, if_neg hne, g2]; exact v2
  obtain ⟨lk, lc⟩ := linked_spec (pushNode (growLevels s h) tgt.score tgt.ele h) (urExt s ur0 h)
    s.nodes.length h (by rw [p1]; omega) (by rw [p2]; simp) hU
  obtain ⟨f1, f2, f3, f4, f5, f6, f7, f8⟩ := fixBack_spec
    (linked (pushNode (growLevels s h) tgt.score tgt.ele h) (urExt s ur0 h) s.nodes.length h)
    (updOf (urExt s ur0 h) 0) s.nodes.length (by rw [lk.size, p1]; omega)
  have hstate : insertAt s ur0 tgt.score tgt.ele h =
      (fixBack (linked (pushNode (growLevels s h) tgt.score tgt.ele h) (urExt s ur0 h) s.nodes.length h)
        (updOf (urExt s ur0 h) 0) s.nodes.length, s.nodes.length) := by
    unfold insertAt linked urExt
    simp only [g1]
    rw [(fold_levels (levelStep_link _ _) (List.range h) List.nodup_range _).1.level]
  rw [hstate]
  refine ⟨rfl, ?_⟩
  -- cells of the pushed state, for old nodes
  have c3 : ∀ y j, y ≠ s.nodes.length →
      cell (pushNode (growLevels s h) tgt.score tgt.ele h) y j =
        if y = 0 ∧ s.level ≤ j ∧ j < h then ⟨(cell s 0 j).fwd, s.length⟩ else cell s y j := by
    intro y j hy; rw [p5 y j hy, g8]
  have hUj : ∀ j, j < s.level ∨ j < h → updOf (urExt s ur0 h) j ≠ s.nodes.length := fun j hj => by
    have := (isUpd_valid c.inv c.hl (c.urExt_upd j hj)).1; omega
  have hU0 : ∀ j, s.level ≤ j → updOf (urExt s ur0 h) j = 0 := fun j hj => by
    unfold updOf; rw [getD_urExt_hi s ur0 h j (by rw [c.hlen]; exact hj)]
  constructor
  · rw [f1, lk.size, p1]
  · intro y; rw [f2, lk.hgt, p2, g2]
  · intro y; rw [f3, lk.key, p3, g3]
  · rw [f5, lk.level, hlv3]
  · rw [f6, lk.len, p7, g6]
  · -- cell_other
    intro y j hy hne
    rw [f4, lc]
    by_cases hj : j < h
    · have hlt : j < newLevel s h := by unfold newLevel; split <;> omega
      rw [if_pos hj, if_neg (hne hlt), if_neg hy, c3 y j hy]
      have : ¬ (y = 0 ∧ s.level ≤ j ∧ j < h) := by
        intro hh
        exact hne hlt (by rw [hU0 j hh.2.1]; exact hh.1)
      rw [if_neg this]
    · rw [if_neg hj, hlv3]
      have hc3 : cell (pushNode (growLevels s h) tgt.score tgt.ele h) y j = cell s y j := by
        rw [c3 y j hy, if_neg (fun hh => hj hh.2.2)]
      by_cases hj2 : j < newLevel s h
      · rw [if_pos hj2, if_neg (hne hj2), hc3]
      · rw [if_neg hj2, hc3]
  · -- cell_lo
    intro j hj
    rw [f4, lc, if_pos hj, if_pos rfl]
  · -- cell_hi
    intro j hj hj2
    have hjl : j < s.level := by unfold newLevel at hj2; split at hj2 <;> omega
    rw [f4, lc, if_neg (by omega), hlv3, if_pos hj2, if_pos rfl,
      c3 _ j (hUj j (Or.inl hjl)), if_neg (fun hh => by omega)]
  · -- cell_new
    intro j hj
    rw [f4, lc, if_pos hj, if_neg (fun hh => hUj j (Or.inr hj) hh.symm), if_pos rfl,
      c3 _ j (hUj j (Or.inr hj))]
    by_cases hjl : s.level ≤ j
    · rw [if_pos hjl, hU0 j hjl, if_pos ⟨rfl, hjl, hj⟩]
    · rw [if_neg hjl, if_neg (fun hh => hjl hh.2.1)]
  · -- tail
    rw [f7, f4, lk.tail, p6, g5]
  · -- bwd
    intro y
    rw [f8, f4, lk.size, p1, lk.bwd, p4, g4]
    by_cases hy : y = s.nodes.length
    · simp [hy]
    · simp [hy]

end Fatchoy.C11.S
