/-
Helper lemmas for C09 (snowflake ids): the `Valid` side-condition on the regenerated constants, the
move from `<<<`/`|||` to positional arithmetic, field extraction, lexicographic order, inversion of
`next`, and the reachability invariant.
-/
import Fatchoy.Model.C09
namespace Fatchoy.C09

/-- The regenerated constants describe a tiling of bits 0..62 by the four fields: every mask is
`2^bits − 1`, every shift is the sum of the widths below it, the rollback field (values
0..maxBack) ends below the sign bit; `sf.seq` enters unshifted and `Next` runs under the mutex. -/
def Valid (P : Params) : Prop :=
  P.shiftMid = P.seqBits ∧ P.shiftTs = P.seqBits + P.midBits ∧
  P.shiftBc = P.seqBits + P.midBits + P.timeBits ∧
  P.maxSeq + 1 = 2 ^ P.seqBits ∧ P.midMask + 1 = 2 ^ P.midBits ∧ P.maxTime + 1 = 2 ^ P.timeBits ∧
  (P.maxBack + 1) * 2 ^ P.shiftBc ≤ 2 ^ 63 ∧ P.seqUnshifted = true ∧ P.nextLocked = true
instance (P : Params) : Decidable (Valid P) := by unfold Valid; infer_instance

/-! ### positional arithmetic -/

/-- the id as a mixed-radix number: `((bc·2^T + ts)·2^M + mid)·2^S + seq` -/
def pack (P : Params) (bc ts mid seq : Nat) : Nat :=
  ((bc * 2 ^ P.timeBits + ts) * 2 ^ P.midBits + mid) * 2 ^ P.seqBits + seq

theorem assemble_eq_pack (P : Params) (hv : Valid P) {bc ts mid seq : Nat}
    (hts : ts < 2 ^ P.timeBits) (hmid : mid < 2 ^ P.midBits) (hseq : seq < 2 ^ P.seqBits) :
    assemble P bc ts mid seq = pack P bc ts mid seq := by
  obtain ⟨h1, h2, h3, -⟩ := hv
  have e3 : P.shiftBc = P.timeBits + P.midBits + P.seqBits := by omega
  have e2 : P.shiftTs = P.midBits + P.seqBits := by omega
  unfold assemble pack
  rw [e3, e2, h1, Nat.shiftLeft_add, Nat.shiftLeft_add, Nat.shiftLeft_add,
    ← Nat.shiftLeft_or_distrib, ← Nat.shiftLeft_or_distrib, ← Nat.shiftLeft_or_distrib,
    ← Nat.shiftLeft_add_eq_or_of_lt hts, ← Nat.shiftLeft_add_eq_or_of_lt hmid,
    ← Nat.shiftLeft_add_eq_or_of_lt hseq]
  simp only [Nat.shiftLeft_eq]

theorem hi_lt {B a b x y : Nat} (hx : x < B) (h : a < b) : a * B + x < b * B + y := by
  have h1 : (a + 1) * B ≤ b * B := Nat.mul_le_mul_right B h
  rw [Nat.succ_mul] at h1
  omega

theorem pack2_lt {B H a x : Nat} (ha : a < H) (hx : x < B) : a * B + x < H * B := by
  have := hi_lt (y := 0) hx ha
  omega

theorem pack2_div {B a x : Nat} (hx : x < B) : (a * B + x) / B = a := by
  have hB : 0 < B := by omega
  rw [Nat.add_comm, Nat.add_mul_div_right _ _ hB, Nat.div_eq_of_lt hx, Nat.zero_add]

theorem pack2_mod {B a x : Nat} (hx : x < B) : (a * B + x) % B = x := by
  rw [Nat.add_comm, Nat.add_mul_mod_self_right, Nat.mod_eq_of_lt hx]

/-- lexicographic order of the four fields is the order of the ids -/
theorem pack_lt_pack (P : Params) {bc ts mid seq bc' ts' seq' : Nat}
    (hts : ts < 2 ^ P.timeBits) (hmid : mid < 2 ^ P.midBits) (hseq : seq < 2 ^ P.seqBits)
    (h : bc < bc' ∨ (bc = bc' ∧ ts < ts') ∨ (bc = bc' ∧ ts = ts' ∧ seq < seq')) :
    pack P bc ts mid seq < pack P bc' ts' mid seq' := by
  unfold pack
  rcases h with h | ⟨rfl, h⟩ | ⟨rfl, rfl, h⟩
  · exact hi_lt hseq (hi_lt hmid (hi_lt hts h))
  · exact hi_lt hseq (hi_lt hmid (by omega))
  · omega

theorem pack_lt_bound (P : Params) {bc ts mid seq B : Nat}
    (hbc : bc < B) (hts : ts < 2 ^ P.timeBits) (hmid : mid < 2 ^ P.midBits) (hseq : seq < 2 ^ P.seqBits) :
    pack P bc ts mid seq < B * 2 ^ (P.seqBits + P.midBits + P.timeBits) := by
  unfold pack
  have h := pack2_lt (pack2_lt (pack2_lt hbc hts) hmid) hseq
  have e : 2 ^ (P.seqBits + P.midBits + P.timeBits) = 2 ^ P.timeBits * 2 ^ P.midBits * 2 ^ P.seqBits := by
    rw [Nat.pow_add, Nat.pow_add]; ac_rfl
  rw [e, ← Nat.mul_assoc, ← Nat.mul_assoc]
  exact h

theorem pack_fields (P : Params) {bc ts mid seq : Nat}
    (hts : ts < 2 ^ P.timeBits) (hmid : mid < 2 ^ P.midBits) (hseq : seq < 2 ^ P.seqBits) :
    pack P bc ts mid seq >>> (P.seqBits + P.midBits + P.timeBits) = bc ∧
    (pack P bc ts mid seq >>> (P.seqBits + P.midBits)) % 2 ^ P.timeBits = ts ∧
    (pack P bc ts mid seq >>> P.seqBits) % 2 ^ P.midBits = mid ∧
    pack P bc ts mid seq % 2 ^ P.seqBits = seq := by
  have a1 : pack P bc ts mid seq >>> P.seqBits = (bc * 2 ^ P.timeBits + ts) * 2 ^ P.midBits + mid := by
    rw [Nat.shiftRight_eq_div_pow]; exact pack2_div hseq
  have a2 : pack P bc ts mid seq >>> (P.seqBits + P.midBits) = bc * 2 ^ P.timeBits + ts := by
    rw [Nat.shiftRight_add, a1, Nat.shiftRight_eq_div_pow]; exact pack2_div hmid
  have a3 : pack P bc ts mid seq >>> (P.seqBits + P.midBits + P.timeBits) = bc := by
    rw [Nat.shiftRight_add, a2, Nat.shiftRight_eq_div_pow]; exact pack2_div hts
  refine ⟨a3, ?_, ?_, ?_⟩
  · rw [a2]; exact pack2_mod hts
  · rw [a1]; exact pack2_mod hmid
  · unfold pack; exact pack2_mod hseq

/-! ### the shape of one call -/

theorem waitNext_some {ts : Nat} {l : List Nat} {r : Nat} {rest : List Nat}
    (h : waitNext ts l = some (r, rest)) :
    ts < r ∧ ∃ pre, l = pre ++ r :: rest ∧ ∀ x ∈ pre, x ≤ ts := by
  induction l with
  | nil => simp [waitNext] at h
  | cons a l ih =>
    simp only [waitNext] at h
    split at h
    · simp only [Option.some.injEq, Prod.mk.injEq] at h
      obtain ⟨rfl, rfl⟩ := h
      exact ⟨by omega, [], rfl, by simp⟩
    · obtain ⟨h1, pre, h2, h3⟩ := ih h
      refine ⟨h1, a :: pre, by rw [h2]; rfl, ?_⟩
      intro x hx
      rcases List.mem_cons.mp hx with rfl | hx
      · omega
      · exact h3 x hx

/-- the rollback count a call starts from after its first reading `r` -/
def bcAfter (s : St) (r : Nat) : Nat := if r < s.lastTs then s.bc + 1 else s.bc

/-- every way through `Next` -/
inductive Path (P : Params) (s : St) (r : Nat) (tl : List Nat) : Out × St × List Nat → Prop
  | beyond : P.maxTime < r → Path P s r tl (.errTime, s, tl)
  | fourth : r ≤ P.maxTime → r < s.lastTs → P.maxBack ≤ s.bc → Path P s r tl (.errBack, s, tl)
  | same : r ≤ P.maxTime → r = s.lastTs → s.seq + 1 ≤ P.maxSeq →
      Path P s r tl (finish P s (bcAfter s r) r (s.seq + 1) tl)
  | other : r ≤ P.maxTime → (r < s.lastTs → s.bc < P.maxBack) → r ≠ s.lastTs →
      Path P s r tl (finish P s (bcAfter s r) r 0 tl)
  | starve : r ≤ P.maxTime → r = s.lastTs → P.maxSeq < s.seq + 1 → waitNext r tl = none →
      Path P s r tl (.starved, { s with seq := 0 }, [])
  | waitBeyond (r' : Nat) (rest' : List Nat) : r ≤ P.maxTime → r = s.lastTs → P.maxSeq < s.seq + 1 →
      waitNext r tl = some (r', rest') → P.maxTime < r' →
      Path P s r tl (.errTime, { s with seq := P.maxSeq }, rest')
  | waited (r' : Nat) (rest' : List Nat) : r ≤ P.maxTime → r = s.lastTs → P.maxSeq < s.seq + 1 →
      waitNext r tl = some (r', rest') → r' ≤ P.maxTime →
      Path P s r tl (finish P s (bcAfter s r) r' 0 rest')

theorem next_path (P : Params) (s : St) (r : Nat) (tl : List Nat) : Path P s r tl (next P s (r :: tl)) := by
  simp only [next]
  split
  · exact .beyond (by omega)
  · rename_i h1
    split
    · rename_i h2; exact .fourth (by omega) h2.1 h2.2
    · rename_i h2
      have hb : r < s.lastTs → s.bc < P.maxBack := by
        intro h; rcases Nat.lt_or_ge s.bc P.maxBack with h' | h'
        · exact h'
        · exact absurd ⟨h, h'⟩ h2
      split
      · rename_i h3
        split
        · rename_i h4
          split
          · rename_i h5; exact .starve (by omega) h3 (by omega) h5
          · rename_i r' rest' h5
            split
            · exact .waitBeyond r' rest' (by omega) h3 (by omega) h5 (by omega)
            · exact .waited r' rest' (by omega) h3 (by omega) h5 (by omega)
        · exact .same (by omega) h3 (by omega)
      · rename_i h3; exact .other (by omega) hb h3

/-! ### the invariant of reachable generator states -/

/-- Either nothing was issued yet, or the last id is exactly the packing of the current state. -/
def Inv (P : Params) (s : St) : Prop :=
  s.mid ≤ P.midMask ∧ s.bc ≤ P.maxBack ∧ s.seq ≤ P.maxSeq ∧
  ((s.lastID = 0 ∧ s.seq = 0 ∧ s.bc = 0) ∨
   (s.lastTs ≤ P.maxTime ∧ s.lastID = assemble P s.bc s.lastTs s.mid s.seq))

theorem new_inv (P : Params) (hv : Valid P) (m t0 : Nat) : Inv P (new P m t0) := by
  obtain ⟨-, -, -, -, hm, -⟩ := hv
  refine ⟨?_, Nat.zero_le _, Nat.zero_le _, Or.inl ⟨rfl, rfl, rfl⟩⟩
  show m &&& P.midMask ≤ P.midMask
  exact Nat.and_le_right

/-- the final guard cannot fire: a lexicographically later (rollbacks, time, sequence) gives a larger id -/
theorem lastID_lt_assemble (P : Params) (hv : Valid P) {s : St} (hI : Inv P s) {bc' ts seq' : Nat}
    (hts : ts ≤ P.maxTime) (hseq' : seq' ≤ P.maxSeq)
    (hlex : s.bc < bc' ∨ (s.bc = bc' ∧ s.lastTs < ts) ∨ (s.bc = bc' ∧ s.lastTs = ts ∧ s.seq < seq')) :
    s.lastID < assemble P bc' ts s.mid seq' := by
  obtain ⟨hmid, hbc, hseq, hlast⟩ := hI
  have hv' := hv
  obtain ⟨-, -, -, hS, hM, hT, -⟩ := hv'
  have b1 : ts < 2 ^ P.timeBits := by omega
  have b2 : s.mid < 2 ^ P.midBits := by omega
  have b3 : seq' < 2 ^ P.seqBits := by omega
  rw [assemble_eq_pack P hv b1 b2 b3]
  rcases hlast with ⟨h0, hs0, hb0⟩ | ⟨hlt, hid⟩
  · rw [h0]
    have z : 0 < 2 ^ P.timeBits := Nat.two_pow_pos _
    have z' : 0 < 2 ^ P.seqBits := Nat.two_pow_pos _
    refine Nat.lt_of_le_of_lt (Nat.zero_le (pack P 0 0 s.mid 0)) (pack_lt_pack P z b2 z' ?_)
    rw [hs0, hb0] at hlex
    rcases hlex with h | ⟨h, h'⟩ | ⟨h, h', h''⟩
    · exact Or.inl h
    · exact Or.inr (Or.inl ⟨h, by omega⟩)
    · rcases Nat.eq_zero_or_pos ts with hz | hz
      · exact Or.inr (Or.inr ⟨h, hz.symm, h''⟩)
      · exact Or.inr (Or.inl ⟨h, hz⟩)
  · have c1 : s.lastTs < 2 ^ P.timeBits := by omega
    have c3 : s.seq < 2 ^ P.seqBits := by omega
    rw [hid, assemble_eq_pack P hv c1 b2 c3]
    exact pack_lt_pack P c1 b2 c3 hlex

theorem finish_ok (P : Params) (hv : Valid P) {s : St} (hI : Inv P s) {bc' ts seq' : Nat} (rest : List Nat)
    (hts : ts ≤ P.maxTime) (hseq' : seq' ≤ P.maxSeq)
    (hlex : s.bc < bc' ∨ (s.bc = bc' ∧ s.lastTs < ts) ∨ (s.bc = bc' ∧ s.lastTs = ts ∧ s.seq < seq')) :
    finish P s bc' ts seq' rest =
      (.ok (assemble P bc' ts s.mid seq'),
       { s with bc := bc', lastTs := ts, seq := seq', lastID := assemble P bc' ts s.mid seq' }, rest) := by
  have h := lastID_lt_assemble P hv hI hts hseq' hlex
  unfold finish
  simp only [Nat.not_le.mpr h, if_false]

/-- What a completed call looks like. `r :: tl` are the readings offered, `rest` those left over.
`ok`: the id is built from the new state — rollbacks `bcAfter s r`, the time `ts` = the last reading
the call consumed (later than everything it consumed before), the sequence restarted or continued.
Every error leaves the state unchanged. -/
inductive Done (P : Params) (s : St) (r : Nat) (tl : List Nat) : Out → St → List Nat → Prop
  | ok (ts seq' : Nat) (rest : List Nat) : ts ≤ P.maxTime → seq' ≤ P.maxSeq → bcAfter s r ≤ P.maxBack →
      (s.bc < bcAfter s r ∨ (s.bc = bcAfter s r ∧ s.lastTs < ts) ∨
        (s.bc = bcAfter s r ∧ s.lastTs = ts ∧ s.seq < seq')) →
      (∃ pre, r :: tl = pre ++ ts :: rest ∧ ∀ x ∈ pre, x < ts) →
      ((ts = s.lastTs ∧ seq' = s.seq + 1) ∨ (ts ≠ s.lastTs ∧ seq' = 0)) →
      Done P s r tl (.ok (assemble P (bcAfter s r) ts s.mid seq'))
        { s with bc := bcAfter s r, lastTs := ts, seq := seq', lastID := assemble P (bcAfter s r) ts s.mid seq' } rest
  | errTime (rest : List Nat) :
      (P.maxTime < r ∧ rest = tl) ∨
        (r = s.lastTs ∧ s.seq = P.maxSeq ∧ ∃ r', waitNext r tl = some (r', rest) ∧ P.maxTime < r') →
      Done P s r tl .errTime s rest
  | errBack : r ≤ P.maxTime → r < s.lastTs → P.maxBack ≤ s.bc → Done P s r tl .errBack s tl

theorem bcAfter_lex {s : St} {r : Nat} (h : r ≠ s.lastTs) :
    s.bc < bcAfter s r ∨ (s.bc = bcAfter s r ∧ s.lastTs < r) ∨ (s.bc = bcAfter s r ∧ s.lastTs = r ∧ s.seq < 0) := by
  unfold bcAfter
  split
  · exact Or.inl (by omega)
  · exact Or.inr (Or.inl ⟨rfl, by omega⟩)

theorem bcAfter_same {s : St} {r : Nat} (h : r = s.lastTs) : bcAfter s r = s.bc := by
  unfold bcAfter; rw [if_neg (by omega)]

/-- Under the invariant every call that is not starved ends in `Done`: in particular never in the
final guard (`errOverflow`), and every error leaves the state unchanged. -/
theorem next_done (P : Params) (hv : Valid P) {s : St} (hI : Inv P s) (r : Nat) (tl : List Nat) :
    (∃ o s' rest, next P s (r :: tl) = (o, s', rest) ∧ Done P s r tl o s' rest) ∨
    (r ≤ P.maxTime ∧ r = s.lastTs ∧ s.seq = P.maxSeq ∧ waitNext r tl = none ∧
      ∃ s', next P s (r :: tl) = (.starved, s', [])) := by
  have hp := next_path P s r tl
  obtain ⟨hmid, hbc, hseq, hlast⟩ := hI
  have hI : Inv P s := ⟨hmid, hbc, hseq, hlast⟩
  generalize hn : next P s (r :: tl) = res at hp
  cases hp with
  | beyond h => exact Or.inl ⟨_, _, _, rfl, .errTime _ (Or.inl ⟨h, rfl⟩)⟩
  | fourth h1 h2 h3 => exact Or.inl ⟨_, _, _, rfl, .errBack h1 h2 h3⟩
  | same h1 h2 h3 =>
    have hb := bcAfter_same h2
    have hlex : s.bc < bcAfter s r ∨ (s.bc = bcAfter s r ∧ s.lastTs < r) ∨
        (s.bc = bcAfter s r ∧ s.lastTs = r ∧ s.seq < s.seq + 1) :=
      Or.inr (Or.inr ⟨hb.symm, h2.symm, by omega⟩)
    rw [finish_ok P hv hI tl h1 h3 hlex]
    exact Or.inl ⟨_, _, _, rfl, .ok _ _ _ h1 h3 (by omega) hlex ⟨[], rfl, by simp⟩ (Or.inl ⟨h2, rfl⟩)⟩
  | other h1 h2 h3 =>
    have hlex := bcAfter_lex h3
    have hb : bcAfter s r ≤ P.maxBack := by
      unfold bcAfter; split
      · rename_i h; have := h2 h; omega
      · exact hbc
    rw [finish_ok P hv hI tl h1 (Nat.zero_le _) hlex]
    exact Or.inl ⟨_, _, _, rfl, .ok _ _ _ h1 (Nat.zero_le _) hb hlex ⟨[], rfl, by simp⟩ (Or.inr ⟨h3, rfl⟩)⟩
  | starve h1 h2 h3 h4 => exact Or.inr ⟨h1, h2, by omega, h4, _, rfl⟩
  | waitBeyond r' rest' h1 h2 h3 h4 h5 =>
    have hs : s.seq = P.maxSeq := by omega
    have : ({ s with seq := P.maxSeq } : St) = s := by
      cases s; simp_all
    rw [this]
    exact Or.inl ⟨_, _, _, rfl, .errTime _ (Or.inr ⟨h2, hs, r', h4, h5⟩)⟩
  | waited r' rest' h1 h2 h3 h4 h5 =>
    have hb := bcAfter_same h2
    obtain ⟨hw, pre, hpre, hle⟩ := waitNext_some h4
    have hlex : s.bc < bcAfter s r ∨ (s.bc = bcAfter s r ∧ s.lastTs < r') ∨
        (s.bc = bcAfter s r ∧ s.lastTs = r' ∧ s.seq < 0) :=
      Or.inr (Or.inl ⟨hb.symm, by omega⟩)
    rw [finish_ok P hv hI rest' h5 (Nat.zero_le _) hlex]
    refine Or.inl ⟨_, _, _, rfl, .ok _ _ _ h5 (Nat.zero_le _) (by omega) hlex ⟨r :: pre, by rw [hpre]; rfl, ?_⟩
      (Or.inr ⟨by omega, rfl⟩)⟩
    intro x hx
    rcases List.mem_cons.mp hx with rfl | hx
    · exact hw
    · have := hle x hx; omega

theorem done_inv (P : Params) {s : St} (hI : Inv P s) {r : Nat} {tl : List Nat} {o : Out} {s' : St}
    {rest : List Nat} (h : Done P s r tl o s' rest) : Inv P s' := by
  cases h with
  | ok ts seq' rest h1 h2 h3 h4 h5 h6 => exact ⟨hI.1, h3, h2, Or.inr ⟨h1, rfl⟩⟩
  | errTime => exact hI
  | errBack => exact hI

/-- the states a generator created with machine id `m` can be in: `NewSnowflake(m)` under any
clock, then any number of completed calls of `Next` under any clock -/
inductive Reachable (P : Params) (m : Nat) : St → Prop
  | new (t0 : Nat) : Reachable P m (new P m t0)
  | next {s : St} {clock : List Nat} {o : Out} {s' : St} {rest : List Nat} :
      Reachable P m s → next P s clock = (o, s', rest) → o ≠ .starved → Reachable P m s'

/-- inversion of a completed call in a state satisfying the invariant -/
theorem next_inv (P : Params) (hv : Valid P) {s : St} (hI : Inv P s) {clock : List Nat} {o : Out} {s' : St}
    {rest : List Nat} (h : next P s clock = (o, s', rest)) (ho : o ≠ .starved) :
    ∃ r tl, clock = r :: tl ∧ Done P s r tl o s' rest := by
  cases clock with
  | nil => simp only [next, Prod.mk.injEq] at h; exact absurd h.1.symm ho
  | cons r tl =>
    refine ⟨r, tl, rfl, ?_⟩
    rcases next_done P hv hI r tl with ⟨o1, s1, rest1, h1, hd⟩ | ⟨-, -, -, -, s1, h1⟩
    · rw [h1] at h
      simp only [Prod.mk.injEq] at h
      obtain ⟨rfl, rfl, rfl⟩ := h
      exact hd
    · rw [h1] at h
      simp only [Prod.mk.injEq] at h
      exact absurd h.1.symm ho

theorem done_mid {P : Params} {s : St} {r : Nat} {tl : List Nat} {o : Out} {s' : St}
    {rest : List Nat} (h : Done P s r tl o s' rest) : s'.mid = s.mid := by
  cases h <;> rfl

theorem reachable_inv (P : Params) (hv : Valid P) {m : Nat} {s : St} (h : Reachable P m s) :
    Inv P s ∧ s.mid = m % 2 ^ P.midBits := by
  induction h with
  | new t0 =>
    refine ⟨new_inv P hv m t0, ?_⟩
    obtain ⟨-, -, -, -, hm, -⟩ := hv
    show m &&& P.midMask = m % 2 ^ P.midBits
    have : P.midMask = 2 ^ P.midBits - 1 := by omega
    rw [this, Nat.and_two_pow_sub_one_eq_mod]
  | next _ hn ho ih =>
    obtain ⟨r, tl, -, hd⟩ := next_inv P hv ih.1 hn ho
    exact ⟨done_inv P ih.1 hd, (done_mid hd).trans ih.2⟩

theorem waitNext_none {ts : Nat} {l : List Nat} (h : waitNext ts l = none) : ∀ x ∈ l, x ≤ ts := by
  induction l with
  | nil => simp
  | cons a l ih =>
    simp only [waitNext] at h
    split at h
    · cases h
    · intro x hx
      rcases List.mem_cons.mp hx with rfl | hx
      · omega
      · exact ih h x hx

/-! ### sequences of calls -/

/-- a sequence of calls; each is given the readings the clock shows while it runs -/
def run (P : Params) : St → List (List Nat) → List Out
  | _, [] => []
  | s, c :: cs => (next P s c).1 :: run P (next P s c).2.1 cs

def okIds : List Out → List Nat
  | [] => []
  | .ok id :: os => id :: okIds os
  | _ :: os => okIds os

/-- the final guard at work: a call returns an id only above `lastID`, and `lastID` never decreases -/
theorem next_lastID (P : Params) (s : St) (clock : List Nat) :
    s.lastID ≤ (next P s clock).2.1.lastID ∧
    ∀ id, (next P s clock).1 = .ok id → s.lastID < id ∧ (next P s clock).2.1.lastID = id := by
  cases clock with
  | nil => simp [next]
  | cons r tl =>
    have fin : ∀ bc ts seq rest, s.lastID ≤ (finish P s bc ts seq rest).2.1.lastID ∧
        ∀ id, (finish P s bc ts seq rest).1 = .ok id → s.lastID < id ∧ (finish P s bc ts seq rest).2.1.lastID = id := by
      intro bc ts seq rest
      simp only [finish]
      by_cases h : assemble P bc ts s.mid seq ≤ s.lastID
      · simp [h]
      · simp only [h, if_false, Out.ok.injEq]
        refine ⟨by omega, ?_⟩
        intro id hid; subst hid; exact ⟨by omega, rfl⟩
    have hp := next_path P s r tl
    generalize next P s (r :: tl) = res at hp
    cases hp with
    | beyond => simp
    | fourth => simp
    | same => exact fin _ _ _ _
    | other => exact fin _ _ _ _
    | starve => simp
    | waitBeyond => simp
    | waited => exact fin _ _ _ _

theorem run_increasing (P : Params) (s : St) (calls : List (List Nat)) :
    (okIds (run P s calls)).Pairwise (· < ·) ∧ ∀ id ∈ okIds (run P s calls), s.lastID < id := by
  induction calls generalizing s with
  | nil => simp [run, okIds]
  | cons c cs ih =>
    obtain ⟨h1, h2⟩ := next_lastID P s c
    obtain ⟨ih1, ih2⟩ := ih (next P s c).2.1
    simp only [run]
    cases ho : (next P s c).1 with
    | ok id =>
      obtain ⟨h3, h4⟩ := h2 id ho
      simp only [okIds]
      refine ⟨List.pairwise_cons.mpr ⟨?_, ih1⟩, ?_⟩
      · intro x hx; have := ih2 x hx; omega
      · intro x hx
        rcases List.mem_cons.mp hx with rfl | hx
        · exact h3
        · have := ih2 x hx; omega
    | errTime => simp only [okIds]; exact ⟨ih1, fun x hx => by have := ih2 x hx; omega⟩
    | errBack => simp only [okIds]; exact ⟨ih1, fun x hx => by have := ih2 x hx; omega⟩
    | errOverflow => simp only [okIds]; exact ⟨ih1, fun x hx => by have := ih2 x hx; omega⟩
    | starved => simp only [okIds]; exact ⟨ih1, fun x hx => by have := ih2 x hx; omega⟩

instance (P : Params) (s : St) : Decidable (Inv P s) := by unfold Inv; infer_instance

/-! ### example trajectories (used by the non-vacuity examples of Props/C09.lean) -/
namespace Ex

/-- machine id 0x4001 ≥ 2^14, created at time 758 -/
def s0 : St := new params 0x4001 758
/-- … one id in the unit of creation (sequence 1) -/
def s1 : St := { mid := 1, seq := 1, lastTs := 758, lastID := 12717130753, bc := 0 }
/-- … then the clock jumps back to 700: rollback 1, time 700, machine 1, sequence 0 -/
def s2 : St := { mid := 1, seq := 0, lastTs := 700, lastID := 2 ^ 61 + 700 * 2 ^ 24 + 1 * 2 ^ 10, bc := 1 }

theorem step1 : next params s0 [758] = (.ok 12717130753, s1, []) := by decide
theorem step2 : next params s1 [700] = (.ok (2 ^ 61 + 700 * 2 ^ 24 + 1 * 2 ^ 10), s2, []) := by decide
theorem reach1 : Reachable params 0x4001 s1 := .next (.new 758) step1 (by simp)
theorem reach2 : Reachable params 0x4001 s2 := .next reach1 step2 (by simp)

/-- the same first step on machine 0x4002 -/
theorem step1' : next params (new params 0x4002 758) [758] =
    (.ok 12717131777, { mid := 2, seq := 1, lastTs := 758, lastID := 12717131777, bc := 0 }, []) := by decide

/-- three backward jumps from time 100 -/
def b1 : St := (next params (new params 7 100) [50]).2.1
def b2 : St := (next params b1 [40]).2.1
def b3 : St := (next params b2 [30]).2.1
theorem reachB3 : Reachable params 7 b3 :=
  .next (.next (.next (.new 100) (clock := [50]) (o := (next params (new params 7 100) [50]).1) (s' := b1) (rest := []) (by decide) (by decide))
    (clock := [40]) (o := (next params b1 [40]).1) (s' := b2) (rest := []) (by decide) (by decide))
    (clock := [30]) (o := (next params b2 [30]).1) (s' := b3) (rest := []) (by decide) (by decide)

/-- the last supported unit, sequence used up, three rollbacks -/
def full : St :=
  { mid := 1, seq := 1023, lastTs := 137438953471, lastID := assemble params 3 137438953471 1 1023, bc := 3 }

end Ex

end Fatchoy.C09
