/-
C05 helper lemmas: the binary-heap scheduler.  The sorted list that stands for `container/heap`,
closed form of `trigger`, and one timer id followed through a tick.
-/
import Fatchoy.Lemmas.C05Front
import Fatchoy.Lemmas.C05Track
namespace Fatchoy.C05

def hids (l : List HNode) : List Nat := l.map (·.id)

/-- sorted by deadline (what the theorems need of the heap order; ties are broken by `Less` in the model) -/
def HSorted (l : List HNode) : Prop := l.Pairwise (fun a b => a.deadline ≤ b.deadline)

theorem hinsert_perm (n : HNode) : ∀ l, (hinsert n l).Perm (n :: l)
  | [] => List.Perm.refl _
  | m :: ms => by
    simp only [hinsert]
    split
    · exact List.Perm.refl _
    · exact ((hinsert_perm n ms).cons m).trans (List.Perm.swap ..)

theorem hinsert_sorted (n : HNode) : ∀ l, HSorted l → HSorted (hinsert n l)
  | [], _ => by simp [hinsert, HSorted]
  | m :: ms, h => by
    simp only [hinsert]
    have h' := List.pairwise_cons.mp h
    split
    · rename_i hl
      have hnm : n.deadline ≤ m.deadline := by
        simp only [hless, Bool.or_eq_true, decide_eq_true_eq, Bool.and_eq_true, beq_iff_eq] at hl
        omega
      refine List.pairwise_cons.mpr ⟨?_, h⟩
      intro b hb
      rcases List.mem_cons.mp hb with rfl | hb
      · exact hnm
      · exact Nat.le_trans hnm (h'.1 b hb)
    · rename_i hl
      have hmn : m.deadline ≤ n.deadline := by
        simp only [hless, Bool.or_eq_true, decide_eq_true_eq, Bool.and_eq_true, beq_iff_eq, not_or, not_and] at hl
        omega
      refine List.pairwise_cons.mpr ⟨?_, hinsert_sorted n ms h'.2⟩
      intro b hb
      rcases List.mem_cons.mp ((hinsert_perm n ms).mem_iff.mp hb) with rfl | hb
      · exact hmn
      · exact h'.1 b hb

theorem filter_hinsert_false (p : HNode → Bool) (n : HNode) (hp : p n = false) : ∀ l,
    (hinsert n l).filter p = l.filter p
  | [] => by simp [hinsert, hp]
  | m :: ms => by
    simp only [hinsert]
    split
    · simp [List.filter_cons, hp]
    · simp only [List.filter_cons, filter_hinsert_false p n hp ms]

def hdue (now : Nat) (n : HNode) : Bool := decide (n.deadline ≤ now)
def hlive (canc : List Nat) (n : HNode) : Bool := decide (n.id ∉ canc)
def hrearm (now : Nat) (n : HNode) : HNode := { n with deadline := now + n.period }

theorem sorted_head_not_due {now : Nat} {n : HNode} {rest : List HNode} (hs : HSorted (n :: rest)) (hn : now < n.deadline) :
    ∀ m ∈ n :: rest, hdue now m = false := by
  intro m hm
  have := List.pairwise_cons.mp hs
  simp only [hdue, decide_eq_false_iff_not]
  rcases List.mem_cons.mp hm with rfl | hm
  · omega
  · have := this.1 m hm; omega

namespace HS

/-- closed form of the loop of `trigger(now)` on a sorted heap whose ids are all ≤ maxId -/
theorem triggerLoop_spec (now maxId : Nat) : ∀ (fuel : Nat) (s : HS) (acc : List (Nat × Nat)), HSorted s.heap →
    (∀ n ∈ s.heap, n.id ≤ maxId) → (s.heap.filter (hdue now)).length < fuel →
    ∃ s', triggerLoop now maxId fuel s acc =
        some (s', acc ++ (s.heap.filter (fun n => hdue now n && hlive s.f.cancelled n)).map (fun n => (n.id, n.deadline))) ∧
      s'.now = s.now ∧ s'.f.cancelled = s.f.cancelled ∧ s'.f.addQ = s.f.addQ ∧ s'.f.delQ = s.f.delQ ∧
      s'.f.nextId = s.f.nextId ∧ (s'.f.log = s.f.log ∧ s'.f.dues = s.f.dues) ∧
      s'.heap.Perm (s.heap.filter (fun n => !hdue now n) ++
        (s.heap.filter (fun n => hdue now n && hlive s.f.cancelled n && decide (n.period > 0))).map (hrearm now)) ∧
      HSorted s'.heap ∧
      s'.f.refer = s.f.refer.filter (fun i =>
        !((s.heap.filter (fun n => hdue now n && hlive s.f.cancelled n && decide (n.period = 0))).map (·.id)).contains i) := by
  intro fuel
  induction fuel with
  | zero => intro s acc _ _ hf; omega
  | succ fuel ih =>
    intro s acc hs hid hf
    have ht : ∀ l : List Nat, l.filter (fun _ => true) = l := fun l => List.filter_eq_self.mpr (fun _ _ => rfl)
    cases hh : s.heap with
    | nil =>
      refine ⟨s, ?_, rfl, rfl, rfl, rfl, rfl, ⟨rfl, rfl⟩, ?_, ?_, ?_⟩
      · simp [triggerLoop, hh]
      · simp [hh]
      · rw [hh]; exact List.Pairwise.nil
      · simp [ht]
    | cons n rest =>
      rw [hh] at hs hid hf
      by_cases hnd : now < n.deadline
      · have hall := sorted_head_not_due hs hnd
        have e1 : (n :: rest).filter (fun n => hdue now n && hlive s.f.cancelled n) = [] :=
          List.filter_eq_nil_iff.mpr (fun m hm => by simp [hall m hm])
        have e2 : (n :: rest).filter (fun n => hdue now n && hlive s.f.cancelled n && decide (n.period > 0)) = [] :=
          List.filter_eq_nil_iff.mpr (fun m hm => by simp [hall m hm])
        have e3 : (n :: rest).filter (fun n => hdue now n && hlive s.f.cancelled n && decide (n.period = 0)) = [] :=
          List.filter_eq_nil_iff.mpr (fun m hm => by simp [hall m hm])
        have e4 : (n :: rest).filter (fun n => !hdue now n) = n :: rest :=
          List.filter_eq_self.mpr (fun m hm => by simp [hall m hm])
        refine ⟨s, ?_, rfl, rfl, rfl, rfl, rfl, ⟨rfl, rfl⟩, ?_, ?_, ?_⟩
        · simp [triggerLoop, hh, hnd, e1]
        · rw [e2, e4, hh]; simp
        · rw [hh]; exact hs
        · rw [e3]; simp [ht]
      · have hdn : hdue now n = true := by simp only [hdue, decide_eq_true_eq]; omega
        have hidn : ¬ n.id > maxId := by have := hid n (List.mem_cons_self ..); omega
        have hs' := (List.pairwise_cons.mp hs).2
        have hid' : ∀ m ∈ rest, m.id ≤ maxId := fun m hm => hid m (List.mem_cons_of_mem _ hm)
        have hf' : (rest.filter (hdue now)).length < fuel := by
          simp only [List.filter_cons, hdn, if_true, List.length_cons] at hf; omega
        by_cases hc : n.id ∈ s.f.cancelled
        · have hln : hlive s.f.cancelled n = false := by simp [hlive, hc]
          obtain ⟨s', r0, r1, r2, r3, r4, r5, r6, r7, r8, r9⟩ := ih { s with heap := rest } acc hs' hid' hf'
          refine ⟨s', ?_, r1, r2, r3, r4, r5, r6, ?_, r8, ?_⟩
          · simp only [triggerLoop, hh, hnd, if_false, hidn, hc, if_true]
            rw [r0]; simp [hdn, hln]
          · simp only [List.filter_cons, hdn, hln]; simpa using r7
          · simp only [List.filter_cons, hdn, hln]; simpa using r9
        · have hln : hlive s.f.cancelled n = true := by simp [hlive, hc]
          by_cases hp : n.period > 0
          · have hnp : hdue now (hrearm now n) = false := by
              have : ¬ (now + n.period ≤ now) := by omega
              show decide (now + n.period ≤ now) = false
              exact decide_eq_false this
            have hnp' : (fun m => hdue now m && hlive s.f.cancelled m) (hrearm now n) = false := by simp [hnp]
            have hs1 : HSorted (hinsert (hrearm now n) rest) := hinsert_sorted _ _ hs'
            have hid1 : ∀ m ∈ hinsert (hrearm now n) rest, m.id ≤ maxId := by
              intro m hm
              rcases List.mem_cons.mp ((hinsert_perm _ _).mem_iff.mp hm) with rfl | hm
              · exact hid n (List.mem_cons_self ..)
              · exact hid' m hm
            have hf1 : ((hinsert (hrearm now n) rest).filter (hdue now)).length < fuel := by
              rw [filter_hinsert_false _ _ hnp]; exact hf'
            obtain ⟨s', r0, r1, r2, r3, r4, r5, r6, r7, r8, r9⟩ :=
              ih { s with heap := hinsert (hrearm now n) rest } (acc ++ [(n.id, n.deadline)]) hs1 hid1 hf1
            have hp0 : ¬ n.period = 0 := by omega
            refine ⟨s', ?_, r1, r2, r3, r4, r5, r6, ?_, r8, ?_⟩
            · simp only [triggerLoop, hh, hnd, if_false, hidn, hc, hp, if_true]
              show triggerLoop now maxId fuel { s with heap := hinsert (hrearm now n) rest } (acc ++ [(n.id, n.deadline)]) = _
              rw [r0]
              rw [filter_hinsert_false (fun m => hdue now m && hlive s.f.cancelled m) _ hnp']
              simp [hdn, hln]
            · refine r7.trans ?_
              simp only
              have hq : (fun m => hdue now m && hlive s.f.cancelled m && decide (m.period > 0)) (hrearm now n) = false := by
                simp [hnp]
              rw [filter_hinsert_false (fun m => hdue now m && hlive s.f.cancelled m && decide (m.period > 0)) _ hq]
              have hperm : ((hinsert (hrearm now n) rest).filter (fun m => !hdue now m)).Perm
                  (hrearm now n :: rest.filter (fun m => !hdue now m)) := by
                have := (hinsert_perm (hrearm now n) rest).filter (fun m => !hdue now m)
                simpa [List.filter_cons, hnp] using this
              simp only [List.filter_cons, hdn, hln, hp, decide_true, Bool.and_self, Bool.not_true, Bool.false_eq_true,
                if_false, if_true, List.map_cons]
              exact (hperm.append_right _).trans List.perm_middle.symm
            · rw [r9]
              simp only
              have hq : (fun m => hdue now m && hlive s.f.cancelled m && decide (m.period = 0)) (hrearm now n) = false := by
                simp [hnp]
              rw [filter_hinsert_false (fun m => hdue now m && hlive s.f.cancelled m && decide (m.period = 0)) _ hq]
              simp [hdn, hln, hp0]
          · have hp0 : n.period = 0 := by omega
            obtain ⟨s', r0, r1, r2, r3, r4, r5, r6, r7, r8, r9⟩ :=
              ih { s with heap := rest, f := s.f.drop n.id } (acc ++ [(n.id, n.deadline)]) hs' hid' hf'
            refine ⟨s', ?_, r1, r2, r3, r4, r5, r6, ?_, r8, ?_⟩
            · simp only [triggerLoop, hh, hnd, if_false, hidn, hc, hp]
              show triggerLoop now maxId fuel { s with heap := rest, f := s.f.drop n.id } (acc ++ [(n.id, n.deadline)]) = _
              rw [r0]
              simp [hdn, hln, Front.drop]
            · simp only [List.filter_cons, hdn, hln, hp]; simpa [Front.drop] using r7
            · rw [r9]
              simp only [Front.drop, List.filter_cons, hdn, hln, hp0, decide_true, Bool.and_self, if_true, List.map_cons,
                List.filter_filter]
              apply List.filter_congr
              intro i _
              by_cases hi : i = n.id <;> simp [hi]

end HS
end Fatchoy.C05
