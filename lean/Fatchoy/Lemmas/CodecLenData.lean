/-
The length-prefixed pair `WriteLenData` / `ReadLenData` (codec.go): what the writer emits and
returns, the round trip for every payload of 0..65532 bytes, truncation.
-/
import Fatchoy.Lemmas.CodecC02
namespace Fatchoy.Codec


/-- what `WriteLenData` does: up to 65532 data bytes are written as a 2-byte big-endian length
    (counting itself) followed by the data, in two `Write` calls, and the value returned is
    `len(data) + ldRetAdd`; anything longer is refused without a byte -/
theorem writeLenData_spec (P : Params) (hv : ValidLd P) (data : Bytes) :
    (data.length ≤ 65532 →
      (writeLenData P data).writes = [bePut 2 (data.length + 2), data] ∧
      (writeLenData P data).ret = .ok (data.length + P.ldRetAdd) ∧
      (writeLenData P data).bytes.length = data.length + 2) ∧
    (data.length > 65532 → (writeLenData P data).writes = [] ∧ (writeLenData P data).ret = .error .overflow) := by
  obtain ⟨_, _, _, _, hadd, hhdr, hhi⟩ := hv
  unfold writeLenData
  simp only [hadd, hhdr, hhi]
  refine ⟨fun h => ?_, fun h => ?_⟩
  · have : ¬ data.length + 2 > 65534 := by omega
    simp only [this, if_false]
    exact ⟨trivial, trivial, by simp [LdWr.bytes, bePut_length]; omega⟩
  · have : data.length + 2 > 65534 := by omega
    simp only [this, if_true]
    exact ⟨trivial, trivial⟩

/-- a header + data as `ReadLenData` reads them: any stream that starts with a 2-byte prefix `n >= 2`
    followed by at least `n - 2` bytes -/
theorem readLenData_ok (P : Params) (hv : ValidLd P) {cs : Chunks} {hdr data tail : Bytes}
    (hl : hdr.length = 2) (hn : beGet hdr = data.length + 2) (hcs : flat cs = hdr ++ (data ++ tail)) :
    (readLenData P cs).res = .ok data ∧ flat (readLenData P cs).rest = tail ∧
    (readLenData P cs).alloc = [data.length] ∧ (readLenData P cs).awaited = [2, data.length] := by
  obtain ⟨hh, hb, hsub, hlo, _, _, _⟩ := hv
  have hlt : beGet hdr < 2 ^ 16 := by
    have := beGet_lt hdr; rw [hl] at this; simpa using this
  obtain ⟨r1, r2⟩ := readFull_ok hcs hl
  unfold readLenData
  rw [hh, hb, hsub]
  rcases hrf : readFull 2 cs with ⟨x1, x2⟩
  rw [hrf] at r1 r2
  simp only at r1 r2
  subst r1
  have hg : ¬ beGet hdr < P.ldReadLo := by omega
  have hsw : subWrap 16 (beGet hdr) 2 = data.length := by rw [subWrap_eq (by omega) hlt]; omega
  simp only [hg, if_false, hsw]
  obtain ⟨q1, q2⟩ := readFull_ok r2 rfl
  rcases hrf2 : readFull data.length x2 with ⟨y1, y2⟩
  rw [hrf2] at q1 q2
  simp only at q1 q2
  subst q1
  exact ⟨rfl, q2, rfl, rfl⟩

/-- round trip of the length-prefixed pair for every payload of 0..65532 bytes, any chunking, anything following -/
theorem lendata_roundtrip (P : Params) (hv : ValidLd P) (data tail : Bytes) (h : data.length ≤ 65532) (cs : Chunks)
    (hcs : flat cs = (writeLenData P data).bytes ++ tail) :
    (readLenData P cs).res = .ok data ∧ flat (readLenData P cs).rest = tail := by
  have hw := ((writeLenData_spec P hv data).1 h).1
  simp only [LdWr.bytes, hw, List.flatten_cons, List.flatten_nil, List.append_nil] at hcs
  have := readLenData_ok P hv (hdr := bePut 2 (data.length + 2)) (data := data) (tail := tail) (cs := cs)
    (bePut_length 2 _) (beGet_bePut_of_lt (by omega)) (by rw [hcs, List.append_assoc])
  exact ⟨this.1, this.2.1⟩

/-- a length-prefixed record cut at any offset before its end is answered with an error -/
theorem lendata_truncated (P : Params) (hv : ValidLd P) (data : Bytes) (h : data.length ≤ 65532) (k : Nat)
    (hk : k < data.length + 2) (cs : Chunks) (hcs : flat cs = (writeLenData P data).bytes.take k) :
    (readLenData P cs).res = .error .eof ∨ (readLenData P cs).res = .error .short := by
  have hw := ((writeLenData_spec P hv data).1 h).1
  simp only [LdWr.bytes, hw, List.flatten_cons, List.flatten_nil, List.append_nil] at hcs
  obtain ⟨hh, hb, hsub, hlo, _, _, _⟩ := hv
  unfold readLenData
  rw [hh, hb, hsub]
  by_cases hsh : k < 2
  · have hlen : (flat cs).length < 2 := by
      rw [hcs, List.length_take, List.length_append, bePut_length]; omega
    obtain ⟨r1, _⟩ := readFull_err hlen
    rcases hrf : readFull 2 cs with ⟨x1, x2⟩
    rw [hrf] at r1; simp only at r1; subst r1
    by_cases hz : (flat cs).length = 0 <;> simp [hz]
  · have htk : (bePut 2 (data.length + 2) ++ data).take k = bePut 2 (data.length + 2) ++ data.take (k - 2) := by
      rw [List.take_append, bePut_length, List.take_of_length_le (by rw [bePut_length]; omega)]
    rw [htk] at hcs
    obtain ⟨r1, r2⟩ := readFull_ok hcs (bePut_length 2 _)
    rcases hrf : readFull 2 cs with ⟨x1, x2⟩
    rw [hrf] at r1 r2; simp only at r1 r2; subst r1
    have hg : ¬ beGet (bePut 2 (data.length + 2)) < P.ldReadLo := by
      rw [beGet_bePut_of_lt (by omega)]; omega
    have hsw : subWrap 16 (beGet (bePut 2 (data.length + 2))) 2 = data.length := by
      rw [beGet_bePut_of_lt (by omega), subWrap_eq (by omega) (by omega)]; omega
    simp only [hg, if_false, hsw]
    have hlen : (flat x2).length < data.length := by rw [r2, List.length_take]; omega
    obtain ⟨q1, _⟩ := readFull_err hlen
    rcases hrf2 : readFull data.length x2 with ⟨y1, y2⟩
    rw [hrf2] at q1; simp only at q1; subst q1
    by_cases hz : (flat x2).length = 0 <;> simp [hz]


end Fatchoy.Codec
