/-
Invariants of the connection LTS (Model/Conn.lean), proved for every reachable state.
Layer 1 (`Inv1`): the shared fields are a function of where the elected closer is (`phaseOf`), there is at
most one elected closer, the WaitGroup counts the running pumps.
-/
import Fatchoy.Model.Conn
namespace Fatchoy.Conn

/-- what the shared fields are while the elected closer is at a given pc -/
structure Phase where
  st : St
  readShut : Bool
  done : Bool
  offered : Nat
  gone : Bool      -- wg.Wait has returned: both pumps have exited
  writeShut : Bool
  ochan : Chan
  cleared : Bool

def phaseOf (g : Bool) : WinPc → Phase
  | .unlock    => ⟨.shutdown, false, false, 0, false, false, .open, false⟩
  | .closeRead => ⟨.shutdown, false, false, 0, false, false, .open, false⟩
  | .closeDone => ⟨.shutdown, !g, false, 0, false, false, .open, false⟩
  | .setDl     => ⟨.shutdown, !g, true, 0, false, false, .open, false⟩
  | .notify    => ⟨.shutdown, !g, true, 0, false, false, .open, false⟩
  | .spawn     => ⟨.shutdown, !g, true, 1, false, false, .open, false⟩
  | .wait      => ⟨.shutdown, !g, true, 1, false, false, .open, false⟩
  | .shutWrite => ⟨.shutdown, !g, true, 1, true, false, .open, false⟩
  | .setTerm   => ⟨.shutdown, !g, true, 1, true, true, .open, false⟩
  | .closeOut  => ⟨.terminated, !g, true, 1, true, true, .open, false⟩
  | .clear     => ⟨.terminated, !g, true, 1, true, true, .closed, false⟩
  | .finished  => ⟨.terminated, !g, true, 1, true, true, .nil, true⟩
  | .dead      => ⟨.terminated, !g, true, 1, true, true, .nil, true⟩

/-- which pcs belong to which path: CloseRead and the detached finally are ForceClose's, the deadline is Close's -/
def pathOk (g : Bool) : WinPc → Bool
  | .closeRead => !g | .spawn => !g | .setDl => g | _ => true

def wcount : WPc → Nat
  | .idle => 0 | .exited => 0 | _ => 1
def rcount : RPc → Nat
  | .idle => 0 | .exited => 0 | _ => 1

structure Inv1 (s : State) : Prop where
  noDup : s.dupWin = false
  none_ : s.win = none → (s.st = .init ∨ s.st = .running) ∧ s.readShut = false ∧ s.done = false ∧
    s.offered = [] ∧ s.writeShut = false ∧ s.ochan = .open ∧ s.cleared = false
  some_ : ∀ w, s.win = some w → (w.pc ≠ .dead ∧ pathOk w.graceful w.pc = true) ∧ s.st = (phaseOf w.graceful w.pc).st ∧ s.readShut = (phaseOf w.graceful w.pc).readShut ∧
    s.done = (phaseOf w.graceful w.pc).done ∧ s.offered = List.replicate (phaseOf w.graceful w.pc).offered w.err ∧
    ((phaseOf w.graceful w.pc).gone = true → s.w = .exited ∧ s.r = .exited) ∧
    s.writeShut = (phaseOf w.graceful w.pc).writeShut ∧ s.ochan = (phaseOf w.graceful w.pc).ochan ∧ s.cleared = (phaseOf w.graceful w.pc).cleared
  init_ : s.st = .init → s.w = .idle ∧ s.r = .idle
  started : s.st ≠ .init → s.w ≠ .idle ∧ s.r ≠ .idle
  wg_ : s.wg = wcount s.w + rcount s.r

theorem inv1_init (cfg : Cfg) : Inv1 (init cfg) := by
  constructor <;> simp [init, wcount, rcount]

theorem inv1_start {s s' : State} (h : Inv1 s) (hs : stepStart s = some s') : Inv1 s' := by
  unfold stepStart at hs
  split at hs
  · next hst =>
    injection hs with hs; subst hs
    obtain ⟨h1, h2, h3, h4, h5, h6⟩ := h
    have := h4 hst
    constructor <;> simp_all [wcount, rcount]
    intro w hw
    have := (h3 w hw).2.1
    cases hp : w.pc <;> simp_all [phaseOf]
  · injection hs with hs; subst hs
    obtain ⟨h1, h2, h3, h4, h5, h6⟩ := h
    constructor <;> simp_all

theorem inv1_win {cfg : Cfg} {s s' : State} (h : Inv1 s) (hs : stepWin cfg s = some s') : Inv1 s' := by
  unfold stepWin at hs
  obtain ⟨h1, h2, h3, h4, h5, h6⟩ := h
  cases hw : s.win with
  | none => simp [hw] at hs
  | some w =>
    have hw3 := h3 w hw
    simp only [hw] at hs
    cases hp : w.pc <;> simp only [hp, setWin] at hs <;> simp only [hp, phaseOf, pathOk] at hw3
    case wait =>
      split at hs
      · next hwg =>
        injection hs with hs; subst hs
        have hst : s.st ≠ .init := by simp [hw3.2.1]
        have h5' := h5 hst
        rw [hwg] at h6
        constructor <;> simp_all [phaseOf, pathOk]
        cases hww : s.w <;> cases hrr : s.r <;> simp_all [wcount, rcount]
      · simp at hs
    all_goals (repeat' (split at hs))
    all_goals (first | (injection hs with hs; subst hs; constructor <;> simp_all [phaseOf, pathOk]) | (simp at hs))

/-- steps that leave the fields `Inv1` talks about alone -/
theorem inv1_frame {s s' : State} (h : Inv1 s) (e1 : s'.dupWin = s.dupWin) (e2 : s'.win = s.win)
    (e3 : s'.st = s.st) (e4 : s'.readShut = s.readShut) (e5 : s'.done = s.done) (e6 : s'.offered = s.offered)
    (e7 : s'.writeShut = s.writeShut) (e8 : s'.ochan = s.ochan) (e9 : s'.cleared = s.cleared)
    (e10 : s'.w = s.w) (e11 : s'.r = s.r) (e12 : s'.wg = s.wg) : Inv1 s' := by
  obtain ⟨h1, h2, h3, h4, h5, h6⟩ := h
  constructor <;> simp only [e1, e2, e3, e4, e5, e6, e7, e8, e9, e10, e11, e12] <;> assumption

theorem inv1_sendCall {s s' : State} {i : Nat} {p : Pkt} (h : Inv1 s) (hs : stepSendCall s i p = some s') : Inv1 s' := by
  unfold stepSendCall at hs
  split at hs
  · injection hs with hs; subst hs; exact inv1_frame h rfl rfl rfl rfl rfl rfl rfl rfl rfl rfl rfl rfl
  · split at hs
    · injection hs with hs; subst hs; exact inv1_frame h rfl rfl rfl rfl rfl rfl rfl rfl rfl rfl rfl rfl
    · simp at hs

theorem inv1_closeCall {s s' : State} {g : Bool} (h : Inv1 s) (hs : stepCloseCall s g = some s') : Inv1 s' := by
  unfold stepCloseCall at hs
  injection hs with hs; subst hs; exact inv1_frame h rfl rfl rfl rfl rfl rfl rfl rfl rfl rfl rfl rfl

theorem inv1_snd {cfg : Cfg} {s s' : State} {i : Nat} (h : Inv1 s) (hs : stepSnd cfg s i = some s') : Inv1 s' := by
  unfold stepSnd at hs
  repeat' (split at hs)
  all_goals (first | (injection hs with hs; subst hs; exact inv1_frame h rfl rfl rfl rfl rfl rfl rfl rfl rfl rfl rfl rfl) | (simp at hs))

/-- the election: the only step outside `stepWin`/`stepStart` that touches `st` and `win` -/
theorem inv1_elect {s s' : State} {g : Bool} {e : Err} {c c' : CPc} (h : Inv1 s)
    (hs : electStep s g e c = some (s', c')) :
    Inv1 s' ∧ s'.w = s.w ∧ s'.r = s.r ∧ s'.wg = s.wg ∧ s'.cls = s.cls ∧ s'.snd = s.snd := by
  unfold electStep at hs
  obtain ⟨h1, h2, h3, h4, h5, h6⟩ := h
  cases c <;> simp only at hs
  case lock =>
    split at hs
    · simp at hs
    · simp only [Option.some.injEq, Prod.mk.injEq] at hs; obtain ⟨rfl, _⟩ := hs
      exact ⟨⟨h1, h2, h3, h4, h5, h6⟩, rfl, rfl, rfl, rfl, rfl⟩
  case cas =>
    split at hs
    · next hrun =>
      cases hw : s.win with
      | none =>
        simp only [hw, Option.some.injEq, Prod.mk.injEq] at hs; obtain ⟨rfl, _⟩ := hs
        have := h2 hw
        refine ⟨?_, rfl, rfl, rfl, rfl, rfl⟩
        constructor <;> simp_all [phaseOf, pathOk]
      | some w =>
        have := (h3 w hw).2.1
        rw [hrun] at this
        cases hp : w.pc <;> simp [hp, phaseOf] at this
    · simp only [Option.some.injEq, Prod.mk.injEq] at hs; obtain ⟨rfl, _⟩ := hs
      exact ⟨⟨h1, h2, h3, h4, h5, h6⟩, rfl, rfl, rfl, rfl, rfl⟩
  case unlockLost =>
    simp only [Option.some.injEq, Prod.mk.injEq] at hs; obtain ⟨rfl, _⟩ := hs
    exact ⟨⟨h1, h2, h3, h4, h5, h6⟩, rfl, rfl, rfl, rfl, rfl⟩
  case won =>
    split at hs
    · split at hs
      · simp only [Option.some.injEq, Prod.mk.injEq] at hs; obtain ⟨rfl, _⟩ := hs
        exact ⟨⟨h1, h2, h3, h4, h5, h6⟩, rfl, rfl, rfl, rfl, rfl⟩
      · simp at hs
    · simp at hs
  case returned => simp at hs

theorem inv1_cls {s s' : State} {j : Nat} (h : Inv1 s) (hs : stepCls s j = some s') : Inv1 s' := by
  unfold stepCls at hs
  split at hs
  · simp at hs
  · next c hc =>
    split at hs
    · next s1 pc1 he =>
      injection hs with hs; subst hs
      obtain ⟨hi, e1, e2, e3, _, _⟩ := inv1_elect h he
      exact inv1_frame hi rfl rfl rfl rfl rfl rfl rfl rfl rfl rfl rfl rfl
    · simp at hs

theorem inv1_rClose {s s' : State} (h : Inv1 s) (hs : stepRClose s = some s') : Inv1 s' := by
  unfold stepRClose at hs
  split at hs
  · next e c hr =>
    split at hs
    · next s1 c1 he =>
      injection hs with hs; subst hs
      obtain ⟨hi, e1, e2, e3, _, _⟩ := inv1_elect h he
      obtain ⟨h1, h2, h3, h4, h5, h6⟩ := hi
      rw [hr] at e2
      have hne : s1.st ≠ .init := by
        intro h0; have := (h4 h0).2; rw [e2] at this; simp at this
      constructor
      · exact h1
      · exact h2
      · intro w hw
        have := h3 w hw
        refine ⟨this.1, this.2.1, this.2.2.1, this.2.2.2.1, this.2.2.2.2.1, ?_, this.2.2.2.2.2.2⟩
        intro hg
        have := (this.2.2.2.2.2.1 hg).2
        rw [e2] at this; simp at this
      · intro h0; exact absurd h0 hne
      · intro _
        refine ⟨(h5 hne).1, ?_⟩
        cases c1 <;> simp
      · show s1.wg = wcount s1.w + rcount _
        rw [h6, e2]
        cases c1 <;> simp [rcount]
    · simp at hs
  · simp at hs

/-- writer steps change `w` (and `wg` on exit) only -/
theorem inv1_w {s s' : State} (h : Inv1 s)
    (e1 : s'.dupWin = s.dupWin) (e2 : s'.win = s.win)
    (e3 : s'.st = s.st) (e4 : s'.readShut = s.readShut) (e5 : s'.done = s.done) (e6 : s'.offered = s.offered)
    (e7 : s'.writeShut = s.writeShut) (e8 : s'.ochan = s.ochan) (e9 : s'.cleared = s.cleared)
    (e11 : s'.r = s.r) (hw : s.w ≠ .idle ∧ s.w ≠ .exited)
    (hw' : (s'.w ≠ .idle ∧ s'.w ≠ .exited ∧ s'.wg = s.wg) ∨ (s'.w = .exited ∧ s'.wg + 1 = s.wg)) : Inv1 s' := by
  obtain ⟨h1, h2, h3, h4, h5, h6⟩ := h
  have hne : s.st ≠ .init := fun h0 => hw.1 (h4 h0).1
  have hc : wcount s.w = 1 := by cases hww : s.w <;> simp_all [wcount]
  constructor <;> simp only [e1, e2, e3, e4, e5, e6, e7, e8, e9, e11]
  · exact h1
  · exact h2
  · intro w hwin
    have := h3 w hwin
    refine ⟨this.1, this.2.1, this.2.2.1, this.2.2.2.1, this.2.2.2.2.1, ?_, this.2.2.2.2.2.2⟩
    intro hg
    exact absurd (this.2.2.2.2.2.1 hg).1 hw.2
  · intro h0; exact absurd h0 hne
  · intro _
    refine ⟨?_, (h5 hne).2⟩
    rcases hw' with ⟨a, _, _⟩ | ⟨a, _⟩
    · exact a
    · rw [a]; simp
  · rcases hw' with ⟨a, b, c⟩ | ⟨a, b⟩
    · have : wcount s'.w = 1 := by cases hww : s'.w <;> simp_all [wcount]
      omega
    · rw [a]; simp only [wcount]; omega

theorem inv1_wRecv {s s' : State} (h : Inv1 s) (hs : stepWRecv s = some s') : Inv1 s' := by
  unfold stepWRecv at hs
  repeat' (split at hs)
  all_goals (first
    | (injection hs with hs; subst hs
       exact inv1_w h rfl rfl rfl rfl rfl rfl rfl rfl rfl rfl (by simp_all) (by simp))
    | (simp at hs))

theorem inv1_wDone {s s' : State} (h : Inv1 s) (hs : stepWDone s = some s') : Inv1 s' := by
  unfold stepWDone at hs
  repeat' (split at hs)
  all_goals (first
    | (injection hs with hs; subst hs
       exact inv1_w h rfl rfl rfl rfl rfl rfl rfl rfl rfl rfl (by simp_all) (by simp))
    | (simp at hs))

theorem inv1_writeOne {s s' : State} {p : Pkt} {ok : Bool} {next : WPc} (h : Inv1 s)
    (hw : s.w ≠ .idle ∧ s.w ≠ .exited) (hn : next ≠ .idle ∧ next ≠ .exited)
    (hs : writeOne s p ok next = some s') : Inv1 s' := by
  unfold writeOne at hs
  repeat' (split at hs)
  all_goals (first
    | (injection hs with hs; subst hs
       exact inv1_w h rfl rfl rfl rfl rfl rfl rfl rfl rfl rfl hw (Or.inl ⟨hn.1, hn.2, rfl⟩))
    | (simp at hs))

theorem inv1_wWrite {s s' : State} {ok : Bool} (h : Inv1 s) (hs : stepWWrite s ok = some s') : Inv1 s' := by
  unfold stepWWrite at hs
  split at hs
  · next p hw => exact inv1_writeOne h (by simp [hw]) (by simp) hs
  · next p hw => exact inv1_writeOne h (by simp [hw]) (by simp) hs
  · simp at hs

theorem inv1_wFlush {s s' : State} (h : Inv1 s) (hs : stepWFlush s = some s') : Inv1 s' := by
  unfold stepWFlush at hs
  repeat' (split at hs)
  all_goals (first
    | (injection hs with hs; subst hs
       exact inv1_w h rfl rfl rfl rfl rfl rfl rfl rfl rfl rfl (by simp_all) (by simp))
    | (simp at hs))

theorem inv1_wWgDone {s s' : State} (h : Inv1 s) (hs : stepWWgDone s = some s') : Inv1 s' := by
  unfold stepWWgDone at hs
  split at hs
  · next hw =>
    have h6 := h.wg_
    split at hs
    · next h0 => rw [hw] at h6; simp [wcount] at h6; omega
    · next h0 =>
      injection hs with hs; subst hs
      exact inv1_w h rfl rfl rfl rfl rfl rfl rfl rfl rfl rfl (by simp [hw]) (Or.inr ⟨rfl, by simp; omega⟩)
  · simp at hs

/-- reader steps change `r` (and `wg` on exit) only -/
theorem inv1_r {s s' : State} (h : Inv1 s)
    (e1 : s'.dupWin = s.dupWin) (e2 : s'.win = s.win)
    (e3 : s'.st = s.st) (e4 : s'.readShut = s.readShut) (e5 : s'.done = s.done) (e6 : s'.offered = s.offered)
    (e7 : s'.writeShut = s.writeShut) (e8 : s'.ochan = s.ochan) (e9 : s'.cleared = s.cleared)
    (e10 : s'.w = s.w) (hr : s.r ≠ .idle ∧ s.r ≠ .exited)
    (hr' : (s'.r ≠ .idle ∧ s'.r ≠ .exited ∧ s'.wg = s.wg) ∨ (s'.r = .exited ∧ s'.wg + 1 = s.wg)) : Inv1 s' := by
  obtain ⟨h1, h2, h3, h4, h5, h6⟩ := h
  have hne : s.st ≠ .init := fun h0 => hr.1 (h4 h0).2
  have hc : rcount s.r = 1 := by cases hrr : s.r <;> simp_all [rcount]
  constructor <;> simp only [e1, e2, e3, e4, e5, e6, e7, e8, e9, e10]
  · exact h1
  · exact h2
  · intro w hwin
    have := h3 w hwin
    refine ⟨this.1, this.2.1, this.2.2.1, this.2.2.2.1, this.2.2.2.2.1, ?_, this.2.2.2.2.2.2⟩
    intro hg
    exact absurd (this.2.2.2.2.2.1 hg).2 hr.2
  · intro h0; exact absurd h0 hne
  · intro _
    refine ⟨(h5 hne).1, ?_⟩
    rcases hr' with ⟨a, _, _⟩ | ⟨a, _⟩
    · exact a
    · rw [a]; simp
  · rcases hr' with ⟨a, b, c⟩ | ⟨a, b⟩
    · have : rcount s'.r = 1 := by cases hrr : s'.r <;> simp_all [rcount]
      omega
    · rw [a]; simp only [rcount]; omega

macro "inv1_reader" h:ident hs:ident : tactic => `(tactic| (
  repeat' (split at $hs:ident)
  all_goals (first
    | (injection $hs:ident with $hs:ident; subst $hs:ident
       exact inv1_r $h rfl rfl rfl rfl rfl rfl rfl rfl rfl rfl (by simp_all) (by simp))
    | (simp at $hs:ident))))

theorem inv1_rArm {s s' : State} (h : Inv1 s) (hs : stepRArm s = some s') : Inv1 s' := by
  unfold stepRArm at hs; inv1_reader h hs
theorem inv1_rChk {s s' : State} (h : Inv1 s) (hs : stepRChk s = some s') : Inv1 s' := by
  unfold stepRChk at hs
  split at hs
  · next hr =>
    injection hs with hs; subst hs
    exact inv1_r h rfl rfl rfl rfl rfl rfl rfl rfl rfl rfl (by simp [hr]) (by simp; split <;> simp)
  · simp at hs
theorem inv1_rFrame {s s' : State} (h : Inv1 s) (hs : stepRFrame s = some s') : Inv1 s' := by
  unfold stepRFrame at hs; inv1_reader h hs
theorem inv1_rErr {s s' : State} {eof : Bool} (h : Inv1 s) (hs : stepRErr s eof = some s') : Inv1 s' := by
  unfold stepRErr at hs; inv1_reader h hs
theorem inv1_rTimeout {s s' : State} (h : Inv1 s) (hs : stepRTimeout s = some s') : Inv1 s' := by
  unfold stepRTimeout at hs; inv1_reader h hs
theorem inv1_rPush {cfg : Cfg} {s s' : State} (h : Inv1 s) (hs : stepRPush cfg s = some s') : Inv1 s' := by
  unfold stepRPush at hs; inv1_reader h hs
theorem inv1_rDrop {s s' : State} (h : Inv1 s) (hs : stepRDrop s = some s') : Inv1 s' := by
  unfold stepRDrop at hs; inv1_reader h hs
theorem inv1_rCheck {s s' : State} (h : Inv1 s) (hs : stepRCheck s = some s') : Inv1 s' := by
  unfold stepRCheck at hs
  split at hs
  · next hr =>
    injection hs with hs; subst hs
    exact inv1_r h rfl rfl rfl rfl rfl rfl rfl rfl rfl rfl (by simp [hr]) (by simp; split <;> simp)
  · simp at hs

/-- a reader in `reading` with the fields cleared is unreachable: clearing happens after both pumps exited -/
theorem inv1_rNil {s s' : State} (h : Inv1 s) (hs : stepRNil s = some s') : Inv1 s' := by
  unfold stepRNil at hs
  split at hs
  · next hr =>
    split at hs
    · next hc =>
      exfalso
      cases hw : s.win with
      | none => have := (h.none_ hw).2.2.2.2.2.2; simp [hc] at this
      | some w =>
        have h3 := h.some_ w hw
        have hcl := h3.2.2.2.2.2.2.2.2
        rw [hc] at hcl
        have hg : (phaseOf w.graceful w.pc).gone = true := by
          cases hp : w.pc <;> simp [hp, phaseOf] at hcl ⊢
        have := (h3.2.2.2.2.2.1 hg).2
        rw [hr] at this; simp at this
    · simp at hs
  · simp at hs

theorem inv1_rWgDone {s s' : State} (h : Inv1 s) (hs : stepRWgDone s = some s') : Inv1 s' := by
  unfold stepRWgDone at hs
  split at hs
  · next hr =>
    have h6 := h.wg_
    split at hs
    · next h0 => rw [hr] at h6; simp [rcount] at h6; omega
    · next h0 =>
      injection hs with hs; subst hs
      exact inv1_r h rfl rfl rfl rfl rfl rfl rfl rfl rfl rfl (by simp [hr]) (Or.inr ⟨rfl, by simp; omega⟩)
  · simp at hs

theorem inv1_step {cfg : Cfg} {s s' : State} (a : Action) (h : Inv1 s) (hs : step cfg s a = some s') : Inv1 s' := by
  cases a <;> simp only [step] at hs
  case start => exact inv1_start h hs
  case sendCall => exact inv1_sendCall h hs
  case closeCall => exact inv1_closeCall h hs
  case peerSend =>
    unfold stepPeerSend at hs; injection hs with hs; subst hs
    exact inv1_frame h rfl rfl rfl rfl rfl rfl rfl rfl rfl rfl rfl rfl
  case inbCall => injection hs with hs; subst hs; exact inv1_frame h rfl rfl rfl rfl rfl rfl rfl rfl rfl rfl rfl rfl
  case errCall => injection hs with hs; subst hs; exact inv1_frame h rfl rfl rfl rfl rfl rfl rfl rfl rfl rfl rfl rfl
  case rTimeout => exact inv1_rTimeout h hs
  case snd => exact inv1_snd h hs
  case cls => exact inv1_cls h hs
  case win => exact inv1_win h hs
  case wRecv => exact inv1_wRecv h hs
  case wDone => exact inv1_wDone h hs
  case wWrite => exact inv1_wWrite h hs
  case wFlush => exact inv1_wFlush h hs
  case wWgDone => exact inv1_wWgDone h hs
  case rArm => exact inv1_rArm h hs
  case rChk => exact inv1_rChk h hs
  case rFrame => exact inv1_rFrame h hs
  case rErr => exact inv1_rErr h hs
  case rNil => exact inv1_rNil h hs
  case rPush => exact inv1_rPush h hs
  case rDrop => exact inv1_rDrop h hs
  case rCheck => exact inv1_rCheck h hs
  case rClose => exact inv1_rClose h hs
  case rWgDone => exact inv1_rWgDone h hs
  case inbPop =>
    unfold stepInbPop at hs
    split at hs
    · injection hs with hs; subst hs; exact inv1_frame h rfl rfl rfl rfl rfl rfl rfl rfl rfl rfl rfl rfl
    · simp at hs
  case errPop =>
    unfold stepErrPop at hs
    split at hs
    · injection hs with hs; subst hs; exact inv1_frame h rfl rfl rfl rfl rfl rfl rfl rfl rfl rfl rfl rfl
    · simp at hs

theorem inv1_reachable {cfg : Cfg} {s : State} (h : Reachable cfg s) : Inv1 s := by
  induction h with
  | init => exact inv1_init cfg
  | step a _ hs ih => exact inv1_step a ih hs

end Fatchoy.Conn
