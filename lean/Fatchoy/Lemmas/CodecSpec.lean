/-
Specification-level definitions used in the statements of C01/C02 (`Env.Lawful`, `decodedBody`) and
the body lemma: `unmarshalPacketBody` undoes `marshalPacketBody` for a lawful environment.
-/
import Fatchoy.Lemmas.CodecHeader
namespace Fatchoy.Codec
open Fatchoy.Crc32
set_option linter.unusedSimpArgs false


/-- what the theorems assume of zlib and of the cipher pair (hypotheses, discharged by instantiation) -/
structure Env.Lawful (e : Env) : Prop where
  /-- compression succeeds, never yields an empty string, and decompression undoes it -/
  cmp : ∀ b, ∃ z, e.compress b = some z ∧ z ≠ [] ∧ e.decompress z = some b
  /-- an encryptor comes with the decryptor that undoes it -/
  dec_enc : ∀ f, e.enc = some f → ∃ g, e.dec = some g ∧ ∀ b, g (f b) = b
  /-- the cipher preserves length -/
  enc_len : ∀ f, e.enc = some f → ∀ b, (f b).length = b.length

/-- the body a decoder hands over for the plain body bytes `b` under flag `flag` -/
def decodedBody (P : Params) (e : Env) (flag : BitVec 8) (b : Bytes) : Body :=
  if b = [] then .absent
  else if flag &&& bit8 P.flagError ≠ 0 then .int (e.varint b)
  else .bytes b

theorem flag_facts : ∀ f : BitVec 8, f &&& 3#8 = 0#8 →
    (f &&& 2#8 = 0#8) ∧ (f &&& 1#8 = 0#8) ∧ ((f ||| 1#8) &&& 2#8 = 0#8) ∧ ((f ||| 1#8) &&& 1#8 ≠ 0#8) ∧
    ((f ||| 1#8) &&& 254#8 = f) ∧ ((f ||| 2#8) &&& 2#8 ≠ 0#8) ∧ ((f ||| 2#8) &&& 253#8 = f) ∧
    (((f ||| 1#8) ||| 2#8) &&& 2#8 ≠ 0#8) ∧ (((f ||| 1#8) ||| 2#8) &&& 253#8 = f ||| 1#8) := by decide

theorem bit8_1 : bit8 1 = 1#8 := rfl
theorem bit8_2 : bit8 2 = 2#8 := rfl
theorem bit8_16 : bit8 16 = 16#8 := rfl

theorem unmarshal_marshal {P : Params} {e : Env} {p p' : Pkt} {b w : Bytes}
    (hf : ValidFlags P) (hl : e.Lawful) (wf : p.flag &&& 3#8 = 0#8)
    (hb : bodyToBytes P e p.body = some b) (hm : marshalBody P e p = .ok (w, p')) (q : Pkt) :
    p' = { p with flag := p'.flag } ∧ (w = [] ↔ b = []) ∧ (w = [] → p'.flag = p.flag) ∧
    (w ≠ [] → unmarshalBody P e w { q with flag := p'.flag } =
      .ok { q with flag := p.flag, body := decodedBody P e p.flag b }) := by
  obtain ⟨hc, he, her, _⟩ := hf
  obtain ⟨f1, f2, f3, f4, f5, f6, f7, f8, f9⟩ := flag_facts p.flag wf
  unfold marshalBody at hm
  rw [hb] at hm
  simp only [hc, he, bit8_1, bit8_2] at hm
  by_cases hthr : e.threshold > 0 ∧ b.length > e.threshold
  · -- compressed
    obtain ⟨z, hz, hzne, hunz⟩ := hl.cmp b
    have hbne : b ≠ [] := by intro h; rw [h] at hthr; simp at hthr
    simp only [hthr, and_self, if_true, hz] at hm
    cases henc : e.enc with
    | none =>
      simp only [henc] at hm
      injection hm with hm; injection hm with hw hp; subst hw; subst hp
      refine ⟨rfl, by simp [hzne, hbne], fun h => absurd h hzne, fun _ => ?_⟩
      simp [unmarshalBody, decompressStep, finishBody, hc, he, her, bit8_1, bit8_2, bit8_16, f3, f4, f5, hunz, decodedBody, hbne]
      try (split <;> rfl)
    | some f =>
      obtain ⟨g, hg, hgf⟩ := hl.dec_enc f henc
      have hlen := hl.enc_len f henc z
      have hzl : z.length > 0 := List.length_pos_iff.mpr hzne
      simp only [henc, hzl, if_true] at hm
      injection hm with hm; injection hm with hw hp; subst hw; subst hp
      have hfz : f z ≠ [] := by intro h; rw [h] at hlen; simp at hlen; omega
      refine ⟨rfl, by simp [hfz, hbne], fun h => absurd h hfz, fun _ => ?_⟩
      simp [unmarshalBody, decompressStep, finishBody, hc, he, her, bit8_1, bit8_2, bit8_16, f8, f9, f4, f5, hg, hgf, hunz, decodedBody, hbne]
      try (split <;> rfl)
  · simp only [hthr, if_false] at hm
    cases henc : e.enc with
    | none =>
      simp only [henc] at hm
      injection hm with hm; injection hm with hw hp; subst hw; subst hp
      refine ⟨rfl, Iff.rfl, fun _ => rfl, fun hne => ?_⟩
      simp [unmarshalBody, decompressStep, finishBody, hc, he, her, bit8_1, bit8_2, bit8_16, f1, f2, decodedBody, hne]
      try (split <;> rfl)
    | some f =>
      obtain ⟨g, hg, hgf⟩ := hl.dec_enc f henc
      have hlen := hl.enc_len f henc b
      simp only [henc] at hm
      by_cases hbl : b.length > 0
      · simp only [hbl, if_true] at hm
        injection hm with hm; injection hm with hw hp; subst hw; subst hp
        have hbne : b ≠ [] := List.length_pos_iff.mp hbl
        have hfb : f b ≠ [] := by intro h; rw [h] at hlen; simp at hlen; omega
        refine ⟨rfl, by simp [hfb, hbne], fun h => absurd h hfb, fun _ => ?_⟩
        simp [unmarshalBody, decompressStep, finishBody, hc, he, her, bit8_1, bit8_2, bit8_16, f6, f7, f2, hg, hgf, decodedBody, hbne]
        try (split <;> rfl)
      try (split <;> rfl)
      · simp only [hbl, if_false] at hm
        injection hm with hm; injection hm with hw hp; subst hw; subst hp
        have : b = [] := by cases b with | nil => rfl | cons _ _ => simp at hbl
        refine ⟨rfl, Iff.rfl, fun _ => rfl, fun hne => absurd this hne⟩


end Fatchoy.Codec
