/-
Encoder lemmas of the codec model: for the two documented layouts `WritePacket` hands the writer
exactly the documented header (then the references) and the marshalled body, or refuses.
-/
import Fatchoy.Lemmas.CodecFrame
namespace Fatchoy.Codec
open Fatchoy.Crc32
set_option linter.unusedSimpArgs false


/-- the documented V1 header of packet `p` (flag byte `p.flag`) in front of wire body `w` -/
def hdrV1 (p : Pkt) (w : Bytes) : Bytes :=
  preV1 (14 + w.length) p.typ.toNat p.flag.toNat p.seq.toNat p.cmd.toNat ++
    bePut 4 (frameCrc (preV1 (14 + w.length) p.typ.toNat p.flag.toNat p.seq.toNat p.cmd.toNat) [] w)

/-- the documented V2 header of packet `p` in front of its references and wire body `w` -/
def hdrV2 (p : Pkt) (w : Bytes) : Bytes :=
  preV2 (20 + p.refs.length * 4 + w.length) p.typ.toNat p.flag.toNat p.refs.length p.seq.toNat p.node.toNat p.cmd.toNat ++
    bePut 4 (frameCrc (preV2 (20 + p.refs.length * 4 + w.length) p.typ.toNat p.flag.toNat p.refs.length p.seq.toNat
      p.node.toNat p.cmd.toNat) (refBytes p.refs) w)

theorem hdrV1_length (p : Pkt) (w : Bytes) : (hdrV1 p w).length = 14 := by simp [hdrV1, preV1_length, bePut_length]
theorem hdrV2_length (p : Pkt) (w : Bytes) : (hdrV2 p w).length = 20 := by simp [hdrV2, preV2_length, bePut_length]

theorem writePacket_v1 {P : Params} {F : Fmt} (hv : ValidV1 F) {e : Env} {p p' : Pkt} {w : Bytes}
    (hm : marshalBody P e p = .ok (w, p')) :
    writePacket P F e p =
      if 14 + w.length > F.max then ⟨[], .error .overflow, p'⟩
      else ⟨[hdrV1 p' w, w], .ok (14 + w.length), p'⟩ := by
  have hb := buildHeader_v1 hv p' 0 (14 + w.length) [] w
  obtain ⟨h2, hs, _, _, _, _, _, _, _, _, hwm, _⟩ := hv
  unfold writePacket
  simp only [h2, hm, hs, hwm, Bool.false_eq_true, false_and, if_false, List.length_nil, Nat.zero_mul, Nat.add_zero]
  by_cases hov : 14 + w.length > F.max
  · simp [hov]
  · simp only [hov, if_false]
    simp only [refBytes, List.map_nil, List.flatten_nil] at hb ⊢
    rw [hb]
    simp [hdrV1]

theorem writePacket_v2 {P : Params} {F : Fmt} (hv : ValidV2 F) {e : Env} {p p' : Pkt} {w : Bytes}
    (hm : marshalBody P e p = .ok (w, p')) :
    writePacket P F e p =
      if p.refs.length > P.maxRefs then ⟨[], .error .refcount, p⟩
      else if 20 + p'.refs.length * 4 + w.length > F.max then ⟨[], .error .overflow, p'⟩
      else ⟨[hdrV2 p' w ++ refBytes p'.refs, w], .ok (20 + p'.refs.length * 4 + w.length), p'⟩ := by
  have hb := buildHeader_v2 hv p' p'.refs.length (20 + p'.refs.length * 4 + w.length) (refBytes p'.refs) w
  obtain ⟨h2, hs, _, _, _, _, _, _, _, _, hwm, _⟩ := hv
  unfold writePacket
  simp only [h2, hm, hs, hwm, true_and, if_true]
  by_cases hr : p.refs.length > P.maxRefs
  · simp [hr]
  · simp only [hr, if_false]
    by_cases hov : 20 + p'.refs.length * 4 + w.length > F.max
    · simp [hov]
    · simp only [hov, if_false]
      rw [hb]
      simp [hdrV2]


end Fatchoy.Codec
